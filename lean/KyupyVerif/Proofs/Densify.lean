import KyupyVerif.Proofs.RemoveLine8
/-! Helper lemmas for C10 (`substitute` after the repair of D30): the loop that makes the outputs of the copied forks dense
again (`densify`, Model/Substitute.lean).  On a well-formed circuit it keeps the circuit well-formed, changes nothing but the
output lists of the visited forks (same lines, `None`s squeezed out) and the driver pins of the lines those forks drive —
hence the circuit before embeds into the circuit after with the identity maps (`Emb`, which tolerates a different driver
pin at a fork), and the consistent labellings are literally the same (`densNN_consOff`). -/
namespace KV.Transform
open KV

/-- the circuit after the loop over the nodes `vs` -/
def densNN (nn : NNet) (vs : List Nat) : NNet := { nn with net := vs.foldl densifyNode nn.net }

theorem densNN_nil (nn : NNet) : densNN nn [] = nn := rfl
theorem densNN_cons (nn : NNet) (v : Nat) (vs : List Nat) : densNN nn (v :: vs) = densNN (densNN nn [v]) vs := rfl

/-- `b` is `a` with the output lists of some forks among `V` squeezed -/
structure Dens (a b : NNet) (V : Nat → Prop) : Prop where
  names : b.names = a.names
  nsize : b.net.nodes.size = a.net.nodes.size
  lsize : b.net.lines.size = a.net.lines.size
  io : b.net.io = a.net.io
  kind : ∀ x, (b.net.node x).kind = (a.net.node x).kind
  ins : ∀ x, (b.net.node x).ins = (a.net.node x).ins
  outsMem : ∀ x l, (∃ k, (b.net.node x).outs.getD k none = some l) ↔ (∃ k, (a.net.node x).outs.getD k none = some l)
  frame : ∀ x, ¬ V x → b.net.node x = a.net.node x
  frameCell : ∀ x, (a.net.node x).isFork = false → b.net.node x = a.net.node x
  line : ∀ l, (b.net.line l).driver = (a.net.line l).driver ∧ (b.net.line l).reader = (a.net.line l).reader ∧
    (b.net.line l).rpin = (a.net.line l).rpin
  dpin : ∀ l, l < a.net.lines.size →
    (b.net.line l).dpin = (a.net.line l).dpin ∨ (a.net.node (a.net.line l).driver).isFork = true

theorem Dens.refl (a : NNet) (V : Nat → Prop) : Dens a a V :=
  ⟨rfl, rfl, rfl, rfl, fun _ => rfl, fun _ => rfl, fun _ _ => Iff.rfl, fun _ _ => rfl, fun _ _ => rfl,
   fun _ => ⟨rfl, rfl, rfl⟩, fun _ _ => Or.inl rfl⟩

theorem Dens.trans {a b c : NNet} {V1 V2 : Nat → Prop} (h1 : Dens a b V1) (h2 : Dens b c V2) :
    Dens a c (fun x => V1 x ∨ V2 x) := by
  refine ⟨h2.names.trans h1.names, h2.nsize.trans h1.nsize, h2.lsize.trans h1.lsize, h2.io.trans h1.io,
    fun x => (h2.kind x).trans (h1.kind x), fun x => (h2.ins x).trans (h1.ins x),
    fun x l => (h2.outsMem x l).trans (h1.outsMem x l), ?_, ?_, ?_, ?_⟩
  · intro x hx
    rw [h2.frame x (fun h => hx (Or.inr h)), h1.frame x (fun h => hx (Or.inl h))]
  · intro x hx
    have e1 := h1.frameCell x hx
    rw [h2.frameCell x (by rw [e1]; exact hx), e1]
  · intro l
    obtain ⟨a1, a2, a3⟩ := h1.line l
    obtain ⟨b1, b2, b3⟩ := h2.line l
    exact ⟨b1.trans a1, b2.trans a2, b3.trans a3⟩
  · intro l hl
    rcases h2.dpin l (by rw [h1.lsize]; exact hl) with e2 | e2
    · rcases h1.dpin l hl with e1 | e1
      · exact Or.inl (e2.trans e1)
      · exact Or.inr e1
    · right
      rw [(h1.line l).1] at e2
      simpa [NodeD.isFork, h1.kind] using e2

theorem Dens.weaken {a b : NNet} {V V' : Nat → Prop} (h : Dens a b V) (hVV : ∀ x, V x → V' x) : Dens a b V' :=
  { h with frame := fun x hx => h.frame x (fun hv => hx (hVV x hv)) }

/-! ### list facts: squeezing the `None`s out of a pin list -/
theorem filterMap_id_nodup : ∀ (l : List (Option Nat)), PinNodup l → (l.filterMap id).Nodup
  | [], _ => by simp
  | none :: t, h => by
    simpa using filterMap_id_nodup t (pinNodup_tail h)
  | some x :: t, h => by
    have ih := filterMap_id_nodup t (pinNodup_tail h)
    simp only [List.filterMap_cons, id, List.nodup_cons]
    refine ⟨?_, ih⟩
    intro hx
    obtain ⟨k, hk⟩ := (mem_filterMap_id t x).mp hx
    have := h 0 (k + 1) x (by simp) (by simpa using hk)
    omega

theorem getD_map_some (L : List Nat) (k x : Nat) : (L.map some).getD k none = some x ↔ L[k]? = some x := by
  simp only [List.getD_eq_getElem?_getD, List.getElem?_map]
  cases L[k]? <;> simp

theorem dense_getD_iff (l : List (Option Nat)) (x : Nat) :
    (∃ k, ((l.filterMap id).map some).getD k none = some x) ↔ (∃ k, l.getD k none = some x) := by
  refine Iff.trans ?_ (mem_filterMap_id l x)
  constructor
  · rintro ⟨k, hk⟩
    rw [getD_map_some] at hk
    exact List.mem_of_getElem? hk
  · intro hx
    obtain ⟨k, hk⟩ := List.mem_iff_getElem?.mp hx
    exact ⟨k, (getD_map_some _ k x).mpr hk⟩

theorem dense_pinNodup (l : List (Option Nat)) (h : PinNodup l) : PinNodup ((l.filterMap id).map some) := by
  intro k1 k2 x h1 h2
  rw [getD_map_some] at h1 h2
  have nd := filterMap_id_nodup l h
  obtain ⟨a1, _⟩ := List.getElem?_eq_some_iff.mp h1
  exact (List.getElem?_inj a1 nd).mp (h1.trans h2.symm)

theorem dense_noTrail (L : List Nat) : noTrail (L.map some) = true := by
  simp only [noTrail, bne_iff_ne, ne_eq]
  intro h
  rw [List.getLast?_map] at h
  cases hl : L.getLast? with
  | none => rw [hl] at h; simp at h
  | some y => rw [hl] at h; simp at h

theorem default_not_fork : (default : NodeD).isFork = false := by decide +kernel

/-! ### one iteration -/
theorem densifyNode_densM (nn : NNet) (w : WFm nn) (v : Nat) : Dens nn (densNN nn [v]) (fun x => x = v) ∧ WFm (densNN nn [v]) ∧
    (∀ i, noTrail (nn.net.node i).ins = true ∧ noTrail (nn.net.node i).outs = true →
      noTrail ((densNN nn [v]).net.node i).ins = true ∧ noTrail ((densNN nn [v]).net.node i).outs = true) := by
  by_cases hcond : ((nn.net.node v).isFork && (nn.net.node v).outs.any (·.isNone)) = true
  rotate_left
  · have e : densNN nn [v] = nn := by
      simp only [densNN, List.foldl_cons, List.foldl_nil, densifyNode, hcond]
      rfl
    rw [e]; exact ⟨Dens.refl _ _, w, fun _ h => h⟩
  · have hF : (nn.net.node v).isFork = true := by
      simp only [Bool.and_eq_true] at hcond; exact hcond.1
    have hv : v < nn.net.nodes.size := by
      apply Classical.byContradiction; intro hn
      have : nn.net.node v = default := by
        simp [Net.node, Array.getD_eq_getD_getElem?, Array.getElem?_eq_none (by omega : nn.net.nodes.size ≤ v)]
      rw [this, default_not_fork] at hF
      exact absurd hF (by simp)
    -- the new circuit
    let O : List (Option Nat) := ((nn.net.node v).outs.filterMap id).map some
    have e : densNN nn [v] = { nn with net := { nn.net with
        nodes := nn.net.nodes.modify v fun n => { n with outs := O }
        lines := renumberDpins nn.net.lines O 0 } } := by
      simp only [densNN, List.foldl_cons, List.foldl_nil, densifyNode, hcond, if_true]
      rfl
    have hnode : ∀ x, (densNN nn [v]).net.node x = if x = v then { nn.net.node x with outs := O } else nn.net.node x := by
      intro x
      rw [e]
      show ({ nn.net with nodes := nn.net.nodes.modify v fun n => { n with outs := O } } : Net).node x = _
      rw [node_modify nn.net nn.net.nodes rfl]
      by_cases ex : x = v
      · simp [ex, hv]
      · simp [ex]
    have hline : ∀ y, (densNN nn [v]).net.line y = lineA (renumberDpins nn.net.lines O 0) y := by
      intro y; rw [e]; rfl
    have hOin : ∀ k l, O.getD k none = some l → ∃ k', (nn.net.node v).outs.getD k' none = some l :=
      fun k l hk => (dense_getD_iff _ l).mp ⟨k, hk⟩
    have hOnd : PinNodup O := dense_pinNodup _ (w.outs_nodup v hv)
    have hfields := fun y => renumberDpins_fields O nn.net.lines 0 y
    -- a line not driven by `v` keeps its record
    have hother : ∀ y, (nn.net.line y).driver ≠ v → (densNN nn [v]).net.line y = nn.net.line y := by
      intro y hy
      rw [hline]
      apply renumberDpins_other
      intro k hk
      obtain ⟨k', hk'⟩ := hOin k y hk
      exact hy (w.fwdOut v hv k' y hk').2.1
    have hat : ∀ k y, O.getD k none = some y → ((densNN nn [v]).net.line y).dpin = k := by
      intro k y hk
      obtain ⟨k', hk'⟩ := hOin k y hk
      rw [hline, renumberDpins_at O nn.net.lines 0 k y hOnd hk (w.fwdOut v hv k' y hk').1]
      omega
    have hD : Dens nn (densNN nn [v]) (fun x => x = v) := by
      refine ⟨by rw [e], by rw [e]; simp, by rw [e]; exact renumberDpins_size _ _ _, by rw [e], ?_, ?_, ?_, ?_, ?_, ?_, ?_⟩
      · intro x; rw [hnode]; split <;> rfl
      · intro x; rw [hnode]; split <;> rfl
      · intro x l
        rw [hnode]
        by_cases ex : x = v
        · subst ex; simp only [if_true]; exact dense_getD_iff _ l
        · simp [ex]
      · intro x hx; rw [hnode, if_neg hx]
      · intro x hx
        rw [hnode]
        by_cases ex : x = v
        · subst ex; rw [hF] at hx; exact absurd hx (by simp)
        · simp [ex]
      · intro l; rw [hline]; exact hfields l
      · intro l hl
        by_cases hd : (nn.net.line l).driver = v
        · right; rw [hd]; exact hF
        · left; rw [hother l hd]
    refine ⟨hD, ?_, ?_⟩
    rotate_left
    · intro i hi
      rw [hnode]
      by_cases ei : i = v
      · subst ei
        simp only [if_true]
        exact ⟨hi.1, dense_noTrail _⟩
      · rw [if_neg ei]; exact hi
    have hsz : (densNN nn [v]).net.nodes.size = nn.net.nodes.size := hD.nsize
    have hlsz : (densNN nn [v]).net.lines.size = nn.net.lines.size := hD.lsize
    refine ⟨by rw [hD.names, hsz]; exact w.names, ?_, ?_, ?_, ?_, ?_⟩
    · rw [keys_congr nn (densNN nn [v]) hD.names hsz hD.kind]; exact w.nodup
    · intro i hi; rw [hsz]; exact w.io i (by rw [← hD.io]; exact hi)
    · intro l hl
      rw [hlsz] at hl
      obtain ⟨bd, br, bo, bi⟩ := w.back l hl
      obtain ⟨f1, f2, f3⟩ := hD.line l
      rw [hsz, f1, f2, f3, hD.ins]
      refine ⟨bd, br, ?_, bi⟩
      by_cases hd : (nn.net.line l).driver = v
      · -- `l` is an output of the fork: it has a position in the dense list
        rw [hd] at bo
        obtain ⟨k, hk⟩ := (dense_getD_iff (nn.net.node v).outs l).mpr ⟨_, bo⟩
        rw [hat k l hk, hd, hnode, if_pos rfl]
        exact hk
      · rw [hother l hd, hnode, if_neg hd]; exact bo
    · intro i hi p l hp
      rw [hsz] at hi
      rw [hD.ins] at hp
      obtain ⟨a1, a2, a3⟩ := w.fwdIn i hi p l hp
      obtain ⟨f1, f2, f3⟩ := hD.line l
      exact ⟨by rw [hlsz]; exact a1, f2.trans a2, f3.trans a3⟩
    · intro i hi p l hp
      rw [hsz] at hi
      rw [hnode] at hp
      by_cases ei : i = v
      · subst ei
        simp only [if_true] at hp
        obtain ⟨k', hk'⟩ := hOin p l hp
        obtain ⟨a1, a2, _⟩ := w.fwdOut i hi k' l hk'
        exact ⟨by rw [hlsz]; exact a1, (hD.line l).1.trans a2, hat p l hp⟩
      · rw [if_neg ei] at hp
        obtain ⟨a1, a2, a3⟩ := w.fwdOut i hi p l hp
        have hd : (nn.net.line l).driver ≠ v := by rw [a2]; exact ei
        rw [hother l hd]
        exact ⟨by rw [hlsz]; exact a1, a2, a3⟩

/-- the whole loop (circuits well-formed up to trailing `None`s) -/
theorem densNN_densM : ∀ (vs : List Nat) (nn : NNet), WFm nn → Dens nn (densNN nn vs) (fun x => x ∈ vs) ∧ WFm (densNN nn vs) ∧
    (∀ i, noTrail (nn.net.node i).ins = true ∧ noTrail (nn.net.node i).outs = true →
      noTrail ((densNN nn vs).net.node i).ins = true ∧ noTrail ((densNN nn vs).net.node i).outs = true)
  | [], nn, w => ⟨Dens.refl _ _, w, fun _ h => h⟩
  | v :: vs, nn, w => by
    obtain ⟨d1, w1, t1⟩ := densifyNode_densM nn w v
    obtain ⟨d2, w2, t2⟩ := densNN_densM vs (densNN nn [v]) w1
    rw [densNN_cons]
    exact ⟨(d1.trans d2).weaken (fun x hx => by rcases hx with hx | hx <;> simp [hx]), w2, fun i hi => t2 i (t1 i hi)⟩

/-- the whole loop -/
theorem densNN_dens (vs : List Nat) (nn : NNet) (w : WF nn) : Dens nn (densNN nn vs) (fun x => x ∈ vs) ∧ WF (densNN nn vs) := by
  obtain ⟨d, wm, t⟩ := densNN_densM vs nn w.toWFm
  refine ⟨d, wm.names, wm.nodup, wm.io, wm.back, wm.fwdIn, wm.fwdOut, fun i hi => ?_⟩
  exact t i (w.trail i (by rw [← d.nsize]; exact hi))

/-! ### consequences -/
section cons
variable {a b : NNet} {V : Nat → Prop} (d : Dens a b V) (w : WFm a)
include d w

/-- the circuit before embeds into the circuit after, with the identity maps -/
theorem Dens.emb : Emb a b Ren.id := by
  refine ⟨fun _ h => by rw [← d.nsize]; exact h, fun _ h => by rw [← d.lsize]; exact h, fun _ _ _ _ h => h, fun _ _ _ _ h => h,
    fun j _ => d.kind j, fun j _ => by rw [d.names]; rfl, by rw [d.io]; exact List.map_id' _,
    fun j hj => by rw [d.nsize]; exact w.io j (by rw [← d.io]; exact hj), ?_, ?_⟩
  · intro j _ _ k
    show ((b.net.node j).inPin k).map (fun l => l) = (a.net.node j).inPin k
    simp [NodeD.inPin, d.ins]
  · intro l hl
    rw [d.lsize] at hl
    obtain ⟨f1, _, _⟩ := d.line l
    refine ⟨by rw [d.nsize, f1]; exact (w.back l hl).1, f1.symm, ?_⟩
    rcases d.dpin l hl with e | e
    · exact Or.inl e.symm
    · right
      rw [f1]
      simpa [NodeD.isFork, d.kind] using e

/-- the other direction: the circuit after embeds into the circuit before -/
theorem Dens.emb' : Emb b a Ren.id := by
  refine ⟨fun _ h => by rw [d.nsize]; exact h, fun _ h => by rw [d.lsize]; exact h, fun _ _ _ _ h => h, fun _ _ _ _ h => h,
    fun j _ => (d.kind j).symm, fun j _ => by rw [d.names]; rfl, by rw [d.io]; exact List.map_id' _, w.io, ?_, ?_⟩
  · intro j _ _ k
    show ((a.net.node j).inPin k).map (fun l => l) = (b.net.node j).inPin k
    simp [NodeD.inPin, d.ins]
  · intro l hl
    obtain ⟨f1, _, _⟩ := d.line l
    refine ⟨(w.back l hl).1, f1, ?_⟩
    rcases d.dpin l hl with e | e
    · exact Or.inl e
    · exact Or.inr e

/-- the consistent labellings (outside any hole set) are the same -/
theorem Dens.consOff_iff {α : Type _} (S : Nat → Prop) (z : α) (neg : α → α) (prim : String → α → α → α → α → α) (an v : Nat → α) :
    ConsOff b S z neg prim an v ↔ ConsOff a S z neg prim an v :=
  ⟨fun hc => (d.emb' w).restrict S z neg prim an v hc, fun hc => (d.emb w).restrict S z neg prim an v hc⟩

theorem Dens.ext {α : Type _} (z : α) (neg : α → α) (prim : String → α → α → α → α → α) : Ext z neg prim a b Ren.id :=
  fun S an' v' hc => ⟨an', v', (d.consOff_iff w S z neg prim an' v').mp hc, fun _ _ => rfl, fun _ _ => rfl⟩

omit w in
theorem Dens.any_isSome (x : Nat) : (b.net.node x).outs.any (·.isSome) = (a.net.node x).outs.any (·.isSome) := by
  have key : ∀ (l : List (Option Nat)), l.any (·.isSome) = true ↔ ∃ y k, l.getD k none = some y := by
    intro l
    simp only [List.any_eq_true]
    constructor
    · rintro ⟨o, ho, hs⟩
      cases o with
      | none => simp at hs
      | some y =>
        obtain ⟨k, hk⟩ := List.mem_iff_getElem?.mp ho
        exact ⟨y, k, by simp [List.getD_eq_getElem?_getD, hk]⟩
    · rintro ⟨y, k, hk⟩
      have hlt := getD_some_lt hk
      refine ⟨some y, ?_, rfl⟩
      rw [List.getD_eq_getElem?_getD, List.getElem?_eq_getElem hlt] at hk
      simp only [Option.getD_some] at hk
      rw [← hk]; exact List.getElem_mem hlt
  have : (b.net.node x).outs.any (·.isSome) = true ↔ (a.net.node x).outs.any (·.isSome) = true := by
    rw [key, key]
    constructor
    · rintro ⟨y, hk⟩; exact ⟨y, (d.outsMem x y).mp hk⟩
    · rintro ⟨y, hk⟩; exact ⟨y, (d.outsMem x y).mpr hk⟩
  cases h1 : (b.net.node x).outs.any (·.isSome) <;> cases h2 : (a.net.node x).outs.any (·.isSome) <;> simp_all

end cons

/-- `densify` in the vocabulary of this file -/
theorem densify_eq_densNN (nn : NNet) (map : Array (Option Nat)) :
    ({ nn with net := densify nn.net map } : NNet) = densNN nn (map.toList.filterMap id) := rfl

theorem keptRoot_dens {a b : NNet} {V : Nat → Prop} (d : Dens a b V) (own : List Nat) (root : Nat) :
    keptRoot b own root = keptRoot a own root := by
  simp only [keptRoot, d.any_isSome, d.io, d.kind]

end KV.Transform
