import KyupyVerif.Model.Cycle
/-! Sequential writes (`List.set` / `upd` / `Array.setIfInBounds` folds) seen pointwise: what `s_to_c`, `c_to_s` and
`s_ppo_to_ppi` leave at one position. -/
namespace KV.Cycle
open KV KV.Sig

theorem foldl_set_length {α β} (l : List β) (pos : β → Nat) (v : β → α) (s : List α) :
    (l.foldl (fun s x => s.set (pos x) (v x)) s).length = s.length := by
  induction l generalizing s with
  | nil => rfl
  | cons x r ih => simp only [List.foldl_cons]; rw [ih]; simp

/-- after the writes `s[pos x] := v x` (in list order), position `i` holds `w` if some write hits it and all writes that hit
    it carry `w`; otherwise its old content -/
theorem foldl_set_getElem? {α β} (l : List β) (pos : β → Nat) (v : β → α) (i : Nat) (w : α)
    (h : ∀ x ∈ l, pos x = i → v x = w) (s : List α) :
    (l.foldl (fun s x => s.set (pos x) (v x)) s)[i]? = if i ∈ l.map pos then (s[i]?).map (fun _ => w) else s[i]? := by
  induction l generalizing s with
  | nil => simp
  | cons x r ih =>
    simp only [List.foldl_cons]
    rw [ih (fun y hy => h y (List.mem_cons_of_mem _ hy))]
    have hx := h x List.mem_cons_self
    simp only [List.map_cons, List.mem_cons, List.getElem?_set]
    by_cases hp : pos x = i
    · have hv := hx hp
      subst hp
      simp only [true_or, if_true, hv]
      by_cases hl : pos x < s.length
      · simp [hl]
      · have : s[pos x]? = none := by simp; omega
        simp [hl]
    · have : ¬ i = pos x := fun e => hp e.symm
      simp [hp, this]

theorem foldl_upd_apply {α β} (l : List β) (idx : β → Nat) (v : β → α) (x : Nat) (w : α)
    (h : ∀ b ∈ l, idx b = x → v b = w) (env : Nat → α) :
    (l.foldl (fun e b => upd e (idx b) (v b)) env) x = if x ∈ l.map idx then w else env x := by
  induction l generalizing env with
  | nil => simp
  | cons b r ih =>
    simp only [List.foldl_cons]
    rw [ih (fun y hy => h y (List.mem_cons_of_mem _ hy))]
    have hb := h b List.mem_cons_self
    simp only [List.map_cons, List.mem_cons, upd]
    by_cases hp : idx b = x
    · simp [hp, hb hp]
    · have : ¬ x = idx b := fun e => hp e.symm
      simp [this]

end KV.Cycle
