import KyupyVerif.Proofs.NetlistBF
import KyupyVerif.Proofs.CircSNodes
import KyupyVerif.Model.BenchSem
/-! The circuit `bench stmts` in the terms the semantic bridge needs: its flat line list per gate statement (`bench_flat`), its
non-fork nodes = the gate statements in order (`bench_cells`), every name that occurs is a fork (`bench_fork_*`), `io_nodes` =
the port names (`bench_ioB`), and `err = false ↔ benchOKB` (`bench_err`). -/
namespace KV.Netlist
open KV

/-! ## lines -/

theorem flatLines_novia (C : Circ) (h : ∀ l ∈ C.lines, l.via = none) : flatLines C = C.lines.map fun l => (l.d, l.r) := by
  unfold flatLines
  generalize C.lines = ls at h
  induction ls with
  | nil => rfl
  | cons l r ih =>
    have h1 : l.via = none := h l List.mem_cons_self
    simp only [List.flatMap_cons, List.map_cons, LineM.flat, h1]
    rw [ih (fun x hx => h x (List.mem_cons_of_mem _ hx))]
    rfl

theorem driverLines_eq (name : String) (drv : List String) (k0 : Nat) :
    driverLines name drv k0 = (drv.zipIdx k0).map fun p => (⟨.fork p.1, .cell name p.2, none⟩ : LineM) := by
  induction drv generalizing k0 with
  | nil => rfl
  | cons d r ih => simp only [driverLines, List.zipIdx_cons, List.map_cons, ih]

/-- the flat lines of one gate statement: cell → same-named fork, then one line per operand into pin `k` -/
def gateLines (g : BGate) : List (Ep × Ep) :=
  (.cell g.name 0, .fork g.name) :: g.drv.zipIdx.map fun p => (Ep.fork p.1, Ep.cell g.name p.2)

theorem benchLinesOf_novia (s : BStmt) : ∀ l ∈ benchLinesOf s, l.via = none := by
  cases s with
  | intf ns => intro l hl; cases hl
  | gate n k d =>
    intro l hl
    simp only [benchLinesOf, driverLines_eq, List.mem_cons, List.mem_map] at hl
    rcases hl with rfl | ⟨p, _, rfl⟩ <;> rfl

theorem bench_lines' (stmts : List BStmt) : (bench stmts).lines = stmts.flatMap benchLinesOf := by
  unfold bench
  suffices h : ∀ C : Circ, (stmts.foldl benchStmt C).lines = C.lines ++ stmts.flatMap benchLinesOf by
    have := h {}; simpa using this
  induction stmts with
  | nil => intro C; simp
  | cons s ss ih => intro C; simp only [List.foldl_cons, List.flatMap_cons]; rw [ih, lines_benchStmt]; simp

theorem bench_flat (stmts : List BStmt) : flatLines (bench stmts) = (benchGates stmts).flatMap gateLines := by
  rw [flatLines_novia]
  · rw [bench_lines']
    unfold benchGates
    induction stmts with
    | nil => rfl
    | cons s ss ih =>
      simp only [List.flatMap_cons, List.map_append, ih]
      cases s with
      | intf ns => simp [benchLinesOf, gateOf, List.filterMap_cons]
      | gate n k d =>
        simp [benchLinesOf, gateOf, gateLines, driverLines_eq]
  · intro l hl
    rw [bench_lines'] at hl
    obtain ⟨s, _, hs⟩ := List.mem_flatMap.mp hl
    exact benchLinesOf_novia s l hs

/-- the signal a flat line carries: the name of its driver end point -/
def sigOf (p : Ep × Ep) : String :=
  match p.1 with
  | .fork s => s
  | .cell g _ => g

theorem map_sigOf_zipIdx (name : String) (d : List String) (k : Nat) :
    ((d.zipIdx k).map fun p => sigOf (Ep.fork p.1, Ep.cell name p.2)) = d := by
  induction d generalizing k with
  | nil => rfl
  | cons x xs ih => simp only [List.zipIdx_cons, List.map_cons, ih]; rfl

theorem gateLines_sigs (g : BGate) : (gateLines g).map sigOf = g.name :: g.drv := by
  simp only [gateLines, List.map_cons, List.map_map]
  have := map_sigOf_zipIdx g.name g.drv 0
  simp only [Function.comp_def]
  rw [this]; rfl

theorem benchSigs_eq (stmts : List BStmt) : benchSigs stmts = ((benchGates stmts).flatMap gateLines).map sigOf := by
  unfold benchSigs benchGates
  induction stmts with
  | nil => rfl
  | cons s ss ih =>
    simp only [List.flatMap_cons, ih]
    cases s with
    | intf ns => simp [sigsOf, gateOf, List.filterMap_cons]
    | gate n k d =>
      simp only [sigsOf, gateOf, List.filterMap_cons, List.flatMap_cons, List.map_append, gateLines_sigs]

/-! ## ports -/

theorem bench_ioB (stmts : List BStmt) : (bench stmts).ioB = benchPorts stmts := by
  unfold bench benchPorts
  suffices h : ∀ C : Circ, (stmts.foldl benchStmt C).ioB = C.ioB ++ stmts.flatMap portsOf by
    have := h {}; simpa using this
  induction stmts with
  | nil => intro C; simp
  | cons s ss ih =>
    intro C; simp only [List.foldl_cons, List.flatMap_cons]; rw [ih, ioB_benchStmt]
    cases s <;> simp [benchPortsOf, portsOf]

/-! ## nodes -/

def gateNode (g : BGate) : NodeM := ⟨g.kind, g.name, false⟩

theorem cells_getOrAddFork (C : Circ) (n : String) : cellsOf (getOrAddFork C n) = cellsOf C := by
  unfold getOrAddFork
  split
  · rfl
  · simp [cellsOf, List.filter_append]

theorem cells_foldl_getOrAddFork (l : List String) (C : Circ) : cellsOf (l.foldl getOrAddFork C) = cellsOf C := by
  induction l generalizing C with
  | nil => rfl
  | cons x xs ih => simp only [List.foldl_cons]; rw [ih, cells_getOrAddFork]

theorem cells_benchStmt (C : Circ) (s : BStmt) (hk : ∀ g, gateOf s = some g → g.kind ≠ forkKind) :
    cellsOf (benchStmt C s) = cellsOf C ++ (gateOf s).toList.map gateNode := by
  cases s with
  | intf ns =>
    simp only [benchStmt, gateOf, Option.toList_none, List.map_nil, List.append_nil]
    show cellsOf (ns.foldl getOrAddFork C) = _
    exact cells_foldl_getOrAddFork ns C
  | gate n k d =>
    have hk' : k ≠ forkKind := hk ⟨n, k, d⟩ rfl
    simp only [benchStmt, gateOf, Option.toList_some, List.map_cons, List.map_nil, gateNode]
    show cellsOf (getOrAddFork ((d.foldl getOrAddFork C).addCell k n) n) = _
    rw [cells_getOrAddFork]
    show List.filter _ ((d.foldl getOrAddFork C).nodes ++ [⟨k, n, false⟩]) = _
    rw [List.filter_append]
    have := cells_foldl_getOrAddFork d C
    unfold cellsOf at this
    rw [this]
    simp [cellsOf, hk']

theorem bench_cells (stmts : List BStmt) (hk : ((benchGates stmts).all fun g => g.kind != forkKind) = true) :
    cellsOf (bench stmts) = (benchGates stmts).map gateNode := by
  unfold bench benchGates at *
  suffices h : ∀ C : Circ, cellsOf (stmts.foldl benchStmt C) = cellsOf C ++ (stmts.filterMap gateOf).map gateNode by
    have := h {}; simpa [cellsOf] using this
  induction stmts with
  | nil => intro C; simp
  | cons s ss ih =>
    intro C
    simp only [List.foldl_cons]
    have hs : ∀ g, gateOf s = some g → g.kind ≠ forkKind := by
      intro g hg
      have := List.all_eq_true.mp hk g (by simp [List.filterMap_cons, hg])
      simpa using this
    have hss : ((ss.filterMap gateOf).all fun g => g.kind != forkKind) = true := by
      rw [List.all_eq_true] at hk ⊢
      intro g hg
      apply hk g
      rw [List.filterMap_cons]
      split
      · exact hg
      · exact List.mem_cons_of_mem _ hg
    rw [ih hss, cells_benchStmt C s hs, List.filterMap_cons]
    cases hg : gateOf s <;> simp

/-- every port name is a fork -/
theorem bench_fork_port (stmts : List BStmt) (s : String) (hs : s ∈ benchPorts stmts) : (bench stmts).isFork s = true := by
  unfold benchPorts at hs
  obtain ⟨st, hst, hp⟩ := List.mem_flatMap.mp hs
  cases st with
  | gate _ _ _ => cases hp
  | intf ns =>
    obtain ⟨C, _, h⟩ := foldl_reach benchStmt sub_benchStmt hst {}
    apply h.isFork
    have s1 : Sub (ns.foldl getOrAddFork C) (benchStmt C (.intf ns)) := sub_pushIoB _ _
    exact s1.isFork (foldl_getOrAddFork_isFork ns C s hp)

/-- the name and every operand of a gate statement are forks -/
theorem bench_fork_gate (stmts : List BStmt) (g : BGate) (hg : g ∈ benchGates stmts) :
    (bench stmts).isFork g.name = true ∧ ∀ d ∈ g.drv, (bench stmts).isFork d = true := by
  unfold benchGates at hg
  obtain ⟨st, hst, hgo⟩ := List.mem_filterMap.mp hg
  cases st with
  | intf _ => cases hgo
  | gate n k dr =>
    simp only [gateOf, Option.some.injEq] at hgo
    subst hgo
    obtain ⟨C, _, h⟩ := foldl_reach benchStmt sub_benchStmt hst {}
    refine ⟨h.isFork ?_, fun d hd => h.isFork ?_⟩
    · have s1 : Sub (getOrAddFork ((dr.foldl getOrAddFork C).addCell k n) n) (benchStmt C (.gate n k dr)) :=
        (sub_addLine _ _ _ _).trans (sub_addLines _ _)
      exact s1.isFork (getOrAddFork_isFork _ _)
    · have s1 : Sub (dr.foldl getOrAddFork C) (benchStmt C (.gate n k dr)) :=
        (sub_addCell _ _ _).trans ((sub_getOrAddFork _ _).trans ((sub_addLine _ _ _ _).trans (sub_addLines _ _)))
      exact s1.isFork (foldl_getOrAddFork_isFork dr C _ hd)

/-! ## resolution of end points -/

theorem resolved_of_isFork (C : Circ) (s : String) (h : C.isFork s = true) : C.resolved (.fork s) := by
  unfold Circ.resolved Circ.nodeIdx
  apply List.findIdx_lt_length_of_exists
  unfold Circ.isFork at h
  exact List.any_eq_true.mp h

theorem resolved_of_cell (C : Circ) (x : NodeM) (hx : x ∈ cellsOf C) (p : Nat) : C.resolved (.cell x.name p) := by
  unfold Circ.resolved Circ.nodeIdx
  apply List.findIdx_lt_length_of_exists
  unfold cellsOf at hx
  rw [List.mem_filter] at hx
  exact ⟨x, hx.1, by simp only [hx.2, Bool.true_and, beq_self_eq_true]⟩

theorem kindOf_cell (C : Circ) (hnd : ((cellsOf C).map (·.name)).Nodup) (x : NodeM) (hx : x ∈ cellsOf C) (p : Nat) :
    C.kindOf (.cell x.name p) = x.kind := by
  have hx' := hx
  unfold cellsOf at hx'
  rw [List.mem_filter] at hx'
  obtain ⟨i, hi, hxi⟩ := List.getElem_of_mem hx'.1
  have hget : C.nodes[i]? = some x := by rw [List.getElem?_eq_getElem hi, hxi]
  have := nodeIdx_cell_unique C hnd i x hget (by simpa using hx'.2) p
  unfold Circ.kindOf
  rw [this, List.getD_eq_getElem?_getD, hget]
  rfl

end KV.Netlist
