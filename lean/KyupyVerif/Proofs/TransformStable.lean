import KyupyVerif.Proofs.TransformElim
/-! Helper lemmas for C10: the repaired `eliminate_1to1_forks` (`elimForksStableIn` = the loop followed by
`_restore_node_order`) keeps the names AND the order of ports and state elements. -/
namespace KV.Transform
open KV
variable {skip : Bool}

theorem filter_range_map {β} (N : Nat) (g : Nat → β) (q : Nat → Bool) (p : β → Bool) (f : β → String) (nm : Nat → String)
    (hq : ∀ i, i < N → q i = p (g i)) (hf : ∀ i, i < N → f (g i) = nm i) :
    ((List.range N).filter q).map nm = (((List.range N).map g).filter p).map f := by
  rw [List.filter_map, List.map_map]
  have : (List.range N).filter q = (List.range N).filter (p ∘ g) := by
    apply List.filter_congr; intro i hi; exact hq i (List.mem_range.mp hi)
  rw [this]
  apply List.map_congr_left; intro i hi
  have := List.mem_range.mp (List.mem_filter.mp hi).1
  simp [Function.comp, hf i this]

/-- `[n.name for n in c.s_nodes]` = port names, then flip-flop names, then latch names -/
theorem sNames_eq (nn : NNet) : nn.sNames = nn.ioNames ++ nn.dffNames ++ nn.latchNames := by
  simp only [NNet.sNames, Net.sNodes, List.map_append, NNet.ioNames, NNet.dffNames, NNet.latchNames, NNet.kindNames]
  congr 1
  · congr 1
    exact filter_range_map _ _ _ _ _ _ (fun i _ => rfl) (fun i _ => rfl)
  · exact filter_range_map _ _ _ _ _ _ (fun i _ => rfl) (fun i _ => rfl)

theorem swapPop_perm_eraseIdx {α} (g : Nat → α) (M i : Nat) (hi : i ≤ M) :
    ((List.range M).map fun j => if j = i then g M else g j).Perm (((List.range (M + 1)).map g).eraseIdx i) := by
  rw [List.range_succ, List.map_append, List.map_singleton]
  by_cases e : i = M
  · subst e
    have : ((List.range i).map fun j => if j = i then g i else g j) = (List.range i).map g := by
      apply List.map_congr_left; intro j hj
      have : j ≠ i := by have := List.mem_range.mp hj; omega
      simp [this]
    rw [this, List.eraseIdx_append_of_length_le (by simp)]
    simp
  · have hlt : i < M := by omega
    have hset : ((List.range M).map fun j => if j = i then g M else g j) = ((List.range M).map g).set i (g M) := by
      apply List.ext_getElem?
      intro x
      rw [List.getElem?_set]
      simp only [List.getElem?_map, List.length_map, List.length_range, hlt, if_true]
      by_cases hx : x < M
      · rw [List.getElem?_range hx]
        by_cases ex : i = x
        · subst ex; simp
        · have : ¬ x = i := fun c => ex c.symm
          simp [ex, this]
      · rw [List.getElem?_eq_none (by simp; omega)]
        have : ¬ i = x := by omega
        simp [this]
    rw [hset, List.eraseIdx_append_of_lt_length (by simp [hlt])]
    rw [List.set_eq_take_append_cons_drop, List.eraseIdx_eq_take_drop_succ]
    simp only [List.length_map, List.length_range, hlt, if_true]
    rw [List.append_assoc]
    apply List.Perm.append_left
    exact (List.perm_append_comm (l₁ := [g M]) (l₂ := List.drop (i + 1) (List.map g (List.range M))))

def keyOf (kn : String × String) : String × Bool := (kn.2, kn.1 == "__fork__")

theorem keys_eq (nn : NNet) : nn.keys = nn.kindNames.map keyOf := by
  simp only [NNet.keys, NNet.kindNames, List.map_map]
  apply List.map_congr_left; intro i _
  simp [NNet.key, keyOf, NodeD.isFork, Function.comp]

/-- one loop iteration either changes nothing or removes exactly node `i` (up to order) -/
theorem elimOne_erase (nn nn' : NNet) (i : Nat) (h : LI nn) (hi : i < nn.net.nodes.size) (he : elimOne skip nn i = some nn') :
    nn' = nn ∨ (nn'.net.nodes.size + 1 = nn.net.nodes.size ∧ nn'.kindNames.Perm (nn.kindNames.eraseIdx i)) := by
  rcases elimOne_shape nn nn' i he with e | ⟨hio, mid, e, hn, hio2, hsz, hk⟩
  · left; exact e
  · right
    have hmid : LI mid := ⟨by rw [hn, hsz]; exact h.1, by rw [hio2, hsz]; exact h.2⟩
    have hi' : i < mid.net.nodes.size := by rw [hsz]; exact hi
    have hkn : mid.kindNames = nn.kindNames := by
      rw [kindNames_eq, kindNames_eq, hsz, hn]
      apply List.map_congr_left; intro j _; rw [hk j]
    subst e
    constructor
    · simp [delNode]; omega
    · rw [← hkn, delNode_kindNames mid i hmid hi', kindNames_eq mid]
      have hM : mid.net.nodes.size = (mid.net.nodes.size - 1) + 1 := by omega
      conv => rhs; rw [hM]
      exact swapPop_perm_eraseIdx (fun j => (kindAt mid.net.nodes j, mid.names.getD j "")) (mid.net.nodes.size - 1) i (by omega)

/-- what the whole loop keeps: every node of the result is a node of the start circuit (kind and name), keys stay
    distinct, and a result of the same size is the start circuit itself -/
structure Sub (r nn : NNet) : Prop where
  mem : ∀ x ∈ r.kindNames, x ∈ nn.kindNames
  nodup : nn.keys.Nodup → r.keys.Nodup
  size : r.net.nodes.size ≤ nn.net.nodes.size
  same : r.net.nodes.size = nn.net.nodes.size → r = nn

theorem Sub.refl (nn : NNet) : Sub nn nn := ⟨fun _ h => h, fun h => h, Nat.le_refl _, fun _ => rfl⟩

theorem Sub.trans {a b c : NNet} (h1 : Sub a b) (h2 : Sub b c) : Sub a c :=
  ⟨fun x hx => h2.mem x (h1.mem x hx), fun h => h1.nodup (h2.nodup h), Nat.le_trans h1.size h2.size,
   fun e => by
     have e2 : b.net.nodes.size = c.net.nodes.size := Nat.le_antisymm h2.size (by rw [← e]; exact h1.size)
     have e1 : a.net.nodes.size = b.net.nodes.size := by rw [e, e2]
     rw [h1.same e1, h2.same e2]⟩

theorem elimOne_sub (nn nn' : NNet) (i : Nat) (h : LI nn) (hi : i < nn.net.nodes.size) (he : elimOne skip nn i = some nn') :
    Sub nn' nn := by
  rcases elimOne_erase nn nn' i h hi he with e | ⟨hs, hp⟩
  · subst e; exact Sub.refl _
  · refine ⟨fun x hx => List.mem_of_mem_eraseIdx ((hp.mem_iff).mp hx), fun hn => ?_, by omega, fun e => by omega⟩
    rw [keys_eq] at hn ⊢
    have hp2 := hp.map keyOf
    rw [hp2.nodup_iff]
    exact List.Nodup.sublist ((List.eraseIdx_sublist _ i).map keyOf) hn

theorem elimForksIn_sub : ∀ (order : List String) (nn r : NNet), LI nn → elimForksIn skip order nn = some r → Sub r nn
  | [], nn, r, _, he => by
    simp only [elimForksIn, List.foldlM_nil] at he
    cases (Option.some.inj he); exact Sub.refl _
  | name :: order, nn, r, h, he => by
    simp only [elimForksIn, List.foldlM_cons] at he
    simp only [Option.bind_eq_bind, Option.bind_eq_some_iff] at he
    obtain ⟨s, hs, hrest⟩ := he
    by_cases hlt : nn.lookup (name, true) < nn.net.nodes.size
    · simp only [hlt, if_true] at hs
      have h1 := elimOne_sub nn s _ h hlt hs
      have hLI := (elimOne_obs nn s _ h hlt (lookup_isFork nn name hlt) hs).1
      exact (elimForksIn_sub order s r hLI hrest).trans h1
    · simp only [hlt, if_false] at hs
      cases (Option.some.inj hs)
      exact elimForksIn_sub order nn r h hrest

theorem inj_of_nodup_map {α β} (f : α → β) : ∀ (l : List α), (l.map f).Nodup → ∀ a ∈ l, ∀ b ∈ l, f a = f b → a = b
  | [], _, a, ha, _, _, _ => by simp at ha
  | x :: l, hn, a, ha, b, hb, e => by
    simp only [List.map_cons, List.nodup_cons, List.mem_map, not_exists, not_and] at hn
    rcases List.mem_cons.mp ha with rfl | ha' <;> rcases List.mem_cons.mp hb with rfl | hb'
    · rfl
    · exact absurd e.symm (hn.1 b hb')
    · exact absurd e (hn.1 a ha')
    · exact inj_of_nodup_map f l hn.2 a ha' b hb' e

theorem filterMap_eq_filter_of {α} (l : List α) (f : α → Option α) (q : α → Bool)
    (h : ∀ x ∈ l, f x = if q x then some x else none) : l.filterMap f = l.filter q := by
  induction l with
  | nil => rfl
  | cons x l ih =>
    have hx := h x List.mem_cons_self
    have ih' := ih (fun y hy => h y (List.mem_cons_of_mem _ hy))
    by_cases hq : q x = true
    · simp [hx, hq, ih']
    · simp [hx, hq, ih']

/-- position ↦ (kind, name) of a dump -/
def knAt (r : NNet) (j : Nat) : String × String := (kindAt r.net.nodes j, r.names.getD j "")

theorem kindNames_getElem (r : NNet) (j : Nat) (h : j < r.kindNames.length) : r.kindNames[j] = knAt r j := by
  simp [kindNames_eq, knAt]

theorem kindNames_length (r : NNet) : r.kindNames.length = r.net.nodes.size := by simp [kindNames_eq]

theorem key_eq_keyOf (r : NNet) (j : Nat) : r.key j = keyOf (knAt r j) := by
  simp [NNet.key, keyOf, knAt, kindAt, NodeD.isFork, Net.node]

theorem keys_getElem (r : NNet) (j : Nat) (h : j < r.keys.length) : r.keys[j] = r.key j := by
  simp [NNet.keys]


def survOf (K : List (String × Bool)) (r : NNet) : List Nat :=
  K.filterMap fun k => let j := r.lookup k; if j < r.net.nodes.size then some j else none


/-- the surviving positions listed in the order of the original keys, mapped to (kind, name):
    exactly the original (kind, name) entries whose key survives -/
theorem surv_map (K : List (String × Bool)) (KN : List (String × String)) (r : NNet)
    (hK : K = KN.map keyOf) (hn : K.Nodup) (hmem : ∀ x ∈ r.kindNames, x ∈ KN) :
    (survOf K r).map (knAt r) =
      KN.filter fun x => r.keys.contains (keyOf x) := by
  subst hK
  unfold survOf
  rw [List.map_filterMap, List.filterMap_map]
  apply filterMap_eq_filter_of
  intro x hx
  simp only [Function.comp, NNet.lookup]
  have hkl : r.keys.length = r.net.nodes.size := by simp [NNet.keys]
  by_cases hc : keyOf x ∈ r.keys
  · have hlt : List.idxOf (keyOf x) r.keys < r.keys.length := List.idxOf_lt_length_iff.mpr hc
    have hlt' : List.idxOf (keyOf x) r.keys < r.net.nodes.size := by rw [← hkl]; exact hlt
    have hget := List.getElem_idxOf hlt
    have hkey : keyOf (knAt r (List.idxOf (keyOf x) r.keys)) = keyOf x := by
      rw [← key_eq_keyOf]
      rw [← keys_getElem r _ hlt]; exact hget
    have hin : knAt r (List.idxOf (keyOf x) r.keys) ∈ KN := by
      apply hmem
      rw [← kindNames_getElem r _ (by rw [kindNames_length]; exact hlt')]
      exact List.getElem_mem _
    have := inj_of_nodup_map keyOf KN hn _ hin x hx hkey
    simp [hlt', this, hc]
  · have : ¬ List.idxOf (keyOf x) r.keys < r.net.nodes.size := by
      rw [← hkl]; intro h; exact hc (List.idxOf_lt_length_iff.mp h)
    simp [this, hc]

theorem key_mem_K (K : List (String × Bool)) (KN : List (String × String)) (r : NNet) (hK : K = KN.map keyOf)
    (hmem : ∀ x ∈ r.kindNames, x ∈ KN) (j : Nat) (hj : j < r.net.nodes.size) : r.key j ∈ K := by
  subst hK
  rw [key_eq_keyOf]
  apply List.mem_map_of_mem
  apply hmem
  rw [← kindNames_getElem r j (by rw [kindNames_length]; exact hj)]
  exact List.getElem_mem _

theorem rest_nil (K : List (String × Bool)) (KN : List (String × String)) (r : NNet) (hK : K = KN.map keyOf)
    (hmem : ∀ x ∈ r.kindNames, x ∈ KN) :
    ((List.range r.net.nodes.size).filter fun j => !(K.contains (r.key j))) = [] := by
  rw [List.filter_eq_nil_iff]
  intro j hj
  have := key_mem_K K KN r hK hmem j (List.mem_range.mp hj)
  simp [this]

theorem restoreOrder_eq (K : List (String × Bool)) (KN : List (String × String)) (r : NNet) (hK : K = KN.map keyOf)
    (hmem : ∀ x ∈ r.kindNames, x ∈ KN) :
    restoreOrder K r =
      { net := { nodes := ((survOf K r).map r.net.node).toArray
                 lines := r.net.lines.map fun ln => { ln with driver := (survOf K r).idxOf ln.driver, reader := (survOf K r).idxOf ln.reader }
                 io := r.net.io.map fun j => (survOf K r).idxOf j }
        names := ((survOf K r).map fun j => r.names.getD j "").toArray } := by
  simp only [restoreOrder, rest_nil K KN r hK hmem, List.append_nil, survOf]

theorem restoreOrder_kindNames (K : List (String × Bool)) (KN : List (String × String)) (r : NNet) (hK : K = KN.map keyOf)
    (hmem : ∀ x ∈ r.kindNames, x ∈ KN) : (restoreOrder K r).kindNames = (survOf K r).map (knAt r) := by
  rw [restoreOrder_eq K KN r hK hmem]
  apply List.ext_getElem
  · simp [kindNames_eq]
  · intro i h1 h2
    have hi : i < (survOf K r).length := by simpa using h2
    simp [kindNames_eq, knAt, kindAt, hi, Net.node]

/-- every position of `r` is listed among the survivors (keys distinct, every key an original key) -/
theorem mem_surv (K : List (String × Bool)) (KN : List (String × String)) (r : NNet) (hK : K = KN.map keyOf)
    (hmem : ∀ x ∈ r.kindNames, x ∈ KN) (hnd : r.keys.Nodup) (j : Nat) (hj : j < r.net.nodes.size) : j ∈ survOf K r := by
  simp only [survOf, List.mem_filterMap]
  refine ⟨r.key j, key_mem_K K KN r hK hmem j hj, ?_⟩
  have hl : j < r.keys.length := by simp [NNet.keys, hj]
  have : r.lookup (r.key j) = j := by
    rw [NNet.lookup, ← keys_getElem r j hl]
    exact idxOf_getElem_nodup r.keys j hl hnd
  simp [this, hj]

theorem restoreOrder_ioNames (K : List (String × Bool)) (KN : List (String × String)) (r : NNet) (hK : K = KN.map keyOf)
    (hmem : ∀ x ∈ r.kindNames, x ∈ KN) (hnd : r.keys.Nodup) (hli : LI r) :
    (restoreOrder K r).ioNames = r.ioNames := by
  rw [restoreOrder_eq K KN r hK hmem]
  simp only [NNet.ioNames, List.map_map]
  apply List.map_congr_left
  intro j hj
  have hm := mem_surv K KN r hK hmem hnd j (hli.2 j hj)
  have hlt : List.idxOf j (survOf K r) < (survOf K r).length := List.idxOf_lt_length_iff.mpr hm
  simp [Function.comp, Array.getD_eq_getD_getElem?, hlt, List.getElem_idxOf hlt]

/-- the repaired loop: ports, and every class of nodes that a fork-rejecting predicate selects, keep names AND order -/
theorem elimStable_obs (order : List String) (nn nn' : NNet) (w : WF nn) (he : elimForksStableIn skip order nn = some nn') :
    nn'.ioNames = nn.ioNames ∧
    ∀ p : String × String → Bool, (∀ name, p ("__fork__", name) = false) → nn'.kindNames.filter p = nn.kindNames.filter p := by
  simp only [elimForksStableIn, Option.map_eq_some_iff] at he
  obtain ⟨r, hr, e⟩ := he
  have hli : LI nn := ⟨w.names, w.io⟩
  have hsub := elimForksIn_sub order nn r hli hr
  have hobs := elimForksIn_obs order nn r hli hr
  by_cases hs : r.net.nodes.size = nn.net.nodes.size
  · have : r = nn := hsub.same hs
    subst this
    simp at e; subst e
    exact ⟨rfl, fun _ _ => rfl⟩
  · have hne : (r.net.nodes.size != nn.net.nodes.size) = true := by simpa using hs
    rw [if_pos hne] at e
    subst e
    have hK := keys_eq nn
    have hnd := hsub.nodup w.nodup
    refine ⟨(restoreOrder_ioNames nn.keys nn.kindNames r hK hsub.mem hnd hobs.1).trans hobs.2.1, fun p hp => ?_⟩
    rw [restoreOrder_kindNames nn.keys nn.kindNames r hK hsub.mem, surv_map nn.keys nn.kindNames r hK w.nodup hsub.mem,
      List.filter_filter]
    apply List.filter_congr
    intro x hx
    by_cases hpx : p x = true
    · have h1 : x ∈ nn.kindNames.filter p := List.mem_filter.mpr ⟨hx, hpx⟩
      have h2 : x ∈ r.kindNames.filter p := ((hobs.2.2 p hp).mem_iff).mpr h1
      have h3 : x ∈ r.kindNames := (List.mem_filter.mp h2).1
      have h4 : keyOf x ∈ r.keys := by rw [keys_eq r]; exact List.mem_map_of_mem h3
      simp [hpx, h4]
    · simp [hpx]

theorem elimStable_sNames (order : List String) (nn nn' : NNet) (w : WF nn) (he : elimForksStableIn skip order nn = some nn') :
    nn'.sNames = nn.sNames := by
  have h := elimStable_obs order nn nn' w he
  have hd : hasSub "dff" "__fork__".toLower = false := by decide +kernel
  have hl : hasSub "latch" "__fork__".toLower = false := by decide +kernel
  have e1 := h.2 (fun kn => hasSub "dff" kn.1.toLower) (fun _ => hd)
  have e2 := h.2 (fun kn => hasSub "latch" kn.1.toLower) (fun _ => hl)
  rw [sNames_eq, sNames_eq, h.1]
  simp only [NNet.dffNames, NNet.latchNames, e1, e2]
end KV.Transform
