import KyupyVerif.Model.WaveStrip
import KyupyVerif.Proofs.WaveCircuit
import KyupyVerif.Proofs.WaveMono
import KyupyVerif.Proofs.WaveExact
import KyupyVerif.Proofs.WaveAffine
import KyupyVerif.Proofs.Solve
/-! Fork stripping of the waveform simulator (C06).

Gate level: a buffer whose operand 0 has zero delay copies a strictly increasing operand waveform exactly
(`buf0_run`, `waveEval_buf0`, `waveSem_buf0`), for any other operands, as long as the waveform fits into the
output capacity.  Program level: `strip_lockstep` runs the un-stripped program and the stripped program
(fork rows removed, readers redirected to the stem as value source, keeping the branch as delay line) side by
side. -/
namespace KV.Wave
open KV KV.Sig

/-! ## gate level -/

/-- the LUT of a buffer on operand 0 (`sim.BUF1 = 0xAAAA`): output = operand 0, whatever operands 1–3 are -/
def IsBuf (lut : Nat) : Prop := ∀ v : Fin 4 → Bool, lutBit lut v = v 0

theorem isBuf_aux : ∀ a b c d : Bool,
    ((0xAAAA >>> ((if a then 1 else 0) + (if b then 2 else 0) + (if c then 4 else 0) + (if d then 8 else 0))) % 2 == 1) = a := by
  decide

theorem isBuf_BUF1 : IsBuf 0xAAAA := fun v => isBuf_aux (v 0) (v 1) (v 2) (v 3)

theorem stepCore_skip (c : T) (i : Fin 4) (b2 b3 : Bool) (st : St) :
    stepCore c i false b2 b3 st =
      { st with r := upd st.r i (st.r i).tail, k := upd st.k i (st.k i + 1), inp := upd st.inp i (!st.inp i) } := rfl

theorem stepCore_emit (c : T) (i : Fin 4) (st : St) :
    stepCore c i true true true st =
      { st with r := upd st.r i (st.r i).tail, k := upd st.k i (st.k i + 1), inp := upd st.inp i (!st.inp i),
                z := c :: st.z, prev := c, zval := !st.zval } := rfl

theorem IsBuf.even {lut : Nat} (h : IsBuf lut) : (lut % 2 == 1) = false := by
  have := h (fun _ => false)
  simpa [lutBit, idx] using this

theorem T.add_zero (a : T) : a.add 0 = a := by
  cases a <;> simp [T.add]

theorem T.widerThan_zero_of_lt {c p : T} (hc : c = T.tmin ∨ c.isFin = true) (hp : p = T.tmin ∨ p.isFin = true)
    (h : T.lt p c = true) : T.widerThan c p 0 = true := by
  simp only [T.lt_eq] at h
  cases c <;> cases p <;> simp_all [T.lt', T.widerThan, T.isFin]

theorem take_succ_of_drop {α} {w : List α} {k : Nat} {x : α} {xs : List α} (h : w.drop k = x :: xs) :
    w.take (k + 1) = w.take k ++ [x] := by
  induction k generalizing w with
  | zero => cases w with
    | nil => simp at h
    | cons a r => simp at h; simp [h.1]
  | succ n ih => cases w with
    | nil => simp at h
    | cons a r => simp only [List.drop_succ_cons] at h; simp [ih h]

theorem drop_pred_of_drop {α} {w : List α} {n : Nat} {x : α} {xs : List α} (h : w.drop (n + 1) = x :: xs) :
    ∃ y, w.drop n = y :: x :: xs := by
  induction n generalizing w with
  | zero => cases w with
    | nil => simp at h
    | cons a r => simp at h; exact ⟨a, by simp [h]⟩
  | succ n ih => cases w with
    | nil => simp at h
    | cons a r => simp only [List.drop_succ_cons] at h ⊢; exact ih h

/-- state of the evaluation loop of a zero-delay buffer whose operand 0 is `w`: the output stack is the
    consumed prefix of `w` -/
structure InvBuf (w : List T) (s : St) : Prop where
  r0 : s.r 0 = w.drop (s.k 0)
  k0 : s.k 0 ≤ w.length
  z : s.z = (w.take (s.k 0)).reverse
  prev : s.prev = headT s.z T.tmin
  zval : s.zval = (s.k 0 % 2 == 1)
  inp : s.inp 0 = (s.k 0 % 2 == 1)
  ovf : s.ovf = 0

theorem InvBuf.zlen {w : List T} {s : St} (h : InvBuf w s) : s.z.length = s.k 0 := by
  rw [h.z, List.length_reverse, List.length_take]; have := h.k0; omega

theorem stepBuf_other (E : Env) (hbuf : IsBuf E.lut) (w : List T) (s : St) (h : InvBuf w s)
    (hp : pick E.D E.terms s ≠ 0) : InvBuf w (step E.lut E.D E.terms E.zcap s) := by
  have hd1 : dec1 E.lut s (pick E.D E.terms s) = false := by
    unfold dec1
    rw [hbuf, h.zlen]
    simp only [upd, if_neg (Ne.symm hp), h.inp]
    cases (s.k 0 % 2 == 1) <;> rfl
  rw [step_eq_core, hd1, stepCore_skip]
  have hu : ∀ {α : Type} (f : Fin 4 → α) (v : α), upd f (pick E.D E.terms s) v 0 = f 0 := by
    intro α f v; simp only [upd, if_neg (Ne.symm hp)]
  exact ⟨by simp only [hu]; exact h.r0, by simp only [hu]; exact h.k0, by simp only [hu]; exact h.z, h.prev,
    by simp only [hu]; exact h.zval, by simp only [hu]; exact h.inp, h.ovf⟩

theorem stepBuf_zero (E : Env) (hbuf : IsBuf E.lut) (hz : ∀ p q, E.D 0 p q = 0) (w : List T)
    (hwf : ∀ e ∈ w, e = T.tmin ∨ e.isFin = true) (hinc : Incr w) (hlen : w.length < E.zcap)
    (s : St) (h : InvBuf w s) (hlt : T.lt (cur E.D E.terms s) .tmax = true)
    (hp : pick E.D E.terms s = 0) : InvBuf w (step E.lut E.D E.terms E.zcap s) := by
  have hz : ∀ p q, E.D ((0 : Fin 4) : Nat) p q = 0 := hz
  have hne := pick_nonempty E s hlt
  rw [hp] at hne
  obtain ⟨x, xs, hr⟩ : ∃ x xs, s.r 0 = x :: xs := by
    cases hr : s.r 0 with
    | nil => exact absurd hr hne
    | cons x xs => exact ⟨x, xs, rfl⟩
  have hdrop : w.drop (s.k 0) = x :: xs := by rw [← h.r0, hr]
  have hklt : s.k 0 < w.length := by
    rcases Nat.lt_or_ge (s.k 0) w.length with hh | hh
    · exact hh
    · rw [List.drop_eq_nil_iff.mpr hh] at hdrop; cases hdrop
  have hxw : x ∈ w := List.mem_of_mem_drop (hdrop ▸ List.mem_cons_self)
  have hc : cur E.D E.terms s = x := by
    rw [← pend_pick, hp]; unfold pend; rw [hr, hz]; simp only [headT]; exact T.add_zero x
  -- decision 1: the buffer output always follows a toggle of operand 0
  have hd1 : dec1 E.lut s 0 = true := by
    unfold dec1
    rw [hbuf, h.zlen]
    simp only [upd, if_true, h.inp]
    cases (s.k 0 % 2 == 1) <;> rfl
  -- decision 2: never filtered (strictly later than the previous entry, threshold 0)
  have hd2 : dec2 E.D E.terms s x 0 = true := by
    unfold dec2
    rw [hz, hz]
    cases hk : s.k 0 with
    | zero => have := h.zlen; rw [hk] at this; simp [this]
    | succ n =>
      rw [hk] at hdrop
      obtain ⟨y, hy⟩ := drop_pred_of_drop hdrop
      have hyw : y ∈ w := List.mem_of_mem_drop (hy ▸ List.mem_cons_self)
      have htk : w.take (n + 1) = w.take n ++ [y] := take_succ_of_drop hy
      have hprev : s.prev = y := by
        rw [h.prev, h.z, hk, htk]; simp [headT]
      have hlt' : T.lt y x = true := by
        have hsub : Incr (w.drop n) := List.Pairwise.sublist (List.drop_sublist n w) hinc
        rw [hy] at hsub
        exact (List.pairwise_cons.mp hsub).1 x (by simp)
      rw [hprev, T.widerThan_zero_of_lt (hwf x hxw) (hwf y hyw) hlt']
      simp
  have hd3 : dec3 E.zcap s = true := by
    unfold dec3; rw [h.zlen]; exact decide_eq_true (by omega)
  rw [step_eq_core, hp, hc, hd1, hd2, hd3, stepCore_emit]
  have hu : ∀ {α : Type} (f : Fin 4 → α) (v : α), upd f 0 v 0 = v := by
    intro α f v; simp only [upd, if_true]
  refine ⟨?_, ?_, ?_, ?_, ?_, ?_, h.ovf⟩
  · simp only [hu]; rw [hr, List.tail_cons, ← List.tail_drop, hdrop, List.tail_cons]
  · simp only [hu]; omega
  · simp only [hu]; rw [take_succ_of_drop hdrop, List.reverse_append, h.z]; rfl
  · simp only [headT]
  · simp only [hu]; rw [h.zval]; cases hh : (s.k 0 % 2 == 1) <;> simp at hh ⊢ <;> omega
  · simp only [hu]; rw [h.inp]; cases hh : (s.k 0 % 2 == 1) <;> simp at hh ⊢ <;> omega

theorem stepBuf (E : Env) (hbuf : IsBuf E.lut) (hz : ∀ p q, E.D 0 p q = 0) (w : List T)
    (hwf : ∀ e ∈ w, e = T.tmin ∨ e.isFin = true) (hinc : Incr w) (hlen : w.length < E.zcap)
    (s : St) (h : InvBuf w s) (hlt : T.lt (cur E.D E.terms s) .tmax = true) :
    InvBuf w (step E.lut E.D E.terms E.zcap s) := by
  by_cases hp : pick E.D E.terms s = 0
  · exact stepBuf_zero E hbuf hz w hwf hinc hlen s h hlt hp
  · exact stepBuf_other E hbuf w s h hp

theorem runBuf (E : Env) (hbuf : IsBuf E.lut) (hz : ∀ p q, E.D 0 p q = 0) (w : List T)
    (hwf : ∀ e ∈ w, e = T.tmin ∨ e.isFin = true) (hinc : Incr w) (hlen : w.length < E.zcap)
    (fuel : Nat) (s : St) (h : InvBuf w s) : InvBuf w (run E.lut E.D E.terms E.zcap fuel s) := by
  induction fuel generalizing s with
  | zero => simpa [run]
  | succ n ih =>
    unfold run; split
    · rename_i hlt; exact ih _ (stepBuf E hbuf hz w hwf hinc hlen s h hlt)
    · exact h

theorem initBuf (lut : Nat) (hbuf : IsBuf lut) (ws : Fin 4 → List T) : InvBuf (ws 0) (init lut ws) := by
  have he := hbuf.even
  refine ⟨?_, ?_, ?_, ?_, ?_, ?_, ?_⟩ <;> simp [init, he, headT]

/-- the loop of a zero-delay buffer ends with the operand waveform on the output stack and no overflow -/
theorem buf0_run (E : Env) (hbuf : IsBuf E.lut) (hz : ∀ p q, E.D 0 p q = 0) (ws : Fin 4 → List T)
    (hwf : ∀ i, WfRem (ws i)) (hinc : Incr (ws 0)) (hlen : (ws 0).length < E.zcap) :
    (run E.lut E.D E.terms E.zcap (totalLen ws) (init E.lut ws)).z = (ws 0).reverse ∧
    (run E.lut E.D E.terms E.zcap (totalLen ws) (init E.lut ws)).ovf = 0 ∧
    ∀ i, pend E.D E.terms (run E.lut E.D E.terms E.zcap (totalLen ws) (init E.lut ws)) i = E.terms i := by
  have hI := runBuf E hbuf hz (ws 0) (hwf 0).2 hinc hlen (totalLen ws) _ (initBuf E.lut hbuf ws)
  have hdone := run_done E (totalLen ws) (init E.lut ws) (by rw [total_init]; exact Nat.le_refl _)
  have h3 := run_inv3 E ws (totalLen ws) (init E.lut ws) (by intro i; simp [init]) (by intro i; simp [init])
  generalize run E.lut E.D E.terms E.zcap (totalLen ws) (init E.lut ws) = s at *
  have hwf' : ∀ i, ∀ e ∈ s.r i, e = T.tmin ∨ e.isFin = true := by
    intro i e he
    rw [(h3.1 i).1] at he
    exact (hwf i).2 e (List.mem_of_mem_drop he)
  have hempty := empty_of_done E s hwf' hdone
  refine ⟨?_, hI.ovf, ?_⟩
  · have h0 := hI.r0
    rw [hempty 0] at h0
    have hge : (ws 0).length ≤ s.k 0 := List.drop_eq_nil_iff.mp h0.symm
    rw [hI.z, List.take_of_length_le hge]
  · intro i
    unfold pend
    rw [hempty i]
    simp only [headT]
    exact T.add_term (E.hterm i) _

/-- **zero-delay buffer = identity** at the level of `waveEval`: entries, terminator (the larger of the
    operand terminators: an overflow marker on the operand is passed on) and both activity counts -/
theorem waveEval_buf0 (E : Env) (hbuf : IsBuf E.lut) (hz : ∀ p q, E.D 0 p q = 0) (ws : Fin 4 → List T)
    (hwf : ∀ i, WfRem (ws i)) (hinc : Incr (ws 0)) (hlen : (ws 0).length < E.zcap) :
    waveEval E.lut E.D ws E.terms E.zcap =
      (ws 0, T.max (T.max (E.terms 0) (E.terms 1)) (T.max (E.terms 2) (E.terms 3)),
       ((ws 0).length + 1) / 2 - startsHigh (ws 0), (ws 0).length / 2) := by
  obtain ⟨hzz, hov, hp⟩ := buf0_run E hbuf hz ws hwf hinc hlen
  unfold waveEval
  simp only [hzz, hov, hp, List.reverse_reverse, Nat.lt_irrefl, if_false]


/-! ## op level -/

/-- what a fork row needs of its operand waveforms at run time: all operands well formed, operand 0 (the stem)
    strictly increasing and short enough for the branch's capacity, operands 1–3 (the `zero` slot) without
    overflow marker -/
def ForkIn (cfg : WCfg) (op : Op) (xs : List Wv) : Prop :=
  (∀ i, (slot xs i).ok) ∧ Incr (slot xs 0).ents ∧ (slot xs 0).ents.length < cfg.cap op.out ∧
  ∀ i : Fin 4, i ≠ 0 → (slot xs i).term = T.tmax

theorem T.max_tmax_of_term {a : T} (h : a.isTerm = true) :
    T.max (T.max a T.tmax) (T.max T.tmax T.tmax) = a := by
  cases a <;> simp [T.isTerm] at h <;> decide

/-- zero-delay buffer row, general form: the entries are copied; the terminator is the largest operand terminator -/
theorem waveSem_buf0_gen (cfg : WCfg) (op : Op) (xs : List Wv) (hd : ∀ l p q, 0 ≤ cfg.delay l p q)
    (hc : 4 ≤ cfg.cap op.out) (hbuf : IsBuf op.code) (hz : ∀ p q, opDelays cfg op 0 p q = 0)
    (hok : ∀ i, (slot xs i).ok) (hinc : Incr (slot xs 0).ents) (hlen : (slot xs 0).ents.length < cfg.cap op.out) :
    waveSem cfg op xs = ⟨(slot xs 0).ents, T.max (T.max (slot xs 0).term (slot xs 1).term) (T.max (slot xs 2).term (slot xs 3).term)⟩ := by
  have h := waveEval_buf0 (envOf cfg op xs hd hc hok) hbuf hz (fun i => (slot xs i).ents) (fun i => (hok i).1) hinc hlen
  have e : waveSem cfg op xs =
      ⟨(waveEval (envOf cfg op xs hd hc hok).lut (envOf cfg op xs hd hc hok).D (fun i => (slot xs i).ents)
          (envOf cfg op xs hd hc hok).terms (envOf cfg op xs hd hc hok).zcap).1,
       (waveEval (envOf cfg op xs hd hc hok).lut (envOf cfg op xs hd hc hok).D (fun i => (slot xs i).ents)
          (envOf cfg op xs hd hc hok).terms (envOf cfg op xs hd hc hok).zcap).2.1⟩ := rfl
  rw [e, h]
  rfl

/-- **zero-delay buffer row = copy** of operand 0 -/
theorem waveSem_buf0 (cfg : WCfg) (op : Op) (xs : List Wv) (hd : ∀ l p q, 0 ≤ cfg.delay l p q)
    (hc : 4 ≤ cfg.cap op.out) (hbuf : IsBuf op.code) (hz : ∀ p q, opDelays cfg op 0 p q = 0)
    (hx : ForkIn cfg op xs) : waveSem cfg op xs = slot xs 0 := by
  obtain ⟨hok, hinc, hlen, ht⟩ := hx
  rw [waveSem_buf0_gen cfg op xs hd hc hbuf hz hok hinc hlen]
  rw [ht 1 (by decide), ht 2 (by decide), ht 3 (by decide), T.max_tmax_of_term (hok 0).2]

/-! ### the evaluator reads the delay table only at the four operand slots -/

theorem pend_congr_D {D D' : Delays} (h : ∀ (i : Fin 4) p q, D i p q = D' i p q) (terms : Fin 4 → T) (s : St) (i : Fin 4) :
    pend D terms s i = pend D' terms s i := by unfold pend; rw [h]

theorem cur_congr_D {D D' : Delays} (h : ∀ (i : Fin 4) p q, D i p q = D' i p q) (terms : Fin 4 → T) (s : St) :
    cur D terms s = cur D' terms s := by unfold cur; simp only [pend_congr_D h]

theorem pick_congr_D {D D' : Delays} (h : ∀ (i : Fin 4) p q, D i p q = D' i p q) (terms : Fin 4 → T) (s : St) :
    pick D terms s = pick D' terms s := by unfold pick; simp only [pend_congr_D h, cur_congr_D h]

theorem step_congr_D {D D' : Delays} (h : ∀ (i : Fin 4) p q, D i p q = D' i p q) (lut : Nat) (terms : Fin 4 → T)
    (zcap : Nat) (s : St) : step lut D terms zcap s = step lut D' terms zcap s := by
  rw [step_eq_core, step_eq_core, cur_congr_D h, pick_congr_D h]
  unfold dec2
  simp only [h]

theorem run_congr_D {D D' : Delays} (h : ∀ (i : Fin 4) p q, D i p q = D' i p q) (lut : Nat) (terms : Fin 4 → T)
    (zcap fuel : Nat) (s : St) : run lut D terms zcap fuel s = run lut D' terms zcap fuel s := by
  induction fuel generalizing s with
  | zero => rfl
  | succ n ih => unfold run; rw [cur_congr_D h, step_congr_D h, ih]

theorem waveEval_congr_D {D D' : Delays} (h : ∀ (i : Fin 4) p q, D i p q = D' i p q) (lut : Nat) (ws : Fin 4 → List T)
    (terms : Fin 4 → T) (zcap : Nat) : waveEval lut D ws terms zcap = waveEval lut D' ws terms zcap := by
  unfold waveEval
  simp only [run_congr_D h, pend_congr_D h]

/-! ## program level: fork stripping -/

theorem stripOkB_cons {st : List (Nat × Nat)} {zidx : Nat} {written : List Nat} {op : Op} {rest : List Op}
    (h : stripOkB st zidx written (op :: rest) = true) :
    op.ins.length = 4 ∧ op.out ≠ zidx ∧ stripOkB st zidx (op.out :: written) rest = true ∧
    (∀ s, st.lookup op.out = some s → forkRowB st zidx written op s rest = true) ∧
    (st.lookup op.out = none → plainRowB st written op = true) := by
  simp only [stripOkB, Bool.and_eq_true, beq_iff_eq, bne_iff_ne] at h
  obtain ⟨⟨⟨h1, h2⟩, h3⟩, h4⟩ := h
  refine ⟨h1, h2, h4, ?_, ?_⟩
  · intro s hs; rw [hs] at h3; exact h3
  · intro hs; rw [hs] at h3; exact h3

theorem forkRowB_spec {st : List (Nat × Nat)} {zidx : Nat} {written : List Nat} {op : Op} {s : Nat} {rest : List Op}
    (h : forkRowB st zidx written op s rest = true) :
    op.code = 0xAAAA ∧ op.ins.drop 1 = [zidx, zidx, zidx] ∧ src st (op.ins.getD 0 0) = s ∧ st.lookup s = none ∧
    (st.lookup (op.ins.getD 0 0) = none ∨ op.ins.getD 0 0 ∈ written) ∧ op.ins.getD 0 0 ≠ op.out ∧
    ∀ p ∈ rest, p.out ≠ s ∧ p.out ≠ op.ins.getD 0 0 := by
  simp only [forkRowB, Bool.and_eq_true, Bool.or_eq_true, beq_iff_eq, bne_iff_ne, List.all_eq_true,
    Option.isNone_iff_eq_none, List.contains_iff_mem] at h
  obtain ⟨⟨⟨⟨⟨⟨h1, h2⟩, h3⟩, h4⟩, h5⟩, h6⟩, h7⟩ := h
  exact ⟨h1, h2, h3, h4, h5, h6, h7⟩

theorem plainRowB_spec {st : List (Nat × Nat)} {written : List Nat} {op : Op} (h : plainRowB st written op = true) :
    ∀ x ∈ op.ins, st.lookup x = none ∨ x ∈ written := by
  simpa only [plainRowB, List.all_eq_true, Bool.or_eq_true, Option.isNone_iff_eq_none, List.contains_iff_mem] using h

theorem getD_map_wv (f : Nat → Wv) (ins : List Nat) (i : Nat) (h : i < ins.length) :
    (ins.map f).getD i Wv.empty = f (ins.getD i 0) := by
  simp [List.getD_eq_getElem?_getD, List.getElem?_eq_getElem h]

/-- a redirected row evaluates like the original row when the stems carry the branch waveforms -/
theorem waveSem_redirect (cfg : WCfg) (st : List (Nat × Nat)) (op : Op) (hlen : op.ins.length = 4) (e1 e3 : Nat → Wv)
    (h : ∀ x ∈ op.ins, e3 (src st x) = e1 x) :
    waveSem cfg (redirect st op) ((redirect st op).ins.map e3) = waveSem cfg op (op.ins.map e1) := by
  obtain ⟨code, out, ins⟩ := op
  match ins, hlen with
  | [a, b, c, d], _ =>
    have ha := h a (by simp); have hb := h b (by simp); have hc := h c (by simp); have hd := h d (by simp)
    have hs : ∀ i : Fin 4, slot ((redirect st ⟨code, out, [a, b, c, d]⟩).ins.map e3) i = slot ([a, b, c, d].map e1) i := by
      intro i
      match i with
      | 0 => exact ha
      | 1 => exact hb
      | 2 => exact hc
      | 3 => exact hd
    have hD : ∀ (i : Fin 4) p q, opDelays cfg (redirect st ⟨code, out, [a, b, c, d]⟩) i p q = opDelays cfg ⟨code, out, [a, b, c, d]⟩ i p q := by
      intro i p q
      match i with
      | 0 => rfl
      | 1 => rfl
      | 2 => rfl
      | 3 => rfl
    unfold waveSem
    have e1' : (fun i => (slot ((redirect st ⟨code, out, [a, b, c, d]⟩).ins.map e3) i).ents) = (fun i => (slot ([a, b, c, d].map e1) i).ents) := by
      funext i; rw [hs i]
    have e2' : (fun i => (slot ((redirect st ⟨code, out, [a, b, c, d]⟩).ins.map e3) i).term) = (fun i => (slot ([a, b, c, d].map e1) i).term) := by
      funext i; rw [hs i]
    simp only [e1', e2']
    rw [waveEval_congr_D hD]
    rfl

/-- the two runs side by side: `e1` = un-stripped, `e3` = stripped -/
structure StripInv (st : List (Nat × Nat)) (written : List Nat) (e1 e3 : Nat → Wv) : Prop where
  same : ∀ l, st.lookup l = none → e3 l = e1 l
  br : ∀ b s, st.lookup b = some s → b ∈ written → e1 b = e1 s

/-- lockstep simulation. `hid` says that every fork row, at the moment it is executed, copies its operand 0 -/
theorem strip_lockstep (cfg : WCfg) (st : List (Nat × Nat)) (zidx : Nat) (ops : List Op) (written : List Nat)
    (e1 e3 : Nat → Wv)
    (hs : stripOkB st zidx written ops = true)
    (hno : ∀ b s, st.lookup b = some s → b ∈ written → st.lookup s = none ∧ ∀ p ∈ ops, p.out ≠ s)
    (hinv : StripInv st written e1 e3)
    (hid : ∀ pre op post, ops = pre ++ op :: post → (st.lookup op.out).isSome = true →
      waveSem cfg op (op.ins.map (execG (waveSem cfg) pre e1)) = execG (waveSem cfg) pre e1 (op.ins.getD 0 0)) :
    (∀ l, st.lookup l = none → execG (waveSem cfg) (stripOps st ops) e3 l = execG (waveSem cfg) ops e1 l) ∧
    (∀ b s, st.lookup b = some s → (b ∈ written ∨ ∃ p ∈ ops, p.out = b) →
      execG (waveSem cfg) ops e1 b = execG (waveSem cfg) ops e1 s) := by
  induction ops generalizing written e1 e3 with
  | nil =>
    exact ⟨hinv.same, fun b s hb hw => hinv.br b s hb (hw.resolve_right (by rintro ⟨p, hp, _⟩; cases hp))⟩
  | cons op rest ih =>
    obtain ⟨hlen, _, hrest, hfork, hplain⟩ := stripOkB_cons hs
    have hcons : execG (waveSem cfg) (op :: rest) e1 = execG (waveSem cfg) rest (execOpG (waveSem cfg) e1 op) := rfl
    have hid' : ∀ pre op' post, rest = pre ++ op' :: post → (st.lookup op'.out).isSome = true →
        waveSem cfg op' (op'.ins.map (execG (waveSem cfg) pre (execOpG (waveSem cfg) e1 op))) =
          execG (waveSem cfg) pre (execOpG (waveSem cfg) e1 op) (op'.ins.getD 0 0) := by
      intro pre op' post hr hb
      exact hid (op :: pre) op' post (by rw [hr]; rfl) hb
    have hmemb : ∀ b, (b ∈ written ∨ ∃ p ∈ op :: rest, p.out = b) → (b ∈ op.out :: written ∨ ∃ p ∈ rest, p.out = b) := by
      intro b hw
      rcases hw with h | ⟨p, hp, hpo⟩
      · exact Or.inl (List.mem_cons_of_mem _ h)
      · rcases List.mem_cons.mp hp with rfl | hp
        · exact Or.inl (hpo ▸ List.mem_cons_self)
        · exact Or.inr ⟨p, hp, hpo⟩
    rw [hcons]
    cases hlo : st.lookup op.out with
    | some s =>
      obtain ⟨_, _, hsrc, hsn, hw0, _, hlater⟩ := forkRowB_spec (hfork s hlo)
      have hstrip : stripOps st (op :: rest) = stripOps st rest := by
        simp [stripOps, hlo]
      rw [hstrip]
      have hv : waveSem cfg op (op.ins.map e1) = e1 (op.ins.getD 0 0) := hid [] op rest rfl (by simp [hlo])
      have hsb : s ≠ op.out := by intro e; rw [e, hlo] at hsn; cases hsn
      -- the copied value is the stem's value
      have hx : e1 (op.ins.getD 0 0) = e1 s := by
        cases hlx : st.lookup (op.ins.getD 0 0) with
        | none => simp only [src, hlx, Option.getD_none] at hsrc; rw [hsrc]
        | some t =>
          simp only [src, hlx, Option.getD_some] at hsrc
          rcases hw0 with h0 | h0
          · rw [hlx] at h0; cases h0
          · rw [← hsrc]; exact hinv.br _ t hlx h0
      have key := ih (op.out :: written) (execOpG (waveSem cfg) e1 op) e3 hrest ?_ ?_ hid'
      · exact ⟨key.1, fun b s' hb hw => key.2 b s' hb (hmemb b hw)⟩
      · intro b s' hb hbw
        rcases List.mem_cons.mp hbw with rfl | hbw
        · rw [hlo] at hb; cases hb; exact ⟨hsn, fun p hp => (hlater p hp).1⟩
        · exact ⟨(hno b s' hb hbw).1, fun p hp => (hno b s' hb hbw).2 p (List.mem_cons_of_mem _ hp)⟩
      · refine ⟨?_, ?_⟩
        · intro x hxn
          have : x ≠ op.out := by intro e; rw [e, hlo] at hxn; cases hxn
          simp only [execOpG, Sig.upd, if_neg this]
          exact hinv.same x hxn
        · intro b s' hb hbw
          by_cases hbo : b = op.out
          · subst hbo
            rw [hlo] at hb; cases hb
            simp only [execOpG, Sig.upd, if_true, if_neg hsb, hv, hx]
          · have hbw' : b ∈ written := by
              rcases List.mem_cons.mp hbw with h | h
              · exact absurd h hbo
              · exact h
            have hs' : s' ≠ op.out := fun e => (hno b s' hb hbw').2 op List.mem_cons_self e.symm
            simp only [execOpG, Sig.upd, if_neg hbo, if_neg hs']
            exact hinv.br b s' hb hbw'
    | none =>
      have hops := plainRowB_spec (hplain hlo)
      have hstrip : stripOps st (op :: rest) = redirect st op :: stripOps st rest := by
        simp [stripOps, hlo]
      rw [hstrip]
      have hcons3 : execG (waveSem cfg) (redirect st op :: stripOps st rest) e3 =
          execG (waveSem cfg) (stripOps st rest) (execOpG (waveSem cfg) e3 (redirect st op)) := rfl
      rw [hcons3]
      have hval : waveSem cfg (redirect st op) ((redirect st op).ins.map e3) = waveSem cfg op (op.ins.map e1) := by
        apply waveSem_redirect cfg st op hlen
        intro x hx
        cases hlx : st.lookup x with
        | none => simp only [src, hlx, Option.getD_none]; exact hinv.same x hlx
        | some t =>
          simp only [src, hlx, Option.getD_some]
          rcases hops x hx with h0 | h0
          · rw [hlx] at h0; cases h0
          · rw [hinv.br x t hlx h0]
            exact hinv.same t (hno x t hlx h0).1
      have hwr : ∀ b s', st.lookup b = some s' → b ∈ op.out :: written → b ∈ written ∧ b ≠ op.out := by
        intro b s' hb hbw
        have hbo : b ≠ op.out := by intro e; rw [e, hlo] at hb; cases hb
        rcases List.mem_cons.mp hbw with h | h
        · exact absurd h hbo
        · exact ⟨h, hbo⟩
      have key := ih (op.out :: written) (execOpG (waveSem cfg) e1 op) (execOpG (waveSem cfg) e3 (redirect st op)) hrest ?_ ?_ hid'
      · exact ⟨key.1, fun b s' hb hw => key.2 b s' hb (hmemb b hw)⟩
      · intro b s' hb hbw
        obtain ⟨hbw', _⟩ := hwr b s' hb hbw
        exact ⟨(hno b s' hb hbw').1, fun p hp => (hno b s' hb hbw').2 p (List.mem_cons_of_mem _ hp)⟩
      · refine ⟨?_, ?_⟩
        · intro x hxn
          have ho : (redirect st op).out = op.out := rfl
          by_cases hxo : x = op.out
          · simp only [execOpG, Sig.upd, ho, hxo, if_true, hval]
          · simp only [execOpG, Sig.upd, ho, if_neg hxo]
            exact hinv.same x hxn
        · intro b s' hb hbw
          obtain ⟨hbw', hbo⟩ := hwr b s' hb hbw
          have hs' : s' ≠ op.out := fun e => (hno b s' hb hbw').2 op List.mem_cons_self e.symm
          simp only [execOpG, Sig.upd, if_neg hbo, if_neg hs']
          exact hinv.br b s' hb hbw'


/-! ### the un-stripped run as a whole: hypotheses on the FINAL waveforms -/

theorem stripOkB_suffix {st : List (Nat × Nat)} {zidx : Nat} (pre : List Op) {written : List Nat} {ops : List Op}
    (h : stripOkB st zidx written (pre ++ ops) = true) : ∃ w', stripOkB st zidx w' ops = true := by
  induction pre generalizing written with
  | nil => exact ⟨written, h⟩
  | cons p pre ih => exact ih (stripOkB_cons h).2.2.1

theorem stripOkB_out_ne {st : List (Nat × Nat)} {zidx : Nat} {written : List Nat} {ops : List Op}
    (h : stripOkB st zidx written ops = true) : ∀ op ∈ ops, op.out ≠ zidx := by
  induction ops generalizing written with
  | nil => intro op hop; cases hop
  | cons p rest ih =>
    intro op hop
    rcases List.mem_cons.mp hop with rfl | hm
    · exact (stripOkB_cons h).2.1
    · exact ih (stripOkB_cons h).2.2.1 op hm

theorem stripOkB_stem_none {st : List (Nat × Nat)} {zidx : Nat} {written : List Nat} {ops : List Op}
    (h : stripOkB st zidx written ops = true) {p : Op} (hp : p ∈ ops) {s : Nat} (hs : st.lookup p.out = some s) :
    st.lookup s = none := by
  obtain ⟨pre, post, hsplit⟩ := List.append_of_mem hp
  obtain ⟨w', h'⟩ := stripOkB_suffix pre (hsplit ▸ h)
  exact (forkRowB_spec ((stripOkB_cons h').2.2.2.1 s hs)).2.2.2.1

/-- the shape of a fork row -/
theorem forkRow_ins {op : Op} {zidx : Nat} (hlen : op.ins.length = 4) (hd : op.ins.drop 1 = [zidx, zidx, zidx]) :
    op.ins = [op.ins.getD 0 0, zidx, zidx, zidx] := by
  match hi : op.ins, hlen with
  | [a, b, c, d], _ =>
    rw [hi] at hd
    simp only [List.drop_succ_cons, List.drop_zero, List.cons.injEq, and_true] at hd
    obtain ⟨rfl, rfl, rfl⟩ := hd
    rfl

theorem opDelays_four (cfg : WCfg) (op : Op) (hlen : op.ins.length = 4) (i : Nat) :
    opDelays cfg op i = cfg.delay (op.ins.getD i 0) := by
  unfold opDelays
  funext p q
  have : op.ins.getD (4 + i) (op.ins.getD i 0) = op.ins.getD i 0 := by
    rw [List.getD_eq_getElem?_getD, List.getElem?_eq_none (by omega)]; rfl
  rw [this]

/-- **fork stripping, hypotheses on the un-stripped run**: if every fork row of the un-stripped run copies a
    well-formed, strictly increasing stem waveform that fits (`ForkIn` of the FINAL waveforms) through a zero-delay
    line, the stripped program computes the same waveform on every signal that is not a removed branch; and in the
    un-stripped run every branch carries the waveform of its stem. -/
theorem strip_final (cfg : WCfg) (st : List (Nat × Nat)) (zidx : Nat) (ops : List Op) (env : Nat → Wv)
    (hg : cfg.Good ops) (hs : stripOkB st zidx [] ops = true)
    (hz : ∀ op ∈ ops, (st.lookup op.out).isSome = true → ∀ p q, cfg.delay (op.ins.getD 0 0) p q = 0)
    (hrun : ∀ op ∈ ops, (st.lookup op.out).isSome = true → ForkIn cfg op (op.ins.map (simWave cfg ops env)))
    :
    (∀ l, st.lookup l = none → simWave cfg (stripOps st ops) env l = simWave cfg ops env l) ∧
    (∀ b s, st.lookup b = some s → (∃ p ∈ ops, p.out = b) → simWave cfg ops env b = simWave cfg ops env s) := by
  have key := strip_lockstep cfg st zidx ops [] env env hs (fun b s _ hb => by cases hb)
    ⟨fun _ _ => rfl, fun b s _ hb => by cases hb⟩ ?_
  · exact ⟨key.1, fun b s hb hw => key.2 b s hb (Or.inr hw)⟩
  intro pre op post hops hb
  have hmem : op ∈ ops := by rw [hops]; simp
  obtain ⟨w', hs'⟩ := stripOkB_suffix pre (hops ▸ hs)
  obtain ⟨hlen, _, _, hfork, _⟩ := stripOkB_cons hs'
  obtain ⟨s, hlo⟩ := Option.isSome_iff_exists.mp hb
  obtain ⟨hcode, hdrop, _, _, _, hne, hlater⟩ := forkRowB_spec (hfork s hlo)
  have hzw := stripOkB_out_ne hs
  -- operands of the fork row are not written at or after the row: their final value is the value read
  have hfin : ∀ y ∈ op.ins, execG (waveSem cfg) ops env y = execG (waveSem cfg) pre env y := by
    intro y hy
    rw [hops, execG_append]
    apply execG_frame
    rw [forkRow_ins hlen hdrop] at hy
    intro p hp
    simp only [List.mem_cons, List.not_mem_nil, or_false] at hy
    have hyy : y = op.ins.getD 0 0 ∨ y = zidx := by
      rcases hy with h | h | h | h
      · exact Or.inl h
      · exact Or.inr h
      · exact Or.inr h
      · exact Or.inr h
    rcases hyy with rfl | rfl
    · rcases List.mem_cons.mp hp with rfl | hp
      · exact fun e => hne e.symm
      · exact (hlater p hp).2
    · exact hzw p (by rw [hops]; exact List.mem_append_right _ hp)
  have hmap : op.ins.map (execG (waveSem cfg) pre env) = op.ins.map (simWave cfg ops env) := by
    apply List.map_congr_left
    intro y hy
    exact (hfin y hy).symm
  rw [hmap]
  have hbuf : IsBuf op.code := by rw [hcode]; exact isBuf_BUF1
  have hz0 : ∀ p q, opDelays cfg op 0 p q = 0 := by
    intro p q; rw [opDelays_four cfg op hlen]; exact hz op hmem hb p q
  rw [waveSem_buf0 cfg op _ hg.delay_nonneg (hg.cap_ge op hmem) hbuf hz0 (hrun op hmem hb)]
  show (op.ins.map (simWave cfg ops env)).getD 0 Wv.empty = _
  rw [getD_map_wv _ _ _ (by omega)]
  exact hfin _ (by rw [forkRow_ins hlen hdrop]; simp)

/-! ### length of a produced waveform -/

theorem step_zlen (lut : Nat) (D : Delays) (terms : Fin 4 → T) (zcap : Nat) (s : St) (h : s.z.length ≤ zcap - 1) :
    (step lut D terms zcap s).z.length ≤ zcap - 1 := by
  rw [step_eq_core]
  cases dec1 lut s (pick D terms s) <;> cases dec2 D terms s (cur D terms s) (pick D terms s) <;>
    cases h3 : dec3 zcap s <;> simp only [stepCore, if_true, Bool.false_eq_true, if_false, List.length_tail, List.length_cons]
  all_goals first
    | omega
    | (simp only [dec3, decide_eq_true_eq] at h3; omega)

theorem run_zlen (lut : Nat) (D : Delays) (terms : Fin 4 → T) (zcap fuel : Nat) (s : St) (h : s.z.length ≤ zcap - 1) :
    (run lut D terms zcap fuel s).z.length ≤ zcap - 1 := by
  induction fuel generalizing s with
  | zero => exact h
  | succ n ih =>
    unfold run; split
    · exact ih _ (step_zlen lut D terms zcap s h)
    · exact h

/-- a produced waveform leaves room for its terminator -/
theorem waveSem_len (cfg : WCfg) (op : Op) (xs : List Wv) (hc : 2 ≤ cfg.cap op.out) :
    (waveSem cfg op xs).ents.length < cfg.cap op.out := by
  show (waveEval op.code _ _ _ _).1.length < _
  unfold waveEval
  simp only [List.length_reverse]
  have := run_zlen op.code (opDelays cfg op) (fun i => (slot xs i).term) (cfg.cap op.out)
    (totalLen fun i => (slot xs i).ents) (init op.code fun i => (slot xs i).ents)
    (by simp only [init]; split <;> simp <;> omega)
  omega

theorem execG_cases {α} (sem : Op → List α → α) (ops : List Op) (env : Nat → α) (l : Nat) :
    execG sem ops env l = env l ∨ ∃ op ∈ ops, op.out = l ∧ ∃ xs, execG sem ops env l = sem op xs := by
  induction ops generalizing env with
  | nil => exact Or.inl rfl
  | cons p rest ih =>
    have hcons : execG sem (p :: rest) env = execG sem rest (execOpG sem env p) := rfl
    rw [hcons]
    rcases ih (execOpG sem env p) with h | ⟨op, hop, ho, xs, hx⟩
    · rw [h]
      by_cases hl : l = p.out
      · right; exact ⟨p, List.mem_cons_self, hl.symm, p.ins.map env, by simp [execOpG, Sig.upd, hl]⟩
      · left; simp [execOpG, Sig.upd, hl]
    · right; exact ⟨op, List.mem_cons_of_mem _ hop, ho, xs, hx⟩


/-! ### the capacity bound of the gate-level theorem is sharp -/

theorem init_zlen (lut : Nat) (ws : Fin 4 → List T) (zcap : Nat) (hc : 2 ≤ zcap) : (init lut ws).z.length ≤ zcap - 1 := by
  simp only [init]; split <;> simp <;> omega

/-- a strictly increasing waveform that does NOT fit (`capacity ≤ length`) makes the zero-delay buffer overflow -/
theorem buf0_overflow_run (E : Env) (hbuf : IsBuf E.lut) (hz : ∀ p q, E.D 0 p q = 0) (ws : Fin 4 → List T)
    (hwf : ∀ i, WfRem (ws i)) (hinc : Incr (ws 0)) (hlen : E.zcap ≤ (ws 0).length) :
    0 < (run E.lut E.D E.terms E.zcap (totalLen ws) (init E.lut ws)).ovf := by
  apply Nat.pos_of_ne_zero
  intro h0
  have hcap := E.hcap
  -- without overflow the run would not depend on the capacity …
  have hrun := run_cap_irrel E.lut E.D E.terms E.zcap ((ws 0).length + 1) (by omega) (totalLen ws) (init E.lut ws)
    (by rw [h0]; rfl)
  -- … but with room for the whole waveform the stack ends up holding all of it
  have h1 := (buf0_run ⟨E.lut, E.D, E.terms, (ws 0).length + 1, by omega, E.hD, E.hterm⟩ hbuf hz ws hwf hinc
    (Nat.lt_succ_self _)).1
  have h2 := run_zlen E.lut E.D E.terms E.zcap (totalLen ws) (init E.lut ws) (init_zlen _ _ _ (by omega))
  have h1' : (run E.lut E.D E.terms ((ws 0).length + 1) (totalLen ws) (init E.lut ws)).z = (ws 0).reverse := h1
  rw [hrun] at h1'
  rw [h1', List.length_reverse] at h2
  omega

theorem waveEval_buf0_overflow (E : Env) (hbuf : IsBuf E.lut) (hz : ∀ p q, E.D 0 p q = 0) (ws : Fin 4 → List T)
    (hwf : ∀ i, WfRem (ws i)) (hinc : Incr (ws 0)) (hlen : E.zcap ≤ (ws 0).length) :
    (waveEval E.lut E.D ws E.terms E.zcap).2.1 = T.tovl ∧ (waveEval E.lut E.D ws E.terms E.zcap).1.length < (ws 0).length := by
  have hov := buf0_overflow_run E hbuf hz ws hwf hinc hlen
  have h2 := run_zlen E.lut E.D E.terms E.zcap (totalLen ws) (init E.lut ws) (init_zlen _ _ _ (by have := E.hcap; omega))
  have hcap := E.hcap
  unfold waveEval
  simp only [hov, if_true, List.length_reverse, true_and]
  omega

end KV.Wave
