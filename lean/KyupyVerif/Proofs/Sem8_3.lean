import KyupyVerif.Proofs.SemChk
namespace KV
/-- kernel evaluation: 5 primitives × all 8^4 operand tuples of the real m=8 dispatch chain vs the documented composition -/
theorem sem8_slice3 : ((Gen.prims.drop 15).take 5).all chkSem8 = true := by decide +kernel
end KV
