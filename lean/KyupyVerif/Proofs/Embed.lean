import KyupyVerif.Proofs.SubstSem1
/-! Helper lemmas for C10 (removal of dangling logic): `Emb nn nn' r` — the circuit `nn'` is `nn` with some nodes and lines
removed and the rest renumbered; `r` = the index maps (new index ↦ old index).  Every surviving node keeps its kind and
reads, pin by pin, the same lines; every surviving line keeps its driver.  Then the labellings of `nn'` are the
labellings of `nn` restricted to the surviving lines (`Emb.restrict`), and a labelling of `nn'` together with values for
the removed lines that satisfy their equations is a labelling of `nn` (`Emb.extend`). -/
namespace KV.Transform
open KV

/-- `X` = nodes of `nn'` whose pins are exempt (nodes that are being removed: they drive nothing) -/
structure EmbX (nn nn' : NNet) (r : Ren) (X : Nat → Prop) : Prop where
  nodeLt : ∀ j', j' < nn'.net.nodes.size → r.node j' < nn.net.nodes.size
  lineLt : ∀ l', l' < nn'.net.lines.size → r.line l' < nn.net.lines.size
  nodeInj : ∀ j1 j2, j1 < nn'.net.nodes.size → j2 < nn'.net.nodes.size → r.node j1 = r.node j2 → j1 = j2
  lineInj : ∀ l1 l2, l1 < nn'.net.lines.size → l2 < nn'.net.lines.size → r.line l1 = r.line l2 → l1 = l2
  kind : ∀ j', j' < nn'.net.nodes.size → (nn'.net.node j').kind = (nn.net.node (r.node j')).kind
  name : ∀ j', j' < nn'.net.nodes.size → nn'.names.getD j' "" = nn.names.getD (r.node j') ""
  io : nn'.net.io.map r.node = nn.net.io
  ioLt : ∀ j ∈ nn'.net.io, j < nn'.net.nodes.size
  pins : ∀ j', j' < nn'.net.nodes.size → ¬ X j' → ∀ k, ((nn'.net.node j').inPin k).map r.line = (nn.net.node (r.node j')).inPin k
  drv : ∀ l', l' < nn'.net.lines.size → (nn'.net.line l').driver < nn'.net.nodes.size ∧
    (nn.net.line (r.line l')).driver = r.node (nn'.net.line l').driver ∧
    ((nn.net.line (r.line l')).dpin = (nn'.net.line l').dpin ∨ (nn'.net.node (nn'.net.line l').driver).isFork = true)

abbrev Emb (nn nn' : NNet) (r : Ren) : Prop := EmbX nn nn' r (fun _ => False)

theorem EmbX.mem_sNodes {nn nn' : NNet} {r : Ren} {X : Nat → Prop} (e : EmbX nn nn' r X) (j' : Nat) (hj : j' < nn'.net.nodes.size) :
    j' ∈ nn'.net.sNodes ↔ r.node j' ∈ nn.net.sNodes := by
  have hk := isDff_of_kind (e.kind j' hj)
  rw [_root_.KV.Transform.mem_sNodes nn'.net j', _root_.KV.Transform.mem_sNodes nn.net (r.node j'), hk.1, hk.2.1]
  have hio : j' ∈ nn'.net.io ↔ r.node j' ∈ nn.net.io := by
    rw [← e.io, List.mem_map]
    constructor
    · intro h; exact ⟨j', h, rfl⟩
    · rintro ⟨j0, h0, e0⟩
      have := e.nodeInj j0 j' (e.ioLt j0 h0) hj e0
      rw [← this]; exact h0
  rw [hio]
  simp only [hj, e.nodeLt j' hj, true_and]

/-- the equation of a line does not depend on the output pin when the driver is a fork -/
theorem lineEqN_fork_dpin {α} (z : α) (neg : α → α) (prim : String → α → α → α → α → α) (kind : String) (dp1 dp2 : Nat)
    (spa : Option α) (pv : Nat → Option α) (hf : (⟨kind, [], []⟩ : NodeD).isFork = true) :
    lineEqN z neg prim kind dp1 spa pv = lineEqN z neg prim kind dp2 spa pv := by
  have := fork_not_seq _ hf
  simp [lineEqN, NodeD.isSeq, this.1, this.2]

/-- the equation of a surviving line, in the old and in the new circuit -/
theorem Emb.lineEq_eq {α : Type _} {nn nn' : NNet} {r : Ren} (e : Emb nn nn' r) (z : α) (neg : α → α)
    (prim : String → α → α → α → α → α) (an v : Nat → α) (l' : Nat) (hl : l' < nn'.net.lines.size) :
    lineEq nn'.net (spN nn'.net) z neg prim (fun j => an (r.node j)) (fun l => v (r.line l)) l' =
      lineEq nn.net (spN nn.net) z neg prim an v (r.line l') := by
  obtain ⟨hd, hdrv, hdp⟩ := e.drv l' hl
  rw [lineEq_eq_N, lineEq_eq_N, hdrv, ← e.kind _ hd]
  have hsp : (spN nn'.net (nn'.net.line l').driver).map (fun j => an (r.node j)) =
      (spN nn.net (r.node (nn'.net.line l').driver)).map an := by
    have hm := e.mem_sNodes _ hd
    simp only [spN, List.contains_iff_mem]
    by_cases h1 : (nn'.net.line l').driver ∈ nn'.net.sNodes
    · simp [h1, hm.mp h1]
    · have : ¬ r.node (nn'.net.line l').driver ∈ nn.net.sNodes := fun x => h1 (hm.mpr x)
      simp [h1, this]
  have hpv : (fun k => ((nn'.net.node (nn'.net.line l').driver).inPin k).map (fun l => v (r.line l))) =
      (fun k => ((nn.net.node (r.node (nn'.net.line l').driver)).inPin k).map v) := by
    funext k
    rw [← e.pins _ hd (fun x => x) k, Option.map_map]; rfl
  rw [hsp, hpv]
  rcases hdp with hdp | hdp
  · rw [hdp]
  · apply lineEqN_fork_dpin
    simpa [NodeD.isFork] using hdp

/-- every labelling of the old circuit, restricted to the surviving lines and renamed, is a labelling of the new one -/
theorem Emb.restrict {α : Type _} {nn nn' : NNet} {r : Ren} (e : Emb nn nn' r) (S : Nat → Prop) (z : α) (neg : α → α)
    (prim : String → α → α → α → α → α) (an v : Nat → α) (hc : ConsOff nn S z neg prim an v) :
    ConsOff nn' (fun j' => S (r.node j')) z neg prim (fun j => an (r.node j)) (fun l => v (r.line l)) := by
  intro l' hl hnS
  obtain ⟨_, hdrv, _⟩ := e.drv l' hl
  rw [e.lineEq_eq z neg prim an v l' hl]
  exact hc (r.line l') (e.lineLt l' hl) (by rw [hdrv]; exact hnS)

/-- a labelling of the new circuit, extended by values for the removed lines that satisfy their equations, is a
    labelling of the old circuit -/
theorem Emb.extend {α : Type _} {nn nn' : NNet} {r : Ren} (e : Emb nn nn' r) (S : Nat → Prop) (z : α) (neg : α → α)
    (prim : String → α → α → α → α → α) (an v : Nat → α)
    (hc : ConsOff nn' (fun j' => S (r.node j')) z neg prim (fun j => an (r.node j)) (fun l => v (r.line l)))
    (hrem : ∀ l, l < nn.net.lines.size → (¬ ∃ l', l' < nn'.net.lines.size ∧ r.line l' = l) → ¬ S (nn.net.line l).driver →
      v l = lineEq nn.net (spN nn.net) z neg prim an v l) :
    ConsOff nn S z neg prim an v := by
  intro l hl hnS
  by_cases hi : ∃ l', l' < nn'.net.lines.size ∧ r.line l' = l
  · obtain ⟨l', hl', el⟩ := hi
    subst el
    obtain ⟨_, hdrv, _⟩ := e.drv l' hl'
    rw [← e.lineEq_eq z neg prim an v l' hl']
    exact hc l' hl' (by show ¬ S (r.node (nn'.net.line l').driver); rw [← hdrv]; exact hnS)
  · exact hrem l hl hi hnS

theorem Emb.refl (nn : NNet) (hio : ∀ i ∈ nn.net.io, i < nn.net.nodes.size)
    (hd : ∀ l, l < nn.net.lines.size → (nn.net.line l).driver < nn.net.nodes.size) : Emb nn nn Ren.id :=
  ⟨fun _ h => h, fun _ h => h, fun _ _ _ _ h => h, fun _ _ _ _ h => h, fun _ _ => rfl, fun _ _ => rfl, List.map_id' _, hio,
   fun j _ _ k => by show ((nn.net.node j).inPin k).map (fun l => l) = (nn.net.node j).inPin k; simp, fun l hl => ⟨hd l hl, rfl, Or.inl rfl⟩⟩

theorem EmbX.trans {a b c : NNet} {r1 r2 : Ren} {X1 X2 : Nat → Prop} (h1 : EmbX a b r1 X1) (h2 : EmbX b c r2 X2) :
    EmbX a c (r1.comp r2) (fun j => X2 j ∨ X1 (r2.node j)) := by
  refine ⟨fun j h => h1.nodeLt _ (h2.nodeLt j h), fun l h => h1.lineLt _ (h2.lineLt l h), ?_, ?_, ?_, ?_, ?_, h2.ioLt, ?_, ?_⟩
  · intro j1 j2 l1 l2 e
    exact h2.nodeInj j1 j2 l1 l2 (h1.nodeInj _ _ (h2.nodeLt _ l1) (h2.nodeLt _ l2) e)
  · intro j1 j2 l1 l2 e
    exact h2.lineInj j1 j2 l1 l2 (h1.lineInj _ _ (h2.lineLt _ l1) (h2.lineLt _ l2) e)
  · intro j h; exact (h2.kind j h).trans (h1.kind _ (h2.nodeLt j h))
  · intro j h; exact (h2.name j h).trans (h1.name _ (h2.nodeLt j h))
  · have : c.net.io.map (r1.comp r2).node = (c.net.io.map r2.node).map r1.node := by
      rw [List.map_map]; rfl
    rw [this, h2.io, h1.io]
  · intro j hj hX k
    have hx2 : ¬ X2 j := fun x => hX (Or.inl x)
    have hx1 : ¬ X1 (r2.node j) := fun x => hX (Or.inr x)
    have := h1.pins _ (h2.nodeLt j hj) hx1 k
    rw [← h2.pins j hj hx2 k, Option.map_map] at this
    exact this
  · intro l hl
    obtain ⟨d2, e2, p2⟩ := h2.drv l hl
    obtain ⟨d1, e1, p1⟩ := h1.drv _ (h2.lineLt l hl)
    refine ⟨d2, ?_, ?_⟩
    · show (a.net.line (r1.line (r2.line l))).driver = r1.node (r2.node (c.net.line l).driver)
      rw [e1, e2]
    · show (a.net.line (r1.line (r2.line l))).dpin = (c.net.line l).dpin ∨ _
      have hk : (c.net.node (c.net.line l).driver).isFork = (b.net.node (b.net.line (r2.line l)).driver).isFork := by
        rw [e2]; exact (isDff_of_kind (h2.kind _ d2)).2.2
      rcases p1 with p1 | p1
      · rcases p2 with p2 | p2
        · exact Or.inl (p1.trans p2)
        · exact Or.inr p2
      · exact Or.inr (by rw [hk]; exact p1)

/-- more exempt nodes: a weaker statement -/
theorem EmbX.weaken {a b : NNet} {r : Ren} {X X' : Nat → Prop} (h : EmbX a b r X) (hXX : ∀ j, j < b.net.nodes.size → X j → X' j) :
    EmbX a b r X' :=
  { h with pins := fun j hj hx k => h.pins j hj (fun x => hx (hXX j hj x)) k }

end KV.Transform
