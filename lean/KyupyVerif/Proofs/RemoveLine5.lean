import KyupyVerif.Proofs.RemoveLine4
/-! Helper lemmas for C10 (removal of dangling logic), part 5: `Node.remove()` (`delNode`) of a node without connected
pins that is no port keeps the circuit well-formed (`WFm`) and embeds the result into the circuit before. -/
namespace KV.Transform
open KV

theorem nodup_map_range {β : Type _} (n : Nat) (f : Nat → β) (hinj : ∀ a b, a < n → b < n → f a = f b → a = b) :
    ((List.range n).map f).Nodup := by
  rw [List.nodup_iff_pairwise_ne, List.pairwise_map]
  apply List.Pairwise.imp_of_mem _ (List.pairwise_lt_range (n := n))
  intro a b ha hb hlt e
  have := hinj a b (List.mem_range.mp ha) (List.mem_range.mp hb) e
  omega

section step
variable {nn : NNet} (w : WFm nn) {i : Nat} (hi : i < nn.net.nodes.size) (hio : i ∉ nn.net.io)
  (hd : ∀ l, l < nn.net.lines.size → (nn.net.line l).driver ≠ i ∧ (nn.net.line l).reader ≠ i)
include w hi hio hd

theorem dn_line (l : Nat) (hl : l < nn.net.lines.size) : (delNode nn i).net.line l =
    { nn.net.line l with driver := mvN nn.net.nodes.size i (nn.net.line l).driver,
                         reader := mvN nn.net.nodes.size i (nn.net.line l).reader } := by
  rw [delNode_line nn i l hl]
  simp [mvN]

theorem dn_wfm : WFm (delNode nn i) := by
  have hs := delNode_sizes nn i
  have li : LI nn := ⟨w.names, w.io⟩
  have hN : nn.net.nodes.size - 1 + 1 = nn.net.nodes.size := by omega
  refine ⟨?_, ?_, ?_, ?_, ?_, ?_⟩
  · rw [hs.1]; simp [delNode, w.names]
  · -- keys: those of the surviving nodes
    have hkeys : (delNode nn i).keys = (List.range (nn.net.nodes.size - 1)).map (fun j => nn.key (nmN nn.net.nodes.size i j)) := by
      simp only [NNet.keys, hs.1]
      apply List.map_congr_left
      intro j hj
      have hj' := List.mem_range.mp hj
      simp only [NNet.key]
      rw [delNode_node nn i j hi hj', delNode_names_getD nn i j li hi hj']
      simp only [nmN]
      split <;> rfl
    rw [hkeys]
    apply nodup_map_range
    intro a b ha hb e
    have ia := nm_facts hi ha
    have ib := nm_facts hi hb
    have hinj := inj_of_nodup_map nn.key (List.range nn.net.nodes.size) w.nodup _ (List.mem_range.mpr ia.1) _ (List.mem_range.mpr ib.1) e
    rw [← ia.2.2, ← ib.2.2, hinj]
  · intro j hj
    rw [delNode_ioEq] at hj
    obtain ⟨j0, hj0, e⟩ := List.mem_map.mp hj
    have hne : j0 ≠ i := fun e0 => hio (e0 ▸ hj0)
    have := (mv_facts hi (w.io j0 hj0) hne).1
    rw [hs.1, ← e]
    simpa [mvN] using this
  · intro l hl
    rw [hs.2] at hl
    obtain ⟨b1, b2, b3, b4⟩ := w.back l hl
    obtain ⟨d1, d2⟩ := hd l hl
    have m1 := mv_facts hi b1 d1
    have m2 := mv_facts hi b2 d2
    rw [dn_line w hi hio hd l hl, hs.1]
    dsimp only
    refine ⟨m1.1, m2.1, ?_, ?_⟩
    · rw [delNode_node nn i _ hi m1.1]
      have : (if mvN nn.net.nodes.size i (nn.net.line l).driver = i then nn.net.nodes.size - 1
          else mvN nn.net.nodes.size i (nn.net.line l).driver) = nmN nn.net.nodes.size i (mvN nn.net.nodes.size i (nn.net.line l).driver) := rfl
      rw [this, m1.2]; exact b3
    · rw [delNode_node nn i _ hi m2.1]
      have : (if mvN nn.net.nodes.size i (nn.net.line l).reader = i then nn.net.nodes.size - 1
          else mvN nn.net.nodes.size i (nn.net.line l).reader) = nmN nn.net.nodes.size i (mvN nn.net.nodes.size i (nn.net.line l).reader) := rfl
      rw [this, m2.2]; exact b4
  · intro j hj k l hp
    rw [hs.1] at hj
    rw [delNode_node nn i j hi hj] at hp
    obtain ⟨hn, hni, hmv⟩ := nm_facts hi hj
    obtain ⟨a1, a2, a3⟩ := w.fwdIn _ hn k l hp
    rw [hs.2, dn_line w hi hio hd l a1]
    dsimp only
    refine ⟨a1, ?_, a3⟩
    rw [a2]; exact hmv
  · intro j hj k l hp
    rw [hs.1] at hj
    rw [delNode_node nn i j hi hj] at hp
    obtain ⟨hn, hni, hmv⟩ := nm_facts hi hj
    obtain ⟨a1, a2, a3⟩ := w.fwdOut _ hn k l hp
    rw [hs.2, dn_line w hi hio hd l a1]
    dsimp only
    refine ⟨a1, ?_, a3⟩
    rw [a2]; exact hmv

theorem dn_emb : Emb nn (delNode nn i) (nodeRen nn.net.nodes.size i) := by
  have hs := delNode_sizes nn i
  have li : LI nn := ⟨w.names, w.io⟩
  refine ⟨?_, ?_, ?_, fun _ _ _ _ e => e, ?_, ?_, ?_, ?_, ?_, ?_⟩
  · intro j hj; rw [hs.1] at hj; exact (nm_facts hi hj).1
  · intro l hl; rw [hs.2] at hl; exact hl
  · intro j1 j2 h1 h2 e
    rw [hs.1] at h1 h2
    have e' : nmN nn.net.nodes.size i j1 = nmN nn.net.nodes.size i j2 := e
    rw [← (nm_facts hi h1).2.2, ← (nm_facts hi h2).2.2, e']
  · intro j hj
    rw [hs.1] at hj
    rw [delNode_node nn i j hi hj]; rfl
  · intro j hj
    rw [hs.1] at hj
    rw [delNode_names_getD nn i j li hi hj]
    simp only [nodeRen, nmN]
    split <;> rfl
  · rw [delNode_ioEq, List.map_map]
    have : nn.net.io.map ((nodeRen nn.net.nodes.size i).node ∘ fun j => if j == nn.net.nodes.size - 1 then i else j) = nn.net.io.map id := by
      apply List.map_congr_left
      intro j hj
      have hne : j ≠ i := fun e0 => hio (e0 ▸ hj)
      have := (mv_facts hi (w.io j hj) hne).2
      simp only [Function.comp, id, nodeRen]
      simpa [mvN] using this
    rw [this, List.map_id]
  · exact (dn_wfm w hi hio hd).io
  · intro j hj _ k
    rw [hs.1] at hj
    rw [delNode_node nn i j hi hj]
    show Option.map (fun l => l) _ = _
    simp; rfl
  · intro l hl
    rw [hs.2] at hl
    obtain ⟨b1, _, _, _⟩ := w.back l hl
    have m1 := mv_facts hi b1 (hd l hl).1
    rw [dn_line w hi hio hd l hl, hs.1]
    dsimp only
    exact ⟨m1.1, m1.2.symm, Or.inl rfl⟩

end step
end KV.Transform
