import KyupyVerif.Proofs.SubstGen10
/-! Helper lemmas for C10 (`substitute_sem_general`), part 11: the *virtual result* `V` of a substitution in canonical coordinates
(`SubstV`: host nodes and lines keep their index, the copies follow; the lines at ignored pins are still there, stale on
the reader side) and the **general certificate** `SubstG` for the real result `h'`: index maps `R` from `h'` into the
canonical coordinates, well-formedness up to trailing `None`s, what survives, and the two semantic directions (with
prescribed values for removed lines that are driven by holes).  `substG_of`: `SubstG` from `SubstV`, an embedding of `h'`
into `V` and the extension property. -/
namespace KV.Transform
open KV

structure SubstV {α : Type _} (z : α) (neg : α → α) (prim : String → α → α → α → α → α) (h : NNet) (c : Nat) (m : NNet)
    (sh : Shape) (map : Array (Option Nat)) (V : NNet) (Gh : Nat → Prop) : Prop where
  wfr : WFr V
  ptsBack : ∀ l, l < V.net.lines.size → ¬ Gh l → PtsBack V l
  pinNotGh : ∀ x k l, x < V.net.nodes.size → (V.net.node x).ins.getD k none = some l → ¬ Gh l
  ghLt : ∀ l, Gh l → l < h.net.lines.size ∧ (h.net.line l).reader = c
  lsize : V.net.lines.size = h.net.lines.size + (copiedLines m map).length
  nsize : h.net.nodes.size ≤ V.net.nodes.size
  io : V.net.io = h.net.io
  frameNode : ∀ d, d < h.net.nodes.size → d ≠ c → V.net.node d = h.net.node d
  nameFrame : ∀ d, d < h.net.nodes.size → V.names.getD d "" = h.names.getD d ""
  drvFrame : ∀ l, l < h.net.lines.size → (h.net.line l).driver ≠ c →
    (V.net.line l).driver = (h.net.line l).driver ∧ (V.net.line l).dpin = (h.net.line l).dpin
  rdrFrame : ∀ l, l < h.net.lines.size → (h.net.line l).reader ≠ c →
    (V.net.line l).reader = (h.net.line l).reader ∧ (V.net.line l).rpin = (h.net.line l).rpin
  newDrv : ∀ t, t < (copiedLines m map).length →
    (V.net.line (h.net.lines.size + t)).driver = c ∨ h.net.nodes.size ≤ (V.net.line (h.net.lines.size + t)).driver
  outDrv : ∀ l, l < h.net.lines.size → (h.net.line l).driver = c → (V.net.line l).driver = c ∨ h.net.nodes.size ≤ (V.net.line l).driver
  mapM : ∀ j x, map.getD j none = some x → j < m.net.nodes.size
  mapGe : ∀ j x, map.getD j none = some x → x = c ∨ h.net.nodes.size ≤ x
  mapLt : ∀ j x, map.getD j none = some x → x < V.net.nodes.size
  mapInj : ∀ j1 j2 x, map.getD j1 none = some x → map.getD j2 none = some x → j1 = j2
  kind' : ∀ j x, map.getD j none = some x → (V.net.node x).kind = if j ∈ m.net.io then "__fork__" else (m.net.node j).kind
  forward : ∀ (S : Nat → Prop), (∀ s, S s → s < h.net.nodes.size ∧ s ≠ c) → ∀ an' v' : Nat → α, ConsOff V S z neg prim an' v' →
    ConsOff h (fun d => S d ∨ d = c) z neg prim an' v' ∧
    ∃ anm vm, ImplMatches h c m sh z neg prim anm vm v' ∧
      (∀ j x, j ∉ m.net.io → map.getD j none = some x → anm j = an' x) ∧
      (∀ t (ht : t < (copiedLines m map).length), vm (copiedLines m map)[t] = v' (h.net.lines.size + t))
  backward : ∀ (S : Nat → Prop) (an v anm vm : Nat → α), ConsOff h (fun d => S d ∨ d = c) z neg prim an v →
    ImplMatches h c m sh z neg prim anm vm v →
    ∃ an' v', ConsOff V S z neg prim an' v' ∧ (∀ l, l < h.net.lines.size → v' l = v l) ∧
      (∀ d, d < h.net.nodes.size → d ≠ c → an' d = an d) ∧
      (∀ j x, j ∉ m.net.io → map.getD j none = some x → an' x = anm j) ∧
      (∀ t (ht : t < (copiedLines m map).length), v' (h.net.lines.size + t) = vm (copiedLines m map)[t])

/-- **the general certificate for `substitute`**: `R.node j'` / `R.line l'` = canonical index of node `j'` / line `l'` of the result
    `h'` (a host node or line: its index in `h`; the copy of implementation node `j`: `map[j]`; the copy of the `t`-th
    copied implementation line: `h.lines.size + t`) -/
structure SubstG {α : Type _} (z : α) (neg : α → α) (prim : String → α → α → α → α → α) (h : NNet) (c : Nat) (m : NNet)
    (sh : Shape) (map : Array (Option Nat)) (h' : NNet) (R : Ren) : Prop where
  wf' : WFm h'
  mapM : ∀ j x, map.getD j none = some x → j < m.net.nodes.size ∧ (x = c ∨ h.net.nodes.size ≤ x)
  mapInj : ∀ j1 j2 x, map.getD j1 none = some x → map.getD j2 none = some x → j1 = j2
  nodeInj : ∀ j1 j2, j1 < h'.net.nodes.size → j2 < h'.net.nodes.size → R.node j1 = R.node j2 → j1 = j2
  lineInj : ∀ l1 l2, l1 < h'.net.lines.size → l2 < h'.net.lines.size → R.line l1 = R.line l2 → l1 = l2
  lineLt : ∀ l', l' < h'.net.lines.size → R.line l' < h.net.lines.size + (copiedLines m map).length
  io : h'.net.io.map R.node = h.net.io
  /-- a node of the result whose canonical index is a host node other than the cell is that node: kind, name, input lines -/
  hostNode : ∀ j', j' < h'.net.nodes.size → R.node j' < h.net.nodes.size → R.node j' ≠ c →
    (h'.net.node j').kind = (h.net.node (R.node j')).kind ∧ h'.names.getD j' "" = h.names.getD (R.node j') "" ∧
    ∀ k, ((h'.net.node j').inPin k).map R.line = (h.net.node (R.node j')).inPin k
  /-- the copy of implementation node `j` -/
  copyNode : ∀ j x j', map.getD j none = some x → j' < h'.net.nodes.size → R.node j' = x →
    (h'.net.node j').kind = if j ∈ m.net.io then "__fork__" else (m.net.node j).kind
  /-- every host node other than the cell survives -/
  hostSurj : ∀ d, d < h.net.nodes.size → d ≠ c → ∃ j', j' < h'.net.nodes.size ∧ R.node j' = d
  /-- every flip-flop / latch of the implementation survives -/
  seqSurj : ∀ j x, map.getD j none = some x → isSeqKind (if j ∈ m.net.io then "__fork__" else (m.net.node j).kind) = true →
    ∃ j', j' < h'.net.nodes.size ∧ R.node j' = x
  /-- only lines that end at the cell can disappear -/
  lineSurj : ∀ l, l < h.net.lines.size → (h.net.line l).reader ≠ c → ∃ l', l' < h'.net.lines.size ∧ R.line l' = l
  /-- the driver of a surviving host line that is not driven by the cell -/
  hostDrv : ∀ l', l' < h'.net.lines.size → R.line l' < h.net.lines.size → (h.net.line (R.line l')).driver ≠ c →
    R.node (h'.net.line l').driver = (h.net.line (R.line l')).driver ∧
    ((h'.net.line l').dpin = (h.net.line (R.line l')).dpin ∨ (h.net.node (h.net.line (R.line l')).driver).isFork = true)
  /-- a line of the result that is driven by a host node other than the cell is a host line that was not driven by the cell -/
  lineDrvHost : ∀ l', l' < h'.net.lines.size → R.node (h'.net.line l').driver < h.net.nodes.size → R.node (h'.net.line l').driver ≠ c →
    R.line l' < h.net.lines.size ∧ (h.net.line (R.line l')).driver ≠ c
  fw : ∀ (S : Nat → Prop), (∀ s, S s → s < h.net.nodes.size ∧ s ≠ c) → ∀ (pre an' v' : Nat → α),
    ConsOff h' (fun j' => S (R.node j')) z neg prim an' v' →
    ∃ an v anm vm, ConsOff h (fun d => S d ∨ d = c) z neg prim an v ∧ ImplMatches h c m sh z neg prim anm vm v ∧
      (∀ l', l' < h'.net.lines.size → v' l' = glueV h m map v vm (R.line l')) ∧
      (∀ j', j' < h'.net.nodes.size → R.node j' < h.net.nodes.size → R.node j' ≠ c → an' j' = an (R.node j')) ∧
      (∀ j x j', j ∉ m.net.io → map.getD j none = some x → j' < h'.net.nodes.size → R.node j' = x → an' j' = anm j) ∧
      (∀ l, l < h.net.lines.size → (¬ ∃ l', l' < h'.net.lines.size ∧ R.line l' = l) → S (h.net.line l).driver → v l = pre l)
  bw : ∀ (S : Nat → Prop) (an v anm vm : Nat → α), ConsOff h (fun d => S d ∨ d = c) z neg prim an v →
    ImplMatches h c m sh z neg prim anm vm v →
    ∃ an' v', ConsOff h' (fun j' => S (R.node j')) z neg prim an' v' ∧
      (∀ l', l' < h'.net.lines.size → v' l' = glueV h m map v vm (R.line l')) ∧
      (∀ j', j' < h'.net.nodes.size → R.node j' < h.net.nodes.size → R.node j' ≠ c → an' j' = an (R.node j')) ∧
      (∀ j x j', j ∉ m.net.io → map.getD j none = some x → j' < h'.net.nodes.size → R.node j' = x → an' j' = anm j)

theorem substG_of {α : Type _} {z : α} {neg : α → α} {prim : String → α → α → α → α → α} {h : NNet} {c : Nat} {m : NNet}
    {sh : Shape} {map : Array (Option Nat)} {V : NNet} {Gh : Nat → Prop} {h' : NNet} {R : Ren}
    (sv : SubstV z neg prim h c m sh map V Gh) (hw : WFm h) (e : Emb V h' R) (w' : WFm h') (x : ExtP z neg prim V h' R)
    (hN : ∀ d, d < h.net.nodes.size → d ≠ c → ∃ j', j' < h'.net.nodes.size ∧ R.node j' = d)
    (hQ : ∀ j x, map.getD j none = some x → isSeqKind (V.net.node x).kind = true → ∃ j', j' < h'.net.nodes.size ∧ R.node j' = x) :
    SubstG z neg prim h c m sh map h' R := by
  have hglue : ∀ (vV vm : Nat → α), (∀ t (ht : t < (copiedLines m map).length), vm (copiedLines m map)[t] = vV (h.net.lines.size + t)) →
      ∀ l, l < V.net.lines.size → vV l = glueV h m map vV vm l := by
    intro vV vm hvm l hl
    rw [sv.lsize] at hl
    simp only [glueV]
    split
    · rfl
    · rename_i hge
      have ht : l - h.net.lines.size < (copiedLines m map).length := by omega
      rw [List.getD_eq_getElem?_getD, List.getElem?_eq_getElem ht, Option.getD_some, hvm _ ht]
      congr 1; omega
  refine ⟨w', fun j x hx => ⟨sv.mapM j x hx, sv.mapGe j x hx⟩, sv.mapInj, e.nodeInj, e.lineInj,
    fun l' hl' => by rw [← sv.lsize]; exact e.lineLt l' hl', by rw [e.io, sv.io], ?_, ?_, hN, ?_, ?_, ?_, ?_, ?_, ?_⟩
  · intro j' hj' h1 h2
    refine ⟨by rw [e.kind j' hj', sv.frameNode _ h1 h2], by rw [e.name j' hj', sv.nameFrame _ h1], fun k => ?_⟩
    rw [e.pins j' hj' (fun x => x) k, sv.frameNode _ h1 h2]
  · intro j x j' hm hj' ej
    rw [e.kind j' hj', ej]; exact sv.kind' j x hm
  · intro j x hm hs
    exact hQ j x hm (by rw [sv.kind' j x hm]; exact hs)
  · intro l hl hne
    -- the line is at a pin of a surviving host node
    obtain ⟨_, b2, _, b4⟩ := hw.back l hl
    obtain ⟨j', hj', ej⟩ := hN _ b2 hne
    have hp := e.pins j' hj' (fun x => x) (h.net.line l).rpin
    rw [ej, sv.frameNode _ b2 hne] at hp
    have hp' : ((h'.net.node j').inPin (h.net.line l).rpin).map R.line = some l := hp.trans b4
    cases hq : (h'.net.node j').inPin (h.net.line l).rpin with
    | none => rw [hq] at hp'; simp at hp'
    | some l' =>
      rw [hq] at hp'
      simp only [Option.map_some, Option.some.injEq] at hp'
      exact ⟨l', (w'.fwdIn j' hj' _ l' hq).1, hp'⟩
  · intro l' hl' hlt hne
    obtain ⟨_, d2, d3⟩ := e.drv l' hl'
    obtain ⟨f1, f2⟩ := sv.drvFrame _ hlt hne
    rw [f1] at d2
    refine ⟨d2.symm, ?_⟩
    rcases d3 with d3 | d3
    · left; rw [← d3, f2]
    · right
      have hk := e.kind _ (e.drv l' hl').1
      rw [← d2] at hk
      have hb := (hw.back _ hlt).1
      rw [sv.frameNode _ hb hne] at hk
      rw [← isFork_of_kind_eq hk]; exact d3
  · intro l' hl' h1 h2
    obtain ⟨_, d2, _⟩ := e.drv l' hl'
    have hlt := e.lineLt l' hl'
    rw [sv.lsize] at hlt
    have hnown : ¬ ((V.net.line (R.line l')).driver = c ∨ h.net.nodes.size ≤ (V.net.line (R.line l')).driver) := by
      rw [d2]; rintro (hc' | hc')
      · exact h2 hc'
      · omega
    have hL : R.line l' < h.net.lines.size := by
      apply Classical.byContradiction; intro hge
      have := sv.newDrv (R.line l' - h.net.lines.size) (by omega)
      rw [show h.net.lines.size + (R.line l' - h.net.lines.size) = R.line l' by omega] at this
      exact hnown this
    exact ⟨hL, fun hd => hnown (sv.outDrv _ hL hd)⟩
  · intro S hS pre an' v' hc'
    obtain ⟨anV, vV, cV, a1, a2, a3⟩ := x S pre an' v' hc'
    obtain ⟨f1, anm, vm, f2, f3, f4⟩ := sv.forward S hS anV vV cV
    refine ⟨anV, vV, anm, vm, f1, f2, ?_, ?_, ?_, ?_⟩
    · intro l' hl'
      rw [← a1 l' hl']
      exact hglue vV vm f4 _ (e.lineLt l' hl')
    · intro j' hj' _ _
      exact (a2 j' hj').symm
    · intro j x j' hj hm hj' ej
      rw [f3 j x hj hm, ← ej, a2 j' hj']
    · intro l hl hn hs
      apply a3 l (by rw [sv.lsize]; omega) hn
      have hne : (h.net.line l).driver ≠ c := fun e0 => (hS _ hs).2 e0
      rw [(sv.drvFrame l hl hne).1]; exact hs
  · intro S an v anm vm hH hM
    obtain ⟨anV, vV, cV, b1, b2, b3, b4⟩ := sv.backward S an v anm vm hH hM
    refine ⟨fun j => anV (R.node j), fun l => vV (R.line l), e.restrict S z neg prim anV vV cV, ?_, ?_, ?_⟩
    · intro l' hl'
      have hlt := e.lineLt l' hl'
      rw [sv.lsize] at hlt
      simp only [glueV]
      split
      · rename_i h1; exact b1 _ h1
      · rename_i hge
        have ht : R.line l' - h.net.lines.size < (copiedLines m map).length := by omega
        rw [List.getD_eq_getElem?_getD, List.getElem?_eq_getElem ht, Option.getD_some, ← b4 _ ht]
        congr 1; omega
    · intro j' _ h1 h2
      exact b2 _ h1 h2
    · intro j x j' hj hm _ ej
      show anV (R.node j') = anm j
      rw [ej]; exact b3 j x hj hm

end KV.Transform
