import KyupyVerif.Proofs.WaveTerm

namespace KV.Wave

theorem step_ovf_ge (lut D terms zcap) (s : St) : s.ovf ≤ (step lut D terms zcap s).ovf := by
  unfold step; simp only []; repeat' split
  all_goals simp

theorem run_ovf_ge (lut D terms zcap) (fuel : Nat) (s : St) : s.ovf ≤ (run lut D terms zcap fuel s).ovf := by
  induction fuel generalizing s with
  | zero => simp [run]
  | succ n ih =>
    unfold run; split
    · exact Nat.le_trans (step_ovf_ge lut D terms zcap s) (ih _)
    · exact Nat.le_refl _

/-- a step that does not raise the overflow counter does not depend on the capacity (for larger capacities) -/
theorem step_cap_irrel (lut D terms) (c c' : Nat) (hcc : c ≤ c') (s : St)
    (h : (step lut D terms c s).ovf = s.ovf) : step lut D terms c' s = step lut D terms c s := by
  unfold step at *
  simp only [] at *
  split
  · split
    · rename_i h1 h2
      simp only [h1, h2, if_true] at h
      split at h
      · rename_i hroom
        have : s.z.length < c' - 1 := by omega
        simp [this, hroom]
      · simp at h
    · rfl
  · rfl

/-- C13 (gate level): if no overflow happened with capacity `c`, any larger capacity gives the same run -/
theorem run_cap_irrel (lut D terms) (c c' : Nat) (hcc : c ≤ c') (fuel : Nat) (s : St)
    (h : (run lut D terms c fuel s).ovf = s.ovf) : run lut D terms c' fuel s = run lut D terms c fuel s := by
  induction fuel generalizing s with
  | zero => simp [run]
  | succ n ih =>
    unfold run at h ⊢
    split at h
    · rename_i hlt
      have h1 := step_ovf_ge lut D terms c s
      have h2 := run_ovf_ge lut D terms c n (step lut D terms c s)
      have hs : (step lut D terms c s).ovf = s.ovf := by omega
      have hstep := step_cap_irrel lut D terms c c' hcc s hs
      simp only [hlt, if_true]
      rw [hstep]
      exact ih _ (by omega)
    · rename_i hlt
      simp [hlt]

end KV.Wave
