import KyupyVerif.Model.Sig

namespace KV.Sig

/-! model of the greedy levelisation `sim.py:235-255` (operands already stem-resolved) -/
abbrev LSt := (Nat → Nat) × Nat      -- (levels per signal, current level)

def lstep (st : LSt) (o : Op) : LSt :=
  let cur' := if o.ins.any (fun x => decide (st.2 ≤ st.1 x)) then st.2 + 1 else st.2
  (upd st.1 o.out cur', cur')

def lrun (st : LSt) (ops : List Op) : LSt := ops.foldl lstep st

/-- level assigned to op `o` when it follows the ops `pre` -/
def levelOf (st0 : LSt) (pre : List Op) (o : Op) : Nat := (lstep (lrun st0 pre) o).2

def LInv (st : LSt) : Prop := ∀ x, st.1 x ≤ st.2

theorem lstep_spec (st : LSt) (o : Op) (h : LInv st) :
    LInv (lstep st o) ∧ st.2 ≤ (lstep st o).2 ∧ ∀ x ∈ o.ins, st.1 x < (lstep st o).2 := by
  unfold lstep
  simp only []
  by_cases hany : o.ins.any (fun x => decide (st.2 ≤ st.1 x)) = true
  · simp only [hany, if_true]
    refine ⟨?_, by omega, ?_⟩
    · intro x; simp only [upd]; split
      · omega
      · have := h x; omega
    · intro x _; have := h x; omega
  · have hany' : o.ins.any (fun x => decide (st.2 ≤ st.1 x)) = false := by simpa using hany
    simp only [hany', Bool.false_eq_true, if_false]
    refine ⟨?_, Nat.le_refl _, ?_⟩
    · intro x; simp only [upd]; split
      · omega
      · exact h x
    · intro x hx
      have := List.any_eq_false.mp hany' x hx
      simp at this; omega

theorem lrun_inv (st : LSt) (ops : List Op) (h : LInv st) : LInv (lrun st ops) ∧ st.2 ≤ (lrun st ops).2 := by
  induction ops generalizing st with
  | nil => exact ⟨h, Nat.le_refl _⟩
  | cons o os ih =>
    simp only [lrun, List.foldl_cons]
    have hs := lstep_spec st o h
    have := ih (lstep st o) hs.1
    exact ⟨this.1, Nat.le_trans hs.2.1 this.2⟩

/-- a signal not written by `ops` keeps its recorded level -/
theorem lrun_frame (st : LSt) (ops : List Op) (x : Nat) (h : ∀ o ∈ ops, o.out ≠ x) : (lrun st ops).1 x = st.1 x := by
  induction ops generalizing st with
  | nil => rfl
  | cons o os ih =>
    simp only [lrun, List.foldl_cons]
    have := ih (lstep st o) (fun o' ho' => h o' (List.mem_cons_of_mem _ ho'))
    simp only [lrun] at this
    rw [this]
    simp [lstep, upd, (h o (by simp)).symm]

/-- C07 (signal-level half): if `w` writes a signal that the later op `o` reads, and nothing between them
rewrites it, then `w` is placed in a strictly earlier level than `o` — for every op list -/
theorem levelise_valid (st0 : LSt) (h0 : LInv st0) (a b : List Op) (w o : Op)
    (hread : w.out ∈ o.ins) (hnowrite : ∀ p ∈ b, p.out ≠ w.out) :
    levelOf st0 a w < levelOf st0 (a ++ w :: b) o := by
  unfold levelOf
  have hrun : lrun st0 (a ++ w :: b) = lrun (lstep (lrun st0 a) w) b := by
    simp [lrun, List.foldl_append]
  rw [hrun]
  have hinvA := (lrun_inv st0 a h0).1
  have hsw := lstep_spec (lrun st0 a) w hinvA
  have hinvB := (lrun_inv (lstep (lrun st0 a) w) b hsw.1).1
  have hso := lstep_spec (lrun (lstep (lrun st0 a) w) b) o hinvB
  have hlv : (lrun (lstep (lrun st0 a) w) b).1 w.out = (lstep (lrun st0 a) w).2 := by
    rw [lrun_frame _ b w.out hnowrite]
    simp [lstep, upd]
  have := hso.2.2 w.out hread
  rw [hlv] at this
  exact this

/-- levels never decrease along the op list (so each level is a contiguous index range, as `level_starts` records) -/
theorem levelise_mono (st0 : LSt) (h0 : LInv st0) (a b : List Op) (w o : Op) :
    levelOf st0 a w ≤ levelOf st0 (a ++ w :: b) o := by
  unfold levelOf
  have hrun : lrun st0 (a ++ w :: b) = lrun (lstep (lrun st0 a) w) b := by
    simp [lrun, List.foldl_append]
  rw [hrun]
  have hinvA := (lrun_inv st0 a h0).1
  have hsw := lstep_spec (lrun st0 a) w hinvA
  have hB := lrun_inv (lstep (lrun st0 a) w) b hsw.1
  have hso := lstep_spec (lrun (lstep (lrun st0 a) w) b) o hB.1
  omega

end KV.Sig
