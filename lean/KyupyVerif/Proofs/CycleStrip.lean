import KyupyVerif.Proofs.CycleNet
/-! `cycle(k)` does not depend on `strip_forks`: for every well-formed netlist, topological order that contains the driver of
every captured line, value domain and op semantics in which `BUF1` returns its first operand, the `s` array after k cycles
of the stripped simulator equals that of the un-stripped one (signal level; C06 `strip_irrelevant_logic` lifted through the
clock loop — the two memories differ on the branch signals, which the stripped program neither writes nor reads). -/
namespace KV.Cycle
open KV KV.Sig KV.Wave

theorem sigOps_true_eq (tbl : List PrefixRow) {net : Net} {order : List Nat}
    (hwf : net.wfB = true) (ho : orderOKB net order = true) (hf : forksOKB net order = true) :
    sigOps tbl net order true = stripOps4 (stemList net) (sigOps tbl net order false) := by
  rw [sigOps_false, ← genOps_strip_eq_stripOps4 tbl hwf ho hf]
  rfl

/-- C06 `strip_irrelevant_logic` in terms of `sigOps` -/
theorem strip_exec {α} (tbl : List PrefixRow) {net : Net} {order : List Nat}
    (hwf : net.wfB = true) (ho : orderOKB net order = true) (hf : forksOKB net order = true)
    (f : Nat → List α → α) (dflt : α) (hbuf : ∀ xs, f BUF1 xs = xs.getD 0 dflt) (env : Nat → α) :
    (∀ x, (stemsOf net true).getD x none = none →
      exec f (sigOps tbl net order true) env x = exec f (sigOps tbl net order false) env x) ∧
    (∀ b s, (stemsOf net true).getD b none = some s → (∃ p ∈ sigOps tbl net order false, p.out = b) →
      exec f (sigOps tbl net order false) env b = exec f (sigOps tbl net order true) env s) := by
  rw [sigOps_true_eq tbl hwf ho hf]
  have hok : stripOkB (stemList net) net.idx.zero [] (sigOps tbl net order false) = true := by
    rw [sigOps_false]; exact genOps_stripOk tbl hwf ho hf
  obtain ⟨h1, h2⟩ := strip_logic f dflt hbuf (stemList net) net.idx.zero (sigOps tbl net order false) env hok
  refine ⟨fun x hx => h1 x ?_, fun b s hb hw => h2 b s ?_ hw⟩
  · rw [stemList_lookup]; exact hx
  · rw [stemList_lookup]; exact hb

/-- a captured branch is written by the un-stripped program -/
theorem captured_branch_written (tbl : List PrefixRow) {net : Net} {order : List Nat} (hwf : net.wfB = true)
    {x t : Nat} (hmem : (net.line x).driver ∈ order) (hs : (stemsOf net true).getD x none = some t) :
    ∃ q ∈ sigOps tbl net order false, q.out = x := by
  obtain ⟨l', _, hfk, hp', hout, _⟩ := stems_some hwf hs
  have hdf : drivenFork net (net.line x).driver = true := by simp [drivenFork, hfk, hp']
  obtain ⟨q, hq, hqo⟩ := forkRows_mem (ix := net.idx) hout
  rw [sigOps_false]
  refine ⟨q.toOp, List.mem_map.2 ⟨q, ?_, rfl⟩, hqo⟩
  unfold genOps
  simp only [List.mem_flatMap]
  refine ⟨_, hmem, ?_⟩
  rw [nodeOps_fork _ _ _ _ _ _ hdf]
  exact hq

theorem sp_out_in_un (tbl : List PrefixRow) {net : Net} {order : List Nat}
    (hwf : net.wfB = true) (ho : orderOKB net order = true) (hf : forksOKB net order = true)
    (o : Op) (h : o ∈ sigOps tbl net order true) : ∃ o' ∈ sigOps tbl net order false, o'.out = o.out := by
  rw [sigOps_true_eq tbl hwf ho hf] at h
  unfold stripOps4 at h
  obtain ⟨o', ho', rfl⟩ := List.mem_map.1 h
  exact ⟨o', (List.mem_filter.1 ho').1, rfl⟩

theorem sToC_strip {α} (net : Net) (d : α) (a : List α) (e : Nat → α) :
    sToC (tabsOf net true) d a e = sToC (tabsOf net false) d a e := rfl

theorem nextRow_congr2 {α} (net : Net) (s1 s2 : Bool) (merge : α → α → α) (sol sol' : Nat → α) (a : List α)
    (h : ∀ p, p < a.length → sol (capSig net s1 p) = sol' (capSig net s2 p)) :
    nextRow net s1 merge sol a = nextRow net s2 merge sol' a := by
  apply List.ext_getElem?
  intro i
  unfold nextRow
  rw [List.getElem?_mapIdx, List.getElem?_mapIdx]
  by_cases hi : i < a.length
  · rw [List.getElem?_eq_getElem hi, Option.map_some, Option.map_some, h i hi]
  · have : a[i]? = none := by simp; omega
    rw [this]; rfl

theorem captureRow_congr2 {α} (net : Net) (s1 s2 : Bool) (sol sol' : Nat → α) (a : List α)
    (h : ∀ p, p < a.length → sol (capSig net s1 p) = sol' (capSig net s2 p)) :
    captureRow net s1 sol a = captureRow net s2 sol' a := by
  apply List.ext_getElem?
  intro i
  unfold captureRow
  rw [List.getElem?_mapIdx, List.getElem?_mapIdx]
  by_cases hi : i < a.length
  · rw [List.getElem?_eq_getElem hi, Option.map_some, Option.map_some, h i hi]
  · have : a[i]? = none := by simp; omega
    rw [this]; rfl

section
variable {α : Type} (tbl : List PrefixRow) {net : Net} {order : List Nat}
  (hwf : net.wfB = true) (ho : orderOKB net order = true) (hf : forksOKB net order = true)
  (hcov : capDriversB net order = true)
  (f : Nat → List α → α) (dflt : α) (hbuf : ∀ xs, f BUF1 xs = xs.getD 0 dflt)
include hwf ho hf hcov hbuf

/-- the captured values of one cycle agree: stripped run read at the stem = un-stripped run read at the line -/
theorem captured_strip (d : α) (a : List α) (es eu : Nat → α)
    (hag : Agree (sigOps tbl net order false) (tabsOf net false) es eu) (p : Nat) (hp : p < net.sNodes.length) :
    solOf (fun op => f op.code) (sigOps tbl net order true) (tabsOf net true) d es a (capSig net true p) =
      solOf (fun op => f op.code) (sigOps tbl net order false) (tabsOf net false) d eu a (capSig net false p) := by
  have hw : WOJ (Jt net) (sigOps tbl net order false) := by
    rw [sigOps_false]; exact genOps_WOJ tbl net order false hwf ho
  rw [← solOf_agree (Jt net) _ _ hw net false d a es eu hag _ (capSig_notJunk net hwf p)]
  unfold solOf
  rw [sToC_strip, ← exec_eq_execG, ← exec_eq_execG]
  obtain ⟨g1, g2⟩ := strip_exec tbl hwf ho hf f dflt hbuf (sToC (tabsOf net false) d a es)
  rw [capSig_false]
  unfold capSig capSigW
  cases hpin : (sNodeAt net p).inPin 0 with
  | none =>
    simp only
    exact g1 _ (stems_none_ge hwf (by simp [Net.idx]))
  | some l =>
    simp only
    cases hst : (stemsOf net true).getD l none with
    | none =>
      have : viaStem (stemsOf net true) l = l := by unfold viaStem; rw [hst]; rfl
      rw [this]; exact g1 l hst
    | some s =>
      have : viaStem (stemsOf net true) l = s := by unfold viaStem; rw [hst]; rfl
      rw [this]
      have hmem : (net.line l).driver ∈ order := by
        unfold capDriversB at hcov
        have := List.all_eq_true.1 hcov p (List.mem_range.2 hp)
        rw [hpin] at this
        simpa using this
      exact (g2 l s hst (captured_branch_written tbl hwf hmem hst)).symm

omit hcov hbuf in
theorem agree_strip_after (d : α) (a : List α) (es eu : Nat → α)
    (hag : Agree (sigOps tbl net order false) (tabsOf net false) es eu) :
    Agree (sigOps tbl net order false) (tabsOf net false)
      (solOf (fun op => f op.code) (sigOps tbl net order true) (tabsOf net true) d es a)
      (solOf (fun op => f op.code) (sigOps tbl net order false) (tabsOf net false) d eu a) := by
  intro x hx hp
  unfold solOf
  rw [execG_frame _ _ _ x hx, execG_frame _ _ _ x (fun o ho' he => by
    obtain ⟨o', ho'', he'⟩ := sp_out_in_un tbl hwf ho hf o ho'
    exact hx o' ho'' (he'.trans he))]
  rw [sToC_strip, sToC_apply, sToC_apply, if_neg hp, if_neg hp]
  exact hag x hx hp

/-- **`cycle(k)` does not depend on `strip_forks`** (signal level) -/
theorem cycleK_strip (merge : α → α → α) (d : α) :
    ∀ (k : Nat) (ss su : St α), ss.s = su.s → su.s.s0.length = net.sNodes.length → su.s.s1.length = net.sNodes.length →
      Agree (sigOps tbl net order false) (tabsOf net false) ss.env su.env →
      (cycleK (fun op => f op.code) (sigOps tbl net order true) (tabsOf net true) merge d k ss).s =
        (cycleK (fun op => f op.code) (sigOps tbl net order false) (tabsOf net false) merge d k su).s := by
  intro k
  induction k with
  | zero => intro ss su h _ _ _; exact h
  | succ k ih =>
    intro ss su hs h0 h1 hag
    show (cycleK _ _ _ merge d k (cycle1 _ _ _ merge d ss)).s = (cycleK _ _ _ merge d k (cycle1 _ _ _ merge d su)).s
    have es := cycle1_s (fun op => f op.code) (sigOps tbl net order true) net true merge d ss (by rw [hs]; exact h0) (by rw [hs]; exact h1)
    have eu := cycle1_s (fun op => f op.code) (sigOps tbl net order false) net false merge d su h0 h1
    have hcap := captured_strip tbl hwf ho hf hcov f dflt hbuf d su.s.s0 ss.env su.env hag
    have heq : (cycle1 (fun op => f op.code) (sigOps tbl net order true) (tabsOf net true) merge d ss).s =
        (cycle1 (fun op => f op.code) (sigOps tbl net order false) (tabsOf net false) merge d su).s := by
      rw [es, eu]
      unfold stepS
      rw [hs]
      rw [nextRow_congr2 net true false merge _ _ su.s.s0 (fun p hp => hcap p (by omega)),
        captureRow_congr2 net true false _ _ su.s.s1 (fun p hp => hcap p (by omega))]
    apply ih _ _ heq
    · rw [eu]; simp [stepS, nextRow_length, h0]
    · rw [eu]; simp [stepS, captureRow_length, h1]
    · rw [cycle1_env, cycle1_env, hs]
      exact agree_strip_after tbl hwf ho hf f d su.s.s0 ss.env su.env hag

end
end KV.Cycle
