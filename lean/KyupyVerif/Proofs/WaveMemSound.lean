import KyupyVerif.Proofs.WaveMem
import KyupyVerif.Proofs.MapSoundRel
import KyupyVerif.Proofs.StripLinkMem
import KyupyVerif.Proofs.PairExec
/-! WaveSim on the REAL memory layout: memory-level execution of the op rows (operand waveforms read from
`[c_locs[i], c_locs[i] + c_caps[i])` up to their terminator, `waveEval`, result written into the region of the output)
against the signal-level model `Wave.simWave`, for every map record accepted by the certificate `MapIn.check`. -/
namespace KV.Wave
open KV KV.Sig KV.MapSound

/-- an op row of `SimOps` as a row of the waveform model: value sources = the operands resolved through the stems (the
    signals whose memory the operand indices denote), delay lines = the operand indices themselves (eight-index form of
    `opDelays`; without fork stripping both halves coincide) -/
def wvOp (p : MapIn) (o : OpRow) : Op := ⟨o.lut, o.out, o.ins.map p.src ++ o.ins⟩

/-- the signal-level waveform program of a map record -/
def waveProg (p : MapIn) : List Op := p.ops.map (wvOp p)

/-- configuration of a run: the delay table of the selected data set; capacities are `c_caps` (the evaluator uses
    `c_caps[z_idx]` as the capacity of its output) -/
def wcfg (p : MapIn) (delay : Nat → Bool → Bool → Int) : WCfg := ⟨delay, p.cap⟩

/-- what `_wave_eval` computes for row `o` from the four operand waveforms -/
def waveRow (cfg : WCfg) (p : MapIn) (o : OpRow) (args : List Wv) : Wv := waveSem cfg (wvOp p o) args

/-- **contract of one `_wave_eval` call on memory** (one lane): cells outside the region of the output keep their
    contents, and the region of the output then holds — up to its first terminator — the evaluator's result for the
    waveforms the four operand regions held before. Cells behind the terminator are unconstrained. -/
def WaveStep (p : MapIn) (cfg : WCfg) (o : OpRow) (m m' : Int → T) : Prop :=
  (∀ a, ¬ (p.loc o.out ≤ a ∧ a < p.loc o.out + (p.cap o.out : Int)) → m' a = m a) ∧
  rdWave (p.loc o.out) (p.cap o.out) m' =
    waveSem cfg (wvOp p o) (o.ins.map fun i => rdWave (p.loc i) (p.cap i) m)

/-- a propagation on memory: the rows run one after the other, every call honouring the contract -/
def WaveRun (p : MapIn) (cfg : WCfg) (rows : List OpRow) (m m' : Int → T) : Prop :=
  RunOK p (waveRW keepJunk) (waveRow cfg p) rows m m'

theorem waveStep_iff (p : MapIn) (cfg : WCfg) (junk) (o : OpRow) (m m' : Int → T) :
    StepOK p (waveRW junk) (waveRow cfg p) o m m' ↔ WaveStep p cfg o m m' := Iff.rfl

theorem runOK_junk (p : MapIn) (cfg : WCfg) (junk junk') (rows : List OpRow) (m m' : Int → T)
    (h : RunOK p (waveRW junk) (waveRow cfg p) rows m m') : RunOK p (waveRW junk') (waveRow cfg p) rows m m' := by
  induction h with
  | nil m => exact RunOK.nil m
  | cons hstep _ ih => exact RunOK.cons hstep ih

theorem waveRun_nil (p : MapIn) (cfg : WCfg) (m : Int → T) : WaveRun p cfg [] m m := RunOK.nil m
theorem waveRun_cons (p : MapIn) (cfg : WCfg) (o : OpRow) (rows : List OpRow) (m m1 m2 : Int → T)
    (h1 : WaveStep p cfg o m m1) (h2 : WaveRun p cfg rows m1 m2) : WaveRun p cfg (o :: rows) m m2 := RunOK.cons h1 h2

theorem waveRun_head {p : MapIn} {cfg : WCfg} {o : OpRow} {rows : List OpRow} {m m' : Int → T}
    (h : WaveRun p cfg (o :: rows) m m') : ∃ m1, WaveStep p cfg o m m1 ∧ WaveRun p cfg rows m1 m' := by
  cases h with
  | cons h1 h2 => exact ⟨_, h1, h2⟩

/-! ### signal level: `sigRun` of the rows is `simWave` of the eight-index program -/

theorem slot_append (xs ys : List Wv) (h : xs.length = 4) (i : Fin 4) : slot (xs ++ ys) i = slot xs i := by
  unfold slot
  rw [List.getD_eq_getElem?_getD, List.getD_eq_getElem?_getD, List.getElem?_append_left (by omega)]

theorem ins_length (o : OpRow) : o.ins.length = 4 := rfl

theorem sigStep_eq_execOpG (cfg : WCfg) (p : MapIn) (env : Nat → Wv) (o : OpRow) :
    sigStep p (waveRow cfg p) env o = execOpG (waveSem cfg) env (wvOp p o) := by
  funext j
  show (if j = o.out then waveSem cfg (wvOp p o) (o.ins.map fun i => env (p.src i)) else env j) =
    (if j = o.out then waveSem cfg (wvOp p o) ((o.ins.map p.src ++ o.ins).map env) else env j)
  by_cases hj : j = o.out
  · rw [if_pos hj, if_pos hj]
    apply waveSem_slots
    intro i
    rw [List.map_append, List.map_map, slot_append _ _ (by simp [ins_length])]
    rfl
  · rw [if_neg hj, if_neg hj]

theorem sigRun_eq_simWave (cfg : WCfg) (p : MapIn) (rows : List OpRow) (env : Nat → Wv) :
    sigRun p (waveRow cfg p) rows env = simWave cfg (rows.map (wvOp p)) env := by
  induction rows generalizing env with
  | nil => rfl
  | cons o rows ih =>
    simp only [sigRun, List.foldl_cons, List.map_cons, simWave, execG] at ih ⊢
    rw [sigStep_eq_execOpG]
    exact ih _

/-! ### capacities -/

theorem cap_ge_of_check (p : MapIn) (hc : p.check = none) : ∀ o ∈ p.ops, p.capsMin ≤ p.cap o.out := by
  have hg := good_of_check p hc
  intro o ho
  obtain ⟨k, hk⟩ := List.mem_iff_getElem?.1 ho
  by_cases hj : p.isJunk o.out = true
  · unfold MapIn.check MapIn.checkW at hc
    dsimp only at hc
    obtain ⟨h1, _⟩ := ite_none hc
    rw [Bool.not_eq_false', Bool.and_eq_true] at h1
    have h1 := h1.2
    simp only [List.all_cons, List.all_nil, Bool.and_true, Bool.and_eq_true, MapIn.inBounds, decide_eq_true_eq] at h1
    simp only [MapIn.isJunk, Bool.or_eq_true, beq_iff_eq] at hj
    rcases hj with e | e <;> rw [e] <;> omega
  · exact hg.inb o.out (mem_tracked_of_out p hk (by simpa using hj))

/-- the configuration hypotheses of the signal-level theorems hold for the program of an accepted map with
    `c_caps_min ≥ 4` and non-negative delays -/
theorem wcfg_good (p : MapIn) (hc : p.check = none) (h4 : 4 ≤ p.capsMin) (delay : Nat → Bool → Bool → Int)
    (hd : ∀ l a b, 0 ≤ delay l a b) : (wcfg p delay).Good (waveProg p) := by
  refine ⟨hd, ?_⟩
  intro op hop
  obtain ⟨o, ho, rfl⟩ := List.mem_map.1 hop
  have := cap_ge_of_check p hc o ho
  show 4 ≤ p.cap o.out
  omega

theorem nodupB_of_nodup : ∀ l : List Nat, l.Nodup → Sig.nodupB l = true
  | [], _ => rfl
  | x :: r, h => by
    have h' := List.nodup_cons.mp h
    simp only [Sig.nodupB, Bool.and_eq_true, Bool.not_eq_true', List.contains_eq_mem, decide_eq_false_iff_not]
    exact ⟨h'.1, nodupB_of_nodup r h'.2⟩

/-! ### the theorems -/

/-- **memory level = signal level, any implementation, any level-respecting order.** Accepted certificate, `c_caps_min ≥ 4`,
    delays ≥ 0, well-formed stimulus waveforms: in EVERY memory `m'` reachable from `m0` by running the rows along a
    duplicate-free schedule that respects `level_starts`, each `_wave_eval` call honouring `WaveStep`, the region of every
    output slot `j` reads — up to its terminator — as the waveform `simWave` computes (program order, no memory) for
    the captured signal `s`; the same for every pinned tracked signal. -/
theorem wave_mem_sound (p : MapIn) (hc : p.check = none) (delay : Nat → Bool → Bool → Int)
    (sched : List Nat) (hs : Sched p sched) (hnd : sched.Nodup) (m0 m' : Int → T) (env0 : Nat → Wv)
    (h0 : ∀ x ∈ p.tracked, (∀ o ∈ p.ops, o.out ≠ x) → rdWave (p.loc x) (p.cap x) m0 = env0 x)
    (hrun : WaveRun p (wcfg p delay) (schedOps p sched) m0 m') :
    ∀ j s, (j, s) ∈ p.ppoSrcs → rdWave (p.loc j) (p.cap j) m' = simWave (wcfg p delay) (waveProg p) env0 s := by
  intro j s hjs
  have := check_sound_rel_prog p hc (waveRW keepJunk) (waveRow (wcfg p delay) p) sched hs hnd m0 m' env0 h0 hrun j s hjs
  rw [sigRun_eq_simWave] at this
  exact this

/-- **such runs exist**: the deterministic run (`MapSound.memRun` with the storage discipline `waveRW junk`, any
    left-overs `junk` behind the terminators) honours the contract at every step — every result fits the region of its
    output because the evaluator never stores more than `cap - 1` entries and operands stay well formed -/
theorem wave_memRun_ok (p : MapIn) (hc : p.check = none) (h4 : 4 ≤ p.capsMin) (delay : Nat → Bool → Bool → Int)
    (hd : ∀ l a b, 0 ≤ delay l a b) (junk : Int → Nat → Wv → (Int → T) → Int → T)
    (sched : List Nat) (hs : Sched p sched) (m0 : Int → T) (env0 : Nat → Wv) (henv : ∀ x, (env0 x).ok)
    (h0 : ∀ x ∈ p.tracked, (∀ o ∈ p.ops, o.out ≠ x) → rdWave (p.loc x) (p.cap x) m0 = env0 x) :
    WaveRun p (wcfg p delay) (schedOps p sched) m0
      (memRun p (waveRW junk) (waveRow (wcfg p delay) p) (schedOps p sched) m0) := by
  apply runOK_junk p (wcfg p delay) junk keepJunk
  have hcap := cap_ge_of_check p hc
  refine memRun_runOK p hc (waveRW junk) (waveRow (wcfg p delay) p) sched hs Wv.ok ?_ ?_ m0 env0 henv h0
  · intro o ho args hargs
    exact waveSem_ok (wcfg p delay) (wvOp p o) args hd (by have := hcap o ho; show 4 ≤ p.cap o.out; omega) hargs
  · intro o ho args m hargs
    exact waveRW_fit junk _ _ _ m
      (waveSem_fits (wcfg p delay) (wvOp p o) args hd (by have := hcap o ho; show 4 ≤ p.cap o.out; omega) hargs)

/-! ### the stimulus read from the initial memory -/

/-- signal environment read off the initial memory: the waveforms in the input slots and the zero slot; any other
    index (written by a row before it is read) starts empty -/
def inputEnv (p : MapIn) (m0 : Int → T) : Nat → Wv := fun x =>
  if x ∈ p.ppiSlots ∨ x = p.ix.zero then rdWave (p.loc x) (p.cap x) m0 else Wv.empty

theorem inputEnv_ok (p : MapIn) (m0 : Int → T)
    (hin : ∀ x, x ∈ p.ppiSlots ∨ x = p.ix.zero → (rdWave (p.loc x) (p.cap x) m0).ok) : ∀ x, (inputEnv p m0 x).ok := by
  intro x
  unfold inputEnv
  split
  · rename_i h; exact hin x h
  · exact Wv.empty_ok

theorem inputEnv_h0 (p : MapIn) (m0 : Int → T) :
    ∀ x ∈ p.tracked, (∀ o ∈ p.ops, o.out ≠ x) → rdWave (p.loc x) (p.cap x) m0 = inputEnv p m0 x := by
  intro x hx hnw
  unfold MapIn.tracked at hx
  simp only [List.mem_append, List.mem_filter, List.mem_map, List.mem_singleton] at hx
  rcases hx with (⟨⟨o, ho, rfl⟩, _⟩ | hx) | hx
  · exact absurd rfl (hnw o ho)
  · simp [inputEnv, hx]
  · simp [inputEnv, hx]

/-! ### compact form of the hypotheses (used by the corollaries of C04, C05, C13) -/

/-- `m'` is reached from `m0` by a propagation: the rows of `p` run on memory in some order certified by `schedOKB` (every
    row once, no row of a later level before a row of an earlier one), every evaluator call honouring `WaveStep` -/
def Propagated (p : MapIn) (delay : Nat → Bool → Bool → Int) (m0 m' : Int → T) : Prop :=
  ∃ sched, p.schedOKB sched = true ∧ WaveRun p (wcfg p delay) (schedOps p sched) m0 m'

/-- the signal environment `env0` describes the stimulus stored in `m0`: it agrees with the memory on every tracked
    signal that no row writes (input slots, zero slot) -/
def Stimulus (p : MapIn) (m0 : Int → T) (env0 : Nat → Wv) : Prop :=
  ∀ x ∈ p.tracked, (∀ o ∈ p.ops, o.out ≠ x) → rdWave (p.loc x) (p.cap x) m0 = env0 x

theorem stimulus_inputEnv (p : MapIn) (m0 : Int → T) : Stimulus p m0 (inputEnv p m0) := inputEnv_h0 p m0

/-- moving every time stored in the initial memory rigidly moves the stimulus rigidly -/
theorem stimulus_aff (k s : Int) (p : MapIn) (m0 : Int → T) (env0 : Nat → Wv) (h : Stimulus p m0 env0) :
    Stimulus p (fun a => (m0 a).aff k s) (fun x => (env0 x).aff k s) := by
  intro x hx hnw
  rw [rdWave_aff, h x hx hnw]

/-- `wave_mem_sound` in compact form -/
theorem propagated_eq_sim (p : MapIn) (hc : p.check = none) (delay : Nat → Bool → Bool → Int) (m0 m' : Int → T)
    (env0 : Nat → Wv) (hst : Stimulus p m0 env0) (hpr : Propagated p delay m0 m') :
    ∀ j s, (j, s) ∈ p.ppoSrcs → rdWave (p.loc j) (p.cap j) m' = simWave (wcfg p delay) (waveProg p) env0 s := by
  obtain ⟨sched, hs, hrun⟩ := hpr
  exact wave_mem_sound p hc delay sched (schedOKB_sound p sched hs).1 (schedOKB_sound p sched hs).2 m0 m' env0 hst hrun

/-- propagations exist (program order, deterministic evaluator, any left-overs) -/
theorem propagated_exists (p : MapIn) (hc : p.check = none) (h4 : 4 ≤ p.capsMin) (delay : Nat → Bool → Bool → Int)
    (hd : ∀ l a b, 0 ≤ delay l a b) (junk : Int → Nat → Wv → (Int → T) → Int → T) (m0 : Int → T) (env0 : Nat → Wv)
    (henv : ∀ x, (env0 x).ok) (hst : Stimulus p m0 env0) :
    Propagated p delay m0 (memRun p (waveRW junk) (waveRow (wcfg p delay) p) p.ops m0) := by
  have hs : p.schedOKB (List.range p.ops.length) = true := by
    have h := sched_range p
    simp only [MapIn.schedOKB, Bool.and_eq_true, List.all_eq_true, decide_eq_true_eq, Bool.or_eq_true,
      Bool.not_eq_true', decide_eq_false_iff_not]
    refine ⟨⟨⟨fun k hk => by simpa using hk, fun k hk => by simpa using hk⟩, ?_⟩, ?_⟩
    · exact nodupB_of_nodup _ List.nodup_range
    · intro a ha b hb
      by_cases hab : a.2 ≤ b.2
      · right
        exact h.mono a.2 b.2 a.1 b.1 hab (List.mem_zipIdx_iff_getElem?.1 ha) (List.mem_zipIdx_iff_getElem?.1 hb)
      · left; exact hab
  refine ⟨List.range p.ops.length, hs, ?_⟩
  have := wave_memRun_ok p hc h4 delay hd junk _ (sched_range p) m0 env0 henv hst
  rw [schedOps_range] at this ⊢
  exact this

/-! ### code-indexed logic semantics on the eight-index rows -/

/-- `f` looks at its first four operands only -/
def First4 {α} (f : Nat → List α → α) : Prop := ∀ code (xs ys : List α), xs.length = 4 → f code (xs ++ ys) = f code xs

theorem getD_append4 {α} (xs ys : List α) (h : xs.length = 4) (i : Nat) (hi : i < 4) (d : α) :
    (xs ++ ys).getD i d = xs.getD i d := by
  rw [List.getD_eq_getElem?_getD, List.getD_eq_getElem?_getD, List.getElem?_append_left (by omega)]

theorem first4_lutSem : First4 lutSem := by
  intro code xs ys h
  unfold lutSem
  rw [getD_append4 xs ys h 0 (by omega), getD_append4 xs ys h 1 (by omega), getD_append4 xs ys h 2 (by omega),
    getD_append4 xs ys h 3 (by omega)]

/-- a logic simulation of the eight-index program is the logic simulation of the four-index rows `MapSound.sigOp` (what
    `LogicSim` runs: operands resolved through the stems) -/
theorem exec_waveProg {α} (f : Nat → List α → α) (hf : First4 f) (p : MapIn) (rows : List OpRow) (env : Nat → α) :
    exec f (rows.map (wvOp p)) env = exec f (rows.map (sigOp p)) env := by
  induction rows generalizing env with
  | nil => rfl
  | cons o rows ih =>
    simp only [exec, List.map_cons, List.foldl_cons] at ih ⊢
    have : execOp f env (wvOp p o) = execOp f env (sigOp p o) := by
      funext j
      show (if j = o.out then f o.lut ((o.ins.map p.src ++ o.ins).map env) else env j) =
        (if j = o.out then f o.lut ((o.ins.map p.src).map env) else env j)
      rw [List.map_append]
      by_cases hj : j = o.out
      · rw [if_pos hj, if_pos hj, hf _ _ _ (by simp [ins_length])]
      · rw [if_neg hj, if_neg hj]
    rw [this]
    exact ih _

end KV.Wave
