import KyupyVerif.Proofs.SdfText
/-! Hand-over of the SDF text model to the post-parse model on printed block lists: thousandths print as `[-]i.fff`
and read back as the same integer, so `toRaw (ofRaw B) = some B`, and the round trip goes through the text. -/
namespace KV.SdfText
open KV.TextLex

/-! ## digits -/
theorem digitCh_spec (d : Nat) (h : d < 10) : isDigit (digitCh d) = true ∧ (digitCh d).toNat - '0'.toNat = d := by
  have : d = 0 ∨ d = 1 ∨ d = 2 ∨ d = 3 ∨ d = 4 ∨ d = 5 ∨ d = 6 ∨ d = 7 ∨ d = 8 ∨ d = 9 := by omega
  rcases this with rfl | rfl | rfl | rfl | rfl | rfl | rfl | rfl | rfl | rfl <;> decide

theorem foldl_digits (l : List Char) (a : Nat) :
    l.foldl (fun acc c => 10 * acc + (c.toNat - '0'.toNat)) a = a * 10 ^ l.length + digitsVal l := by
  induction l generalizing a with
  | nil => simp [digitsVal]
  | cons c l ih =>
    simp only [List.foldl_cons, List.length_cons, digitsVal]
    rw [ih, ih (10 * 0 + (c.toNat - '0'.toNat))]
    simp only [Nat.pow_succ]
    have : a * (10 ^ l.length * 10) = 10 * a * 10 ^ l.length := by
      rw [Nat.mul_comm (10 ^ l.length) 10, ← Nat.mul_assoc, Nat.mul_comm a 10]
    rw [this, Nat.add_mul]
    simp only [Nat.mul_zero, Nat.zero_add, Nat.add_assoc]

theorem digitsVal_cons (c : Char) (l : List Char) :
    digitsVal (c :: l) = (c.toNat - '0'.toNat) * 10 ^ l.length + digitsVal l := by
  simp only [digitsVal, List.foldl_cons]
  rw [foldl_digits]
  simp [digitsVal]

theorem natDigitsAux_spec (f : Nat) : ∀ (n : Nat) (acc : List Char), n < f →
    (∀ c ∈ acc, isDigit c = true) →
    (∀ c ∈ natDigitsAux f n acc, isDigit c = true) ∧ natDigitsAux f n acc ≠ [] ∧
    digitsVal (natDigitsAux f n acc) = n * 10 ^ acc.length + digitsVal acc := by
  induction f with
  | zero => intro n acc h; cases h
  | succ f ih =>
    intro n acc hn hacc
    simp only [natDigitsAux]
    split
    · rename_i hlt
      have hd := digitCh_spec n hlt
      refine ⟨?_, by simp, ?_⟩
      · intro c hc
        rcases List.mem_cons.mp hc with rfl | hc
        · exact hd.1
        · exact hacc c hc
      · rw [digitsVal_cons, hd.2]
    · rename_i hge
      have hd := digitCh_spec (n % 10) (Nat.mod_lt _ (by omega))
      have := ih (n / 10) (digitCh (n % 10) :: acc) (by omega)
        (by intro c hc; rcases List.mem_cons.mp hc with rfl | hc; exact hd.1; exact hacc c hc)
      refine ⟨this.1, this.2.1, ?_⟩
      rw [this.2.2, digitsVal_cons, hd.2]
      simp only [List.length_cons, Nat.pow_succ]
      have h10 : n = 10 * (n / 10) + n % 10 := (Nat.div_add_mod n 10).symm
      generalize 10 ^ acc.length = p at *
      generalize n / 10 = q at *
      generalize n % 10 = r at *
      subst h10
      rw [Nat.add_mul, Nat.mul_comm 10 q, Nat.mul_assoc, Nat.mul_comm p 10, Nat.add_assoc]

theorem natDigits_spec (n : Nat) :
    (∀ c ∈ natDigits n, isDigit c = true) ∧ natDigits n ≠ [] ∧ digitsVal (natDigits n) = n := by
  have := natDigitsAux_spec (n + 1) n [] (by omega) (by intro c hc; cases hc)
  refine ⟨this.1, this.2.1, ?_⟩
  rw [natDigits, this.2.2]
  simp [digitsVal]

/-! ## `showMilli` -/
theorem isDigit_isNumCh (c : Char) (h : isDigit c = true) : isNumCh c = true := by
  simp only [isDigit] at h
  simp [isNumCh, h]

theorem spanP_digits (ip R : List Char) (hip : ∀ c ∈ ip, isDigit c = true) :
    spanP isDigit (ip ++ '.' :: R) = (ip, '.' :: R) :=
  spanP_append isDigit ip ('.' :: R) hip (by intro c r e; cases e; decide)

/-- unsigned part: floatOK, all number characters, value -/
theorem unsigned_spec (a : Nat) :
    let u := natDigits (a / 1000) ++ ['.', digitCh (a / 100 % 10), digitCh (a / 10 % 10), digitCh (a % 10)]
    (spanP isDigit u).1 = natDigits (a / 1000) ∧
    (spanP isDigit u).2 = ['.', digitCh (a / 100 % 10), digitCh (a / 10 % 10), digitCh (a % 10)] ∧
    (∀ c ∈ u, isNumCh c = true) ∧
    digitsVal (natDigits (a / 1000)) * 1000 + digitsVal [digitCh (a / 100 % 10), digitCh (a / 10 % 10), digitCh (a % 10)] = a := by
  intro u
  obtain ⟨h1, _, h3⟩ := natDigits_spec (a / 1000)
  have d1 := digitCh_spec (a / 100 % 10) (Nat.mod_lt _ (by omega))
  have d2 := digitCh_spec (a / 10 % 10) (Nat.mod_lt _ (by omega))
  have d3 := digitCh_spec (a % 10) (Nat.mod_lt _ (by omega))
  have hs := spanP_digits (natDigits (a / 1000)) [digitCh (a / 100 % 10), digitCh (a / 10 % 10), digitCh (a % 10)] h1
  refine ⟨by rw [hs], by rw [hs], ?_, ?_⟩
  · intro c hc
    simp only [u, List.mem_append, List.mem_cons, List.not_mem_nil, or_false] at hc
    rcases hc with hc | rfl | rfl | rfl | rfl
    · exact isDigit_isNumCh c (h1 c hc)
    · decide
    · exact isDigit_isNumCh _ d1.1
    · exact isDigit_isNumCh _ d2.1
    · exact isDigit_isNumCh _ d3.1
  · rw [h3, digitsVal_cons, digitsVal_cons, digitsVal_cons, d1.2, d2.2, d3.2]
    simp only [List.length_cons, List.length_nil, digitsVal, List.foldl_nil]
    omega

theorem ufloatOK_unsigned (a : Nat) :
    ufloatOK (natDigits (a / 1000) ++ ['.', digitCh (a / 100 % 10), digitCh (a / 10 % 10), digitCh (a % 10)]) = true := by
  obtain ⟨h1, h2, _, _⟩ := unsigned_spec a
  have d1 := digitCh_spec (a / 100 % 10) (Nat.mod_lt _ (by omega))
  have d2 := digitCh_spec (a / 10 % 10) (Nat.mod_lt _ (by omega))
  have d3 := digitCh_spec (a % 10) (Nat.mod_lt _ (by omega))
  simp only [ufloatOK, h2, h1, List.all_cons, d1.1, d2.1, d3.1, List.all_nil]
  simp

theorem showMilli_spec (v : Int) : validField (showMilli v) = true ∧ milli (showMilli v) = some v := by
  obtain ⟨h1, h2, h3, h4⟩ := unsigned_spec v.natAbs
  have hf := ufloatOK_unsigned v.natAbs
  obtain ⟨hd, hne, _⟩ := natDigits_spec (v.natAbs / 1000)
  generalize hU : natDigits (v.natAbs / 1000) ++
    ['.', digitCh (v.natAbs / 100 % 10), digitCh (v.natAbs / 10 % 10), digitCh (v.natAbs % 10)] = U at h1 h2 h3 hf
  have hUhead : ∃ c0 rest, U = c0 :: rest ∧ c0 ≠ '-' := by
    cases hnd : natDigits (v.natAbs / 1000) with
    | nil => exact absurd hnd hne
    | cons c0 rest =>
      have hc0 : isDigit c0 = true := hd c0 (by rw [hnd]; simp)
      refine ⟨c0, _, by rw [← hU, hnd]; rfl, ?_⟩
      intro e; subst e; revert hc0; decide
  obtain ⟨c0, rest, hUe, hneq⟩ := hUhead
  by_cases hneg : v < 0
  · have hshow : showMilli v = '-' :: U := by simp [showMilli, hneg, hU]
    have hfl : floatOK (showMilli v) = true := by rw [hshow]; simp [floatOK, hf]
    refine ⟨?_, ?_⟩
    · simp only [validField, fieldOK, Bool.and_eq_true, List.all_eq_true, Bool.or_eq_true]
      refine ⟨?_, Or.inr hfl⟩
      intro c hc
      rw [hshow] at hc
      rcases List.mem_cons.mp hc with rfl | hc
      · decide
      · exact h3 c hc
    · simp only [milli, hfl, Bool.not_true, Bool.false_eq_true, ↓reduceIte]
      rw [hshow]
      simp only [List.head?_cons, beq_self_eq_true, ↓reduceIte, List.drop_succ_cons, List.drop_zero, h1, h2,
        List.drop_nil, List.all_nil, List.take_succ_cons, List.take_zero, List.length_cons, List.length_nil,
        Nat.sub_self, List.replicate_zero, List.append_nil, h4, Option.some.injEq]
      omega
  · have hshow : showMilli v = U := by simp [showMilli, hneg, hU]
    have hfl : floatOK (showMilli v) = true := by rw [hshow, hUe]; rw [hUe] at hf; simp [floatOK, hneq, hf]
    refine ⟨?_, ?_⟩
    · simp only [validField, fieldOK, Bool.and_eq_true, List.all_eq_true, Bool.or_eq_true]
      refine ⟨?_, Or.inr hfl⟩
      intro c hc
      rw [hshow] at hc
      exact h3 c hc
    · simp only [milli, hfl, Bool.not_true, Bool.false_eq_true, ↓reduceIte]
      rw [hshow]
      have hhd : U.head? = some c0 := by rw [hUe]; rfl
      have hb : (some c0 == some '-') = false := by simp [hneq]
      simp only [hhd, hb, Bool.false_eq_true, ↓reduceIte, h1, h2, List.drop_succ_cons, List.drop_zero,
        List.drop_nil, List.all_nil, List.take_succ_cons, List.take_zero, List.length_cons, List.length_nil,
        Nat.sub_self, List.replicate_zero, List.append_nil, h4, Option.some.injEq]
      omega

/-! ## `toRaw ∘ ofRaw` -/
theorem optAll_roundtrip {α β : Type} (g : α → β) (f : β → Option α) (l : List α) (h : ∀ x ∈ l, f (g x) = some x) :
    optAll ((l.map g).map f) = some l := by
  induction l with
  | nil => rfl
  | cons x l ih =>
    simp only [List.map_cons, optAll, h x (by simp), ih (fun y hy => h y (by simp [hy]))]

theorem showMilli_ne_nil (v : Int) : (showMilli v).isEmpty = false := by
  simp only [showMilli]
  split <;> simp

theorem fieldVal_fieldTxt (o : Option Int) : fieldVal (fieldTxt o) = some o := by
  cases o with
  | none => rfl
  | some v => simp [fieldVal, fieldTxt, showMilli_ne_nil v, (showMilli_spec v).2]

theorem triple_toRaw (t : KV.Sdf.RawTriple) (h : (t.length == 0 || t.length == 3) = true) :
    (ofRawTriple t).toRaw = some t := by
  match t, h with
  | [], _ => rfl
  | [a, b, c], _ => simp [ofRawTriple, TTriple.toRaw, optAll, fieldVal_fieldTxt]

theorem entry_toRaw (io : Bool) (e : KV.Sdf.RawEntry) (h : e.vals.all (fun t => t.length == 0 || t.length == 3) = true) :
    (ofRawEntry io e).toRaw = some e := by
  have := optAll_roundtrip ofRawTriple TTriple.toRaw e.vals (fun t ht => triple_toRaw t (List.all_eq_true.mp h t ht))
  simp only [TEntry.toRaw, ofRawEntry, this, Option.map_some, String.ofList_toList]

theorem cell_toRaw (c : KV.Sdf.RawCell)
    (h : c.delays.all (fun es => es.all fun e => e.vals.all fun t => t.length == 0 || t.length == 3) = true) :
    (ofRawCell c).toRaw = some c := by
  have h2 : optAll ((c.delays.map fun es => es.map (ofRawEntry (!c.insts.isEmpty))).map fun es => optAll (es.map TEntry.toRaw))
      = some c.delays :=
    optAll_roundtrip _ _ c.delays (fun es hes =>
      optAll_roundtrip _ TEntry.toRaw es (fun e he =>
        entry_toRaw _ e (List.all_eq_true.mp (List.all_eq_true.mp h es hes) e he)))
  have h3 : (c.insts.map String.toList).map String.ofList = c.insts := by
    simp [String.ofList_toList]
  simp only [TCell.toRaw, ofRawCell, h2, h3, Option.map_some]

theorem toRaw_ofRaw (B : List KV.Sdf.RawCell) (h : rawShapeOK B = true) : (ofRaw B).toRaw = some B :=
  optAll_roundtrip ofRawCell TCell.toRaw B (fun c hc => cell_toRaw c (List.all_eq_true.mp h c hc))

/-- the block list of the post-parse model goes through the text: print it (numbers as `[-]i.fff`), read the text with
the grammar model, hand the tree over — the same block list comes back -/
theorem raw_roundtrip (B : List KV.Sdf.RawCell) (hs : rawShapeOK B = true) (hv : (ofRaw B).valid = true) :
    (parseSdf (printSdf (ofRaw B))).bind SdfFile.toRaw = some B := by
  rw [parseSdf_print (ofRaw B) hv]
  exact toRaw_ofRaw B hs

end KV.SdfText
