import KyupyVerif.Proofs.TransformSem5
/-! Helper lemmas for C10 (`elim_sem`), part 6: `consistentB` (assignment by `s_nodes` position, labelling as an array)
in terms of the node-indexed form `ConsN`, and the final statement in terms of `relabel` / `reassign`. -/
namespace KV.Transform
open KV

theorem sPosTable_getD (net : Net) (d : Nat) (hd : d < net.nodes.size) :
    net.sPosTable.getD d none = sPosIn net.sNodes d := by
  simp only [Net.sPosTable, Array.getD_eq_getD_getElem?]
  simp only [List.getElem?_toArray, List.getElem?_map, List.getElem?_range hd, Option.map_some, Option.getD_some]

theorem sp_map_eq {α : Type _} (net : Net) (d : Nat) (hd : d < net.nodes.size) (asg : Nat → α) :
    (net.sPosTable.getD d none).map asg = (spN net d).map (fun n => asg (net.sNodes.idxOf n)) := by
  rw [sPosTable_getD net d hd]
  simp only [sPosIn, spN, List.contains_iff_mem]
  by_cases h : d ∈ net.sNodes
  · simp [h, List.idxOf_lt_length_iff.mpr h]
  · have : ¬ List.idxOf d net.sNodes < net.sNodes.length := fun x => h (List.idxOf_lt_length_iff.mp x)
    simp [h, this]

/-- `ConsN` only looks at the assignment of `s_nodes` and at the labels of lines of the circuit -/
theorem consN_congr {α : Type _} {nn : NNet} (h : SI nn) (z : α) (neg : α → α) (prim : String → α → α → α → α → α)
    (an1 an2 v1 v2 : Nat → α) (ha : ∀ n ∈ nn.net.sNodes, an1 n = an2 n) (hv : ∀ l, l < nn.net.lines.size → v1 l = v2 l)
    (hc : ConsN nn z neg prim an1 v1) : ConsN nn z neg prim an2 v2 := by
  intro l hl
  rw [← hv l hl, hc l hl]
  symm
  apply lineEq_congr
  · rfl
  · rfl
  · simp only [spN, List.contains_iff_mem]
    by_cases e : (nn.net.line l).driver ∈ nn.net.sNodes
    · simp [e, ha _ e]
    · simp [e]
  · intro k
    cases ho : (nn.net.node (nn.net.line l).driver).inPin k with
    | none => rfl
    | some x =>
      simp only [Option.map_some]
      rw [hv x (h.fwdIn _ (h.back l hl).1 k x ho).1]

theorem consistentB_iff {α : Type _} [BEq α] [LawfulBEq α] {nn : NNet} (h : SI nn) (z : α) (neg : α → α)
    (prim : String → α → α → α → α → α) (asg : Nat → α) (v : Array α) :
    consistentB nn.net z neg prim asg v = true ↔
      ConsN nn z neg prim (fun n => asg (nn.net.sNodes.idxOf n)) (fun l => v.getD l z) := by
  simp only [consistentB, List.all_eq_true, List.mem_range, beq_iff_eq, ConsN]
  have key : ∀ l, l < nn.net.lines.size →
      lineEq nn.net (fun n => nn.net.sPosTable.getD n none) z neg prim asg (fun i => v.getD i z) l =
      lineEq nn.net (spN nn.net) z neg prim (fun n => asg (nn.net.sNodes.idxOf n)) (fun l => v.getD l z) l := by
    intro l hl
    apply lineEq_congr
    · rfl
    · rfl
    · exact sp_map_eq nn.net _ (h.back l hl).1 asg
    · intro k; rfl
  constructor
  · intro hc l hl; rw [hc l hl, key l hl]
  · intro hc l hl; rw [hc l hl, key l hl]

theorem relabel_getD {α : Type _} (r : Ren) (nn' : NNet) (v : Array α) (z : α) (l : Nat) (hl : l < nn'.net.lines.size) :
    (relabel r nn' v z).getD l z = v.getD (r.line l) z := by
  simp [relabel, Array.getD_eq_getD_getElem?, hl]

theorem getD_idxOf {l : List Nat} {n : Nat} (h : n ∈ l) : l.getD (l.idxOf n) 0 = n := by
  have hlt := List.idxOf_lt_length_iff.mpr h
  rw [List.getD_eq_getElem?_getD, List.getElem?_eq_getElem hlt, Option.getD_some]
  exact List.getElem_idxOf hlt

/-- the final form: a consistent labelling of `nn`, restricted and renamed along `r`, is a consistent labelling of `nn'`
    under the correspondingly permuted assignment, and every surviving node reads the same value at every pin -/
theorem sim_consistentB {α : Type _} [BEq α] [LawfulBEq α] {nn nn' : NNet} {r : Ren} (h : SI nn) (s : Sim nn nn' r)
    (z : α) (neg : α → α) (prim : String → α → α → α → α → α) (sem : SemP z neg prim nn nn' r)
    (asg : Nat → α) (v : Array α) (hc : consistentB nn.net z neg prim asg v = true) :
    consistentB nn'.net z neg prim (reassign r nn nn' asg) (relabel r nn' v z) = true ∧
    ∀ j' k, j' < nn'.net.nodes.size → pinRead nn'.net (relabel r nn' v z) z j' k = pinRead nn.net v z (r.node j') k := by
  have hN := (consistentB_iff h z neg prim asg v).mp hc
  obtain ⟨c1, p1⟩ := sem _ _ hN
  constructor
  · rw [consistentB_iff s.si]
    apply consN_congr s.si z neg prim _ _ _ _ _ _ c1
    · intro n hn
      simp only [reassign, sigma]
      rw [getD_idxOf hn]
    · intro l hl
      rw [relabel_getD r nn' v z l hl]
  · intro j' k hj
    have := p1 j' k hj
    simp only [pinRead]
    rw [← this]
    cases ho : (nn'.net.node j').inPin k with
    | none => rfl
    | some x =>
      simp only [Option.map_some]
      rw [relabel_getD r nn' v z x (s.si.fwdIn j' hj k x ho).1]

end KV.Transform

namespace KV.Transform
open KV

theorem sNodes_lt {nn : NNet} (h : SI nn) (n : Nat) (hn : n ∈ nn.net.sNodes) : n < nn.net.nodes.size := by
  rw [mem_sNodes] at hn
  rcases hn with hn | hn | hn
  · exact h.io n hn
  · exact hn.1
  · exact hn.1

/-- positional form: the value captured at `s_nodes` position `p'` of the result is the value captured at position
    `sigma … p'` of the original, and the node there has the same name and kind -/
theorem sim_captures {α : Type _} {nn nn' : NNet} {r : Ren} (s : Sim nn nn' r) (v v' : Array α) (z : α)
    (hp : ∀ j' k, j' < nn'.net.nodes.size → pinRead nn'.net v' z j' k = pinRead nn.net v z (r.node j') k)
    (p' : Nat) (hp' : p' < nn'.net.sNodes.length) :
    sigma r nn nn' p' < nn.net.sNodes.length ∧
    (capturesOf nn'.net v' z)[p']? = (capturesOf nn.net v z)[sigma r nn nn' p']? ∧
    nn'.sNames[p']? = nn.sNames[sigma r nn nn' p']? ∧
    (nn'.net.node (nn'.net.sNodes.getD p' 0)).kind = (nn.net.node (nn.net.sNodes.getD (sigma r nn nn' p') 0)).kind := by
  have hmem : nn'.net.sNodes[p'] ∈ nn'.net.sNodes := List.getElem_mem hp'
  have hlt := sNodes_lt s.si _ hmem
  have hm := (s.mem _ hlt).mp hmem
  have hσ : sigma r nn nn' p' = nn.net.sNodes.idxOf (r.node nn'.net.sNodes[p']) := by
    simp [sigma, List.getD_eq_getElem?_getD, List.getElem?_eq_getElem hp']
  have hσlt : sigma r nn nn' p' < nn.net.sNodes.length := by rw [hσ]; exact List.idxOf_lt_length_iff.mpr hm
  have hget : nn.net.sNodes[sigma r nn nn' p'] = r.node nn'.net.sNodes[p'] := by
    simp only [hσ]; exact List.getElem_idxOf _
  refine ⟨hσlt, ?_, ?_, ?_⟩
  · simp only [capturesOf, List.getElem?_map, List.getElem?_eq_getElem hp', List.getElem?_eq_getElem hσlt, Option.map_some]
    rw [hget, hp _ 0 hlt]
  · simp only [NNet.sNames, List.getElem?_map, List.getElem?_eq_getElem hp', List.getElem?_eq_getElem hσlt, Option.map_some]
    rw [hget, s.name _ hlt]
  · simp only [List.getD_eq_getElem?_getD, List.getElem?_eq_getElem hp', List.getElem?_eq_getElem hσlt, Option.getD_some]
    rw [hget, s.kind _ hlt]

end KV.Transform
