import KyupyVerif.Proofs.SubstSem2
/-! Helper lemmas for C10 (`substitute_sem`), structural part 1: the state after `phase1` and the loop `for n in impl.nodes`
(`addImplNode`): the host's nodes other than the cell are untouched, the cell and the new nodes have empty pin lists,
`node_map` is injective with the documented domain, the kinds of the new nodes, the node keys stay distinct. -/
namespace KV.Transform
open KV

theorem addNode_spec (h h' : NNet) (name kind : String) (he : addNode h name kind = some h') :
    h'.net.nodes = h.net.nodes.push ⟨kind, [], []⟩ ∧ h'.net.lines = h.net.lines ∧ h'.net.io = h.net.io ∧
    h'.names = h.names.push name ∧ h.keys.contains (name, kind == "__fork__") = false := by
  unfold addNode at he
  split at he
  · exact absurd he (by simp)
  · rename_i hc
    cases he
    exact ⟨rfl, rfl, rfl, rfl, by simpa using hc⟩

theorem node_push_lt (net : Net) (ns : Array NodeD) (x : NodeD) (d : Nat) (h : d < ns.size) :
    ({ net with nodes := ns.push x } : Net).node d = ns.getD d default := by
  have : ¬ d = ns.size := by omega
  simp [Net.node, Array.getD_eq_getD_getElem?, Array.getElem?_push, this]

theorem getD_push_eq (ns : Array NodeD) (x : NodeD) : (ns.push x).getD ns.size default = x := by
  simp [Array.getD_eq_getD_getElem?, Array.getElem?_push]

theorem getD_push_gt (ns : Array NodeD) (x : NodeD) (d : Nat) (h : ns.size < d) : (ns.push x).getD d default = default := by
  have h1 : ¬ d = ns.size := by omega
  simp only [Array.getD_eq_getD_getElem?, Array.getElem?_push, h1, if_false]
  rw [Array.getElem?_eq_none (by omega)]; rfl

theorem getD_push_lt (ns : Array NodeD) (x : NodeD) (d : Nat) (h : d < ns.size) : (ns.push x).getD d default = ns.getD d default := by
  have : ¬ d = ns.size := by omega
  simp [Array.getD_eq_getD_getElem?, Array.getElem?_push, this]

theorem mapGetD_set (map : Array (Option Nat)) (j k : Nat) (v : Option Nat) :
    (map.setIfInBounds j v).getD k none = if j = k ∧ j < map.size then v else map.getD k none := by
  simp only [Array.getD_eq_getD_getElem?, Array.getElem?_setIfInBounds]
  by_cases e : j = k
  · subst e
    by_cases hj : j < map.size
    · simp [hj]
    · simp [hj, Array.getElem?_eq_none (by omega : map.size ≤ j)]
  · simp [e]

/-- the state of the loop over the implementation's nodes after the nodes `pre` -/
structure NodeInv (h : NNet) (c : Nat) (m : NNet) (dn : Nat) (hn : String) (pre : List Nat) (st : NNet × Array (Option Nat)) : Prop where
  lines : st.1.net.lines = h.net.lines
  io : st.1.net.io = h.net.io
  ioLt : ∀ i ∈ h.net.io, i < h.net.nodes.size
  nsize : h.net.nodes.size ≤ st.1.net.nodes.size
  msize : st.2.size = m.net.nodes.size
  names : st.1.names.size = st.1.net.nodes.size
  nameHost : ∀ d, d < h.net.nodes.size → st.1.names.getD d "" = h.names.getD d ""
  nodup : st.1.keys.Nodup
  host : ∀ d, d < h.net.nodes.size → d ≠ c → st.1.net.node d = h.net.node d
  cell : st.1.net.node c = ⟨(m.net.node dn).kind, [], []⟩
  blank : ∀ x, h.net.nodes.size ≤ x → (st.1.net.node x).ins = [] ∧ (st.1.net.node x).outs = []
  cLt : c < st.1.net.nodes.size
  mapDn : dn < m.net.nodes.size → st.2.getD dn none = some c
  mapDom : ∀ j, (st.2.getD j none).isSome ↔ (j = dn ∧ dn < m.net.nodes.size) ∨ (j ∈ pre ∧ (addedOne m hn (some dn) j).isSome)
  mapGe : ∀ j x, st.2.getD j none = some x → x = c ∨ h.net.nodes.size ≤ x
  mapLt : ∀ j x, st.2.getD j none = some x → x < st.1.net.nodes.size
  mapInj : ∀ j1 j2 x, st.2.getD j1 none = some x → st.2.getD j2 none = some x → j1 = j2
  kind : ∀ j x, st.2.getD j none = some x → j ≠ dn → ∃ kn, addedOne m hn (some dn) j = some kn ∧ (st.1.net.node x).kind = kn.1

theorem nodeInv_phase1 (h : NNet) (c : Nat) (m : NNet) (dn : Nat) (hn : String) (w : WFr h) (hc : c < h.net.nodes.size)
    (hk : (m.net.node dn).isFork = (h.net.node c).isFork) :
    NodeInv h c m dn hn [] (phase1 h c m (some dn)) := by
  have hmap : ∀ k, ((Array.replicate m.net.nodes.size (none : Option Nat)).setIfInBounds dn (some c)).getD k none =
      if k = dn ∧ dn < m.net.nodes.size then some c else none := by
    intro k
    rw [mapGetD_set, getD_replicate_none]
    by_cases e : dn = k
    · subst e; simp
    · have : ¬ k = dn := fun x => e x.symm
      simp [e, this]
  have hnode : ∀ d, (phase1 h c m (some dn)).1.net.node d =
      if d = c then ⟨(m.net.node dn).kind, [], []⟩ else h.net.node d := by
    intro d
    simp only [phase1, Net.node, Array.getD_eq_getD_getElem?, Array.getElem?_modify]
    by_cases e : c = d
    · subst e; simp [Array.getElem?_eq_getElem hc]
    · have : ¬ d = c := fun x => e x.symm
      simp [e, this]
  refine ⟨rfl, rfl, w.io, by simp [phase1], by simp [phase1], by simpa [phase1] using w.names, fun _ _ => rfl, ?_, ?_, ?_, ?_,
    by simpa [phase1] using hc, ?_, ?_, ?_, ?_, ?_, ?_⟩
  · -- keys unchanged
    have : (phase1 h c m (some dn)).1.keys = h.keys := by
      simp only [NNet.keys]
      have hs : (phase1 h c m (some dn)).1.net.nodes.size = h.net.nodes.size := by simp [phase1]
      rw [hs]
      apply List.map_congr_left
      intro i _
      simp only [NNet.key]
      rw [hnode]
      by_cases e : i = c
      · subst e
        simp only [if_true]
        have : (⟨(m.net.node dn).kind, [], []⟩ : NodeD).isFork = (m.net.node dn).isFork := rfl
        rw [this, hk]; rfl
      · simp only [e, if_false]; rfl
    rw [this]; exact w.nodup
  · intro d _ hne; rw [hnode, if_neg hne]
  · rw [hnode, if_pos rfl]
  · intro x hx
    rw [hnode]
    have : ¬ x = c := by omega
    rw [if_neg this]
    have : h.net.node x = default := by
      simp only [Net.node, Array.getD_eq_getD_getElem?]
      rw [Array.getElem?_eq_none hx]; rfl
    rw [this]; exact ⟨rfl, rfl⟩
  · intro hdn
    show ((Array.replicate m.net.nodes.size (none : Option Nat)).setIfInBounds dn (some c)).getD dn none = some c
    rw [hmap]; simp [hdn]
  · intro j
    show (((Array.replicate m.net.nodes.size (none : Option Nat)).setIfInBounds dn (some c)).getD j none).isSome ↔ _
    rw [hmap]
    by_cases e : j = dn ∧ dn < m.net.nodes.size <;> simp [e]
  · intro j x hx
    have hx' : ((Array.replicate m.net.nodes.size (none : Option Nat)).setIfInBounds dn (some c)).getD j none = some x := hx
    rw [hmap] at hx'
    split at hx'
    · left; exact (Option.some.inj hx').symm
    · exact absurd hx' (by simp)
  · intro j x hx
    have hx' : ((Array.replicate m.net.nodes.size (none : Option Nat)).setIfInBounds dn (some c)).getD j none = some x := hx
    rw [hmap] at hx'
    split at hx'
    · have : x = c := (Option.some.inj hx').symm
      subst this; simpa [phase1] using hc
    · exact absurd hx' (by simp)
  · intro j1 j2 x h1 h2
    have h1' : ((Array.replicate m.net.nodes.size (none : Option Nat)).setIfInBounds dn (some c)).getD j1 none = some x := h1
    have h2' : ((Array.replicate m.net.nodes.size (none : Option Nat)).setIfInBounds dn (some c)).getD j2 none = some x := h2
    rw [hmap] at h1' h2'
    split at h1'
    · split at h2'
      · rename_i e1 e2; rw [e1.1, e2.1]
      · exact absurd h2' (by simp)
    · exact absurd h1' (by simp)
  · intro j x hx hne
    have hx' : ((Array.replicate m.net.nodes.size (none : Option Nat)).setIfInBounds dn (some c)).getD j none = some x := hx
    rw [hmap, if_neg (fun hc' => hne hc'.1)] at hx'
    exact absurd hx' (by simp)

end KV.Transform

namespace KV.Transform
open KV

theorem addImplNode_eq (m : NNet) (hn : String) (des : Option Nat) (st : NNet × Array (Option Nat)) (j : Nat) :
    addImplNode m hn des st j = match addedOne m hn des j with
      | none => some st
      | some kn => (addNode st.1 kn.2 kn.1).map fun h' => (h', st.2.setIfInBounds j (some st.1.net.nodes.size)) := by
  unfold addImplNode addedOne
  dsimp only
  split
  · split <;> rfl
  · split
    · rfl
    · split <;> rfl

theorem addedOne_some_ne (m : NNet) (hn : String) (dn j : Nat) (kn : String × String)
    (h : addedOne m hn (some dn) j = some kn) (hd : dn ∉ m.net.io) : j ≠ dn := by
  intro e
  subst e
  unfold addedOne at h
  dsimp only at h
  have : m.net.io.contains j = false := by simpa using hd
  simp [this] at h
  exact hd h.1

theorem nodeInv_same {h : NNet} {c : Nat} {m : NNet} {dn : Nat} {hn : String} {pre : List Nat} {st : NNet × Array (Option Nat)}
    (iv : NodeInv h c m dn hn pre st) (j : Nat) (ha : addedOne m hn (some dn) j = none) :
    NodeInv h c m dn hn (pre ++ [j]) st := by
  refine { iv with mapDom := ?_ }
  intro j'
  rw [iv.mapDom j']
  constructor
  · rintro (e | ⟨h1, h2⟩)
    · exact Or.inl e
    · exact Or.inr ⟨List.mem_append_left _ h1, h2⟩
  · rintro (e | ⟨h1, h2⟩)
    · exact Or.inl e
    · rcases List.mem_append.mp h1 with h1 | h1
      · exact Or.inr ⟨h1, h2⟩
      · have : j' = j := by simpa using h1
        subst this; rw [ha] at h2; exact absurd h2 (by simp)

theorem node_of_nodes_eq {net : Net} {ns : Array NodeD} (e : net.nodes = ns) (d : Nat) : net.node d = ns.getD d default := by
  subst e; rfl

theorem nodeInv_add {h : NNet} {c : Nat} {m : NNet} {dn : Nat} {hn : String} {pre : List Nat} {st : NNet × Array (Option Nat)}
    (iv : NodeInv h c m dn hn pre st) (j : Nat) (kn : String × String) (h' : NNet) (hj : j < m.net.nodes.size)
    (ha : addedOne m hn (some dn) j = some kn) (hne : j ≠ dn) (he : addNode st.1 kn.2 kn.1 = some h') :
    NodeInv h c m dn hn (pre ++ [j]) (h', st.2.setIfInBounds j (some st.1.net.nodes.size)) := by
  obtain ⟨e1, e2, e3, e4, e5⟩ := addNode_spec st.1 h' kn.2 kn.1 he
  have hli : LI st.1 := ⟨iv.names, by rw [iv.io]; intro i hi; exact Nat.lt_of_lt_of_le (iv.ioLt i hi) iv.nsize⟩
  have hobs := addNode_obs st.1 h' kn.2 kn.1 he hli
  have hsz : h'.net.nodes.size = st.1.net.nodes.size + 1 := hobs.2.2.2.1
  have hnode : ∀ d, h'.net.node d = (st.1.net.nodes.push ⟨kn.1, [], []⟩).getD d default := node_of_nodes_eq e1
  have hold : ∀ d, d < st.1.net.nodes.size → h'.net.node d = st.1.net.node d := by
    intro d hd; rw [hnode, getD_push_lt _ _ d hd]; rfl
  have hjs : j < st.2.size := by rw [iv.msize]; exact hj
  have hmap : ∀ k, (st.2.setIfInBounds j (some st.1.net.nodes.size)).getD k none =
      if k = j then some st.1.net.nodes.size else st.2.getD k none := by
    intro k
    rw [mapGetD_set]
    by_cases e : j = k
    · subst e; simp [hjs]
    · have : ¬ k = j := fun x => e x.symm
      simp [e, this]
  refine ⟨e2.trans iv.lines, e3.trans iv.io, iv.ioLt, by rw [hsz]; have := iv.nsize; omega, by simp [iv.msize],
    by rw [e4, hsz]; simp [iv.names], ?_, ?_, ?_, ?_, ?_, ?_, ?_, ?_, ?_, ?_, ?_, ?_⟩
  · intro d hd
    rw [e4, names_push_getD]
    have : d < st.1.names.size := by rw [iv.names]; exact Nat.lt_of_lt_of_le hd iv.nsize
    rw [if_pos this]; exact iv.nameHost d hd
  · rw [keys_eq, hobs.1, List.map_append, ← keys_eq]
    refine List.nodup_append.mpr ⟨iv.nodup, by simp, ?_⟩
    intro a ha b hb
    simp only [List.map_cons, List.map_nil, List.mem_singleton] at hb
    subst hb
    intro e; subst e
    have : st.1.keys.contains (keyOf kn) = true := by simpa using ha
    simp only [keyOf] at this
    rw [e5] at this; exact absurd this (by simp)
  · intro d hd hnc
    rw [hold d (Nat.lt_of_lt_of_le hd iv.nsize)]; exact iv.host d hd hnc
  · rw [hold c iv.cLt]; exact iv.cell
  · intro x hx
    by_cases h1 : x < st.1.net.nodes.size
    · rw [hold x h1]; exact iv.blank x hx
    · rw [hnode]
      by_cases h2 : x = st.1.net.nodes.size
      · subst h2; rw [getD_push_eq]; exact ⟨rfl, rfl⟩
      · rw [getD_push_gt _ _ x (by omega)]; exact ⟨rfl, rfl⟩
  · rw [hsz]; have := iv.cLt; omega
  · intro hdn
    show (st.2.setIfInBounds j (some st.1.net.nodes.size)).getD dn none = some c
    rw [hmap, if_neg (fun e => hne e.symm)]; exact iv.mapDn hdn
  · intro j'
    show ((st.2.setIfInBounds j (some st.1.net.nodes.size)).getD j' none).isSome ↔ _
    rw [hmap]
    by_cases e : j' = j
    · subst e; simp [ha]
    · simp only [e, if_false]
      rw [iv.mapDom j']
      constructor
      · rintro (e' | ⟨h1, h2⟩)
        · exact Or.inl e'
        · exact Or.inr ⟨List.mem_append_left _ h1, h2⟩
      · rintro (e' | ⟨h1, h2⟩)
        · exact Or.inl e'
        · rcases List.mem_append.mp h1 with h1 | h1
          · exact Or.inr ⟨h1, h2⟩
          · exact absurd (by simpa using h1) e
  · intro j' x hx
    have hx' : (st.2.setIfInBounds j (some st.1.net.nodes.size)).getD j' none = some x := hx
    rw [hmap] at hx'
    split at hx'
    · right; have : x = st.1.net.nodes.size := (Option.some.inj hx').symm
      rw [this]; exact iv.nsize
    · exact iv.mapGe j' x hx'
  · intro j' x hx
    have hx' : (st.2.setIfInBounds j (some st.1.net.nodes.size)).getD j' none = some x := hx
    show x < h'.net.nodes.size
    rw [hmap] at hx'
    rw [hsz]
    split at hx'
    · have : x = st.1.net.nodes.size := (Option.some.inj hx').symm
      omega
    · have := iv.mapLt j' x hx'; omega
  · intro j1 j2 x h1 h2
    have h1' : (st.2.setIfInBounds j (some st.1.net.nodes.size)).getD j1 none = some x := h1
    have h2' : (st.2.setIfInBounds j (some st.1.net.nodes.size)).getD j2 none = some x := h2
    rw [hmap] at h1' h2'
    split at h1'
    · rename_i e1'
      split at h2'
      · rename_i e2'; rw [e1', e2']
      · have := iv.mapLt j2 x h2'
        have : x = st.1.net.nodes.size := (Option.some.inj h1').symm
        omega
    · split at h2'
      · have := iv.mapLt j1 x h1'
        have : x = st.1.net.nodes.size := (Option.some.inj h2').symm
        omega
      · exact iv.mapInj j1 j2 x h1' h2'
  · intro j' x hx hnd
    have hx' : (st.2.setIfInBounds j (some st.1.net.nodes.size)).getD j' none = some x := hx
    show ∃ kn' : String × String, _ ∧ (h'.net.node x).kind = kn'.1
    rw [hmap] at hx'
    split at hx'
    · rename_i e
      have : x = st.1.net.nodes.size := (Option.some.inj hx').symm
      subst this; subst e
      refine ⟨kn, ha, ?_⟩
      rw [hnode, getD_push_eq]
    · obtain ⟨kn', h1, h2⟩ := iv.kind j' x hx' hnd
      refine ⟨kn', h1, ?_⟩
      rw [hold x (iv.mapLt j' x hx')]; exact h2

/-- the whole loop -/
theorem nodeInv_foldlM {h : NNet} {c : Nat} {m : NNet} {dn : Nat} {hn : String} (hd : dn ∉ m.net.io) :
    ∀ (js pre : List Nat) (st st' : NNet × Array (Option Nat)), (∀ j ∈ js, j < m.net.nodes.size) →
    NodeInv h c m dn hn pre st → js.foldlM (addImplNode m hn (some dn)) st = some st' → NodeInv h c m dn hn (pre ++ js) st'
  | [], pre, st, st', _, iv, he => by
    simp only [List.foldlM_nil] at he
    cases (Option.some.inj he)
    simpa using iv
  | j :: js, pre, st, st', hjs, iv, he => by
    simp only [List.foldlM_cons, Option.bind_eq_bind, Option.bind_eq_some_iff] at he
    obtain ⟨s1, h1, h2⟩ := he
    have hj := hjs j List.mem_cons_self
    have hrest : ∀ j' ∈ js, j' < m.net.nodes.size := fun j' hj' => hjs j' (List.mem_cons_of_mem _ hj')
    rw [addImplNode_eq] at h1
    have key : NodeInv h c m dn hn (pre ++ [j]) s1 := by
      cases ha : addedOne m hn (some dn) j with
      | none =>
        rw [ha] at h1
        cases (Option.some.inj h1)
        exact nodeInv_same iv j ha
      | some kn =>
        rw [ha] at h1
        simp only [Option.map_eq_some_iff] at h1
        obtain ⟨h', hadd, e⟩ := h1
        subst e
        exact nodeInv_add iv j kn h' hj ha (addedOne_some_ne m hn dn j kn ha hd) hadd
    have := nodeInv_foldlM hd js (pre ++ [j]) s1 st' hrest key h2
    simpa using this

end KV.Transform
