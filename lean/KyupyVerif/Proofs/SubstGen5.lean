import KyupyVerif.Proofs.SubstGen4
/-! Helper lemmas for C10 (`substitute_sem_general`), part 5: the lockstep relation through `Node(...)` (a node appended in
both runs) and `Line(...)` (a line appended in both runs, pins written). -/
namespace KV.Transform
open KV

/-- `Node(self, name, kind)` on the level of `Net` -/
def pushNode (net : Net) (kind : String) : Net := { net with nodes := net.nodes.push ⟨kind, [], []⟩ }
/-- `Line(self, (d, dp), (r, rp))` on the level of `Net` -/
def addLineNet (net : Net) (d dp r rp : Nat) : Net :=
  { net with nodes := (addLine (net.nodes, net.lines) d dp r rp).1, lines := (addLine (net.nodes, net.lines) d dp r rp).2 }

theorem pushNode_node (net : Net) (kind : String) (x : Nat) : (pushNode net kind).node x =
    if x = net.nodes.size then ⟨kind, [], []⟩ else net.node x := by
  show (net.nodes.push _).getD x default = _
  by_cases h1 : x < net.nodes.size
  · rw [getD_push_lt _ _ _ h1, if_neg (by omega)]; rfl
  · by_cases h2 : x = net.nodes.size
    · subst h2; rw [getD_push_eq, if_pos rfl]
    · rw [getD_push_gt _ _ _ (by omega), if_neg h2]
      simp only [Net.node, Array.getD_eq_getD_getElem?]
      rw [Array.getElem?_eq_none (by omega)]; rfl

theorem addLineNet_node (net : Net) (d dp r rp x : Nat) : (addLineNet net d dp r rp).node x =
    (fun n1 : NodeD => if x = r ∧ r < net.nodes.size then { n1 with ins := growSet n1.ins rp (some net.lines.size) } else n1)
      (if x = d ∧ d < net.nodes.size then { net.node x with outs := growSet (net.node x).outs dp (some net.lines.size) } else net.node x) := by
  show nodeA ((net.nodes.modify d _).modify r _) x = _
  rw [nodeA_modify, nodeA_modify]
  simp only [Array.size_modify]
  rfl

theorem addLineNet_line_lt (net : Net) (d dp r rp l : Nat) (hl : l < net.lines.size) :
    (addLineNet net d dp r rp).line l = net.line l := by
  show lineA (net.lines.push _) l = _
  rw [lineA_push _ _ _ hl]; rfl

theorem addLineNet_line_eq (net : Net) (d dp r rp : Nat) : (addLineNet net d dp r rp).line net.lines.size = ⟨d, dp, r, rp⟩ := by
  show lineA (net.lines.push _) net.lines.size = _
  rw [lineA_push_eq]

theorem addLineNet_sizes (net : Net) (d dp r rp : Nat) : (addLineNet net d dp r rp).nodes.size = net.nodes.size ∧
    (addLineNet net d dp r rp).lines.size = net.lines.size + 1 ∧ (addLineNet net d dp r rp).io = net.io := by
  simp [addLineNet, addLine]

theorem ite_outs_ins (c : Prop) [Decidable c] (n : NodeD) (o : List (Option Nat)) :
    (if c then { n with outs := o } else n).ins = n.ins := by split <;> rfl
theorem ite_ins_outs (c : Prop) [Decidable c] (n : NodeD) (o : List (Option Nat)) :
    (if c then { n with ins := o } else n).outs = n.outs := by split <;> rfl
theorem pushNode_line (net : Net) (kind : String) (l : Nat) : (pushNode net kind).line l = net.line l := rfl

theorem addLineNet_ins (net : Net) (d dp r rp x k : Nat) (hr : r < net.nodes.size) :
    ((addLineNet net d dp r rp).node x).ins.getD k none =
      if x = r ∧ k = rp then some net.lines.size else (net.node x).ins.getD k none := by
  rw [addLineNet_node]
  dsimp only
  by_cases e : x = r
  · rw [if_pos ⟨e, hr⟩]
    show (growSet (if x = d ∧ d < net.nodes.size then _ else net.node x).ins rp (some net.lines.size)).getD k none = _
    rw [ite_outs_ins, getD_growSet]
    simp [e]
  · rw [if_neg (fun hc => e hc.1), ite_outs_ins]
    simp [e]

theorem addLineNet_outs (net : Net) (d dp r rp x k : Nat) (hd : d < net.nodes.size) :
    ((addLineNet net d dp r rp).node x).outs.getD k none =
      if x = d ∧ k = dp then some net.lines.size else (net.node x).outs.getD k none := by
  rw [addLineNet_node]
  dsimp only
  rw [ite_ins_outs]
  by_cases e : x = d
  · rw [if_pos ⟨e, hd⟩]
    show (growSet (net.node x).outs dp (some net.lines.size)).getD k none = _
    rw [getD_growSet]
    simp [e]
  · rw [if_neg (fun hc => e hc.1)]
    simp [e]

section steps
variable {Own : Nat → Prop} {π ψ : Nat → Nat} {G PI PO : Nat → Prop} {a b : Net}

/-- a node is appended in both runs -/
theorem Lk.stepAddNode (lk : Lk Own π ψ G PI PO a b) (kind : String) (hπ : π a.nodes.size = b.nodes.size) :
    Lk Own π ψ G PI PO (pushNode a kind) (pushNode b kind) := by
  have hsa : (pushNode a kind).nodes.size = a.nodes.size + 1 := by simp [pushNode]
  have hsb : (pushNode b kind).nodes.size = b.nodes.size + 1 := by simp [pushNode]
  have hold : ∀ x, x < a.nodes.size → (pushNode a kind).node x = a.node x ∧ (pushNode b kind).node (π x) = b.node (π x) := by
    intro x hx
    have := lk.nodeLt x hx
    rw [pushNode_node, pushNode_node, if_neg (by omega), if_neg (by omega)]
    exact ⟨rfl, rfl⟩
  have hnew : (pushNode a kind).node a.nodes.size = ⟨kind, [], []⟩ ∧ (pushNode b kind).node (π a.nodes.size) = ⟨kind, [], []⟩ := by
    rw [pushNode_node, pushNode_node, if_pos rfl, hπ, if_pos rfl]
    exact ⟨rfl, rfl⟩
  have hcase : ∀ x, x < a.nodes.size + 1 → x < a.nodes.size ∨ x = a.nodes.size := fun x hx => by omega
  have hnodeA : ∀ x, ((pushNode a kind).node x).ins = (a.node x).ins ∧ ((pushNode a kind).node x).outs = (a.node x).outs := by
    intro x
    rw [pushNode_node]
    split
    · rename_i e
      have : a.node x = default := by
        simp only [Net.node, Array.getD_eq_getD_getElem?]
        rw [Array.getElem?_eq_none (by omega)]; rfl
      rw [this]; exact ⟨rfl, rfl⟩
    · exact ⟨rfl, rfl⟩
  refine ⟨lk.πinj, ?_, ?_, lk.io, ?_, ?_, lk.lineLt, lk.lineInj, lk.lineSurj, ?_, ?_, ?_, ?_, ?_⟩
  · intro x hx
    rw [hsa] at hx; rw [hsb]
    rcases hcase x hx with h1 | h1
    · have := lk.nodeLt x h1; omega
    · rw [h1, hπ]; omega
  · intro x hx
    rw [hsa] at hx
    rcases hcase x hx with h1 | h1
    · rw [(hold x h1).1, (hold x h1).2]; exact lk.kind x h1
    · rw [h1, hnew.1, hnew.2]
  · intro x k hx
    rw [hsa] at hx
    rcases hcase x hx with h1 | h1
    · rw [(hold x h1).1, (hold x h1).2]; exact lk.ins x k h1
    · rw [h1, hnew.1, hnew.2]; rfl
  · intro x k hx ho
    rw [hsa] at hx
    rcases hcase x hx with h1 | h1
    · rw [(hold x h1).1, (hold x h1).2]; exact lk.outs x k h1 ho
    · rw [h1, hnew.1, hnew.2]; rfl
  · intro l hl hpo
    obtain ⟨d1, d2, d3⟩ := lk.drv l hl hpo
    rw [hsa, pushNode_line, pushNode_line, (hold _ d1).1]
    exact ⟨by omega, d2, d3⟩
  · intro l hl hpi
    obtain ⟨r1, r2, r3⟩ := lk.rdr l hl hpi
    rw [hsa, pushNode_line, pushNode_line]
    exact ⟨by omega, r2, r3⟩
  · intro x k l hp
    rw [(hnodeA x).1] at hp
    exact lk.insLt x k l hp
  · intro x k l ho hp
    rw [(hnodeA x).2] at hp
    exact lk.outsLt x k l ho hp
  · intro d hd hno
    rw [hsa] at hd
    rcases hcase d hd with h1 | h1
    · have w := lk.host d h1 hno
      refine ⟨by rw [hsa]; omega, ?_, ?_⟩
      · intro p y hp
        rw [(hold d h1).1] at hp
        exact w.fwd p y hp
      · intro y hy hex hdy
        rw [(hold d h1).1]
        exact w.back y hy hex hdy
    · subst h1
      refine ⟨by rw [hsa]; omega, ?_, ?_⟩
      · intro p y hp
        rw [hnew.1] at hp
        simp at hp
      · intro y hy hex hdy
        have hy' : y < a.lines.size := hy
        have hdy' : (a.line y).driver = a.nodes.size := hdy
        have := (lk.drv y hy' hex).1
        omega

/-- a line is appended in both runs -/
theorem Lk.stepAddLine (lk : Lk Own π ψ G PI PO a b) (d dp r rp : Nat) (hd : d < a.nodes.size) (hr : r < a.nodes.size)
    (hdo : Own d) (hro : Own r) (hψ : ψ a.lines.size = b.lines.size) (hG : ¬ G b.lines.size) (hPI : ¬ PI b.lines.size) :
    Lk Own π ψ G PI PO (addLineNet a d dp r rp) (addLineNet b (π d) dp (π r) rp) := by
  obtain ⟨sa1, sa2, sa3⟩ := addLineNet_sizes a d dp r rp
  obtain ⟨sb1, sb2, sb3⟩ := addLineNet_sizes b (π d) dp (π r) rp
  have hdb := lk.nodeLt d hd
  have hrb := lk.nodeLt r hr
  have hπd : ∀ x, (π x = π d ↔ x = d) := fun x => ⟨fun e => lk.πinj x d e, fun e => by rw [e]⟩
  have hπr : ∀ x, (π x = π r ↔ x = r) := fun x => ⟨fun e => lk.πinj x r e, fun e => by rw [e]⟩
  have hcase : ∀ l, l < a.lines.size + 1 → l < a.lines.size ∨ l = a.lines.size := fun l hl => by omega
  have hkindA : ∀ x, ((addLineNet a d dp r rp).node x).kind = (a.node x).kind := by
    intro x; rw [addLineNet_node]; dsimp only; split <;> split <;> rfl
  have hkindB : ∀ x, ((addLineNet b (π d) dp (π r) rp).node x).kind = (b.node x).kind := by
    intro x; rw [addLineNet_node]; dsimp only; split <;> split <;> rfl
  have hinsA : ∀ x k, ((addLineNet a d dp r rp).node x).ins.getD k none =
      if x = r ∧ k = rp then some a.lines.size else (a.node x).ins.getD k none :=
    fun x k => addLineNet_ins a d dp r rp x k hr
  have hinsB : ∀ x k, ((addLineNet b (π d) dp (π r) rp).node (π x)).ins.getD k none =
      if x = r ∧ k = rp then some b.lines.size else (b.node (π x)).ins.getD k none := by
    intro x k
    rw [addLineNet_ins b _ _ _ _ _ _ hrb]
    simp only [hπr]
  have houtsA : ∀ x k, ((addLineNet a d dp r rp).node x).outs.getD k none =
      if x = d ∧ k = dp then some a.lines.size else (a.node x).outs.getD k none :=
    fun x k => addLineNet_outs a d dp r rp x k hd
  have houtsB : ∀ x k, ((addLineNet b (π d) dp (π r) rp).node (π x)).outs.getD k none =
      if x = d ∧ k = dp then some b.lines.size else (b.node (π x)).outs.getD k none := by
    intro x k
    rw [addLineNet_outs b _ _ _ _ _ _ hdb]
    simp only [hπd]
  refine ⟨lk.πinj, ?_, ?_, ?_, ?_, ?_, ?_, ?_, ?_, ?_, ?_, ?_, ?_, ?_⟩
  · intro x hx; rw [sa1] at hx; rw [sb1]; exact lk.nodeLt x hx
  · intro x hx; rw [sa1] at hx; rw [hkindA, hkindB]; exact lk.kind x hx
  · rw [sa3, sb3]; exact lk.io
  · intro x k hx
    rw [sa1] at hx
    rw [hinsA, hinsB]
    split
    · simp [hψ]
    · exact lk.ins x k hx
  · intro x k hx ho
    rw [sa1] at hx
    rw [houtsA, houtsB]
    split
    · simp [hψ]
    · exact lk.outs x k hx ho
  · intro l hl
    rw [sa2] at hl; rw [sb2]
    rcases hcase l hl with h1 | h1
    · have := lk.lineLt l h1; exact ⟨by omega, this.2⟩
    · rw [h1, hψ]; exact ⟨by omega, hG⟩
  · intro l1 l2 h1 h2 e
    rw [sa2] at h1 h2
    rcases hcase l1 h1 with c1 | c1 <;> rcases hcase l2 h2 with c2 | c2
    · exact lk.lineInj l1 l2 c1 c2 e
    · rw [c2, hψ] at e; have := (lk.lineLt l1 c1).1; omega
    · rw [c1, hψ] at e; have := (lk.lineLt l2 c2).1; omega
    · rw [c1, c2]
  · intro l' hl' hg
    rw [sb2] at hl'; rw [sa2]
    by_cases e : l' = b.lines.size
    · exact ⟨a.lines.size, by omega, by rw [hψ, e]⟩
    · obtain ⟨l, h1, h2⟩ := lk.lineSurj l' (by omega) hg
      exact ⟨l, by omega, h2⟩
  · intro l hl hpo
    rw [sa2] at hl
    rw [sa1]
    rcases hcase l hl with h1 | h1
    · obtain ⟨d1, d2, d3⟩ := lk.drv l h1 hpo
      rw [addLineNet_line_lt a _ _ _ _ _ h1, addLineNet_line_lt b _ _ _ _ _ (lk.lineLt l h1).1]
      refine ⟨d1, d2, ?_⟩
      rw [isFork_of_kind_eq (hkindA _)]; exact d3
    · rw [h1, hψ, addLineNet_line_eq, addLineNet_line_eq]
      exact ⟨hd, rfl, Or.inl rfl⟩
  · intro l hl hpi
    rw [sa2] at hl
    rw [sa1]
    rcases hcase l hl with h1 | h1
    · rw [addLineNet_line_lt a _ _ _ _ _ h1, addLineNet_line_lt b _ _ _ _ _ (lk.lineLt l h1).1]
      exact lk.rdr l h1 hpi
    · rw [h1, hψ, addLineNet_line_eq, addLineNet_line_eq]
      exact ⟨hr, rfl, rfl⟩
  · intro x k l hp
    rw [sa2]
    rw [hinsA] at hp
    split at hp
    · have : l = a.lines.size := (Option.some.inj hp).symm
      rw [this, hψ]; exact ⟨by omega, hPI⟩
    · obtain ⟨q1, q2⟩ := lk.insLt x k l hp
      exact ⟨by omega, q2⟩
  · intro x k l ho hp
    rw [sa2]
    rw [houtsA] at hp
    split at hp
    · have : l = a.lines.size := (Option.some.inj hp).symm
      rw [this, hψ]; exact ⟨by omega, hPI⟩
    · obtain ⟨q1, q2⟩ := lk.outsLt x k l ho hp
      exact ⟨by omega, q2⟩
  · intro d0 hd0 hno
    rw [sa1] at hd0
    have w := lk.host d0 hd0 hno
    have hne : d0 ≠ d := fun e => hno (e ▸ hdo)
    have hn : ∀ k, ((addLineNet a d dp r rp).node d0).outs.getD k none = (a.node d0).outs.getD k none := by
      intro k; rw [houtsA]; simp [hne]
    refine ⟨by rw [sa1]; exact hd0, ?_, ?_⟩
    · intro p y hp
      rw [hn] at hp
      obtain ⟨q1, q2, q3, q4⟩ := w.fwd p y hp
      rw [sa2, addLineNet_line_lt a _ _ _ _ _ q1]
      exact ⟨by omega, q2, q3, q4⟩
    · intro y hy hex hdy
      rw [sa2] at hy
      rcases hcase y hy with h1 | h1
      · rw [addLineNet_line_lt a _ _ _ _ _ h1] at hdy ⊢
        rw [hn]; exact w.back y h1 hex hdy
      · rw [h1, addLineNet_line_eq] at hdy
        exact absurd hdy.symm hne

end steps
end KV.Transform
