import KyupyVerif.Proofs.Encode
/-! # `mvarray` with nested arguments (depth 2) and `popcount` on other integer dtypes (audit 2, finding 9 / F5, F6) -/
namespace KV.Enc

theorem interpStr_of_ne_one (tbl : List (Nat × Nat)) (s : List Nat) (h : s.length ≠ 1) :
    interpStr tbl s = ⟨[s.length], s.map (interpretWith tbl)⟩ := by
  unfold interpStr
  split
  · simp at h
  · rfl

/-- `np.array` of children that all have shape `sh` -/
theorem stack_uniform (cs : List (Flat Nat)) (sh : List Nat) (hne : cs ≠ []) (h : ∀ c ∈ cs, c.shape = sh) :
    stack (cs.map some) = some ⟨cs.length :: sh, cs.flatMap (·.data)⟩ := by
  cases cs with
  | nil => exact absurd rfl hne
  | cons c0 rest =>
    have h0 : c0.shape = sh := h c0 List.mem_cons_self
    have hall : ((c0 :: rest).map some).all (fun c => c.map (·.shape) == some c0.shape) = true := by
      rw [List.all_eq_true]
      intro c hc
      obtain ⟨c', hc', rfl⟩ := List.mem_map.1 hc
      simp [h c' hc', h0]
    have hdata : ((c0 :: rest).map some).flatMap (fun c => (c.map (·.data)).getD []) = (c0 :: rest).flatMap (·.data) := by
      rw [List.flatMap_map]; rfl
    rw [List.map_cons] at hall hdata
    simp only [List.map_cons, stack]
    rw [if_pos hall, hdata, h0]
    simp

theorem flatMap_congr' {α β} (l : List α) (f g : α → List β) (h : ∀ x ∈ l, f x = g x) : l.flatMap f = l.flatMap g := by
  induction l with
  | nil => rfl
  | cons x xs ih =>
    rw [List.flatMap_cons, List.flatMap_cons, h x List.mem_cons_self, ih fun y hy => h y (List.mem_cons_of_mem _ hy)]

/-- entry `i * S + j` of the concatenation of lists of common length `S` -/
theorem getD_flatMap_uniform {α} (f : α → List Nat) (g : List α) (S i j : Nat) (hS : ∀ x ∈ g, (f x).length = S)
    (hi : i < g.length) (hj : j < S) :
    (g.flatMap f).getD (i * S + j) 0 = (f (g[i]'hi)).getD j 0 := by
  induction g generalizing i with
  | nil => simp at hi
  | cons x xs ih =>
    have hx := hS x List.mem_cons_self
    rw [List.flatMap_cons]
    cases i with
    | zero =>
      simp only [Nat.zero_mul, Nat.zero_add, List.getElem_cons_zero, List.getD_eq_getElem?_getD]
      rw [List.getElem?_append_left (by omega)]
    | succ i =>
      have hi' : i < xs.length := by simpa using hi
      have e : (i + 1) * S + j = (f x).length + (i * S + j) := by rw [hx, Nat.succ_mul]; omega
      simp only [List.getElem_cons_succ, List.getD_eq_getElem?_getD]
      rw [e, List.getElem?_append_right (by omega), Nat.add_sub_cancel_left]
      have := ih i (fun y hy => hS y (List.mem_cons_of_mem _ hy)) hi'
      simpa [List.getD_eq_getElem?_getD] using this

/-- one `(patterns × signals)` block, transposed: signal-major, exactly the rows of the flat `mvarray` of that group -/
theorem transposeBlock_group (tbl : List (Nat × Nat)) (g : List (List Nat)) (S : Nat) (hS : ∀ s ∈ g, s.length = S) :
    transposeBlock g.length S (g.flatMap fun s => s.map (interpretWith tbl)) =
      (List.range S).flatMap fun sig => g.map fun s => interpretWith tbl (s.getD sig 0) := by
  unfold transposeBlock
  apply flatMap_congr'
  intro j hj
  have hj' : j < S := List.mem_range.1 hj
  apply List.ext_getElem
  · simp
  · intro i h1 h2
    have hi : i < g.length := by simpa using h1
    simp only [List.getElem_map, List.getElem_range]
    rw [getD_flatMap_uniform (fun s => s.map (interpretWith tbl)) g S i j (by simpa using hS) hi hj']
    have hlen : (g[i]).length = S := hS _ (List.getElem_mem hi)
    simp only [List.getD_eq_getElem?_getD, List.getElem?_map]
    rw [List.getElem?_eq_getElem (by omega)]
    simp

/-- **nested `mvarray`, depth 2.** `G ≥ 1` groups, each of `P ≥ 2` strings of common length `S ≠ 1`
(`mvarray(['01','1X'], ['--','HL'])`): the result has shape `(G, S, P)` — a new FIRST axis for the groups; within group `g` the
`(S, P)` block is what the flat call gives for that group: signals second-to-last, patterns last. -/
theorem mvarray2_spec (tbl : List (Nat × Nat)) (gs : List (List (List Nat))) (P S : Nat) (hne : gs ≠ [])
    (hP : ∀ g ∈ gs, g.length = P) (hS : ∀ g ∈ gs, ∀ s ∈ g, s.length = S) (hP2 : 2 ≤ P) (hS1 : S ≠ 1) :
    mvarray2 tbl gs = some ⟨[gs.length, S, P],
      gs.flatMap fun g => (List.range S).flatMap fun sig => g.map fun s => interpretWith tbl (s.getD sig 0)⟩ := by
  -- each group: shape [P, S]
  have h1 : ∀ g ∈ gs, interp1 tbl g = some ⟨[P, S], g.flatMap fun s => s.map (interpretWith tbl)⟩ := by
    intro g hg
    have hgne : g ≠ [] := by intro h; have := hP g hg; rw [h] at this; simp at this; omega
    have hmap : g.map (fun s => some (interpStr tbl s)) =
        (g.map fun s => (⟨[S], s.map (interpretWith tbl)⟩ : Flat Nat)).map some := by
      rw [List.map_map]
      apply List.map_congr_left
      intro s hs
      have := hS g hg s hs
      simp only [Function.comp, interpStr_of_ne_one tbl s (by omega), this]
    unfold interp1
    rw [hmap, stack_uniform _ [S] (by simpa using hgne) (by simp)]
    simp [hP g hg, List.flatMap_map]
  have hmap2 : gs.map (interp1 tbl) =
      (gs.map fun g => (⟨[P, S], g.flatMap fun s => s.map (interpretWith tbl)⟩ : Flat Nat)).map some := by
    rw [List.map_map]
    exact List.map_congr_left fun g hg => h1 g hg
  have h2 : interp2 tbl gs = some ⟨[gs.length, P, S], gs.flatMap fun g => g.flatMap fun s => s.map (interpretWith tbl)⟩ := by
    unfold interp2
    rw [hmap2, stack_uniform _ [P, S] (by simpa using hne) (by simp)]
    simp [List.flatMap_map]
  unfold mvarray2
  rw [h2]
  have hPgt : P > 1 := by omega
  simp only [Option.bind_some, arrange, List.reverse_cons, List.reverse_nil, List.nil_append, List.cons_append, hPgt,
    if_true, List.prod_cons, List.prod_nil, Nat.mul_one]
  have hlen : ∀ g ∈ gs, (g.flatMap fun s => s.map (interpretWith tbl)).length = P * S := by
    intro g hg
    have : ∀ s ∈ g, (s.map (interpretWith tbl)).length = S := fun s hs => by simp [hS g hg s hs]
    rw [List.length_flatMap, List.map_congr_left this]
    rw [List.map_const', List.sum_replicate_nat, hP g hg]
  rw [chunks_flatMap (P * S) _ gs hlen, List.flatMap_map]
  congr 2
  apply flatMap_congr'
  intro g hg
  have := transposeBlock_group tbl g S (hS g hg)
  rw [hP g hg] at this
  exact this

/-! ## popcount on signed / wider integer dtypes -/

theorem popcountInt_spec (lut : List Nat) (h : lutOK lut = true) (a : List Int) (ha : ∀ x ∈ a, -256 ≤ x ∧ x < 256) :
    popcountInt lut a = some (onesOf (a.map fun x => (x % 256).toNat)) := by
  have hall : a.all (fun x => decide (-256 ≤ x) && decide (x < 256)) = true := by
    rw [List.all_eq_true]; intro x hx; have := ha x hx; simp [this.1, this.2]
  unfold popcountInt
  rw [if_pos hall]
  congr 1
  have := popcount_eq_ones lut h (a.map fun x => (x % 256).toNat) (by
    intro y hy
    obtain ⟨x, _, rfl⟩ := List.mem_map.1 hy
    omega)
  rw [← this, popcountWith, List.map_map]
  rfl

theorem popcountInt_raises (lut : List Nat) (a : List Int) (h : ∃ x ∈ a, x < -256 ∨ 256 ≤ x) : popcountInt lut a = none := by
  obtain ⟨x, hx, hr⟩ := h
  have : a.all (fun x => decide (-256 ≤ x) && decide (x < 256)) = false := by
    rw [List.all_eq_false]
    refine ⟨x, hx, ?_⟩
    rcases hr with hr | hr <;> simp <;> omega
  unfold popcountInt
  rw [if_neg (by simp [this])]

end KV.Enc
