import KyupyVerif.Model.Comp
/-! shared definitions for the specification-level operator facts -/
namespace KV

/-- 0/1 completions of a value: a known value keeps its final bit, an unknown one may be either -/
def V3.completions (v : V3) : List Bool := if v.unk then [false, true] else [v.p0]
def V2.completions (v : V2) : List Bool := if v.unk then [false, true] else [v.p0]

theorem V3.mem_completions {v : V3} {b : Bool} (h : v.refines b) : b ∈ v.completions := by
  unfold V3.completions; unfold V3.refines at h
  cases hu : v.unk
  · simp [h hu]
  · cases b <;> simp
theorem V2.mem_completions {v : V2} {b : Bool} (h : v.refines b) : b ∈ v.completions := by
  unfold V2.completions; unfold V2.refines at h
  cases hu : v.unk
  · simp [h hu]
  · cases b <;> simp

def refinesB (x : V3) (b : Bool) : Bool := x.unk || (x.p0 == b)
def refines4B (x : V2) (b : Bool) : Bool := x.unk || (x.p0 == b)
theorem refinesB_iff (x : V3) (b : Bool) : refinesB x b = true ↔ x.refines b := by
  unfold refinesB V3.refines; cases x.unk <;> simp
theorem refines4B_iff (x : V2) (b : Bool) : refines4B x b = true ↔ x.refines b := by
  unfold refines4B V2.refines; cases x.unk <;> simp

def waveVals : List V3 := V3.all.filter V3.isWave
theorem mem_waveVals {v : V3} (h : v.isWave = true) : v ∈ waveVals :=
  List.mem_filter.mpr ⟨V3.all_complete v, h⟩
theorem bools_mem (b : Bool) : b ∈ bools := by cases b <;> decide

theorem formulaF_total : ∀ n ∈ primNames, (formulaF n).isSome = true := by decide +kernel
theorem comp8_total : ∀ n ∈ primNames, (comp8 n).isSome = true := by decide +kernel
theorem comp4_total : ∀ n ∈ primNames, (comp4 n).isSome = true := by decide +kernel

end KV
