import KyupyVerif.Proofs.SubstSome1
/-! C10, audit 2 finding 6 (open part), transport lemma (1): **pin-list LENGTHS**.  `LS net net' j` — node `j` has the same kind, the
same number of input pin slots and (unless it is a fork, whose outputs `Line.remove()` squeezes) the same number of output pin slots
in `net'` as in `net`.  `Line.remove()` keeps the lengths of every node when the line is registered at its driver pin (and, when the
reader pin is cleared, at its reader pin): `growSet` inside the list is `List.set`. -/
namespace KV.Transform
open KV

def LS (net net' : Net) (j : Nat) : Prop :=
  (net'.node j).kind = (net.node j).kind ∧ (net'.node j).ins.length = (net.node j).ins.length ∧
  ((net.node j).isFork = false → (net'.node j).outs.length = (net.node j).outs.length)

theorem LS.refl (net : Net) (j : Nat) : LS net net j := ⟨rfl, rfl, fun _ => rfl⟩

theorem LS.of_eq {net net' : Net} {j : Nat} (h : net'.node j = net.node j) : LS net net' j := by
  unfold LS; rw [h]; exact ⟨rfl, rfl, fun _ => rfl⟩

theorem LS.trans {a b c : Net} {j : Nat} (h1 : LS a b j) (h2 : LS b c j) : LS a c j :=
  ⟨h2.1.trans h1.1, h2.2.1.trans h1.2.1, fun hf => (h2.2.2 (by
    show ((b.node j).kind == "__fork__") = false
    rw [h1.1]; exact hf)).trans (h1.2.2 hf)⟩

theorem mem_vals_of_getD (map : Array (Option Nat)) (k x : Nat) (h : map.getD k none = some x) : x ∈ map.toList.filterMap id := by
  have hk : k < map.size := by
    apply Classical.byContradiction; intro hn
    simp only [Array.getD_eq_getD_getElem?, Array.getElem?_eq_none (by omega : map.size ≤ k)] at h
    exact absurd h (by simp)
  simp only [Array.getD_eq_getD_getElem?, Array.getElem?_eq_getElem hk, Option.getD_some] at h
  exact List.mem_filterMap.mpr ⟨some x, by rw [← h]; exact Array.getElem_mem_toList hk, rfl⟩

theorem growSet_length_lt (l : List (Option Nat)) (i : Nat) (v : Option Nat) (h : i < l.length) : (growSet l i v).length = l.length := by
  unfold growSet; rw [if_pos h]; simp

/-- `Line.remove()` keeps kind and pin-list lengths (outputs: of the nodes that are no forks) of every node -/
theorem ls_removeLine (b : Bool) (net net' : Net) (l : Nat) (he : removeLine b net l = some net')
    (hd : (net.line l).dpin < (net.node (net.line l).driver).outs.length)
    (hr : b = true → (net.line l).rpin < (net.node (net.line l).reader).ins.length) (j : Nat) : LS net net' j := by
  simp only [removeLine, Option.map_eq_some_iff] at he
  obtain ⟨net1, h1, e⟩ := he
  subst e
  obtain ⟨O, _, hn, hcase⟩ := detachDriver_spec net net1 l h1
  have hnode1 : ∀ x, net1.node x = if x = (net.line l).driver ∧ (net.line l).driver < net.nodes.size then
      { net.node x with outs := O } else net.node x := by
    intro x
    have := node_modify net net.nodes rfl (net.line l).driver (fun n => { n with outs := O }) x
    simp only [Net.node] at this ⊢
    rw [hn]; exact this
  have ls1 : ∀ x, LS net net1 x := by
    intro x
    rw [LS, hnode1 x]
    split
    · rename_i hc
      refine ⟨rfl, rfl, fun hf => ?_⟩
      rcases hcase with ⟨hfk, _, _, _⟩ | ⟨_, hO, _⟩
      · rw [hc.1, hfk] at hf; exact absurd hf (by simp)
      · show O.length = _
        rw [hO, hc.1]
        exact growSet_length_lt _ _ _ hd
    · exact ⟨rfl, rfl, fun _ => rfl⟩
  have hline1 : (net1.line l).reader = (net.line l).reader ∧ (net1.line l).rpin = (net.line l).rpin := by
    rcases hcase with ⟨_, _, _, hl⟩ | ⟨_, _, hl⟩
    · have := renumberDpins_fields O net.lines 0 l
      show (lineA net1.lines l).reader = (lineA net.lines l).reader ∧ (lineA net1.lines l).rpin = (lineA net.lines l).rpin
      rw [hl]
      exact ⟨this.2.1, this.2.2⟩
    · show (lineA net1.lines l).reader = (lineA net.lines l).reader ∧ (lineA net1.lines l).rpin = (lineA net.lines l).rpin
      rw [hl]
      exact ⟨rfl, rfl⟩
  have key : ∀ net2 : Net, LS net net2 j → LS net (delLine net2 l) j := by
    intro net2 h2
    refine LS.trans h2 ?_
    rw [LS, delLine_node]
    exact ⟨rfl, by simp, fun _ => by simp⟩
  cases b
  · exact key net1 (ls1 j)
  · simp only [if_true]
    apply key
    refine LS.trans (ls1 j) ?_
    rw [LS, node_modify net1 net1.nodes rfl]
    split
    · rename_i hc
      refine ⟨rfl, ?_, fun _ => rfl⟩
      show (growSet (net1.node j).ins (net1.line l).rpin none).length = _
      apply growSet_length_lt
      rw [hline1.2, (ls1 j).2.1, hc.1, hline1.1]
      exact hr rfl
    · exact ⟨rfl, rfl, fun _ => rfl⟩

end KV.Transform
