import KyupyVerif.Proofs.RemoveLine8
/-! Helper lemmas for C10 (removal of dangling logic), part 9: `removeDangling_emb` together with the extension property. -/
namespace KV.Transform
open KV

theorem removeDangling_ext {α : Type _} (z : α) (neg : α → α) (prim : String → α → α → α → α → α) :
    ∀ (fuel : Nat) (nn : NNet) (own : List Nat) (stack : List (Option Nat)) (nn' : NNet),
    WFm nn → (∀ x ∈ own, x < nn.net.nodes.size) → removeDangling fuel nn own stack = some nn' →
    WFm nn' ∧ ∃ r, Emb nn nn' r ∧
      (∀ j, j < nn.net.nodes.size → isSeqKind (nn.net.node j).kind = true → ∃ j', j' < nn'.net.nodes.size ∧ r.node j' = j) ∧
      Ext z neg prim nn nn' r
  | 0, _, _, _, _, _, _, h => by simp [removeDangling] at h
  | fuel + 1, nn, own, [], nn', w, _, h => by
    simp only [removeDangling] at h
    cases h
    exact ⟨w, Ren.id, Emb.refl nn w.io (fun l hl => (w.back l hl).1), fun j hj _ => ⟨j, hj, rfl⟩, Ext.refl z neg prim nn⟩
  | fuel + 1, nn, own, none :: rest, nn', w, ho, h => by
    simp only [removeDangling] at h
    exact removeDangling_ext z neg prim fuel nn own rest nn' w ho h
  | fuel + 1, nn, own, some root :: rest, nn', w, ho, h => by
    simp only [removeDangling] at h
    split at h
    · exact removeDangling_ext z neg prim fuel nn own rest nn' w ho h
    · rename_i hany
      split at h
      · exact removeDangling_ext z neg prim fuel nn own rest nn' w ho h
      · rename_i hio
        split at h
        · exact removeDangling_ext z neg prim fuel nn own rest nn' w ho h
        · rename_i hseq
          split at h
          · exact removeDangling_ext z neg prim fuel nn own rest nn' w ho h
          · rename_i hown
            split at h
            · exact absurd h (by simp)
            · rename_i net1 h1
              have hown' : root ∈ own := by simpa using hown
              have hr : root < nn.net.nodes.size := ho root hown'
              have hio' : root ∉ nn.net.io := by simpa using hio
              have houts := outs_all_none (by simpa using hany : (nn.net.node root).outs.any (·.isSome) = false)
              obtain ⟨w2, r2, e2, s2, ls2, _⟩ := removeRoot_emb nn w root hr hio' houts net1 h1
              have hdrv : ∀ l, l < nn.net.lines.size → (nn.net.line l).driver ≠ root := by
                intro l hl e0
                have := (w.back l hl).2.2.1
                rw [e0, houts] at this
                exact absurd this (by simp)
              have x2 := ext_of_emb z neg prim nn _ r2 w w2 e2 root hdrv ls2
              have po := pinsOnly_removeLines _ _ _ _ h1
              have ho2 : ∀ x ∈ own.filterMap (fun x => mvNode nn.net.nodes.size root (some x)),
                  x < (delNode { nn with net := net1 } root).net.nodes.size := by
                intro x hx
                rw [List.mem_filterMap] at hx
                obtain ⟨y, hy, e⟩ := hx
                have hy' := ho y hy
                have hs : (delNode { nn with net := net1 } root).net.nodes.size = nn.net.nodes.size - 1 := by
                  simp [delNode, po.1.1]
                rw [hs]
                simp only [mvNode, beq_iff_eq, Option.some.injEq] at e
                split at e
                · exact absurd e (by simp)
                · split at e
                  · cases e; omega
                  · cases e; omega
              obtain ⟨w3, r3, e3, s3, x3⟩ := removeDangling_ext z neg prim fuel _ _ _ nn' w2 ho2 h
              refine ⟨w3, r2.comp r3, (EmbX.trans e2 e3).strengthen (fun j _ hc => by rcases hc with hc | hc <;> exact hc), ?_,
                Ext.trans e3 x2 x3⟩
              intro j hj hsq
              have hne : j ≠ root := by
                intro e0; subst e0
                exact hseq hsq
              obtain ⟨j1, hj1, ej1⟩ := s2 j hj hne
              have hk := e2.kind j1 hj1
              rw [ej1] at hk
              obtain ⟨j', hj', ej'⟩ := s3 j1 hj1 (by rw [hk]; exact hsq)
              exact ⟨j', hj', by show r2.node (r3.node j') = j; rw [ej', ej1]⟩

end KV.Transform
