import KyupyVerif.Proofs.SubstGen13
/-! Helper lemmas for C10 (`substitute_sem_general`), part 14: the loop over the implementation's nodes in lockstep, real run
(instance deleted, `designated_cell is None`) against virtual run (instance kept, every node of the implementation copied). -/
namespace KV.Transform
open KV

theorem addedOne_none_eq (m : NNet) (hn : String) (D j : Nat) (hne : j ≠ D) :
    addedOne m hn none j = addedOne m hn (some D) j := by
  unfold addedOne
  have h1 : ((none : Option Nat) != some j) = true := rfl
  have h2 : (some D != some j) = true := by simp [bne, Ne.symm hne]
  simp only [h1, h2]

theorem addedOne_name (m : NNet) (hn : String) (des : Option Nat) (j : Nat) (kn : String × String)
    (h : addedOne m hn des j = some kn) : kn.2 = hn ++ "~" ++ m.names.getD j "" := by
  unfold addedOne at h
  dsimp only at h
  split at h
  · split at h
    · cases h; rfl
    · exact absurd h (by simp)
  · split at h
    · cases h; rfl
    · split at h
      · cases h; rfl
      · exact absurd h (by simp)

theorem name_ne_host (hn s : String) : hn ++ "~" ++ s ≠ hn := by
  intro e
  have := congrArg String.length e
  simp only [String.length_append] at this
  have h1 : ("~" : String).length = 1 := by decide
  omega

theorem mem_keys_iff (nn : NNet) (k : String × Bool) : k ∈ nn.keys ↔ ∃ x, x < nn.net.nodes.size ∧ nn.key x = k := by
  simp only [NNet.keys, List.mem_map, List.mem_range]

/-- the two states of the loop over the implementation's nodes -/
structure LkS (N c : Nat) (hn : String) (PI PO : Nat → Prop) (stA stB : NNet × Array (Option Nat)) : Prop where
  lk : Lk (fun x => N - 1 ≤ x) (piN N c) id (fun _ => False) PI PO stA.1.net stB.1.net
  sizeA : N - 1 ≤ stA.1.net.nodes.size
  sizeB : stB.1.net.nodes.size = stA.1.net.nodes.size + 1
  nszA : stA.1.names.size = stA.1.net.nodes.size
  nszB : stB.1.names.size = stB.1.net.nodes.size
  names : ∀ x, x < stA.1.net.nodes.size → stA.1.names.getD x "" = stB.1.names.getD (piN N c x) ""
  cName : stB.1.names.getD c "" = hn
  lsz : stA.1.net.lines.size = stB.1.net.lines.size
  msz : stB.2.size = stA.2.size
  map : ∀ j, stB.2.getD j none = (stA.2.getD j none).map (piN N c)
  mapOwn : ∀ j x, stA.2.getD j none = some x → N - 1 ≤ x ∧ x < stA.1.net.nodes.size

theorem lkS_step {N c : Nat} (hc : c < N) {hn : String} {PI PO : Nat → Prop} (m : NNet) (D j : Nat) (hne : j ≠ D)
    {stA stB stA' : NNet × Array (Option Nat)} (s : LkS N c hn PI PO stA stB)
    (he : addImplNode m hn none stA j = some stA') :
    ∃ stB', addImplNode m hn (some D) stB j = some stB' ∧ LkS N c hn PI PO stA' stB' := by
  rw [addImplNode_eq] at he
  rw [addImplNode_eq, ← addedOne_none_eq m hn D j hne]
  cases ha : addedOne m hn none j with
  | none =>
    rw [ha] at he
    cases (Option.some.inj he)
    exact ⟨stB, rfl, s⟩
  | some kn =>
    rw [ha] at he
    simp only [Option.map_eq_some_iff] at he
    obtain ⟨hA', hadd, e⟩ := he
    subst e
    obtain ⟨e1, e2, e3, e4, e5⟩ := addNode_spec stA.1 hA' kn.2 kn.1 hadd
    have hname := addedOne_name m hn none j kn ha
    -- the name is free in the virtual circuit as well
    have hfree : stB.1.keys.contains (kn.2, kn.1 == "__fork__") = false := by
      apply Bool.eq_false_iff.mpr
      intro hcon
      have hmem : (kn.2, kn.1 == "__fork__") ∈ stB.1.keys := by simpa using hcon
      obtain ⟨y, hy, ey⟩ := (mem_keys_iff _ _).mp hmem
      by_cases eyc : y = c
      · subst eyc
        have : stB.1.names.getD y "" = kn.2 := by
          have := congrArg Prod.fst ey
          simpa [NNet.key] using this
        rw [s.cName, hname] at this
        exact name_ne_host hn _ this.symm
      · obtain ⟨x, hx, h1, h2⟩ := piN_surj hc y eyc
        have hxlt : x < stA.1.net.nodes.size := by
          have := s.sizeA; have := s.sizeB
          by_cases h3 : y < N
          · have := h1 h3; omega
          · have := h2 (by omega); omega
        have hk : stA.1.key x = (kn.2, kn.1 == "__fork__") := by
          rw [← ey, ← hx]
          simp only [NNet.key, s.names x hxlt, isFork_of_kind_eq (s.lk.kind x hxlt)]
        have : (kn.2, kn.1 == "__fork__") ∈ stA.1.keys := (mem_keys_iff _ _).mpr ⟨x, hxlt, hk⟩
        have : stA.1.keys.contains (kn.2, kn.1 == "__fork__") = true := by simpa using this
        rw [e5] at this; exact absurd this (by simp)
    have haddB : addNode stB.1 kn.2 kn.1 = some { net := pushNode stB.1.net kn.1, names := stB.1.names.push kn.2 } := by
      unfold addNode
      rw [hfree]; rfl
    refine ⟨({ net := pushNode stB.1.net kn.1, names := stB.1.names.push kn.2 }, stB.2.setIfInBounds j (some stB.1.net.nodes.size)),
      by simp only [haddB, Option.map_some], ?_⟩
    have hnetA : hA'.net = pushNode stA.1.net kn.1 := net_eq_of e1 e2 e3
    have hpiN : piN N c stA.1.net.nodes.size = stB.1.net.nodes.size := by
      rw [piN_ge _ s.sizeA, s.sizeB]
    have hszA' : hA'.net.nodes.size = stA.1.net.nodes.size + 1 := by rw [hnetA]; simp [pushNode]
    refine ⟨?_, ?_, ?_, ?_, ?_, ?_, ?_, ?_, ?_, ?_, ?_⟩
    · show Lk _ _ _ _ _ _ hA'.net (pushNode stB.1.net kn.1)
      rw [hnetA]; exact s.lk.stepAddNode kn.1 hpiN
    · show N - 1 ≤ hA'.net.nodes.size
      rw [hszA']; have := s.sizeA; omega
    · show (pushNode stB.1.net kn.1).nodes.size = hA'.net.nodes.size + 1
      rw [hszA']; simp [pushNode, s.sizeB]
    · show hA'.names.size = hA'.net.nodes.size
      rw [e4, hszA']; simp [s.nszA]
    · show (stB.1.names.push kn.2).size = (pushNode stB.1.net kn.1).nodes.size
      simp [pushNode, s.nszB]
    · intro x hx
      have hx' : x < stA.1.net.nodes.size + 1 := by rw [← hszA']; exact hx
      show hA'.names.getD x "" = (stB.1.names.push kn.2).getD (piN N c x) ""
      rw [e4, names_push_getD, names_push_getD, s.nszA, s.nszB]
      by_cases h1 : x < stA.1.net.nodes.size
      · have := s.lk.nodeLt x h1
        rw [if_pos h1, if_pos this]; exact s.names x h1
      · have hx2 : x = stA.1.net.nodes.size := by omega
        rw [if_neg h1, if_pos hx2, hx2, hpiN]
        simp
    · show (stB.1.names.push kn.2).getD c "" = hn
      rw [names_push_getD, s.nszB]
      have : c < stB.1.net.nodes.size := by have := s.sizeA; have := s.sizeB; omega
      rw [if_pos this]; exact s.cName
    · show hA'.net.lines.size = (pushNode stB.1.net kn.1).lines.size
      rw [hnetA]; exact s.lsz
    · show (stB.2.setIfInBounds j (some stB.1.net.nodes.size)).size = (stA.2.setIfInBounds j (some stA.1.net.nodes.size)).size
      simp [s.msz]
    · intro k
      show (stB.2.setIfInBounds j (some stB.1.net.nodes.size)).getD k none =
        ((stA.2.setIfInBounds j (some stA.1.net.nodes.size)).getD k none).map (piN N c)
      rw [mapGetD_set, mapGetD_set, s.msz]
      split
      · simp [hpiN]
      · exact s.map k
    · intro k x hx
      have hx' : (stA.2.setIfInBounds j (some stA.1.net.nodes.size)).getD k none = some x := hx
      rw [mapGetD_set] at hx'
      show N - 1 ≤ x ∧ x < hA'.net.nodes.size
      rw [hszA']
      split at hx'
      · have : x = stA.1.net.nodes.size := (Option.some.inj hx').symm
        have := s.sizeA; omega
      · have := s.mapOwn k x hx'; omega

theorem lkS_fold {N c : Nat} (hc : c < N) {hn : String} {PI PO : Nat → Prop} (m : NNet) (D : Nat) :
    ∀ (js : List Nat) (stA stB stA' : NNet × Array (Option Nat)), (∀ j ∈ js, j ≠ D) → LkS N c hn PI PO stA stB →
    js.foldlM (addImplNode m hn none) stA = some stA' →
    ∃ stB', js.foldlM (addImplNode m hn (some D)) stB = some stB' ∧ LkS N c hn PI PO stA' stB'
  | [], stA, stB, stA', _, s, he => by
    simp only [List.foldlM_nil] at he
    cases (Option.some.inj he)
    exact ⟨stB, rfl, s⟩
  | j :: js, stA, stB, stA', hjs, s, he => by
    simp only [List.foldlM_cons, Option.bind_eq_bind, Option.bind_eq_some_iff] at he
    obtain ⟨s1, h1, h2⟩ := he
    obtain ⟨t1, g1, g2⟩ := lkS_step hc m D j (hjs j List.mem_cons_self) s h1
    obtain ⟨t2, g3, g4⟩ := lkS_fold hc m D js s1 t1 stA' (fun j' hj' => hjs j' (List.mem_cons_of_mem _ hj')) g2 h2
    exact ⟨t2, by simp only [List.foldlM_cons, Option.bind_eq_bind, g1, Option.bind_some, g3], g4⟩

end KV.Transform
