import KyupyVerif.Model.Capture
import KyupyVerif.Proofs.WaveCircuit
import KyupyVerif.Proofs.WaveOvf
/-! Capture and switching-activity summaries (C13). -/
namespace KV.Wave

/-! ### what a waveform encodes (specification) -/
def parity (n : Nat) : Bool := n % 2 == 1
/-- value just before time `t`: parity of the number of entries strictly before `t` -/
def valueAt (w : Wv) (t : T) : Bool := parity (w.ents.filter (fun e => T.lt e t)).length
/-- earliest / latest finite transition (`tmax` / `tmin` when there is none) -/
def specEat (w : Wv) : T := (w.ents.filter (· ≠ T.tmin)).foldl T.min T.tmax
def specLst (w : Wv) : T := (w.ents.filter (· ≠ T.tmin)).foldl T.max T.tmin

theorem parity_succ (n : Nat) : parity (n + 1) = !parity n := by
  unfold parity
  rcases Nat.mod_two_eq_zero_or_one n with h | h
  · have : (n + 1) % 2 = 1 := by omega
    simp [h, this]
  · have : (n + 1) % 2 = 0 := by omega
    simp [h, this]

theorem fold_capStep (time : T) (l : List T) (s : CapSt) :
    l.foldl (capStep time) s =
      { eat := (l.filter (· ≠ T.tmin)).foldl T.min s.eat,
        lst := (l.filter (· ≠ T.tmin)).foldl T.max s.lst,
        final := s.final ^^ parity l.length,
        val := s.val ^^ parity (l.filter (fun e => T.lt e time)).length } := by
  induction l generalizing s with
  | nil => cases s; simp [parity]
  | cons e r ih =>
    simp only [List.foldl_cons]
    rw [ih]
    by_cases he : e = T.tmin
    · subst he
      by_cases hlt : T.lt T.tmin time = true
      · simp [capStep, hlt, parity_succ]
      · simp only [Bool.not_eq_true] at hlt
        simp [capStep, hlt, parity_succ]
    · by_cases hlt : T.lt e time = true
      · simp [capStep, he, hlt, parity_succ]
      · simp only [Bool.not_eq_true] at hlt
        simp [capStep, he, hlt, parity_succ]

/-- the capture model returns exactly what the waveform encodes -/
theorem capture_spec (w : Wv) (time : T) :
    captureWv w time =
      { init := w.init, eat := specEat w, lst := specLst w, final := w.final,
        val := valueAt w time, ovl := w.term == T.tovl } := by
  unfold captureWv
  rw [fold_capStep]
  simp [Wv.init, Wv.final, specEat, specLst, valueAt, parity]

/-! ### transition counts -/
/-- rising / falling transitions of a waveform, counted by walking it: every entry toggles the value;
    a leading `tmin` only marks the initial value 1 and is not a transition -/
def countTrans : Bool → List T → Nat × Nat
  | _, [] => (0, 0)
  | v, e :: r =>
    let c := countTrans (!v) r
    if e = T.tmin then c else if v then (c.1, c.2 + 1) else (c.1 + 1, c.2)

theorem countTrans_fin (v : Bool) (l : List T) (h : ∀ e ∈ l, e.isFin = true) :
    countTrans v l = if v then (l.length / 2, (l.length + 1) / 2) else ((l.length + 1) / 2, l.length / 2) := by
  induction l generalizing v with
  | nil => cases v <;> rfl
  | cons e r ih =>
    have he : e ≠ T.tmin := by
      intro h'; have := h e (List.mem_cons_self); rw [h'] at this; simp [T.isFin] at this
    have hr := ih (!v) (fun x hx => h x (List.mem_cons_of_mem _ hx))
    simp only [countTrans, he, if_false, hr, List.length_cons]
    cases v <;> simp <;> omega

/-- the counts `waveEval` returns are the numbers of rising and falling transitions of the waveform it stores -/
theorem counts_spec (ents : List T) (h : WfRem ents) :
    countTrans false ents =
      ((ents.length + 1) / 2 - startsHigh ents, ents.length / 2) := by
  cases ents with
  | nil => rfl
  | cons e r =>
    have hr : ∀ x ∈ r, x.isFin = true := h.1
    by_cases he : e = T.tmin
    · subst he
      simp only [countTrans, if_true, Bool.not_false]
      rw [countTrans_fin true r hr]
      simp [startsHigh]; omega
    · have : ∀ x ∈ e :: r, x.isFin = true := by
        intro x hx
        rcases List.mem_cons.mp hx with rfl | hx
        · rcases h.2 x (List.mem_cons_self) with h' | h'
          · exact absurd h' he
          · exact h'
        · exact hr x hx
      rw [countTrans_fin false (e :: r) this]
      cases e <;> simp_all [startsHigh]

/-! ### accumulation buffer: per accumulator, the weighted sum over the ops, in any order -/
structure Contrib where
  acc : Option Nat      -- accumulator index, none = -1 (ignored)
  amount : Int          -- nrise * a_wr + nfall * a_wf
deriving DecidableEq

def accStep (ab : Nat → Int) (c : Contrib) : Nat → Int :=
  match c.acc with
  | none => ab
  | some a => fun j => if j = a then ab j + c.amount else ab j

def accumulate (ab : Nat → Int) (cs : List Contrib) : Nat → Int := cs.foldl accStep ab

def totalFor (a : Nat) (cs : List Contrib) : Int :=
  (cs.map fun c => if c.acc = some a then c.amount else 0).sum

theorem accumulate_spec (ab : Nat → Int) (cs : List Contrib) (a : Nat) :
    accumulate ab cs a = ab a + totalFor a cs := by
  induction cs generalizing ab with
  | nil => simp [accumulate, totalFor]
  | cons c cs ih =>
    simp only [accumulate, List.foldl_cons] at ih ⊢
    rw [ih]
    unfold accStep totalFor
    cases hc : c.acc with
    | none => simp [hc]
    | some b =>
      by_cases hab : a = b
      · subst hab; simp [hc]; omega
      · have : b ≠ a := fun h => hab h.symm
        simp [hc, hab, this]

theorem perm_sum_int {l₁ l₂ : List Int} (h : l₁.Perm l₂) : l₁.sum = l₂.sum := by
  induction h with
  | nil => rfl
  | cons x _ ih => simp [ih]
  | swap x y l => simp; omega
  | trans _ _ ih1 ih2 => exact ih1.trans ih2

/-- the accumulated activity does not depend on the order in which ops / threads are processed -/
theorem accumulate_perm (ab : Nat → Int) (cs cs' : List Contrib) (h : cs.Perm cs') :
    accumulate ab cs = accumulate ab cs' := by
  funext a
  rw [accumulate_spec, accumulate_spec]
  congr 1
  unfold totalFor
  exact perm_sum_int (h.map _)

end KV.Wave
