import KyupyVerif.Proofs.Transform
/-! Helper definitions for C10 (`substitute_sem_general`): well-formedness of a dump without the reader-side back pointer
(`WFr`).  A line whose reader pin does not point back (`¬ PtsBack`) is *stale on the reader side*: this is the state of the
host line at an instance pin that the implementation ignores, between the moment the pins of the instance are cleared and
the moment `Line.remove()` deletes the line.  Every pin entry still is a line that records this node and pin (`fwdIn`,
`fwdOut`), so a stale line is at no pin at all: nobody reads it. -/
namespace KV.Transform
open KV

/-- `WF` without the clause on trailing `None`s and without the reader-side back pointer -/
structure WFr (nn : NNet) : Prop where
  names : nn.names.size = nn.net.nodes.size
  nodup : nn.keys.Nodup
  io : ∀ i ∈ nn.net.io, i < nn.net.nodes.size
  back : ∀ l, l < nn.net.lines.size →
    (nn.net.line l).driver < nn.net.nodes.size ∧ (nn.net.line l).reader < nn.net.nodes.size ∧
    (nn.net.node (nn.net.line l).driver).outs.getD (nn.net.line l).dpin none = some l
  fwdIn : ∀ i, i < nn.net.nodes.size → ∀ p l, (nn.net.node i).ins.getD p none = some l →
    l < nn.net.lines.size ∧ (nn.net.line l).reader = i ∧ (nn.net.line l).rpin = p
  fwdOut : ∀ i, i < nn.net.nodes.size → ∀ p l, (nn.net.node i).outs.getD p none = some l →
    l < nn.net.lines.size ∧ (nn.net.line l).driver = i ∧ (nn.net.line l).dpin = p

/-- the reader pin that line `l` records holds `l` -/
def PtsBack (nn : NNet) (l : Nat) : Prop :=
  (nn.net.node (nn.net.line l).reader).ins.getD (nn.net.line l).rpin none = some l

theorem WF.toWFr {nn : NNet} (w : WF nn) : WFr nn :=
  ⟨w.names, w.nodup, w.io, fun l hl => ⟨(w.back l hl).1, (w.back l hl).2.1, (w.back l hl).2.2.1⟩, w.fwdIn, w.fwdOut⟩

theorem WF.ptsBack {nn : NNet} (w : WF nn) (l : Nat) (hl : l < nn.net.lines.size) : PtsBack nn l := (w.back l hl).2.2.2

/-- a line at a pin points back -/
theorem WFr.ptsBack_of_pin {nn : NNet} (w : WFr nn) (i p l : Nat) (hi : i < nn.net.nodes.size)
    (hp : (nn.net.node i).ins.getD p none = some l) : PtsBack nn l := by
  obtain ⟨_, h2, h3⟩ := w.fwdIn i hi p l hp
  unfold PtsBack
  rw [h2, h3]; exact hp

end KV.Transform
