import KyupyVerif.Model.CircObj
/-! # Object-level model of `Circuit.substitute`, `remove_dangling_nodes`, `resolve_tlib_cells` (C09)

Statement-by-statement transcription of circuit.py:341-353 (`remove_dangling_nodes`), 382-463 (`substitute`, with the loop
that makes the outputs of the copied forks dense again — the repair of D30) and 465-472 (`resolve_tlib_cells`) in terms of the primitives of Model/CircObj.lean (`addNode`, `addLine` with explicit pins,
`removeLine`, `removeNode`, heap updates).  The implementation circuit is a second `Circ` value (read only), the library is
an association list kind ↦ implementation.  Where Python raises (`KeyError`, `AttributeError`, `IndexError`, a failing
`assert`, the `None.driver_pin` of the renumbering loop of `Line.remove`) the functions return `none`.

Python sets and dictionaries keyed by `Node` objects (`ios`, `node_map`, `own_nodes`) compare by `Node.__eq__` =
(name, kind); the model does the same (`sameNode`).  Identity tests (`n is root_node`) compare ids.

`substPre` is the decidable well-formed-use precondition under which Props/C09 proves that the result satisfies `WFc`
(it evaluates pin guards along the run and needs no hypothesis on the implementation); `substStatic` is a purely
structural sufficient condition (well-formed implementation, duplicate-free port list, designated cell not a port, no
self loop at the instance) that implies it on well-formed hosts (Proofs/CircObjSubstStatic.lean, CircObjSubstFull.lean). -/
namespace KV.CircObj

def isSeqKind (k : String) : Bool := hasSub "dff" (lower k) || hasSub "latch" (lower k)

/-! ## loops that may raise -/
/-- `for a in as: s = f(s, a)` where `f` may raise -/
def foldO {σ α : Type} (f : σ → α → Option σ) : σ → List α → Option σ
  | s, [] => some s
  | s, a :: as => match f s a with
    | some s' => foldO f s' as
    | none => none

/-- `g` holds before every iteration of the loop `foldO f` (up to the point where `f` raises) -/
def foldG {σ α : Type} (f : σ → α → Option σ) (g : σ → α → Bool) : σ → List α → Bool
  | _, [] => true
  | s, a :: as => g s a && match f s a with
    | some s' => foldG f g s' as
    | none => true

/-! ## `Line.remove()` including the place where it raises (circuit.py:183) -/
/-- `for i, l in enumerate(self.driver.outs): l.driver_pin = i` raises on a `None` entry of the squeezed fork outputs -/
def squeezeRaises (c : Circ) (l : Nat) : Bool :=
  match (c.lobj l).driver with
  | none => false
  | some d => (c.nobj d).kind == FORK &&
      ((growSet (c.nobj d).outs (c.lobj l).driverPin none).eraseIdx (c.lobj l).driverPin).any (·.isNone)

def removeLineChk (c : Circ) (l : Nat) : Option Circ := if squeezeRaises c l then none else some (removeLine c l)

/-! ## `remove_dangling_nodes(root_node, only)` (circuit.py:341-353)
The recursion `for d in drivers: self.remove_dangling_nodes(d, only)` is a depth-first traversal: explicit stack, the
drivers of the removed node are pushed in front.  `fuel` bounds the number of visited stack entries (every visit beyond the
first is paid for by one removed line). -/
/-- `only is None or root_node in only` (set membership: `Node.__hash__`/`__eq__`) -/
def onlyHas (c : Circ) (only : Option (List Nat)) (root : Nat) : Bool :=
  match only with
  | none => true
  | some s => s.any fun j => sameNode (c.nobj j) (c.nobj root)

/-- the node is removed by this visit -/
def rdRemoves (c : Circ) (only : Option (List Nat)) (root : Nat) : Bool :=
  !((c.nobj root).outs.any (·.isSome)) &&                        -- len([l for l in root_node.outs if l is not None]) > 0: return
  !(c.io.contains root) &&                                       -- any(n is root_node for n in self.io_nodes): return
  !(isSeqKind (c.nobj root).kind) &&                             -- 'dff' in kind.lower() or 'latch' in kind.lower(): return
  onlyHas c only root                                            -- only is not None and root_node not in only: return

/-- `lines = [l for l in root_node.ins if l is not None]` -/
def inLines (c : Circ) (root : Nat) : List Nat := (c.nobj root).ins.filterMap id

/-- `root_node.remove(); for l in lines: l.remove()` -/
def rdRemove (c : Circ) (root : Nat) : Option Circ := foldO removeLineChk (removeNode c root) (inLines c root)

def rdGo (only : Option (List Nat)) : Nat → Circ → List (Option Nat) → Option Circ
  | _, c, [] => some c
  | 0, _, _ :: _ => none
  | _ + 1, _, none :: _ => none                                  -- `None.outs`: AttributeError
  | fuel + 1, c, some root :: rest =>
    if rdRemoves c only root then
      let drivers := (inLines c root).map fun l => (c.lobj l).driver      -- drivers = [l.driver for l in lines]
      match rdRemove c root with
      | none => none
      | some c' => rdGo only fuel c' (drivers ++ rest)
    else rdGo only fuel c rest

/-- `c.remove_dangling_nodes(root, only)` -/
def removeDanglingFrom (only : Option (List Nat)) (c : Circ) (root : Nat) : Option Circ :=
  rdGo only (c.lines.length + 1) c [some root]

/-- `c.remove_dangling_nodes(root)` -/
def removeDanglingObj (c : Circ) (root : Nat) : Option Circ := removeDanglingFrom none c root

/-! ## `substitute(node, impl)` (circuit.py:382-463); `m` = the implementation circuit -/
/-- `n in ios` for `ios = set(impl.io_nodes)` -/
def inIos (m : Circ) (n : Nat) : Bool := m.io.any fun j => sameNode (m.nobj j) (m.nobj n)

/-- `while n.kind == '__fork__' and n not in ios: n = n.ins[0].driver` (a cycle of forks does not terminate: `none`) -/
def walkDes (m : Circ) : Nat → Nat → Option Nat
  | 0, _ => none
  | fuel + 1, n =>
    if (m.nobj n).kind == FORK && !(inIos m n) then
      match pin (m.nobj n).ins 0 with                            -- IndexError / AttributeError
      | some l => match (m.lobj l).driver with
        | some d => walkDes m fuel d
        | none => none
      | none => none
    else some n

structure Shape where
  /-- `impl_in_nodes` -/
  inPorts : List Nat
  /-- `impl_out_lines` -/
  outLines : List Nat
  /-- `designated_cell` -/
  des : Option Nat

/-- circuit.py:394-405.  A `None` entry of `impl_out_lines` raises at its first use (at the latest in the loop that
connects the outputs, which visits every entry), so it is reported here.  When the walk from the first output ends at a
port of the implementation (feed-through cell) there is no designated cell (repair of D32). -/
def implShape (m : Circ) : Option Shape :=
  let inPorts := m.io.filter fun p => (m.nobj p).ins.length == 0
  let outL := (m.io.filter fun p => (m.nobj p).ins.length != 0).map fun p => pin (m.nobj p).ins 0
  if outL.any (·.isNone) then none else
  let outLines := outL.filterMap id
  let d0 : Option (Option Nat) :=
    match outLines with
    | [] => some none
    | l0 :: _ => match (m.lobj l0).driver with
      | none => none
      | some d => (walkDes m (m.nodes.length + 1) d).map fun n =>
          if inIos m n then none else some n                       -- `None if n in ios else n` (repair of D32)
  match d0 with
  | none => none
  | some d0 =>
    let seq := m.nodes.find? fun j => isSeqKind (m.nobj j).kind
    some { inPorts := inPorts, outLines := outLines, des := if seq.isSome then seq else d0 }

/-- `node_map`: implementation node ↦ host node, a dictionary keyed by `Node.__eq__` -/
abbrev NMap := List (Nat × Nat)
def nmFind (m : Circ) (nm : NMap) (n : Nat) : Option Nat :=
  (nm.find? fun e => sameNode (m.nobj e.1) (m.nobj n)).map (·.2)
def nmSet (m : Circ) (nm : NMap) (n v : Nat) : NMap :=
  if nm.any (fun e => sameNode (m.nobj e.1) (m.nobj n)) then
    nm.map fun e => if sameNode (m.nobj e.1) (m.nobj n) then (e.1, v) else e
  else nm ++ [(n, v)]

/-- circuit.py:410-417: the host cell takes the kind (and role) of the designated cell, pins cleared; or `node.remove()` -/
def phase1 (c : Circ) (i : Nat) (m : Circ) (des : Option Nat) : Circ × NMap :=
  match des with
  | some dn => ({ c with nobj := upd c.nobj i { c.nobj i with kind := (m.nobj dn).kind, ins := [], outs := [] } }, [(dn, i)])
  | none => (removeNode c i, [])

/-- one iteration of `for n in impl.nodes` (circuit.py:419-426); `Node(...)` asserts that the name is free -/
def addImplNode (m : Circ) (hostName : String) (des : Option Nat) (st : Circ × NMap) (n : Nat) : Option (Circ × NMap) :=
  let o := m.nobj n
  let name := hostName ++ "~" ++ o.name
  let add (kind : String) : Option (Circ × NMap) :=
    if nameFree st.1 name kind then some (addNode st.1 name kind, nmSet m st.2 n st.1.nextN) else none
  if !(inIos m n) then
    if (match des with | some dn => !(sameNode o (m.nobj dn)) | none => true) then add o.kind else some st
  else if o.outs.length > 0 && o.ins.length > 0 then add FORK
  else if o.ins.length == 0 && o.outs.length > 1 then add FORK
  else some st

/-- `if l.reader in node_map and l.driver in node_map`: the host ends of the copy of implementation line `l` -/
def implLineEnds (m : Circ) (nm : NMap) (l : Nat) : Option (Nat × Nat × Nat × Nat) :=
  match (m.lobj l).reader, (m.lobj l).driver with
  | some r, some d =>
    match nmFind m nm r, nmFind m nm d with
    | some R, some D => some (D, (m.lobj l).driverPin, R, (m.lobj l).readerPin)
    | _, _ => none
  | _, _ => none

/-- one iteration of `for l in impl.lines` (circuit.py:427-429) -/
def addImplLine (m : Circ) (nm : NMap) (c : Circ) (l : Nat) : Option Circ :=
  match implLineEnds m nm l with
  | some (D, dp, R, rp) => some (addLine c D (some dp) R (some rp))
  | none => some c

/-- `ll.reader = R; ll.reader_pin = rp; R.ins[rp] = ll` -/
def setReader (c : Circ) (ll R rp : Nat) : Circ :=
  { c with lobj := upd c.lobj ll { c.lobj ll with reader := some R, readerPin := rp }
           nobj := upd c.nobj R { c.nobj R with ins := growSet (c.nobj R).ins rp (some ll) } }
/-- `ll.driver = D; ll.driver_pin = dp; D.outs[dp] = ll` -/
def setDriver (c : Circ) (ll D dp : Nat) : Circ :=
  { c with lobj := upd c.lobj ll { c.lobj ll with driver := some D, driverPin := dp }
           nobj := upd c.nobj D { c.nobj D with outs := growSet (c.nobj D).outs dp (some ll) } }

/-- where the host line at the instance pin of input port `inn` is connected (circuit.py:436-442): to the reader of the
port's only line, or to pin 0 of the fork made for a port with several readers; `none` = KeyError / AttributeError -/
def inTarget (m : Circ) (nm : NMap) (inn : Nat) : Option (Nat × Nat) :=
  let outs := (m.nobj inn).outs
  if outs.length == 1 then
    match pin outs 0 with
    | some l => match (m.lobj l).reader with
      | some r => (nmFind m nm r).map fun R => (R, (m.lobj l).readerPin)
      | none => none
    | none => none
  else (nmFind m nm inn).map fun R => (R, 0)

/-- one iteration of `for inn, ll in zip(impl_in_nodes, node_in_lines)` (circuit.py:430-443) -/
def connectIn (m : Circ) (nm : NMap) (c : Circ) (p : Nat × Option Nat) : Option Circ :=
  match p.2 with
  | none => some c                                               -- if ll is None: continue
  | some ll =>
    if (m.nobj p.1).outs.length == 0 then                        -- ll.reader = None; ll.remove(); continue
      removeLineChk { c with lobj := upd c.lobj ll { c.lobj ll with reader := none } } ll
    else match inTarget m nm p.1 with
      | none => none
      | some (R, rp) => some (setReader c ll R rp)

/-- where the host line at the instance pin of the output with implementation line `l` is driven from
(circuit.py:450-455) -/
def outTarget (m : Circ) (nm : NMap) (l : Nat) : Option (Nat × Nat) :=
  match (m.lobj l).reader with
  | none => none                                                 -- `None.outs`
  | some rd =>
    if (m.nobj rd).outs.length > 0 then (nmFind m nm rd).map fun D => (D, (m.nobj rd).outs.length)
    else match (m.lobj l).driver with
      | some d => (nmFind m nm d).map fun D => (D, (m.lobj l).driverPin)
      | none => none

/-- one iteration of `for l, ll in zip(impl_out_lines, node_out_lines)` (circuit.py:445-456); state = circuit, `dangling` -/
def connectOut (m : Circ) (nm : NMap) (st : Circ × List Nat) (p : Nat × Option Nat) : Option (Circ × List Nat) :=
  match p.2 with
  | none =>
    some (st.1, match (m.lobj p.1).driver with
      | some d => (match nmFind m nm d with | some x => st.2 ++ [x] | none => st.2)
      | none => st.2)
  | some ll =>
    match outTarget m nm p.1 with
    | none => none
    | some (D, dp) => some (setDriver st.1 ll D dp, st.2)

/-- one iteration of the loop that makes the outputs of the copied forks dense again (an unconnected output pin may leave a
gap): `if n.kind == '__fork__' and any(l is None for l in n.outs): n.outs = [l for l in n.outs if l is not None];
for i, l in enumerate(n.outs): l.driver_pin = i` -/
def densifyNode (c : Circ) (v : Nat) : Circ :=
  let o := c.nobj v
  if o.kind == FORK && o.outs.any (·.isNone) then
    let outs2 : Pins := (o.outs.filterMap id).map some
    { c with nobj := upd c.nobj v { o with outs := outs2 }, lobj := renumber c.lobj outs2 0 }
  else c

/-- `for n in node_map.values(): ...` -/
def densify (c : Circ) (nm : NMap) : Circ := (nm.map (·.2)).foldl densifyNode c

/-- `if n.circuit is not None: self.remove_dangling_nodes(n, own_nodes)` -/
def danglingStep (own : List Nat) (c : Circ) (n : Nat) : Option Circ :=
  if (c.nobj n).alive then removeDanglingFrom (some own) c n else some c

/-- `list(node.ins) + [None] * (k - len(node.ins))` -/
def padTo (l : Pins) (n : Nat) : Pins := l ++ List.replicate (n - l.length) none

/-- the state after the two loops that copy the implementation into the host: circuit and `node_map` -/
def substCopy (c : Circ) (i : Nat) (m : Circ) (sh : Shape) : Option (Circ × NMap) :=
  match foldO (addImplNode m (c.nobj i).name sh.des) (phase1 c i m sh.des) m.nodes with
  | none => none
  | some (c2, nm) => (foldO (addImplLine m nm) c2 m.lines).map fun c3 => (c3, nm)

/-- the state after the two loops that connect the instance pins: circuit and `dangling` -/
def substConnect (c : Circ) (i : Nat) (m : Circ) (sh : Shape) (nm : NMap) (c3 : Circ) : Option (Circ × List Nat) :=
  match foldO (connectIn m nm) c3 (sh.inPorts.zip (padTo (c.nobj i).ins sh.inPorts.length)) with
  | none => none
  | some c4 => foldO (connectOut m nm) (c4, []) (sh.outLines.zip (padTo (c.nobj i).outs sh.outLines.length))

/-- the two `assert`s (circuit.py:408-409) -/
def arityOK (c : Circ) (i : Nat) (sh : Shape) : Bool :=
  (c.nobj i).ins.length ≤ sh.inPorts.length && (c.nobj i).outs.length ≤ sh.outLines.length

def substituteObj (c : Circ) (i : Nat) (m : Circ) : Option Circ :=
  match implShape m with
  | none => none
  | some sh =>
    if !(arityOK c i sh) then none else
    match substCopy c i m sh with
    | none => none
    | some (c3, nm) =>
      match substConnect c i m sh nm c3 with
      | none => none
      | some (c5, dang) => foldO (danglingStep (nm.map (·.2))) (densify c5 nm) dang

/-! ## `resolve_tlib_cells(tlib)` (circuit.py:465-472) -/
/-- `tlib.cells`: kind ↦ implementation circuit -/
abbrev Lib := List (String × Circ)
def Lib.find (lib : Lib) (kind : String) : Option Circ := (lib.find? fun e => e.1 == kind).map (·.2)

/-- one iteration of `for n in list(self.nodes)` -/
def resolveStep (lib : Lib) (c : Circ) (n : Nat) : Option Circ :=
  match lib.find (c.nobj n).kind with                            -- if n.kind in tlib.cells
  | some m => substituteObj c n m
  | none => some c

def resolveObj (lib : Lib) (c : Circ) : Option Circ := foldO (resolveStep lib) c c.nodes

/-! ## well-formed use of `substitute` -/
/-- no line runs from an output of the node to one of its own inputs -/
def noSelfLoop (c : Circ) (i : Nat) : Bool :=
  (c.nobj i).ins.all fun x => match x with
    | some l => (c.lobj l).driver != some i
    | none => true

/-- the pins used by `Line(self, (D, dp), (R, rp))` are free -/
def gImplLine (m : Circ) (nm : NMap) (c : Circ) (l : Nat) : Bool :=
  match implLineEnds m nm l with
  | some (D, dp, R, rp) => (pin (c.nobj D).outs dp).isNone && (pin (c.nobj R).ins rp).isNone
  | none => true

/-- the pin written by `ll.reader.ins[ll.reader_pin] = ll` is free -/
def gConnectIn (m : Circ) (nm : NMap) (c : Circ) (p : Nat × Option Nat) : Bool :=
  match p.2 with
  | none => true
  | some _ =>
    if (m.nobj p.1).outs.length == 0 then true
    else match inTarget m nm p.1 with
      | none => true
      | some (R, rp) => (pin (c.nobj R).ins rp).isNone

/-- the pin written by `ll.driver.outs[ll.driver_pin] = ll` is free -/
def gConnectOut (m : Circ) (nm : NMap) (st : Circ × List Nat) (p : Nat × Option Nat) : Bool :=
  match p.2 with
  | none => true
  | some _ =>
    match outTarget m nm p.1 with
    | none => true
    | some (D, dp) => (pin (st.1.nobj D).outs dp).isNone

/-- no explicit pin assignment of `substitute` overwrites a pin that holds a line (evaluated along the run) -/
def substGuards (c : Circ) (i : Nat) (m : Circ) : Bool :=
  match implShape m with
  | none => true
  | some sh =>
    if !(arityOK c i sh) then true else
    match foldO (addImplNode m (c.nobj i).name sh.des) (phase1 c i m sh.des) m.nodes with
    | none => true
    | some (c2, nm) =>
      foldG (addImplLine m nm) (gImplLine m nm) c2 m.lines &&
      match foldO (addImplLine m nm) c2 m.lines with
      | none => true
      | some c3 =>
        let ins := sh.inPorts.zip (padTo (c.nobj i).ins sh.inPorts.length)
        foldG (connectIn m nm) (gConnectIn m nm) c3 ins &&
        match foldO (connectIn m nm) c3 ins with
        | none => true
        | some c4 => foldG (connectOut m nm) (gConnectOut m nm) (c4, []) (sh.outLines.zip (padTo (c.nobj i).outs sh.outLines.length))

/-- the node is a cell and stays one; without a designated cell it is removed and must not be a port -/
def substKinds (c : Circ) (i : Nat) (m : Circ) : Bool :=
  (c.nobj i).kind != FORK &&
  match implShape m with
  | none => true
  | some sh => match sh.des with
    | some dn => (m.nobj dn).kind != FORK
    | none => !(c.io.contains i)

/-- fork outputs are gap-free -/
def forksFull (c : Circ) : Bool := c.nodes.all fun i => (c.nobj i).kind != FORK || (c.nobj i).outs.all (·.isSome)

/-- well-formed use of `substitute` EXCEPT gap-freeness of the fork outputs of the result: yields `WFc0` -/
def substPre0 (c : Circ) (i : Nat) (m : Circ) : Bool :=
  c.nodes.contains i && substKinds c i m && noSelfLoop c i && substGuards c i m

/-- well-formed use of `substitute`: yields `WFc` -/
def substPre (c : Circ) (i : Nat) (m : Circ) : Bool :=
  substPre0 c i m && match substituteObj c i m with
    | some c' => forksFull c'
    | none => true

/-! ### structural (static) well-formed use: nothing is evaluated along the run -/
/-- the loop over `impl.nodes` makes a fork for this port of the implementation (circuit.py:423-426) -/
def forkCond (m : Circ) (n : Nat) : Bool :=
  ((m.nobj n).outs.length > 0 && (m.nobj n).ins.length > 0) || ((m.nobj n).ins.length == 0 && (m.nobj n).outs.length > 1)

/-- the designated cell of the implementation is not one of its ports -/
def desNotPort (m : Circ) : Bool :=
  match implShape m with
  | none => true
  | some sh => match sh.des with
    | some dn => !(inIos m dn)
    | none => true

/-- the implementation side: a well-formed circuit whose port list has no duplicates and whose designated cell is not a port -/
def implStatic (m : Circ) : Bool := invOK m && decide m.io.Nodup && desNotPort m

/-- structural well-formed use of `substitute`: `substKinds`, `noSelfLoop` on the host side, `implStatic` on the
implementation side.  On well-formed hosts it implies `substPre` (Proofs/CircObjSubstStatic.lean, CircObjSubstFull.lean). -/
def substStatic (c : Circ) (i : Nat) (m : Circ) : Bool :=
  c.nodes.contains i && substKinds c i m && noSelfLoop c i && implStatic m

/-- well-formed use of `resolve_tlib_cells`: every substitution it performs is one -/
def resolvePre (lib : Lib) (c : Circ) : Bool :=
  foldG (resolveStep lib) (fun c n => match lib.find (c.nobj n).kind with | some m => substPre c n m | none => true) c c.nodes

/-- structural well-formed use of `resolve_tlib_cells`: every substitution it performs satisfies `substStatic` (checked on
the circuit as it is when the substitution starts; nothing inside a substitution is evaluated) -/
def resolveStatic (lib : Lib) (c : Circ) : Bool :=
  foldG (resolveStep lib) (fun c n => match lib.find (c.nobj n).kind with
    | some m => substStatic c n m
    | none => true) c c.nodes

/-! ## histories with the three operations -/
inductive Op2
  | base (op : Op)
  | substitute (ni : Nat) (impl : Circ)
  | removeDangling (ni : Nat)
  | resolve (lib : Lib)

def pre2 (c : Circ) : Op2 → Bool
  | .base op => pre c op
  | .substitute ni m => match c.nodes[ni]? with
    | some i => substPre c i m
    | none => false
  | .removeDangling ni => ni < c.nodes.length
  | .resolve lib => resolvePre lib c

/-- `none`: the real code raises -/
def step2 (c : Circ) : Op2 → Option Circ
  | .base op => some (step c op)
  | .substitute ni m => match c.nodes[ni]? with
    | some i => substituteObj c i m
    | none => none
  | .removeDangling ni => match c.nodes[ni]? with
    | some i => removeDanglingObj c i
    | none => none
  | .resolve lib => resolveObj lib c

/-- replay a history; `none` as soon as an operation is not a well-formed use or raises -/
def run2 (c : Circ) : List Op2 → Option Circ
  | [] => some c
  | op :: rest =>
    if pre2 c op then
      match step2 c op with
      | some c' => run2 c' rest
      | none => none
    else none

end KV.CircObj
