import KyupyVerif.Model.TextLex
import KyupyVerif.Model.Stil
/-! # Text level of `kyupy.stil`: the lark grammar of `stil.py` as a scanner + recursive-descent reader (C18)

`parseTree : List Char → Option StilFile` reads the language that `Lark(GRAMMAR, parser="lalr")` of `stil.py` accepts and
returns the content of lark's parse tree as a typed syntax tree (token texts verbatim, quoted names with their quotes,
skipped `{ .. }` regions as their flat token list).

How the grammar is read (scanner of every LALR state entered by shifting a terminal, from the real `Lark` object):
* the ignored terminal (line ends, `//` comments, blanks) is tried first in every state;
* keywords are plain prefixes, longest first (`Call` before `C`, `ScanInversion` before `ScanIn`);
* after ANY quoted name the scanner is the union `"…"  :  =  {  +  '  ;  !` and after the `}` that closes a skipped
  `{ .. }` region it is the union of block keywords, pattern statement keywords, a quoted name, `}` and `;` — LALR
  merges those states, so what may follow is decided by the reader, but how it is cut into tokens by these unions;
* a call parameter value is `/[^;]+/` after the ignored terminal: leading blanks / line ends / comments are dropped,
  everything else up to the `;` (line breaks, blanks, braces) belongs to the value;
* `_ignore` has no text after its closing brace, `_ignore_inner` may have (`_NOB`).

`StilFile.ok` = the transformer and `StilFile.__init__` do not raise: `float()` of the version, a ScanStructures and a
Pattern block exist, every ScanChain has a ScanCells statement.  `toFile` is the hand-over to the post-parse model
`KV.Stil.File` (`dict(..)` semantics, `.SI` / path stripping of cell names).  `printStil` is a canonical printer;
`Proofs/StilText.lean` proves `parseStil (printStil f) = some f` for valid trees.
Only core Lean + `Model/TextLex`, `Model/Stil`. -/
namespace KV.StilText
open KV.TextLex

abbrev Txt := List Char

/-! ## terminals -/
inductive Kw
  | Stil | Header | Signals | Timing | Patternburst | Patternexec | Procedures | Macrodefs | Userkeywords | Signalgroups
  | Scanstructures | Scanchain | Scanlength | Scanin | Scanout | Scaninversion | Scancells | Scanmasterclock | Pattern | W
  | C | Macro | Ann | Call | Lbrace | Rbrace | Plus | Equal | Quote | Semi
  | Colon | Bang
deriving DecidableEq, Repr, Inhabited

def Kw.chars : Kw → List Char
  | .Stil => ['S', 'T', 'I', 'L']
  | .Header => ['H', 'e', 'a', 'd', 'e', 'r']
  | .Signals => ['S', 'i', 'g', 'n', 'a', 'l', 's']
  | .Timing => ['T', 'i', 'm', 'i', 'n', 'g']
  | .Patternburst => ['P', 'a', 't', 't', 'e', 'r', 'n', 'B', 'u', 'r', 's', 't']
  | .Patternexec => ['P', 'a', 't', 't', 'e', 'r', 'n', 'E', 'x', 'e', 'c']
  | .Procedures => ['P', 'r', 'o', 'c', 'e', 'd', 'u', 'r', 'e', 's']
  | .Macrodefs => ['M', 'a', 'c', 'r', 'o', 'D', 'e', 'f', 's']
  | .Userkeywords => ['U', 's', 'e', 'r', 'K', 'e', 'y', 'w', 'o', 'r', 'd', 's']
  | .Signalgroups => ['S', 'i', 'g', 'n', 'a', 'l', 'G', 'r', 'o', 'u', 'p', 's']
  | .Scanstructures => ['S', 'c', 'a', 'n', 'S', 't', 'r', 'u', 'c', 't', 'u', 'r', 'e', 's']
  | .Scanchain => ['S', 'c', 'a', 'n', 'C', 'h', 'a', 'i', 'n']
  | .Scanlength => ['S', 'c', 'a', 'n', 'L', 'e', 'n', 'g', 't', 'h']
  | .Scanin => ['S', 'c', 'a', 'n', 'I', 'n']
  | .Scanout => ['S', 'c', 'a', 'n', 'O', 'u', 't']
  | .Scaninversion => ['S', 'c', 'a', 'n', 'I', 'n', 'v', 'e', 'r', 's', 'i', 'o', 'n']
  | .Scancells => ['S', 'c', 'a', 'n', 'C', 'e', 'l', 'l', 's']
  | .Scanmasterclock => ['S', 'c', 'a', 'n', 'M', 'a', 's', 't', 'e', 'r', 'C', 'l', 'o', 'c', 'k']
  | .Pattern => ['P', 'a', 't', 't', 'e', 'r', 'n']
  | .W => ['W']
  | .C => ['C']
  | .Macro => ['M', 'a', 'c', 'r', 'o']
  | .Ann => ['A', 'n', 'n']
  | .Call => ['C', 'a', 'l', 'l']
  | .Lbrace => ['{']
  | .Rbrace => ['}']
  | .Plus => ['+']
  | .Equal => ['=']
  | .Quote => ['\'']
  | .Semi => [';']
  | .Colon => [':']
  | .Bang => ['!']

inductive Tm
  | ign          -- `%ignore ( /\r?\n/ | "//" /[^\n]*/ | /[\t\f ]/ )+`
  | lit (k : Kw)
  | quoted       -- `/"[^"]*"/`
  | float        -- `FLOAT: /[-0-9.]+/`
  | nob          -- `_NOB: /[^{}]+/`
  | digits       -- `/[0-9]+/`
  | value        -- `/[^;]+/`
  | ukw          -- `/[a-zA-Z]*;/`
deriving DecidableEq, Repr

def isBlank (c : Char) : Bool := c = '\t' || c = '\x0c' || c = ' '
def isDigit (c : Char) : Bool := '0' ≤ c && c ≤ '9'
def isFloatCh (c : Char) : Bool := c = '-' || c = '.' || isDigit c
def isNob (c : Char) : Bool := c ≠ '{' && c ≠ '}'
def isValueCh (c : Char) : Bool := c ≠ ';'
def isAlpha (c : Char) : Bool := ('a' ≤ c && c ≤ 'z') || ('A' ≤ c && c ≤ 'Z')
def notQuote (c : Char) : Bool := c ≠ '"'
/-- a character at which the ignored terminal can neither start nor continue -/
def solid (c : Char) : Bool := !isBlank c && c ≠ '\n' && c ≠ '\r' && c ≠ '/'

/-- rest after the longest run of comments, line ends and blanks; the flag says "inside a comment" -/
def skipIgn : Bool → List Char → List Char
  | true, [] => []
  | true, c :: r => if c = '\n' then skipIgn false r else skipIgn true r
  | false, [] => []
  | false, c :: r =>
    if c = '\n' || isBlank c then skipIgn false r
    else if c = '/' then
      match r with
      | d :: r' => if d = '/' then skipIgn true r' else c :: r
      | [] => c :: r
    else if c = '\r' then
      match r with
      | d :: r' => if d = '\n' then skipIgn false r' else c :: r
      | [] => c :: r
    else c :: r

def ignM : Matcher := fun cs =>
  let r := skipIgn false cs
  if r.length < cs.length then some ([], r) else none

/-- `"[^"]*"`: the token keeps both quotes -/
def quotedM : Matcher
  | [] => none
  | c :: r =>
    if c = '"' then
      match (spanP notQuote r).2 with
      | d :: r' => if d = '"' then some (c :: ((spanP notQuote r).1 ++ [d]), r') else none
      | [] => none
    else none

/-- `[a-zA-Z]*;` (token text with the `;`) -/
def ukwM : Matcher := fun cs =>
  match (spanP isAlpha cs).2 with
  | d :: r' => if d = ';' then some ((spanP isAlpha cs).1 ++ [d], r') else none
  | [] => none

def Tm.run : Tm → Matcher
  | .ign => ignM
  | .lit k => TextLex.lit k.chars
  | .quoted => quotedM
  | .float => plus isFloatCh
  | .nob => plus isNob
  | .digits => plus isDigit
  | .value => plus isValueCh
  | .ukw => ukwM

def Tm.ign? : Tm → Bool
  | .ign => true
  | _ => false

def L : Lex Tm := ⟨Tm.run, Tm.ign?⟩

/-! ## scanner states -/
def one (k : Kw) : List Tm := [.ign, .lit k]
def sStart : List Tm := one .Stil
def sFloat : List Tm := [.ign, .float]
def sAfterFloat : List Tm := [.ign, .lit .Lbrace, .lit .Semi]
def blockKws : List Tm := [.lit .Scanstructures, .lit .Patternburst, .lit .Signalgroups, .lit .Userkeywords, .lit .Patternexec,
  .lit .Procedures, .lit .Macrodefs, .lit .Pattern, .lit .Signals, .lit .Header, .lit .Timing]
def sBlock : List Tm := .ign :: blockKws
/-- after the `}` that closes a skipped `{ .. }` region -/
def sAfterIgn : List Tm := .ign :: .quoted :: (blockKws ++ [.lit .Macro, .lit .Call, .lit .Ann, .lit .C, .lit .Rbrace, .lit .Semi, .lit .W])
def sLbrace : List Tm := one .Lbrace
def sQuoted : List Tm := [.ign, .quoted]
/-- after any quoted name -/
def sAfterQ : List Tm := [.ign, .quoted, .lit .Colon, .lit .Equal, .lit .Lbrace, .lit .Plus, .lit .Quote, .lit .Semi, .lit .Bang]
def sIgA : List Tm := [.ign, .nob, .lit .Lbrace, .lit .Rbrace]
def sIgB : List Tm := [.ign, .lit .Lbrace, .lit .Rbrace]
def sItem : List Tm := [.ign, .quoted, .lit .Rbrace]
def sAfterSgQuote : List Tm := [.ign, .quoted, .lit .Lbrace, .lit .Rbrace, .lit .Semi]
def sQuoteCh : List Tm := one .Quote
def sChain : List Tm := [.ign, .lit .Scanchain, .lit .Rbrace]
def sChainItem : List Tm := [.ign, .lit .Scanmasterclock, .lit .Scaninversion, .lit .Scanlength, .lit .Scancells, .lit .Scanout,
  .lit .Scanin, .lit .Rbrace]
def sDigits : List Tm := [.ign, .digits]
def sSemi : List Tm := one .Semi
def sCells : List Tm := [.ign, .quoted, .lit .Semi, .lit .Bang]
def sPatItem : List Tm := [.ign, .quoted, .lit .Macro, .lit .Call, .lit .Ann, .lit .C, .lit .Rbrace, .lit .W]
def sValue : List Tm := [.ign, .value]
def sUk : List Tm := [.ign, .ukw]

/-! ## syntax tree -/
/-- a token inside a skipped `{ .. }` region (the outer braces are not listed) -/
inductive IgnTok
  | opn | cls | nob (t : Txt)
deriving DecidableEq, Repr, Inhabited

/-- `quoted "=" "'" quoted ( "+" quoted)* "'" _ignore? ";"?` -/
structure Group where
  name : Txt
  first : Txt
  more : List Txt
  ign : Option (List IgnTok)
  semi : Bool
deriving DecidableEq, Repr, Inhabited

inductive Cell
  | cell (q : Txt) | bang
deriving DecidableEq, Repr, Inhabited

inductive ChainItem
  | length (n : Txt) | inv (n : Txt) | scanIn (q : Txt) | scanOut (q : Txt) | clock (q : Txt) | cells (cs : List Cell)
deriving DecidableEq, Repr, Inhabited

structure Chain where
  name : Txt
  items : List ChainItem
deriving DecidableEq, Repr, Inhabited

inductive PatItem
  | label (q : Txt) | w (q : Txt) | macro_ (q : Txt) | c (ig : List IgnTok) | ann (ig : List IgnTok)
  | call (name : Txt) (params : List (Txt × Txt))
deriving DecidableEq, Repr, Inhabited

inductive Block
  | skip (k : Kw) (ig : List IgnTok)       -- Header / Signals / Timing / PatternExec / Procedures / MacroDefs
  | burst (q : Txt) (ig : List IgnTok)
  | ukw (t : Txt)
  | groups (gs : List Group)
  | chains (cs : List Chain)
  | pattern (name : Txt) (items : List PatItem)
deriving DecidableEq, Repr, Inhabited

structure StilFile where
  version : Txt
  headIgn : Option (List IgnTok)     -- `STIL 1.0 { .. }`; `none` = `STIL 1.0 ;`
  blocks : List Block
deriving DecidableEq, Repr, Inhabited

/-! ## reader -/
def expect (s : List Tm) (t : Tm) (cs : List Char) : Option (Txt × List Char) :=
  match next L s cs with
  | some (.tok t' x, r) => if t' = t then some (x, r) else none
  | _ => none

/-- the terminals of a fixed sequence; result = the token texts -/
def pSeq : List (List Tm × Tm) → List Char → Option (List Txt × List Char)
  | [], cs => some ([], cs)
  | (s, t) :: rest, cs =>
    match expect s t cs with
    | some (x, r) =>
      match pSeq rest r with
      | some (xs, r') => some (x :: xs, r')
      | none => none
    | none => none

/-- inside a skipped region after its `{`: `d` = open inner braces, `nobOk` = the scanner knows `_NOB` here -/
def pIgn : Nat → Nat → Bool → List Char → Option (List IgnTok × List Char)
  | 0, _, _, _ => none
  | n + 1, d, nobOk, cs =>
    match next L (if nobOk then sIgA else sIgB) cs with
    | some (.tok (.lit .Lbrace) _, r) => (pIgn n (d + 1) true r).map fun (ts, r) => (.opn :: ts, r)
    | some (.tok .nob x, r) => (pIgn n d false r).map fun (ts, r) => (.nob x :: ts, r)
    | some (.tok (.lit .Rbrace) _, r) =>
      match d with
      | 0 => some ([], r)
      | d + 1 => (pIgn n d true r).map fun (ts, r) => (.cls :: ts, r)
    | _ => none

/-- `"{" skipped "}"` with the `{` scanned in state `s` -/
def pBraceIgn (N : Nat) (s : List Tm) (cs : List Char) : Option (List IgnTok × List Char) :=
  match expect s (.lit .Lbrace) cs with
  | some (_, r) => pIgn N 0 true r
  | none => none

/-- `( "+" quoted)* "'"` -/
def pMembers : Nat → List Char → Option (List Txt × List Char)
  | 0, _ => none
  | n + 1, cs =>
    match next L sAfterQ cs with
    | some (.tok (.lit .Quote) _, r) => some ([], r)
    | some (.tok (.lit .Plus) _, r) =>
      match expect sQuoted .quoted r with
      | some (q, r) => (pMembers n r).map fun (qs, r) => (q :: qs, r)
      | none => none
    | _ => none

/-- `signal_group* "}"`; `tok` = the token already read (a quoted name or `}`) -/
def pGroups (N : Nat) : Nat → Tok Tm → List Char → Option (List Group × List Char)
  | 0, _, _ => none
  | n + 1, tok, cs =>
    match tok with
    | .tok (.lit .Rbrace) _ => some ([], cs)
    | .tok .quoted name =>
      match pSeq [(sAfterQ, .lit .Equal), (sQuoteCh, .lit .Quote), (sQuoted, .quoted)] cs with
      | some ([_, _, first], r) =>
        match pMembers N r with
        | some (more, r) =>
          let finish (ig : Option (List IgnTok)) (semi : Bool) (tok : Tok Tm) (r : List Char) :=
            (pGroups N n tok r).map fun (gs, r) => (⟨name, first, more, ig, semi⟩ :: gs, r)
          match next L sAfterSgQuote r with
          | some (.tok (.lit .Lbrace) _, r) =>
            match pIgn N 0 true r with
            | some (ig, r) =>
              match next L sAfterIgn r with
              | some (.tok (.lit .Semi) _, r) =>
                match next L sItem r with
                | some (tok, r) => finish (some ig) true tok r
                | none => none
              | some (tok, r) => finish (some ig) false tok r
              | none => none
            | none => none
          | some (.tok (.lit .Semi) _, r) =>
            match next L sItem r with
            | some (tok, r) => finish none true tok r
            | none => none
          | some (tok, r) => finish none false tok r
          | none => none
        | none => none
      | _ => none
    | _ => none

/-- `(quoted | "!")* ";"`; `aq` = a quoted name has just been read -/
def pCells : Nat → Bool → List Char → Option (List Cell × List Char)
  | 0, _, _ => none
  | n + 1, aq, cs =>
    match next L (if aq then sAfterQ else sCells) cs with
    | some (.tok (.lit .Semi) _, r) => some ([], r)
    | some (.tok .quoted q, r) => (pCells n true r).map fun (cs', r) => (.cell q :: cs', r)
    | some (.tok (.lit .Bang) _, r) => (pCells n false r).map fun (cs', r) => (.bang :: cs', r)
    | _ => none

/-- the statements of a ScanChain up to its `}` -/
def pChainItems (N : Nat) : Nat → List Char → Option (List ChainItem × List Char)
  | 0, _ => none
  | n + 1, cs =>
    let continue_ (it : ChainItem) (r : List Char) := (pChainItems N n r).map fun (its, r) => (it :: its, r)
    let num (mk : Txt → ChainItem) (r : List Char) :=
      match pSeq [(sDigits, .digits), (sSemi, .lit .Semi)] r with
      | some ([x, _], r) => continue_ (mk x) r
      | _ => none
    let name (mk : Txt → ChainItem) (r : List Char) :=
      match pSeq [(sQuoted, .quoted), (sAfterQ, .lit .Semi)] r with
      | some ([x, _], r) => continue_ (mk x) r
      | _ => none
    match next L sChainItem cs with
    | some (.tok (.lit .Rbrace) _, r) => some ([], r)
    | some (.tok (.lit .Scanlength) _, r) => num .length r
    | some (.tok (.lit .Scaninversion) _, r) => num .inv r
    | some (.tok (.lit .Scanin) _, r) => name .scanIn r
    | some (.tok (.lit .Scanout) _, r) => name .scanOut r
    | some (.tok (.lit .Scanmasterclock) _, r) => name .clock r
    | some (.tok (.lit .Scancells) _, r) =>
      match pCells N false r with
      | some (cs', r) => continue_ (.cells cs') r
      | none => none
    | _ => none

/-- `scan_chain* "}"` -/
def pChains (N : Nat) : Nat → List Char → Option (List Chain × List Char)
  | 0, _ => none
  | n + 1, cs =>
    match next L sChain cs with
    | some (.tok (.lit .Rbrace) _, r) => some ([], r)
    | some (.tok (.lit .Scanchain) _, r) =>
      match pSeq [(sQuoted, .quoted), (sAfterQ, .lit .Lbrace)] r with
      | some ([name, _], r) =>
        match pChainItems N N r with
        | some (its, r) => (pChains N n r).map fun (cs', r) => (⟨name, its⟩ :: cs', r)
        | none => none
      | _ => none
    | _ => none

/-- `call_parameter* "}"` -/
def pParams : Nat → List Char → Option (List (Txt × Txt) × List Char)
  | 0, _ => none
  | n + 1, cs =>
    match next L sItem cs with
    | some (.tok (.lit .Rbrace) _, r) => some ([], r)
    | some (.tok .quoted k, r) =>
      match pSeq [(sAfterQ, .lit .Equal), (sValue, .value), (sSemi, .lit .Semi)] r with
      | some ([_, v, _], r) => (pParams n r).map fun (ps, r) => ((k, v) :: ps, r)
      | _ => none
    | _ => none

/-- the statements of a Pattern block up to its `}`; `st` = scanner of the state the previous token left -/
def pPatItems (N : Nat) : Nat → List Tm → List Char → Option (List PatItem × List Char)
  | 0, _, _ => none
  | n + 1, st, cs =>
    let named (mk : Txt → PatItem) (r : List Char) :=
      match pSeq [(sQuoted, .quoted), (sAfterQ, .lit .Semi)] r with
      | some ([x, _], r) => (pPatItems N n sPatItem r).map fun (its, r) => (mk x :: its, r)
      | _ => none
    let skipped (mk : List IgnTok → PatItem) (r : List Char) :=
      match pBraceIgn N sLbrace r with
      | some (ig, r) => (pPatItems N n sAfterIgn r).map fun (its, r) => (mk ig :: its, r)
      | none => none
    match next L st cs with
    | some (.tok (.lit .Rbrace) _, r) => some ([], r)
    | some (.tok .quoted q, r) =>
      match expect sAfterQ (.lit .Colon) r with
      | some (_, r) => (pPatItems N n sPatItem r).map fun (its, r) => (.label q :: its, r)
      | none => none
    | some (.tok (.lit .W) _, r) => named .w r
    | some (.tok (.lit .Macro) _, r) => named .macro_ r
    | some (.tok (.lit .C) _, r) => skipped .c r
    | some (.tok (.lit .Ann) _, r) => skipped .ann r
    | some (.tok (.lit .Call) _, r) =>
      match pSeq [(sQuoted, .quoted), (sAfterQ, .lit .Lbrace)] r with
      | some ([name, _], r) =>
        match pParams N r with
        | some (ps, r) => (pPatItems N n sPatItem r).map fun (its, r) => (.call name ps :: its, r)
        | none => none
      | _ => none
    | _ => none

def isSkipKw (k : Kw) : Bool :=
  k = .Header || k = .Signals || k = .Timing || k = .Patternexec || k = .Procedures || k = .Macrodefs

/-- `_block*` up to the end of the text -/
def pBlocks (N : Nat) : Nat → List Tm → List Char → Option (List Block × List Char)
  | 0, _, _ => none
  | n + 1, st, cs =>
    match next L st cs with
    | some (.eof, r) => some ([], r)
    | some (.tok (.lit k) _, r) =>
      if isSkipKw k then
        match pBraceIgn N sLbrace r with
        | some (ig, r) => (pBlocks N n sAfterIgn r).map fun (bs, r) => (.skip k ig :: bs, r)
        | none => none
      else if k = .Patternburst then
        match expect sQuoted .quoted r with
        | some (q, r) =>
          match pBraceIgn N sAfterQ r with
          | some (ig, r) => (pBlocks N n sAfterIgn r).map fun (bs, r) => (.burst q ig :: bs, r)
          | none => none
        | none => none
      else if k = .Userkeywords then
        match expect sUk .ukw r with
        | some (x, r) => (pBlocks N n sBlock r).map fun (bs, r) => (.ukw x :: bs, r)
        | none => none
      else if k = .Signalgroups then
        match expect sLbrace (.lit .Lbrace) r with
        | some (_, r) =>
          match next L sItem r with
          | some (tok, r) =>
            match pGroups N N tok r with
            | some (gs, r) => (pBlocks N n sBlock r).map fun (bs, r) => (.groups gs :: bs, r)
            | none => none
          | none => none
        | none => none
      else if k = .Scanstructures then
        match expect sLbrace (.lit .Lbrace) r with
        | some (_, r) =>
          match pChains N N r with
          | some (cs', r) => (pBlocks N n sBlock r).map fun (bs, r) => (.chains cs' :: bs, r)
          | none => none
        | none => none
      else if k = .Pattern then
        match pSeq [(sQuoted, .quoted), (sAfterQ, .lit .Lbrace)] r with
        | some ([name, _], r) =>
          match pPatItems N N sPatItem r with
          | some (its, r) => (pBlocks N n sBlock r).map fun (bs, r) => (.pattern name its :: bs, r)
          | none => none
        | _ => none
      else none
    | _ => none

/-- the lark parse (no transformer) -/
def parseTree (cs : List Char) : Option StilFile :=
  let N := cs.length + 1
  match pSeq [(sStart, .lit .Stil), (sFloat, .float)] cs with
  | some ([_, v], r) =>
    match next L sAfterFloat r with
    | some (.tok (.lit .Semi) _, r) => (pBlocks N N sBlock r).map fun (bs, _) => ⟨v, none, bs⟩
    | some (.tok (.lit .Lbrace) _, r) =>
      match pIgn N 0 true r with
      | some (ig, r) => (pBlocks N N sAfterIgn r).map fun (bs, _) => ⟨v, some ig, bs⟩
      | none => none
    | _ => none
  | _ => none

/-! ## what the transformer / `StilFile.__init__` can raise on -/
/-- `float(s)` succeeds, for `s` over `[-0-9.]`: `-? (digits+ .? digits* | . digits+)` -/
def floatOK (s : List Char) : Bool :=
  let u := match s with | '-' :: r => r | _ => s
  match (spanP isDigit u).2 with
  | [] => !(spanP isDigit u).1.isEmpty
  | c :: fp => c = '.' && fp.all isDigit && !((spanP isDigit u).1.isEmpty && fp.isEmpty)

def ChainItem.isCells : ChainItem → Bool
  | .cells _ => true
  | _ => false
def Block.isChains : Block → Bool
  | .chains _ => true
  | _ => false
def Block.isPattern : Block → Bool
  | .pattern _ _ => true
  | _ => false
/-- every ScanChain has a ScanCells statement (`[scan_in] + None` raises) -/
def Block.chainsOK : Block → Bool
  | .chains cs => cs.all fun c => c.items.any ChainItem.isCells
  | _ => true

def StilFile.ok (f : StilFile) : Bool :=
  floatOK f.version && f.blocks.any Block.isChains && f.blocks.any Block.isPattern && f.blocks.all Block.chainsOK

/-- `stil.parse(text)` returns -/
def parseStilL (cs : List Char) : Option StilFile :=
  match parseTree cs with
  | some f => if f.ok then some f else none
  | none => none

def parseStil (s : String) : Option StilFile := parseStilL s.toList

/-! ## hand-over to the post-parse model `KV.Stil.File` -/
/-- `args[0][1:-1]` -/
def unq (q : Txt) : Txt := (q.drop 1).dropLast

/-- `dict(items)`: a key keeps the position of its first occurrence and takes the value of its last -/
def pyDict {β : Type} : List (Txt × β) → List (Txt × β)
  | [] => []
  | (k, v) :: r =>
    let d := pyDict r
    match d.find? (·.1 == k) with
    | some (_, v') => (k, v') :: d.filter (·.1 != k)
    | none => (k, v) :: d

/-- `s.replace(pat, '')` -/
def removeAll (pat : Txt) : Nat → Txt → Txt
  | 0, s => s
  | _, [] => []
  | n + 1, c :: r => if !pat.isEmpty && pat.isPrefixOf (c :: r) then removeAll pat n ((c :: r).drop pat.length) else c :: removeAll pat n r

def splitLines : Txt → List Txt
  | [] => [[]]
  | c :: r =>
    match splitLines r with
    | l :: ls => if c = '\n' then [] :: l :: ls else (c :: l) :: ls
    | [] => [[c]]

def afterLastDot (l : Txt) : Txt :=
  match l.reverse.span (· ≠ '.') with
  | (t, _ :: _) => t.reverse
  | (_, []) => l

/-- `re.sub(r'.*\.', '', s)`: per line, what follows the last `.` -/
def stripPath (s : Txt) : Txt := ['\n'].intercalate ((splitLines s).map afterLastDot)

def cellName : Cell → Txt
  | .cell q => let n := unq q; stripPath (removeAll ".SI".toList (n.length + 1) n)
  | .bang => ['!']

def lastSome {α β : Type} (f : α → Option β) (l : List α) : Option β := (l.filterMap f).getLast?

structure RawChain where
  name : Txt
  si : Option Txt
  mid : List Txt
  so : Option Txt

def Chain.raw (c : Chain) : RawChain :=
  { name := unq c.name
    si := lastSome (fun | .scanIn q => some (unq q) | _ => none) c.items
    mid := ((lastSome (fun | .cells cs => some cs | _ => none) c.items).getD []).map cellName
    so := lastSome (fun | .scanOut q => some (unq q) | _ => none) c.items }

def StilFile.groupsD (f : StilFile) : Option (List (Txt × List Txt)) :=
  (lastSome (fun | .groups gs => some gs | _ => none) f.blocks).map fun gs =>
    pyDict (gs.map fun g => (unq g.name, (g.first :: g.more).map unq))

def StilFile.chainsD (f : StilFile) : List (Txt × RawChain) :=
  pyDict (((lastSome (fun | .chains cs => some cs | _ => none) f.blocks).getD []).map fun c => (unq c.name, c.raw))

def StilFile.callsD (f : StilFile) : List (Txt × List (Txt × Txt)) :=
  ((lastSome (fun | .pattern _ its => some its | _ => none) f.blocks).getD []).filterMap fun
    | .call n ps => some (unq n, pyDict (ps.map fun p => (unq p.1, p.2)))
    | _ => none

/-- the input of `KV.Stil`; `none` when a chain has no ScanIn / ScanOut (Python `None` as a port name) -/
def StilFile.toFile (f : StilFile) : Option KV.Stil.File :=
  let cs := f.chainsD.map (·.2)
  if cs.all (fun c => c.si.isSome && c.so.isSome) then
    some { groups := (f.groupsD.getD []).map fun g => (String.ofList g.1, g.2.map String.ofList)
           chains := cs.map fun c => ⟨String.ofList (c.si.getD []), c.mid.map String.ofList, String.ofList (c.so.getD [])⟩
           calls := f.callsD.map fun c => ⟨String.ofList c.1, c.2.map fun p => (String.ofList p.1, p.2)⟩ }
  else none

/-! ## canonical printer: every token preceded by one blank; a parameter value is followed directly by its `;` -/
abbrev K (k : Kw) : Txt := k.chars
def enc (ts : List Txt) : List Char := ts.flatMap fun t => ' ' :: t

/-- the body of a skipped region and its closing brace as blank-separated chunks; a text chunk carries the brace that
ends it (`_NOB` runs up to the next brace, so no blank may stand between them) -/
def ignChunks : List IgnTok → List Txt
  | [] => [K .Rbrace]
  | .opn :: r => K .Lbrace :: ignChunks r
  | .cls :: r => K .Rbrace :: ignChunks r
  | .nob t :: r =>
    match ignChunks r with
    | c :: cs => (t ++ c) :: cs
    | [] => [t]
/-- a skipped region: `{`, body, `}` -/
def ignToks (ig : List IgnTok) : List Txt := K .Lbrace :: ignChunks ig
def ignOptToks : Option (List IgnTok) → List Txt
  | some ig => ignToks ig
  | none => []
def semiToks (b : Bool) : List Txt := if b then [K .Semi] else []
def headToks : Option (List IgnTok) → List Txt
  | some ig => ignToks ig
  | none => [K .Semi]
def Group.toks (g : Group) : List Txt :=
  g.name :: K .Equal :: K .Quote :: g.first :: (g.more.flatMap (fun q => [K .Plus, q]) ++
    (K .Quote :: (ignOptToks g.ign ++ semiToks g.semi)))
def Cell.toks : Cell → List Txt
  | .cell q => [q]
  | .bang => [K .Bang]
def ChainItem.toks : ChainItem → List Txt
  | .length n => [K .Scanlength, n, K .Semi]
  | .inv n => [K .Scaninversion, n, K .Semi]
  | .scanIn q => [K .Scanin, q, K .Semi]
  | .scanOut q => [K .Scanout, q, K .Semi]
  | .clock q => [K .Scanmasterclock, q, K .Semi]
  | .cells cs => K .Scancells :: (cs.flatMap Cell.toks ++ [K .Semi])
def Chain.toks (c : Chain) : List Txt := K .Scanchain :: c.name :: K .Lbrace :: (c.items.flatMap ChainItem.toks ++ [K .Rbrace])
def paramToks (p : Txt × Txt) : List Txt := [p.1, K .Equal, p.2 ++ [';']]
def PatItem.toks : PatItem → List Txt
  | .label q => [q, K .Colon]
  | .w q => [K .W, q, K .Semi]
  | .macro_ q => [K .Macro, q, K .Semi]
  | .c ig => K .C :: ignToks ig
  | .ann ig => K .Ann :: ignToks ig
  | .call n ps => K .Call :: n :: K .Lbrace :: (ps.flatMap paramToks ++ [K .Rbrace])
def Block.toks : Block → List Txt
  | .skip k ig => K k :: ignToks ig
  | .burst q ig => K .Patternburst :: q :: ignToks ig
  | .ukw t => [K .Userkeywords, t]
  | .groups gs => K .Signalgroups :: K .Lbrace :: (gs.flatMap Group.toks ++ [K .Rbrace])
  | .chains cs => K .Scanstructures :: K .Lbrace :: (cs.flatMap Chain.toks ++ [K .Rbrace])
  | .pattern n its => K .Pattern :: n :: K .Lbrace :: (its.flatMap PatItem.toks ++ [K .Rbrace])
def StilFile.toks (f : StilFile) : List Txt :=
  K .Stil :: f.version :: (headToks f.headIgn ++ f.blocks.flatMap Block.toks)

def printStilL (f : StilFile) : List Char := enc f.toks ++ ['\n']
def printStil (f : StilFile) : String := String.ofList (printStilL f)

/-! ## which trees the printer can show (hypothesis of the round-trip theorem) -/
/-- a quoted-name token -/
def vQ (q : Txt) : Bool :=
  match q with
  | c :: r => c = '"' && r.getLast? = some '"' && r.dropLast.all notQuote
  | [] => false
def vDigits (n : Txt) : Bool := !n.isEmpty && n.all isDigit
def vFloat (v : Txt) : Bool := !v.isEmpty && v.all isFloatCh
/-- a parameter value: no `;`, not starting with something the ignored terminal would drop -/
def vValue (v : Txt) : Bool :=
  match v with
  | c :: _ => solid c && v.all isValueCh
  | [] => false
def vUkw (t : Txt) : Bool := t.getLast? = some ';' && t.dropLast.all isAlpha
/-- a text run inside a skipped region: no brace, starting with a solid character -/
def vNob (t : Txt) : Bool :=
  match t with
  | c :: _ => solid c && t.all isNob
  | [] => false
/-- well-formed body of a skipped region, as the reader produces it: `d` = open inner braces, `nobOk` = a text run may
stand here (not directly after another one); ends with all inner braces closed -/
def ignOK : Nat → Bool → List IgnTok → Bool
  | d, _, [] => d == 0
  | d, _, .opn :: r => ignOK (d + 1) true r
  | 0, _, .cls :: _ => false
  | d + 1, _, .cls :: r => ignOK d true r
  | d, ok, .nob t :: r => ok && vNob t && ignOK d false r
def vIgn (ig : List IgnTok) : Bool := ignOK 0 true ig

def Group.valid (g : Group) : Bool :=
  vQ g.name && vQ g.first && g.more.all vQ && (match g.ign with | some ig => vIgn ig | none => true)
/-- the optional `;` of a signal group may be omitted only where what follows cannot be misread: always fine -/
def Cell.valid : Cell → Bool
  | .cell q => vQ q
  | .bang => true
def ChainItem.valid : ChainItem → Bool
  | .length n => vDigits n
  | .inv n => vDigits n
  | .scanIn q => vQ q
  | .scanOut q => vQ q
  | .clock q => vQ q
  | .cells cs => cs.all Cell.valid
def Chain.valid (c : Chain) : Bool := vQ c.name && c.items.all ChainItem.valid
def PatItem.valid : PatItem → Bool
  | .label q => vQ q
  | .w q => vQ q
  | .macro_ q => vQ q
  | .c ig => vIgn ig
  | .ann ig => vIgn ig
  | .call n ps => vQ n && ps.all fun p => vQ p.1 && vValue p.2
def Block.valid : Block → Bool
  | .skip k ig => isSkipKw k && vIgn ig
  | .burst q ig => vQ q && vIgn ig
  | .ukw t => vUkw t
  | .groups gs => gs.all Group.valid
  | .chains cs => cs.all Chain.valid
  | .pattern n its => vQ n && its.all PatItem.valid
/-- syntactically printable and accepted by the transformer (`ok`) -/
def StilFile.valid (f : StilFile) : Bool :=
  vFloat f.version && (match f.headIgn with | some ig => vIgn ig | none => true) && f.blocks.all Block.valid && f.ok

end KV.StilText
