import KyupyVerif.Model.TextLex
import KyupyVerif.Model.Def
/-! # Text level of `kyupy.def_file`: the lark grammar of `def_file.py` as a scanner + recursive-descent reader (C20)

`parseTree : List Char → Option DefFile` reads the language that `Lark(GRAMMAR, parser="lalr")` of `def_file.py`
accepts and returns the content of lark's parse tree as a typed syntax tree (all token texts verbatim).

How the grammar is read — everything below is taken from the real `Lark` object (scanner of every LALR state that is
entered by shifting a terminal: terminal order, and which string terminals are folded into `ID`):
* a scanner tries its terminals in order and takes the first that matches; string terminals that the `ID` expression
  matches completely (`(`, `;`, `NEW`, `DO`) are not scanned themselves in a state that also knows `ID`: the `ID`
  match is taken and re-typed when its WHOLE text equals the string (`NEWVIA`, `(10`, `;x` are names there);
* elsewhere keywords are plain prefixes (no word boundary); `NUMBER` ends where its expression ends (`3;` is fine);
* the ignored terminal is ONE white-space character optionally followed by a `#` comment: a comment needs white
  space in front of it; `#` after the very first position of the file starts the optional head comment;
* after the `)` of ANY point, after an orientation and after the last number of `DO .. BY .. STEP ..` the scanner is
  the one of the routing-point loop (`ID` with `(`, `NEW`, `;` folded in, then `+`) — LALR merges those states;
* `ORIENTATION` has priority 2 and needs a white-space character behind it (look-ahead, not consumed).

`DefFile.ok` collects what `DefTransformer` raises on (`int()` of a NUMBER token with `.`/exponent).  `parseDef` =
`parseTree` + `ok`.  `printDef` is a canonical printer (every token preceded by one blank); `Proofs/DefText.lean`
proves `parseDef (printDef f) = some f` for valid trees.  Only core Lean + `Model/TextLex`. -/
namespace KV.DefText
open KV.TextLex

abbrev Txt := List Char

/-! ## terminals -/
inductive Kw
  | Version | Dividerchar | Busbitchars | Design | End | Units | Diearea | Row | Tracks | Do | Step | Layer
  | Propertydefinitions | Componentpin | Vias | Viarule | Cutsize | Layers | Cutspacing | Enclosure | Rowcol | Pattern | Nondefaultrules | Hardspacing
  | Width | Spacing | Via | Components | Placed | Pins | Net | Special | Direction | Use | Port | Pinproperties
  | Pin | Property | Specialnets | New | Cover | Fixed | Routed | Shape | Style | Nets | Nondefaultrule | Noshield
  | Taper | Taperrule | By | Minus | Plus | Lpar | Rpar | Semi | Star
deriving DecidableEq, Repr, Inhabited

def Kw.chars : Kw → List Char
  | .Version => ['V', 'E', 'R', 'S', 'I', 'O', 'N']
  | .Dividerchar => ['D', 'I', 'V', 'I', 'D', 'E', 'R', 'C', 'H', 'A', 'R']
  | .Busbitchars => ['B', 'U', 'S', 'B', 'I', 'T', 'C', 'H', 'A', 'R', 'S']
  | .Design => ['D', 'E', 'S', 'I', 'G', 'N']
  | .End => ['E', 'N', 'D']
  | .Units => ['U', 'N', 'I', 'T', 'S']
  | .Diearea => ['D', 'I', 'E', 'A', 'R', 'E', 'A']
  | .Row => ['R', 'O', 'W']
  | .Tracks => ['T', 'R', 'A', 'C', 'K', 'S']
  | .Do => ['D', 'O']
  | .Step => ['S', 'T', 'E', 'P']
  | .Layer => ['L', 'A', 'Y', 'E', 'R']
  | .Propertydefinitions => ['P', 'R', 'O', 'P', 'E', 'R', 'T', 'Y', 'D', 'E', 'F', 'I', 'N', 'I', 'T', 'I', 'O', 'N', 'S']
  | .Componentpin => ['C', 'O', 'M', 'P', 'O', 'N', 'E', 'N', 'T', 'P', 'I', 'N']
  | .Vias => ['V', 'I', 'A', 'S']
  | .Viarule => ['V', 'I', 'A', 'R', 'U', 'L', 'E']
  | .Cutsize => ['C', 'U', 'T', 'S', 'I', 'Z', 'E']
  | .Layers => ['L', 'A', 'Y', 'E', 'R', 'S']
  | .Cutspacing => ['C', 'U', 'T', 'S', 'P', 'A', 'C', 'I', 'N', 'G']
  | .Enclosure => ['E', 'N', 'C', 'L', 'O', 'S', 'U', 'R', 'E']
  | .Rowcol => ['R', 'O', 'W', 'C', 'O', 'L']
  | .Pattern => ['P', 'A', 'T', 'T', 'E', 'R', 'N']
  | .Nondefaultrules => ['N', 'O', 'N', 'D', 'E', 'F', 'A', 'U', 'L', 'T', 'R', 'U', 'L', 'E', 'S']
  | .Hardspacing => ['H', 'A', 'R', 'D', 'S', 'P', 'A', 'C', 'I', 'N', 'G']
  | .Width => ['W', 'I', 'D', 'T', 'H']
  | .Spacing => ['S', 'P', 'A', 'C', 'I', 'N', 'G']
  | .Via => ['V', 'I', 'A']
  | .Components => ['C', 'O', 'M', 'P', 'O', 'N', 'E', 'N', 'T', 'S']
  | .Placed => ['P', 'L', 'A', 'C', 'E', 'D']
  | .Pins => ['P', 'I', 'N', 'S']
  | .Net => ['N', 'E', 'T']
  | .Special => ['S', 'P', 'E', 'C', 'I', 'A', 'L']
  | .Direction => ['D', 'I', 'R', 'E', 'C', 'T', 'I', 'O', 'N']
  | .Use => ['U', 'S', 'E']
  | .Port => ['P', 'O', 'R', 'T']
  | .Pinproperties => ['P', 'I', 'N', 'P', 'R', 'O', 'P', 'E', 'R', 'T', 'I', 'E', 'S']
  | .Pin => ['P', 'I', 'N']
  | .Property => ['P', 'R', 'O', 'P', 'E', 'R', 'T', 'Y']
  | .Specialnets => ['S', 'P', 'E', 'C', 'I', 'A', 'L', 'N', 'E', 'T', 'S']
  | .New => ['N', 'E', 'W']
  | .Cover => ['C', 'O', 'V', 'E', 'R']
  | .Fixed => ['F', 'I', 'X', 'E', 'D']
  | .Routed => ['R', 'O', 'U', 'T', 'E', 'D']
  | .Shape => ['S', 'H', 'A', 'P', 'E']
  | .Style => ['S', 'T', 'Y', 'L', 'E']
  | .Nets => ['N', 'E', 'T', 'S']
  | .Nondefaultrule => ['N', 'O', 'N', 'D', 'E', 'F', 'A', 'U', 'L', 'T', 'R', 'U', 'L', 'E']
  | .Noshield => ['N', 'O', 'S', 'H', 'I', 'E', 'L', 'D']
  | .Taper => ['T', 'A', 'P', 'E', 'R']
  | .Taperrule => ['T', 'A', 'P', 'E', 'R', 'R', 'U', 'L', 'E']
  | .By => ['B', 'Y']
  | .Minus => ['-']
  | .Plus => ['+']
  | .Lpar => ['(']
  | .Rpar => [')']
  | .Semi => [';']
  | .Star => ['*']

inductive Tm
  | ign          -- `%ignore WS (/#[^\n]*/)?`, WS = `/[ \t\f\r\n]/`
  | headComment  -- `/#[^\n]*/` of `start`
  | lit (k : Kw) -- string terminals and the fixed-text regular expressions (`/VERSION/`, `/\*/` …)
  | id           -- `ID: /[^ \t\f\r\n+][^ \t\f\r\n]*/`
  | number       -- `common.NUMBER`
  | signed       -- `common.SIGNED_NUMBER`
  | orient       -- `ORIENTATION.2: /F?[NWES](?=[ \t\f\r\n])/`
  | string       -- `STRING : "\"" /.*?/s /(?<!\\)(\\\\)*?/ "\""`
  | xy           -- `/[XY]/`
deriving DecidableEq, Repr

def isWs (c : Char) : Bool := c = ' ' || c = '\t' || c = '\x0c' || c = '\r' || c = '\n'
def isDigit (c : Char) : Bool := '0' ≤ c && c ≤ '9'
def notWs (c : Char) : Bool := !isWs c
def notNl (c : Char) : Bool := c ≠ '\n'

/-- one white-space character, then a comment up to (not including) the line end if a `#` follows at once -/
def ignM : Matcher
  | [] => none
  | c :: r =>
    if isWs c then
      match r with
      | d :: r' => if d = '#' then some ([], (spanP notNl r').2) else some ([], r)
      | [] => some ([], [])
    else none

def headM : Matcher
  | [] => none
  | c :: r => if c = '#' then some (c :: (spanP notNl r).1, (spanP notNl r).2) else none

def idM : Matcher
  | [] => none
  | c :: r => if !isWs c && c ≠ '+' then some (c :: (spanP notWs r).1, (spanP notWs r).2) else none

/-- `(e|E)(\+|\-)?[0-9]+` -/
def expPart : List Char → Option (List Char × List Char)
  | [] => none
  | e :: r =>
    if e = 'e' || e = 'E' then
      match r with
      | s :: r' =>
        if s = '+' || s = '-' then
          match plus isDigit r' with
          | some (d, r2) => some (e :: s :: d, r2)
          | none => none
        else
          match plus isDigit r with
          | some (d, r2) => some (e :: d, r2)
          | none => none
      | [] => none
    else none

/-- `common.NUMBER` = FLOAT | INT, an ordered alternation: digits with exponent; digits `.` digits? exponent? or
`.` digits exponent?; digits -/
def numberM : Matcher := fun cs =>
  match plus isDigit cs with
  | some (d, r) =>
    match expPart r with
    | some (e, r') => some (d ++ e, r')
    | none =>
      match r with
      | c :: r1 =>
        if c = '.' then
          match expPart (spanP isDigit r1).2 with
          | some (e, r3) => some (d ++ '.' :: ((spanP isDigit r1).1 ++ e), r3)
          | none => some (d ++ '.' :: (spanP isDigit r1).1, (spanP isDigit r1).2)
        else some (d, r)
      | [] => some (d, r)
  | none =>
    match cs with
    | c :: r1 =>
      if c = '.' then
        match plus isDigit r1 with
        | some (f, r2) =>
          match expPart r2 with
          | some (e, r3) => some ('.' :: (f ++ e), r3)
          | none => some ('.' :: f, r2)
        | none => none
      else none
    | [] => none

def signedM : Matcher
  | [] => none
  | c :: r =>
    if c = '+' || c = '-' then (numberM r).map fun (t, r') => (c :: t, r')
    else numberM (c :: r)

def isNWES (c : Char) : Bool := c = 'N' || c = 'W' || c = 'E' || c = 'S'

def orientM : Matcher
  | a :: b :: r =>
    if a = 'F' then
      match r with
      | w :: _ => if isNWES b && isWs w then some ([a, b], r) else none
      | [] => none
    else if isNWES a && isWs b then some ([a], b :: r) else none
  | _ => none

/-- after the opening quote: up to the first `"` that is preceded by an even number of backslashes (`odd` = the run of
backslashes just read has odd length) -/
def strBody : Bool → List Char → Option (List Char × List Char)
  | _, [] => none
  | odd, c :: r =>
    if c = '"' && !odd then some ([c], r)
    else (strBody (if c = '\\' then !odd else false) r).map fun (t, r') => (c :: t, r')

def stringM : Matcher
  | [] => none
  | c :: r => if c = '"' then (strBody false r).map fun (t, r') => (c :: t, r') else none

def xyM : Matcher
  | [] => none
  | c :: r => if c = 'X' || c = 'Y' then some ([c], r) else none

def Tm.run : Tm → Matcher
  | .ign => ignM
  | .headComment => headM
  | .lit k => TextLex.lit k.chars
  | .id => idM
  | .number => numberM
  | .signed => signedM
  | .orient => orientM
  | .string => stringM
  | .xy => xyM

def Tm.ign? : Tm → Bool
  | .ign => true
  | _ => false

def L : Lex Tm := ⟨Tm.run, Tm.ign?⟩

/-- a scanner state: terminals in scan order, and the string terminals folded into `ID` -/
abbrev St := List Tm × List Kw

/-- next token of a state, with the re-typing of a whole-`ID` match that equals a folded string terminal -/
def nextD (s : St) (cs : List Char) : Option (Tok Tm × List Char) :=
  match next L s.1 cs with
  | some (.tok .id x, r) =>
    match s.2.find? (fun k => k.chars == x) with
    | some k => some (.tok (.lit k) x, r)
    | none => some (.tok .id x, r)
  | o => o

def expect (s : St) (t : Tm) (cs : List Char) : Option (Txt × List Char) :=
  match nextD s cs with
  | some (.tok t' x, r) => if t' = t then some (x, r) else none
  | _ => none

/-- the terminals of a fixed sequence; result = the token texts -/
def pSeq : List (St × Tm) → List Char → Option (List Txt × List Char)
  | [], cs => some ([], cs)
  | (s, t) :: rest, cs =>
    match expect s t cs with
    | some (x, r) =>
      match pSeq rest r with
      | some (xs, r') => some (x :: xs, r')
      | none => none
    | none => none

/-! ## scanner states (from `ContextualLexer.lexers[state]` of the real parser; named after the position) -/
def one (k : Kw) : St := ([.ign, .lit k], [])
def sStart : St := ([.ign, .headComment, .lit .Dividerchar, .lit .Busbitchars, .lit .Version, .lit .Design], [])
def sFile : St := ([.ign, .lit .Dividerchar, .lit .Busbitchars, .lit .Version, .lit .Design], [])
def sId : St := ([.id, .ign], [])
def sNum : St := ([.number, .ign], [])
def sString : St := ([.string, .ign], [])
def sSemi : St := one .Semi
def sDesign : St := ([.ign, .lit .Propertydefinitions, .lit .Nondefaultrules, .lit .Pinproperties, .lit .Specialnets,
  .lit .Components, .lit .Diearea, .lit .Tracks, .lit .Units, .lit .Nets, .lit .Pins, .lit .Vias, .lit .End, .lit .Row], [])
def sEndMinus : St := ([.ign, .lit .End, .lit .Minus], [])
def sPlusSemi : St := ([.ign, .lit .Plus, .lit .Semi], [])
def sViaOpt : St := ([.ign, .lit .Cutspacing, .lit .Enclosure, .lit .Viarule, .lit .Cutsize, .lit .Pattern, .lit .Layers,
  .lit .Rowcol], [])
def sPinOpt : St := ([.ign, .lit .Direction, .lit .Special, .lit .Placed, .lit .Layer, .lit .Port, .lit .Net, .lit .Use], [])
def sNdOpt : St := ([.ign, .lit .Hardspacing, .lit .Layer, .lit .Via], [])
def sPropdef : St := ([.ign, .lit .Componentpin, .lit .End], [])
def sXY : St := ([.ign, .xy], [])
/-- after the `)` of a point, after an orientation, after the last number of a `DO` statement -/
def sAfterPt : St := ([.id, .ign, .lit .Plus], [.Lpar, .New, .Semi])
/-- after a via name in a special net -/
def sAfterSpVia : St := ([.id, .ign, .lit .Plus], [.Do, .Lpar, .New, .Semi])
/-- after a via name in a regular net -/
def sAfterVia : St := ([.orient, .id, .ign, .lit .Plus], [.Lpar, .New, .Semi])
def sCoord : St := ([.number, .ign, .lit .Star], [])
def sCoord3 : St := ([.number, .ign, .lit .Rpar], [])
def sStepNum : St := ([.signed, .number, .ign], [])
def sNetPart : St := ([.ign, .lit .Lpar, .lit .Plus, .lit .Semi], [])
def sSpNetKw : St := ([.ign, .lit .Nondefaultrule, .lit .Routed, .lit .Cover, .lit .Fixed, .lit .Use], [])
def sNetKw : St := ([.ign, .lit .Nondefaultrule, .lit .Noshield, .lit .Routed, .lit .Cover, .lit .Fixed, .lit .Use], [])
def sWireOpt : St := ([.ign, .lit .Taperrule, .lit .Style, .lit .Taper, .lit .Lpar], [])
def sWireOpt2 : St := ([.ign, .lit .Style, .lit .Lpar], [])
def sSpWireOpt : St := ([.ign, .lit .Lpar, .lit .Plus], [])
def sSpWireKw : St := ([.ign, .lit .Shape, .lit .Style], [])

/-! ## syntax tree -/
/-- `( x y [ext] )`, `none` = `*` -/
structure TPoint where
  x : Option Txt
  y : Option Txt
  ext : Option Txt
deriving DecidableEq, Repr, Inhabited

/-- `DO nx BY ny STEP dx dy` -/
structure TDoStep where
  nx : Txt
  ny : Txt
  dx : Txt
  dy : Txt
deriving DecidableEq, Repr, Inhabited

/-- an entry of a wire's point list after the first point -/
inductive TItem
  | pt (p : TPoint)
  | via (name : Txt) (orient : Option Txt)   -- special net: `orient = none`; regular: optional ORIENTATION token
  | arr (name : Txt) (d : TDoStep)           -- special net: via with `DO`
deriving DecidableEq, Repr, Inhabited

/-- `(TAPER | TAPERRULE ID)?` of `wire_opt` -/
inductive Taper
  | none | taper | rule (r : Txt)
deriving DecidableEq, Repr, Inhabited

structure TWire where
  layer : Txt
  width : Option Txt            -- special net: `some NUMBER`; regular net: `none`
  spopts : List (Bool × Txt)    -- special net: `+ SHAPE id` (true) / `+ STYLE id` (false)
  taper : Taper                 -- regular net
  style : Option Txt            -- regular net: `STYLE id`
  start : TPoint
  rest : List TItem
deriving DecidableEq, Repr, Inhabited

inductive NetPart
  | pin (a b : Txt)
  | opt (k : Kw) (v : Txt)              -- `+ USE id` | `+ NONDEFAULTRULE id`
  | wiring (k : Kw) (ws : List TWire)   -- `+ COVER|FIXED|ROUTED|NOSHIELD wire (NEW wire)*`
deriving DecidableEq, Repr, Inhabited

structure TNet where
  name : Txt
  parts : List NetPart
deriving DecidableEq, Repr, Inhabited

/-- `+ KEYWORD arguments` of a VIAS entry: the keyword and its ID / NUMBER tokens -/
structure TViaOpt where
  k : Kw
  args : List Txt
deriving DecidableEq, Repr, Inhabited

structure TVia where
  name : Txt
  opts : List TViaOpt
deriving DecidableEq, Repr, Inhabited

structure TComp where
  name : Txt
  kind : Txt
  at_ : TPoint
  orient : Txt
deriving DecidableEq, Repr, Inhabited

inductive PinOpt
  | word (k : Kw) (v : Txt)     -- `+ NET id` | `+ DIRECTION id` | `+ USE id`
  | flag (k : Kw)               -- `+ SPECIAL` | `+ PORT`
  | layer (l : Txt) (p q : TPoint)
  | placed (p : TPoint) (o : Txt)
deriving DecidableEq, Repr, Inhabited

structure TPin where
  name : Txt
  opts : List PinOpt
deriving DecidableEq, Repr, Inhabited

inductive NdOpt
  | hard
  | layer (l w s : Txt)
  | via (v : Txt)
deriving DecidableEq, Repr, Inhabited

inductive DStmt
  | units (a b n : Txt)
  | diearea (pts : List TPoint)
  | row (name site x y orient : Txt) (d : TDoStep)
  | tracks (dir start n step layer : Txt)
  | propdef (items : List (Txt × Txt))
  | vias (n : Txt) (items : List TVia)
  | nondef (n : Txt) (items : List (Txt × List NdOpt))
  | comps (n : Txt) (items : List TComp)
  | pins (n : Txt) (items : List TPin)
  | pinprop (n : Txt) (items : List (Txt × Txt × Txt))
  | spnets (n : Txt) (items : List TNet)
  | nets (n : Txt) (items : List TNet)
deriving DecidableEq, Repr, Inhabited

inductive FStmt
  | version (v : Txt)
  | dividerchar (s : Txt)
  | busbitchars (s : Txt)
  | design (name : Txt) (stmts : List DStmt)
deriving DecidableEq, Repr, Inhabited

structure DefFile where
  head : Option Txt
  stmts : List FStmt
deriving DecidableEq, Repr, Inhabited

/-! ## reader -/
/-- a coordinate: NUMBER or `*` -/
def pCoord (cs : List Char) : Option (Option Txt × List Char) :=
  match nextD sCoord cs with
  | some (.tok .number x, r) => some (some x, r)
  | some (.tok (.lit .Star) _, r) => some (none, r)
  | _ => none

/-- after `(`: two coordinates, an optional third number, `)` -/
def pPoint (cs : List Char) : Option (TPoint × List Char) :=
  match pCoord cs with
  | some (x, r) =>
    match pCoord r with
    | some (y, r) =>
      match nextD sCoord3 r with
      | some (.tok (.lit .Rpar) _, r) => some (⟨x, y, none⟩, r)
      | some (.tok .number e, r) =>
        match expect (one .Rpar) (.lit .Rpar) r with
        | some (_, r) => some (⟨x, y, some e⟩, r)
        | none => none
      | _ => none
    | none => none
  | none => none

/-- `"(" point-body` -/
def pLparPoint (cs : List Char) : Option (TPoint × List Char) :=
  match expect (one .Lpar) (.lit .Lpar) cs with
  | some (_, r) => pPoint r
  | none => none

/-- after `DO` -/
def pDoStep (cs : List Char) : Option (TDoStep × List Char) :=
  match pSeq [(sNum, .number), (one .By, .lit .By), (sNum, .number), (one .Step, .lit .Step),
              (sStepNum, .signed), (sStepNum, .signed)] cs with
  | some ([nx, _, ny, _, dx, dy], r) => some (⟨nx, ny, dx, dy⟩, r)
  | _ => none

/-- the entries after a wire's first point, up to the token that ends the wire (`NEW`, `+` or `;`), which is
returned.  `pend` = a via name has just been read (its `DO` / orientation may follow); `sp` = special net. -/
def pItems (sp : Bool) : Nat → Option Txt → List Char → Option (List TItem × Kw × List Char)
  | 0, _, _ => none
  | n + 1, pend, cs =>
    let flush (its : List TItem) : List TItem := match pend with | some v => .via v none :: its | none => its
    let st : St := match pend with | some _ => (if sp then sAfterSpVia else sAfterVia) | none => sAfterPt
    match nextD st cs with
    | some (.tok .orient o, r) =>
      match pend with
      | some v => match pItems sp n none r with
        | some (its, k, r) => some (.via v (some o) :: its, k, r)
        | none => none
      | none => none
    | some (.tok (.lit .Do) _, r) =>
      match pend with
      | some v => match pDoStep r with
        | some (d, r) => match pItems sp n none r with
          | some (its, k, r) => some (.arr v d :: its, k, r)
          | none => none
        | none => none
      | none => none
    | some (.tok (.lit .Lpar) _, r) =>
      match pPoint r with
      | some (p, r) => match pItems sp n none r with
        | some (its, k, r) => some (flush (.pt p :: its), k, r)
        | none => none
      | none => none
    | some (.tok .id x, r) =>
      match pItems sp n (some x) r with
      | some (its, k, r) => some (flush its, k, r)
      | none => none
    | some (.tok (.lit k) _, r) => if k = .New || k = .Plus || k = .Semi then some (flush [], k, r) else none
    | _ => none

/-- `+ SHAPE id` / `+ STYLE id` of a special wire, up to the `(` of the first point (consumed) -/
def pSpOpts : Nat → List Char → Option (List (Bool × Txt) × List Char)
  | 0, _ => none
  | n + 1, cs =>
    match nextD sSpWireOpt cs with
    | some (.tok (.lit .Lpar) _, r) => some ([], r)
    | some (.tok (.lit .Plus) _, r) =>
      match nextD sSpWireKw r with
      | some (.tok (.lit k) _, r) =>
        match expect sId .id r with
        | some (v, r) => match pSpOpts n r with
          | some (os, r) => some ((k == .Shape, v) :: os, r)
          | none => none
        | none => none
      | _ => none
    | _ => none

/-- after TAPER / TAPERRULE id: `("STYLE" ID)? "("` -/
def pStyle (cs : List Char) : Option (Option Txt × List Char) :=
  match nextD sWireOpt2 cs with
  | some (.tok (.lit .Lpar) _, r) => some (none, r)
  | some (.tok (.lit .Style) _, r) =>
    match pSeq [(sId, .id), (one .Lpar, .lit .Lpar)] r with
    | some ([s, _], r) => some (some s, r)
    | _ => none
  | _ => none

/-- `wire_opt` of a regular wire up to the `(` of the first point (consumed) -/
def pWireOpt (cs : List Char) : Option (Taper × Option Txt × List Char) :=
  match nextD sWireOpt cs with
  | some (.tok (.lit .Lpar) _, r) => some (.none, none, r)
  | some (.tok (.lit .Style) _, r) =>
    match pSeq [(sId, .id), (one .Lpar, .lit .Lpar)] r with
    | some ([s, _], r) => some (.none, some s, r)
    | _ => none
  | some (.tok (.lit .Taper) _, r) => (pStyle r).map fun (s, r) => (.taper, s, r)
  | some (.tok (.lit .Taperrule) _, r) =>
    match expect sId .id r with
    | some (t, r) => (pStyle r).map fun (s, r) => (.rule t, s, r)
    | none => none
  | _ => none

/-- one wire after the wiring keyword or `NEW`; returns the token that ended it -/
def pWire (sp : Bool) (N : Nat) (cs : List Char) : Option (TWire × Kw × List Char) :=
  match expect sId .id cs with
  | some (layer, r) =>
    if sp then
      match expect sNum .number r with
      | some (w, r) =>
        match pSpOpts N r with
        | some (os, r) =>
          match pPoint r with
          | some (p, r) =>
            match pItems sp N none r with
            | some (its, k, r) => if its.isEmpty then none else some (⟨layer, some w, os, .none, none, p, its⟩, k, r)
            | none => none
          | none => none
        | none => none
      | none => none
    else
      match pWireOpt r with
      | some (t, s, r) =>
        match pPoint r with
        | some (p, r) =>
          match pItems sp N none r with
          | some (its, k, r) => if its.isEmpty then none else some (⟨layer, none, [], t, s, p, its⟩, k, r)
          | none => none
        | none => none
      | none => none
  | none => none

/-- `wire (NEW wire)*`; returns the token after the last wire (`+` or `;`) -/
def pWires (sp : Bool) (N : Nat) : Nat → List Char → Option (List TWire × Kw × List Char)
  | 0, _ => none
  | n + 1, cs =>
    match pWire sp N cs with
    | some (w, k, r) =>
      if k = .New then
        match pWires sp N n r with
        | some (ws, k, r) => some (w :: ws, k, r)
        | none => none
      else some ([w], k, r)
    | none => none

/-- the parts of a net statement; `tok` = the token already read (`(`, `+` or `;`) -/
def pNetParts (sp : Bool) (N : Nat) : Nat → Kw → List Char → Option (List NetPart × List Char)
  | 0, _, _ => none
  | n + 1, tok, cs =>
    let continue_ (p : NetPart) (r : List Char) : Option (List NetPart × List Char) :=
      match nextD sNetPart r with
      | some (.tok (.lit k) _, r) => match pNetParts sp N n k r with
        | some (ps, r) => some (p :: ps, r)
        | none => none
      | _ => none
    match tok with
    | .Semi => some ([], cs)
    | .Lpar =>
      match pSeq [(sId, .id), (sId, .id), (one .Rpar, .lit .Rpar)] cs with
      | some ([a, b, _], r) => continue_ (.pin a b) r
      | _ => none
    | .Plus =>
      match nextD (if sp then sSpNetKw else sNetKw) cs with
      | some (.tok (.lit k) _, r) =>
        if k = .Use || k = .Nondefaultrule then
          match expect sId .id r with
          | some (v, r) => continue_ (.opt k v) r
          | none => none
        else
          match pWires sp N N r with
          | some (ws, k', r) => match pNetParts sp N n k' r with
            | some (ps, r) => some (.wiring k ws :: ps, r)
            | none => none
          | none => none
      | _ => none
    | _ => none

/-- `nets_stmt* "END"` / `spnets_stmt* "END"` -/
def pNets (sp : Bool) (N : Nat) : Nat → List Char → Option (List TNet × List Char)
  | 0, _ => none
  | n + 1, cs =>
    match nextD sEndMinus cs with
    | some (.tok (.lit .End) _, r) => some ([], r)
    | some (.tok (.lit .Minus) _, r) =>
      match expect sId .id r with
      | some (name, r) =>
        match nextD sNetPart r with
        | some (.tok (.lit k) _, r) =>
          match pNetParts sp N N k r with
          | some (ps, r) => match pNets sp N n r with
            | some (ns, r) => some (⟨name, ps⟩ :: ns, r)
            | none => none
          | none => none
        | _ => none
      | none => none
    | _ => none

/-- the tokens of a `+ KEYWORD ..` option of a VIAS entry after the keyword -/
def viaOptSpec : Kw → List (St × Tm)
  | .Viarule | .Pattern => [(sId, .id)]
  | .Layers => [(sId, .id), (sId, .id), (sId, .id)]
  | .Enclosure => [(sNum, .number), (sNum, .number), (sNum, .number), (sNum, .number)]
  | _ => [(sNum, .number), (sNum, .number)]     -- CUTSIZE, CUTSPACING, ROWCOL

/-- `vias_opt* ";"` -/
def pViaOpts : Nat → List Char → Option (List TViaOpt × List Char)
  | 0, _ => none
  | n + 1, cs =>
    match nextD sPlusSemi cs with
    | some (.tok (.lit .Semi) _, r) => some ([], r)
    | some (.tok (.lit .Plus) _, r) =>
      match nextD sViaOpt r with
      | some (.tok (.lit k) _, r) =>
        match pSeq (viaOptSpec k) r with
        | some (args, r) => match pViaOpts n r with
          | some (os, r) => some (⟨k, args⟩ :: os, r)
          | none => none
        | none => none
      | _ => none
    | _ => none

def pVias (N : Nat) : Nat → List Char → Option (List TVia × List Char)
  | 0, _ => none
  | n + 1, cs =>
    match nextD sEndMinus cs with
    | some (.tok (.lit .End) _, r) => some ([], r)
    | some (.tok (.lit .Minus) _, r) =>
      match expect sId .id r with
      | some (name, r) =>
        match pViaOpts N r with
        | some (os, r) => match pVias N n r with
          | some (vs, r) => some (⟨name, os⟩ :: vs, r)
          | none => none
        | none => none
      | none => none
    | _ => none

def pComps : Nat → List Char → Option (List TComp × List Char)
  | 0, _ => none
  | n + 1, cs =>
    match nextD sEndMinus cs with
    | some (.tok (.lit .End) _, r) => some ([], r)
    | some (.tok (.lit .Minus) _, r) =>
      match pSeq [(sId, .id), (sId, .id), (one .Plus, .lit .Plus), (one .Placed, .lit .Placed), (one .Lpar, .lit .Lpar)] r with
      | some ([name, kind, _, _, _], r) =>
        match pPoint r with
        | some (p, r) =>
          match pSeq [(sAfterPt, .id), (sSemi, .lit .Semi)] r with
          | some ([o, _], r) => match pComps n r with
            | some (cs', r) => some (⟨name, kind, p, o⟩ :: cs', r)
            | none => none
          | _ => none
        | none => none
      | _ => none
    | _ => none

/-- `pins_opt* ";"`; `st` = the scanner of the state the previous token left (after a point it is `sAfterPt`) -/
def pPinOpts : Nat → St → List Char → Option (List PinOpt × List Char)
  | 0, _, _ => none
  | n + 1, st, cs =>
    match nextD st cs with
    | some (.tok (.lit .Semi) _, r) => some ([], r)
    | some (.tok (.lit .Plus) _, r) =>
      match nextD sPinOpt r with
      | some (.tok (.lit k) _, r) =>
        if k = .Special || k = .Port then
          match pPinOpts n sPlusSemi r with
          | some (os, r) => some (.flag k :: os, r)
          | none => none
        else if k = .Layer then
          match expect sId .id r with
          | some (l, r) =>
            match pLparPoint r with
            | some (p, r) =>
              match expect sAfterPt (.lit .Lpar) r with
              | some (_, r) =>
                match pPoint r with
                | some (q, r) => match pPinOpts n sAfterPt r with
                  | some (os, r) => some (.layer l p q :: os, r)
                  | none => none
                | none => none
              | none => none
            | none => none
          | none => none
        else if k = .Placed then
          match pLparPoint r with
          | some (p, r) =>
            match expect sAfterPt .id r with
            | some (o, r) => match pPinOpts n sPlusSemi r with
              | some (os, r) => some (.placed p o :: os, r)
              | none => none
            | none => none
          | none => none
        else
          match expect sId .id r with
          | some (v, r) => match pPinOpts n sPlusSemi r with
            | some (os, r) => some (.word k v :: os, r)
            | none => none
          | none => none
      | _ => none
    | _ => none

def pPins (N : Nat) : Nat → List Char → Option (List TPin × List Char)
  | 0, _ => none
  | n + 1, cs =>
    match nextD sEndMinus cs with
    | some (.tok (.lit .End) _, r) => some ([], r)
    | some (.tok (.lit .Minus) _, r) =>
      match expect sId .id r with
      | some (name, r) =>
        match pPinOpts N sPlusSemi r with
        | some (os, r) => match pPins N n r with
          | some (ps, r) => some (⟨name, os⟩ :: ps, r)
          | none => none
        | none => none
      | none => none
    | _ => none

def pPinProps : Nat → List Char → Option (List (Txt × Txt × Txt) × List Char)
  | 0, _ => none
  | n + 1, cs =>
    match nextD sEndMinus cs with
    | some (.tok (.lit .End) _, r) => some ([], r)
    | some (.tok (.lit .Minus) _, r) =>
      match pSeq [(one .Pin, .lit .Pin), (sId, .id), (one .Plus, .lit .Plus), (one .Property, .lit .Property),
                  (sId, .id), (sString, .string), (sSemi, .lit .Semi)] r with
      | some ([_, pin, _, _, prop, s, _], r) => match pPinProps n r with
        | some (ps, r) => some ((pin, prop, s) :: ps, r)
        | none => none
      | _ => none
    | _ => none

/-- options of a NONDEFAULTRULES entry up to `;` -/
def pNdOpts : Nat → List Char → Option (List NdOpt × List Char)
  | 0, _ => none
  | n + 1, cs =>
    match nextD sPlusSemi cs with
    | some (.tok (.lit .Semi) _, r) => some ([], r)
    | some (.tok (.lit .Plus) _, r) =>
      match nextD sNdOpt r with
      | some (.tok (.lit .Hardspacing) _, r) => (pNdOpts n r).map fun (os, r) => (.hard :: os, r)
      | some (.tok (.lit .Via) _, r) =>
        match expect sId .id r with
        | some (v, r) => (pNdOpts n r).map fun (os, r) => (.via v :: os, r)
        | none => none
      | some (.tok (.lit .Layer) _, r) =>
        match pSeq [(sId, .id), (one .Width, .lit .Width), (sNum, .number), (one .Spacing, .lit .Spacing), (sNum, .number)] r with
        | some ([l, _, w, _, s], r) => (pNdOpts n r).map fun (os, r) => (.layer l w s :: os, r)
        | _ => none
      | _ => none
    | _ => none

/-- `nondef_stmt+ "END"`; `first` = no entry read yet (the scanner then knows `-` only) -/
def pNonDefs (N : Nat) : Nat → Bool → List Char → Option (List (Txt × List NdOpt) × List Char)
  | 0, _, _ => none
  | n + 1, first, cs =>
    match nextD (if first then one .Minus else sEndMinus) cs with
    | some (.tok (.lit .End) _, r) => some ([], r)
    | some (.tok (.lit .Minus) _, r) =>
      match expect sId .id r with
      | some (name, r) =>
        match pNdOpts N r with
        | some (os, r) => (pNonDefs N n false r).map fun (ds, r) => ((name, os) :: ds, r)
        | none => none
      | none => none
    | _ => none

def pPropDefs : Nat → List Char → Option (List (Txt × Txt) × List Char)
  | 0, _ => none
  | n + 1, cs =>
    match nextD sPropdef cs with
    | some (.tok (.lit .End) _, r) => some ([], r)
    | some (.tok (.lit .Componentpin) _, r) =>
      match pSeq [(sId, .id), (sId, .id), (sSemi, .lit .Semi)] r with
      | some ([a, b, _], r) => (pPropDefs n r).map fun (ps, r) => ((a, b) :: ps, r)
      | _ => none
    | _ => none

/-- `point* ";"` of DIEAREA after the first point -/
def pMorePoints : Nat → List Char → Option (List TPoint × List Char)
  | 0, _ => none
  | n + 1, cs =>
    match nextD sAfterPt cs with
    | some (.tok (.lit .Semi) _, r) => some ([], r)
    | some (.tok (.lit .Lpar) _, r) =>
      match pPoint r with
      | some (p, r) => (pMorePoints n r).map fun (ps, r) => (p :: ps, r)
      | none => none
    | _ => none

/-- `NUMBER ";"` after a section keyword -/
def pCount (cs : List Char) : Option (Txt × List Char) :=
  match pSeq [(sNum, .number), (sSemi, .lit .Semi)] cs with
  | some ([n, _], r) => some (n, r)
  | _ => none

/-- `design_stmt* "END"` -/
def pDesign (N : Nat) : Nat → List Char → Option (List DStmt × List Char)
  | 0, _ => none
  | n + 1, cs =>
    let continue_ (s : DStmt) (r : List Char) : Option (List DStmt × List Char) :=
      (pDesign N n r).map fun (ss, r) => (s :: ss, r)
    /- `count ";" items "END" NAME` -/
    let section_ {α : Type} (k : Kw) (items : List Char → Option (List α × List Char)) (mk : Txt → List α → DStmt)
        (r : List Char) : Option (List DStmt × List Char) :=
      match pCount r with
      | some (c, r) =>
        match items r with
        | some (its, r) =>
          match expect (one k) (.lit k) r with
          | some (_, r) => continue_ (mk c its) r
          | none => none
        | none => none
      | none => none
    match nextD sDesign cs with
    | some (.tok (.lit .End) _, r) => some ([], r)
    | some (.tok (.lit .Units) _, r) =>
      match pSeq [(sId, .id), (sId, .id), (sNum, .number), (sSemi, .lit .Semi)] r with
      | some ([a, b, u, _], r) => continue_ (.units a b u) r
      | _ => none
    | some (.tok (.lit .Diearea) _, r) =>
      match pLparPoint r with
      | some (p, r) =>
        match pMorePoints N r with
        | some (ps, r) => continue_ (.diearea (p :: ps)) r
        | none => none
      | none => none
    | some (.tok (.lit .Row) _, r) =>
      match pSeq [(sId, .id), (sId, .id), (sNum, .number), (sNum, .number), (sId, .id), (one .Do, .lit .Do)] r with
      | some ([name, site, x, y, o, _], r) =>
        match pDoStep r with
        | some (d, r) =>
          match expect sAfterPt (.lit .Semi) r with
          | some (_, r) => continue_ (.row name site x y o d) r
          | none => none
        | none => none
      | _ => none
    | some (.tok (.lit .Tracks) _, r) =>
      match pSeq [(sXY, .xy), (sNum, .number), (one .Do, .lit .Do), (sNum, .number), (one .Step, .lit .Step), (sNum, .number),
                  (one .Layer, .lit .Layer), (sId, .id), (sSemi, .lit .Semi)] r with
      | some ([d, s, _, c, _, st, _, l, _], r) => continue_ (.tracks d s c st l) r
      | _ => none
    | some (.tok (.lit .Propertydefinitions) _, r) =>
      match pPropDefs N r with
      | some (ps, r) =>
        match expect (one .Propertydefinitions) (.lit .Propertydefinitions) r with
        | some (_, r) => continue_ (.propdef ps) r
        | none => none
      | none => none
    | some (.tok (.lit .Vias) _, r) => section_ .Vias (pVias N N) .vias r
    | some (.tok (.lit .Nondefaultrules) _, r) => section_ .Nondefaultrules (pNonDefs N N true) .nondef r
    | some (.tok (.lit .Components) _, r) => section_ .Components (pComps N) .comps r
    | some (.tok (.lit .Pins) _, r) => section_ .Pins (pPins N N) .pins r
    | some (.tok (.lit .Pinproperties) _, r) => section_ .Pinproperties (pPinProps N) .pinprop r
    | some (.tok (.lit .Specialnets) _, r) => section_ .Specialnets (pNets true N N) .spnets r
    | some (.tok (.lit .Nets) _, r) => section_ .Nets (pNets false N N) .nets r
    | _ => none

/-- `file_stmt*` up to the end of the text -/
def pFile (N : Nat) : Nat → St → List Char → Option (List FStmt × List Char)
  | 0, _, _ => none
  | n + 1, st, cs =>
    let continue_ (s : FStmt) (r : List Char) : Option (List FStmt × List Char) :=
      (pFile N n sFile r).map fun (ss, r) => (s :: ss, r)
    match nextD st cs with
    | some (.eof, r) => some ([], r)
    | some (.tok (.lit .Version) _, r) =>
      match pSeq [(sId, .id), (sSemi, .lit .Semi)] r with
      | some ([v, _], r) => continue_ (.version v) r
      | _ => none
    | some (.tok (.lit .Dividerchar) _, r) =>
      match pSeq [(sString, .string), (sSemi, .lit .Semi)] r with
      | some ([v, _], r) => continue_ (.dividerchar v) r
      | _ => none
    | some (.tok (.lit .Busbitchars) _, r) =>
      match pSeq [(sString, .string), (sSemi, .lit .Semi)] r with
      | some ([v, _], r) => continue_ (.busbitchars v) r
      | _ => none
    | some (.tok (.lit .Design) _, r) =>
      match pSeq [(sId, .id), (sSemi, .lit .Semi)] r with
      | some ([name, _], r) =>
        match pDesign N N r with
        | some (ss, r) =>
          match expect (one .Design) (.lit .Design) r with
          | some (_, r) => continue_ (.design name ss) r
          | none => none
        | none => none
      | _ => none
    | _ => none

/-- the lark parse (no transformer) -/
def parseTree (cs : List Char) : Option DefFile :=
  let N := cs.length + 1
  match nextD sStart cs with
  | some (.tok .headComment h, r) => (pFile N N sFile r).map fun (ss, _) => ⟨some h, ss⟩
  | _ => (pFile N N sStart cs).map fun (ss, _) => ⟨none, ss⟩

/-! ## what the transformer can raise on: `int()` of a NUMBER / SIGNED_NUMBER token -/
/-- `int(s)` succeeds for a NUMBER token: digits only (no `.`, no exponent) -/
def intOK (s : Txt) : Bool := !s.isEmpty && s.all isDigit
/-- … for a SIGNED_NUMBER token -/
def sintOK (s : Txt) : Bool :=
  match s with
  | c :: r => if c = '+' || c = '-' then intOK r else intOK s
  | [] => false

def coordOK : Option Txt → Bool
  | some v => intOK v
  | none => true
def TPoint.ok (p : TPoint) : Bool := coordOK p.x && coordOK p.y && coordOK p.ext
def TDoStep.ok (d : TDoStep) : Bool := intOK d.nx && intOK d.ny && sintOK d.dx && sintOK d.dy
def TItem.ok : TItem → Bool
  | .pt p => p.ok
  | .via _ _ => true
  | .arr _ d => d.ok
def TWire.ok (w : TWire) : Bool := w.start.ok && w.rest.all TItem.ok
def NetPart.ok : NetPart → Bool
  | .wiring _ ws => ws.all TWire.ok
  | _ => true
def TNet.ok (n : TNet) : Bool := n.parts.all NetPart.ok
def TViaOpt.ok (o : TViaOpt) : Bool :=
  if o.k = .Viarule || o.k = .Pattern || o.k = .Layers then true else o.args.all intOK
def PinOpt.ok : PinOpt → Bool
  | .layer _ p q => p.ok && q.ok
  | .placed p _ => p.ok
  | _ => true
def DStmt.ok : DStmt → Bool
  | .units _ _ n => intOK n
  | .diearea ps => ps.all TPoint.ok
  | .row _ _ x y _ d => intOK x && intOK y && d.ok
  | .tracks _ s n st _ => intOK s && intOK n && intOK st
  | .vias _ vs => vs.all fun v => v.opts.all TViaOpt.ok
  | .comps _ cs => cs.all fun c => c.at_.ok
  | .pins _ ps => ps.all fun p => p.opts.all PinOpt.ok
  | .spnets _ ns => ns.all TNet.ok
  | .nets _ ns => ns.all TNet.ok
  | _ => true
def FStmt.ok : FStmt → Bool
  | .design _ ss => ss.all DStmt.ok
  | _ => true
def DefFile.ok (f : DefFile) : Bool := f.stmts.all FStmt.ok

/-- `def_file.parse(text)` returns -/
def parseDefL (cs : List Char) : Option DefFile :=
  match parseTree cs with
  | some f => if f.ok then some f else none
  | none => none

def parseDef (s : String) : Option DefFile := parseDefL s.toList

/-! ## hand-over to the routing model `KV.Def` (Model/Def.lean): the `DefWire` records of a net's wiring statements -/
def natOf (t : Txt) : Nat := t.foldl (fun acc c => 10 * acc + (c.toNat - '0'.toNat)) 0
/-- `int()` of a NUMBER / SIGNED_NUMBER token -/
def intOf (t : Txt) : Int :=
  match t with
  | c :: r => if c = '-' then -(natOf r : Int) else if c = '+' then (natOf r : Int) else (natOf t : Int)
  | [] => 0

def TPoint.toR (p : TPoint) : KV.Def.RPt := ⟨p.x.map intOf, p.y.map intOf, p.ext.map intOf⟩

/-- `sppoints_via`: `(name, None)` / `(name, do_step)`; `points_via`: `(name, 'N')` / `(name, orientation)` -/
def TItem.toItem (sp : Bool) : TItem → KV.Def.Item
  | .pt p => .pt p.toR
  | .via v o => .via (String.ofList v) (if sp then none else some (String.ofList (o.getD ['N'])))
  | .arr v d => .arr (String.ofList v) (natOf d.nx) (natOf d.ny) (intOf d.dx) (intOf d.dy)

/-- the `DefWire` record handed to the routing model, as `DefTransformer.spwire` / `.wire` build it: the width is the raw
token (special net) or absent (regular net) — NOT converted. `int(dw.width)` is evaluated by `DefNet.wires` only, and only for
listed wires (`KV.Def.netWiresR`); `DefNet.vias` never reads it (`KV.Def.netViasR`). -/
def TWire.toWire (sp : Bool) (w : TWire) : KV.Def.DWire :=
  ⟨String.ofList w.layer, w.width.map String.ofList, w.start.toR, w.rest.map (TItem.toItem sp)⟩

/-- the wires of ALL wiring statements of a net (`+ COVER | FIXED | ROUTED | NOSHIELD`) in file order: what the repaired
`spnets_stmt` / `nets_stmt` (D35: `dnet.routed.extend(...)`) collect in `dnet.routed` -/
def TNet.wiresT (n : TNet) : List TWire := n.parts.flatMap fun | .wiring _ ws => ws | _ => []

def allSome {α : Type} : List (Option α) → Option (List α)
  | [] => some []
  | none :: _ => none
  | some a :: r => (allSome r).map (a :: ·)

/-- `dnet.routed` as `DefWire` records of the routing model (total: the transformer converts nothing of a wire but the
point coordinates and `DO` values, which `DefFile.ok` guards) -/
def TNet.routed (sp : Bool) (n : TNet) : List KV.Def.DWire := n.wiresT.map (TWire.toWire sp)

/-- the reading of the tree BEFORE repair D35: `setattr(dnet, 'routed', wires)` — the wires of the LAST `+ ROUTED`
statement only; earlier `+ ROUTED` statements and all `+ FIXED` / `+ COVER` / `+ NOSHIELD` wiring are not listed.
Used by the demonstration theorem `C20.wiring_last_only_loses` only. -/
def TNet.wiresTOld (n : TNet) : List TWire :=
  ((n.parts.filterMap fun | .wiring .Routed ws => some ws | _ => none).getLast?).getD []

/-- all nets of the file in file order: (special?, name, wires of all wiring statements) -/
def DefFile.netsRouted (f : DefFile) : List (Bool × Txt × List KV.Def.DWire) :=
  f.stmts.flatMap fun
    | .design _ ss => ss.flatMap fun
      | .spnets _ ns => ns.map fun n => (true, n.name, n.routed true)
      | .nets _ ns => ns.map fun n => (false, n.name, n.routed false)
      | _ => []
    | _ => []

/-! ## canonical printer: the token list of a tree, every token preceded by one blank -/
abbrev K (k : Kw) : Txt := k.chars
def enc (ts : List Txt) : List Char := ts.flatMap fun t => ' ' :: t

def star : Txt := ['*']
def TPoint.body (p : TPoint) : List Txt :=
  p.x.getD star :: p.y.getD star :: ((match p.ext with | some e => [e] | none => []) ++ [K .Rpar])
def TPoint.toks (p : TPoint) : List Txt := K .Lpar :: p.body
def TDoStep.body (d : TDoStep) : List Txt := [d.nx, K .By, d.ny, K .Step, d.dx, d.dy]
def TItem.toks : TItem → List Txt
  | .pt p => p.toks
  | .via v none => [v]
  | .via v (some o) => [v, o]
  | .arr v d => v :: K .Do :: d.body
def Taper.toks : Taper → List Txt
  | .none => []
  | .taper => [K .Taper]
  | .rule r => [K .Taperrule, r]
def styleToks : Option Txt → List Txt
  | some s => [K .Style, s]
  | none => []
def spoptToks (o : Bool × Txt) : List Txt := [K .Plus, K (if o.1 then .Shape else .Style), o.2]
/-- a wire without the token that ends it -/
def TWire.toks (sp : Bool) (w : TWire) : List Txt :=
  if sp then w.layer :: w.width.getD [] :: (w.spopts.flatMap spoptToks ++ (w.start.toks ++ w.rest.flatMap TItem.toks))
  else w.layer :: (w.taper.toks ++ (styleToks w.style ++ (w.start.toks ++ w.rest.flatMap TItem.toks)))
def wiresToks (sp : Bool) : List TWire → List Txt
  | [] => []
  | [w] => w.toks sp
  | w :: ws => w.toks sp ++ K .New :: wiresToks sp ws
def NetPart.toks (sp : Bool) : NetPart → List Txt
  | .pin a b => [K .Lpar, a, b, K .Rpar]
  | .opt k v => [K .Plus, K k, v]
  | .wiring k ws => K .Plus :: K k :: wiresToks sp ws
def TNet.toks (sp : Bool) (n : TNet) : List Txt := K .Minus :: n.name :: (n.parts.flatMap (NetPart.toks sp) ++ [K .Semi])
def TViaOpt.toks (o : TViaOpt) : List Txt := K .Plus :: K o.k :: o.args
def TVia.toks (v : TVia) : List Txt := K .Minus :: v.name :: (v.opts.flatMap TViaOpt.toks ++ [K .Semi])
def TComp.toks (c : TComp) : List Txt :=
  K .Minus :: c.name :: c.kind :: K .Plus :: K .Placed :: (c.at_.toks ++ [c.orient, K .Semi])
def PinOpt.toks : PinOpt → List Txt
  | .word k v => [K .Plus, K k, v]
  | .flag k => [K .Plus, K k]
  | .layer l p q => K .Plus :: K .Layer :: l :: (p.toks ++ q.toks)
  | .placed p o => K .Plus :: K .Placed :: (p.toks ++ [o])
def TPin.toks (p : TPin) : List Txt := K .Minus :: p.name :: (p.opts.flatMap PinOpt.toks ++ [K .Semi])
def NdOpt.toks : NdOpt → List Txt
  | .hard => [K .Plus, K .Hardspacing]
  | .layer l w s => [K .Plus, K .Layer, l, K .Width, w, K .Spacing, s]
  | .via v => [K .Plus, K .Via, v]
def propdefToks (p : Txt × Txt) : List Txt := [K .Componentpin, p.1, p.2, K .Semi]
def nondefToks (d : Txt × List NdOpt) : List Txt := K .Minus :: d.1 :: (d.2.flatMap NdOpt.toks ++ [K .Semi])
def pinpropToks (p : Txt × Txt × Txt) : List Txt := [K .Minus, K .Pin, p.1, K .Plus, K .Property, p.2.1, p.2.2, K .Semi]
def sectToks (k : Kw) (n : Txt) (items : List Txt) : List Txt := K k :: n :: K .Semi :: (items ++ [K .End, K k])
def DStmt.toks : DStmt → List Txt
  | .units a b n => [K .Units, a, b, n, K .Semi]
  | .diearea ps => K .Diearea :: (ps.flatMap TPoint.toks ++ [K .Semi])
  | .row a b x y o d => K .Row :: a :: b :: x :: y :: o :: K .Do :: (d.body ++ [K .Semi])
  | .tracks d s n st l => [K .Tracks, d, s, K .Do, n, K .Step, st, K .Layer, l, K .Semi]
  | .propdef ps => K .Propertydefinitions :: (ps.flatMap propdefToks ++ [K .End, K .Propertydefinitions])
  | .vias n vs => sectToks .Vias n (vs.flatMap TVia.toks)
  | .nondef n ds => sectToks .Nondefaultrules n (ds.flatMap nondefToks)
  | .comps n cs => sectToks .Components n (cs.flatMap TComp.toks)
  | .pins n ps => sectToks .Pins n (ps.flatMap TPin.toks)
  | .pinprop n ps => sectToks .Pinproperties n (ps.flatMap pinpropToks)
  | .spnets n ns => sectToks .Specialnets n (ns.flatMap (TNet.toks true))
  | .nets n ns => sectToks .Nets n (ns.flatMap (TNet.toks false))
def FStmt.toks : FStmt → List Txt
  | .version v => [K .Version, v, K .Semi]
  | .dividerchar v => [K .Dividerchar, v, K .Semi]
  | .busbitchars v => [K .Busbitchars, v, K .Semi]
  | .design n ss => K .Design :: n :: K .Semi :: (ss.flatMap DStmt.toks ++ [K .End, K .Design])

/-- head comment on its own line, then every token preceded by a blank, then a line end -/
def printDefL (f : DefFile) : List Char :=
  (match f.head with | some h => h ++ ['\n'] | none => []) ++ (enc (f.stmts.flatMap FStmt.toks) ++ ['\n'])

def printDef (f : DefFile) : String := String.ofList (printDefL f)

/-! ## which trees the printer can show (hypothesis of the round-trip theorem) -/
/-- an `ID` token: no white space, not starting with `+` (not an ID) or `#` (a comment after the blank) -/
def vId (t : Txt) : Bool :=
  match t with
  | [] => false
  | c :: _ => c ≠ '+' && c ≠ '#' && t.all notWs
/-- an `ID` where `(`, `NEW`, `;` are folded into it (after a point): the whole text must differ from them -/
def vIdPt (t : Txt) : Bool := vId t && t ≠ K .Lpar && t ≠ K .New && t ≠ K .Semi
def isOrient (t : Txt) : Bool :=
  match t with
  | [c] => isNWES c
  | [f, c] => f = 'F' && isNWES c
  | _ => false
/-- a via name: additionally neither `DO` nor of the form of an orientation -/
def vVia (t : Txt) : Bool := vIdPt t && t ≠ K .Do && !isOrient t
/-- a NUMBER token that `int()` accepts -/
def vNum (t : Txt) : Bool := intOK t
def vSNum (t : Txt) : Bool := sintOK t
/-- a STRING token without `"` or `\` inside -/
def vStr (t : Txt) : Bool :=
  match t with
  | c :: r => c = '"' && r.getLast? = some '"' && r.dropLast.all fun x => x ≠ '"' && x ≠ '\\'
  | [] => false
def vXY (t : Txt) : Bool := t = ['X'] || t = ['Y']
def vHead (t : Txt) : Bool :=
  match t with
  | c :: r => c = '#' && r.all notNl
  | [] => false

def vCoord (c : Option Txt) : Bool := coordOK c
def TPoint.valid (p : TPoint) : Bool := vCoord p.x && vCoord p.y && vCoord p.ext
def TDoStep.valid (d : TDoStep) : Bool := vNum d.nx && vNum d.ny && vSNum d.dx && vSNum d.dy
def TItem.valid (sp : Bool) : TItem → Bool
  | .pt p => p.valid
  | .via v none => vVia v
  | .via v (some o) => !sp && vVia v && isOrient o
  | .arr v d => sp && vVia v && d.valid
def TWire.valid (sp : Bool) (w : TWire) : Bool :=
  vId w.layer && w.start.valid && !w.rest.isEmpty && w.rest.all (TItem.valid sp) &&
  (if sp then (match w.width with | some x => vNum x | none => false) && w.spopts.all (fun o => vId o.2)
      && w.taper = .none && w.style = none
   else w.width = none && w.spopts.isEmpty && (match w.taper with | .rule r => vId r | _ => true)
      && (match w.style with | some x => vId x | none => true))
def NetPart.valid (sp : Bool) : NetPart → Bool
  | .pin a b => vId a && vId b
  | .opt k v => (k = .Use || k = .Nondefaultrule) && vId v
  | .wiring k ws => (k = .Cover || k = .Fixed || k = .Routed || (!sp && k = .Noshield)) && !ws.isEmpty && ws.all (TWire.valid sp)
/-- a `(` after routing points is read as a point: no pin directly after a wiring part -/
def pinAfterWiring : List NetPart → Bool
  | .wiring _ _ :: .pin _ _ :: _ => true
  | _ :: r => pinAfterWiring r
  | [] => false
def TNet.valid (sp : Bool) (n : TNet) : Bool := vId n.name && n.parts.all (NetPart.valid sp) && !pinAfterWiring n.parts
def TViaOpt.valid (o : TViaOpt) : Bool :=
  match o.k with
  | .Viarule | .Pattern => o.args.length = 1 && o.args.all vId
  | .Layers => o.args.length = 3 && o.args.all vId
  | .Enclosure => o.args.length = 4 && o.args.all vNum
  | .Cutsize | .Cutspacing | .Rowcol => o.args.length = 2 && o.args.all vNum
  | _ => false
def TVia.valid (v : TVia) : Bool := vId v.name && v.opts.all TViaOpt.valid
def TComp.valid (c : TComp) : Bool := vId c.name && vId c.kind && c.at_.valid && vIdPt c.orient
def PinOpt.valid : PinOpt → Bool
  | .word k v => (k = .Net || k = .Direction || k = .Use) && vId v
  | .flag k => k = .Special || k = .Port
  | .layer l p q => vId l && p.valid && q.valid
  | .placed p o => p.valid && vIdPt o
def TPin.valid (p : TPin) : Bool := vId p.name && p.opts.all PinOpt.valid
def NdOpt.valid : NdOpt → Bool
  | .hard => true
  | .layer l w s => vId l && vNum w && vNum s
  | .via v => vId v
def DStmt.valid : DStmt → Bool
  | .units a b n => vId a && vId b && vNum n
  | .diearea ps => !ps.isEmpty && ps.all TPoint.valid
  | .row a b x y o d => vId a && vId b && vNum x && vNum y && vId o && d.valid
  | .tracks d s n st l => vXY d && vNum s && vNum n && vNum st && vId l
  | .propdef ps => ps.all fun p => vId p.1 && vId p.2
  | .vias n vs => vNum n && vs.all TVia.valid
  | .nondef n ds => vNum n && !ds.isEmpty && ds.all fun d => vId d.1 && d.2.all NdOpt.valid
  | .comps n cs => vNum n && cs.all TComp.valid
  | .pins n ps => vNum n && ps.all TPin.valid
  | .pinprop n ps => vNum n && ps.all fun p => vId p.1 && vId p.2.1 && vStr p.2.2
  | .spnets n ns => vNum n && ns.all (TNet.valid true)
  | .nets n ns => vNum n && ns.all (TNet.valid false)
def FStmt.valid : FStmt → Bool
  | .version v => vId v
  | .dividerchar v => vStr v
  | .busbitchars v => vStr v
  | .design n ss => vId n && ss.all DStmt.valid
def DefFile.valid (f : DefFile) : Bool := (match f.head with | some h => vHead h | none => true) && f.stmts.all FStmt.valid

end KV.DefText
