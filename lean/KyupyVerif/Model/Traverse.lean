import KyupyVerif.Model.Kahn
/-! Models of the remaining graph traversals of `kyupy/circuit.py` on top of `KV.Kahn.G`
(`succs`/`preds` = readers/drivers of the *connected* pins in pin order, `seq` = dff/latch):

* `levels`      — `topological_order_with_level`
* `lineOrder`   — `topological_line_order` (`outLines v` = indices of the connected out-lines of `v` in pin order)
* `revKahn`     — `reversed_topological_order`, written out literally (own deque loop, own counters)
* `fanin`       — `fanin(origin_nodes)`; `late = false` is the code as it is (one pass over the reversed order),
                  `late = true` the repaired code (state elements that were visited before their readers were
                  marked are re-examined after the pass)
* `GA`          — a graph given by arrays (what the driver parses) with the decidable well-formedness check `wfB`.

Only core Lean is imported. -/
namespace KV.Trav
open KV.Kahn

/-! ### topological_order_with_level -/

/-- `numpy.max` of a non-empty array (`-1` for the empty one, which the code never forms) -/
def lmax : List Int → Int
  | [] => -1
  | x :: xs => xs.foldl max x

/-- the body of the loop: `0` for nodes without connected input and for state elements,
otherwise `level[[drivers of connected pins]].max() + 1` -/
def levelOf (g : G) (lvl : Nat → Int) (v : Nat) : Int :=
  if g.isSrc v then 0 else lmax ((g.preds v).map lvl) + 1

def setAt {α} (f : Nat → α) (v : Nat) (x : α) : Nat → α := fun j => if j = v then x else f j

def levelsLoop (g : G) : List Nat → (Nat → Int) → List (Nat × Int)
  | [], _ => []
  | v :: vs, lvl =>
    let l := levelOf g lvl v
    (v, l) :: levelsLoop g vs (setAt lvl v l)

/-- `level = np.zeros(n) - 1`, then one pass over `topological_order()` -/
def levels (g : G) : List (Nat × Int) := levelsLoop g (kahn g) (fun _ => -1)

/-! ### topological_line_order -/
def lineOrder (g : G) (outLines : Nat → List Nat) : List Nat := (kahn g).flatMap outLines

/-! ### reversed_topological_order (literal) -/
def _root_.KV.Kahn.G.outdeg (g : G) (v : Nat) : Nat := (g.succs v).length
/-- `n_outs[n] == 0 or 'dff' in kind or 'latch' in kind` -/
def _root_.KV.Kahn.G.isSink (g : G) (v : Nat) : Bool := g.outdeg v == 0 || g.seq v

/-- the inner `for line in n.ins` loop -/
def processPreds (g : G) : List Nat → (Nat → Nat) × List Nat → (Nat → Nat) × List Nat
  | [], st => st
  | p :: ps, (cnt, q) =>
    let cnt' := bump cnt p
    let q' := if cnt' p == g.outdeg p && !g.seq p then q ++ [p] else q
    processPreds g ps (cnt', q')

def rstep (g : G) (s : KS) : Option KS :=
  match s.queue with
  | [] => none
  | v :: q =>
    let (cnt', q') := processPreds g (g.preds v) (s.cnt, q)
    some { queue := q', cnt := cnt', out := s.out ++ [v] }

def rloop (g : G) : Nat → KS → KS
  | 0, s => s
  | fuel + 1, s => match rstep g s with
    | none => s
    | some s' => rloop g fuel s'

def rinit (g : G) : KS :=
  { queue := (List.range g.n).filter g.isSink, cnt := fun _ => 0, out := [] }

def revKahn (g : G) : List Nat := (rloop g (g.n + 1) (rinit g)).out

/-- the graph with every line turned around -/
def _root_.KV.Kahn.G.transpose (g : G) : G := { n := g.n, succs := g.preds, preds := g.succs, seq := g.seq }

/-! ### fanin -/

/-- one visit: `if not marks[n]: for line in n.outs: marks[n] |= marks[line.reader]` -/
def markOf (g : G) (m : Nat → Bool) (v : Nat) : Bool := m v || (g.succs v).any m

/-- marks after the pass -/
def faninMarks (g : G) : List Nat → (Nat → Bool) → (Nat → Bool)
  | [], m => m
  | v :: vs, m => faninMarks g vs (setAt m v (markOf g m v))

/-- nodes yielded during the pass (`if marks[n]: yield n`) -/
def faninYield (g : G) : List Nat → (Nat → Bool) → List Nat
  | [], _ => []
  | v :: vs, m =>
    let mv := markOf g m v
    if mv then v :: faninYield g vs (setAt m v mv) else faninYield g vs (setAt m v mv)

/-- nodes visited unmarked (repaired code only: `else: late.append(n)`) -/
def faninLate (g : G) : List Nat → (Nat → Bool) → List Nat
  | [], _ => []
  | v :: vs, m =>
    let mv := markOf g m v
    if mv then faninLate g vs (setAt m v mv) else v :: faninLate g vs (setAt m v mv)

def originMarks (origins : List Nat) : Nat → Bool := fun j => origins.contains j

/-- `Circuit.fanin(origins)`. `late = false`: the single pass of the code as it is.
`late = true`: afterwards every node that was visited unmarked is yielded if one of its readers is marked now. -/
def fanin (late : Bool) (g : G) (origins : List Nat) : List Nat :=
  let ord := revKahn g
  let m0 := originMarks origins
  faninYield g ord m0 ++
    (if late then (faninLate g ord m0).filter (fun v => (g.succs v).any (faninMarks g ord m0)) else [])

/-! ### graphs given by arrays, decidable well-formedness -/
structure GA where
  succs : Array (List Nat)
  preds : Array (List Nat)
  seq : Array Bool

def GA.n (a : GA) : Nat := a.succs.size
def GA.toG (a : GA) : G :=
  { n := a.n, succs := fun v => a.succs.getD v [], preds := fun v => a.preds.getD v [], seq := fun v => a.seq.getD v false }

/-- every connected line is seen from both ends (`count r (succs v) = count v (preds r)`), all entries are node
indices, the three arrays have the same length -/
def GA.wfB (a : GA) : Bool :=
  a.preds.size == a.n && a.seq.size == a.n &&
  (List.range a.n).all (fun v =>
    (a.succs.getD v []).all (· < a.n) && (a.preds.getD v []).all (· < a.n) &&
    (List.range a.n).all (fun r => (a.succs.getD v []).count r == (a.preds.getD r []).count v))

/-- a candidate rank function for the graph cut at state elements (forward cut: edges into non-source nodes) -/
def GA.rankOKB (a : GA) (rank : Nat → Nat) : Bool :=
  (List.range a.n).all fun r => a.toG.isSrc r || (a.preds.getD r []).all fun v => rank v < rank r

/-- same for the reversed traversal (edges out of non-sink nodes) -/
def GA.rrankOKB (a : GA) (rank : Nat → Nat) : Bool :=
  (List.range a.n).all fun v => a.toG.isSink v || (a.succs.getD v []).all fun r => rank r < rank v

/-- line table: `outLines v` for `v < n` together list every line `0..m-1` exactly once -/
def lineTableB (n m : Nat) (outLines : Nat → List Nat) : Bool :=
  let all := (List.range n).flatMap outLines
  (List.range m).all (fun l => all.contains l) && all.all (· < m) && decide all.Nodup

/-! ### specification-level notions (used by the property statements, not by the models) -/

/-- `SrcPath g v k`: in the graph cut at state elements there is a path of `k` lines from a source
(a node without connected input, or a state element) to `v`. A path never continues *through* a source. -/
inductive SrcPath (g : G) : Nat → Nat → Prop
  | src (v : Nat) : g.isSrc v = true → SrcPath g v 0
  | step (v r k : Nat) : g.isSrc r = false → v ∈ g.preds r → SrcPath g v k → SrcPath g r (k + 1)

/-- `CombReach g O v`: there is a combinational path from `v` to a node of `O`: a sequence of lines
`v → … → o ∈ O` none of whose *inner* nodes is a state element (`v` itself may be one — it then acts as a
source —, and so may `o`, reached at its data pin). -/
inductive CombReach (g : G) (O : List Nat) : Nat → Prop
  | orig (v : Nat) : v ∈ O → CombReach g O v
  | step (v r : Nat) : r ∈ g.succs v → (g.seq r = false ∨ r ∈ O) → CombReach g O r → CombReach g O v

/-- `AnyReach g O v`: there is some path (possibly through state elements) from `v` to a node of `O` -/
inductive AnyReach (g : G) (O : List Nat) : Nat → Prop
  | orig (v : Nat) : v ∈ O → AnyReach g O v
  | step (v r : Nat) : r ∈ g.succs v → AnyReach g O r → AnyReach g O v

end KV.Trav

