/-! # Logic-value encodings (logic.py: interpret, mvarray, mv_str, mv_to_bp, bp_to_mv, unpackbits, packbits,
bit_in; __init__.py: popcount, cdiv) as executable functions on lists with explicit shapes.

An n-dimensional array (n ≥ 1) is `Arr`: `lead` = all axes but the last, `last` = length of the last axis,
`rows` = the `lead.prod` last-axis vectors in C order.  Every function modelled here acts on the last one or
two axes only; all other axes are batch axes, which is exactly what "in C order" expresses.  `Flat` (shape +
flat data) is used where a 0-dimensional array can occur (argument of `unpackbits`, result of `packbits`).

Tables (`interpret` on characters, the render string of `mv_str`, `_pop_count_lut`, `_bit_in_lut`) are
parameters: the property theorems and the driver instantiate them with the GENERATED tables (`Gen/`).
Where the real code raises, the model returns `none`.  Character strings are lists of code points. -/
namespace KV.Enc

/-! ## bits -/

/-- `kyupy.cdiv(x, y) = -(x // -y)` on naturals, `y > 0` -/
def cdiv (x y : Nat) : Nat := (x + y - 1) / y

/-- the `w` low bits of `n`, least significant first -/
def bitsLE : Nat → Nat → List Bool
  | 0, _ => []
  | w+1, n => (n % 2 == 1) :: bitsLE w (n / 2)

/-- value of a little-endian bit list -/
def ofBitsLE : List Bool → Nat
  | [] => 0
  | b :: bs => b.toNat + 2 * ofBitsLE bs

/-- `np.packbits(bits, bitorder='little')` giving `n` bytes (the last byte is zero-padded) -/
def packBytes : Nat → List Bool → List Nat
  | 0, _ => []
  | n+1, bs => ofBitsLE (bs.take 8) :: packBytes n (bs.drop 8)

/-- `np.unpackbits(bytes, bitorder='little')` along the byte axis -/
def unpackBytes (bytes : List Nat) : List Bool := bytes.flatMap (bitsLE 8)

/-- `k` consecutive chunks of length `n` -/
def chunks {α} (n : Nat) : Nat → List α → List (List α)
  | 0, _ => []
  | k+1, l => l.take n :: chunks n k (l.drop n)

/-! ## arrays -/

structure Arr (α : Type) where
  lead : List Nat
  last : Nat
  rows : List (List α)
deriving DecidableEq, Repr

structure Flat (α : Type) where
  shape : List Nat
  data : List α
deriving DecidableEq, Repr

namespace Arr
def shape {α} (a : Arr α) : List Nat := a.lead ++ [a.last]
def data {α} (a : Arr α) : List α := a.rows.flatten
/-- well-formed: `lead.prod` rows, each of length `last` -/
def wf {α} (a : Arr α) : Bool := a.rows.length == a.lead.prod && a.rows.all (·.length == a.last)
def toFlat {α} (a : Arr α) : Flat α := ⟨a.shape, a.data⟩
end Arr

/-- shape + C-order data → `Arr` (`none` for a 0-dimensional array) -/
def Flat.toArr {α} (f : Flat α) : Option (Arr α) :=
  match f.shape.getLast? with
  | none => none
  | some n => some { lead := f.shape.dropLast, last := n, rows := chunks n f.shape.dropLast.prod f.data }

/-! ## interpret / mvarray / mv_str  (logic.py:83-120) -/

/-- `interpret(ch)` for a one-character string: table look-up, "any other value" is UNKNOWN = 1 -/
def interpretWith (tbl : List (Nat × Nat)) (c : Nat) : Nat := (tbl.lookup c).getD 1

/-- `mvarray(*ss)` for pattern strings `ss` (one string per pattern, one character per signal).
`interpret` gives the nested list `[pat][sig]`; `np.array` raises on ragged input; a one-character string is a
scalar for `interpret`, so `S = 1` yields a 1-D array; `ndim < 2` is returned as is; more than one pattern:
`swapaxes(-1,-2)` (signals second-to-last, patterns last); exactly one pattern: `mva[..., 0, :]` (1-D, signals). -/
def mvarray (tbl : List (Nat × Nat)) (ss : List (List Nat)) : Option (Arr Nat) :=
  match ss with
  | [] => some ⟨[], 0, [[]]⟩
  | s0 :: _ =>
    let S := s0.length
    if ss.any (·.length != S) then none
    else
      let m := ss.map (·.map (interpretWith tbl))
      if S == 1 then some ⟨[], ss.length, [m.map (·.headD 0)]⟩
      else if ss.length > 1 then some ⟨[S], ss.length, (List.range S).map fun j => m.map (·.getD j 0)⟩
      else some ⟨[], S, [m.headD []]⟩

/-! ### nested arguments (audit 2, finding 9): `mvarray(['01','1X'], ['--','HL'])` — lists of (lists of …) strings

`interpret` maps a nested iterable to a nested list; `np.array(…, dtype=uint8)` needs a homogeneous nesting (else ValueError);
then the three lines of `mvarray`: fewer than two axes: as is; second-to-last axis longer than 1: `swapaxes(-1, -2)`; else
`mva[..., 0, :]`.  So every axis in front of the last two is a batch axis and each `(patterns × signals)` block is arranged as
the flat call arranges it: signals second-to-last, patterns last. -/

/-- `np.array([c0, c1, …])` of already-converted children: homogeneous shapes, else `none` (ValueError) -/
def stack (cs : List (Option (Flat Nat))) : Option (Flat Nat) :=
  match cs with
  | [] => some ⟨[0], []⟩
  | none :: _ => none
  | some f0 :: _ =>
    if cs.all (fun c => c.map (·.shape) == some f0.shape) then
      some ⟨cs.length :: f0.shape, cs.flatMap fun c => (c.map (·.data)).getD []⟩
    else none

/-- `interpret(s)` of one string: a one-character string is a scalar, anything else the list of its characters -/
def interpStr (tbl : List (Nat × Nat)) (s : List Nat) : Flat Nat :=
  match s with
  | [c] => ⟨[], [interpretWith tbl c]⟩
  | _ => ⟨[s.length], s.map (interpretWith tbl)⟩

/-- `np.array(interpret(x), dtype=np.uint8)` for a list of strings / of lists of strings / of lists of lists of strings -/
def interp1 (tbl : List (Nat × Nat)) (ss : List (List Nat)) : Option (Flat Nat) := stack (ss.map fun s => some (interpStr tbl s))
def interp2 (tbl : List (Nat × Nat)) (gs : List (List (List Nat))) : Option (Flat Nat) := stack (gs.map (interp1 tbl))
def interp3 (tbl : List (Nat × Nat)) (hs : List (List (List (List Nat)))) : Option (Flat Nat) := stack (hs.map (interp2 tbl))

/-- `swapaxes(-1,-2)` of one `a × b` block in C order: entry `(j, i)` of the result is entry `(i, j)` of the block -/
def transposeBlock (a b : Nat) (blk : List Nat) : List Nat :=
  (List.range b).flatMap fun j => (List.range a).map fun i => blk.getD (i * b + j) 0

/-- the three lines of `mvarray` after `np.array`: `ndim < 2`: as is; `shape[-2] > 1`: `swapaxes(-1,-2)`; `shape[-2] = 1`:
`mva[..., 0, :]`; `shape[-2] = 0`: that index raises IndexError (not reachable from nested lists) -/
def arrange (f : Flat Nat) : Option (Flat Nat) :=
  match f.shape.reverse with
  | b :: a :: leadRev =>
    let lead := leadRev.reverse
    if a > 1 then some ⟨lead ++ [b, a], (chunks (a * b) lead.prod f.data).flatMap (transposeBlock a b)⟩
    else if a = 1 then some ⟨lead ++ [b], f.data⟩
    else none
  | _ => some f

/-- `mvarray(*ss)` / `mvarray(*gs)` / `mvarray(*hs)` for arguments nested 1 / 2 / 3 deep (`mvarrayN1` is `mvarray` again, as
shape + data; the driver runs both on every flat case) -/
def mvarrayN1 (tbl : List (Nat × Nat)) (ss : List (List Nat)) : Option (Flat Nat) := (interp1 tbl ss).bind arrange
def mvarray2 (tbl : List (Nat × Nat)) (gs : List (List (List Nat))) : Option (Flat Nat) := (interp2 tbl gs).bind arrange
def mvarray3 (tbl : List (Nat × Nat)) (hs : List (List (List (List Nat)))) : Option (Flat Nat) := (interp3 tbl hs).bind arrange

/-- `mv_str(mva, delim)`: `np.choose` (mode 'raise') into the render string; 1-D: joined; 2-D `[sig][pat]`: one
line per pattern; more than two axes: the items of `sa.swapaxes(-1,-2)` along the first axis are arrays with two
or more axes and `''.join` of such an array raises TypeError — unless there is nothing to join (an empty first
axis, or an empty second axis of the swapped array). -/
def mvStr (chars : List Nat) (delim : List Nat) (a : Arr Nat) : Option (List Nat) :=
  if a.rows.any (·.any (· ≥ chars.length)) then none
  else match a.lead with
  | [] => some ((a.rows.headD []).map (chars.getD · 0))
  | [_] => some (delim.intercalate ((List.range a.last).map fun p => a.rows.map fun r => chars.getD (r.getD p 0) 0))
  | d0 :: rest =>
      let second := match rest with | [_] => a.last | d1 :: _ => d1 | [] => 0
      if d0 == 0 then some []
      else if second == 0 then some (delim.intercalate (List.replicate d0 []))
      else none

/-! ## mv_to_bp / bp_to_mv  (logic.py:261-280) -/

/-- one last-axis vector of `P` values → the three planes of `nb` bytes:
`unpackbits(mva)[..., :3]`, `np.packbits(axis=-2, bitorder='little')`, `swapaxes(-1,-2)` -/
def mvToBpRow (nb : Nat) (row : List Nat) : List (List Nat) :=
  let bits3 := row.map fun x => (bitsLE 8 x).take 3            -- [pat][bit]
  (List.range 3).map fun b => packBytes nb (bits3.map (·.getD b false))

/-- `mv_to_bp(mva)`; a 1-D array is first turned into `[sig][1]` (`mva[..., np.newaxis]`) -/
def mvToBp (a : Arr Nat) : Arr Nat :=
  let a := if a.lead = [] then { lead := [a.last], last := 1, rows := (a.rows.headD []).map ([·]) } else a
  { lead := a.lead ++ [3], last := cdiv a.last 8, rows := a.rows.flatMap (mvToBpRow (cdiv a.last 8)) }

/-- `k` planes of `nb` bytes → `8*nb` values: `np.unpackbits(axis=-1, bitorder='little')`, `swapaxes`, then
`packbits(..., uint8)`: the first eight planes, zero-padded, least significant first -/
def bpToMvRow (nb : Nat) (planes : List (List Nat)) : List Nat :=
  let ub := planes.map unpackBytes                              -- [plane][8*nb]
  (List.range (8 * nb)).map fun p => ofBitsLE ((ub.map (·.getD p false)).take 8)

/-- `bp_to_mv(bpa)`; raises (AxisError) on a 1-D array -/
def bpToMv (a : Arr Nat) : Option (Arr Nat) :=
  match a.lead.getLast? with
  | none => none
  | some k => some { lead := a.lead.dropLast, last := 8 * a.last,
                     rows := (chunks k a.lead.dropLast.prod a.rows).map (bpToMvRow a.last) }

/-! ## unpackbits / packbits for a dtype of `w` bits, signed or unsigned  (logic.py:410-433) -/

/-- two's-complement reinterpretation of an integer as `w`-bit unsigned (`a.view(np.uint8)` of the item) -/
def toU (w : Nat) (x : Int) : Nat := (x % ((2 ^ w : Nat) : Int)).toNat
/-- `w`-bit pattern viewed as a signed item (`.view(dtype)` for `int*`) -/
def toS (w : Nat) (n : Nat) : Int := if n < 2 ^ (w - 1) then (n : Int) else (n : Int) - ((2 ^ w : Nat) : Int)

def unpackElem (w : Nat) (x : Int) : List Bool := bitsLE w (toU w x)

/-- `unpackbits(a)`: shape preserved, new last axis of `w` bits, least significant first -/
def unpackbits (w : Nat) (f : Flat Int) : Arr Int :=
  { lead := f.shape, last := w, rows := f.data.map fun x => (unpackElem w x).map fun b => if b then 1 else 0 }

/-- truncate to `w`, pad to `w` with `fill` -/
def padTo (w : Nat) (fill : Bool) (bs : List Bool) : List Bool :=
  bs.take w ++ List.replicate (w - bs.length) fill

/-- one last-axis vector → one item: truncated to `w`; padded with its last bit ('edge') for signed dtypes,
with 0 otherwise -/
def packElem (w : Nat) (signed : Bool) (bs : List Bool) : Int :=
  if signed then toS w (ofBitsLE (padTo w ((bs.take w).getLastD false) bs))
  else (ofBitsLE (padTo w false bs) : Nat)

/-- `packbits(a, dtype)`: last axis removed.  `np.pad(..., 'edge')` raises on an empty last axis. Any non-zero
entry counts as 1 (`np.packbits`). -/
def packbits (w : Nat) (signed : Bool) (a : Arr Int) : Option (Flat Int) :=
  if signed && a.last == 0 then none
  else some { shape := a.lead, data := a.rows.map fun r => packElem w signed (r.map (· != 0)) }

/-! ## popcount, bit_in -/

/-- `popcount(a) = np.sum(_pop_count_lut[a])` over the flat data of a `uint8` array -/
def popcountWith (lut : List Nat) (a : List Nat) : Nat := (a.map (lut.getD · 0)).sum

/-- `bit_in(a, pos) = a[pos >> 3] & _bit_in_lut[pos & 7]` -/
def bitInWith (lut : List Nat) (a : List Nat) (pos : Nat) : Nat :=
  a.getD (pos >>> 3) 0 &&& lut.getD (pos &&& 7) 0

/-- `popcount(a)` for an integer array of ANY dtype (audit 2, F6): `_pop_count_lut[a]` is numpy indexing into a table of 256
entries — a value in `0..255` selects its entry, a NEGATIVE value `-256..-1` (signed dtypes) indexes from the end, i.e. selects the
entry of its low byte in two's complement; anything else raises IndexError (`none`). Not modelled: `bool` arrays (mask indexing,
raises) and `uint64` values ≥ 2^63 (numpy wraps them to negative indices). -/
def popcountInt (lut : List Nat) (a : List Int) : Option Nat :=
  if a.all (fun x => -256 ≤ x && x < 256) then some ((a.map fun x => lut.getD (x % 256).toNat 0).sum) else none

/-- number of one bits of a byte list (specification of popcount) -/
def onesOf (a : List Nat) : Nat := (unpackBytes a).count true

end KV.Enc
