import KyupyVerif.Model.BenchSem
/-! # What a structural Verilog module DENOTES (property C11, `parsed_sem`) — the covered fragment

Statement-level semantics of the statement list `VerilogTransformer.module` receives (`List Stmt`, after `transform`), for the
UNRESOLVED circuit (before `resolve_tlib_cells`): an instance of cell type `K` means what the simulator's kind table makes of the
name `K` (longest prefix family of the lower-cased kind, arity by connected input pins — `KV.specPrimName`; a kind containing
`dff` / `latch` is a state element), its pins are numbered by the library (`TL`).  For a library whose cells ARE the simulation
primitives this is the function of the netlist.

**Fragment** (`verilogOKB`, decidable; everything else is outside this theorem and stays with the oracle):
* statements: declarations (any ranges, grouping, order, redundant wire declarations), instantiations with NAMED pins, `other`,
  and `assign` statements (any widths, concatenations, bit/part selects, sized constants: what counts are the bit pairs
  `assignPairs`) whose bit pairs are in DEPENDENCY ORDER (`assignsOK`): when a pair is visited its target is not yet a fork and
  its source is a constant bit or already a fork (an instance output, an input port bit, an earlier assign target);
* every pin connection is a single bit known to the library; an output pin drives a signal that is not a multi-bit bus named by
  its base (`outSig`); an input pin is a constant bit (`1'b0`/`1'b1`: its own `__const<b>_<k>__` cell and fork) or names a signal
  that is DRIVEN — the output of some instance, an input port bit or an assign target — under the name the driver uses (no 1-bit
  bus read by its base name, no floating wires);
* every port is declared `input`/`output`, every `input`/`output` declaration is in the port list, no port bit twice
  (hypotheses of `C11.ports_order`); every output port bit is driven under its own name;
* cell names (instances, port bits, constant cells) pairwise different; no two lines end in the same fork or cell pin
  (`nodupE` of the reader end points of `vFlat`: every driven signal, constant fork and branch fork `stem~inst/pin` has one
  driver, every pin one connection); per instance the input pin indices pairwise different; no cell type is `__fork__`.

**Denotation.**  Signals are the driven names `drivenSigs` (`D`); `VModel … σ`: for every instance `i` and output connection
`(idx, f)`: `σ f = instVal` — a state element shows its assigned state (`neg` of it on output index 1 of a flip-flop), any other
cell `prim P v₀ v₁ v₂ v₃` with `v_k` the value of the signal or constant on input pin index `k` (`sigVal`; `z` when unconnected;
a constant bit is what a `__const<b>__` cell computes: `constVal`) and `P` by kind family and connected pins 2/3; every input port
bit carries its assigned value; every assign pair `t = s` gives `σ t = sigVal σ s`; every other name carries `z`.
Positions of the assignment (`vSNames`): the port bits in port-list order expanded by declared ranges, then the flip-flop
instances in statement order, then the latch instances. -/
namespace KV.Netlist

/-- one instantiation statement -/
structure VInst where
  ty : String
  name : String
  pins : List (String × SelVal)
deriving Repr, Inhabited

def instOf : Stmt → Option VInst
  | .inst t n p => some ⟨t, n, p⟩
  | _ => none

def vInsts (stmts : List Stmt) : List VInst := stmts.filterMap instOf

/-- an output-pin connection: (pin index, driven signal) -/
def p1Out (tl : TL) (ds : List Decl) (ty : String) (ps : String × SelVal) : Option (Nat × String) :=
  match tl ty ps.1, ps.2 with
  | some (idx, true), .one s => some (idx, (outSig ds s).1)
  | _, _ => none

/-- an input-pin connection: (pin name, pin index, signal read) -/
def p2In (tl : TL) (ty : String) (ps : String × SelVal) : Option (String × Nat × String) :=
  match tl ty ps.1, ps.2 with
  | some (idx, false), .one s => some (ps.1, idx, s)
  | _, _ => none

def outConn (tl : TL) (ds : List Decl) (i : VInst) : List (Nat × String) := i.pins.filterMap (p1Out tl ds i.ty)
def inConn (tl : TL) (i : VInst) : List (String × Nat × String) := i.pins.filterMap (p2In tl i.ty)

def inputNames (ds : List Decl) : List String := (ds.filter fun d => d.kind == .input).flatMap Decl.names
def outputNames (ds : List Decl) : List String := (ds.filter fun d => d.kind == .output).flatMap Decl.names
def portBitNames (ds : List Decl) : List String := (ds.filter fun d => d.kind != .wire).flatMap Decl.names

/-- a constant bit as `sigsel` makes it -/
def isConstLit (s : String) : Bool := s == "1'b0" || s == "1'b1"

/-- stateful concatenation: `f st x` for every element, the state stepping along the list -/
def walk {σ α β} (next : σ → α → σ) (f : σ → α → List β) : σ → List α → List β
  | _, [] => []
  | st, x :: r => f st x ++ walk next f (next st x) r

/-- `const_count` after a source signal: a constant takes a number -/
def nextK (k : Nat) (s : String) : Nat := if isConstLit s then k + 1 else k

/-- the (target, source) bit pairs of the assign statements in the order the code visits them -/
def vPairs (stmts : List Stmt) : List (String × String) := assignPairs (sigDecls stmts) stmts

/-- `const_count` when pass 2 starts -/
def kAssigns (stmts : List Stmt) : Nat := (vPairs stmts).foldl (fun k ts => nextK k ts.2) 0

/-- the driven signals, in the order their forks are made: outputs of the instances (pass 1), the input port bits, the assign targets -/
def drivenSigs (tl : TL) (ds : List Decl) (stmts : List Stmt) : List String :=
  (vInsts stmts).flatMap (fun i => (outConn tl ds i).map (·.2)) ++ inputNames ds ++ (assignPairs ds stmts).map (·.1)

/-- the signals that are forks when pass 1.5 starts -/
def drivenSigs0 (tl : TL) (ds : List Decl) (stmts : List Stmt) : List String :=
  (vInsts stmts).flatMap (fun i => (outConn tl ds i).map (·.2)) ++ inputNames ds

/-- every assign pair, visited in order with the forks `F` that exist at that moment, has a fresh target that is no constant
and a source that is a constant bit or already a fork (assigns in dependency order) -/
def assignsOK (F : List String) : List (String × String) → Bool
  | [] => true
  | ts :: r => !F.contains ts.1 && !isConstBit ts.1 && (if isConstLit ts.2 then true else !isConstBit ts.2 && F.contains ts.2) &&
      assignsOK (F ++ [ts.1]) r

def nodupN : List Nat → Bool
  | [] => true
  | x :: r => !r.contains x && nodupN r

def nodupE : List Ep → Bool
  | [] => true
  | x :: r => !r.contains x && nodupE r

def pinOK (tl : TL) (ds : List Decl) (D : List String) (ty : String) (ps : String × SelVal) : Bool :=
  match tl ty ps.1, ps.2 with
  | some (_, true), .one s => !(outSig ds s).2
  | some (_, false), .one s => isConstLit s || (!isConstBit s && D.contains s)
  | _, _ => false

/-! ## the closed form of the circuit in the fragment (theorems `module_nodes`, `module_flat`) -/

/-- a flat line with the signal it carries: (driver end point, reader end point, signal); a constant's signal is its literal -/
structure VLine where
  d : Ep
  r : Ep
  sig : String
deriving Repr, Inhabited

/-- the line of one assign pair: from the source fork, or from a new `__const<b>_<k>__` cell -/
def pairLines (k : Nat) (ts : String × String) : List VLine :=
  if isConstLit ts.2 then [⟨.cell (constName ts.2 k) 0, .fork ts.1, ts.2⟩] else [⟨.fork ts.2, .fork ts.1, ts.2⟩]

/-- the fork an input pin is connected to: the signal, or the fork of its own constant cell -/
def srcFork (k : Nat) (c : String × Nat × String) : String := if isConstLit c.2.2 then constName c.2.2 k else c.2.2

/-- the lines of one input-pin connection: constant cell → its fork; fork → pin (through the branch fork) -/
def connLines (bf : Bool) (k : Nat) (ic : VInst × (String × Nat × String)) : List VLine :=
  (if isConstLit ic.2.2.2 then [⟨.cell (constName ic.2.2.2 k) 0, .fork (constName ic.2.2.2 k), ic.2.2.2⟩] else []) ++
  (if bf then [⟨.fork (srcFork k ic.2), .fork (branchName (srcFork k ic.2) ic.1.name ic.2.1), ic.2.2.2⟩,
               ⟨.fork (branchName (srcFork k ic.2) ic.1.name ic.2.1), .cell ic.1.name ic.2.2.1, ic.2.2.2⟩]
   else [⟨.fork (srcFork k ic.2), .cell ic.1.name ic.2.2.1, ic.2.2.2⟩])

/-- `f k (i, c)` for every input-pin connection `c` of every instance `i` in the order pass 2 visits them, `k` = `const_count` -/
def connWalk {β} (tl : TL) (f : Nat → VInst × (String × Nat × String) → List β) (k0 : Nat) (insts : List VInst) : List β :=
  walk (fun k i => (inConn tl i).foldl (fun k c => nextK k c.2.2) k)
    (fun k i => walk (fun k c => nextK k c.2.2) (fun k c => f k (i, c)) k (inConn tl i)) k0 insts

/-- all flat lines in creation order: instance outputs, input ports, assign pairs, reader pins, output ports -/
def vFlat (cfg : Cfg) (tl : TL) (ds : List Decl) (stmts : List Stmt) : List VLine :=
  ((vInsts stmts).flatMap fun i => (outConn tl ds i).map fun o => (⟨.cell i.name o.1, .fork o.2, o.2⟩ : VLine)) ++
  ((inputNames ds).map fun n => (⟨.cell n 0, .fork n, n⟩ : VLine)) ++
  walk (fun k ts => nextK k ts.2) pairLines 0 (assignPairs ds stmts) ++
  connWalk tl (connLines cfg.bf) ((assignPairs ds stmts).foldl (fun k ts => nextK k ts.2) 0) (vInsts stmts) ++
  ((outputNames ds).map fun n => (⟨.fork n, .cell n 0, n⟩ : VLine))

/-- the names of the constant cells -/
def constNames (tl : TL) (ds : List Decl) (stmts : List Stmt) : List String :=
  walk (fun k ts => nextK k ts.2) (fun k (ts : String × String) => if isConstLit ts.2 then [constName ts.2 k] else []) 0 (assignPairs ds stmts) ++
  connWalk tl (fun k (ic : VInst × (String × Nat × String)) => if isConstLit ic.2.2.2 then [constName ic.2.2.2 k] else [])
    ((assignPairs ds stmts).foldl (fun k ts => nextK k ts.2) 0) (vInsts stmts)

/-- the signal every line of the net carries, in line order -/
def vSigs (cfg : Cfg) (tl : TL) (stmts : List Stmt) : List String := (vFlat cfg tl (sigDecls stmts) stmts).map (·.sig)

/-- the fragment -/
def verilogOKB (cfg : Cfg) (tl : TL) (ports : List String) (stmts : List Stmt) : Bool :=
  let ds := sigDecls stmts
  let D := drivenSigs tl ds stmts
  assignsOK (drivenSigs0 tl ds stmts) (assignPairs ds stmts) &&
  (ports.all fun p => match lookup ds p with | some d => d.kind != .wire | none => false) &&
  nodupS (posNames ds ports) &&
  ((portBitNames ds).all fun n => (posNames ds ports).contains n) &&
  ((vInsts stmts).all fun i => i.pins.all (pinOK tl ds D i.ty)) &&
  nodupS ((vInsts stmts).map (·.name) ++ portBitNames ds ++ constNames tl ds stmts) &&
  nodupE ((vFlat cfg tl ds stmts).map (·.r)) &&
  ((vInsts stmts).all fun i => i.ty != forkKind) &&
  ((vInsts stmts).all fun i => nodupN ((inConn tl i).map (·.2.1))) &&
  ((outputNames ds).all fun n => D.contains n) &&
  (D.all fun s => !isConstBit s)

/-! ## denotation -/

/-- interface nodes in `s_nodes` order -/
def vSNames (ports : List String) (stmts : List Stmt) : List Ep :=
  (posNames (sigDecls stmts) ports).map (fun n => Ep.cell n 0) ++
    (((vInsts stmts).filter fun i => isDffKind i.ty).map fun i => Ep.cell i.name 0) ++
    (((vInsts stmts).filter fun i => isLatchKind i.ty).map fun i => Ep.cell i.name 0)

def vSPos (ports : List String) (stmts : List Stmt) (e : Ep) : Nat := (vSNames ports stmts).idxOf e

/-- the value of a constant bit: what a `__const<b>__` cell (no inputs) computes -/
def constVal {α} (z : α) (prim : String → α → α → α → α → α) (s : String) : α :=
  match specPrimName (constKind s).toLower false false with
  | some name => prim name z z z z
  | none => z

/-- the value of a signal or constant under an environment -/
def sigVal {α} (z : α) (prim : String → α → α → α → α → α) (σ : String → α) (s : String) : α :=
  if isConstLit s then constVal z prim s else σ s

/-- the signal (or constant) on input pin index `k` of an instance -/
def inSig (tl : TL) (i : VInst) (k : Nat) : Option String :=
  ((inConn tl i).find? fun c => c.2.1 == k).map (·.2.2)

/-- what an instance puts on its output pin `idx` -/
def instVal {α} (tl : TL) (z : α) (neg : α → α) (prim : String → α → α → α → α → α) (a : Nat → α) (pos : Nat) (i : VInst) (idx : Nat)
    (σ : String → α) : α :=
  if isSeqKind i.ty then (if isDffKind i.ty && idx == 1 then neg (a pos) else a pos)
  else match specPrimName i.ty.toLower (inSig tl i 2).isSome (inSig tl i 3).isSome with
    | some name => prim name (match inSig tl i 0 with | some s => sigVal z prim σ s | none => z)
        (match inSig tl i 1 with | some s => sigVal z prim σ s | none => z)
        (match inSig tl i 2 with | some s => sigVal z prim σ s | none => z)
        (match inSig tl i 3 with | some s => sigVal z prim σ s | none => z)
    | none => z

/-- the arity domain of a module (audit finding 1 / known finding D33): every combinational instance has its connected input pins
at pin indices 0..3 — `instVal` reads these four only, as the real simulator does -/
def vArityB (tl : TL) (stmts : List Stmt) : Bool :=
  (vInsts stmts).all fun i => isSeqKind i.ty || (inConn tl i).all fun c => c.2.1 < 4

/-- `σ` is a model of the module under the assignment `a` -/
def VModel {α} (tl : TL) (ports : List String) (stmts : List Stmt) (z : α) (neg : α → α) (prim : String → α → α → α → α → α)
    (a : Nat → α) (σ : String → α) : Prop :=
  (∀ i ∈ vInsts stmts, ∀ o ∈ outConn tl (sigDecls stmts) i,
    σ o.2 = instVal tl z neg prim a (vSPos ports stmts (.cell i.name 0)) i o.1 σ) ∧
  (∀ n ∈ inputNames (sigDecls stmts), σ n = a (vSPos ports stmts (.cell n 0))) ∧
  (∀ ts ∈ vPairs stmts, σ ts.1 = sigVal z prim σ ts.2) ∧
  (∀ s, (drivenSigs tl (sigDecls stmts) stmts).contains s = false → σ s = z)

/-- `σ` is a model of the module OUTSIDE the instances selected by `HI` (the "holes": instances whose meaning is given from
outside — library cells, C10): the outputs of a hole are unconstrained, everything else as in `VModel` -/
def VModelOff {α} (HI : VInst → Prop) (tl : TL) (ports : List String) (stmts : List Stmt) (z : α) (neg : α → α)
    (prim : String → α → α → α → α → α) (a : Nat → α) (σ : String → α) : Prop :=
  (∀ i ∈ vInsts stmts, ¬ HI i → ∀ o ∈ outConn tl (sigDecls stmts) i,
    σ o.2 = instVal tl z neg prim a (vSPos ports stmts (.cell i.name 0)) i o.1 σ) ∧
  (∀ n ∈ inputNames (sigDecls stmts), σ n = a (vSPos ports stmts (.cell n 0))) ∧
  (∀ ts ∈ vPairs stmts, σ ts.1 = sigVal z prim σ ts.2) ∧
  (∀ s, (drivenSigs tl (sigDecls stmts) stmts).contains s = false → σ s = z)

/-- what the module observes per `s_nodes` position: an output port bit its signal, a state element the signal on its input pin
index 0, nothing at input ports -/
def vCaptures {α} (tl : TL) (ports : List String) (stmts : List Stmt) (z : α) (prim : String → α → α → α → α → α) (σ : String → α) :
    List (Option α) :=
  (vSNames ports stmts).map fun e => match e with
    | .fork _ => none
    | .cell n _ =>
      if (outputNames (sigDecls stmts)).contains n then some (σ n)
      else match (vInsts stmts).find? (·.name == n) with
        | some i => (inSig tl i 0).map (sigVal z prim σ)
        | none => none

/-! ## executable evaluation (driver) -/

def known {α} (t : List (String × α)) (s : String) : Bool := isConstLit s || (lookupA t s).isSome

/-- one pass: outputs of state elements and of cells whose connected inputs are all known, then assign targets whose source is known -/
def vEvalPass {α} (tl : TL) (ports : List String) (stmts : List Stmt) (z : α) (neg : α → α) (prim : String → α → α → α → α → α)
    (a : Nat → α) (tab : List (String × α)) : List (String × α) :=
  (vPairs stmts).foldl (fun t ts =>
    if (lookupA t ts.1).isSome || !known t ts.2 then t
    else t ++ [(ts.1, sigVal z prim (fun s => (lookupA t s).getD z) ts.2)])
  ((vInsts stmts).foldl (fun t i =>
    if isSeqKind i.ty || (inConn tl i).all (fun c => known t c.2.2) then
      (outConn tl (sigDecls stmts) i).foldl (fun t o =>
        if (lookupA t o.2).isSome then t
        else t ++ [(o.2, instVal tl z neg prim a (vSPos ports stmts (.cell i.name 0)) i o.1 (fun s => (lookupA t s).getD z))]) t
    else t) tab)

def vEvalFix {α} (tl : TL) (ports : List String) (stmts : List Stmt) (z : α) (neg : α → α) (prim : String → α → α → α → α → α)
    (a : Nat → α) : Nat → List (String × α) → List (String × α)
  | 0, t => t
  | k + 1, t =>
    let t' := vEvalPass tl ports stmts z neg prim a t
    if t'.length == t.length then t else vEvalFix tl ports stmts z neg prim a k t'

/-- table of signal values: input port bits first, then instance outputs and assign targets as they become computable -/
def vEval {α} (tl : TL) (ports : List String) (stmts : List Stmt) (z : α) (neg : α → α) (prim : String → α → α → α → α → α)
    (a : Nat → α) : List (String × α) :=
  vEvalFix tl ports stmts z neg prim a ((vInsts stmts).length + (vPairs stmts).length + 1)
    ((inputNames (sigDecls stmts)).map fun n => (n, a (vSPos ports stmts (.cell n 0))))

def vEnvOf {α} (z : α) (tab : List (String × α)) (s : String) : α := (lookupA tab s).getD z

/-- acceptance check for a table -/
def vModelB {α} [BEq α] (tl : TL) (ports : List String) (stmts : List Stmt) (z : α) (neg : α → α)
    (prim : String → α → α → α → α → α) (a : Nat → α) (tab : List (String × α)) : Bool :=
  ((vInsts stmts).all fun i => (outConn tl (sigDecls stmts) i).all fun o =>
    vEnvOf z tab o.2 == instVal tl z neg prim a (vSPos ports stmts (.cell i.name 0)) i o.1 (vEnvOf z tab)) &&
  ((inputNames (sigDecls stmts)).all fun n => vEnvOf z tab n == a (vSPos ports stmts (.cell n 0))) &&
  ((vPairs stmts).all fun ts => vEnvOf z tab ts.1 == sigVal z prim (vEnvOf z tab) ts.2) &&
  (tab.all fun p => (drivenSigs tl (sigDecls stmts) stmts).contains p.1)

end KV.Netlist
