import KyupyVerif.Model.BenchSem
/-! # What a structural Verilog module DENOTES (property C11, `parsed_sem`) — the covered fragment

Statement-level semantics of the statement list `VerilogTransformer.module` receives (`List Stmt`, after `transform`), for the
UNRESOLVED circuit (before `resolve_tlib_cells`): an instance of cell type `K` means what the simulator's kind table makes of the
name `K` (longest prefix family of the lower-cased kind, arity by connected input pins — `KV.specPrimName`; a kind containing
`dff` / `latch` is a state element), its pins are numbered by the library (`TL`).  For a library whose cells ARE the simulation
primitives this is the function of the netlist.

**Fragment** (`verilogOKB`, decidable; everything else is outside this theorem and stays with the oracle):
* statements: declarations (any ranges, grouping, order, redundant wire declarations), instantiations with NAMED pins, `other`;
  NO `assign` statement;
* every pin connection is a single bit known to the library; an output pin drives a signal that is not a multi-bit bus named by
  its base (`outSig`); an input pin names a signal that is DRIVEN — the output of some instance or an input port bit — under the
  name the driver uses (no constants on pins, no 1-bit bus read by its base name, no floating wires);
* every port is declared `input`/`output`, every `input`/`output` declaration is in the port list, no port bit twice
  (hypotheses of `C11.ports_order`); every output port bit is driven under its own name;
* instance names and port bit names pairwise different; driven signal names (and, with `branchforks`, the branch fork names
  `stem~inst/pin`) pairwise different; per instance the input pin indices pairwise different; no cell type is `__fork__`.

**Denotation.**  Signals are the driven names `drivenSigs` (`D`); `VModel … σ`: for every instance `i` and output connection
`(idx, f)`: `σ f = instVal` — a state element shows its assigned state (`neg` of it on output index 1 of a flip-flop), any other
cell `prim P (σ s₀) (σ s₁) (σ s₂) (σ s₃)` with `s_k` the signal on input pin index `k` (`z` when unconnected) and `P` by kind family and
connected pins 2/3; every input port bit carries its assigned value; every other name carries `z`.
Positions of the assignment (`vSNames`): the port bits in port-list order expanded by declared ranges, then the flip-flop
instances in statement order, then the latch instances. -/
namespace KV.Netlist

/-- one instantiation statement -/
structure VInst where
  ty : String
  name : String
  pins : List (String × SelVal)
deriving Repr, Inhabited

def instOf : Stmt → Option VInst
  | .inst t n p => some ⟨t, n, p⟩
  | _ => none

def vInsts (stmts : List Stmt) : List VInst := stmts.filterMap instOf

/-- an output-pin connection: (pin index, driven signal) -/
def p1Out (tl : TL) (ds : List Decl) (ty : String) (ps : String × SelVal) : Option (Nat × String) :=
  match tl ty ps.1, ps.2 with
  | some (idx, true), .one s => some (idx, (outSig ds s).1)
  | _, _ => none

/-- an input-pin connection: (pin name, pin index, signal read) -/
def p2In (tl : TL) (ty : String) (ps : String × SelVal) : Option (String × Nat × String) :=
  match tl ty ps.1, ps.2 with
  | some (idx, false), .one s => some (ps.1, idx, s)
  | _, _ => none

def outConn (tl : TL) (ds : List Decl) (i : VInst) : List (Nat × String) := i.pins.filterMap (p1Out tl ds i.ty)
def inConn (tl : TL) (i : VInst) : List (String × Nat × String) := i.pins.filterMap (p2In tl i.ty)

def inputNames (ds : List Decl) : List String := (ds.filter fun d => d.kind == .input).flatMap Decl.names
def outputNames (ds : List Decl) : List String := (ds.filter fun d => d.kind == .output).flatMap Decl.names
def portBitNames (ds : List Decl) : List String := (ds.filter fun d => d.kind != .wire).flatMap Decl.names

/-- the driven signals, in the order their forks are made: outputs of the instances (pass 1), then the input port bits -/
def drivenSigs (tl : TL) (ds : List Decl) (stmts : List Stmt) : List String :=
  (vInsts stmts).flatMap (fun i => (outConn tl ds i).map (·.2)) ++ inputNames ds

/-- the branch forks of `branchforks=True`, in creation order -/
def branchNames (tl : TL) (stmts : List Stmt) : List String :=
  (vInsts stmts).flatMap fun i => (inConn tl i).map fun c => branchName c.2.2 i.name c.1

def nodupN : List Nat → Bool
  | [] => true
  | x :: r => !r.contains x && nodupN r

def isAssign : Stmt → Bool
  | .assign _ _ => true
  | _ => false

def pinOK (tl : TL) (ds : List Decl) (D : List String) (ty : String) (ps : String × SelVal) : Bool :=
  match tl ty ps.1, ps.2 with
  | some (_, true), .one s => !(outSig ds s).2
  | some (_, false), .one s => !isConstBit s && D.contains s
  | _, _ => false

/-- the fragment -/
def verilogOKB (cfg : Cfg) (tl : TL) (ports : List String) (stmts : List Stmt) : Bool :=
  let ds := sigDecls stmts
  let D := drivenSigs tl ds stmts
  (stmts.all fun s => !isAssign s) &&
  (ports.all fun p => match lookup ds p with | some d => d.kind != .wire | none => false) &&
  nodupS (posNames ds ports) &&
  ((portBitNames ds).all fun n => (posNames ds ports).contains n) &&
  ((vInsts stmts).all fun i => i.pins.all (pinOK tl ds D i.ty)) &&
  nodupS ((vInsts stmts).map (·.name) ++ portBitNames ds) &&
  nodupS (D ++ if cfg.bf then branchNames tl stmts else []) &&
  ((vInsts stmts).all fun i => i.ty != forkKind) &&
  ((vInsts stmts).all fun i => nodupN ((inConn tl i).map (·.2.1))) &&
  ((outputNames ds).all fun n => D.contains n)

/-! ## the closed form of the circuit in the fragment (theorem `C11`-proofs: `module_nodes`, `module_lines`) -/

/-- a flat line with the signal it carries: (driver end point, reader end point, signal) -/
structure VLine where
  d : Ep
  r : Ep
  sig : String
deriving Repr, Inhabited

def readerLines (bf : Bool) (i : VInst) (c : String × Nat × String) : List VLine :=
  if bf then [⟨.fork c.2.2, .fork (branchName c.2.2 i.name c.1), c.2.2⟩, ⟨.fork (branchName c.2.2 i.name c.1), .cell i.name c.2.1, c.2.2⟩]
  else [⟨.fork c.2.2, .cell i.name c.2.1, c.2.2⟩]

/-- all flat lines in creation order: instance outputs, input ports, reader pins (through the branch fork), output ports -/
def vFlat (cfg : Cfg) (tl : TL) (ds : List Decl) (stmts : List Stmt) : List VLine :=
  ((vInsts stmts).flatMap fun i => (outConn tl ds i).map fun o => (⟨.cell i.name o.1, .fork o.2, o.2⟩ : VLine)) ++
  ((inputNames ds).map fun n => (⟨.cell n 0, .fork n, n⟩ : VLine)) ++
  ((vInsts stmts).flatMap fun i => (inConn tl i).flatMap (readerLines cfg.bf i)) ++
  ((outputNames ds).map fun n => (⟨.fork n, .cell n 0, n⟩ : VLine))

/-- the signal every line of the net carries, in line order -/
def vSigs (cfg : Cfg) (tl : TL) (stmts : List Stmt) : List String := (vFlat cfg tl (sigDecls stmts) stmts).map (·.sig)

/-! ## denotation -/

/-- interface nodes in `s_nodes` order -/
def vSNames (ports : List String) (stmts : List Stmt) : List Ep :=
  (posNames (sigDecls stmts) ports).map (fun n => Ep.cell n 0) ++
    (((vInsts stmts).filter fun i => isDffKind i.ty).map fun i => Ep.cell i.name 0) ++
    (((vInsts stmts).filter fun i => isLatchKind i.ty).map fun i => Ep.cell i.name 0)

def vSPos (ports : List String) (stmts : List Stmt) (e : Ep) : Nat := (vSNames ports stmts).idxOf e

/-- the signal on input pin index `k` of an instance -/
def inSig (tl : TL) (i : VInst) (k : Nat) : Option String :=
  ((inConn tl i).find? fun c => c.2.1 == k).map (·.2.2)

/-- what an instance puts on its output pin `idx` -/
def instVal {α} (tl : TL) (z : α) (neg : α → α) (prim : String → α → α → α → α → α) (a : Nat → α) (pos : Nat) (i : VInst) (idx : Nat)
    (σ : String → α) : α :=
  if isSeqKind i.ty then (if isDffKind i.ty && idx == 1 then neg (a pos) else a pos)
  else match specPrimName i.ty.toLower (inSig tl i 2).isSome (inSig tl i 3).isSome with
    | some name => prim name (match inSig tl i 0 with | some s => σ s | none => z) (match inSig tl i 1 with | some s => σ s | none => z)
        (match inSig tl i 2 with | some s => σ s | none => z) (match inSig tl i 3 with | some s => σ s | none => z)
    | none => z

/-- `σ` is a model of the module under the assignment `a` -/
def VModel {α} (tl : TL) (ports : List String) (stmts : List Stmt) (z : α) (neg : α → α) (prim : String → α → α → α → α → α)
    (a : Nat → α) (σ : String → α) : Prop :=
  (∀ i ∈ vInsts stmts, ∀ o ∈ outConn tl (sigDecls stmts) i,
    σ o.2 = instVal tl z neg prim a (vSPos ports stmts (.cell i.name 0)) i o.1 σ) ∧
  (∀ n ∈ inputNames (sigDecls stmts), σ n = a (vSPos ports stmts (.cell n 0))) ∧
  (∀ s, (drivenSigs tl (sigDecls stmts) stmts).contains s = false → σ s = z)

/-- what the module observes per `s_nodes` position: an output port bit its signal, a state element the signal on its input pin
index 0, nothing at input ports -/
def vCaptures {α} (tl : TL) (ports : List String) (stmts : List Stmt) (σ : String → α) : List (Option α) :=
  (vSNames ports stmts).map fun e => match e with
    | .fork _ => none
    | .cell n _ =>
      if (outputNames (sigDecls stmts)).contains n then some (σ n)
      else match (vInsts stmts).find? (·.name == n) with
        | some i => (inSig tl i 0).map σ
        | none => none

/-! ## executable evaluation (driver) -/

/-- one pass over the instances: outputs of state elements and of cells whose connected inputs are all known -/
def vEvalPass {α} (tl : TL) (ports : List String) (stmts : List Stmt) (z : α) (neg : α → α) (prim : String → α → α → α → α → α)
    (a : Nat → α) (tab : List (String × α)) : List (String × α) :=
  (vInsts stmts).foldl (fun t i =>
    if isSeqKind i.ty || (inConn tl i).all (fun c => (lookupA t c.2.2).isSome) then
      (outConn tl (sigDecls stmts) i).foldl (fun t o =>
        if (lookupA t o.2).isSome then t
        else t ++ [(o.2, instVal tl z neg prim a (vSPos ports stmts (.cell i.name 0)) i o.1 (fun s => (lookupA t s).getD z))]) t
    else t) tab

def vEvalFix {α} (tl : TL) (ports : List String) (stmts : List Stmt) (z : α) (neg : α → α) (prim : String → α → α → α → α → α)
    (a : Nat → α) : Nat → List (String × α) → List (String × α)
  | 0, t => t
  | k + 1, t =>
    let t' := vEvalPass tl ports stmts z neg prim a t
    if t'.length == t.length then t else vEvalFix tl ports stmts z neg prim a k t'

/-- table of signal values: input port bits first, then instance outputs as they become computable -/
def vEval {α} (tl : TL) (ports : List String) (stmts : List Stmt) (z : α) (neg : α → α) (prim : String → α → α → α → α → α)
    (a : Nat → α) : List (String × α) :=
  vEvalFix tl ports stmts z neg prim a ((vInsts stmts).length + 1)
    ((inputNames (sigDecls stmts)).map fun n => (n, a (vSPos ports stmts (.cell n 0))))

def vEnvOf {α} (z : α) (tab : List (String × α)) (s : String) : α := (lookupA tab s).getD z

/-- acceptance check for a table -/
def vModelB {α} [BEq α] (tl : TL) (ports : List String) (stmts : List Stmt) (z : α) (neg : α → α)
    (prim : String → α → α → α → α → α) (a : Nat → α) (tab : List (String × α)) : Bool :=
  ((vInsts stmts).all fun i => (outConn tl (sigDecls stmts) i).all fun o =>
    vEnvOf z tab o.2 == instVal tl z neg prim a (vSPos ports stmts (.cell i.name 0)) i o.1 (vEnvOf z tab)) &&
  ((inputNames (sigDecls stmts)).all fun n => vEnvOf z tab n == a (vSPos ports stmts (.cell n 0))) &&
  (tab.all fun p => (drivenSigs tl (sigDecls stmts) stmts).contains p.1)

end KV.Netlist
