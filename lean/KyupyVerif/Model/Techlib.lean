import KyupyVerif.Model.Sig
/-! Shape of the generated technology-library tables (gen/dump_techlib.py), the meaning of the `{a,b}`
name templates (techlib.py:86-87) and the decidable pin-table consistency predicate of C19.

Names are lists of characters: the kernel evaluates `List Char` operations quickly, whereas `String.toList`
on a literal costs ~50 ms per name.  `c!"AND2X1"` is notation for `['A','N','D','2','X','1']`. -/
namespace KV.TL

abbrev Str := List Char

/-- `c!"abc"` = `['a', 'b', 'c']` (expanded when the file is elaborated) -/
macro:max "c!" s:str : term => do
  let cs : Array (Lean.TSyntax `term) := s.getString.toList.toArray.map fun c => Lean.Syntax.mkCharLit c
  `([$cs,*])

/-- one row per DISTINCT implementation circuit of a library -/
structure Cell where
  /-- index of the library in `Gen.libNames` -/
  lib : Nat
  /-- `circuit.name`: the cell name as written in the library text, with `{a,b}` alternatives -/
  tmpl : Str
  /-- the keys of `TechLib.cells` that map to this implementation, in dictionary order -/
  names : List Str
  /-- the pin table shared by these keys, in dictionary order: pin name, position, is_output -/
  pins : List (Str × Nat × Bool)
  /-- `circuit.io_nodes` in order: port name, driven (`len(node.ins) > 0`), and the signal index of its
      (P)PI slot when it is not driven resp. the index of the line captured for it (`node.ins[0]`) when it is -/
  ports : List (Str × Bool × Nat)
  /-- number of state elements: `len(s_nodes) - len(io_nodes)` -/
  nSeq : Nat
  /-- `SimOps(circuit).ops[:, :6]`: lut, out, i0, i1, i2, i3 -/
  ops : List (List Nat)

/-! ### name templates -/

/-- split at top-level commas -/
def splitComma : Str → List Str
  | [] => [[]]
  | c :: cs =>
    match splitComma cs with
    | [] => [[c]]      -- unreachable
    | h :: t => if c = ',' then [] :: h :: t else (c :: h) :: t

/-- `re.split(r'({[^}]+})', name)` then `s[1:-1].split(',')` for the brace parts: the template as a list of
    alternatives lists. `fuel` = length of the text. -/
def parts : Nat → Str → List (List Str)
  | 0, _ => []
  | _, [] => []
  | fuel + 1, '{' :: cs =>
    let body := cs.takeWhile (· ≠ '}')
    let rest := cs.dropWhile (· ≠ '}')
    match rest, body with
    | '}' :: rest', _ :: _ => splitComma body :: parts fuel rest'
    | _, _ => -- no closing brace / empty braces: literal text up to the next opening brace
      let lit := '{' :: cs.takeWhile (· ≠ '{')
      [lit] :: parts fuel (cs.dropWhile (· ≠ '{'))
  | fuel + 1, c :: cs =>
    let lit := c :: cs.takeWhile (· ≠ '{')
    [lit] :: parts fuel (cs.dropWhile (· ≠ '{'))

/-- `[''.join(item) for item in itertools.product(*parts)]`: the first part varies slowest -/
def product : List (List Str) → List Str
  | [] => [[]]
  | alts :: rest => alts.flatMap fun a => (product rest).map (a ++ ·)

/-- all names a template stands for -/
def expand (tmpl : Str) : List Str := product (parts tmpl.length tmpl)

/-! ### pin tables -/

/-- the pin table that techlib.py:77-85 derives from a port list: inputs and outputs are numbered
    separately, 0, 1, 2, … in port order -/
def derivePins : Nat → Nat → List (Str × Bool × Nat) → List (Str × Nat × Bool)
  | _, _, [] => []
  | i, o, (n, false, _) :: ps => (n, i, false) :: derivePins (i + 1) o ps
  | i, o, (n, true, _) :: ps => (n, o, true) :: derivePins i (o + 1) ps

def nodupB {α} [BEq α] : List α → Bool
  | [] => true
  | a :: as => !as.contains a && nodupB as

def Cell.inputs (c : Cell) : List (Str × Nat × Bool) := c.pins.filter (!·.2.2)
def Cell.outputs (c : Cell) : List (Str × Nat × Bool) := c.pins.filter (·.2.2)

/-- pin-table consistency of one implementation row -/
def Cell.pinsOK (c : Cell) : Bool :=
  -- each pin name once (in the table and among the circuit's ports)
  nodupB (c.pins.map (·.1)) && nodupB (c.ports.map (·.1)) &&
  -- inputs are numbered 0..n-1 and outputs 0..m-1, in declaration order
  (c.inputs.map (·.2.1) == List.range c.inputs.length) &&
  (c.outputs.map (·.2.1) == List.range c.outputs.length) &&
  -- same names, order and directions as the ports of the implementation circuit
  (c.pins == derivePins 0 0 c.ports) &&
  -- every name the template stands for has this definition (and no other name has it)
  (!c.names.isEmpty) && (c.names == expand c.tmpl)

/-! ### the implementation's program -/

def rowOp (r : List Nat) : KV.Sig.Op := ⟨r.getD 0 0, r.getD 1 0, r.drop 2⟩
def Cell.prog (c : Cell) : List KV.Sig.Op := c.ops.map rowOp

/-- (P)PI slots of the input ports, in port order -/
def Cell.inSlots (c : Cell) : List Nat := (c.ports.filter (!·.2.1)).map (·.2.2)
def Cell.inNames (c : Cell) : List Str := (c.ports.filter (!·.2.1)).map (·.1)
/-- output ports with the line captured for them -/
def Cell.outLines (c : Cell) : List (Str × Nat) := (c.ports.filter (·.2.1)).map fun p => (p.1, p.2.2)
def Cell.outNames (c : Cell) : List Str := c.outLines.map (·.1)

/-- signal memory before propagation: input `k` in its (P)PI slot, every other location 0 -/
def Cell.env (c : Cell) (vals : List Bool) : Nat → Bool := fun sig =>
  match c.inSlots.idxOf? sig with
  | some k => vals.getD k false
  | none => false

/-- all assignments of `n` inputs -/
def allRows : Nat → List (List Bool)
  | 0 => [[]]
  | n + 1 => (allRows n).flatMap fun r => [false :: r, true :: r]

end KV.TL
