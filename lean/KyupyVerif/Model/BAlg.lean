import KyupyVerif.Model.Val
/-! Boolean-algebra signature over which the extracted bitwise code is emitted.
`Bool` gives the per-lane meaning (used for kernel evaluation of complete tables),
`BitVec w` gives the bit-parallel meaning for any lane count `w`;
`BHom` is a map that commutes with the operations — every generated definition comes with a
`_hom` lemma, so that lane `k` of the bit-parallel result is the per-lane function of lane `k`
of the operands, for every `w` and `k < w`. -/
namespace KV

class BAlg (α : Type) where
  and : α → α → α
  or : α → α → α
  xor : α → α → α
  not : α → α
  tt : α
  ff : α

instance : BAlg Bool := ⟨Bool.and, Bool.or, Bool.xor, Bool.not, true, false⟩
instance {w : Nat} : BAlg (BitVec w) := ⟨BitVec.and, BitVec.or, BitVec.xor, BitVec.not, BitVec.allOnes w, 0#w⟩

structure P2 (α : Type) where
  p0 : α
  p1 : α
deriving DecidableEq, Repr

structure P3 (α : Type) where
  p0 : α
  p1 : α
  p2 : α
deriving DecidableEq, Repr

def P3.toV3 (v : P3 Bool) : V3 := ⟨v.p0, v.p1, v.p2⟩
def P3.ofV3 (v : V3) : P3 Bool := ⟨v.p0, v.p1, v.p2⟩
def P2.toV2 (v : P2 Bool) : V2 := ⟨v.p0, v.p1⟩
def P2.ofV2 (v : V2) : P2 Bool := ⟨v.p0, v.p1⟩
@[simp] theorem P3.toV3_ofV3 (v : V3) : (P3.ofV3 v).toV3 = v := rfl
@[simp] theorem P3.ofV3_toV3 (v : P3 Bool) : P3.ofV3 v.toV3 = v := rfl
@[simp] theorem P2.toV2_ofV2 (v : V2) : (P2.ofV2 v).toV2 = v := rfl
@[simp] theorem P2.ofV2_toV2 (v : P2 Bool) : P2.ofV2 v.toV2 = v := rfl

structure BHom (α β : Type) [BAlg α] [BAlg β] where
  f : α → β
  map_and : ∀ a b, f (BAlg.and a b) = BAlg.and (f a) (f b)
  map_or : ∀ a b, f (BAlg.or a b) = BAlg.or (f a) (f b)
  map_xor : ∀ a b, f (BAlg.xor a b) = BAlg.xor (f a) (f b)
  map_not : ∀ a, f (BAlg.not a) = BAlg.not (f a)
  map_tt : f BAlg.tt = BAlg.tt
  map_ff : f BAlg.ff = BAlg.ff

def BHom.f2 {α β : Type} [BAlg α] [BAlg β] (h : BHom α β) (v : P2 α) : P2 β := ⟨h.f v.p0, h.f v.p1⟩
def BHom.f3 {α β : Type} [BAlg α] [BAlg β] (h : BHom α β) (v : P3 α) : P3 β := ⟨h.f v.p0, h.f v.p1, h.f v.p2⟩

/-- reading lane `k` of a `w`-lane bit vector is a homomorphism when `k < w` -/
def lane (w k : Nat) (hk : k < w) : BHom (BitVec w) Bool where
  f := fun v => v.getLsbD k
  map_and := by intro a b; show (a &&& b).getLsbD k = _; simp [BAlg.and]
  map_or := by intro a b; show (a ||| b).getLsbD k = _; simp [BAlg.or]
  map_xor := by intro a b; show (a ^^^ b).getLsbD k = _; simp [BAlg.xor]
  map_not := by intro a; show (~~~a).getLsbD k = _; simp [BAlg.not, hk]
  map_tt := by show (BitVec.allOnes w).getLsbD k = _; simp [BAlg.tt, hk]
  map_ff := by show (0#w).getLsbD k = _; simp [BAlg.ff]

end KV
