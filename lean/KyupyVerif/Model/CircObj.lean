/-! # Object-level model of `kyupy/circuit.py` (C09)

Python object identity is modelled by explicit ids: a `Circ` carries two heaps (`nobj : id ↦ NodeObj`,
`lobj : id ↦ LineObj`; objects are never freed, a removed object stays in the heap with `alive = false`, exactly like
a Python object that is still referenced from somewhere) and the containers of `Circuit`, which hold ids:

* `nodes`, `lines`  — the two `IndexList`s (order = list order),
* `io`              — `io_nodes`,
* `cells`, `forks`  — the two dictionaries as association lists in *insertion order* (Python dict order: deleting a
                      key keeps the order of the rest, a new key goes to the end),

Every function below transcribes one method of circuit.py statement by statement (line numbers in the comments).
Where Python would raise, the transcription takes an arbitrary total continuation; those cases are excluded by the
decidable preconditions `pre` (well-formed use, DESIGN.md section 7) under which the theorems of Props/C09 are stated. -/
namespace KV.CircObj

def FORK : String := "__fork__"

/-! ## GrowingList (circuit.py:19-26) over pin lists -/
abbrev Pins := List (Option Nat)

/-- the line at pin `j`, `none` for `None` and for positions beyond the end -/
def pin (l : Pins) (j : Nat) : Option Nat := l.getD j none

/-- `GrowingList.__setitem__`: pad with `None` up to `i`, then store -/
def growSet (l : Pins) (i : Nat) (v : Option Nat) : Pins :=
  if i < l.length then l.set i v else l ++ List.replicate (i - l.length) none ++ [v]

/-- `GrowingList.free_index`: first `None`, else the length -/
def freeIndex (l : Pins) : Nat := l.findIdx (·.isNone)

/-! ## heaps
A heap is a total function id ↦ object, wrapped in a structure so that compiled code evaluates heap-valued
definitions once (a bare function type would be eta-expanded and re-run on every lookup). -/
structure Heap (α : Type) where
  get : Nat → α
instance {α : Type} : CoeFun (Heap α) (fun _ => Nat → α) := ⟨Heap.get⟩

def upd {α : Type} (f : Heap α) (i : Nat) (v : α) : Heap α := ⟨fun j => if j = i then v else f.get j⟩

structure NodeObj where
  name : String := ""
  kind : String := ""
  index : Nat := 0
  ins : Pins := []
  outs : Pins := []
  alive : Bool := false          -- `self.circuit is not None`
  deriving Inhabited

structure LineObj where
  index : Nat := 0
  driver : Option Nat := none
  driverPin : Nat := 0
  reader : Option Nat := none
  readerPin : Nat := 0
  alive : Bool := false          -- `self.circuit is not None`
  deriving Inhabited

abbrev Dict := List (String × Nat)
def hasKey (d : Dict) (k : String) : Bool := d.any (·.1 == k)
def lookup (d : Dict) (k : String) : Option Nat := (d.find? (·.1 == k)).map (·.2)
def eraseKey (d : Dict) (k : String) : Dict := d.filter (·.1 != k)

structure Circ where
  nobj : Heap NodeObj
  lobj : Heap LineObj
  nextN : Nat
  nextL : Nat
  nodes : List Nat
  lines : List Nat
  io : List Nat
  cells : Dict
  forks : Dict

def empty : Circ :=
  { nobj := ⟨fun _ => default⟩, lobj := ⟨fun _ => default⟩, nextN := 0, nextL := 0,
    nodes := [], lines := [], io := [], cells := [], forks := [] }

/-! ## IndexList.__delitem__ (circuit.py:29-36) -/
/-- returns the new list and the element that was moved into the hole (its `index` must be rewritten to `k`) -/
def idxDel (l : List Nat) (k : Nat) : List Nat × Option Nat :=
  if k + 1 = l.length then (l.dropLast, none)                    -- index == len(self) - 1
  else match l.getLast? with
    | some last => (l.dropLast.set k last, some last)              -- replacement = self.pop(); self[index] = replacement
    | none => (l, none)                                            -- pop from empty list: IndexError

/-! ## Node (circuit.py:45-84, 96-110) -/
/-- the two `assert name not in ...` of the constructor -/
def nameFree (c : Circ) (name kind : String) : Bool :=
  if kind == FORK then !(hasKey c.forks name) else !(hasKey c.cells name)

def addNode (c : Circ) (name kind : String) : Circ :=
  let i := c.nextN                                                 -- the new object
  let o : NodeObj := { name := name, kind := kind, index := c.nodes.length, ins := [], outs := [], alive := true }
  { c with
    forks := if kind == FORK then c.forks ++ [(name, i)] else c.forks        -- circuit.forks[name] = self
    cells := if kind == FORK then c.cells else c.cells ++ [(name, i)]        -- circuit.cells[name] = self
    nodes := c.nodes ++ [i]                                        -- circuit.nodes.append(self)
    nobj := upd c.nobj i o
    nextN := i + 1 }

/-- `replacement.index = index` for the element that `IndexList.__delitem__` moved into the hole -/
def reindexN (h : Heap NodeObj) (moved : Option Nat) (k : Nat) : Heap NodeObj :=
  match moved with
  | some m => upd h m { h m with index := k }
  | none => h

def removeNode (c : Circ) (i : Nat) : Circ :=
  let n := c.nobj i
  if n.alive then                                                  -- if self.circuit is not None
    let r := idxDel c.nodes n.index                                -- del self.circuit.nodes[self.index]
    let h := reindexN c.nobj r.2 n.index
    { c with
      nodes := r.1
      forks := if n.kind == FORK then eraseKey c.forks n.name else c.forks     -- del self.circuit.forks[self.name]
      cells := if n.kind == FORK then c.cells else eraseKey c.cells n.name     -- del self.circuit.cells[self.name]
      nobj := upd h i { h i with alive := false } }                -- self.circuit = None
  else c

/-! ## Line (circuit.py:138-188) -/
def addLine (c : Circ) (d : Nat) (dp : Option Nat) (r : Nat) (rp : Option Nat) : Circ :=
  let l := c.nextL                                                 -- the new object
  let dpin := dp.getD (freeIndex (c.nobj d).outs)                  -- driver.outs.free_index()
  let rpin := rp.getD (freeIndex (c.nobj r).ins)                   -- reader.ins.free_index()
  let o : LineObj := { index := c.lines.length, driver := some d, driverPin := dpin,
                       reader := some r, readerPin := rpin, alive := true }
  let nobj1 := upd c.nobj d { c.nobj d with outs := growSet (c.nobj d).outs dpin (some l) }
  let nobj2 := upd nobj1 r { nobj1 r with ins := growSet (nobj1 r).ins rpin (some l) }
  { c with lobj := upd c.lobj l o, nextL := l + 1, lines := c.lines ++ [l], nobj := nobj2 }

/-- `for i, l in enumerate(self.driver.outs): l.driver_pin = i` (a `None` entry raises in Python) -/
def renumber (lobj : Heap LineObj) : Pins → Nat → Heap LineObj
  | [], _ => lobj
  | none :: rest, k => renumber lobj rest (k + 1)
  | some l :: rest, k => renumber (upd lobj l { lobj l with driverPin := k }) rest (k + 1)

def reindexL (h : Heap LineObj) (moved : Option Nat) (k : Nat) : Heap LineObj :=
  match moved with
  | some m => upd h m { h m with index := k }
  | none => h

/-- `if self.driver is not None: ...` (circuit.py:179-183) -/
def detachDriver (c : Circ) (l : Nat) : Circ :=
  let o := c.lobj l
  match o.driver with
  | none => c
  | some d =>
    let n := c.nobj d
    let outs1 := growSet n.outs o.driverPin none                   -- self.driver.outs[self.driver_pin] = None
    if n.kind == FORK then                                         -- squeeze outputs
      let outs2 := outs1.eraseIdx o.driverPin                      -- del self.driver.outs[self.driver_pin]
      { c with nobj := upd c.nobj d { n with outs := outs2 }, lobj := renumber c.lobj outs2 0 }
    else { c with nobj := upd c.nobj d { n with outs := outs1 } }

/-- `if self.reader is not None: self.reader.ins[self.reader_pin] = None` -/
def detachReader (c : Circ) (l : Nat) : Circ :=
  let o := c.lobj l
  match o.reader with
  | none => c
  | some r => { c with nobj := upd c.nobj r { c.nobj r with ins := growSet (c.nobj r).ins o.readerPin none } }

/-- `if self.circuit is not None: del self.circuit.lines[self.index]` -/
def delLine (c : Circ) (l : Nat) : Circ :=
  let o := c.lobj l
  if o.alive then
    let r := idxDel c.lines o.index
    { c with lines := r.1, lobj := reindexL c.lobj r.2 o.index }
  else c

/-- `self.driver = None; self.reader = None; self.circuit = None` -/
def killLine (c : Circ) (l : Nat) : Circ :=
  { c with lobj := upd c.lobj l { c.lobj l with driver := none, reader := none, alive := false } }

def removeLine (c : Circ) (l : Nat) : Circ := killLine (delLine (detachReader (detachDriver c l) l) l) l

def ioAppend (c : Circ) (i : Nat) : Circ := { c with io := c.io ++ [i] }

/-- `get_or_add_fork` (circuit.py:334) -/
def getOrAddFork (c : Circ) (name : String) : Circ := if hasKey c.forks name then c else addNode c name FORK

/-! ## eliminate_1to1_forks (circuit.py:347-371) -/
/-- `Node.__eq__`: name and kind (`n in ios` goes through `__hash__`/`__eq__`) -/
def sameNode (a b : NodeObj) : Bool := a.name == b.name && a.kind == b.kind

def elimStep (c : Circ) (n : Nat) : Circ :=
  let o := c.nobj n
  if c.io.any (fun j => sameNode (c.nobj j) o) then c else        -- if n in ios: continue
  if o.outs.length != 1 then c else                                -- if len(n.outs) != 1: continue
  match pin o.ins 0, pin o.outs 0 with                             -- in_line = n.ins[0]; out_line = n.outs[0]
  | some il, some ol =>
    let outReader := (c.lobj ol).reader
    let outReaderPin := (c.lobj ol).readerPin
    let c1 := removeNode c n
    let c2 := removeLine c1 ol
    let c3 : Circ := { c2 with lobj := upd c2.lobj il { c2.lobj il with reader := outReader, readerPin := outReaderPin } }
    match outReader with
    | some r => { c3 with nobj := upd c3.nobj r { c3.nobj r with ins := growSet (c3.nobj r).ins outReaderPin (some il) } }
    | none => c3                                                   -- None.ins: AttributeError
  | _, _ => c                                                      -- IndexError / AttributeError in Python

def elim (c : Circ) : Circ := (c.forks.map (·.2)).foldl elimStep c    -- for n in list(self.forks.values())

/-! ## copy (circuit.py:450-466) -/
def lookupNode (c : Circ) (name kind : String) : Option Nat :=
  if kind == FORK then lookup c.forks name else lookup c.cells name

def copyLine (src : Circ) (acc : Circ) (l : Nat) : Circ :=
  let o := src.lobj l
  match o.driver, o.reader with
  | some d, some r =>
    match lookupNode acc (src.nobj d).name (src.nobj d).kind, lookupNode acc (src.nobj r).name (src.nobj r).kind with
    | some d', some r' => addLine acc d' (some o.driverPin) r' (some o.readerPin)
    | _, _ => acc                                                  -- KeyError
  | _, _ => acc

def copyIo (src : Circ) (acc : Circ) (i : Nat) : Circ :=
  match lookupNode acc (src.nobj i).name (src.nobj i).kind with
  | some j => ioAppend acc j
  | none => acc                                                    -- KeyError

def copy (c : Circ) : Circ :=
  let c1 := c.nodes.foldl (fun acc i => addNode acc (c.nobj i).name (c.nobj i).kind) empty
  let c2 := c.lines.foldl (copyLine c) c1
  c.io.foldl (copyIo c) c2

/-! ## __getstate__ / __setstate__ (circuit.py:468-489) -/
structure State where
  nodes : List (String × String)
  lines : List (Nat × Nat × Nat × Nat)
  io : List Nat

def getState (c : Circ) : State :=
  { nodes := c.nodes.map fun i => ((c.nobj i).name, (c.nobj i).kind),
    lines := c.lines.map fun l =>
      let o := c.lobj l
      (((o.driver.map fun d => (c.nobj d).index).getD 0), o.driverPin,
       ((o.reader.map fun r => (c.nobj r).index).getD 0), o.readerPin),
    io := c.io.map fun i => (c.nobj i).index }

def setLine (acc : Circ) (s : Nat × Nat × Nat × Nat) : Circ :=
  match acc.nodes[s.1]?, acc.nodes[s.2.2.1]? with
  | some d, some r => addLine acc d (some s.2.1) r (some s.2.2.2)
  | _, _ => acc                                                    -- IndexError

def setIo (acc : Circ) (k : Nat) : Circ :=
  match acc.nodes[k]? with
  | some i => ioAppend acc i
  | none => acc

def setState (s : State) : Circ :=
  let c1 := s.nodes.foldl (fun acc p => addNode acc p.1 p.2) empty
  let c2 := s.lines.foldl setLine c1
  s.io.foldl setIo c2

def pickle (c : Circ) : Circ := setState (getState c)

/-! ## stats (circuit.py:310-332): a `defaultdict(int)` as association list in insertion order -/
def isInfixChars : List Char → List Char → Bool
  | pat, [] => pat.isEmpty
  | pat, c :: cs => pat.isPrefixOf (c :: cs) || isInfixChars pat cs
def hasSub (pat s : String) : Bool := isInfixChars pat.toList s.toList
def lower (s : String) : String := String.ofList (s.toList.map Char.toLower)

/-- `d[k] += v` on a defaultdict -/
def bump (d : Dict) (k : String) (v : Nat) : Dict :=
  if hasKey d k then d.map fun e => if e.1 == k then (e.1, e.2 + v) else e else d ++ [(k, v)]
/-- `d[k] = v` -/
def setKey (d : Dict) (k : String) (v : Nat) : Dict :=
  if hasKey d k then d.map fun e => if e.1 == k then (e.1, v) else e else d ++ [(k, v)]

def statsCell (d : Dict) (kind : String) : Dict :=
  let d := bump d kind 1
  let lk := lower kind
  if hasSub "dff" lk then bump d "__dff__" 1
  else if hasSub "latch" lk then bump d "__latch__" 1
  else if !(hasSub "put" lk) then bump d "__comb__" 1
  else d

def stats (c : Circ) : Dict :=
  let d : Dict := [("__node__", c.nodes.length), ("__cell__", c.cells.length), ("__fork__", c.forks.length),
                   ("__io__", c.io.length), ("__line__", c.lines.length)]
  let d := c.cells.foldl (fun d e => statsCell d (c.nobj e.2).kind) d
  let d := bump d "__dff__" 0          -- reading a missing key of a defaultdict inserts it
  let d := bump d "__latch__" 0
  setKey d "__seq__" ((lookup d "__dff__").getD 0 + (lookup d "__latch__").getD 0)

/-! ## edit operations with operands chosen by current index, and well-formed use (DESIGN.md section 7) -/
inductive Op
  | addNode (name kind : String)
  | addLine (di : Nat) (dp : Option Nat) (ri : Nat) (rp : Option Nat)
  | removeLine (li : Nat)
  | removeNode (ni : Nat)
  | ioAppend (ni : Nat)
  | getFork (name : String)
  | elim
  | copy
  | pickle
  deriving Repr, Inhabited

/-- explicit output pin `p` of node object `n` may be used: the position is free, and on a fork it is exactly `len(outs)` -/
def outPinOK (n : NodeObj) : Option Nat → Bool
  | none => true
  | some p => (pin n.outs p).isNone && (n.kind != FORK || p == n.outs.length)
def inPinOK (n : NodeObj) : Option Nat → Bool
  | none => true
  | some p => (pin n.ins p).isNone

/-- a node that `eliminate_1to1_forks` will remove must have exactly one input line, at pin 0 -/
def elimNodeOK (c : Circ) (n : Nat) : Bool :=
  let o := c.nobj n
  c.io.any (fun j => sameNode (c.nobj j) o) || o.outs.length != 1 ||
  ((pin o.ins 0).isSome && (o.ins.drop 1).all (·.isNone))
def elimPre (c : Circ) : Bool := c.forks.all fun e => elimNodeOK c e.2

def pre (c : Circ) : Op → Bool
  | .addNode name kind => nameFree c name kind
  | .addLine di dp ri rp =>
    match c.nodes[di]?, c.nodes[ri]? with
    | some d, some r => outPinOK (c.nobj d) dp && inPinOK (c.nobj r) rp
    | _, _ => false
  | .removeLine li => li < c.lines.length
  | .removeNode ni =>
    match c.nodes[ni]? with
    | some i => (c.nobj i).ins.all (·.isNone) && (c.nobj i).outs.all (·.isNone) && !(c.io.contains i)
    | none => false
  | .ioAppend ni => ni < c.nodes.length
  | .getFork _ => true
  | .elim => elimPre c
  | .copy => true
  | .pickle => true

def step (c : Circ) : Op → Circ
  | .addNode name kind => addNode c name kind
  | .addLine di dp ri rp =>
    match c.nodes[di]?, c.nodes[ri]? with
    | some d, some r => addLine c d dp r rp
    | _, _ => c
  | .removeLine li => match c.lines[li]? with | some l => removeLine c l | none => c
  | .removeNode ni => match c.nodes[ni]? with | some i => removeNode c i | none => c
  | .ioAppend ni => match c.nodes[ni]? with | some i => ioAppend c i | none => c
  | .getFork name => getOrAddFork c name
  | .elim => elim c
  | .copy => copy c
  | .pickle => pickle c

/-- replay a history; `none` as soon as an operation is not a well-formed use -/
def run (c : Circ) : List Op → Option Circ
  | [] => some c
  | op :: rest => if pre c op then run (step c op) rest else none

/-! ## the invariant `WFc` (DESIGN.md C09) and its Boolean checker -/
def keysNodup (d : Dict) : Prop := (d.map (·.1)).Nodup
instance (d : Dict) : Decidable (keysNodup d) := by unfold keysNodup; infer_instance

/-- everything except gap-freeness of fork outputs (which `copy`/`__setstate__` re-establish only at the end) -/
structure WFc0 (c : Circ) : Prop where
  /-- node indices equal list positions (hence no duplicates) -/
  nidx : ∀ p (h : p < c.nodes.length), (c.nobj c.nodes[p]).index = p
  /-- line indices equal list positions (hence no duplicates) -/
  lidx : ∀ p (h : p < c.lines.length), (c.lobj c.lines[p]).index = p
  /-- model bookkeeping: ids in the containers are allocated and the objects are attached to this circuit -/
  nfresh : ∀ i ∈ c.nodes, i < c.nextN ∧ (c.nobj i).alive = true
  lfresh : ∀ l ∈ c.lines, l < c.nextL ∧ (c.lobj l).alive = true
  /-- dictionaries: keys are unique (a Python dict) ... -/
  ckeys : keysNodup c.cells
  fkeys : keysNodup c.forks
  /-- ... every entry is a node of the circuit of that class stored under its own name ... -/
  cellsSound : ∀ e ∈ c.cells, e.2 ∈ c.nodes ∧ (c.nobj e.2).kind ≠ FORK ∧ (c.nobj e.2).name = e.1
  forksSound : ∀ e ∈ c.forks, e.2 ∈ c.nodes ∧ (c.nobj e.2).kind = FORK ∧ (c.nobj e.2).name = e.1
  /-- ... and every node is found under its name in the dictionary of its class -/
  cellsComplete : ∀ i ∈ c.nodes, (c.nobj i).kind ≠ FORK → ((c.nobj i).name, i) ∈ c.cells
  forksComplete : ∀ i ∈ c.nodes, (c.nobj i).kind = FORK → ((c.nobj i).name, i) ∈ c.forks
  /-- each line: driver and reader are nodes of the circuit whose recorded pins hold that line -/
  ldrv : ∀ l ∈ c.lines, ∃ d, (c.lobj l).driver = some d ∧ d ∈ c.nodes ∧ pin (c.nobj d).outs (c.lobj l).driverPin = some l
  lrdr : ∀ l ∈ c.lines, ∃ r, (c.lobj l).reader = some r ∧ r ∈ c.nodes ∧ pin (c.nobj r).ins (c.lobj l).readerPin = some l
  /-- each non-`None` pin entry is a line of the circuit that records exactly this node and pin -/
  outsBack : ∀ i ∈ c.nodes, ∀ p l, pin (c.nobj i).outs p = some l →
    l ∈ c.lines ∧ (c.lobj l).driver = some i ∧ (c.lobj l).driverPin = p
  insBack : ∀ i ∈ c.nodes, ∀ p l, pin (c.nobj i).ins p = some l →
    l ∈ c.lines ∧ (c.lobj l).reader = some i ∧ (c.lobj l).readerPin = p
  /-- ports are nodes of the circuit -/
  ioIn : ∀ i ∈ c.io, i ∈ c.nodes

structure WFc (c : Circ) : Prop extends WFc0 c where
  /-- fork outputs are gap-free -/
  forkFull : ∀ i ∈ c.nodes, (c.nobj i).kind = FORK → none ∉ (c.nobj i).outs

/-- `f p l` for every pin position `p` that holds a line `l` -/
def pinsAll (l : Pins) (f : Nat → Nat → Bool) : Bool :=
  (List.range l.length).all fun p => match pin l p with | none => true | some x => f p x

def invOK (c : Circ) : Bool :=
  (List.range c.nodes.length).all (fun p => (c.nobj (c.nodes.getD p 0)).index == p) &&
  (List.range c.lines.length).all (fun p => (c.lobj (c.lines.getD p 0)).index == p) &&
  c.nodes.all (fun i => decide (i < c.nextN) && (c.nobj i).alive) &&
  c.lines.all (fun l => decide (l < c.nextL) && (c.lobj l).alive) &&
  decide (keysNodup c.cells) && decide (keysNodup c.forks) &&
  c.cells.all (fun e => c.nodes.contains e.2 && (c.nobj e.2).kind != FORK && (c.nobj e.2).name == e.1) &&
  c.forks.all (fun e => c.nodes.contains e.2 && (c.nobj e.2).kind == FORK && (c.nobj e.2).name == e.1) &&
  c.nodes.all (fun i => (c.nobj i).kind == FORK || c.cells.contains ((c.nobj i).name, i)) &&
  c.nodes.all (fun i => (c.nobj i).kind != FORK || c.forks.contains ((c.nobj i).name, i)) &&
  c.lines.all (fun l => match (c.lobj l).driver with
    | some d => c.nodes.contains d && pin (c.nobj d).outs (c.lobj l).driverPin == some l
    | none => false) &&
  c.lines.all (fun l => match (c.lobj l).reader with
    | some r => c.nodes.contains r && pin (c.nobj r).ins (c.lobj l).readerPin == some l
    | none => false) &&
  c.nodes.all (fun i => pinsAll (c.nobj i).outs fun p l =>
    c.lines.contains l && (c.lobj l).driver == some i && (c.lobj l).driverPin == p) &&
  c.nodes.all (fun i => pinsAll (c.nobj i).ins fun p l =>
    c.lines.contains l && (c.lobj l).reader == some i && (c.lobj l).readerPin == p) &&
  c.nodes.all (fun i => (c.nobj i).kind != FORK || (c.nobj i).outs.all (·.isSome)) &&
  c.io.all (fun i => c.nodes.contains i)

end KV.CircObj
