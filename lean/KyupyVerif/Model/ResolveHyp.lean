import KyupyVerif.Model.SubstSem
/-! C10, audit 2 finding 6: decidable hypotheses of the whole-run PROGRESS theorem `C10.resolve_run_isSome`.  Unlike `resolveGenOKB`
they do NOT contain the success of `substitute` (`none ⇒ true`), and they do NOT contain the circuit-wide invariants `wfNoTrail` /
`forksDenseB` of the intermediate circuits (those are carried from one substitution to the next by `C10.substitute_preserves_inv`).
`resolveInstB` follows from the static hypothesis `resolveStaticB` (Model/ResolveStatic.lean, original circuit only):
`C10.resolveInstB_of_resolveStaticB`. -/
namespace KV.Transform
open KV

/-- library side (static): every implementation of the library satisfies `implSomeOKB` (for the built-in libraries:
    `C10.library_impls_ok`) -/
def libOKB (lib : Lib) : Bool := lib.all fun e => implSomeOKB e.2

/-- the per-INSTANCE clauses of `substSomeHypB`: the cell is neither port nor fork, no ignored pin is driven by the cell itself, the
    names of the added nodes are fresh, the cell has no more pins than the implementation has ports -/
def instHypB (h : NNet) (c : Nat) (m : NNet) : Bool :=
  !(h.net.io.contains c) && !((h.net.node c).isFork) && noSelfIgnB h c m && addFreshB h c m && arityOKB h c m

/-- every library instance met along the key list satisfies the per-instance clauses `instHypB` on the circuit as it is when its
    substitution starts.  Where `substitute` returns `none` nothing more is asked: the predicate does not contain success. -/
def resolveInstB (lib : Lib) : List (String × Bool) → NNet → Bool
  | [], _ => true
  | key :: rest, cur =>
    let i := cur.lookup key
    if i < cur.net.nodes.size then
      match lib.find (cur.net.node i).kind with
      | some impl =>
        instHypB cur i impl &&
          (match substitute cur i impl with
           | some nxt => resolveInstB lib rest nxt
           | none => true)
      | none => resolveInstB lib rest cur
    else resolveInstB lib rest cur

end KV.Transform
