import KyupyVerif.Model.Sig
/-! Hand model (M) of `LogicSim.c_prop(inject_cb=…)` (logic_sim.py:54-263) at signal level.

After every op row the freshly computed value of the row's output signal is stored; **only when the output index is a line**
(`if o0_idx < len(self.circuit.lines)`: rows of nodes whose output pin is unconnected write the scratch slot `tmp_idx` and are
NOT reported) the callback is invoked with (line, writable view of the stored value) and what it leaves there is what later rows
read. `nl` = `len(circuit.lines)`. The call log has one entry per LINE row, in row order: (line index, value handed over).

Tied to the code by the driver command `cblog` (Drv/Callback.lean; harness/c16.py compares line sequence and values of the real
recorded calls, with a recording and with an overwriting callback, in all three logics). -/
namespace KV.C16
open KV KV.Sig

/-- the row semantics followed by the (guarded) callback -/
def cbSem {α} (nl : Nat) (sem : Op → List α → α) (cb : Nat → α → α) : Op → List α → α :=
  fun op xs => if op.out < nl then cb op.out (sem op xs) else sem op xs

def execCbOp {α} (nl : Nat) (sem : Op → List α → α) (cb : Nat → α → α) (env : Nat → α) (op : Op) : Nat → α :=
  upd env op.out (cbSem nl sem cb op (op.ins.map env))

def execCb {α} (nl : Nat) (sem : Op → List α → α) (cb : Nat → α → α) (ops : List Op) (env : Nat → α) : Nat → α :=
  ops.foldl (execCbOp nl sem cb) env

/-- the sequence of callback invocations: (line, freshly computed value); rows writing a non-line slot are skipped -/
def cbLog {α} (nl : Nat) (sem : Op → List α → α) (cb : Nat → α → α) : List Op → (Nat → α) → List (Nat × α)
  | [], _ => []
  | op :: ops, env =>
    if op.out < nl then (op.out, sem op (op.ins.map env)) :: cbLog nl sem cb ops (execCbOp nl sem cb env op)
    else cbLog nl sem cb ops (execCbOp nl sem cb env op)

/-- signals possibly influenced by `x`: `x` itself and, in row order, the output of every row reading an influenced signal -/
def fanoutStep (t : List Nat) (op : Op) : List Nat := if op.ins.any (t.contains ·) then op.out :: t else t
def fanout (x : Nat) (ops : List Op) : List Nat := ops.foldl fanoutStep [x]

/-! ### on arrays (what the compiled driver runs; `cbLogA_eq`, `execCbA_eq` below) -/

def execCbA {α} (nl : Nat) (d : α) (sem : Op → List α → α) (cb : Nat → α → α) (ops : List Op) (e : Array α) : Array α :=
  execArrG d (cbSem nl sem cb) ops e

def cbLogA {α} (nl : Nat) (d : α) (sem : Op → List α → α) (cb : Nat → α → α) : List Op → Array α → List (Nat × α)
  | [], _ => []
  | op :: ops, e =>
    if op.out < nl then
      (op.out, sem op (op.ins.map fun i => e.getD i d)) :: cbLogA nl d sem cb ops (execArrStep d (cbSem nl sem cb) e op)
    else cbLogA nl d sem cb ops (execArrStep d (cbSem nl sem cb) e op)

theorem execArrStep_env {α} (d : α) (sem : Op → List α → α) (e : Array α) (op : Op) (hout : op.out < e.size) :
    (fun i => (execArrStep d sem e op).getD i d) = execOpG sem (fun i => e.getD i d) op := by
  funext j
  simp only [execOpG, upd, execArrStep]
  by_cases hj : j = op.out
  · subst hj; simp [Array.getD_eq_getD_getElem?, hout]
  · simp only [hj, if_false]
    simp only [Array.getD_eq_getD_getElem?]
    rw [Array.getElem?_setIfInBounds_ne (Ne.symm hj)]

theorem execCbA_eq {α} (nl : Nat) (d : α) (sem : Op → List α → α) (cb : Nat → α → α) (ops : List Op) (e : Array α)
    (hb : ∀ op ∈ ops, op.out < e.size) (l : Nat) :
    (execCbA nl d sem cb ops e).getD l d = execCb nl sem cb ops (fun i => e.getD i d) l :=
  execArrG_eq d (cbSem nl sem cb) ops e hb l

theorem cbLogA_eq {α} (nl : Nat) (d : α) (sem : Op → List α → α) (cb : Nat → α → α) (ops : List Op) (e : Array α)
    (hb : ∀ op ∈ ops, op.out < e.size) :
    cbLogA nl d sem cb ops e = cbLog nl sem cb ops (fun i => e.getD i d) := by
  induction ops generalizing e with
  | nil => rfl
  | cons op ops ih =>
    have hsz := execArrStep_size d (cbSem nl sem cb) e op
    have h := ih (execArrStep d (cbSem nl sem cb) e op) (fun o ho => by rw [hsz]; exact hb o (List.mem_cons_of_mem _ ho))
    rw [execArrStep_env d _ e op (hb op List.mem_cons_self)] at h
    simp only [cbLogA, cbLog, h]
    rfl

end KV.C16
