import KyupyVerif.Model.Wave
import KyupyVerif.Model.Sig
/-! Signal-level model of a `WaveSim` propagation: every signal carries a waveform (entries before the
terminator + the terminator); an op row evaluates `waveEval` with the delay tables of its four operand
lines and the capacity of its output signal (wave_sim.py:155-264, 271-280). -/
namespace KV.Wave
open KV.Sig

structure Wv where
  ents : List T
  term : T
deriving DecidableEq, Repr

def Wv.empty : Wv := ⟨[], T.tmax⟩
/-- initial value: the waveform starts with `tmin` -/
def Wv.init (w : Wv) : Bool := w.ents.head? == some T.tmin
/-- final value: parity of the number of entries -/
def Wv.final (w : Wv) : Bool := w.ents.length % 2 == 1

structure WCfg where
  delay : Nat → Bool → Bool → Int     -- delays[line, input polarity, output polarity] of the selected data set
  cap : Nat → Nat                      -- c_caps per signal index

/-- delay table of operand slot `i`. An op row may list eight indices: the first four are the signals whose
    waveforms are read (after fork stripping: the stems), the last four the lines whose delay entries apply
    (the fan-out branches). With four indices both coincide. -/
def opDelays (cfg : WCfg) (op : Op) : Delays := fun i p q => cfg.delay (op.ins.getD (4 + i) (op.ins.getD i 0)) p q
def slot (xs : List Wv) (i : Fin 4) : Wv := xs.getD i.val Wv.empty

def waveSem (cfg : WCfg) (op : Op) (xs : List Wv) : Wv :=
  let r := waveEval op.code (opDelays cfg op) (fun i => (slot xs i).ents) (fun i => (slot xs i).term) (cfg.cap op.out)
  ⟨r.1, r.2.1⟩

/-- switching-activity counts of the same evaluation (`nrise`, `nfall`) -/
def waveCounts (cfg : WCfg) (op : Op) (xs : List Wv) : Nat × Nat :=
  let r := waveEval op.code (opDelays cfg op) (fun i => (slot xs i).ents) (fun i => (slot xs i).term) (cfg.cap op.out)
  (r.2.2.1, r.2.2.2)

def simWave (cfg : WCfg) (ops : List Op) (env : Nat → Wv) : Nat → Wv := execG (waveSem cfg) ops env

/-- waveform on an input line from `(initial, time, final)` as `s_to_c` builds it -/
def stimWave (i : Bool) (t : Int) (f : Bool) : Wv :=
  match i, f with
  | false, false => ⟨[], T.tmax⟩
  | false, true => ⟨[T.fin t], T.tmax⟩
  | true, false => ⟨[T.tmin, T.fin t], T.tmax⟩
  | true, true => ⟨[T.tmin], T.tmax⟩

end KV.Wave
