import KyupyVerif.Model.BenchText
/-! # Text level of `kyupy.verilog`: lexer + grammar of the lark parser (property C11)

`verilog.py` hands this grammar to `Lark(GRAMMAR, parser="lalr")` (contextual lexer):
```
start: (module)*
module: "module" name parameters ";" (_statement)* "endmodule"
parameters: "(" [ _namelist ] ")"
_statement: input | output | inout | tri | wire | assign | instantiation
input: "input" range? _namelist ";"        (output, inout, tri, wire alike)
assign: "assign" sigsel "=" sigsel ";"
instantiation: name name "(" [ pin ( "," pin )* ] ")" ";"
pin: namedpin | sigsel
namedpin: "." name "(" sigsel? ")"
range: "[" /[0-9]+/ (":" /[0-9]+/)? "]"
sigsel: name range? | concat
concat: "{" sigsel ( "," sigsel )*  "}"
_namelist: name ( "," name )*
name: ( /[a-z_][a-z0-9_]*/i | /\\[^\t \r\n]+[\t \r\n]/i | /[0-9]+'[bdh][0-9a-f]+/i )
COMMENT: /\/\*(\*(?!\/)|[^*])*\*\// | /\(\*(\*(?!\))|[^*])*\*\)/ |  "//" /(.)*/ NEWLINE
%ignore ( /\r?\n/ | COMMENT )+
%ignore /[\t \f]+/
```
How lark (0.12) reads it (read off `lark/lexer.py`, `load_grammar.py` and the LALR table of this grammar, 110 states):

* **Ignored text** (`skipV`): blanks, tabs, form feeds, `\n`, `\r\n`; `/* … */` up to the FIRST `*/` behind the opener; `(* … *)`
  likewise with `*)`; `// …` up to and including the next `\n` — a `//` comment that is not closed by a `\n` is NOT a comment
  (`NEWLINE` is part of the terminal), the `/` is then an unexpected character.  A lone `\r`, an unclosed `/*`, a `/` followed
  by anything else are lexical errors; an unclosed `(*` leaves the token `(` followed by the unexpected `*`.  The ignore
  terminals come first in every scanner (largest width), so `(*` always starts an attribute when it is closed.
* **Tokens.**  The three `name` patterns and `/[0-9]+/` are anonymous terminals; they and the one-character literals start
  with different characters, except digits: `/[0-9]+/` is accepted only behind `[` and `:` (context `num`), the sized constant
  `[0-9]+'[bdh][0-9a-f]+` only where a name may stand (context `gen`) — never both, so scanner order plays no role.  All
  patterns are greedy and there is no alternative match (`nextRaw`).  `re.IGNORECASE` on `str` makes `[a-z]` also match
  U+0130, U+0131, U+017F, U+212A (`isLetter`); `[0-9a-f]`, `[bdh]` gain no character.  An escaped identifier is `\`, at least
  one character other than tab, blank, `\r`, `\n`, and exactly one of these four as terminator (a form feed does NOT end it).
  The `name` callback strips backslash and terminator; a sized constant is a `name` whose text is the token (`word`).
* **Keywords** are literals that match the identifier pattern: lark re-types an identifier token whose whole text is a
  keyword — only in parser states that accept the keyword.  From the table: `endmodule assign input output inout tri wire`
  are keywords exactly where a statement may begin (behind `;`); `module` is NOT among them (a cell type may be called
  `module`); everywhere else (`wire input;`, `INV_X1 assign (…)`, `module module (…)`) these words are plain names, and an
  escaped identifier is never a keyword.  At the top level (start of the text, behind `endmodule`) the scanner holds only
  the literal `module`, matched as a prefix without looking at what follows: `modulefoo (a);` declares module `foo`
  (context `top`).
* The parser is LALR(1); the language is the one of the grammar.  `pModules` … `pSel` read it by recursive descent, pulling
  one token at a time in the context the LALR state prescribes, as lark's parser pulls from the contextual lexer.

The result is the tree lark builds after the `name` callback: `VModule` (names are strings, a sized constant is the name
`4'b0011`).  `toR` hands it to the post-parse model (`Model/Netlist.lean`: `RStmt`, `transform`, `module`): `sigsel` decides
by the apostrophe whether a name without range is a sized constant; positional pins make `module()` raise.

`printVerilog` is the canonical printer (token stream `modulesT`, canonical gaps `layout`).  Proofs: `Proofs/VerilogText*.lean`;
tie to the real parser: driver command `verilogparse`, harness/c11.py (`text_stream`). -/
namespace KV.VerilogText
open KV.BenchText (isLetter)
open KV.Netlist (RStmt Sel DKind)

/-! ## characters -/

def isIdStart (c : Char) : Bool := isLetter c || c == '_'
def isIdChar (c : Char) : Bool := isLetter c || c.isDigit || c == '_'
/-- `[0-9a-f]` under `re.IGNORECASE` -/
def isHex (c : Char) : Bool := c.isDigit || (97 ≤ c.toNat && c.toNat ≤ 102) || (65 ≤ c.toNat && c.toNat ≤ 70)
/-- `[bdh]` under `re.IGNORECASE` -/
def isBase (c : Char) : Bool := c == 'b' || c == 'd' || c == 'h' || c == 'B' || c == 'D' || c == 'H'
/-- `[\t \r\n]`: ends an escaped identifier -/
def isEscTerm (c : Char) : Bool := c == '\t' || c == ' ' || c == '\r' || c == '\n'
def notEscTerm (c : Char) : Bool := !isEscTerm c
/-- the one-character literals of the grammar -/
def isSym (c : Char) : Bool :=
  c == ';' || c == '(' || c == ')' || c == ',' || c == '.' || c == '[' || c == ']' || c == ':' || c == '=' || c == '{' || c == '}'

/-! ## ignored text -/

/-- where the scan of ignored text is -/
inductive Mode
  | ws      -- between items
  | cr      -- behind `\r`: `\n` must follow
  | slash   -- behind `/`: `*` or `/` must follow
  | lc      -- inside `// …`
  | bc      -- inside `/* …`
  | bcs     -- inside `/* …`, behind a `*`
  | lp      -- behind `(`: an attribute if `*` follows
  | at      -- inside `(* …`
  | ats     -- inside `(* …`, behind a `*`
deriving DecidableEq, Repr

/-- the two `%ignore` terminals applied repeatedly at the front of the text: what is left; `none`: a lexical error inside
the ignored text (the parse is rejected whatever the parser state) -/
def skipV : Mode → List Char → Option (List Char)
  | .ws, [] => some []
  | .lp, [] => some ['(']
  | _, [] => none
  | .ws, c :: r =>
    if c == ' ' || c == '\t' || c == '\x0c' || c == '\n' then skipV .ws r
    else if c == '\r' then skipV .cr r
    else if c == '/' then skipV .slash r
    else if c == '(' then skipV .lp r
    else some (c :: r)
  | .cr, c :: r => if c == '\n' then skipV .ws r else none
  | .slash, c :: r => if c == '*' then skipV .bc r else if c == '/' then skipV .lc r else none
  | .lc, c :: r => if c == '\n' then skipV .ws r else skipV .lc r
  | .bc, c :: r => if c == '*' then skipV .bcs r else skipV .bc r
  | .bcs, c :: r => if c == '/' then skipV .ws r else if c == '*' then skipV .bcs r else skipV .bc r
  | .lp, c :: r => if c == '*' then skipV .at r else some ('(' :: c :: r)
  | .at, c :: r => if c == '*' then skipV .ats r else skipV .at r
  | .ats, c :: r => if c == ')' then skipV .ws r else if c == '*' then skipV .ats r else skipV .at r

/-! ## tokens -/

/-- lexer context = which terminals the LALR state accepts -/
inductive Ctx
  | top   -- start of the text, behind `endmodule`: only the literal `module`
  | num   -- behind `[` and `:` : only `/[0-9]+/`
  | gen   -- everywhere else: names and one-character literals
deriving DecidableEq, Repr

inductive Tok
  | word (s : List Char)    -- identifier or sized constant: the name is the token text
  | esc (s : List Char)     -- escaped identifier: the name without backslash and terminator
  | num (s : List Char)     -- digits (context `num`)
  | sym (c : Char)          -- one-character literal
  | modkw                   -- the literal `module` (context `top`)
  | eof
deriving DecidableEq, Repr, Inhabited

def kwModule : List Char := ['m', 'o', 'd', 'u', 'l', 'e']

/-- `[0-9]+'[bdh][0-9a-f]+` at the front of `c :: r` (`c` a digit) -/
def constTok (c : Char) (r : List Char) : Option (Tok × List Char) :=
  match r.dropWhile Char.isDigit with
  | q :: b :: h :: rest =>
    if q == '\'' && isBase b && isHex h then
      some (.word ((c :: r.takeWhile Char.isDigit) ++ q :: b :: h :: rest.takeWhile isHex), rest.dropWhile isHex)
    else none
  | _ => none

/-- `\[^\t \r\n]+[\t \r\n]` behind the backslash -/
def escTok (r : List Char) : Option (Tok × List Char) :=
  match r.dropWhile notEscTerm with
  | _ :: rest => if (r.takeWhile notEscTerm).isEmpty then none else some (.esc (r.takeWhile notEscTerm), rest)
  | [] => none

/-- the token at the front of a text that does not start with ignorable characters; `none`: `UnexpectedCharacters` -/
def nextRaw : Ctx → List Char → Option (Tok × List Char)
  | _, [] => some (.eof, [])
  | .top, c :: r => if kwModule.isPrefixOf (c :: r) then some (.modkw, (c :: r).drop 6) else none
  | .num, c :: r => if c.isDigit then some (.num (c :: r.takeWhile Char.isDigit), r.dropWhile Char.isDigit) else none
  | .gen, c :: r =>
    if isSym c then some (.sym c, r)
    else if isIdStart c then some (.word (c :: r.takeWhile isIdChar), r.dropWhile isIdChar)
    else if c == '\\' then escTok r
    else if c.isDigit then constTok c r
    else none

/-- one pull of the parser from the contextual lexer -/
def next (ctx : Ctx) (s : List Char) : Option (Tok × List Char) :=
  match skipV .ws s with
  | some s' => nextRaw ctx s'
  | none => none

/-! ## syntax tree (what lark builds, after the `name` callback) -/

/-- `[l:r]` or `[k]` -/
abbrev Range := Nat × Option Nat

/-- `sigsel` -/
inductive VSel
  | sig (n : String) (r : Option Range)
  | cat (items : List VSel)
deriving Repr, Inhabited

mutual
def VSel.decEq : (a b : VSel) → Decidable (a = b)
  | .sig n r, .sig n' r' =>
    if h : n = n' ∧ r = r' then isTrue (by rw [h.1, h.2]) else isFalse (by intro e; cases e; exact h ⟨rfl, rfl⟩)
  | .sig _ _, .cat _ => isFalse (by intro e; cases e)
  | .cat _, .sig _ _ => isFalse (by intro e; cases e)
  | .cat l, .cat l' =>
    match VSel.decEqL l l' with
    | isTrue h => isTrue (by rw [h])
    | isFalse h => isFalse (by intro e; cases e; exact h rfl)
def VSel.decEqL : (a b : List VSel) → Decidable (a = b)
  | [], [] => isTrue rfl
  | [], _ :: _ => isFalse (by intro e; cases e)
  | _ :: _, [] => isFalse (by intro e; cases e)
  | x :: r, y :: s =>
    match VSel.decEq x y, VSel.decEqL r s with
    | isTrue h1, isTrue h2 => isTrue (by rw [h1, h2])
    | isFalse h, _ => isFalse (by intro e; cases e; exact h rfl)
    | _, isFalse h => isFalse (by intro e; cases e; exact h rfl)
end

instance : DecidableEq VSel := VSel.decEq

inductive VPin
  | named (pin : String) (s : Option VSel)
  | pos (s : VSel)
deriving DecidableEq, Repr, Inhabited

inductive VKind | input | output | inout | tri | wire
deriving DecidableEq, Repr, Inhabited

inductive VStmt
  | decl (k : VKind) (r : Option Range) (names : List String)
  | assign (t s : VSel)
  | inst (type name : String) (pins : List VPin)
deriving DecidableEq, Repr, Inhabited

structure VModule where
  name : String
  ports : List String
  stmts : List VStmt
deriving DecidableEq, Repr, Inhabited

/-! ## grammar -/

inductive Kw | endmodule | assign | decl (k : VKind)
deriving DecidableEq, Repr

/-- the literals that are keywords where a statement may begin -/
def kwOf (w : List Char) : Option Kw :=
  if w == ['e', 'n', 'd', 'm', 'o', 'd', 'u', 'l', 'e'] then some .endmodule
  else if w == ['a', 's', 's', 'i', 'g', 'n'] then some .assign
  else if w == ['i', 'n', 'p', 'u', 't'] then some (.decl .input)
  else if w == ['o', 'u', 't', 'p', 'u', 't'] then some (.decl .output)
  else if w == ['i', 'n', 'o', 'u', 't'] then some (.decl .inout)
  else if w == ['t', 'r', 'i'] then some (.decl .tri)
  else if w == ['w', 'i', 'r', 'e'] then some (.decl .wire)
  else none

/-- the `name` rule -/
def tokName : Tok → Option String
  | .word s => some (String.ofList s)
  | .esc s => some (String.ofList s)
  | _ => none

/-- `int(token)` -/
def numVal (ds : List Char) : Nat := Nat.ofDigitChars 10 ds 0

/-- the next token is the literal `c` (nothing is consumed) -/
def peekSym (c : Char) (s : List Char) : Bool :=
  match next .gen s with
  | some (.sym d, _) => d == c
  | _ => false

/-- the literal `c` -/
def expectSym (c : Char) (s : List Char) : Option (List Char) :=
  match next .gen s with
  | some (.sym d, r) => if d == c then some r else none
  | _ => none

/-- `name` -/
def pName (s : List Char) : Option (String × List Char) :=
  match next .gen s with
  | some (t, r) =>
    match tokName t with
    | some n => some (n, r)
    | none => none
  | none => none

/-- `/[0-9]+/` -/
def pNum (s : List Char) : Option (Nat × List Char) :=
  match next .num s with
  | some (.num ds, r) => some (numVal ds, r)
  | _ => none

/-- `range` behind its `[` -/
def pRange (s : List Char) : Option (Range × List Char) :=
  match pNum s with
  | some (l, r1) =>
    if peekSym ':' r1 then
      match expectSym ':' r1 with
      | some r2 =>
        match pNum r2 with
        | some (r, r3) =>
          match expectSym ']' r3 with
          | some r4 => some ((l, some r), r4)
          | none => none
        | none => none
      | none => none
    else
      match expectSym ']' r1 with
      | some r2 => some ((l, none), r2)
      | none => none
  | none => none

/-- `range?` -/
def pRangeOpt (s : List Char) : Option (Option Range × List Char) :=
  if peekSym '[' s then
    match expectSym '[' s with
    | some r =>
      match pRange r with
      | some (rg, r2) => some (some rg, r2)
      | none => none
    | none => none
  else some (none, s)

/-- `( "," name )*` and the one-character literal `e` that ends the list -/
def pNamesTail (e : Char) : Nat → List Char → Option (List String × List Char)
  | 0, _ => none
  | f + 1, s =>
    if peekSym ',' s then
      match expectSym ',' s with
      | some r =>
        match pName r with
        | some (n, r2) =>
          match pNamesTail e f r2 with
          | some (ns, r3) => some (n :: ns, r3)
          | none => none
        | none => none
      | none => none
    else
      match expectSym e s with
      | some r => some ([], r)
      | none => none

/-- `_namelist` and the literal `e` behind it -/
def pNames (e : Char) (f : Nat) (s : List Char) : Option (List String × List Char) :=
  match pName s with
  | some (n, r) =>
    match pNamesTail e f r with
    | some (ns, r2) => some (n :: ns, r2)
    | none => none
  | none => none

mutual
/-- `sigsel: name range? | concat` -/
def pSel : Nat → List Char → Option (VSel × List Char)
  | 0, _ => none
  | f + 1, s =>
    if peekSym '{' s then
      match expectSym '{' s with
      | some r =>
        match pSelList f r with
        | some (items, r2) => some (.cat items, r2)
        | none => none
      | none => none
    else
      match pName s with
      | some (n, r) =>
        match pRangeOpt r with
        | some (rg, r2) => some (.sig n rg, r2)
        | none => none
      | none => none
/-- `sigsel ( "," sigsel )* "}"` -/
def pSelList : Nat → List Char → Option (List VSel × List Char)
  | 0, _ => none
  | f + 1, s =>
    match pSel f s with
    | some (x, r) =>
      if peekSym ',' r then
        match expectSym ',' r with
        | some r2 =>
          match pSelList f r2 with
          | some (xs, r3) => some (x :: xs, r3)
          | none => none
        | none => none
      else
        match expectSym '}' r with
        | some r2 => some ([x], r2)
        | none => none
    | none => none
end

/-- `pin: namedpin | sigsel`, `namedpin: "." name "(" sigsel? ")"` -/
def pPin (f : Nat) (s : List Char) : Option (VPin × List Char) :=
  if peekSym '.' s then
    match expectSym '.' s with
    | some r =>
      match pName r with
      | some (n, r2) =>
        match expectSym '(' r2 with
        | some r3 =>
          if peekSym ')' r3 then
            match expectSym ')' r3 with
            | some r4 => some (.named n none, r4)
            | none => none
          else
            match pSel f r3 with
            | some (x, r4) =>
              match expectSym ')' r4 with
              | some r5 => some (.named n (some x), r5)
              | none => none
            | none => none
        | none => none
      | none => none
    | none => none
  else
    match pSel f s with
    | some (x, r) => some (.pos x, r)
    | none => none

/-- `( "," pin )* ")"` -/
def pPinsTail : Nat → List Char → Option (List VPin × List Char)
  | 0, _ => none
  | f + 1, s =>
    if peekSym ',' s then
      match expectSym ',' s with
      | some r =>
        match pPin f r with
        | some (p, r2) =>
          match pPinsTail f r2 with
          | some (ps, r3) => some (p :: ps, r3)
          | none => none
        | none => none
      | none => none
    else
      match expectSym ')' s with
      | some r => some ([], r)
      | none => none

/-- `[ pin ( "," pin )* ] ")"` -/
def pPins (f : Nat) (s : List Char) : Option (List VPin × List Char) :=
  if peekSym ')' s then
    match expectSym ')' s with
    | some r => some ([], r)
    | none => none
  else
    match pPin f s with
    | some (p, r) =>
      match pPinsTail f r with
      | some (ps, r2) => some (p :: ps, r2)
      | none => none
    | none => none

/-- `range? _namelist ";"` behind the declaration keyword -/
def pDecl (f : Nat) (k : VKind) (s : List Char) : Option (VStmt × List Char) :=
  match pRangeOpt s with
  | some (rg, r) =>
    match pNames ';' f r with
    | some (ns, r2) => some (.decl k rg ns, r2)
    | none => none
  | none => none

/-- `sigsel "=" sigsel ";"` behind `assign` -/
def pAssign (f : Nat) (s : List Char) : Option (VStmt × List Char) :=
  match pSel f s with
  | some (t, r) =>
    match expectSym '=' r with
    | some r2 =>
      match pSel f r2 with
      | some (x, r3) =>
        match expectSym ';' r3 with
        | some r4 => some (.assign t x, r4)
        | none => none
      | none => none
    | none => none
  | none => none

/-- `name "(" [ pin ( "," pin )* ] ")" ";"` behind the cell type -/
def pInst (f : Nat) (ty : String) (s : List Char) : Option (VStmt × List Char) :=
  match pName s with
  | some (nm, r) =>
    match expectSym '(' r with
    | some r2 =>
      match pPins f r2 with
      | some (pins, r3) =>
        match expectSym ';' r3 with
        | some r4 => some (.inst ty nm pins, r4)
        | none => none
      | none => none
    | none => none
  | none => none

/-- one statement, or `endmodule` (`none` in the first component) -/
def pStmt (f : Nat) (s : List Char) : Option (Option VStmt × List Char) :=
  match next .gen s with
  | some (.word w, r) =>
    match kwOf w with
    | some .endmodule => some (none, r)
    | some .assign =>
      match pAssign f r with
      | some (st, r2) => some (some st, r2)
      | none => none
    | some (.decl k) =>
      match pDecl f k r with
      | some (st, r2) => some (some st, r2)
      | none => none
    | none =>
      match pInst f (String.ofList w) r with
      | some (st, r2) => some (some st, r2)
      | none => none
  | some (.esc w, r) =>
    match pInst f (String.ofList w) r with
    | some (st, r2) => some (some st, r2)
    | none => none
  | _ => none

/-- `(_statement)* "endmodule"` -/
def pStmts : Nat → List Char → Option (List VStmt × List Char)
  | 0, _ => none
  | f + 1, s =>
    match pStmt f s with
    | some (none, r) => some ([], r)
    | some (some st, r) =>
      match pStmts f r with
      | some (sts, r2) => some (st :: sts, r2)
      | none => none
    | none => none

/-- `[ _namelist ] ")"` behind the `(` of the module header -/
def pPorts (f : Nat) (s : List Char) : Option (List String × List Char) :=
  if peekSym ')' s then
    match expectSym ')' s with
    | some r => some ([], r)
    | none => none
  else pNames ')' f s

/-- `name parameters ";" (_statement)* "endmodule"` behind `module` -/
def pModule (f : Nat) (s : List Char) : Option (VModule × List Char) :=
  match pName s with
  | some (nm, r) =>
    match expectSym '(' r with
    | some r2 =>
      match pPorts f r2 with
      | some (ports, r3) =>
        match expectSym ';' r3 with
        | some r4 =>
          match pStmts f r4 with
          | some (sts, r5) => some (⟨nm, ports, sts⟩, r5)
          | none => none
        | none => none
      | none => none
    | none => none
  | none => none

/-- `start: (module)*` -/
def pModules : Nat → List Char → Option (List VModule)
  | 0, _ => none
  | f + 1, s =>
    match next .top s with
    | some (.eof, _) => some []
    | some (.modkw, r) =>
      match pModule f r with
      | some (m, r2) =>
        match pModules f r2 with
        | some ms => some (m :: ms)
        | none => none
      | none => none
    | _ => none

/-- the module list lark builds for this text; `none`: `verilog.parse` raises a lark `UnexpectedInput`.  Fuel: every token
has at least one character, every recursive call follows a token. -/
def parseChars (s : List Char) : Option (List VModule) := pModules (s.length + 1) s

def parseVerilog (text : String) : Option (List VModule) := parseChars text.toList

/-! ## from the tree to the statements of the post-parse model -/

/-- the text has the shape of a sized constant `[0-9]+'[bdh][0-9a-f]+` -/
def isConstWord (w : List Char) : Bool :=
  match w.dropWhile Char.isDigit with
  | q :: b :: h :: rest => !(w.takeWhile Char.isDigit).isEmpty && q == '\'' && isBase b && isHex h && rest.all isHex
  | _ => false

mutual
/-- `VerilogTransformer.sigsel` looks at the NAME STRING: with a range it is a bit/part select; without, a string that
contains an apostrophe is split as `width'<base>digits`.  `none`: an (escaped) name with an apostrophe that is not of the
sized-constant shape — Python's `int()` accepts more spellings than the grammar's own pattern; outside the modelled domain. -/
def toSel : VSel → Option Sel
  | .sig n (some rg) => some (.bits n rg.1 rg.2)
  | .sig n none =>
    if n.toList.contains '\'' then
      if isConstWord n.toList then
        some (.const (numVal (n.toList.takeWhile Char.isDigit)) (((n.toList.dropWhile Char.isDigit).drop 1).headD 'b')
          ((n.toList.dropWhile Char.isDigit).drop 2))
      else none
    else some (.name n)
  | .cat items =>
    match toSels items with
    | some l => some (.concat l)
    | none => none
def toSels : List VSel → Option (List Sel)
  | [] => some []
  | x :: r =>
    match toSel x, toSels r with
    | some a, some l => some (a :: l)
    | _, _ => none
end

/-- named pins only; `none`: an unsupported name -/
def toPins : List VPin → Option (List (String × Option Sel))
  | [] => some []
  | .named p none :: r => (toPins r).map fun l => (p, none) :: l
  | .named p (some x) :: r =>
    match toSel x, toPins r with
    | some a, some l => some ((p, some a) :: l)
    | _, _ => none
  | .pos _ :: r => toPins r

def VPin.isPos : VPin → Bool
  | .pos _ => true
  | _ => false

/-- `inout()` calls `declaration("input", …)`; `tri` has no callback and stays a `Tree` -/
def toR : VStmt → Option RStmt
  | .decl .tri _ _ => some .other
  | .decl k rg ns => some (.decl (match k with | .output => .output | .wire => .wire | _ => .input) rg ns)
  | .assign t s =>
    match toSel t, toSel s with
    | some a, some b => some (.assign a b)
    | _, _ => none
  | .inst ty nm pins => (toPins pins).map fun l => .inst ty nm l

def toRs : List VStmt → Option (List RStmt)
  | [] => some []
  | st :: r =>
    match toR st, toRs r with
    | some a, some l => some (a :: l)
    | _, _ => none

/-- an instantiation with a positional pin makes `VerilogTransformer.module` raise (`pin_is_output` asserts on the integer key) -/
def VStmt.hasPos : VStmt → Bool
  | .inst _ _ pins => pins.any VPin.isPos
  | _ => false

/-- text → netlist: what the post-parse model (`Model/Netlist.lean`) builds from the model's own reading of the text;
`none`: the text is rejected, does not hold exactly one module, or uses a name outside the modelled domain (`toSel`).
Positional pins (`VStmt.hasPos`) make the real `module()` raise; they set `err` — and so does a sized constant the transformer's
`sigsel` raises on (`RStmt.ok` false: width 0 as in `0'b1`, a digit outside the base as in `1'b2`; audit finding 10(b): the guard is
part of the function the theorems speak about, not only of the driver). -/
def circOfText (cfg : KV.Netlist.Cfg) (tl : KV.Netlist.TL) (text : String) : Option KV.Netlist.Circ :=
  match parseVerilog text with
  | some [m] =>
    match toRs m.stmts with
    | some rs => some ((KV.Netlist.module cfg tl m.ports (rs.map KV.Netlist.transform)).failIf
        (m.stmts.any VStmt.hasPos || !(rs.all KV.Netlist.RStmt.ok)))
    | none => none
  | _ => none

/-! ## printing -/

/-- the text has the shape of an identifier `[a-z_][a-z0-9_]*` -/
def isIdentWord : List Char → Bool
  | [] => false
  | c :: r => isIdStart c && r.all isIdChar

/-- a name that can be written without backslash: an identifier that is no statement keyword, or a sized constant -/
def isPlainWord (w : List Char) : Bool := (isIdentWord w && (kwOf w).isNone) || isConstWord w

/-- how a name is written: plain when possible, otherwise as escaped identifier -/
def nameTok (n : String) : Tok := if isPlainWord n.toList then .word n.toList else .esc n.toList

/-- a token together with the lexer context in which the parser pulls it -/
abbrev CT := Ctx × Tok

def gt (t : Tok) : CT := (.gen, t)
def gs (c : Char) : CT := (.gen, .sym c)
def natT (n : Nat) : CT := (.num, .num (Nat.toDigits 10 n))

def rangeT : Range → List CT
  | (l, none) => [gs '[', natT l, gs ']']
  | (l, some r) => [gs '[', natT l, gs ':', natT r, gs ']']

def rangeOptT : Option Range → List CT
  | none => []
  | some r => rangeT r

/-- `, a , b` and the closing literal -/
def namesTailT (e : Char) : List String → List CT
  | [] => [gs e]
  | n :: r => gs ',' :: gt (nameTok n) :: namesTailT e r

def namesT (e : Char) : List String → List CT
  | [] => [gs e]
  | n :: r => gt (nameTok n) :: namesTailT e r

mutual
def selT : VSel → List CT
  | .sig n r => gt (nameTok n) :: rangeOptT r
  | .cat items => gs '{' :: selsT items
/-- `a , b }` -/
def selsT : List VSel → List CT
  | [] => [gs '}']
  | x :: r => selT x ++ selsTailT r
/-- `, a , b }` -/
def selsTailT : List VSel → List CT
  | [] => [gs '}']
  | x :: r => gs ',' :: (selT x ++ selsTailT r)
end

def pinT : VPin → List CT
  | .named p none => [gs '.', gt (nameTok p), gs '(', gs ')']
  | .named p (some x) => gs '.' :: gt (nameTok p) :: gs '(' :: (selT x ++ [gs ')'])
  | .pos x => selT x

def pinsTailT : List VPin → List CT
  | [] => [gs ')']
  | p :: r => gs ',' :: (pinT p ++ pinsTailT r)

def pinsT : List VPin → List CT
  | [] => [gs ')']
  | p :: r => pinT p ++ pinsTailT r

def kwEndmodule : List Char := ['e', 'n', 'd', 'm', 'o', 'd', 'u', 'l', 'e']
def kwAssign : List Char := ['a', 's', 's', 'i', 'g', 'n']

def kindWord : VKind → List Char
  | .input => ['i', 'n', 'p', 'u', 't']
  | .output => ['o', 'u', 't', 'p', 'u', 't']
  | .inout => ['i', 'n', 'o', 'u', 't']
  | .tri => ['t', 'r', 'i']
  | .wire => ['w', 'i', 'r', 'e']

def stmtT : VStmt → List CT
  | .decl k r ns => gt (.word (kindWord k)) :: (rangeOptT r ++ namesT ';' ns)
  | .assign t s => gt (.word kwAssign) :: (selT t ++ gs '=' :: (selT s ++ [gs ';']))
  | .inst ty nm pins => gt (nameTok ty) :: gt (nameTok nm) :: gs '(' :: (pinsT pins ++ [gs ';'])

def stmtsT : List VStmt → List CT
  | [] => [gt (.word kwEndmodule)]
  | st :: r => stmtT st ++ stmtsT r

def moduleT (m : VModule) : List CT :=
  (.top, .modkw) :: gt (nameTok m.name) :: gs '(' :: (namesT ')' m.ports ++ gs ';' :: stmtsT m.stmts)

/-- the token stream of a module list (what every layout of it must lex to) -/
def modulesT : List VModule → List CT
  | [] => []
  | m :: r => moduleT m ++ modulesT r

def tokText : Tok → List Char
  | .word s => s
  | .esc s => '\\' :: s
  | .num s => s
  | .sym c => [c]
  | .modkw => kwModule
  | .eof => []

/-- token list with a gap behind every token; the first character of the gap behind an escaped identifier is its terminator -/
def renderL : List (CT × List Char) → List Char
  | [] => []
  | (t, g) :: r => tokText t.2 ++ (g ++ renderL r)

/-- no blank in front of these -/
def tightBefore (t : Tok) : Bool :=
  t == .sym ';' || t == .sym ',' || t == .sym ')' || t == .sym ']' || t == .sym ':' || t == .sym '[' || t == .sym '}' || t == .sym '('
/-- no blank behind these -/
def tightAfter (t : Tok) : Bool :=
  t == .sym '(' || t == .sym '[' || t == .sym '.' || t == .sym '{' || t == .sym ':'

/-- canonical gap between a token and its successor: a blank after an escaped identifier (its terminator), a line break
after `;`, in front of `module` and at the end, nothing around brackets and in front of separators (but a blank between a
declaration keyword and its range), one blank otherwise -/
def gapAfter (t : Tok) (nx : Option Tok) : List Char :=
  match t with
  | .esc _ => [' ']
  | _ =>
    match nx with
    | none => ['\n']
    | some t' =>
      if t == .sym ';' || t' == .modkw then ['\n']
      else if tightAfter t then []
      else if t' == .sym '[' then
        match t with
        | .word w => if (kwOf w).isSome then [' '] else []
        | _ => []
      else if tightBefore t' then []
      else [' ']

def layout : List CT → List (CT × List Char)
  | [] => []
  | [t] => [(t, gapAfter t.2 none)]
  | t :: t' :: r => (t, gapAfter t.2 (some t'.2)) :: layout (t' :: r)

def printVerilog (ms : List VModule) : String := String.ofList (renderL (layout (modulesT ms)))

/-! ## trees that can be written -/

/-- a name: non-empty, without tab, blank, `\r`, `\n` (every such string is the name of an escaped identifier) -/
def validName (s : String) : Bool := !s.toList.isEmpty && s.toList.all notEscTerm

mutual
/-- names are names, concatenations have at least one item -/
def validSel : VSel → Bool
  | .sig n _ => validName n
  | .cat items => validSels items && !items.isEmpty
def validSels : List VSel → Bool
  | [] => true
  | x :: r => validSel x && validSels r
end

def validPin : VPin → Bool
  | .named p none => validName p
  | .named p (some x) => validName p && validSel x
  | .pos x => validSel x

def validStmt : VStmt → Bool
  | .decl _ _ ns => ns.all validName && !ns.isEmpty
  | .assign t s => validSel t && validSel s
  | .inst ty nm pins => validName ty && validName nm && pins.all validPin

def validModule (m : VModule) : Bool := validName m.name && m.ports.all validName && m.stmts.all validStmt

/-! ## layouts (for the statements of the round-trip theorems) -/

/-- `g` is ignorable text that ends between items: blanks, tabs, form feeds, `\n`, `\r\n`, closed `/* */`, `(* *)`, and
`//` comments closed by their `\n` -/
def gapV : Mode → List Char → Bool
  | .ws, [] => true
  | _, [] => false
  | .ws, c :: r =>
    if c == ' ' || c == '\t' || c == '\x0c' || c == '\n' then gapV .ws r
    else if c == '\r' then gapV .cr r
    else if c == '/' then gapV .slash r
    else if c == '(' then gapV .lp r
    else false
  | .cr, c :: r => if c == '\n' then gapV .ws r else false
  | .slash, c :: r => if c == '*' then gapV .bc r else if c == '/' then gapV .lc r else false
  | .lc, c :: r => if c == '\n' then gapV .ws r else gapV .lc r
  | .bc, c :: r => if c == '*' then gapV .bcs r else gapV .bc r
  | .bcs, c :: r => if c == '/' then gapV .ws r else if c == '*' then gapV .bcs r else gapV .bc r
  | .lp, c :: r => if c == '*' then gapV .at r else false
  | .at, c :: r => if c == '*' then gapV .ats r else gapV .at r
  | .ats, c :: r => if c == ')' then gapV .ws r else if c == '*' then gapV .ats r else gapV .at r

/-- the text does not start with a character for which `p` holds -/
def headNot (p : Char → Bool) : List Char → Bool
  | [] => true
  | c :: _ => !p c

/-- the gap `g` behind token `t`, followed by the text `rest`: ignorable; a word or number is not directly followed by an
identifier character, `(` not by `*`; behind an escaped identifier first its terminator -/
def gapOK (t : Tok) (g rest : List Char) : Bool :=
  match t with
  | .esc _ =>
    match g with
    | e :: g' => isEscTerm e && gapV .ws g'
    | [] => false
  | .word _ => gapV .ws g && headNot isIdChar (g ++ rest)
  | .num _ => gapV .ws g && headNot isIdChar (g ++ rest)
  | .sym c => gapV .ws g && (c != '(' || headNot (· == '*') (g ++ rest))
  | .modkw => gapV .ws g
  | .eof => false

def layoutOK : List (CT × List Char) → Bool
  | [] => true
  | (t, g) :: r => gapOK t.2 g (renderL r) && layoutOK r

/-! ## token classes: the spellings of one token (audit finding 10(a))

What the real lexer / `name` callback / `range` callback map to the same value:
* **keywords**: the grammar's literals (`"module"`, `"input"`, … `"endmodule"`) carry no `i` flag — each keyword has exactly ONE
  spelling (`Input`, `MODULE` are plain names / lexical errors); the class is a singleton.
* **names**: `VerilogTransformer.name` strips backslash and terminator of an escaped identifier, so `\abc ` and `abc` are the SAME
  name (also `\4'b0011 ` and `4'b0011`: the string decides in `sigsel`, not the token type).  Every plain word that is no statement
  keyword may be written escaped.  (The seven statement keywords as NAMES: canonical spelling is the escaped one; written plain they
  are names only where no statement begins — `wire input;` — which `sameTok` does not cover.)
* **numbers in ranges**: `int(token)` — every non-empty digit string with the same value (`[03:0]`, `[3:00]`).
* **sized constants** are names; different spellings of one value (`4'b0011`, `4'B0011`, `4'd3`, `4'h3`, `04'b11`) are DIFFERENT
  names that `sigsel` expands to the same bit list: class `sameSel` below, on the tree. -/

/-- `a` is a spelling of the canonical token `t` -/
def sameTok (a t : Tok) : Bool :=
  a == t ||
  match a, t with
  | .esc x, .word w => x == w && (kwOf w).isNone
  | .num ds, .num ds' => !ds.isEmpty && ds.all Char.isDigit && numVal ds == numVal ds'
  | _, _ => false

/-- token list `as` is, token by token (same lexer context), a spelling of the canonical token list `ts` -/
def spellsB : List CT → List CT → Bool
  | [], [] => true
  | (c, a) :: r, (c', t) :: r' => c == c' && sameTok a t && spellsB r r'
  | _, _ => false

/-! ## token classes: the spellings of a sized constant (on the tree: different NAMES, one bit list)

`sigsel` uses of a name `W'Bdigits`: `int(W)`, `int(digits, base of B.lower())`, then `W` bits of the value, most significant first.
So two sized-constant names denote the same thing exactly when width and value CUT TO THE WIDTH agree (and both are inside the
transformer's guard: width ≥ 1, digits below the base — otherwise `int()` raises for one of them): `4'b0011`, `4'B0011`, `4'd3`,
`4'D03`, `4'h3`, `04'b11`, `4'hF3`, `4'd19` are one class.  The grammar has NO base `o`, no `_`, no blank inside the token, no `s`. -/

def constW (n : String) : Nat := numVal (n.toList.takeWhile Char.isDigit)
def constB (n : String) : Char := ((n.toList.dropWhile Char.isDigit).drop 1).headD 'b'
def constD (n : String) : List Char := (n.toList.dropWhile Char.isDigit).drop 2

/-- `n` and `n'` are sized-constant names of the same width, the same value modulo `2^width`, both inside or both outside the
guard of `sigsel` -/
def sameConst (n n' : String) : Bool :=
  isConstWord n.toList && isConstWord n'.toList && constW n == constW n' &&
  KV.Netlist.parseNum (KV.Netlist.baseOf (constB n)) (constD n) % 2 ^ constW n ==
    KV.Netlist.parseNum (KV.Netlist.baseOf (constB n')) (constD n') % 2 ^ constW n &&
  KV.Netlist.digitsOK (KV.Netlist.baseOf (constB n)) (constD n) == KV.Netlist.digitsOK (KV.Netlist.baseOf (constB n')) (constD n')

mutual
/-- the same selection up to the spelling of sized constants (a name WITH a range is never a constant) -/
def sameSel : VSel → VSel → Bool
  | .sig n none, .sig n' none => n == n' || sameConst n n'
  | .sig n (some rg), .sig n' (some rg') => n == n' && rg == rg'
  | .cat xs, .cat ys => sameSels xs ys
  | _, _ => false
def sameSels : List VSel → List VSel → Bool
  | [], [] => true
  | x :: r, y :: r' => sameSel x y && sameSels r r'
  | _, _ => false
end

def samePin : VPin → VPin → Bool
  | .named p none, .named p' none => p == p'
  | .named p (some x), .named p' (some y) => p == p' && sameSel x y
  | .pos x, .pos y => sameSel x y
  | _, _ => false

def samePins : List VPin → List VPin → Bool
  | [], [] => true
  | x :: r, y :: r' => samePin x y && samePins r r'
  | _, _ => false

def sameStmt : VStmt → VStmt → Bool
  | .decl k r ns, .decl k' r' ns' => k == k' && r == r' && ns == ns'
  | .assign t s, .assign t' s' => sameSel t t' && sameSel s s'
  | .inst ty nm pins, .inst ty' nm' pins' => ty == ty' && nm == nm' && samePins pins pins'
  | _, _ => false

def sameStmts : List VStmt → List VStmt → Bool
  | [], [] => true
  | x :: r, y :: r' => sameStmt x y && sameStmts r r'
  | _, _ => false

/-- the same module up to the spelling of sized constants in pin connections and assigns -/
def sameModule (m m' : VModule) : Bool := m.name == m'.name && m.ports == m'.ports && sameStmts m.stmts m'.stmts

/-- the circuit of ONE parsed module (the tail of `circOfText`) -/
def circOfModule (cfg : KV.Netlist.Cfg) (tl : KV.Netlist.TL) (m : VModule) : Option KV.Netlist.Circ :=
  match toRs m.stmts with
  | some rs => some ((KV.Netlist.module cfg tl m.ports (rs.map KV.Netlist.transform)).failIf
      (m.stmts.any VStmt.hasPos || !(rs.all KV.Netlist.RStmt.ok)))
  | none => none

end KV.VerilogText
