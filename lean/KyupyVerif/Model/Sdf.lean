/-! # Model of `kyupy.sdf` after lexing/parsing (property C14)

The model starts where lark hands the parse tree to `SdfTransformer`: a list of CELL blocks, each with the ID
tokens of its `(INSTANCE ..)` statements and one entry list per `(DELAY (ABSOLUTE ..))` section; every entry is
`(a, b, value lists)` where a value list is the token triple of `( .. : .. : .. )` or nothing for `()`.
It follows `sdf.py` line by line:

* `triple`   — `[float(a.value[:-1]) if len(a.value) > 1 else 0.0 for a in args]`: empty field ⇒ 0, `()` ⇒ `[]`;
* `sanitize` — one value list is duplicated (`args.append(args[2])`), so it applies to both output polarities;
* `cell`     — name = first ID token (or `None`), entries = concatenation of all DELAY sections;
* `start`    — `dict(t for t in args if isinstance(t, tuple))`: keyed by the *raw* name token, position of the first
               occurrence, value of the **last** block (`Mode.lastWins`).  `Mode.merge` is the repaired behaviour
               (entries of repeated blocks are concatenated in file order);
* `DelayFile.__init__` — `_interconnects = cells.get(None, None)`, `cells` = the blocks with a non-empty name;
* `iopaths` / `interconnects` — the two annotation loops, over an abstract circuit: a table
  `pinLine cell pin` (line feeding input pin `pin` of cell `cell`, `none` when the cell is not in the circuit or the
  pin has no line — both only warn) and a table `icLine c1 p1 c2 p2` (input line of the fork between the two pins:
  the branch fork, or the only fork when it has a single reader; `none` when the code warns and skips).

IOPATH and INTERCONNECT tuples are unpacked positionally by the annotation loops (`for a, b, *dels in ..`), so the
model has one entry type; which loop sees an entry is decided by the name of its block alone, as in the code.

Values are integers (the harness uses thousandths); `Arr d l ip op` is `delays[d, l, ip, op]` of the returned
ndarray: data set, line, input polarity (false = 0 = rising), output polarity.

Totalised spots and the guard under which the real code does not raise (`RawEntry.ok`, `slashOK`):
entries with 0 or ≥ 3 value lists make `IOPath(*args)` raise `TypeError`; a name with two `/` makes the tuple
unpacking of `split('/')` raise; value lists have 0 or 3 fields by the grammar. Unknown pins / unknown cells in
INTERCONNECTs raise in the code and are outside the tables' domain (the concrete look-ups with their raise / warn
outcomes: Model/SdfCirc.lean).  A file without top-level block: `interconnects = none` (`TypeError`). -/
namespace KV.Sdf

abbrev Val := Int
/-- result of `SdfTransformer.triple`: `[]` for `()` or `[min, typ, max]` -/
abbrev Triple := List Val
/-- the tokens of one value list: `none` = empty field (token `:` or `)` alone) -/
abbrev RawTriple := List (Option Val)

def triple (t : RawTriple) : Triple := t.map (·.getD 0)

structure RawEntry where
  a : String            -- IOPATH: input pin spec (ID_OR_EDGE token); INTERCONNECT: origin
  b : String            -- IOPATH: output pin; INTERCONNECT: destination
  vals : List RawTriple -- the value lists that follow
deriving DecidableEq, Repr, Inhabited

/-- the `IOPath` / `Interconnect` named tuples -/
structure Entry where
  a : String
  b : String
  r : Triple
  f : Triple
deriving DecidableEq, Repr, Inhabited

/-- guard: exactly four constructor arguments after `sanitize` (otherwise `TypeError`) -/
def RawEntry.ok (e : RawEntry) : Bool := e.vals.length == 1 || e.vals.length == 2

/-- `sanitize`: `if len(args) == 3: args.append(args[2])` -/
def sanitize (e : RawEntry) : Entry :=
  match e.vals.map triple with
  | [t] => ⟨e.a, e.b, t, t⟩
  | r :: f :: _ => ⟨e.a, e.b, r, f⟩
  | [] => ⟨e.a, e.b, [], []⟩

structure RawCell where
  insts : List String            -- ID tokens of the INSTANCE statements in order; `(INSTANCE)` contributes none
  delays : List (List RawEntry)  -- one list per (DELAY (ABSOLUTE ..)) section
deriving DecidableEq, Repr, Inhabited

def RawCell.ok (c : RawCell) : Bool := c.delays.flatten.all RawEntry.ok

/-- `SdfTransformer.cell` -/
def cell (c : RawCell) : Option String × List Entry := (c.insts.head?, c.delays.flatten.map sanitize)

abbrev Dict := List (Option String × List Entry)

inductive Mode | lastWins | merge
deriving DecidableEq, Repr

def hasKey (d : Dict) (k : Option String) : Bool := d.any (·.1 == k)

/-- one insertion of `dict(...)`: a new key goes to the end, an existing key keeps its position and gets the new
value (`lastWins`) or the old value extended by the new one (`merge`) -/
def dictPut (m : Mode) (d : Dict) (kv : Option String × List Entry) : Dict :=
  if hasKey d kv.1 then
    d.map fun p => if p.1 == kv.1 then (p.1, match m with | .lastWins => kv.2 | .merge => p.2 ++ kv.2) else p
  else d ++ [kv]

/-- `SdfTransformer.start` (cells part) -/
def start (m : Mode) (cells : List RawCell) : Dict := (cells.map cell).foldl (dictPut m) []

structure DelayFile where
  interconnects : Option (List Entry)
  cells : List (String × List Entry)
deriving Repr

def dictGet (d : Dict) (k : Option String) : Option (List Entry) := (d.find? (·.1 == k)).map (·.2)

/-- `DelayFile.__init__` -/
def mkDelayFile (d : Dict) : DelayFile :=
  { interconnects := dictGet d none
    cells := d.filterMap fun p => match p.1 with
      | some n => if n ≠ "" then some (n, p.2) else none
      | none => none }

def parse (m : Mode) (cells : List RawCell) : DelayFile := mkDelayFile (start m cells)

/-! ## names -/
/-- `name.replace('\\', '')` -/
def stripBackslash (s : String) : String := String.ofList (s.toList.filter (· ≠ '\\'))

/-- the characters of `"(posedge "` -/
def posPrefix : List Char := ['(', 'p', 'o', 's', 'e', 'd', 'g', 'e', ' ']
/-- the characters of `"(negedge "` -/
def negPrefix : List Char := ['(', 'n', 'e', 'g', 'e', 'd', 'g', 'e', ' ']

/-- `i_pol_idxs`: false = index 0 = rising/posedge -/
def polsOf (spec : String) : List Bool :=
  if posPrefix.isPrefixOf spec.toList then [false]
  else if negPrefix.isPrefixOf spec.toList then [true]
  else [false, true]

/-- `re.sub(r'\((neg|pos)edge ([^)]+)\)', r'\2', spec)` on an ID_OR_EDGE token: a token that starts with one of the
two prefixes has the shape `( [^)]+ )`, the match starts at 0 and spans the token when the middle is non-empty;
any other token of the supported subset contains no parenthesis and is left unchanged. -/
def pinOf (spec : String) : String :=
  let cs := spec.toList
  if posPrefix.isPrefixOf cs || negPrefix.isPrefixOf cs then
    let mid := (cs.drop 9).dropLast
    if cs.getLast? == some ')' && !mid.isEmpty && !mid.contains ')' then String.ofList mid else spec
  else spec

def splitAt1 (c : Char) : List Char → List Char × Option (List Char)
  | [] => ([], none)
  | x :: r => if x == c then ([], some r) else
      let (h, t) := splitAt1 c r
      (x :: h, t)

/-- `cn, pn = n.split('/') if '/' in n else (n, None)`; guard `slashOK`: at most one `/` -/
def splitSlash (n : String) : String × Option String :=
  let (h, t) := splitAt1 '/' n.toList
  (String.ofList h, t.map String.ofList)

def slashOK (n : String) : Bool := (n.toList.filter (· == '/')).length ≤ 1

/-! ## the delay array -/
/-- `Arr d l ip op = delays[d, l, ip, op]` -/
abbrev Arr := Nat → Nat → Bool → Bool → Val

def zeroArr : Arr := fun _ _ _ _ => 0

/-- `d if len(d) > 0 else [0, 0, 0]` -/
def norm (t : Triple) : Triple := if t.length > 0 then t else [0, 0, 0]

/-- one assignment `delays[line, pols] = [r, f]` -/
structure W where
  line : Nat
  pols : List Bool
  r : Triple
  f : Triple
deriving DecidableEq, Repr

def W.val (w : W) (op : Bool) (d : Nat) : Val := (if op then w.f else w.r).getD d 0

def W.covers (w : W) (l : Nat) (ip : Bool) : Bool := l == w.line && w.pols.contains ip

def W.apply (A : Arr) (w : W) : Arr := fun d l ip op =>
  if w.covers l ip && decide (d < 3) then w.val op d else A d l ip op

def applyAll (ws : List W) : Arr := ws.foldl W.apply zeroArr

/-! ## `DelayFile.iopaths` -/
abbrev PinTable := String → String → Option Nat

def ioWrite (pinLine : PinTable) (name : String) (e : Entry) : Option W :=
  (pinLine (stripBackslash name) (pinOf e.a)).map fun l => ⟨l, polsOf e.a, norm e.r, norm e.f⟩

/-- the (block name, entry) pairs in the order the double loop of `iopaths` visits them -/
def namedEntries (df : DelayFile) : List (String × Entry) :=
  df.cells.flatMap fun p => p.2.map fun e => (p.1, e)

def iopathWrites (pinLine : PinTable) (df : DelayFile) : List W :=
  (namedEntries df).filterMap fun p => ioWrite pinLine p.1 p.2

def iopaths (pinLine : PinTable) (df : DelayFile) : Arr := applyAll (iopathWrites pinLine df)

/-! ## `DelayFile.interconnects` -/
abbrev IcTable := String → Option String → String → Option String → Option Nat

/-- Python's `<` on lists -/
def lexLt : List Int → List Int → Bool
  | [], [] => false
  | [], _ :: _ => true
  | _ :: _, [] => false
  | x :: xs, y :: ys => if x < y then true else if y < x then false else lexLt xs ys

/-- `max(r, f)` on lists: the first maximal one -/
def lexMax (r f : List Int) : List Int := if lexLt r f then f else r

def listMax : List Int → Int
  | [] => 0
  | x :: xs => xs.foldl max x

/-- the skip test of the tree BEFORE repair D34: `max(max(delvals)) == 0` — the largest element of the
lexicographically larger value list.  Not "all zero" when values are negative (`(0:0:0) (-1:5:5)` is skipped).
Kept for the demonstration theorem `C14.icSkipOld_drops_nonzero` only; no model function uses it. -/
def icSkipOld (r f : Triple) : Bool := listMax (lexMax r f) == 0

/-- `not any(any(d) for d in delvals)` (repaired code, D34): skip only when every value is zero -/
def icSkip (r f : Triple) : Bool := !(r.any (· != 0) || f.any (· != 0))

def icWrite (icLine : IcTable) (e : Entry) : Option W :=
  let r := norm e.r
  let f := norm e.f
  if icSkip r f then none else
  let n1 := splitSlash e.a
  let n2 := splitSlash e.b
  (icLine (stripBackslash n1.1) n1.2 (stripBackslash n2.1) n2.2).map fun l => ⟨l, [false, true], r, f⟩

/-- `self._interconnects`: `none` when the file has no block without INSTANCE name (`cells.get(None, None)`) -/
def icEntries (df : DelayFile) : Option (List Entry) := df.interconnects

def icWritesOf (icLine : IcTable) (es : List Entry) : List W := es.filterMap (icWrite icLine)

/-- `none`: without a block named `None` the real code raises `TypeError` (`for .. in None`) — not totalised -/
def interconnects (icLine : IcTable) (df : DelayFile) : Option Arr :=
  (icEntries df).map fun es => applyAll (icWritesOf icLine es)

/-- all raw (block name, entry) pairs of a file in file order -/
def flatRaw (cells : List RawCell) : List (Option String × Entry) :=
  (cells.map cell).flatMap fun p => p.2.map fun e => (p.1, e)

def flatDict (d : Dict) : List (Option String × Entry) :=
  d.flatMap fun p => p.2.map fun e => (p.1, e)

end KV.Sdf
