/-! Logic values as Boolean planes (logic.py:14-27) and the documented operator algebra.

bit0 (`p0`) final value, bit1 (`p1`) initial value, bit2 (`p2`) activity.
ZERO 000, UNKNOWN 001, UNASSIGNED 010, ONE 011, PPULSE 100, RISE 101, FALL 110, NPULSE 111.

The `spec*` functions are hand-written from the docstrings of `logic.py` and are part of the
specification (trusted base): a controlling plain constant dominates; otherwise an unknown or
unassigned operand makes the result UNKNOWN; otherwise planes 0/1 are the Boolean operator and
activity is the union of the operands' activity. -/
namespace KV

structure V3 where
  p0 : Bool
  p1 : Bool
  p2 : Bool
deriving DecidableEq, Repr, Inhabited

structure V2 where
  p0 : Bool
  p1 : Bool
deriving DecidableEq, Repr, Inhabited

namespace V3
def code (v : V3) : Nat := (if v.p0 then 1 else 0) + (if v.p1 then 2 else 0) + (if v.p2 then 4 else 0)
def ofCode (n : Nat) : V3 := ⟨n % 2 == 1, (n / 2) % 2 == 1, (n / 4) % 2 == 1⟩
def all : List V3 := [⟨false,false,false⟩,⟨true,false,false⟩,⟨false,true,false⟩,⟨true,true,false⟩,
  ⟨false,false,true⟩,⟨true,false,true⟩,⟨false,true,true⟩,⟨true,true,true⟩]
theorem all_complete (v : V3) : v ∈ all := by
  rcases v with ⟨a,b,c⟩ ; cases a <;> cases b <;> cases c <;> decide
def zero : V3 := ⟨false,false,false⟩
def unknown : V3 := ⟨true,false,false⟩
def unassigned : V3 := ⟨false,true,false⟩
def one : V3 := ⟨true,true,false⟩
/-- UNKNOWN or UNASSIGNED -/
def unk (v : V3) : Bool := (v.p0 ^^ v.p1) && !v.p2
def isZero (v : V3) : Bool := !v.p0 && !v.p1 && !v.p2
def isOne (v : V3) : Bool := v.p0 && v.p1 && !v.p2
/-- plain 0 or 1 -/
def isConst (v : V3) : Bool := v.isZero || v.isOne
/-- the six values that denote waveforms: 0, 1, P, R, F, N -/
def isWave (v : V3) : Bool := !v.unk
def ofBool (b : Bool) : V3 := ⟨b, b, false⟩
end V3

namespace V2
def code (v : V2) : Nat := (if v.p0 then 1 else 0) + (if v.p1 then 2 else 0)
def all : List V2 := [⟨false,false⟩,⟨true,false⟩,⟨false,true⟩,⟨true,true⟩]
theorem all_complete (v : V2) : v ∈ all := by
  rcases v with ⟨a,b⟩ ; cases a <;> cases b <;> decide
def toV3 (v : V2) : V3 := ⟨v.p0, v.p1, false⟩
def ofV3 (v : V3) : V2 := ⟨v.p0, v.p1⟩
def unk (v : V2) : Bool := v.p0 ^^ v.p1
def ofBool (b : Bool) : V2 := ⟨b, b⟩
end V2

/-! ### documented algebra (8-valued) -/
def specNot (v : V3) : V3 := if v.unk then V3.unknown else ⟨!v.p0, !v.p1, v.p2⟩
def specAnd (ins : List V3) : V3 :=
  if ins.any V3.isZero then V3.zero
  else if ins.any V3.unk then V3.unknown
  else ⟨ins.all (·.p0), ins.all (·.p1), ins.any (·.p2)⟩
def specOr (ins : List V3) : V3 :=
  if ins.any V3.isOne then V3.one
  else if ins.any V3.unk then V3.unknown
  else ⟨ins.any (·.p0), ins.any (·.p1), ins.any (·.p2)⟩
def specXor (ins : List V3) : V3 :=
  if ins.any V3.unk then V3.unknown
  else ⟨ins.foldl (fun a v => a ^^ v.p0) false, ins.foldl (fun a v => a ^^ v.p1) false, ins.any (·.p2)⟩

/-! ### 4-valued algebra: the 8-valued one on values without activity -/
def spec4Not (v : V2) : V2 := V2.ofV3 (specNot v.toV3)
def spec4And (ins : List V2) : V2 := V2.ofV3 (specAnd (ins.map V2.toV3))
def spec4Or (ins : List V2) : V2 := V2.ofV3 (specOr (ins.map V2.toV3))
def spec4Xor (ins : List V2) : V2 := V2.ofV3 (specXor (ins.map V2.toV3))

/-- `b` is a 0/1 completion of `x`: plain 0/1 (and the waveform values, by their final value)
    must be kept, unknown/unassigned may become either. Stated on the final plane, which is what
    2-valued simulation computes. -/
def V3.refines (x : V3) (b : Bool) : Prop := x.unk = false → x.p0 = b
def V2.refines (x : V2) (b : Bool) : Prop := x.unk = false → x.p0 = b

end KV
