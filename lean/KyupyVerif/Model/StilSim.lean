import KyupyVerif.Model.Stil
import KyupyVerif.Model.SimOps
import KyupyVerif.Model.Sig
/-! # The 8-valued simulation inside `StilFile.tests_loc` (C18, composition with C02)

stil.py:144-149, between the two assembly loops of `tests_loc`:
```
sim8v = LogicSim(circuit, init.shape[-1], m=8)       # fresh simulator: c is all zeros, s[1] is all UNASSIGNED
sim8v.s[0] = logic.mv_to_bp(init)                    # row r of init  ->  input slot of s_nodes position r
sim8v.s_to_c(); sim8v.c_prop(); sim8v.c_to_s()       # one propagation, capture
launch = logic.bp_to_mv(sim8v.s[1])[..., :init.shape[-1]]
```
Signal level (as in C01/C02; the memory level is C08's business, `c_reuse=False`, `strip_forks=False` here):
* `envOf net col` — the stimulus: input slot `ppi + r` holds `col[r]`, every other signal (constant-0 slot, scratch slots,
  lines before they are written) holds `ZERO` (fresh `np.zeros` memory);
* `captured net val r` — row `r` of `s[1]` after `c_to_s` (logic_sim.py `c_to_s`, sim.py:306-310 and 321-327): the value of
  the line on input pin 0 of the `r`-th `s_nodes` element; a state element without data connection captures the constant-0
  slot; a port without driver keeps the initial `UNASSIGNED` of `s[1]`;
* `simRow sem ops net col` — one pattern: run the op program on `envOf net col`, read every interface row;
* `nxtOfG` — all patterns of a STIL file: the `nxt` argument of `Stil.testsLoc`, no longer a parameter.
The op semantics `sem` and the op program `ops` are arguments so that this file imports `Model/` only; Props/C18 instantiates
them with the real 8-valued dispatch `semL8` and the `SimOps` program `genOps Gen.kindPrefixes net order false`.

`Circ` (names and kinds, what `_maps` looks at) and `Net` (pins and lines, what `SimOps` looks at) are two views of the same
`Circuit`; `compatB` is the decidable statement that they are: same `io_nodes`, same `nodes` list (name = `names[n]`, kind).
That the two `s_nodes` orders then agree through the names is a theorem (Proofs/StilSim.lean `sNodes_bridge`). -/
namespace KV.StilSim
open KV KV.Stil KV.Sig

/-- stimulus of the fresh 8-valued simulator after `s[0] = mv_to_bp(init); s_to_c()` -/
def envOf (net : Net) (col : List V3) : Nat → V3 :=
  fun x => if net.idx.ppi ≤ x ∧ x < net.idx.ppo then col.getD (x - net.idx.ppi) V3.zero else V3.zero

/-- row `r` of `bp_to_mv(sim8v.s[1])` after `c_to_s`, given the values `val` of all signals after `c_prop` -/
def captured (net : Net) (val : Nat → V3) (r : Nat) : V3 :=
  match net.sNodes[r]? with
  | none => V3.unassigned
  | some n =>
    match (net.node n).inPin 0 with
    | some l => val l
    | none => if net.io.length ≤ r then V3.zero else V3.unassigned

/-- one pattern: the column `launch[:, i]` as the simulator leaves it -/
def simRow (sem : Nat → List V3 → V3) (ops : List Op) (net : Net) (col : List V3) : List V3 :=
  (List.range net.sNodes.length).map (captured net (exec sem ops (envOf net col)))

/-- the same program on a materialised signal vector (what the driver runs: `exec` builds a chain of closures that compiled
    code re-evaluates at every read); equal to `exec` for programs whose outputs lie inside the vector,
    Proofs/StilSim.lean `execA_getD` -/
def execA (sem : Nat → List V3 → V3) (ops : List Op) (a : Array V3) : Array V3 :=
  ops.foldl (fun a op => a.setIfInBounds op.out (sem op.code (op.ins.map fun i => a.getD i V3.zero))) a

/-- `simRow` through `execA` on the vector of all `net.idx.len` signals -/
def simRowA (sem : Nat → List V3 → V3) (ops : List Op) (net : Net) (col : List V3) : List V3 :=
  let a := execA sem ops ((List.range net.idx.len).map (envOf net col)).toArray
  (List.range net.sNodes.length).map (captured net fun j => a.getD j V3.zero)

/-- the `SimOps` rows as signal-level ops -/
def opsOf (tbl : List PrefixRow) (net : Net) (order : List Nat) : List Op :=
  (genOps tbl net order false).map fun r => ⟨r.lut, r.out, [r.i0, r.i1, r.i2, r.i3]⟩

/-- all patterns: what `tests_loc` reads back from the simulator (one column per pattern) -/
def nxtOfG (sem : Nat → List V3 → V3) (ops : List Op) (mode : Mode) (c : Circ) (fl : File) (net : Net) : List (List V3) :=
  (extract fl).map fun p => simRow sem ops net (initCol (mapsPure mode c fl) p)

def nxtOfA (sem : Nat → List V3 → V3) (ops : List Op) (mode : Mode) (c : Circ) (fl : File) (net : Net) : List (List V3) :=
  (extract fl).map fun p => simRowA sem ops net (initCol (mapsPure mode c fl) p)

/-- `tests_loc` with its own simulation -/
def testsLocFull (sem : Nat → List V3 → V3) (ops : List Op) (mode : Mode) (c : Circ) (fl : File) (net : Net) :
    Except Err (List (List V3)) :=
  testsLoc mode c fl (nxtOfG sem ops mode c fl net)

/-- name of node `n` (`Circuit.nodes[n].name`) -/
def nameAt (names : List String) (n : Nat) : String := names.getD n ""

/-- `Circ` and `Net` describe the same `Circuit`: `io_nodes` and the `nodes` list with kinds -/
def compatB (c : Circ) (net : Net) (names : List String) : Bool :=
  names.length == net.nodes.size &&
  c.io == net.io.map (nameAt names) &&
  c.nodes == (List.range net.nodes.size).map (fun n => (nameAt names n, (net.node n).kind))

end KV.StilSim
