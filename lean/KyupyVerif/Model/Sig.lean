
namespace KV.Sig

/-! probe: signal-level op-list semantics and the generic simulation lemma -/
structure Op where
  code : Nat
  out : Nat
  ins : List Nat

def upd {α} (env : Nat → α) (k : Nat) (v : α) : Nat → α := fun j => if j = k then v else env j

def execOp {α} (sem : Nat → List α → α) (env : Nat → α) (op : Op) : Nat → α :=
  upd env op.out (sem op.code (op.ins.map env))

def exec {α} (sem : Nat → List α → α) (ops : List Op) (env : Nat → α) : Nat → α :=
  ops.foldl (execOp sem) env

inductive All2 {α β} (R : α → β → Prop) : List α → List β → Prop
  | nil : All2 R [] []
  | cons {a b as bs} : R a b → All2 R as bs → All2 R (a :: as) (b :: bs)

/-- simulation lemma: a relation preserved by every primitive is preserved by every program -/
theorem exec_rel {α β} (R : α → β → Prop) (s1 : Nat → List α → α) (s2 : Nat → List β → β)
    (hop : ∀ code (xs : List α) (ys : List β), All2 R xs ys → R (s1 code xs) (s2 code ys))
    (ops : List Op) (e1 : Nat → α) (e2 : Nat → β) (h : ∀ l, R (e1 l) (e2 l)) :
    ∀ l, R (exec s1 ops e1 l) (exec s2 ops e2 l) := by
  induction ops generalizing e1 e2 with
  | nil => simpa [exec] using h
  | cons op ops ih =>
    simp only [exec, List.foldl_cons]
    apply ih
    intro l
    simp only [execOp, upd]
    split
    · apply hop
      induction op.ins with
      | nil => exact .nil
      | cons i is ih2 => exact .cons (h i) ih2
    · exact h l

theorem All2.getD {α β} {R : α → β → Prop} {xs : List α} {ys : List β} (h : All2 R xs ys)
    (i : Nat) (dx : α) (dy : β) (hd : R dx dy) : R (xs.getD i dx) (ys.getD i dy) := by
  induction h generalizing i with
  | nil => simpa using hd
  | cons hab _ ih =>
    cases i with
    | zero => simpa using hab
    | succ i => simpa using ih i

theorem All2.map {α β} {R : α → β → Prop} {e1 : Nat → α} {e2 : Nat → β} (h : ∀ l, R (e1 l) (e2 l))
    (is : List Nat) : All2 R (is.map e1) (is.map e2) := by
  induction is with
  | nil => exact .nil
  | cons i is ih => exact .cons (h i) ih

/-- simulation lemma with a per-op hypothesis: only the ops of this program need to preserve `R` -/
theorem exec_rel_on {α β} (R : α → β → Prop) (s1 : Nat → List α → α) (s2 : Nat → List β → β)
    (ops : List Op)
    (hop : ∀ op ∈ ops, ∀ (xs : List α) (ys : List β), All2 R xs ys → R (s1 op.code xs) (s2 op.code ys))
    (e1 : Nat → α) (e2 : Nat → β) (h : ∀ l, R (e1 l) (e2 l)) :
    ∀ l, R (exec s1 ops e1 l) (exec s2 ops e2 l) := by
  induction ops generalizing e1 e2 with
  | nil => simpa [exec] using h
  | cons op ops ih =>
    simp only [exec, List.foldl_cons]
    apply ih (fun o ho => hop o (List.mem_cons_of_mem _ ho))
    intro l
    simp only [execOp, upd]
    split
    · exact hop op (List.mem_cons_self) _ _ (All2.map h op.ins)
    · exact h l

/-- two ops with disjoint footprints commute -/
theorem execOp_comm {α} (sem : Nat → List α → α) (a b : Op) (env : Nat → α)
    (h1 : a.out ≠ b.out) (h2 : a.out ∉ b.ins) (h3 : b.out ∉ a.ins) :
    execOp sem (execOp sem env a) b = execOp sem (execOp sem env b) a := by
  funext j
  have ea : b.ins.map (upd env a.out (sem a.code (a.ins.map env))) = b.ins.map env := by
    apply List.map_congr_left; intro x hx; simp [upd]; intro hxa; exact absurd (hxa ▸ hx) h2
  have eb : a.ins.map (upd env b.out (sem b.code (b.ins.map env))) = a.ins.map env := by
    apply List.map_congr_left; intro x hx; simp [upd]; intro hxb; exact absurd (hxb ▸ hx) h3
  simp only [execOp, ea, eb, upd]
  by_cases hja : j = a.out <;> by_cases hjb : j = b.out <;> simp_all

end KV.Sig
