
namespace KV.Sig

/-! probe: signal-level op-list semantics and the generic simulation lemma -/
structure Op where
  code : Nat
  out : Nat
  ins : List Nat

def upd {α} (env : Nat → α) (k : Nat) (v : α) : Nat → α := fun j => if j = k then v else env j

def execOp {α} (sem : Nat → List α → α) (env : Nat → α) (op : Op) : Nat → α :=
  upd env op.out (sem op.code (op.ins.map env))

def exec {α} (sem : Nat → List α → α) (ops : List Op) (env : Nat → α) : Nat → α :=
  ops.foldl (execOp sem) env

inductive All2 {α β} (R : α → β → Prop) : List α → List β → Prop
  | nil : All2 R [] []
  | cons {a b as bs} : R a b → All2 R as bs → All2 R (a :: as) (b :: bs)

/-- simulation lemma: a relation preserved by every primitive is preserved by every program -/
theorem exec_rel {α β} (R : α → β → Prop) (s1 : Nat → List α → α) (s2 : Nat → List β → β)
    (hop : ∀ code (xs : List α) (ys : List β), All2 R xs ys → R (s1 code xs) (s2 code ys))
    (ops : List Op) (e1 : Nat → α) (e2 : Nat → β) (h : ∀ l, R (e1 l) (e2 l)) :
    ∀ l, R (exec s1 ops e1 l) (exec s2 ops e2 l) := by
  induction ops generalizing e1 e2 with
  | nil => simpa [exec] using h
  | cons op ops ih =>
    simp only [exec, List.foldl_cons]
    apply ih
    intro l
    simp only [execOp, upd]
    split
    · apply hop
      induction op.ins with
      | nil => exact .nil
      | cons i is ih2 => exact .cons (h i) ih2
    · exact h l

theorem All2.getD {α β} {R : α → β → Prop} {xs : List α} {ys : List β} (h : All2 R xs ys)
    (i : Nat) (dx : α) (dy : β) (hd : R dx dy) : R (xs.getD i dx) (ys.getD i dy) := by
  induction h generalizing i with
  | nil => simpa using hd
  | cons hab _ ih =>
    cases i with
    | zero => simpa using hab
    | succ i => simpa using ih i

theorem All2.map {α β} {R : α → β → Prop} {e1 : Nat → α} {e2 : Nat → β} (h : ∀ l, R (e1 l) (e2 l))
    (is : List Nat) : All2 R (is.map e1) (is.map e2) := by
  induction is with
  | nil => exact .nil
  | cons i is ih => exact .cons (h i) ih

/-- simulation lemma with a per-op hypothesis: only the ops of this program need to preserve `R` -/
theorem exec_rel_on {α β} (R : α → β → Prop) (s1 : Nat → List α → α) (s2 : Nat → List β → β)
    (ops : List Op)
    (hop : ∀ op ∈ ops, ∀ (xs : List α) (ys : List β), All2 R xs ys → R (s1 op.code xs) (s2 op.code ys))
    (e1 : Nat → α) (e2 : Nat → β) (h : ∀ l, R (e1 l) (e2 l)) :
    ∀ l, R (exec s1 ops e1 l) (exec s2 ops e2 l) := by
  induction ops generalizing e1 e2 with
  | nil => simpa [exec] using h
  | cons op ops ih =>
    simp only [exec, List.foldl_cons]
    apply ih (fun o ho => hop o (List.mem_cons_of_mem _ ho))
    intro l
    simp only [execOp, upd]
    split
    · exact hop op (List.mem_cons_self) _ _ (All2.map h op.ins)
    · exact h l

/-- two ops with disjoint footprints commute -/
theorem execOp_comm {α} (sem : Nat → List α → α) (a b : Op) (env : Nat → α)
    (h1 : a.out ≠ b.out) (h2 : a.out ∉ b.ins) (h3 : b.out ∉ a.ins) :
    execOp sem (execOp sem env a) b = execOp sem (execOp sem env b) a := by
  funext j
  have ea : b.ins.map (upd env a.out (sem a.code (a.ins.map env))) = b.ins.map env := by
    apply List.map_congr_left; intro x hx; simp [upd]; intro hxa; exact absurd (hxa ▸ hx) h2
  have eb : a.ins.map (upd env b.out (sem b.code (b.ins.map env))) = a.ins.map env := by
    apply List.map_congr_left; intro x hx; simp [upd]; intro hxb; exact absurd (hxb ▸ hx) h3
  simp only [execOp, ea, eb, upd]
  by_cases hja : j = a.out <;> by_cases hjb : j = b.out <;> simp_all

end KV.Sig

namespace KV.Sig
/-! ### generalisation: the semantics sees the whole op row (needed when the meaning of an op depends on
its operand *indices*, e.g. per-line delays and the output's capacity in the waveform simulator) -/

def execOpG {α} (sem : Op → List α → α) (env : Nat → α) (op : Op) : Nat → α :=
  upd env op.out (sem op (op.ins.map env))

def execG {α} (sem : Op → List α → α) (ops : List Op) (env : Nat → α) : Nat → α :=
  ops.foldl (execOpG sem) env

theorem exec_eq_execG {α} (sem : Nat → List α → α) (ops : List Op) (env : Nat → α) :
    exec sem ops env = execG (fun op => sem op.code) ops env := rfl

theorem execG_rel_on {α β} (R : α → β → Prop) (s1 : Op → List α → α) (s2 : Op → List β → β)
    (ops : List Op)
    (hop : ∀ op ∈ ops, ∀ (xs : List α) (ys : List β), All2 R xs ys → R (s1 op xs) (s2 op ys))
    (e1 : Nat → α) (e2 : Nat → β) (h : ∀ l, R (e1 l) (e2 l)) :
    ∀ l, R (execG s1 ops e1 l) (execG s2 ops e2 l) := by
  induction ops generalizing e1 e2 with
  | nil => simpa [execG] using h
  | cons op ops ih =>
    simp only [execG, List.foldl_cons]
    apply ih (fun o ho => hop o (List.mem_cons_of_mem _ ho))
    intro l
    simp only [execOpG, upd]
    split
    · exact hop op (List.mem_cons_self) _ _ (All2.map h op.ins)
    · exact h l

/-- unary invariant version -/
theorem execG_inv_on {α} (P : α → Prop) (s : Op → List α → α) (ops : List Op)
    (hop : ∀ op ∈ ops, ∀ xs : List α, (∀ x ∈ xs, P x) → P (s op xs))
    (e : Nat → α) (h : ∀ l, P (e l)) : ∀ l, P (execG s ops e l) := by
  induction ops generalizing e with
  | nil => simpa [execG] using h
  | cons op ops ih =>
    simp only [execG, List.foldl_cons]
    apply ih (fun o ho => hop o (List.mem_cons_of_mem _ ho))
    intro l
    simp only [execOpG, upd]
    split
    · apply hop op (List.mem_cons_self)
      intro x hx
      obtain ⟨i, _, rfl⟩ := List.mem_map.mp hx
      exact h i
    · exact h l

end KV.Sig

namespace KV.Sig
/-! ### array-based execution (what the compiled driver runs) and its equality with `execG` -/

def execArrStep {α} (d : α) (sem : Op → List α → α) (e : Array α) (op : Op) : Array α :=
  e.setIfInBounds op.out (sem op (op.ins.map fun i => e.getD i d))

def execArrG {α} (d : α) (sem : Op → List α → α) (ops : List Op) (env : Array α) : Array α :=
  ops.foldl (execArrStep d sem) env

theorem execArrStep_size {α} (d : α) (sem : Op → List α → α) (e : Array α) (op : Op) :
    (execArrStep d sem e op).size = e.size := by simp [execArrStep]

theorem execArrG_eq {α} (d : α) (sem : Op → List α → α) (ops : List Op) (env : Array α)
    (hb : ∀ op ∈ ops, op.out < env.size) (l : Nat) :
    (execArrG d sem ops env).getD l d = execG sem ops (fun i => env.getD i d) l := by
  induction ops generalizing env with
  | nil => rfl
  | cons op ops ih =>
    simp only [execArrG, execG, List.foldl_cons]
    have hsz := execArrStep_size d sem env op
    have := ih (execArrStep d sem env op) (fun o ho => by rw [hsz]; exact hb o (List.mem_cons_of_mem _ ho))
    simp only [execArrG, execG] at this
    rw [this]
    have hout := hb op List.mem_cons_self
    have henv : (fun i => (execArrStep d sem env op).getD i d) = execOpG sem (fun i => env.getD i d) op := by
      funext j
      simp only [execOpG, upd, execArrStep]
      by_cases hj : j = op.out
      · subst hj; simp [Array.getD_eq_getD_getElem?, hout]
      · simp only [hj, if_false]
        simp only [Array.getD_eq_getD_getElem?]
        rw [Array.getElem?_setIfInBounds_ne (Ne.symm hj)]
    rw [henv]

end KV.Sig

namespace KV.Sig
theorem All2.forall_left {α β} {R : α → β → Prop} {P : α → Prop} {xs : List α} {ys : List β}
    (h : All2 R xs ys) (hp : ∀ x y, R x y → P x) : ∀ x ∈ xs, P x := by
  induction h with
  | nil => intro x hx; cases hx
  | cons hab _ ih =>
    intro x hx
    rcases List.mem_cons.mp hx with rfl | hm
    · exact hp _ _ hab
    · exact ih x hm
theorem All2.forall_right {α β} {R : α → β → Prop} {P : β → Prop} {xs : List α} {ys : List β}
    (h : All2 R xs ys) (hp : ∀ x y, R x y → P y) : ∀ y ∈ ys, P y := by
  induction h with
  | nil => intro y hy; cases hy
  | cons hab _ ih =>
    intro y hy
    rcases List.mem_cons.mp hy with rfl | hm
    · exact hp _ _ hab
    · exact ih y hm
end KV.Sig

namespace KV.Sig
def nodupB : List Nat → Bool
  | [] => true
  | x :: r => !(r.contains x) && nodupB r

/-- Boolean certificate for one level: outputs pairwise different and no op reads an output of the level -/
def levelIndepB (lv : List Op) : Bool :=
  let outs := lv.map (·.out)
  nodupB outs && lv.all fun o => o.ins.all fun i => !(outs.contains i)


/-- split an op list into its levels given the level start indices -/
def splitLevels (ops : List Op) (starts : List Nat) : List (List Op) :=
  let stops := starts.drop 1 ++ [ops.length]
  (starts.zip stops).map fun (a, b) => (ops.drop a).take (b - a)
end KV.Sig
