import KyupyVerif.Model.SubstSem
import KyupyVerif.Model.Techlib
import KyupyVerif.Model.SimOps
/-! Vocabulary of the composition C19 → C10 (`resolve_datasheet_sem`): the decidable statement that a row of the generated
library tables (`TL.Cell`: ports with slots / captured lines and the REAL `SimOps` program, gen/dump_techlib.py) describes an
implementation circuit given as a netlist dump (`NNet`, what `resolve_tlib_cells` substitutes), and the positional reading
of an instance's pins. -/
namespace KV.Transform
open KV KV.TL

/-- the row of `dump_techlib.describe` for the circuit `m` scheduled in `order`: the op rows, the port list (name, driven,
    (P)PI slot of an undriven port / captured line of a driven one), no state element.  The last two clauses restate what the
    port list says in the form the proof uses (they follow from the second clause; they are checked, not derived): where the
    slot of the `j`-th port is found among the input slots of the row, and which lines the outputs capture. -/
def describesB (tbl : List PrefixRow) (cr : Cell) (m : NNet) (sh : Shape) (order : List Nat) : Bool :=
  (cr.ops == (genOps tbl m.net order false).map fun r => [r.lut, r.out, r.i0, r.i1, r.i2, r.i3]) &&
  (cr.ports == m.net.io.zipIdx.map fun nk =>
     let nd := m.net.node nk.1
     ((m.names.getD nk.1 "").toList, decide (nd.ins.length > 0),
      if nd.ins.length > 0 then (nd.inPin 0).getD 0 else m.net.idx.ppi + nk.2)) &&
  cr.nSeq == 0 && m.net.sNodes.length == m.net.io.length &&
  (m.net.io.zipIdx.all fun nk =>
     cr.inSlots.idxOf? (m.net.idx.ppi + nk.2) ==
       (if (m.net.node nk.1).ins.length == 0 then some (sh.inPorts.idxOf nk.1) else none)) &&
  (cr.inSlots.idxOf? m.net.idx.zero).isNone && cr.inSlots.length == sh.inPorts.length &&
  (cr.outLines.map (·.2) == sh.outLines)

/-- every input pin of the instance is connected and there are as many as the implementation has input ports -/
def pinsFitB (h : NNet) (c : Nat) (sh : Shape) : Bool :=
  (h.net.node c).ins.length == sh.inPorts.length && (h.net.node c).ins.all (·.isSome)

/-- the values on the instance's input pins in pin order (`z` on an unconnected pin) -/
def instVals {α} (h : NNet) (c : Nat) (z : α) (v : Nat → α) : List α :=
  (h.net.node c).ins.map fun o => match o with
    | some l => v l
    | none => z

end KV.Transform
