import KyupyVerif.Model.SubstSem
import KyupyVerif.Model.Techlib
import KyupyVerif.Model.SimOps
/-! Vocabulary of the composition C19 → C10 (`resolve_datasheet_sem`): the decidable statement that a row of the generated
library tables (`TL.Cell`: ports with slots / captured lines and the REAL `SimOps` program, gen/dump_techlib.py) describes an
implementation circuit given as a netlist dump (`NNet`, what `resolve_tlib_cells` substitutes), and the positional reading
of an instance's pins. -/
namespace KV.Transform
open KV KV.TL

/-- the row of `dump_techlib.describe` for the circuit `m` scheduled in `order`: the op rows are the rows of the `SimOps` model,
    the port list is `io_nodes` in order with name, driven flag (`len(ins) > 0`) and the (P)PI slot `ppi + k` of an undriven
    port / the captured line `ins[0]` of a driven one, there is no state element (`nSeq`, and `s_nodes` = `io_nodes`), and the
    ports are distinct nodes -/
def describesB (tbl : List PrefixRow) (cr : Cell) (m : NNet) (order : List Nat) : Bool :=
  (cr.ops == (genOps tbl m.net order false).map fun r => [r.lut, r.out, r.i0, r.i1, r.i2, r.i3]) &&
  (cr.ports == m.net.io.zipIdx.map fun nk =>
     ((m.names.getD nk.1 "").toList, decide ((m.net.node nk.1).ins.length > 0),
      if (m.net.node nk.1).ins.length > 0 then ((m.net.node nk.1).inPin 0).getD 0 else m.net.idx.ppi + nk.2)) &&
  cr.nSeq == 0 && m.net.sNodes.length == m.net.io.length && decide m.net.io.Nodup

/-- every input pin of the instance is connected and there are as many as the implementation has input ports -/
def pinsFitB (h : NNet) (c : Nat) (sh : Shape) : Bool :=
  (h.net.node c).ins.length == sh.inPorts.length && (h.net.node c).ins.all (·.isSome)

/-- the values on the instance's input pins in pin order (`z` on an unconnected pin) -/
def instVals {α} (h : NNet) (c : Nat) (z : α) (v : Nat → α) : List α :=
  (h.net.node c).ins.map fun o => match o with
    | some l => v l
    | none => z

end KV.Transform
