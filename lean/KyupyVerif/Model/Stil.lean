import KyupyVerif.Model.Val
/-! # Model of `kyupy/stil.py` after parsing (C18)

Input = what `stil.parse` hands to `StilFile.__init__`: the `signal_groups` dictionary, the `scan_chains`
dictionary (`[scan_in, cells and "!" markers ..., scan_out]` per chain) and the `calls` list; plus the part of
a `Circuit` that `_maps` looks at (`io_nodes` names, `nodes` with their kinds).  Data strings are `List Char`.

Modelled line by line: pattern extraction (`__init__`, stil.py:28-56), `_maps` (58-87), `tests` (89-109),
`tests_loc` (111-160; the 8-valued simulation between the two loops is a **parameter**: `nxt` holds, per
pattern, the column `bp_to_mv(sim8v.s[1])`), `responses` (162-176), `logic.interpret` on characters,
`logic.mv_transition` (hand-written from the docstring; checked against the generated table in Props/C18).

Two switches describe the two places where the code as found departs from the property (findings D11/D12);
`Mode.spec` is what the property asks for, `Mode.legacy` is stil.py as found:
* `IntfMode.upperDff` : `interface = io_nodes + [n for n in nodes if 'DFF' in n.kind]`
  (`sNodes`: `Circuit.s_nodes` = io_nodes + kinds containing "dff" ignoring case + kinds containing "latch")
* `InvMode.first`     : `scan_inversions[port] = mvarray(vector)[0]` (one flag for the whole chain).

A third switch (audit finding 2, fix D36): `LookMode.role` (repaired `_maps`: ports are looked up among `io_nodes` first, scan
cells among the state elements first) / `LookMode.last` (as found: one dictionary, last position of a name).
Domain (guards under which the real code does not raise and NumPy does not broadcast):
names in `interface` need NOT be unique (bench-style circuits: output port fork `q` and flip-flop `q`); scan-in/scan-out port names are
pairwise distinct; every load/unload/`_pi`/`_po` string has exactly as many characters as its chain has
cells / its group has signals (a one-character string would be broadcast by NumPy: outside the model, the
model reports `shape`); dictionaries are given as item lists with unique keys. -/
namespace KV.Stil
open KV

/-! ## values -/
def rise : V3 := ⟨true, false, true⟩
def fall : V3 := ⟨false, true, true⟩
def ppulse : V3 := ⟨false, false, true⟩
def npulse : V3 := ⟨true, true, true⟩

/-- `logic.interpret` on one character (logic.py:86-101) -/
def interp (c : Char) : V3 :=
  if c == '0' || c == 'L' || c == 'l' then V3.zero
  else if c == '1' || c == 'H' || c == 'h' then V3.one
  else if c == '-' || c == 'Z' || c == 'z' then V3.unassigned
  else if c == 'R' || c == 'r' || c == '/' then rise
  else if c == 'F' || c == 'f' || c == '\\' then fall
  else if c == 'P' || c == 'p' || c == '^' then ppulse
  else if c == 'N' || c == 'n' || c == 'v' then npulse
  else V3.unknown

/-- `logic.mvarray(s)` for a string -/
def mvarray (s : List Char) : List V3 := s.map interp

/-- `logic.mv_transition` (logic.py:241-258), from the docstring and the three statements -/
def mvTransition (i f : V3) : V3 :=
  if i == V3.unassigned && f == V3.unassigned then V3.unassigned
  else if i.unk || f.unk then V3.unknown
  else ⟨f.p0, i.p1, f.p0 ^^ i.p1⟩

/-- `tests`/`tests_loc` init: `pattern ^ choose(pattern is - or X, [inversion, ZERO])` -/
def invLoad (b : Bool) (v : V3) : V3 := if v.unk then v else if b then ⟨!v.p0, !v.p1, v.p2⟩ else v
/-- `logic.mv_xor(pattern, inversion)` (responses, tests_loc launch) -/
def xorInv (b : Bool) (v : V3) : V3 := specXor [v, V3.ofBool b]

/-! ## parsed file -/
abbrev Dict := List (String × List Char)

structure Call where
  name : String
  params : Dict
deriving Repr, Inhabited, DecidableEq

structure Pat where
  load : Dict
  launch : Dict
  capture : Dict
  unload : Dict
deriving Repr, Inhabited, DecidableEq

/-- `scan_chains[name] = [si] ++ mid ++ [so]` -/
structure Chain where
  si : String
  mid : List String
  so : String
deriving Repr, Inhabited, DecidableEq

structure File where
  groups : List (String × List String)
  chains : List Chain
  calls : List Call
deriving Repr, Inhabited

/-- domain of the chain-wise model (audit 2, A-C18-1): scan-in port names pairwise different and scan-out port names pairwise
different. stil.py keys `si_ports` / `so_ports` / `scan_maps` by PORT (a later chain of the same port replaces the earlier one);
the model below walks the chain list, which is the same thing exactly on this domain. -/
def File.portsOK (f : File) : Bool :=
  decide (f.chains.map (·.si)).Nodup && decide (f.chains.map (·.so)).Nodup

/-- `.replace('\n', '').replace('N', '-')` -/
def clean (s : List Char) : List Char := (s.filter (· != '\n')).map fun c => if c == 'N' then '-' else c

def cleanDict (d : Dict) : Dict := d.map fun kv => (kv.1, clean kv.2)

/-- `for port in ports: if port in call.parameters: d[port] = clean(call.parameters[port])` -/
def pick (ports : List String) (ps : Dict) : Dict :=
  ports.filterMap fun p => (ps.lookup p).map fun v => (p, clean v)

def endsWith (s suffix : String) : Bool := suffix.toList.isSuffixOf s.toList

structure XSt where
  launch : Dict := []
  capture : Dict := []
  sload : Dict := []
  pats : List Pat := []

/-- body of `for call in self.calls` (stil.py:39-56): three consecutive `if`s -/
def xstep (siP soP : List String) (st : XSt) (c : Call) : XSt :=
  let st1 :=
    if c.name == "load_unload" then
      let unload := pick soP c.params
      let st' := if st.capture.length > 0
        then { st with pats := st.pats ++ [⟨st.sload, st.launch, st.capture, unload⟩], capture := [], launch := [] }
        else st
      { st' with sload := pick siP c.params }
    else st
  let st2 := if endsWith c.name "_launch" then { st1 with launch := cleanDict c.params } else st1
  if endsWith c.name "_capture" then { st2 with capture := cleanDict c.params } else st2

def extract (f : File) : List Pat :=
  (f.calls.foldl (xstep (f.chains.map (·.si)) (f.chains.map (·.so))) {}).pats

/-! ## circuit interface -/
structure Circ where
  io : List String
  nodes : List (String × String)   -- (name, kind) in `circuit.nodes` order
deriving Repr, Inhabited

/-- Python `p in s` for strings -/
def hasSub (p : List Char) : List Char → Bool
  | [] => p.isEmpty
  | c :: r => p.isPrefixOf (c :: r) || hasSub p r

def lowerOf (s : String) : List Char := s.toList.map Char.toLower

/-- `Circuit.s_nodes` (circuit.py:262-268), names -/
def Circ.sNodes (c : Circ) : List String :=
  c.io ++ (c.nodes.filter fun n => hasSub "dff".toList (lowerOf n.2)).map (·.1)
       ++ (c.nodes.filter fun n => hasSub "latch".toList (lowerOf n.2)).map (·.1)

/-- the interface list of `_maps` as found (stil.py:59) -/
def Circ.upperDffIntf (c : Circ) : List String :=
  c.io ++ (c.nodes.filter fun n => hasSub "DFF".toList n.2.toList).map (·.1)

inductive IntfMode | sNodes | upperDff deriving DecidableEq, Repr
inductive InvMode | full | first deriving DecidableEq, Repr
/-- how a NAME is turned into a row (audit finding 2, fix D36): `role` — repaired `_maps`: a `_pi`/`_po` member is looked up among
the ports (`io_nodes`) first, a scan cell among the state elements first; `last` — `_maps` as found: one dictionary over the whole
interface, the LAST position with that name wins (a bench-style output port `q` and the flip-flop `q = DFF(..)` share a name) -/
inductive LookMode | role | last deriving DecidableEq, Repr
structure Mode where
  intf : IntfMode
  inv : InvMode
  look : LookMode := .role
deriving DecidableEq, Repr
def Mode.spec : Mode := ⟨.sNodes, .full, .role⟩
def Mode.legacy : Mode := ⟨.upperDff, .first, .last⟩

def Circ.intf (c : Circ) : IntfMode → List String
  | .sNodes => c.sNodes
  | .upperDff => c.upperDffIntf

/-! ## `_maps` -/
def isMark (n : String) : Bool := n == "!"
def cellsOf (l : List String) : List String := l.filter fun n => !isMark n
def markers (l : List String) : Nat := (l.filter isMark).length
def odd (n : Nat) : Bool := n % 2 == 1

/-- one pass over a chain: toggle on "!", append the current flag for a cell (stil.py:70-74 and 77-82) -/
def invScan : Bool → List String → List Bool
  | _, [] => []
  | inv, n :: r => if isMark n then invScan (!inv) r else inv :: invScan inv r

/-- `scan_in_inversion` after `list(reversed(...))` -/
def scanInInv (mid : List String) : List Bool := (invScan false mid).reverse
/-- `scan_out_inversion` -/
def scanOutInv (mid : List String) : List Bool := invScan false mid.reverse
/-- names behind `scan_map` -/
def scanNames (mid : List String) : List String := cellsOf mid.reverse

structure ChainMap where
  si : String
  so : String
  map : List Nat
  inInv : List Bool
  outInv : List Bool
deriving Repr

structure Maps where
  n : Nat
  pi : List Nat
  po : List Nat
  chains : List ChainMap
deriving Repr

inductive Err | key | shape | index deriving DecidableEq, Repr

def firstErr : List (Option Err) → Option Err
  | [] => none
  | some e :: _ => some e
  | none :: r => firstErr r

/-- `mvarray(v)[0]` keeps one flag; as it is later combined with a whole string it acts on every position -/
def invVec (m : InvMode) (v : List Bool) : List Bool :=
  match m with
  | .full => v
  | .first => v.map fun _ => v.headD false

def group (f : File) (g : String) : List String := (f.groups.lookup g).getD []

/-- Python `dict((n.name, i) for i, n in enumerate(l))[n]`: the LAST position of the name -/
def lastIdx (l : List String) (n : String) : Nat := l.length - 1 - l.reverse.idxOf n

/-- row of a port name (`_pi` / `_po` member): among the first `nio` interface entries (the ports) if there is one, else among the
state elements (`port_pos[n] if n in port_pos else cell_pos[n]`) -/
def portPos (nio : Nat) (intf : List String) (n : String) : Nat :=
  if (intf.take nio).contains n then lastIdx (intf.take nio) n else nio + lastIdx (intf.drop nio) n

/-- row of a scan cell: among the state elements if there is one, else among the ports -/
def cellPos (nio : Nat) (intf : List String) (n : String) : Nat :=
  if (intf.drop nio).contains n then nio + lastIdx (intf.drop nio) n else lastIdx (intf.take nio) n

def portLook (mode : Mode) (nio : Nat) (intf : List String) (n : String) : Nat :=
  match mode.look with | .role => portPos nio intf n | .last => lastIdx intf n
def cellLook (mode : Mode) (nio : Nat) (intf : List String) (n : String) : Nat :=
  match mode.look with | .role => cellPos nio intf n | .last => lastIdx intf n

/-- the row of scan cell `x` / of port `x` in property mode -/
def Circ.cellRow (c : Circ) (x : String) : Nat := cellPos c.io.length c.sNodes x
def Circ.portRow (c : Circ) (x : String) : Nat := portPos c.io.length c.sNodes x

def chainMap (mode : Mode) (nio : Nat) (intf : List String) (ch : Chain) : ChainMap :=
  { si := ch.si, so := ch.so,
    map := (scanNames ch.mid).map fun n => cellLook mode nio intf n,
    inInv := invVec mode.inv (scanInInv ch.mid),
    outInv := invVec mode.inv (scanOutInv ch.mid) }

/-- the maps when nothing raises -/
def mapsPure (mode : Mode) (c : Circ) (f : File) : Maps :=
  let intf := c.intf mode.intf
  { n := intf.length,
    pi := (group f "_pi").map fun n => portLook mode c.io.length intf n,
    po := (group f "_po").map fun n => portLook mode c.io.length intf n,
    chains := f.chains.map (chainMap mode c.io.length intf) }

def keyErr (intf : List String) (names : List String) : Option Err :=
  if names.all fun n => intf.contains n then none else some .key

/-- exceptions of `_maps` in program order -/
def mapsErr (mode : Mode) (c : Circ) (f : File) : Option Err :=
  let intf := c.intf mode.intf
  firstErr ([ (if (f.groups.lookup "_pi").isSome then none else some .key), keyErr intf (group f "_pi"),
              (if (f.groups.lookup "_po").isSome then none else some .key), keyErr intf (group f "_po") ]
    ++ f.chains.flatMap fun ch =>
        [ keyErr intf (cellsOf ch.mid),
          if mode.inv == .first && (cellsOf ch.mid).isEmpty then some .index else none ])

/-! ## assembling columns (one column = one pattern, rows = interface) -/
/-- consecutive array stores `col[i] = v` -/
def applyWrites (col : List V3) (ws : List (Nat × V3)) : List V3 := ws.foldl (fun c w => c.set w.1 w.2) col

def str (d : Dict) (k : String) : List Char := (d.lookup k).getD []

/-- `for si_port ...: col[scan_maps[si_port]] = f(inversion, mvarray(p.load[si_port]))` -/
def loadWrites (f : Bool → V3 → V3) (cms : List ChainMap) (p : Pat) : List (Nat × V3) :=
  cms.flatMap fun cm => cm.map.zip (List.zipWith f cm.inInv (mvarray (str p.load cm.si)))

def unloadWrites (cms : List ChainMap) (p : Pat) : List (Nat × V3) :=
  cms.flatMap fun cm => cm.map.zip (List.zipWith xorInv cm.outInv (mvarray (str p.unload cm.so)))

def blank (m : Maps) : List V3 := List.replicate m.n V3.unassigned

/-- column `i` of `tests` (stil.py:100-108) -/
def testsCol (m : Maps) (p : Pat) : List V3 :=
  applyWrites (blank m) (loadWrites invLoad m.chains p ++ m.pi.zip (mvarray (str p.capture "_pi")))

/-- `p.launch['_pi'] if '_pi' in p.launch else p.capture['_pi']` -/
def initPiStr (p : Pat) : List Char :=
  match p.launch.lookup "_pi" with
  | some s => s
  | none => str p.capture "_pi"

/-- column `i` of `init` in `tests_loc` (stil.py:134-142) -/
def initCol (m : Maps) (p : Pat) : List V3 :=
  applyWrites (blank m) (loadWrites invLoad m.chains p ++ m.pi.zip (mvarray (initPiStr p)))

/-- `'_pi' not in p.launch or 'P' not in p.launch['_pi'] or 'P' not in p.capture['_pi']` -/
def noLaunchPulse (p : Pat) : Bool :=
  match p.launch.lookup "_pi" with
  | none => true
  | some s => !s.contains 'P' || !(str p.capture "_pi").contains 'P'

/-- `'_pi' in p.capture and 'P' in p.capture['_pi']` -/
def capturePulse (p : Pat) : Bool :=
  match p.capture.lookup "_pi" with
  | none => false
  | some s => s.contains 'P'

/-- column `i` of `launch` after the second loop (stil.py:149-157); `nx` = simulated next state -/
def launchCol (m : Maps) (p : Pat) (nx : List V3) : List V3 :=
  applyWrites nx ((if noLaunchPulse p then loadWrites xorInv m.chains p else [])
    ++ (if capturePulse p then m.pi.zip (mvarray (str p.capture "_pi")) else [])
    ++ m.po.map fun i => (i, V3.unassigned))

def locCol (m : Maps) (p : Pat) (nx : List V3) : List V3 :=
  List.zipWith mvTransition (initCol m p) (launchCol m p nx)

/-- `p.capture['_po'] if len(p.capture) > 0 else p.launch['_po']` -/
def poStr (p : Pat) : List Char := if p.capture.length > 0 then str p.capture "_po" else str p.launch "_po"

/-- column `i` of `responses` (stil.py:171-175) -/
def respCol (m : Maps) (p : Pat) : List V3 :=
  applyWrites (blank m) (m.po.zip (mvarray (poStr p)) ++ unloadWrites m.chains p)

/-! ## exceptions of the three assembly loops, in program order -/
def strErr (d : Dict) (k : String) (n : Nat) : Option Err :=
  match d.lookup k with
  | none => some .key
  | some s => if s.length == n then none else some .shape

def loadErrs (m : Maps) (p : Pat) : List (Option Err) := m.chains.map fun cm => strErr p.load cm.si cm.map.length

def testsErr (m : Maps) (ps : List Pat) : Option Err :=
  firstErr (ps.flatMap fun p => loadErrs m p ++ [strErr p.capture "_pi" m.pi.length])

def locErr (m : Maps) (sLen : Nat) (ps : List Pat) (nxt : List (List V3)) : Option Err :=
  firstErr ((ps.flatMap fun p => loadErrs m p ++
      [if (p.launch.lookup "_pi").isSome then strErr p.launch "_pi" m.pi.length else strErr p.capture "_pi" m.pi.length])
    ++ [if m.n == sLen && nxt.length == ps.length && nxt.all (·.length == sLen) then none else some .shape]
    ++ ps.flatMap fun p =>
      [ if (p.launch.lookup "_pi").isSome && (str p.launch "_pi").contains 'P' && (p.capture.lookup "_pi").isNone
          then some .key else none,
        if capturePulse p then strErr p.capture "_pi" m.pi.length else none ])

def respErr (m : Maps) (ps : List Pat) : Option Err :=
  firstErr (ps.flatMap fun p =>
    [if p.capture.length > 0 then strErr p.capture "_po" m.po.length else strErr p.launch "_po" m.po.length]
    ++ m.chains.map fun cm => strErr p.unload cm.so cm.map.length)

/-! ## the three public functions: list of columns (one per pattern) or the exception class -/
def tests (mode : Mode) (c : Circ) (f : File) : Except Err (List (List V3)) :=
  match mapsErr mode c f with
  | some e => .error e
  | none =>
    let m := mapsPure mode c f
    match testsErr m (extract f) with
    | some e => .error e
    | none => .ok ((extract f).map (testsCol m))

def zipCols (g : Pat → List V3 → List V3) : List Pat → List (List V3) → List (List V3)
  | p :: ps, nx :: nxs => g p nx :: zipCols g ps nxs
  | _, _ => []

def testsLoc (mode : Mode) (c : Circ) (f : File) (nxt : List (List V3)) : Except Err (List (List V3)) :=
  match mapsErr mode c f with
  | some e => .error e
  | none =>
    let m := mapsPure mode c f
    match locErr m c.sNodes.length (extract f) nxt with
    | some e => .error e
    | none => .ok (zipCols (locCol m) (extract f) nxt)

/-- the `init` matrix handed to the simulator (what an `init_filter` sees) -/
def locInit (mode : Mode) (c : Circ) (f : File) : Except Err (List (List V3)) :=
  match mapsErr mode c f with
  | some e => .error e
  | none => .ok ((extract f).map (initCol (mapsPure mode c f)))

def responses (mode : Mode) (c : Circ) (f : File) : Except Err (List (List V3)) :=
  match mapsErr mode c f with
  | some e => .error e
  | none =>
    let m := mapsPure mode c f
    match respErr m (extract f) with
    | some e => .error e
    | none => .ok ((extract f).map (respCol m))

end KV.Stil
