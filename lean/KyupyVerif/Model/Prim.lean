/-! Simulation primitives: sixteen-bit truth tables (sim.py:7-40), the documented formulas,
and the prefix-driven selection of a primitive for a node kind (sim.py:207-215). -/
namespace KV

/-- bit `i0 + 2 i1 + 4 i2 + 8 i3` of the sixteen-bit constant -/
def lutIdx (a b c d : Bool) : Nat :=
  (if a then 1 else 0) + (if b then 2 else 0) + (if c then 4 else 0) + (if d then 8 else 0)
def lutBit4 (lut : Nat) (a b c d : Bool) : Bool := (lut >>> lutIdx a b c d) % 2 == 1

/-- The documented Boolean function of each primitive name (comments of sim.py:28-40 and the
    ordinary meaning of AND/OR/XOR families). This is specification, written by hand. -/
def formulaF (name : String) : Option (Bool → Bool → Bool → Bool → Bool) :=
  match name with
  | "BUF1" => some fun a b c d => a
  | "INV1" => some fun a b c d => (!a)
  | "AND2" => some fun a b c d => (a && b)
  | "AND3" => some fun a b c d => (a && b && c)
  | "AND4" => some fun a b c d => (a && b && c && d)
  | "NAND2" => some fun a b c d => !(a && b)
  | "NAND3" => some fun a b c d => !(a && b && c)
  | "NAND4" => some fun a b c d => !(a && b && c && d)
  | "OR2" => some fun a b c d => (a || b)
  | "OR3" => some fun a b c d => (a || b || c)
  | "OR4" => some fun a b c d => (a || b || c || d)
  | "NOR2" => some fun a b c d => !(a || b)
  | "NOR3" => some fun a b c d => !(a || b || c)
  | "NOR4" => some fun a b c d => !(a || b || c || d)
  | "XOR2" => some fun a b c d => (a ^^ b)
  | "XOR3" => some fun a b c d => (a ^^ b ^^ c)
  | "XOR4" => some fun a b c d => (a ^^ b ^^ c ^^ d)
  | "XNOR2" => some fun a b c d => !(a ^^ b)
  | "XNOR3" => some fun a b c d => !(a ^^ b ^^ c)
  | "XNOR4" => some fun a b c d => !(a ^^ b ^^ c ^^ d)
  | "AO21" => some fun a b c d => ((a && b) || c)
  | "AOI21" => some fun a b c d => !((a && b) || c)
  | "AO22" => some fun a b c d => ((a && b) || (c && d))
  | "AOI22" => some fun a b c d => !((a && b) || (c && d))
  | "OA21" => some fun a b c d => ((a || b) && c)
  | "OAI21" => some fun a b c d => !((a || b) && c)
  | "OA22" => some fun a b c d => ((a || b) && (c || d))
  | "OAI22" => some fun a b c d => !((a || b) && (c || d))
  | "AO211" => some fun a b c d => ((a && b) || c || d)
  | "AOI211" => some fun a b c d => !((a && b) || c || d)
  | "OA211" => some fun a b c d => ((a || b) && c && d)
  | "OAI211" => some fun a b c d => !((a || b) && c && d)
  | "MUX21" => some fun a b c d => (if c then b else a)
  | _ => none

def formula (name : String) (a b c d : Bool) : Option Bool := (formulaF name).map fun f => f a b c d

def primNames : List String :=
  ["BUF1","INV1","AND2","AND3","AND4","NAND2","NAND3","NAND4","OR2","OR3","OR4","NOR2","NOR3","NOR4",
   "XOR2","XOR3","XOR4","XNOR2","XNOR3","XNOR4","AO21","AOI21","AO22","AOI22","OA21","OAI21","OA22","OAI22",
   "AO211","AOI211","OA211","OAI211","MUX21"]

def bools : List Bool := [false, true]

/-- `kind_prefixes` entry: prefix, primitive for 4 / 3 / ≤2 connected pins -/
structure PrefixRow where
  pre : String
  p4 : Nat
  p3 : Nat
  p2 : Nat

/-- sim.py:207-215: first prefix (in dictionary order) that the lower-cased kind starts with;
    the arity variant is chosen by whether pin 3, then pin 2 is unconnected. -/
def startsWithL (s pre : String) : Bool := pre.toList.isPrefixOf s.toList

def selectPrim (table : List PrefixRow) (kind : String) (conn2 conn3 : Bool) : Option Nat :=
  match table.find? (fun r => startsWithL kind r.pre) with
  | none => none
  | some r => some (if conn3 then r.p4 else if conn2 then r.p3 else r.p2)

end KV
