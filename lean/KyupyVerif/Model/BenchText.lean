import KyupyVerif.Model.Netlist
/-! # Text level of `kyupy.bench`: lexer + grammar of the lark parser (property C11)

`bench.py` hands this grammar to `Lark(GRAMMAR, parser="lalr")` (contextual lexer):
```
start: (statement)*
statement: input | output | assignment
input: ("INPUT" | "input") parameters -> interface
output: ("OUTPUT" | "output") parameters -> interface
assignment: NAME "=" NAME parameters
parameters: "(" [ NAME ( "," NAME )* ] ")"
NAME: /[-_a-z0-9]+/i
%ignore ( /\r?\n/ | "#" /[^\n]*/ | /[\t\f ]/ )+
```
How lark (0.12) reads it — every item below was read off `lark/lexer.py`, `load_grammar.py` and the LALR table of this grammar:

* **Ignored text** is one regular expression `(\r?\n | #[^\n]* | [\t\f ])+`, tried in front of every token: blanks, tabs,
  form feeds, `\n`, `\r\n`, and `#` up to (not including) the next `\n` or the end of the text.  A `\r` that is not followed by
  `\n` is NOT ignorable outside a comment (the lexer raises `UnexpectedCharacters`): `skipC`.
* **NAME** is `[-_a-z0-9]+` under `re.IGNORECASE` on `str`, greedy.  Python's Unicode case folding makes `[a-z]` also match
  U+0130 `İ`, U+0131 `ı`, U+017F `ſ` and U+212A (Kelvin sign): `isLetter` (checked over all code points by the harness).
* The **keywords** are string literals that match NAME; lark removes them from the scanner and re-types a NAME token whose
  whole text is one of them (`UnlessCallback`, case sensitive) — but only in parser states that accept a keyword.  The
  contextual lexer builds one scanner per LALR state from the terminals that state accepts: keywords are accepted only where
  a statement may begin; behind `=`, `(` and `,` only NAME is, so `z = INPUT(a)` and `INPUT(INPUT)` are fine, and
  `INPUT = AND(a)` is a syntax error.  All other terminals are distinguished by their first character, so scanner order
  (priority, width) plays no role.
* The parser is LALR(1); the language is the one of the grammar, read here by recursive descent (`pStmts`, `pParams`) that
  pulls one token at a time (`next`) exactly as the LALR driver pulls from the contextual lexer.

The result is the statement list `List BStmt` that `Model/Netlist.lean` (`bench`) consumes: `interface` does not distinguish
`INPUT` from `OUTPUT` (both extend `io_nodes`), an assignment is `(name, kind, drivers)`.

`printBench` is the canonical printer (`INPUT(a, b)` / `z = AND(a, b)`, one statement per line); `renderTG` prints a token
list with an arbitrary gap behind every token, which is how the layout-independence theorem is stated.  Proofs:
`Proofs/BenchText.lean`; tie to the real parser: driver command `benchparse`, harness/c11.py (`text_stream`). -/
namespace KV.BenchText
open KV.Netlist

/-! ## characters -/

/-- `[a-z]` under `re.IGNORECASE` for `str` patterns -/
def isLetter (c : Char) : Bool :=
  (97 ≤ c.toNat && c.toNat ≤ 122) || (65 ≤ c.toNat && c.toNat ≤ 90) ||
  c.toNat == 0x130 || c.toNat == 0x131 || c.toNat == 0x17f || c.toNat == 0x212a

/-- `[0-9]` -/
def isDigit (c : Char) : Bool := 48 ≤ c.toNat && c.toNat ≤ 57

/-- `[-_a-z0-9]` under `re.IGNORECASE` -/
def isNameChar (c : Char) : Bool := isLetter c || isDigit c || c == '-' || c == '_'

/-! ## ignored text -/

/-- where the scan of ignored text is: between items, inside a `#` comment, behind a `\r` that needs its `\n` -/
inductive Mode | ws | com | cr
deriving DecidableEq, Repr

/-- the `%ignore` expression applied at the front of the text: what is left -/
def skipC : Mode → List Char → List Char
  | .ws, [] => []
  | .com, [] => []
  | .cr, [] => ['\r']
  | .com, c :: r => if c == '\n' then skipC .ws r else skipC .com r
  | .cr, c :: r => if c == '\n' then skipC .ws r else '\r' :: c :: r
  | .ws, c :: r =>
    if c == ' ' || c == '\t' || c == '\x0c' || c == '\n' then skipC .ws r
    else if c == '#' then skipC .com r
    else if c == '\r' then skipC .cr r
    else c :: r

/-! ## tokens -/

inductive Tok
  | name (s : List Char)
  | lpar | rpar | comma | eq
  | eof
deriving DecidableEq, Repr, Inhabited

/-- the token at the front of a text that does not start with ignorable characters; `none`: `UnexpectedCharacters` -/
def nextRaw : List Char → Option (Tok × List Char)
  | [] => some (.eof, [])
  | c :: r =>
    if c == '(' then some (.lpar, r)
    else if c == ')' then some (.rpar, r)
    else if c == ',' then some (.comma, r)
    else if c == '=' then some (.eq, r)
    else if isNameChar c then some (.name (c :: r.takeWhile isNameChar), r.dropWhile isNameChar)
    else none

/-- one pull of the parser from the lexer: skip ignored text, then one token -/
def next (s : List Char) : Option (Tok × List Char) := nextRaw (skipC .ws s)

/-! ## grammar -/

/-- the four keyword literals (case sensitive) -/
def isKw (n : List Char) : Bool :=
  n == ['I', 'N', 'P', 'U', 'T'] || n == ['i', 'n', 'p', 'u', 't'] ||
  n == ['O', 'U', 'T', 'P', 'U', 'T'] || n == ['o', 'u', 't', 'p', 'u', 't']

/-- `( "," NAME )* ")"` -/
def pParamsTail : Nat → List Char → Option (List String × List Char)
  | 0, _ => none
  | f + 1, s =>
    match next s with
    | some (.rpar, r) => some ([], r)
    | some (.comma, r) =>
      match next r with
      | some (.name n, r2) =>
        match pParamsTail f r2 with
        | some (ns, r3) => some (String.ofList n :: ns, r3)
        | none => none
      | _ => none
    | _ => none

/-- `parameters: "(" [ NAME ( "," NAME )* ] ")"` -/
def pParams (f : Nat) (s : List Char) : Option (List String × List Char) :=
  match next s with
  | some (.lpar, r) =>
    match next r with
    | some (.rpar, r2) => some ([], r2)
    | some (.name n, r2) =>
      match pParamsTail f r2 with
      | some (ns, r3) => some (String.ofList n :: ns, r3)
      | none => none
    | _ => none
  | _ => none

/-- `start: (statement)*` — a NAME at the start of a statement that spells a keyword IS the keyword -/
def pStmts : Nat → List Char → Option (List BStmt)
  | 0, _ => none
  | f + 1, s =>
    match next s with
    | some (.eof, _) => some []
    | some (.name n, r) =>
      if isKw n then
        match pParams f r with
        | some (ns, r2) =>
          match pStmts f r2 with
          | some rest => some (.intf ns :: rest)
          | none => none
        | none => none
      else
        match next r with
        | some (.eq, r2) =>
          match next r2 with
          | some (.name k, r3) =>
            match pParams f r3 with
            | some (ns, r4) =>
              match pStmts f r4 with
              | some rest => some (.gate (String.ofList n) (String.ofList k) ns :: rest)
              | none => none
            | none => none
          | _ => none
        | _ => none
    | _ => none

/-- the statement list lark hands to `BenchTransformer` for this text; `none`: `bench.parse` raises a lark
`UnexpectedInput`.  Fuel: every token has at least one character. -/
def parseChars (s : List Char) : Option (List BStmt) := pStmts (s.length + 1) s

def parseBench (text : String) : Option (List BStmt) := parseChars text.toList

/-- text → netlist: what the post-parse model builds from the model's own reading of the text -/
def circOfText (text : String) : Option Circ := (parseBench text).map bench

/-! ## printing -/

def tokText : Tok → List Char
  | .name s => s
  | .lpar => ['(']
  | .rpar => [')']
  | .comma => [',']
  | .eq => ['=']
  | .eof => []

/-- token list with a gap (ignorable text) behind every token -/
def renderTG : List (Tok × List Char) → List Char
  | [] => []
  | (t, g) :: r => tokText t ++ (g ++ renderTG r)

/-- `a, b, c` -/
def namesTG : List String → List (Tok × List Char)
  | [] => []
  | [a] => [(.name a.toList, [])]
  | a :: b :: r => (.name a.toList, []) :: (.comma, [' ']) :: namesTG (b :: r)

/-- `(a, b)` followed by the gap `e` -/
def paramsTG (ns : List String) (e : List Char) : List (Tok × List Char) := (.lpar, []) :: (namesTG ns ++ [(.rpar, e)])

def kwInput : List Char := ['I', 'N', 'P', 'U', 'T']

/-- canonical layout of one statement, followed by the gap `e`: `INPUT(a, b)` / `z = AND(a, b)` -/
def stmtTG (e : List Char) : BStmt → List (Tok × List Char)
  | .intf ns => (.name kwInput, []) :: paramsTG ns e
  | .gate n k d => (.name n.toList, [' ']) :: (.eq, [' ']) :: (.name k.toList, []) :: paramsTG d e

/-- one statement per line -/
def benchTG (stmts : List BStmt) : List (Tok × List Char) := stmts.flatMap (stmtTG ['\n'])

/-- statements in canonical form with an arbitrary gap behind each (blank lines, comment lines, nothing at all) -/
def benchTGWith (sg : List (BStmt × List Char)) : List (Tok × List Char) := sg.flatMap fun p => stmtTG p.2 p.1

/-- the token stream of a statement list (what every layout of it must lex to) -/
def benchToks (stmts : List BStmt) : List Tok := (benchTG stmts).map (·.1)

def printBench (stmts : List BStmt) : String := String.ofList (renderTG (benchTG stmts))

/-! ## names that can be written -/

/-- a NAME: non-empty, only `[-_a-z0-9]` (any case) -/
def validName (s : String) : Bool := !s.toList.isEmpty && s.toList.all isNameChar

/-- statements that have a text: all names are NAMEs and the target of an assignment does not spell a keyword -/
def validStmt : BStmt → Bool
  | .intf ns => ns.all validName
  | .gate n k d => validName n && !isKw n.toList && validName k && d.all validName

/-! ## layouts (for the statements of the round-trip theorems) -/

/-- `g` is ignorable text that ends outside a comment: blanks, tabs, form feeds, `\n`, `\r\n`, and `#` comments that are
closed by their `\n` -/
def gapB : Mode → List Char → Bool
  | .ws, [] => true
  | .com, [] => false
  | .cr, [] => false
  | .com, c :: r => if c == '\n' then gapB .ws r else gapB .com r
  | .cr, c :: r => if c == '\n' then gapB .ws r else false
  | .ws, c :: r =>
    if c == ' ' || c == '\t' || c == '\x0c' || c == '\n' then gapB .ws r
    else if c == '#' then gapB .com r
    else if c == '\r' then gapB .cr r
    else false

def Tok.isName : Tok → Bool
  | .name _ => true
  | _ => false

/-- the text does not continue a NAME -/
def headNotName : List Char → Bool
  | [] => true
  | c :: _ => !isNameChar c

/-- a layout of a token list: every gap is ignorable text, and a NAME is not directly followed by a name character -/
def layoutOK : List (Tok × List Char) → Bool
  | [] => true
  | (t, g) :: r => gapB .ws g && (!t.isName || headNotName (g ++ renderTG r)) && layoutOK r

/-- what may stand at the very end of the text: nothing, or a `#` comment that is not closed by a line break -/
def tailOK (tail : List Char) : Bool :=
  match tail with
  | [] => true
  | c :: body => c == '#' && (skipC .com body).isEmpty

/-! ## token classes: the spellings of the interface keyword (audit finding 10(a))

The grammar's `input` / `output` rules are `("INPUT" | "input")` and `("OUTPUT" | "output")`: four case-SENSITIVE string literals
(no `i` flag), all four reduced to the same `interface` callback.  The spelling class of the statement-leading keyword token is
therefore exactly `isKw`: `INPUT`, `input`, `OUTPUT`, `output` — `Input`, `OutPut` are plain NAMEs (an assignment target). -/

/-- one statement with its interface keyword spelled `kw` (canonical layout, gap `e` behind it) -/
def stmtTGK (kw : List Char) (e : List Char) : BStmt → List (Tok × List Char)
  | .intf ns => (.name kw, []) :: paramsTG ns e
  | .gate n k d => stmtTG e (.gate n k d)

/-- the token stream of a statement list in which every interface statement carries its own keyword spelling -/
def benchToksK (ks : List (List Char × BStmt)) : List Tok := ks.flatMap fun p => (stmtTGK p.1 [] p.2).map (·.1)

/-- the spelling chosen for an interface statement is one of the four keyword literals (an assignment has no keyword: its entry
is ignored) -/
def kwOK (p : List Char × BStmt) : Bool :=
  match p.2 with
  | .intf _ => isKw p.1
  | .gate _ _ _ => true

def kwsOK (ks : List (List Char × BStmt)) : Bool := ks.all kwOK

end KV.BenchText
