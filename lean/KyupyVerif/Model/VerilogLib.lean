import KyupyVerif.Model.VerilogSem
import KyupyVerif.Model.CircNet
import KyupyVerif.Model.Datasheet
import KyupyVerif.Model.Substitute
/-! # What a structural Verilog module over a CELL LIBRARY denotes (capstone of C11 / C10 / C19)

`verilogNNet` — the canonical dump of the parsed circuit WITH node names (`NNet`, the object `resolve_tlib_cells` /
`Transform.resolveCells` works on).

`VModelLib isLib row tl ports stmts a σ` — the datasheet denotation of a module (2-valued): `σ` is an environment over signal
names in which
* every output `(idx, f)` of an instance whose cell type is a LIBRARY cell (`isLib ty`) carries
  `(datasheet family pins)[idx]` of the values `σ` gives the signals / constants on the instance's input pins `0 … n-1`
  (`n` = number of input pins of the table row `row ty`; family = `DS.classify (DS.baseName ty)`, the hand-written data-book
  reading of the cell NAME, Model/Datasheet.lean) — no implementation circuit, no simulator kind table is involved;
* every other instance means what `VModel` says (a simulation primitive by its kind name, or a state element showing its
  assigned state), input port bits carry their assigned values, assign targets the value of their source, undriven names 0.

`vEvalLib` / `vModelLibB` — evaluator and acceptance check for the driver (`vModelLibB_sound`, Proofs/VerilogLib1.lean). -/
namespace KV.Netlist
open KV KV.Transform KV.TL KV.DS

/-- the dump of a model circuit with the node names -/
def Circ.toNNet (C : Circ) (io : List Nat) : NNet := ⟨C.toNet io, (C.nodes.map (·.name)).toArray⟩

/-- the canonical dump with names of the circuit `verilog.parse` builds (before `resolve_tlib_cells`) -/
def verilogNNet (cfg : Cfg) (tl : TL) (ports : List String) (stmts : List Stmt) : NNet :=
  (module cfg tl ports stmts).toNNet (module cfg tl ports stmts).ioVerilog

/-- the data-book functions of a cell type, one per output pin of its table row (in the row's output order), over the values
of the row's input pins (in the row's input order); `none` outside the listed families -/
def cellFuns (row : String → Cell) (ty : String) : Option (List (List Bool → Bool)) :=
  (classify (baseName ty.toList)).bind fun fam => datasheet fam (row ty).inNames (row ty).outNames

/-- the values `σ` gives the signals / constants on input pin indices `0 … n-1` of an instance (`false` when unconnected) -/
def libInVals (tl : TL) (σ : String → Bool) (i : VInst) (n : Nat) : List Bool :=
  (List.range n).map fun k => match inSig tl i k with
    | some s => sigVal false prim2 σ s
    | none => false

/-- `σ` is THE-datasheet model of the module under the assignment `a` -/
def VModelLib (isLib : String → Bool) (row : String → Cell) (tl : TL) (ports : List String) (stmts : List Stmt) (a : Nat → Bool)
    (σ : String → Bool) : Prop :=
  VModelOff (fun i => isLib i.ty = true) tl ports stmts false (!·) prim2 a σ ∧
  ∀ i ∈ vInsts stmts, isLib i.ty = true → ∃ fs, cellFuns row i.ty = some fs ∧
    ∀ o ∈ outConn tl (sigDecls stmts) i, ∀ f, fs[o.1]? = some f → σ o.2 = f (libInVals tl σ i (row i.ty).inNames.length)

/-- the library as a predicate on cell types -/
def libHas (lib : Lib) (ty : String) : Bool := (lib.find ty).isSome

/-- no library instance is a state element by its kind name, and no library cell is called like a port / fork / constant node -/
def libCleanB (lib : Lib) (stmts : List Stmt) : Bool :=
  (lib.find "input").isNone && (lib.find "output").isNone && (lib.find forkKind).isNone &&
  (lib.find "__const0__").isNone && (lib.find "__const1__").isNone &&
  ((vInsts stmts).all fun i => !((lib.find i.ty).isSome && isSeqKind i.ty))

/-! ## executable evaluation (driver) -/

/-- what an instance puts on its output pin `idx`: the data-book function for a library cell (`false` outside the listed
families / for an output the row does not have), `instVal` otherwise -/
def instValLib (isLib : String → Bool) (row : String → Cell) (tl : TL) (a : Nat → Bool) (pos : Nat) (i : VInst) (idx : Nat)
    (σ : String → Bool) : Bool :=
  if isLib i.ty then
    match cellFuns row i.ty with
    | some fs => (match fs[idx]? with
      | some f => f (libInVals tl σ i (row i.ty).inNames.length)
      | none => false)
    | none => false
  else instVal tl false (!·) prim2 a pos i idx σ

def vEvalLibPass (isLib : String → Bool) (row : String → Cell) (tl : TL) (ports : List String) (stmts : List Stmt) (a : Nat → Bool)
    (tab : List (String × Bool)) : List (String × Bool) :=
  (vPairs stmts).foldl (fun t ts =>
    if (lookupA t ts.1).isSome || !known t ts.2 then t
    else t ++ [(ts.1, sigVal false prim2 (fun s => (lookupA t s).getD false) ts.2)])
  ((vInsts stmts).foldl (fun t i =>
    if (isSeqKind i.ty && !isLib i.ty) || (inConn tl i).all (fun c => known t c.2.2) then
      (outConn tl (sigDecls stmts) i).foldl (fun t o =>
        if (lookupA t o.2).isSome then t
        else t ++ [(o.2, instValLib isLib row tl a (vSPos ports stmts (.cell i.name 0)) i o.1 (fun s => (lookupA t s).getD false))]) t
    else t) tab)

def vEvalLibFix (isLib : String → Bool) (row : String → Cell) (tl : TL) (ports : List String) (stmts : List Stmt) (a : Nat → Bool) :
    Nat → List (String × Bool) → List (String × Bool)
  | 0, t => t
  | k + 1, t =>
    let t' := vEvalLibPass isLib row tl ports stmts a t
    if t'.length == t.length then t else vEvalLibFix isLib row tl ports stmts a k t'

/-- table of signal values: input port bits first, then instance outputs and assign targets as they become computable -/
def vEvalLib (isLib : String → Bool) (row : String → Cell) (tl : TL) (ports : List String) (stmts : List Stmt) (a : Nat → Bool) :
    List (String × Bool) :=
  vEvalLibFix isLib row tl ports stmts a ((vInsts stmts).length + (vPairs stmts).length + 1)
    ((inputNames (sigDecls stmts)).map fun n => (n, a (vSPos ports stmts (.cell n 0))))

/-- acceptance check for a table: every clause of `VModelLib`, with every output of a library instance inside the row's outputs -/
def vModelLibB (isLib : String → Bool) (row : String → Cell) (tl : TL) (ports : List String) (stmts : List Stmt) (a : Nat → Bool)
    (tab : List (String × Bool)) : Bool :=
  ((vInsts stmts).all fun i =>
    (!(isLib i.ty) || (match cellFuns row i.ty with
      | some fs => (outConn tl (sigDecls stmts) i).all fun o => decide (o.1 < fs.length)
      | none => false)) &&
    (outConn tl (sigDecls stmts) i).all fun o =>
      vEnvOf false tab o.2 == instValLib isLib row tl a (vSPos ports stmts (.cell i.name 0)) i o.1 (vEnvOf false tab)) &&
  ((inputNames (sigDecls stmts)).all fun n => vEnvOf false tab n == a (vSPos ports stmts (.cell n 0))) &&
  ((vPairs stmts).all fun ts => vEnvOf false tab ts.1 == sigVal false prim2 (vEnvOf false tab) ts.2) &&
  (tab.all fun p => (drivenSigs tl (sigDecls stmts) stmts).contains p.1)

end KV.Netlist
