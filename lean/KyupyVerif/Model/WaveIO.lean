import KyupyVerif.Model.Capture
import KyupyVerif.Model.Grid
import KyupyVerif.Model.SimOps
/-! Model (M) of the two code paths of `wave_sim.py` around `_wave_eval` (which both paths share):

* `WaveSim.s_to_c` (wave_sim.py:108-117, NumPy, three vector statements) vs the kernel `wave_assign_gpu` (398-420);
* `WaveSim.s_ppo_to_ppi` (143-152) vs `ppo_to_ppi_gpu` (503-515);
* the loop body of `level_eval_cpu` (271-280) vs the thread of `wave_eval_gpu` (426-442), a level, `c_prop` (119-127, 380-386);
* the scan of `wave_capture_cpu` (283-326) vs `wave_capture_gpu` (445-501) for `sd = 0`.

Every access to `c`, `s`, `abuf` in these functions has the lane (`sim`, `vector`, `x`) as its last index and no
statement mixes lanes, so the state is modelled lane by lane: `Col` is one lane of `c` (address ↦ cell), a function
`Nat → Col` is the whole array. Addresses are integers because `c_locs` holds `-1` for "no memory" and NumPy wraps
negative indices (the CPU path does not test for `-1`, the kernels do).

Logic values in `s` are floats; the two paths threshold them differently (`!= 0` on the CPU, `>= 0.5` in the kernel), so the
model keeps the value: an `s` cell is the numerator `v` of `v / den` for a common denominator `den > 0`. -/
namespace KV.WaveIO
open KV.Wave

/-- one lane of the signal memory `c` -/
abbrev Col := Int → T

def updI {α} (m : Int → α) (a : Int) (v : α) : Int → α := fun j => if j = a then v else m j
def updN {α} (m : Nat → α) (a : Nat) (v : α) : Nat → α := fun j => if j = a then v else m j
/-- apply `f` to lane `k` of a lane-indexed state -/
def onLane {σ} (S : Nat → σ) (k : Nat) (f : σ → σ) : Nat → σ := fun j => if j = k then f (S j) else S j

/-! ## logic values of `s` and how the two paths threshold them -/
/-- `sins[k] != 0` (wave_sim.py:114) -/
def cpuFlag (v : Int) : Bool := v != 0
/-- `s[k, y, x] >= 0.5` (wave_sim.py:405) for the value `v / den` -/
def gpuFlag (den : Nat) (v : Int) : Bool := decide ((den : Int) ≤ 2 * v)

/-- what `s_to_c` / `s_ppo_to_ppi` read and write of one `(s row, lane)`: `s[0]`, `s[1]`, `s[2]`, `s[8]` -/
structure SRow where
  ini : Int
  time : T
  fin : Int
  cap : Int
deriving DecidableEq, Repr

instance : Inhabited SRow := ⟨⟨0, T.tmax, 0, 0⟩⟩

/-! ## waveform construction from (initial, time, final) -/
/-- cell `k` (0, 1, 2) the CPU path writes: `np.choose(cond, [TMAX, t, TMIN, TMIN])`,
    `np.choose(cond, [TMAX, TMAX, t, TMAX])`, `TMAX` with `cond = final + 2 * initial` -/
def cpuCell (k : Nat) (i f : Bool) (t : T) : T :=
  let cond := (if f then 1 else 0) + 2 * (if i then 1 else 0)
  match k with
  | 0 => [T.tmax, t, T.tmin, T.tmin].getD cond T.tmax
  | 1 => [T.tmax, T.tmax, t, T.tmax].getD cond T.tmax
  | _ => T.tmax

def cpuCells (i f : Bool) (t : T) : List T := [cpuCell 0 i f t, cpuCell 1 i f t, cpuCell 2 i f t]

/-- the cells at `c_loc`, `c_loc + 1`, `c_loc + 2` the kernel writes (`value = final | 2 * initial`, if-chain) -/
def gpuCells (i f : Bool) (t : T) : List T :=
  let value := (if f then 1 else 0) ||| (2 * (if i then 1 else 0))
  if value = 0 then [T.tmax, T.tmax, T.tmax]
  else if value = 1 then [t, T.tmax, T.tmax]
  else if value = 2 then [T.tmin, t, T.tmax]
  else [T.tmin, T.tmax, T.tmax]

/-- the tables of `SimOps` the four functions read -/
structure Tab where
  sLen : Nat
  nIo : Nat              -- `len(circuit.io_nodes)`: rows below are ports, rows from here on state elements
  cLen : Nat
  ppiLoc : Nat → Int     -- `c_locs[ppi_offset + y]`
  ppoLoc : Nat → Int     -- `c_locs[ppo_offset + y]`
  ppoCap : Nat → Nat     -- `c_caps[ppo_offset + y]`

/-- NumPy index normalisation for an axis of length `n` (valid for `-n ≤ i < n`) -/
def pyIdx (n : Nat) (i : Int) : Int := if i < 0 then i + n else i

/-- `pippi_s_locs`: ports whose (P)PI slot has memory, then the state-element rows whose (P)PI slot has memory
    (sim.py, end of `SimOps.__init__`; before the repair "state elements without connected outputs are not assigned in
    s_to_c" ALL state-element rows were listed and `s_to_c` stored through `c_locs = -1`) -/
def cpuAssignRows (tb : Tab) : List Nat :=
  ((List.range tb.nIo).filter fun y => decide (0 ≤ tb.ppiLoc y)) ++
  ((List.range' tb.nIo (tb.sLen - tb.nIo)).filter fun y => decide (0 ≤ tb.ppiLoc y))

/-- one of the three statements `self.c[self.pippi_c_locs + k] = …` on one lane (rows assigned in index order) -/
def cpuPass (tb : Tab) (s : Nat → SRow) (k : Nat) (c : Col) : Col :=
  (cpuAssignRows tb).foldl (fun c y =>
    updI c (pyIdx tb.cLen (tb.ppiLoc y + k)) (cpuCell k (cpuFlag (s y).ini) (cpuFlag (s y).fin) (s y).time)) c

/-- `WaveSim.s_to_c` on one lane -/
def cpuSToC (tb : Tab) (s : Nat → SRow) (c : Col) : Col := cpuPass tb s 2 (cpuPass tb s 1 (cpuPass tb s 0 c))

/-- `WaveSim.s_to_c` on the arrays (`sims` lanes) -/
def cpuSToCAll (tb : Tab) (sims : Nat) (s : Nat → Nat → SRow) (c : Nat → Col) : Nat → Col :=
  fun x => if x < sims then cpuSToC tb (s x) (c x) else c x

/-- the three stores of a kernel thread, in statement order -/
def write3 (c : Col) (loc : Int) (cells : List T) : Col :=
  updI (updI (updI c loc (cells.getD 0 T.tmax)) (loc + 1) (cells.getD 1 T.tmax)) (loc + 2) (cells.getD 2 T.tmax)

/-- thread `(x, y)` of `wave_assign_gpu` -/
def gpuAssignThread (tb : Tab) (den sims : Nat) (s : Nat → Nat → SRow) (x y : Nat) (c : Nat → Col) : Nat → Col :=
  if y ≥ tb.sLen then c else
  if tb.ppiLoc y < 0 then c else
  if x ≥ sims then c else
  onLane c x fun col => write3 col (tb.ppiLoc y) (gpuCells (gpuFlag den (s x y).ini) (gpuFlag den (s x y).fin) (s x y).time)

/-- `WaveSimCuda.s_to_c`: launch with `_grid_dim(sims, s_len)` blocks of `bx × by_` threads -/
def gpuSToC (tb : Tab) (den sims bx by_ : Nat) (s : Nat → Nat → SRow) (c : Nat → Col) : Nat → Col :=
  (Grid.launch (Grid.cdiv sims bx) (Grid.cdiv tb.sLen by_) bx by_).foldl (fun c p => gpuAssignThread tb den sims s p.1 p.2 c) c

/-! ## state transfer -/
def ppoToPpiRow (time : T) (r : SRow) : SRow := { ini := r.fin, time := time, fin := r.cap, cap := r.cap }

/-- `WaveSim.s_ppo_to_ppi` on one lane: rows `ppio_s_locs = arange(len(io_nodes), s_len)` -/
def cpuPpoToPpi (tb : Tab) (time : T) (s : Nat → SRow) : Nat → SRow :=
  fun y => if tb.nIo ≤ y ∧ y < tb.sLen then ppoToPpiRow time (s y) else s y

def cpuPpoToPpiAll (tb : Tab) (time : T) (sims : Nat) (s : Nat → Nat → SRow) : Nat → Nat → SRow :=
  fun x => if x < sims then cpuPpoToPpi tb time (s x) else s x

/-- thread `(x, y)` of `ppo_to_ppi_gpu` -/
def gpuPpoToPpiThread (tb : Tab) (time : T) (sims : Nat) (x y : Nat) (s : Nat → Nat → SRow) : Nat → Nat → SRow :=
  if y ≥ tb.sLen then s else
  if x ≥ sims then s else
  if tb.ppiLoc y < 0 then s else
  if tb.ppoLoc y < 0 then s else
  onLane s x fun rows => updN rows y (ppoToPpiRow time (rows y))

def gpuPpoToPpi (tb : Tab) (time : T) (sims bx by_ : Nat) (s : Nat → Nat → SRow) : Nat → Nat → SRow :=
  (Grid.launch (Grid.cdiv sims bx) (Grid.cdiv tb.sLen by_) bx by_).foldl (fun s p => gpuPpoToPpiThread tb time sims p.1 p.2 s) s

/-! ## propagation: loop body, kernel thread, level, `c_prop` -/
/-- an op row with its accumulation control (`ops[:, 6:9]`) -/
structure AOp where
  op : OpRow
  aLoc : Int
  aWr : Int
  aWf : Int
deriving DecidableEq, Repr, Inhabited

/-- one lane of `c` and of `abuf` -/
structure LaneSt where
  c : Col
  ab : Int → Int

/-- `_wave_eval(op, c, c_locs, c_caps, sim, delays, simctl_int[:, sim], seed)` as a function of the lane's memory:
    new memory, `nrise`, `nfall`. Both code paths call the same Python function, so the path theorems are stated for
    every such function; `evWave` below is the instance built from the waveform model `Wave.waveEval`. -/
abbrev Ev := OpRow → Nat → Col → Col × Nat × Nat

/-- `if a_loc >= 0: abuf[a_loc, sim] += nrise*a_wr + nfall*a_wf` (CPU) / `cuda.atomic.add(abuf, (a_loc, sim), …)` (kernel) -/
def accAdd (o : AOp) (nr nf : Nat) (ab : Int → Int) : Int → Int :=
  if 0 ≤ o.aLoc then updI ab o.aLoc (ab o.aLoc + ((nr : Int) * o.aWr + (nf : Int) * o.aWf)) else ab

/-- loop body of `level_eval_cpu` for `(op, sim)` on lane `sim` -/
def cpuBody (ev : Ev) (o : AOp) (sim : Nat) (st : LaneSt) : LaneSt :=
  let r := ev o.op sim st.c
  { c := r.1, ab := accAdd o r.2.1 r.2.2 st.ab }

/-- `level_eval_cpu`: `for op_idx in range(op_start, op_stop): for sim in range(sim_start, sim_stop)` -/
def cpuLevel (ev : Ev) (ops : List AOp) (opStart opStop simStart simStop : Nat) (S : Nat → LaneSt) : Nat → LaneSt :=
  (List.range' opStart (opStop - opStart)).foldl (fun S opIdx =>
    (List.range' simStart (simStop - simStart)).foldl (fun S sim => onLane S sim (cpuBody ev (ops.getD opIdx default) sim)) S) S

/-- thread `(x, y)` of `wave_eval_gpu` -/
def gpuEvalThread (ev : Ev) (ops : List AOp) (opStart opStop simStart simStop : Nat) (x y : Nat) (S : Nat → LaneSt) :
    Nat → LaneSt :=
  let sim := simStart + x
  let opIdx := opStart + y
  if sim ≥ simStop then S else
  if opIdx ≥ opStop then S else
  let o := ops.getD opIdx default
  onLane S sim fun st =>
    let r := ev o.op sim st.c
    { c := r.1, ab := accAdd o r.2.1 r.2.2 st.ab }

/-- one kernel launch of `WaveSimCuda.c_prop`: `_grid_dim(sims, op_stop - op_start)`, `sim_start = 0`, `sim_stop = sims` -/
def gpuLevel (ev : Ev) (ops : List AOp) (opStart opStop sims bx by_ : Nat) (S : Nat → LaneSt) : Nat → LaneSt :=
  (Grid.launch (Grid.cdiv sims bx) (Grid.cdiv (opStop - opStart) by_) bx by_).foldl
    (fun S p => gpuEvalThread ev ops opStart opStop 0 sims p.1 p.2 S) S

/-- `WaveSim.c_prop`: the levels `zip(level_starts, level_stops)` in order -/
def cpuCProp (ev : Ev) (ops : List AOp) (levels : List (Nat × Nat)) (sims : Nat) (S : Nat → LaneSt) : Nat → LaneSt :=
  levels.foldl (fun S lv => cpuLevel ev ops lv.1 lv.2 0 sims S) S

def gpuCProp (ev : Ev) (ops : List AOp) (levels : List (Nat × Nat)) (sims bx by_ : Nat) (S : Nat → LaneSt) : Nat → LaneSt :=
  levels.foldl (fun S lv => gpuLevel ev ops lv.1 lv.2 sims bx by_ S) S

/-- delay data-set selection of `_wave_eval` (wave_sim.py:165-176) for one lane: `nsets = len(delays)`, `mode = simctl_int[1, sim]`,
    `simctl0 = simctl_int[0, sim]`, `seed` = the argument of `c_prop`. One data set: always index 0. Several: mode 0 = `delays[seed]`,
    mode 1 = `delays[simctl_int[0, sim]]`. `none` = outside the model: an index `≥ nsets` (Python: IndexError; compiled: out of
    bounds), an empty `delays`, negative values (Python wraps them), and mode ≥ 2 (pseudo-random choice per gate from
    `seed`, the output index and `simctl0`: not modelled). Tied to the code by the driver command `wio-dataset` (harness/c06.py,
    clause `wave-dataset`: the index the real `_wave_eval` applies to `delays`, recorded per lane incl. mixed per-lane modes). -/
def selectDataset (nsets : Nat) (mode seed simctl0 : Nat) : Option Nat :=
  if nsets = 0 then none
  else if nsets = 1 then some 0
  else if mode = 0 then (if seed < nsets then some seed else none)
  else if mode = 1 then (if simctl0 < nsets then some simctl0 else none)
  else none

/-! ## reading and writing waveforms in memory -/
/-- `t >= TMAX` -/
def isEnd : T → Bool
  | T.tmax => true
  | T.tovl => true
  | _ => false

/-- the cells of a region -/
def rdCells (c : Col) (loc : Int) (cap : Nat) : List T := (List.range cap).map fun (k : Nat) => c (loc + (k : Int))

/-- the waveform a cell list encodes: entries before the first cell `≥ TMAX`, that cell as terminator
    (`TMAX` if the list holds none — never the case for a region the simulator has written) -/
def readWave (cells : List T) : Wv :=
  ⟨cells.takeWhile (fun t => !isEnd t), ((cells.dropWhile (fun t => !isEnd t)).head?).getD T.tmax⟩

def writeCells (c : Col) (loc : Int) : List T → Col
  | [] => c
  | t :: r => writeCells (updI c loc t) (loc + 1) r

/-- store a waveform: entries, then the terminator; cells behind it keep their (stale) content -/
def wrWave (c : Col) (loc : Int) (w : Wv) : Col := writeCells c loc (w.ents ++ [w.term])

/-- the evaluator instance built from the waveform model: operands are read from the regions `c_locs[i]`, `c_caps[i]`
    of the operand indices, delays are those of the operand indices, the result goes to the region of the output index.
    (Cells behind the terminator of the output are left as they were: `_wave_eval` may leave popped entries there; no
    reader looks at them.) -/
def evWave (cfg : Nat → WCfg) (loc : Nat → Int) : Ev := fun o sim c =>
  let g := cfg sim
  let op : KV.Sig.Op := ⟨o.lut, o.out, o.ins⟩
  let xs := o.ins.map fun i => readWave (rdCells c (loc i) (g.cap i))
  (wrWave c (loc o.out) (waveSem g op xs), (waveCounts g op xs).1, (waveCounts g op xs).2)

/-! ## capture, `sd = 0` -/
structure ScanSt where
  st : CapSt
  ovl : Bool
  done : Bool

def scanInit : ScanSt := ⟨{ eat := T.tmax, lst := T.tmin, final := false, val := false }, false, false⟩

/-- one iteration of the scan loop (both paths): `if t >= TMAX: (ovl = t == TMAX_OVL); break`, else `capStep` -/
def scanStep (time : T) (s : ScanSt) (t : T) : ScanSt :=
  if s.done then s else if isEnd t then { s with ovl := t == T.tovl, done := true } else { s with st := capStep time s.st t }

def capOf (init : Bool) (s : ScanSt) : Cap :=
  { init := init, eat := s.st.eat, lst := s.st.lst, final := s.st.final, val := s.st.val, ovl := s.ovl }

/-- `wave_capture_cpu(c, c_loc, c_len, vector, time)`: `w = c[c_loc:c_loc+c_len, vector]; for t in w: …`; `w[0] <= TMIN` -/
def cpuCapture (c : Col) (loc : Int) (len : Nat) (time : T) : Cap :=
  let w := rdCells c loc len
  capOf (w.head? == some T.tmin) (w.foldl (scanStep time) scanInit)

/-- thread of `wave_capture_gpu` after its guards: `for tidx in range(tdim): t = c[line + tidx, vector] …`; `c[line, vector] <= TMIN` -/
def gpuCapture (c : Col) (line : Int) (tdim : Nat) (time : T) : Cap :=
  capOf (c line == T.tmin) ((List.range tdim).foldl (fun s (tidx : Nat) => scanStep time s (c (line + (tidx : Int)))) scanInit)

/-- `poppo_s_locs`: ports whose (P)PO slot has memory, then ALL state-element rows (loop of `WaveSim.c_to_s`) -/
def cpuCaptureRows (tb : Tab) : List Nat :=
  ((List.range tb.nIo).filter fun y => decide (0 ≤ tb.ppoLoc y)) ++ List.range' tb.nIo (tb.sLen - tb.nIo)

/-- `WaveSim.c_to_s` on one lane: the captured record per `s` row (`none` = row not written) -/
def cpuCToS (tb : Tab) (time : T) (c : Col) (res : Nat → Option Cap) : Nat → Option Cap :=
  (cpuCaptureRows tb).foldl (fun res y => updN res y (some (cpuCapture c (tb.ppoLoc y) (tb.ppoCap y) time))) res

/-- thread `(x, y)` of `wave_capture_gpu` on the per-lane result table -/
def gpuCaptureThread (tb : Tab) (time : T) (sims : Nat) (c : Nat → Col) (x y : Nat) (res : Nat → Nat → Option Cap) :
    Nat → Nat → Option Cap :=
  if y ≥ tb.sLen then res else      -- `ppo_offset + y >= len(c_locs)` with `len(c_locs) = ppo_offset + s_len`
  if tb.ppoLoc y < 0 then res else
  if x ≥ sims then res else
  onLane res x fun r => updN r y (some (gpuCapture (c x) (tb.ppoLoc y) (tb.ppoCap y) time))

def gpuCToS (tb : Tab) (time : T) (sims bx by_ : Nat) (c : Nat → Col) (res : Nat → Nat → Option Cap) : Nat → Nat → Option Cap :=
  (Grid.launch (Grid.cdiv sims bx) (Grid.cdiv tb.sLen by_) bx by_).foldl (fun r p => gpuCaptureThread tb time sims c p.1 p.2 r) res

end KV.WaveIO
