import KyupyVerif.Model.Cycle
import KyupyVerif.Model.Encode
import KyupyVerif.Model.BAlg
/-! # The data path of `LogicSim` at BYTE level: pattern strings → `s[0]` → `c` → `s[1]` → result strings

Hand model (M) of what a user of `kyupy.logic_sim.LogicSim` does with data:

    sim = LogicSim(circuit, sims=P, m=m)          # s = zeros((2, S, 3, nbytes)); s[:, :, 1, :] = 255; c = zeros
    sim.s[0] = mv_to_bp(mvarray(*strings))         # or logic.bparray(*strings)
    sim.s_to_c(); sim.c_prop(); sim.c_to_s()       # or sim.cycle(k)
    mv_str(bp_to_mv(sim.s[1])[..., :P])

`Model/Cycle.lean` models the state handling with ONE value per `s_nodes` position and lane ("the bit-plane packing of `s` is
outside the model"); `Model/Encode.lean` models the conversions on lists of BYTES.  This file is the glue: an `s` row is
`SRow` = three planes of `nbytes` bytes (exactly the rows `mv_to_bp` produces), a plane read as ONE bit vector of `8 * nbytes`
lanes is `ofBytes` (byte `j` holds lanes `8j .. 8j+7`, least significant bit first, as `np.packbits(bitorder='little')` packs
them), and a `Codec` says for each arity `m` which planes `s_to_c` reads (`s[0, p, :mdim]`), which planes `c_to_s` writes
(`s[1, p, :mdim]`, plus the copy into plane 1 for `m = 2`; the other planes keep their content) and what `s_ppo_to_ppi` does to a
row.  The value domain `α` of the combinational memory is `BitVec (8*nb)` (m = 2), `P2 (BitVec (8*nb))` (m = 4),
`P3 (BitVec (8*nb))` (m = 8) — the domains of the bit-parallel theorems `C01.sim2_lanes`, `C02.sim4_lanes`, `C02.sim8_lanes`.

Tied to the code by exact correspondence (harness/c15.py `datapath_tie`, driver command `dp.run`): every byte of `s[0]`, `s[1]`
after the real run, all planes and padding lanes included, and the rendered strings. Core Lean only. -/
namespace KV.DP
open KV KV.Sig KV.Cycle KV.Enc

/-- one `s[i, p]` row: planes × bytes (`[3][nbytes]`) -/
abbrev SRow := List (List Nat)

/-- a plane of `nb` bytes read as one bit vector of `8 * nb` lanes: lane `8j + i` is bit `i` of byte `j` -/
def ofBytes (nb : Nat) (bytes : List Nat) : BitVec (8 * nb) := BitVec.ofNat (8 * nb) (ofBitsLE (unpackBytes bytes))

/-- the `nb` bytes of a bit vector of `8 * nb` lanes -/
def toBytes (nb : Nat) (v : BitVec (8 * nb)) : List Nat := packBytes nb ((List.range (8 * nb)).map v.getLsbD)

/-- plane `b` of a row as a bit vector (a missing plane reads 0) -/
def plane (nb : Nat) (r : SRow) (b : Nat) : BitVec (8 * nb) := ofBytes nb (r.getD b [])

/-- byte-wise XOR of two planes of `nb` bytes -/
def xorBytes (nb : Nat) (a b : List Nat) : List Nat := (List.range nb).map fun j => a.getD j 0 ^^^ b.getD j 0

/-- how one arity uses the three planes of an `s` row -/
structure Codec (α : Type) where
  /-- `s[0, p, :mdim]`: what `s_to_c` stores into the combinational memory -/
  dec : SRow → α
  /-- the row `s[1, p]` after `c_to_s` stored `v`: planes `:mdim` overwritten (m = 2: plane 1 too), the others kept -/
  enc : α → SRow → SRow
  /-- `s_ppo_to_ppi`: (old `s[0, p]`, `s[1, p]`) ↦ new `s[0, p]` -/
  merge : SRow → SRow → SRow

/-- m = 2 (`mdim = 1`): plane 0 is read; `c_to_s` writes plane 0 and copies it into plane 1; `s_ppo_to_ppi` copies the row -/
def codec2 (nb : Nat) : Codec (BitVec (8 * nb)) where
  dec r := plane nb r 0
  enc v r := [toBytes nb v, toBytes nb v, r.getD 2 []]
  merge _ new := new

/-- m = 4 (`mdim = 2`): planes 0, 1; plane 2 keeps its content; `s_ppo_to_ppi` copies the row -/
def codec4 (nb : Nat) : Codec (P2 (BitVec (8 * nb))) where
  dec r := ⟨plane nb r 0, plane nb r 1⟩
  enc v r := [toBytes nb v.p0, toBytes nb v.p1, r.getD 2 []]
  merge _ new := new

/-- m = 8 (`mdim = 3`): all planes; `s_ppo_to_ppi`: initial := previously assigned final, final := captured final,
    activity := their difference -/
def codec8 (nb : Nat) : Codec (P3 (BitVec (8 * nb))) where
  dec r := ⟨plane nb r 0, plane nb r 1, plane nb r 2⟩
  enc v _ := [toBytes nb v.p0, toBytes nb v.p1, toBytes nb v.p2]
  merge old new := [new.getD 0 [], old.getD 0 [], xorBytes nb (new.getD 0 []) (old.getD 0 [])]

/-! ### the four steps of logic_sim.py at byte level (signal-level memory as in Model/Cycle.lean) -/

/-- `s_to_c`: `c[pippi_c_locs] = s[0, pippi_s_locs, :mdim]` -/
def sToCB {α} (C : Codec α) (T : Tabs) (s0 : List SRow) (env : Nat → α) : Nat → α :=
  T.pippi.foldl (fun e px => upd e px.2 (C.dec (s0.getD px.1 []))) env

/-- `c_to_s`: `s[1, poppo_s_locs, :mdim] = c[poppo_c_locs]` (and the plane-1 copy for m = 2); one simultaneous assignment: the
    planes it does not write are those of `s[1]` before the call -/
def cToSB {α} (C : Codec α) (T : Tabs) (env : Nat → α) (s1 : List SRow) : List SRow :=
  T.poppo.foldl (fun s px => s.set px.1 (C.enc (env px.2) (s1.getD px.1 []))) s1

/-- `s_ppo_to_ppi` (right-hand sides read before writing) -/
def ppoToPpiB {α} (C : Codec α) (T : Tabs) (s0 s1 : List SRow) : List SRow :=
  T.ppio.foldl (fun s p => s.set p (C.merge (s0.getD p []) (s1.getD p []))) s0

structure StB (α : Type) where
  env : Nat → α
  s0 : List SRow
  s1 : List SRow

/-- `s_to_c(); c_prop(); c_to_s()`: the new `s[1]` -/
def captureB {α} (C : Codec α) (sem : Op → List α → α) (ops : List Op) (T : Tabs) (env : Nat → α) (s0 s1 : List SRow) :
    List SRow :=
  cToSB C T (execG sem ops (sToCB C T s0 env)) s1

/-- one pass of the loop body of `LogicSim.cycle` -/
def cycle1B {α} (C : Codec α) (sem : Op → List α → α) (ops : List Op) (T : Tabs) (st : StB α) : StB α :=
  let e2 := execG sem ops (sToCB C T st.s0 st.env)
  let s1 := cToSB C T e2 st.s1
  ⟨e2, ppoToPpiB C T st.s0 s1, s1⟩

/-- `LogicSim.cycle(k)` -/
def cycleKB {α} (C : Codec α) (sem : Op → List α → α) (ops : List Op) (T : Tabs) : Nat → StB α → StB α
  | 0, st => st
  | k + 1, st => cycleKB C sem ops T k (cycle1B C sem ops T st)

/-! ### the same with the memory as an array (what the compiled driver runs; equal by `Proofs/DataPath.lean: cycleKBA_eq`) -/

structure StBA (α : Type) where
  env : Array α
  s0 : List SRow
  s1 : List SRow

def sToCBA {α} (C : Codec α) (T : Tabs) (s0 : List SRow) (env : Array α) : Array α :=
  T.pippi.foldl (fun e px => e.setIfInBounds px.2 (C.dec (s0.getD px.1 []))) env

def cToSBA {α} (C : Codec α) (T : Tabs) (env : Array α) (s1 : List SRow) : List SRow :=
  T.poppo.foldl (fun s px => s.set px.1 (C.enc (env.getD px.2 (C.dec [])) (s1.getD px.1 []))) s1

def cycle1BA {α} (C : Codec α) (sem : Op → List α → α) (ops : List Op) (T : Tabs) (st : StBA α) : StBA α :=
  let e2 := execArrG (C.dec []) sem ops (sToCBA C T st.s0 st.env)
  let s1 := cToSBA C T e2 st.s1
  ⟨e2, ppoToPpiB C T st.s0 s1, s1⟩

def cycleKBA {α} (C : Codec α) (sem : Op → List α → α) (ops : List Op) (T : Tabs) : Nat → StBA α → StBA α
  | 0, st => st
  | k + 1, st => cycleKBA C sem ops T k (cycle1BA C sem ops T st)

/-! ### between the `Arr` of Model/Encode.lean and the rows of `s` -/

/-- the rows `[S][3][nb]` of a bit-parallel array of shape `(S, 3, nb)` (as `bp_to_mv` groups them) -/
def sRows (b : Arr Nat) : List SRow := chunks 3 b.lead.dropLast.prod b.rows

/-- `s[i]` as an array of shape `(S, 3, nb)` -/
def ofSRows (nb : Nat) (rows : List SRow) : Arr Nat := ⟨[rows.length, 3], nb, rows.flatten⟩

/-- a row of `s` as the constructor leaves it: planes 0 and 2 zero, plane 1 all ones (UNASSIGNED in every lane) -/
def freshRow (nb : Nat) : SRow := [List.replicate nb 0, List.replicate nb 255, List.replicate nb 0]

/-- `a[..., :P]` -/
def takeLast (P : Nat) (a : Arr Nat) : Arr Nat := ⟨a.lead, P, a.rows.map (·.take P)⟩

/-- number of patterns of a multi-valued array given to `mv_to_bp`: a 1-D array is ONE pattern -/
def patterns (a : Arr Nat) : Nat := if a.lead = [] then 1 else a.last

/-- **array level**: `sim = LogicSim(c, sims=P, m)` (fresh: `c = 0`, `s[1]` rows `freshRow`); `sim.s[0] = mv_to_bp(a)`;
    `s_to_c(); c_prop(); c_to_s()`; result `bp_to_mv(sim.s[1])[..., :P]`.  `none` where NumPy raises (shape of `mv_to_bp(a)` is
    not `(S, 3, nbytes)`).  `C`, `sem` are indexed by the byte count `nb = cdiv P 8`. -/
def simArr {A : Nat → Type} (C : ∀ nb, Codec (A nb)) (sem : ∀ nb, Op → List (A nb) → A nb)
    (tbl : List PrefixRow) (net : Net) (order : List Nat) (strip : Bool) (a : Arr Nat) : Option (Arr Nat) :=
  let b := mvToBp a
  let nb := b.last
  let S := net.sNodes.length
  if b.lead = [S, 3] then
    let s1 := captureB (C nb) (sem nb) (sigOps tbl net order strip) (tabsOf net strip) (fun _ => (C nb).dec []) (sRows b)
      (List.replicate S (freshRow nb))
    (bpToMv (ofSRows nb s1)).map (takeLast (patterns a))
  else none

/-- **string level**: pattern strings in, result strings out (`mv_str(…, delim)`; one line per pattern) -/
def simStrings {A : Nat → Type} (C : ∀ nb, Codec (A nb)) (sem : ∀ nb, Op → List (A nb) → A nb)
    (itbl : List (Nat × Nat)) (chars delim : List Nat)
    (tbl : List PrefixRow) (net : Net) (order : List Nat) (strip : Bool) (ss : List (List Nat)) : Option (List Nat) :=
  (mvarray itbl ss).bind fun a => (simArr C sem tbl net order strip a).bind (mvStr chars delim)

end KV.DP
