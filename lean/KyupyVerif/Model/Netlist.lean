/-! # Model of `kyupy.verilog` and `kyupy.bench` after lexing/parsing (property C11)

The model starts where lark hands the parse tree to the transformers.

**Verilog** (`VerilogTransformer`).  Raw statements `RStmt` carry what the grammar delivers: declarations with an optional
`range` (`[l:r]` or `[k]`), instantiations with NAMED pins (`.P(sigsel)` / `.P()`), assigns between two `sigsel`s; a
`sigsel` is a name, a name with a range, a sized constant token `w'bK` (split by the lexer's regular expression into
width, base letter, digits) or a concatenation.  `transform` applies the callbacks `range`, `sigsel`, `concat`,
`declaration`, `namedpin`/`instantiation` (bottom-up, as lark does) and yields the statement list `Stmt` that
`VerilogTransformer.module` receives; `module` follows `verilog.py:107-203` pass by pass:

* pass 0  `sigDecls`  — `sig_decls[basename]`: first insertion fixes the dict position; an entry is replaced only
                        while it is a `wire` (so the first non-wire declaration wins over everything that follows);
* `positions`         — `posNames`/`posOf`: port list expanded by each declared range in declared direction; a repeated
                        name keeps the LAST position (dict assignment);
* pass 1  `pass1Stmt` — one cell per instance; for every OUTPUT pin a new fork (named through `sig_decls` when the pin
                        names a declared 1-element signal) and the line `(cell, pin_index) → fork`;
* ports   `portPass`  — in `sig_decls` order: a cell of kind `input`/`output` per name, `io_nodes[positions[name]]`,
                        and for inputs a fork with a line from the cell;
* pass 1.5 `pass15`   — assigns: both sides expanded through `sig_decls`, zipped (`zip` cuts to the shorter side), and per
                        pair, depending on what is a fork AT THAT MOMENT: target driven → line `t → new fork s`;
                        source driven → line `s → new fork t`; source a constant bit → `__const<b>_<k>__` cell driving a new
                        fork `t`; otherwise NOTHING (the pair is dropped — `Cfg.assignFix = false`, the code as it stands;
                        `true` = repaired code: undecided pairs are retried until a round makes no progress);
* pass 2  `pass2Stmt` — per INPUT pin: a constant bit gets its own const cell and fork; a name that is no fork falls back
                        to `name[0]` (`Cfg.onebitDecl = true`, repaired code: first to the single declared name) or becomes a
                        new undriven fork; with `branchforks` a fork `stem~inst/pin` is put in between;
* outputs `outPass`   — line from the fork `name` (or `name[0]`) to the output cell.

The result `Circ` is an abstract netlist: nodes `(kind, name)` in creation order, lines between end points
(`Ep.fork name` or `Ep.cell name pin`) in creation order — a line with `via = some b` stands for the two lines through the
branch fork `b` —, the `io_nodes` assignments, `const_count`, and a flag `err` that is set where the real code raises
(duplicate node names, a list or nothing where a single signal is required, unknown cell/pin, undeclared port, an assign
between two driven signals).  `flatLines` gives the real line list with all pin numbers; the harness compares nodes,
lines and ports with the real `Circuit` entry by entry.

**bench** (`BenchTransformer`): `parameters` makes forks (`get_or_add_fork`) for all names first, `interface` extends
`io_nodes`, `assignment` makes the cell, the line to the same-named fork and one line per driver in argument order.

`TL` abstracts `TechLib.pin_index` / `pin_is_output`: `(kind, pin) ↦ (index, is_output)`, `none` where the code asserts. -/
namespace KV.Netlist

/-! ## `range`, `sigsel`, `concat`, `declaration` -/

/-- Python `range(left, right+1) if left <= right else range(left, right-1, -1)` -/
def rangeList (l r : Nat) : List Nat :=
  if l ≤ r then (List.range (r - l + 1)).map (l + ·) else (List.range (l - r + 1)).map (l - ·)

/-- `VerilogTransformer.range`: `[l:r]` or `[k]` -/
def range (l : Nat) (r : Option Nat) : List Nat := rangeList l (r.getD l)

/-- `f'{name}[{i}]'` -/
def bitName (base : String) (i : Nat) : String := base ++ "[" ++ toString i ++ "]"

/-- value of `sigsel`: one string or a list of strings -/
inductive SelVal
  | one (s : String)
  | many (l : List String)
deriving DecidableEq, Repr, Inhabited

def SelVal.toList : SelVal → List String
  | .one s => [s]
  | .many l => l

/-- `l if len(l) > 1 else l[0]` (guard: `l ≠ []`, otherwise `IndexError`) -/
def collapse (l : List String) : SelVal :=
  match l with
  | [x] => .one x
  | _ => .many l

def bitStr (b : Bool) : String := if b then "1'b1" else "1'b0"

/-- `for _ in range(width): l.insert(0, "1'b1" if (const & 1) else "1'b0"); const >>= 1` -/
def constLoop : Nat → Nat → List String → List String
  | 0, _, acc => acc
  | n + 1, k, acc => constLoop n (k / 2) (bitStr (k % 2 == 1) :: acc)

def digitVal (c : Char) : Nat :=
  if '0' ≤ c ∧ c ≤ '9' then c.toNat - '0'.toNat
  else if 'a' ≤ c ∧ c ≤ 'f' then c.toNat - 'a'.toNat + 10
  else if 'A' ≤ c ∧ c ≤ 'F' then c.toNat - 'A'.toNat + 10 else 0

/-- `{'b': 2, 'd': 10, 'h': 16}[base.lower()]` -/
def baseOf (c : Char) : Nat :=
  if c == 'b' || c == 'B' then 2 else if c == 'd' || c == 'D' then 10 else 16

/-- `int(const, base)` (guard `digitsOK`: every digit below the base, otherwise `ValueError`) -/
def parseNum (base : Nat) (ds : List Char) : Nat := ds.foldl (fun acc c => acc * base + digitVal c) 0

def digitsOK (base : Nat) (ds : List Char) : Bool := !ds.isEmpty && ds.all fun c => digitVal c < base &&
  (('0' ≤ c ∧ c ≤ '9') || ('a' ≤ c ∧ c ≤ 'f') || ('A' ≤ c ∧ c ≤ 'F'))

/-- the list built for a sized constant -/
def constBits (w : Nat) (base : Char) (ds : List Char) : List String := constLoop w (parseNum (baseOf base) ds) []

/-- `sigsel` argument as the grammar delivers it -/
inductive Sel
  | name (n : String)
  | bits (n : String) (l : Nat) (r : Option Nat)
  | const (w : Nat) (base : Char) (digits : List Char)
  | concat (items : List Sel)
deriving Repr, Inhabited

mutual
/-- `VerilogTransformer.sigsel` (a `concat` child arrives as the list `concat` returned) -/
def sigsel : Sel → SelVal
  | .name n => .one n
  | .bits n l r => collapse ((range l r).map (bitName n))
  | .const w b ds => collapse (constBits w b ds)
  | .concat items => .many (concatL items)
/-- `VerilogTransformer.concat`: lists are spliced, strings appended -/
def concatL : List Sel → List String
  | [] => []
  | a :: r => (sigsel a).toList ++ concatL r
end

/-- guard under which `sigsel` does not raise: widths ≥ 1, digits valid for the base -/
def Sel.ok : Sel → Bool
  | .name _ => true
  | .bits _ _ _ => true
  | .const w b ds => decide (1 ≤ w) && digitsOK (baseOf b) ds
  | .concat items => okL items
where okL : List Sel → Bool
  | [] => true
  | a :: r => a.ok && okL r

inductive DKind | input | output | wire
deriving DecidableEq, Repr, Inhabited

def DKind.str : DKind → String
  | .input => "input" | .output => "output" | .wire => "wire"

/-- `SignalDeclaration` -/
structure Decl where
  kind : DKind
  base : String
  rng : Option (List Nat)
deriving DecidableEq, Repr, Inhabited

/-- `SignalDeclaration.names` -/
def Decl.names (d : Decl) : List String :=
  match d.rng with
  | none => [d.base]
  | some r => r.map (bitName d.base)

/-- statements as the grammar delivers them (`inout` arrives as `input`: `inout()` calls `declaration("input", ..)`;
`tri` has no callback and stays a `Tree`: `other`) -/
inductive RStmt
  | decl (k : DKind) (r : Option (Nat × Option Nat)) (names : List String)
  | inst (type name : String) (pins : List (String × Option Sel))
  | assign (t s : Sel)
  | other
deriving Repr, Inhabited

/-- statements as `VerilogTransformer.module` receives them -/
inductive Stmt
  | decls (ds : List Decl)
  | inst (type name : String) (pins : List (String × SelVal))
  | assign (t s : List String)
  | other
deriving Repr, Inhabited

/-- one `pinmap[p[0]] = p[1]`: an existing key keeps its position and gets the new value -/
def pinPut (m : List (String × SelVal)) (p : String) (v : SelVal) : List (String × SelVal) :=
  if m.any (·.1 == p) then m.map fun e => if e.1 == p then (p, v) else e else m ++ [(p, v)]

/-- `VerilogTransformer.instantiation` for named pins: `.P()` contributes nothing -/
def pinStep (m : List (String × SelVal)) (p : String × Option Sel) : List (String × SelVal) :=
  match p.2 with
  | some s => pinPut m p.1 (sigsel s)
  | none => m

def instantiation (pins : List (String × Option Sel)) : List (String × SelVal) := pins.foldl pinStep []

/-- `VerilogTransformer.declaration` -/
def declaration (k : DKind) (r : Option (Nat × Option Nat)) (names : List String) : List Decl :=
  names.map fun n => ⟨k, n, r.map fun p => range p.1 p.2⟩

def transform : RStmt → Stmt
  | .decl k r names => .decls (declaration k r names)
  | .inst t n pins => .inst t n (instantiation pins)
  | .assign t s => .assign (sigsel t).toList (sigsel s).toList     -- `if not isinstance(x, list): x = [x]`
  | .other => .other

def RStmt.ok : RStmt → Bool
  | .inst _ _ pins => pins.all fun p => match p.2 with | some s => s.ok | none => true
  | .assign t s => t.ok && s.ok
  | _ => true

/-! ## the circuit under construction -/

inductive Ep
  | fork (name : String)
  | cell (name : String) (pin : Nat)
deriving DecidableEq, Repr, Inhabited

structure NodeM where
  kind : String
  name : String
  branch : Bool := false      -- ghost tag: a fork inserted by `branchforks`
deriving DecidableEq, Repr, Inhabited

structure LineM where
  d : Ep
  r : Ep
  via : Option String := none
deriving DecidableEq, Repr, Inhabited

structure Circ where
  nodes : List NodeM := []
  lines : List LineM := []
  io : List (Nat × String) := []     -- Verilog: `io_nodes[pos] = cell name` in program order
  ioB : List String := []            -- bench: `io_nodes.extend(forks)`
  cc : Nat := 0                      -- `const_count`
  err : Bool := false
deriving Repr, Inhabited

def forkKind : String := "__fork__"

def Circ.isFork (C : Circ) (n : String) : Bool := C.nodes.any fun x => x.kind == forkKind && x.name == n
def Circ.isCell (C : Circ) (n : String) : Bool := C.nodes.any fun x => x.kind != forkKind && x.name == n

def Circ.failIf (C : Circ) (b : Bool) : Circ := { C with err := C.err || b }
def Circ.fail (C : Circ) : Circ := { C with err := true }

/-- `Node(c, name)`: asserts that no fork of that name exists -/
def Circ.addFork (C : Circ) (n : String) (branch : Bool := false) : Circ :=
  { C with nodes := C.nodes ++ [⟨forkKind, n, branch⟩], err := C.err || C.isFork n }

/-- `Node(c, name, kind)`: asserts that no cell of that name exists (guard: `kind ≠ "__fork__"`) -/
def Circ.addCell (C : Circ) (kind n : String) : Circ :=
  { C with nodes := C.nodes ++ [⟨kind, n, false⟩], err := C.err || C.isCell n || kind == forkKind }

def Circ.addLine (C : Circ) (d r : Ep) (via : Option String := none) : Circ :=
  { C with lines := C.lines ++ [⟨d, r, via⟩] }

def Circ.addLines (C : Circ) (ls : List LineM) : Circ := { C with lines := C.lines ++ ls }
/-- `c.io_nodes[k] = n` -/
def Circ.pushIo (C : Circ) (k : Nat) (n : String) : Circ := { C with io := C.io ++ [(k, n)] }
/-- `c.io_nodes.extend(forks)` (bench) -/
def Circ.pushIoB (C : Circ) (ns : List String) : Circ := { C with ioB := C.ioB ++ ns }
/-- `const_count += 1` -/
def Circ.incCC (C : Circ) : Circ := { C with cc := C.cc + 1 }

/-! ## pass 0: `sig_decls`, `positions` -/

def lookup (ds : List Decl) (n : String) : Option Decl := ds.find? (·.base == n)

/-- `if decl.basename not in sig_decls or sig_decls[decl.basename].kind == 'wire': sig_decls[decl.basename] = decl` -/
def declPut (ds : List Decl) (d : Decl) : List Decl :=
  match lookup ds d.base with
  | none => ds ++ [d]
  | some e => if e.kind == .wire then ds.map fun x => if x.base == d.base then d else x else ds

def declsOf : Stmt → List Decl
  | .decls ds => ds
  | _ => []

def sigDecls (stmts : List Stmt) : List Decl := (stmts.flatMap declsOf).foldl declPut []

/-- names in position order: `for intf_sig in ports: for name in sig_decls[intf_sig].names` (`KeyError` for an
undeclared port: guard `portsDeclared`) -/
def posNames (ds : List Decl) (ports : List String) : List String :=
  ports.flatMap fun p => match lookup ds p with
    | some d => d.names
    | none => []

def portsDeclared (ds : List Decl) (ports : List String) : Bool := ports.all fun p => (lookup ds p).isSome

def lastIdxAux (n : String) : List String → Nat → Option Nat → Option Nat
  | [], _, best => best
  | x :: xs, i, best => lastIdxAux n xs (i + 1) (if x == n then some i else best)

/-- `positions[name]`: the last position at which the name was entered -/
def posOf (pn : List String) (n : String) : Option Nat := lastIdxAux n pn 0 none

/-! ## pass 1: cells and driven signals -/

abbrev TL := String → String → Option (Nat × Bool)

/-- `if s in sig_decls: s = sig_decls[s].names; if isinstance(s, list) and len(s) == 1: s = s[0]`; a longer list makes
`Node(c, s)` raise (unhashable) -/
def outSig (ds : List Decl) (s : String) : String × Bool :=
  match lookup ds s with
  | some d => match d.names with
    | [x] => (x, false)
    | _ => (s, true)
  | none => (s, false)

def pass1Pin (tl : TL) (ds : List Decl) (type inst : String) (C : Circ) (ps : String × SelVal) : Circ :=
  match tl type ps.1 with
  | none => C.fail
  | some (idx, true) =>
    match ps.2 with
    | .many _ => C.fail
    | .one s => ((C.addFork (outSig ds s).1).addLine (.cell inst idx) (.fork (outSig ds s).1)).failIf (outSig ds s).2
  | some (_, false) => C

def pass1Stmt (tl : TL) (ds : List Decl) (C : Circ) : Stmt → Circ
  | .inst type name pins => pins.foldl (pass1Pin tl ds type name) (C.addCell type name)
  | _ => C

/-! ## port cells -/

/-- `if name in positions: c.io_nodes[positions[name]] = n` -/
def ioStep (pn : List String) (C : Circ) (n : String) : Circ :=
  match posOf pn n with
  | some k => C.pushIo k n
  | none => C

def portName (pn : List String) (kind : DKind) (C : Circ) (n : String) : Circ :=
  if kind == .input then ((ioStep pn (C.addCell kind.str n) n).addFork n).addLine (.cell n 0) (.fork n)
  else ioStep pn (C.addCell kind.str n) n

def portDecl (pn : List String) (C : Circ) (d : Decl) : Circ :=
  if d.kind == .wire then C else d.names.foldl (portName pn d.kind) C

def portPass (pn : List String) (ds : List Decl) (C : Circ) : Circ := ds.foldl (portDecl pn) C

/-! ## pass 1.5: assigns -/

def expandSigs (ds : List Decl) (l : List String) : List String :=
  l.flatMap fun s => match lookup ds s with
    | some d => d.names
    | none => [s]

def pairsOf (ds : List Decl) : Stmt → List (String × String)
  | .assign t s => (expandSigs ds t).zip (expandSigs ds s)
  | _ => []

/-- all (target, source) bit pairs in the order the code visits them -/
def assignPairs (ds : List Decl) (stmts : List Stmt) : List (String × String) := stmts.flatMap (pairsOf ds)

/-- `s.startswith("1'b")` -/
def isConstBit (s : String) : Bool := ['1', '\'', 'b'].isPrefixOf s.toList

/-- `s[3]` (guard: length ≥ 4, always true for the strings `sigsel` makes) -/
def constCh (s : String) : String := String.singleton (s.toList.getD 3 '?')

def constName (s : String) (k : Nat) : String := "__const" ++ constCh s ++ "_" ++ toString k ++ "__"
def constKind (s : String) : String := "__const" ++ constCh s ++ "__"

/-- does the `if / elif / elif` chain of pass 1.5 have a branch for this pair right now? -/
def handled (C : Circ) (ts : String × String) : Bool := C.isFork ts.1 || C.isFork ts.2 || isConstBit ts.2

def assignStep (C : Circ) (ts : String × String) : Circ :=
  if C.isFork ts.1 then
    ((C.failIf (C.isFork ts.2)).addFork ts.2).addLine (.fork ts.1) (.fork ts.2)
  else if C.isFork ts.2 then
    (C.addFork ts.1).addLine (.fork ts.2) (.fork ts.1)
  else if isConstBit ts.2 then
    (((C.addCell (constKind ts.2) (constName ts.2 C.cc)).incCC).addFork ts.1).addLine (.cell (constName ts.2 C.cc) 0) (.fork ts.1)
  else C

/-- one round of the repaired pass 1.5: undecided pairs are collected -/
def roundStep (acc : Circ × List (String × String)) (ts : String × String) : Circ × List (String × String) :=
  if handled acc.1 ts then (assignStep acc.1 ts, acc.2) else (acc.1, acc.2 ++ [ts])

def assignRound (C : Circ) (pairs : List (String × String)) : Circ × List (String × String) :=
  pairs.foldl roundStep (C, [])

/-- `while len(pairs) > 0: ... if len(deferred) == len(pairs): break; pairs = deferred` (fuel = number of pairs suffices) -/
def assignFix : Nat → Circ → List (String × String) → Circ × List (String × String)
  | 0, C, pairs => (C, pairs)
  | fuel + 1, C, pairs =>
    if pairs.isEmpty then (C, [])
    else if (assignRound C pairs).2.length == pairs.length then assignRound C pairs
    else assignFix fuel (assignRound C pairs).1 (assignRound C pairs).2

structure Cfg where
  bf : Bool := false           -- `branchforks`
  assignFix : Bool := false    -- repaired pass 1.5 (assigns retried until no progress)
  onebitDecl : Bool := false   -- repaired pass 2 (a 1-bit bus named by its base resolves through its declaration)
deriving DecidableEq, Repr, Inhabited

def pass15 (cfg : Cfg) (C : Circ) (pairs : List (String × String)) : Circ :=
  if cfg.assignFix then (assignFix (pairs.length + 1) C pairs).1 else pairs.foldl assignStep C

/-! ## pass 2: readers -/

/-- the single declared name of `s` when it is a fork (repaired code only) -/
def declFork (ds : List Decl) (C : Circ) (s : String) : Option String :=
  match lookup ds s with
  | some d => match d.names with
    | [x] => if C.isFork x then some x else none
    | _ => none
  | none => none

/-- which fork an input pin naming `s` is connected to, and whether it has to be created -/
def resolveRead (cfg : Cfg) (ds : List Decl) (C : Circ) (s : String) : String × Bool :=
  if C.isFork s then (s, false)
  else match (if cfg.onebitDecl then declFork ds C s else none) with
    | some x => (x, false)
    | none => if C.isFork (s ++ "[0]") then (s ++ "[0]", false) else (s, true)

def branchName (f inst pin : String) : String := f ++ "~" ++ inst ++ "/" ++ pin

/-- the constant part of pass 2: own const cell and fork per constant pin -/
def constPin (C : Circ) (s : String) : Circ × String :=
  if isConstBit s then
    ((((C.addCell (constKind s) (constName s C.cc)).incCC).addFork (constName s C.cc)).addLine
        (.cell (constName s C.cc) 0) (.fork (constName s C.cc)), constName s C.cc)
  else (C, s)

/-- `Node(c, s)  # generate fork here` when nothing is found -/
def forkFor (cfg : Cfg) (ds : List Decl) (C : Circ) (s : String) : Circ :=
  if (resolveRead cfg ds C s).2 then C.addFork (resolveRead cfg ds C s).1 else C

/-- the last lines of pass 2: optional branch fork, then the line to the pin -/
def connectPin (bf : Bool) (inst pin : String) (idx : Nat) (C : Circ) (f : String) : Circ :=
  if bf then (C.addFork (branchName f inst pin) true).addLine (.fork f) (.cell inst idx) (some (branchName f inst pin))
  else C.addLine (.fork f) (.cell inst idx)

def readerOne (cfg : Cfg) (ds : List Decl) (inst pin : String) (idx : Nat) (C : Circ) (s0 : String) : Circ :=
  connectPin cfg.bf inst pin idx (forkFor cfg ds (constPin C s0).1 (constPin C s0).2)
    (resolveRead cfg ds (constPin C s0).1 (constPin C s0).2).1

def readerPin (cfg : Cfg) (tl : TL) (ds : List Decl) (type inst : String) (C : Circ) (ps : String × SelVal) : Circ :=
  match tl type ps.1 with
  | none => C.fail
  | some (_, true) => C
  | some (idx, false) =>
    match ps.2 with
    | .many _ => C.fail
    | .one s0 => readerOne cfg ds inst ps.1 idx C s0

def pass2Stmt (cfg : Cfg) (tl : TL) (ds : List Decl) (C : Circ) : Stmt → Circ
  | .inst type name pins => pins.foldl (readerPin cfg tl ds type name) C
  | _ => C

/-! ## output ports -/

/-- `Line(c, c.forks[name], c.cells[name])` — after the `name[0]` fallback BOTH look-ups use the rewritten name, so the
fallback raises `KeyError` unless a cell `name[0]` exists -/
def outName (C : Circ) (n : String) : Circ :=
  if C.isFork n then C.addLine (.fork n) (.cell n 0)
  else if C.isFork (n ++ "[0]") then (C.addLine (.fork (n ++ "[0]")) (.cell (n ++ "[0]") 0)).failIf (!C.isCell (n ++ "[0]"))
  else C

def outDecl (C : Circ) (d : Decl) : Circ := if d.kind == .output then d.names.foldl outName C else C

def outPass (ds : List Decl) (C : Circ) : Circ := ds.foldl outDecl C

/-! ## `VerilogTransformer.module` -/

def afterPass1 (tl : TL) (ports : List String) (stmts : List Stmt) : Circ :=
  portPass (posNames (sigDecls stmts) ports) (sigDecls stmts)
    (stmts.foldl (pass1Stmt tl (sigDecls stmts)) { err := !portsDeclared (sigDecls stmts) ports })

def afterPass15 (cfg : Cfg) (tl : TL) (ports : List String) (stmts : List Stmt) : Circ :=
  pass15 cfg (afterPass1 tl ports stmts) (assignPairs (sigDecls stmts) stmts)

def afterPass2 (cfg : Cfg) (tl : TL) (ports : List String) (stmts : List Stmt) : Circ :=
  stmts.foldl (pass2Stmt cfg tl (sigDecls stmts)) (afterPass15 cfg tl ports stmts)

def module (cfg : Cfg) (tl : TL) (ports : List String) (stmts : List Stmt) : Circ :=
  outPass (sigDecls stmts) (afterPass2 cfg tl ports stmts)

/-- `io_nodes` (a `GrowingList`): as long as the largest assigned position + 1, unassigned positions `None` -/
def ioNames (C : Circ) : List (Option String) :=
  (List.range ((C.io.map (·.1 + 1)).foldl max 0)).map fun i => ((C.io.filter (·.1 == i)).getLast?).map (·.2)

/-! ## the real node and line lists -/

/-- a line through a branch fork is two lines -/
def LineM.flat (l : LineM) : List (Ep × Ep) :=
  match l.via with
  | none => [(l.d, l.r)]
  | some b => [(l.d, .fork b), (.fork b, l.r)]

def flatLines (C : Circ) : List (Ep × Ep) := C.lines.flatMap LineM.flat

/-- the same circuit without branch forks -/
def LineM.unvia (l : LineM) : LineM := { l with via := none }
def stripBranch (C : Circ) : Circ :=
  { C with nodes := C.nodes.filter (!·.branch), lines := C.lines.map LineM.unvia }

/-! ## bench -/

inductive BStmt
  | intf (names : List String)
  | gate (name kind : String) (drivers : List String)
deriving DecidableEq, Repr, Inhabited

def getOrAddFork (C : Circ) (n : String) : Circ := if C.isFork n then C else C.addFork n

/-- driver lines `Line(c, d, cell)` in argument order: the reader pin is the argument position (first free pin) -/
def driverLines (name : String) : List String → Nat → List LineM
  | [], _ => []
  | d :: r, k => ⟨.fork d, .cell name k, none⟩ :: driverLines name r (k + 1)

def benchStmt (C : Circ) : BStmt → Circ
  | .intf names => (names.foldl getOrAddFork C).pushIoB names
  | .gate name kind drv =>
    -- `parameters` is reduced before `assignment`: driver forks, then the cell, then the same-named fork
    (((getOrAddFork ((drv.foldl getOrAddFork C).addCell kind name) name).addLine (.cell name 0) (.fork name)).addLines
      (driverLines name drv 0))

def bench (stmts : List BStmt) : Circ := stmts.foldl benchStmt {}

end KV.Netlist
