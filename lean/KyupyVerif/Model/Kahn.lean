
namespace KV.Kahn

/-! probe: model of Circuit.topological_order (after the D4 fix: counts connected pins) -/
structure G where
  n : Nat
  succs : Nat → List Nat      -- readers of the connected out-lines of a node, in pin order
  preds : Nat → List Nat      -- drivers of the connected in-lines of a node
  seq : Nat → Bool            -- dff / latch

def G.indeg (g : G) (r : Nat) : Nat := (g.preds r).length
def G.isSrc (g : G) (v : Nat) : Bool := g.indeg v == 0 || g.seq v

def bump (cnt : Nat → Nat) (r : Nat) : Nat → Nat := fun j => if j = r then cnt j + 1 else cnt j

/-- the inner `for line in n.outs` loop -/
def processSuccs (g : G) : List Nat → (Nat → Nat) × List Nat → (Nat → Nat) × List Nat
  | [], st => st
  | r :: rs, (cnt, q) =>
    let cnt' := bump cnt r
    let q' := if cnt' r == g.indeg r && !g.seq r then q ++ [r] else q
    processSuccs g rs (cnt', q')

structure KS where
  queue : List Nat
  cnt : Nat → Nat
  out : List Nat

def kstep (g : G) (s : KS) : Option KS :=
  match s.queue with
  | [] => none
  | v :: q =>
    let (cnt', q') := processSuccs g (g.succs v) (s.cnt, q)
    some { queue := q', cnt := cnt', out := s.out ++ [v] }

def kloop (g : G) : Nat → KS → KS
  | 0, s => s
  | fuel + 1, s => match kstep g s with
    | none => s
    | some s' => kloop g fuel s'

def kinit (g : G) : KS :=
  { queue := (List.range g.n).filter g.isSrc, cnt := fun _ => 0, out := [] }

def kahn (g : G) : List Nat := (kloop g (g.n + 1) (kinit g)).out

/-! ### the inner loop as a whole -/

theorem ps_cnt (g : G) (rs : List Nat) (cnt : Nat → Nat) (q : List Nat) (r : Nat) :
    (processSuccs g rs (cnt, q)).1 r = cnt r + rs.count r := by
  induction rs generalizing cnt q with
  | nil => simp [processSuccs]
  | cons x xs ih =>
    simp only [processSuccs]
    rw [ih]
    unfold bump
    by_cases h : r = x
    · subst h; simp [List.count_cons_self]; omega
    · have : x ≠ r := fun e => h e.symm
      simp [h, List.count_cons_of_ne this]

/-- what the inner loop appends to the queue -/
theorem ps_queue (g : G) (rs : List Nat) (cnt : Nat → Nat) (q : List Nat) :
    ∃ added, (processSuccs g rs (cnt, q)).2 = q ++ added ∧ added.Nodup ∧
      ∀ r, r ∈ added ↔ (g.seq r = false ∧ cnt r < g.indeg r ∧ g.indeg r ≤ cnt r + rs.count r) := by
  induction rs generalizing cnt q with
  | nil =>
    refine ⟨[], by simp [processSuccs], List.nodup_nil, ?_⟩
    intro r; simp only [List.not_mem_nil, List.count_nil, Nat.add_zero, false_iff, not_and]; intro _ h1; omega
  | cons x xs ih =>
    simp only [processSuccs]
    by_cases hx : (bump cnt x x == g.indeg x && !g.seq x) = true
    · -- x is appended now
      simp only [hx, if_true]
      obtain ⟨added, hq, hnd, hiff⟩ := ih (bump cnt x) (q ++ [x])
      simp only [Bool.and_eq_true, beq_iff_eq, Bool.not_eq_true'] at hx
      obtain ⟨hx1, hx2⟩ := hx
      have hbx : bump cnt x x = cnt x + 1 := by simp [bump]
      have hxnot : x ∉ added := by
        intro hmem
        have := (hiff x).mp hmem
        omega
      refine ⟨x :: added, by rw [hq]; simp, List.nodup_cons.mpr ⟨hxnot, hnd⟩, ?_⟩
      intro r
      by_cases hr : r = x
      · subst hr
        simp only [List.mem_cons, true_or, true_iff, List.count_cons_self]
        exact ⟨hx2, by omega, by omega⟩
      · have hne : x ≠ r := fun e => hr e.symm
        simp only [List.mem_cons, hr, false_or, List.count_cons_of_ne hne]
        rw [hiff r]
        simp [bump, hr]
    · -- x is not appended
      have hx' : (bump cnt x x == g.indeg x && !g.seq x) = false := by simpa using hx
      simp only [hx', Bool.false_eq_true, if_false]
      obtain ⟨added, hq, hnd, hiff⟩ := ih (bump cnt x) q
      refine ⟨added, hq, hnd, ?_⟩
      intro r
      rw [hiff r]
      by_cases hr : r = x
      · subst hr
        have hbx : bump cnt r r = cnt r + 1 := by simp [bump]
        simp only [hbx, List.count_cons_self]
        simp only [Bool.and_eq_false_iff, beq_eq_false_iff_ne, Bool.not_eq_false'] at hx'
        constructor
        · rintro ⟨h1, h2, h3⟩; exact ⟨h1, by omega, by omega⟩
        · rintro ⟨h1, h2, h3⟩
          refine ⟨h1, ?_, by omega⟩
          rcases hx' with h | h
          · rw [hbx] at h; omega
          · rw [h1] at h; simp at h
      · have hne : x ≠ r := fun e => hr e.symm
        simp [bump, hr, List.count_cons_of_ne hne]

/-! ### counting lemmas -/

theorem filter_snoc_length (P out : List Nat) (v : Nat) (hv : v ∉ out) :
    (P.filter (fun p => decide (p ∈ out ++ [v]))).length
      = (P.filter (fun p => decide (p ∈ out))).length + P.count v := by
  induction P with
  | nil => simp
  | cons p ps ih =>
    by_cases hp : p = v
    · subst hp
      have h1 : decide (p ∈ out ++ [p]) = true := by simp
      have h2 : decide (p ∈ out) = false := by simpa using hv
      rw [List.filter_cons, List.filter_cons, h1, h2, List.count_cons_self]
      simp only [if_true, Bool.false_eq_true, if_false, List.length_cons]
      rw [ih]; omega
    · have h1 : decide (p ∈ out ++ [v]) = decide (p ∈ out) := by
        simp [List.mem_append, hp]
      have hc : (p :: ps).count v = ps.count v := List.count_cons_of_ne (fun e => hp e)
      rw [hc, List.filter_cons, List.filter_cons, h1]
      split
      · simp only [List.length_cons]; rw [ih]; omega
      · exact ih

theorem filter_length_le (P : List Nat) (f : Nat → Bool) : (P.filter f).length ≤ P.length :=
  List.length_filter_le f P

theorem all_of_filter_length_eq (P : List Nat) (f : Nat → Bool) (h : P.length ≤ (P.filter f).length) :
    ∀ p ∈ P, f p = true := by
  induction P with
  | nil => intro p hp; simp at hp
  | cons x xs ih =>
    intro p hp
    by_cases hx : f x = true
    · simp only [List.filter_cons, hx, if_true, List.length_cons] at h
      rcases List.mem_cons.mp hp with rfl | hp
      · exact hx
      · exact ih (by omega) p hp
    · have hx' : f x = false := by simpa using hx
      simp only [List.filter_cons, hx', Bool.false_eq_true, if_false, List.length_cons] at h
      have := List.length_filter_le f xs
      omega

/-! ### outer loop invariant -/

/-- edge consistency of the circuit graph: every connected line is seen from both ends -/
def G.Consistent (g : G) : Prop := ∀ v r, (g.succs v).count r = (g.preds r).count v

def procLen (g : G) (out : List Nat) (r : Nat) : Nat := ((g.preds r).filter (fun p => decide (p ∈ out))).length

/-- drivers come before readers -/
def Ordered (g : G) (out : List Nat) : Prop :=
  ∀ A r B, out = A ++ r :: B → g.isSrc r = false → ∀ v ∈ g.preds r, v ∈ A

structure KInv (g : G) (s : KS) : Prop where
  nodup : (s.out ++ s.queue).Nodup
  cnt : ∀ r, s.cnt r = procLen g s.out r
  mem : ∀ r, g.isSrc r = false → (r ∈ s.out ++ s.queue ↔ g.indeg r ≤ s.cnt r)
  ready : ∀ r ∈ s.queue, g.isSrc r = false → ∀ v ∈ g.preds r, v ∈ s.out
  ord : Ordered g s.out

theorem procLen_le (g : G) (out : List Nat) (r : Nat) : procLen g out r ≤ g.indeg r :=
  List.length_filter_le _ _

theorem nonsrc_of_lt (g : G) (r : Nat) (c : Nat) (hs : g.seq r = false) (h : c < g.indeg r) : g.isSrc r = false := by
  unfold G.isSrc; simp [hs]; omega

theorem mem_shuffle (out q added : List Nat) (v r : Nat) :
    r ∈ (out ++ [v]) ++ (q ++ added) ↔ (r ∈ out ++ (v :: q) ∨ r ∈ added) := by
  simp only [List.mem_append, List.mem_cons, List.mem_singleton, List.not_mem_nil, or_false]
  constructor
  · rintro ((h | h) | (h | h))
    · exact Or.inl (Or.inl h)
    · exact Or.inl (Or.inr (Or.inl h))
    · exact Or.inl (Or.inr (Or.inr h))
    · exact Or.inr h
  · rintro ((h | h | h) | h)
    · exact Or.inl (Or.inl h)
    · exact Or.inl (Or.inr h)
    · exact Or.inr (Or.inl h)
    · exact Or.inr (Or.inr h)

/-- splitting `out ++ [v]` at an element: it is the last one, or the split lies inside `out` -/
theorem snoc_split (out A B : List Nat) (v r : Nat) (h : out ++ [v] = A ++ r :: B) :
    (A = out ∧ r = v ∧ B = []) ∨ (∃ B', out = A ++ r :: B') := by
  induction A generalizing out with
  | nil =>
    cases out with
    | nil => simp at h; exact Or.inl ⟨rfl, h.1.symm, h.2⟩
    | cons o os => simp at h; exact Or.inr ⟨os, by rw [h.1]; simp⟩
  | cons a as ih =>
    cases out with
    | nil =>
      simp at h
    | cons o os =>
      simp at h
      obtain ⟨rfl, h2⟩ := h
      rcases ih os h2 with ⟨h1, h2, h3⟩ | ⟨B', hB⟩
      · exact Or.inl ⟨by rw [h1], h2, h3⟩
      · exact Or.inr ⟨B', by rw [hB]; simp⟩

theorem kstep_inv (g : G) (hc : g.Consistent) (s s' : KS) (h : KInv g s) (hs : kstep g s = some s') : KInv g s' := by
  unfold kstep at hs
  cases hq : s.queue with
  | nil => rw [hq] at hs; simp at hs
  | cons v q =>
    rw [hq] at hs
    simp only [] at hs
    obtain ⟨added, hadd, hnd, hiff⟩ := ps_queue g (g.succs v) s.cnt q
    have hcnt := ps_cnt g (g.succs v) s.cnt q
    -- unpack s'
    have hs' : s' = { queue := q ++ added, cnt := (processSuccs g (g.succs v) (s.cnt, q)).1, out := s.out ++ [v] } := by
      have := Option.some.inj hs
      rw [← this]
      cases hps : processSuccs g (g.succs v) (s.cnt, q) with
      | mk c' q' => simp only [hps] at hadd ⊢; rw [hadd]
    subst hs'
    have hnd0 := h.nodup
    rw [hq] at hnd0
    have hv_notin : v ∉ s.out := by
      intro hv
      have := (List.nodup_append.mp hnd0).2.2 v hv v (by simp)
      exact this rfl
    have hcnt' : ∀ r, (processSuccs g (g.succs v) (s.cnt, q)).1 r = procLen g (s.out ++ [v]) r := by
      intro r
      rw [hcnt, h.cnt r, hc v r]
      unfold procLen
      rw [filter_snoc_length _ _ _ hv_notin]
    have hadded_fresh : ∀ r ∈ added, r ∉ s.out ++ (v :: q) := by
      intro r hr hmem
      obtain ⟨hseq, hlt, _⟩ := (hiff r).mp hr
      have hns := nonsrc_of_lt g r _ hseq hlt
      have := (h.mem r hns).mp (by rw [hq]; exact hmem)
      omega
    refine ⟨?_, hcnt', ?_, ?_, ?_⟩
    · -- nodup of (out ++ [v]) ++ (q ++ added)
      have : (s.out ++ [v]) ++ (q ++ added) = (s.out ++ (v :: q)) ++ added := by simp
      simp only []
      rw [this]
      apply List.nodup_append.mpr
      refine ⟨hnd0, hnd, ?_⟩
      intro a ha b hb hab
      subst hab
      exact hadded_fresh a hb ha
    · intro r hns
      simp only []
      have hold := h.mem r hns
      rw [hq] at hold
      have hseq : g.seq r = false := by
        unfold G.isSrc at hns; simp at hns; exact hns.2
      constructor
      · intro hm
        rcases (mem_shuffle s.out q added v r).mp hm with h1 | h1
        · have := hold.mp h1; rw [hcnt]; omega
        · have := ((hiff r).mp h1).2.2; rw [hcnt]; exact this
      · intro hle
        rw [hcnt] at hle
        apply (mem_shuffle s.out q added v r).mpr
        by_cases hlt : g.indeg r ≤ s.cnt r
        · exact Or.inl (hold.mpr hlt)
        · exact Or.inr ((hiff r).mpr ⟨hseq, by omega, hle⟩)
    · intro r hr hns u hu
      simp only [] at hr ⊢
      rcases List.mem_append.mp hr with h1 | h1
      · have := h.ready r (by rw [hq]; exact List.mem_cons_of_mem _ h1) hns u hu
        exact List.mem_append_left _ this
      · -- freshly added: all its in-lines have been processed
        have hge := ((hiff r).mp h1).2.2
        have hfull : g.indeg r ≤ procLen g (s.out ++ [v]) r := by rw [← hcnt' r, hcnt]; exact hge
        have := all_of_filter_length_eq (g.preds r) _ hfull u hu
        simpa using this
    · -- order
      intro A r B hsplit hns u hu
      simp only [] at hsplit
      rcases snoc_split s.out A B v r hsplit with ⟨hA, hr, _⟩ | ⟨B', hB⟩
      · subst hA; subst hr
        exact h.ready r (by rw [hq]; simp) hns u hu
      · exact h.ord A r B' hB hns u hu

theorem kinit_inv (g : G) : KInv g (kinit g) := by
  refine ⟨?_, ?_, ?_, ?_, ?_⟩
  · simp only [kinit, List.nil_append]
    exact (List.nodup_range).sublist List.filter_sublist
  · intro r
    simp only [kinit, procLen, List.not_mem_nil, decide_false]
    have : ∀ l : List Nat, (l.filter (fun _ => false)).length = 0 := by
      intro l; induction l with
      | nil => rfl
      | cons x xs ih => simpa [List.filter_cons] using ih
    exact (this _).symm
  · intro r hns
    simp only [kinit, List.nil_append, List.mem_filter, hns, Bool.false_eq_true, and_false, false_iff]
    unfold G.isSrc at hns
    simp at hns
    omega
  · intro r hr hns
    simp only [kinit, List.mem_filter] at hr
    rw [hr.2] at hns; exact absurd hns (by simp)
  · intro A r B h; simp [kinit] at h

theorem kloop_inv (g : G) (hc : g.Consistent) (fuel : Nat) (s : KS) (h : KInv g s) : KInv g (kloop g fuel s) := by
  induction fuel generalizing s with
  | zero => exact h
  | succ n ih =>
    unfold kloop
    cases hs : kstep g s with
    | none => exact h
    | some s' => exact ih s' (kstep_inv g hc s s' h hs)

/-- C17 soundness: every node at most once, and every non-source node after all drivers of its connected pins -/
theorem kahn_sound (g : G) (hc : g.Consistent) : (kahn g).Nodup ∧ Ordered g (kahn g) := by
  have h := kloop_inv g hc (g.n + 1) (kinit g) (kinit_inv g)
  exact ⟨(List.nodup_append.mp h.nodup).1, h.ord⟩

/-! ### completeness -/

structure KInv2 (g : G) (s : KS) : Prop where
  bound : ∀ r ∈ s.out ++ s.queue, r < g.n
  srcs : ∀ r, r < g.n → g.isSrc r = true → r ∈ s.out ++ s.queue

theorem kstep_inv2 (g : G) (hb : ∀ v r, r ∈ g.succs v → r < g.n) (s s' : KS) (h : KInv2 g s)
    (hs : kstep g s = some s') : KInv2 g s' := by
  unfold kstep at hs
  cases hq : s.queue with
  | nil => rw [hq] at hs; simp at hs
  | cons v q =>
    rw [hq] at hs
    simp only [] at hs
    obtain ⟨added, hadd, hnd, hiff⟩ := ps_queue g (g.succs v) s.cnt q
    have hs' : s' = { queue := q ++ added, cnt := (processSuccs g (g.succs v) (s.cnt, q)).1, out := s.out ++ [v] } := by
      have := Option.some.inj hs
      rw [← this]
      cases hps : processSuccs g (g.succs v) (s.cnt, q) with
      | mk c' q' => simp only [hps] at hadd ⊢; rw [hadd]
    subst hs'
    constructor
    · intro r hr
      rcases (mem_shuffle s.out q added v r).mp hr with h1 | h1
      · exact h.bound r (by rw [hq]; exact h1)
      · -- an added node occurs in succs v
        have := (hiff r).mp h1
        have hpos : 0 < (g.succs v).count r := by omega
        exact hb v r (List.count_pos_iff.mp hpos)
    · intro r hr hsrc
      have := h.srcs r hr hsrc
      rw [hq] at this
      exact (mem_shuffle s.out q added v r).mpr (Or.inl this)

theorem kinit_inv2 (g : G) : KInv2 g (kinit g) := by
  constructor
  · intro r hr; simp [kinit] at hr; exact hr.1
  · intro r hr hs; simp [kinit, hr, hs]

theorem kloop_inv2 (g : G) (hb : ∀ v r, r ∈ g.succs v → r < g.n) (fuel : Nat) (s : KS) (h : KInv2 g s) :
    KInv2 g (kloop g fuel s) := by
  induction fuel generalizing s with
  | zero => exact h
  | succ n ih =>
    unfold kloop
    cases hs : kstep g s with
    | none => exact h
    | some s' => exact ih s' (kstep_inv2 g hb s s' h hs)

theorem kstep_out_len (g : G) (s s' : KS) (hs : kstep g s = some s') : s'.out.length = s.out.length + 1 := by
  unfold kstep at hs
  cases hq : s.queue with
  | nil => rw [hq] at hs; simp at hs
  | cons v q =>
    rw [hq] at hs; simp only [] at hs
    have := Option.some.inj hs
    rw [← this]; simp

/-- if the queue is still non-empty after `fuel` rounds, `fuel` nodes have been yielded -/
theorem kloop_progress (g : G) (fuel : Nat) (s : KS) :
    (kloop g fuel s).queue = [] ∨ (kloop g fuel s).out.length = s.out.length + fuel := by
  induction fuel generalizing s with
  | zero => right; simp [kloop]
  | succ n ih =>
    unfold kloop
    cases hs : kstep g s with
    | none =>
      left
      unfold kstep at hs
      cases hq : s.queue with
      | nil => rfl
      | cons v q => rw [hq] at hs; simp at hs
    | some s' =>
      rcases ih s' with h | h
      · exact Or.inl h
      · right; rw [h, kstep_out_len g s s' hs]; omega

theorem kahn_queue_empty (g : G) (hc : g.Consistent) (hb : ∀ v r, r ∈ g.succs v → r < g.n) :
    (kloop g (g.n + 1) (kinit g)).queue = [] := by
  rcases kloop_progress g (g.n + 1) (kinit g) with h | h
  · exact h
  · exfalso
    have h1 := kloop_inv g hc (g.n + 1) (kinit g) (kinit_inv g)
    have h2 := kloop_inv2 g hb (g.n + 1) (kinit g) (kinit_inv2 g)
    have hnd := (List.nodup_append.mp h1.nodup).1
    have hsub : (kloop g (g.n + 1) (kinit g)).out ⊆ List.range g.n := by
      intro x hx; simpa using h2.bound x (List.mem_append_left _ hx)
    have := hnd.length_le_of_subset hsub
    simp [kinit] at h this
    omega

/-- C17 completeness: if the graph cut at state elements is acyclic (has a rank function that
increases along every edge into a non-source node), every node is yielded -/
theorem kahn_complete (g : G) (hc : g.Consistent) (hb : ∀ v r, r ∈ g.succs v → r < g.n)
    (hpb : ∀ r v, v ∈ g.preds r → v < g.n)
    (rank : Nat → Nat) (hrank : ∀ r v, g.isSrc r = false → v ∈ g.preds r → rank v < rank r) :
    ∀ r, r < g.n → r ∈ kahn g := by
  have h1 := kloop_inv g hc (g.n + 1) (kinit g) (kinit_inv g)
  have h2 := kloop_inv2 g hb (g.n + 1) (kinit g) (kinit_inv2 g)
  have hq := kahn_queue_empty g hc hb
  -- strong induction on the rank
  have key : ∀ k r, rank r < k → r < g.n → r ∈ kahn g := by
    intro k
    induction k with
    | zero => intro r h; omega
    | succ k ih =>
      intro r hrk hr
      cases hsrc : g.isSrc r with
      | true =>
        have := h2.srcs r hr hsrc
        rw [hq] at this; simpa [kahn] using this
      | false =>
        -- all drivers are yielded, so the counter of r is full
        have hall : ∀ v ∈ g.preds r, v ∈ kahn g := by
          intro v hv
          exact ih v (by have := hrank r v hsrc hv; omega) (hpb r v hv)
        have hfull : g.indeg r ≤ (kloop g (g.n + 1) (kinit g)).cnt r := by
          rw [h1.cnt r]
          unfold procLen G.indeg
          have : (g.preds r).filter (fun p => decide (p ∈ (kloop g (g.n + 1) (kinit g)).out)) = g.preds r := by
            apply List.filter_eq_self.mpr
            intro v hv
            simpa [kahn] using hall v hv
          rw [this]; exact Nat.le_refl _
        have := (h1.mem r hsrc).mpr hfull
        rw [hq] at this; simpa [kahn] using this
  intro r hr
  exact key (rank r + 1) r (by omega) hr

end KV.Kahn
