import KyupyVerif.Model.WaveCirc
/-! Fork stripping at the level of op programs (sim.py:204-209 and 226-238; wave_sim.py:178-196).

Un-stripped, a driven `__fork__` node is scheduled as one row `BUF1(branch; x, zero, zero, zero)` per output branch,
where `x` is the line the fork reads; the delay entry used is that of line `x`. With `strip_forks=True` these rows
are not scheduled, the branches share the memory of the stem (`c_locs`), and a reader of a branch reads the stem's
waveform but still adds the delay entries of the branch line: the eight-index row form of `opDelays`.

`stripOps st ops` is that transformation for a branch ↦ stem map `st`; `stripOkB` is the Boolean certificate that
`ops` is a program with fork rows for `st` (evaluated on the real rows by harness/c06.py). -/
namespace KV.Wave
open KV.Sig

/-- value source of a signal under the branch ↦ stem map -/
def src (st : List (Nat × Nat)) (x : Nat) : Nat := (st.lookup x).getD x

/-- a reader row after stripping: waveforms are read from the stems, delay entries stay those of the operand
    lines (the branches) — the eight-index row form of `opDelays` -/
def redirect (st : List (Nat × Nat)) (op : Op) : Op :=
  ⟨op.code, op.out,
   [src st (op.ins.getD 0 0), src st (op.ins.getD 1 0), src st (op.ins.getD 2 0), src st (op.ins.getD 3 0),
    op.ins.getD 0 0, op.ins.getD 1 0, op.ins.getD 2 0, op.ins.getD 3 0]⟩

/-- the stripped program: rows that write a branch are dropped, all other rows are redirected -/
def stripOps (st : List (Nat × Nat)) (ops : List Op) : List Op :=
  (ops.filter fun op => (st.lookup op.out).isNone).map (redirect st)

/-- check of a fork row `b := BUF1(x, zero, zero, zero)` with `st b = s`: the stem of `x` is `s`, `s` is not
    itself a branch, `x` has been written if it is a branch (chained forks), and neither `s` nor `x` is written
    at or after this row -/
def forkRowB (st : List (Nat × Nat)) (zidx : Nat) (written : List Nat) (op : Op) (s : Nat) (rest : List Op) : Bool :=
  op.code == 0xAAAA && op.ins.drop 1 == [zidx, zidx, zidx] && src st (op.ins.getD 0 0) == s &&
  (st.lookup s).isNone && ((st.lookup (op.ins.getD 0 0)).isNone || written.contains (op.ins.getD 0 0)) &&
  op.ins.getD 0 0 != op.out && rest.all fun p => p.out != s && p.out != op.ins.getD 0 0

/-- check of any other row: every operand that is a branch has been written before -/
def plainRowB (st : List (Nat × Nat)) (written : List Nat) (op : Op) : Bool :=
  op.ins.all fun x => (st.lookup x).isNone || written.contains x

/-- Boolean certificate that `ops` is a program with fork rows for the branch ↦ stem map `st`
    (`written` = outputs of the rows before) -/
def stripOkB (st : List (Nat × Nat)) (zidx : Nat) : List Nat → List Op → Bool
  | _, [] => true
  | written, op :: rest =>
    (op.ins.length == 4 && op.out != zidx &&
      (match st.lookup op.out with
       | some s => forkRowB st zidx written op s rest
       | none => plainRowB st written op)) &&
    stripOkB st zidx (op.out :: written) rest

end KV.Wave
