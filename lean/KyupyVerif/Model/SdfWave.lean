import KyupyVerif.Model.Sdf
import KyupyVerif.Model.SdfText
import KyupyVerif.Model.WaveCirc
import KyupyVerif.Model.Net
/-! # The timing data path: from an SDF description to the delay table of a `WaveSim` run

`WaveSim(circuit, delays = df.iopaths(circuit, tlib) + df.interconnects(circuit, tlib))` — the idiom of kyupy's own tests
and notebooks — hands the SUM of the two annotation arrays to the simulator; `_wave_eval` then reads
`delays[d, line, inpol, outpol]` of the data set `d` selected by `simctl_int` for the line at each operand of an op row.
The WaveSim model's configuration `WCfg.delay : line → inpol → outpol → Int` (Model/WaveCirc.lean) is exactly that layout
for one data set, so the composition is a definition: `sdfDelay`.

**Unit.** `Model/Sdf.lean` keeps SDF numbers as integers in THOUSANDTHS of the SDF time unit (`SdfFile.toRaw` reads the
decimal text `[-]i.fff` exactly).  The waveform model counts time in integer ticks.  Here one tick = 1/1000 SDF time unit:
no scaling between the two models; a stimulus time `t` (SDF units) is the tick count `1000·t`.  (Any other grid is
covered by `C04.rigid_motion` / `rational_scaling`: scaling all times and delays by a positive rational scales every result.)
The harness compares on the grid where real `float32` arithmetic is exact: SDF values that are multiples of 0.125. -/
namespace KV.SdfWave
open KV.Sdf KV.Wave

/-- `(df.iopaths(c, tlib) + ic)[d]` for an interconnect array `ic` already computed: the total part of the sum -/
def sumDelay (pinLine : PinTable) (df : DelayFile) (ic : Arr) (d : Nat) : Nat → Bool → Bool → Int :=
  fun l ip op => iopaths pinLine df d l ip op + ic d l ip op

/-- `(df.iopaths(c, tlib) + df.interconnects(c, tlib))[d]` as the delay table of a WaveSim run, in thousandths.
PARTIAL as `Sdf.interconnects` is: `none` exactly when `interconnects icLine df = none`, i.e. when the file has no block
without INSTANCE name and `df.interconnects(c, tlib)` raises `TypeError` — the sum is never formed, no simulator is built.
(`iopaths` is total in the model; the raising inputs of both loops — unknown cell / pin, a name with two `/`, entries with
0 or ≥ 3 value lists — are outside the tables' / guards' domain, see Model/Sdf.lean.) -/
def sdfDelay (pinLine : PinTable) (icLine : IcTable) (df : DelayFile) (d : Nat) : Option (Nat → Bool → Bool → Int) :=
  (interconnects icLine df).map fun ic => sumDelay pinLine df ic d

/-- the WaveSim configuration of a run with SDF delays: data set `d`, capacities `cap` (`c_caps`); `none` as `sdfDelay` -/
def sdfCfg (pinLine : PinTable) (icLine : IcTable) (df : DelayFile) (d : Nat) (cap : Nat → Nat) : Option WCfg :=
  (sdfDelay pinLine icLine df d).map fun del => ⟨del, cap⟩

/-- every number of the file is ≥ 0 (empty fields read 0) -/
def rawNonneg (B : List RawCell) : Bool :=
  B.all fun c => c.delays.flatten.all fun x => x.vals.all fun t => t.all fun o => decide (0 ≤ o.getD 0)

/-! ## the two tables read off the circuit

`Model/Sdf.lean` abstracts the circuit to a pin table and a fork table. Here they are DEFINED from the canonical dump `Net`
of the circuit (the object the `SimOps` model schedules), the node names (parallel to `net.nodes`) and the library's
`pin_index`, following `iopaths` / `interconnects` line by line: `circuit.cells.get(name)` (cells = nodes that are no forks;
names are unique among cells), `cell.ins[tlib.pin_index(cell.kind, pin)]`, and the search for the fork between two pins.
`none` where the code warns and skips, and where it raises (unknown cell / pin, pin index beyond the pin list, a failing
`assert`): outside the domain. -/

/-- `tlib.pin_index(kind, pin)`; `none` = unknown cell kind or pin (the real function raises) -/
abbrev PinIdx := String → String → Option Nat

/-- `circuit.cells.get(name)`: index of the node of that name that is not a fork -/
def findCell (net : Net) (names : Array String) (name : String) : Option Nat :=
  (List.range net.nodes.size).find? fun i => !(net.node i).isFork && names.getD i "" == name

/-- `iopaths`: `cell.ins[tlib.pin_index(cell.kind, i_pin_spec)]` -/
def netPinLine (net : Net) (names : Array String) (pinIdx : PinIdx) : PinTable := fun cell pin =>
  (findCell net names cell).bind fun i => (pinIdx (net.node i).kind pin).bind fun k => (net.node i).inPin k

/-- `p = tlib.pin_index(c.kind, pn) if pn is not None else 0` -/
def pinOr0 (pinIdx : PinIdx) (kind : String) : Option String → Option Nat
  | some pn => pinIdx kind pn
  | none => some 0

/-- `interconnects`: the forks `f1` behind the driver pin and `f2` in front of the reader pin; when they differ `f2` must be a
branch fork of `f1` (one output, fed by `f1`), when they coincide the fork must have no fan-out; the line is `f2.ins[0]` -/
def netIcLine (net : Net) (names : Array String) (pinIdx : PinIdx) : IcTable := fun c1 p1 c2 p2 =>
  (findCell net names c1).bind fun n1 => (findCell net names c2).bind fun n2 =>
  (pinOr0 pinIdx (net.node n1).kind p1).bind fun k1 => (pinOr0 pinIdx (net.node n2).kind p2).bind fun k2 =>
  (net.node n1).outPin k1 |>.bind fun lo => (net.node n2).inPin k2 |>.bind fun li =>
  let f1 := (net.line lo).reader
  let f2 := (net.line li).driver
  if !((net.node f1).isFork && (net.node f2).isFork) then none else
  ((net.node f2).inPin 0).bind fun l =>
    if f1 != f2 then
      (if (net.node f2).outs.length == 1 && (net.node f1).outPin (net.line l).dpin == some l then some l else none)
    else if (net.node f2).outs.length == 1 then some l else none

/-! ## from the text -/

/-- the block list `sdf.parse` hands to the annotation loops: grammar model, transformer guards, numbers in thousandths
(`none`: the text is rejected, the transformer raises, or a number is not a whole number of thousandths) -/
def rawOfText (text : String) : Option (List RawCell) := (KV.SdfText.parseSdf text).bind KV.SdfText.SdfFile.toRaw

/-- `sdf.parse(text)` (repaired `start`: every block kept) -/
def fileOfText (text : String) : Option DelayFile := (rawOfText text).map (parse .merge)

/-- `(sdf.parse(text).iopaths(c, tlib) + sdf.parse(text).interconnects(c, tlib))[d]`; `none`: `sdf.parse` does not deliver a
block list (see `rawOfText`) or `interconnects` raises (`sdfDelay = none`) -/
def textDelay (pinLine : PinTable) (icLine : IcTable) (text : String) (d : Nat) : Option (Nat → Bool → Bool → Int) :=
  (fileOfText text).bind fun df => sdfDelay pinLine icLine df d

end KV.SdfWave
