import KyupyVerif.Model.Sdf
import KyupyVerif.Model.SdfText
import KyupyVerif.Model.WaveCirc
/-! # The timing data path: from an SDF description to the delay table of a `WaveSim` run

`WaveSim(circuit, delays = df.iopaths(circuit, tlib) + df.interconnects(circuit, tlib))` — the idiom of kyupy's own tests
and notebooks — hands the SUM of the two annotation arrays to the simulator; `_wave_eval` then reads
`delays[d, line, inpol, outpol]` of the data set `d` selected by `simctl_int` for the line at each operand of an op row.
The WaveSim model's configuration `WCfg.delay : line → inpol → outpol → Int` (Model/WaveCirc.lean) is exactly that layout
for one data set, so the composition is a definition: `sdfDelay`.

**Unit.** `Model/Sdf.lean` keeps SDF numbers as integers in THOUSANDTHS of the SDF time unit (`SdfFile.toRaw` reads the
decimal text `[-]i.fff` exactly).  The waveform model counts time in integer ticks.  Here one tick = 1/1000 SDF time unit:
no scaling between the two models; a stimulus time `t` (SDF units) is the tick count `1000·t`.  (Any other grid is
covered by `C04.rigid_motion` / `rational_scaling`: scaling all times and delays by a positive rational scales every result.)
The harness compares on the grid where real `float32` arithmetic is exact: SDF values that are multiples of 0.125. -/
namespace KV.SdfWave
open KV.Sdf KV.Wave

/-- `(df.iopaths(c, tlib) + df.interconnects(c, tlib))[d]` as the delay table of a WaveSim run, in thousandths -/
def sdfDelay (pinLine : PinTable) (icLine : IcTable) (df : DelayFile) (d : Nat) : Nat → Bool → Bool → Int :=
  fun l ip op => iopaths pinLine df d l ip op + interconnects icLine df d l ip op

/-- the WaveSim configuration of a run with SDF delays: data set `d`, capacities `cap` (`c_caps`) -/
def sdfCfg (pinLine : PinTable) (icLine : IcTable) (df : DelayFile) (d : Nat) (cap : Nat → Nat) : WCfg :=
  ⟨sdfDelay pinLine icLine df d, cap⟩

/-- every number of the file is ≥ 0 (empty fields read 0) -/
def rawNonneg (B : List RawCell) : Bool :=
  B.all fun c => c.delays.flatten.all fun x => x.vals.all fun t => t.all fun o => decide (0 ≤ o.getD 0)

/-! ## from the text -/

/-- the block list `sdf.parse` hands to the annotation loops: grammar model, transformer guards, numbers in thousandths
(`none`: the text is rejected, the transformer raises, or a number is not a whole number of thousandths) -/
def rawOfText (text : String) : Option (List RawCell) := (KV.SdfText.parseSdf text).bind KV.SdfText.SdfFile.toRaw

/-- `sdf.parse(text)` (repaired `start`: every block kept) -/
def fileOfText (text : String) : Option DelayFile := (rawOfText text).map (parse .merge)

/-- `(sdf.parse(text).iopaths(c, tlib) + sdf.parse(text).interconnects(c, tlib))[d]` -/
def textDelay (pinLine : PinTable) (icLine : IcTable) (text : String) (d : Nat) : Option (Nat → Bool → Bool → Int) :=
  (fileOfText text).map fun df => sdfDelay pinLine icLine df d

end KV.SdfWave
