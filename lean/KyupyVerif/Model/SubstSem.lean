import KyupyVerif.Model.Substitute
/-! Specification-level vocabulary for the semantic statement about `Circuit.substitute` (C10, `substitute_sem`):
which lines of the implementation are copied, which are absent because an instance input pin is unconnected, the value
an implementation port carries in a labelling of the host, and the decidable side conditions on the implementation. -/
namespace KV.Transform
open KV

/-- line `i` of the implementation is copied into the host: `l.reader in node_map and l.driver in node_map` -/
def copiedB (m : NNet) (map : Array (Option Nat)) (i : Nat) : Bool :=
  (map.getD (m.net.line i).driver none).isSome && (map.getD (m.net.line i).reader none).isSome

/-- the copied lines of the implementation in index order; the `t`-th of them is line `L + t` of the host afterwards
    (`L` = number of lines of the host before) -/
def copiedLines (m : NNet) (map : Array (Option Nat)) : List Nat :=
  (List.range m.net.lines.size).filter (copiedB m map)

/-- the line `Line(self, (node_map[l.driver], l.driver_pin), (node_map[l.reader], l.reader_pin))` -/
def mkLine (m : NNet) (map : Array (Option Nat)) (i : Nat) : LineD :=
  ⟨(map.getD (m.net.line i).driver none).getD 0, (m.net.line i).dpin, (map.getD (m.net.line i).reader none).getD 0, (m.net.line i).rpin⟩

/-- host index of the copy of implementation line `i` -/
def newOf (h m : NNet) (map : Array (Option Nat)) (i : Nat) : Nat := h.net.lines.size + (copiedLines m map).idxOf i

/-- the host line at input pin `k` of the instance (`none` = unconnected or no such pin) -/
def instIn (h : NNet) (c k : Nat) : Option Nat := (h.net.node c).ins.getD k none
/-- the host line at output pin `k` of the instance -/
def instOut (h : NNet) (c k : Nat) : Option Nat := (h.net.node c).outs.getD k none

/-- line `l` of the implementation is **absent** in the instance: it is the only line of an input port whose instance
    pin is unconnected (the real code then leaves the reader pin of that line unconnected in the copy: "kyupy's own
    reading of a missing pin", finding `unconnected-pin-arity`) -/
def deadLine (h : NNet) (c : Nat) (m : NNet) (sh : Shape) (l : Nat) : Bool :=
  let d := (m.net.line l).driver
  m.net.io.contains d && (m.net.node d).ins.length == 0 && (m.net.node d).outs.length == 1 &&
    (instIn h c (sh.inPorts.idxOf d)).isNone

/-- the netlist with the pin entries of the lines selected by `dead` cleared (the lines themselves stay, so that all
    indices are kept; nobody reads them any more) -/
def cutIns (nn : NNet) (dead : Nat → Bool) : NNet :=
  { nn with net := { nn.net with nodes := nn.net.nodes.map fun n =>
      { n with ins := n.ins.map fun o => o.bind fun l => if dead l then none else some l } } }

/-- the value port `p` of the implementation carries when the host lines are labelled `v`: the value of the host line at
    the instance pin of an input port; `z` for an unconnected pin and for output ports -/
def portVal {α} (h : NNet) (c : Nat) (sh : Shape) (z : α) (v : Nat → α) (p : Nat) : α :=
  match instIn h c (sh.inPorts.idxOf p) with
  | some ll => v ll
  | none => z

/-- side conditions on the implementation for `substitute_sem`: there is a designated cell, the ports are distinct, no port
    is a flip-flop/latch, and a port that is driven and read inside the implementation is a fork (as `bench.parse` /
    `TechLib` build it; `substitute` replaces it by a fork).  The earlier clause "the designated cell is not a port" is
    gone: since the repair of D32 the walk that ends at a port yields no designated cell, so under the remaining clauses the
    designated cell is never a port (`implShape_des_notPort`) -/
def implOKB (m : NNet) : Bool :=
  match implShape m with
  | none => false
  | some sh =>
    sh.des.isSome &&
    decide m.net.io.Nodup &&
    m.net.io.all fun p => !(isSeqKind (m.net.node p).kind) &&
      (!(decide ((m.net.node p).ins.length > 0) && decide ((m.net.node p).outs.length > 0)) || (m.net.node p).isFork)

/-! ### the behaviour before the repair of D32 (only for the witness `C10.substitute_designated_port_not_wf`) -/
/-- `implShape` as it was: the node at which the walk from the first output ends is the designated cell even when it is a
    port of the implementation (`designated_cell = n`) -/
def implShapeOld (m : NNet) : Option Shape :=
  let inPorts := m.net.io.filter fun p => (m.net.node p).ins.length == 0
  let outPorts := m.net.io.filter fun p => (m.net.node p).ins.length != 0
  let outL := outPorts.map fun p => (m.net.node p).inPin 0
  if outL.any (·.isNone) then none else
  let outLines := outL.filterMap id
  let d0 : Option (Option Nat) := match outLines.head? with
    | none => some none
    | some l0 => (walkDesignated m (m.net.nodes.size + 1) (m.net.line l0).driver).map some
  match d0 with
  | none => none
  | some d0 =>
    let seq := (List.range m.net.nodes.size).find? fun j => isSeqKind (m.net.node j).kind
    some { inPorts := inPorts, outPorts := outPorts, outLines := outLines, des := if seq.isSome then seq else d0 }

/-- `substitute` with `implShapeOld` in place of `implShape` (everything else as in Model/Substitute.lean) -/
def substituteOld (h : NNet) (c : Nat) (m : NNet) : Option NNet :=
  match implShapeOld m with
  | none => none
  | some sh =>
    let node := h.net.node c
    if node.ins.length > sh.inPorts.length || node.outs.length > sh.outLines.length then none else
    match (List.range m.net.nodes.size).foldlM (addImplNode m (h.names.getD c "") sh.des) (phase1 h c m sh.des) with
    | none => none
    | some (h2, map) =>
      match connectIns m map (sh.inPorts.zip (padTo node.ins sh.inPorts.length)) (phase3 m map h2, id) with
      | none => none
      | some (net4, ren) =>
        match connectOuts m map (sh.outLines.zip ((padTo node.outs sh.outLines.length).map ren)) (net4, []) with
        | none => none
        | some (net5, dang) =>
          removeDangling (dang.length + net5.lines.size + 1) { h2 with net := densify net5 map } (map.toList.filterMap id) dang

end KV.Transform

namespace KV.Transform
/-- the implementation has a designated cell and every connected input pin of the instance belongs to an input port
    that has a reader (outputs may be unconnected, dangling logic may be removed afterwards) -/
def noIgnoredB (h : NNet) (c : Nat) (m : NNet) : Bool :=
  match implShape m with
  | none => false
  | some sh =>
    sh.des.isSome &&
    ((sh.inPorts.zip (padTo (h.net.node c).ins sh.inPorts.length)).all fun p =>
      !p.2.isSome || !((m.net.node p.1).outs.length == 0))

/-- `NNet.wf` without the clause "no trailing `None` in a pin list" (`Line.remove()` leaves one in the pin list of a cell) -/
def NNet.wfNoTrail (nn : NNet) : Bool :=
  nn.names.size == nn.net.nodes.size && decide nn.keys.Nodup && nn.net.io.all (fun i => decide (i < nn.net.nodes.size)) &&
  nn.pinsBack && nn.pinsFwd

/-- `remove_dangling_nodes(root, own)` returns at once: `root` has a connected output, is a port, is a state element or
    does not belong to the substituted cell -/
def keptRoot (nn : NNet) (own : List Nat) (root : Nat) : Bool :=
  (nn.net.node root).outs.any (·.isSome) || nn.net.io.contains root || isSeqKind (nn.net.node root).kind || !(own.contains root)

/-- use of `substitute` in which **nothing is removed** (includes regular use, `regularB`): the implementation has a
    designated cell, every connected input pin of the instance belongs to an input port that has a reader, and every
    unconnected output of the instance is driven by a node that stays (it has another connected output, is a state
    element, …: `keptRoot`, evaluated on the circuit `substituteCore` builds).  Input pins may be unconnected. -/
def keepsAllB (h : NNet) (c : Nat) (m : NNet) : Bool :=
  match implShape m, substituteCore h c m with
  | some sh, some (h5, map, dang) =>
    sh.des.isSome &&
    ((sh.inPorts.zip (padTo (h.net.node c).ins sh.inPorts.length)).all fun p =>
      !p.2.isSome || !((m.net.node p.1).outs.length == 0)) &&
    dang.all fun o => match o with
      | none => true
      | some root => keptRoot h5 (map.toList.filterMap id) root
  | _, _ => false

/-- every substitution that `resolve_tlib_cells` performs along the key list is a use in which nothing is removed (`keepsAllB`, e.g. regular use) of a
    well-formed implementation satisfying `implOKB`, the substituted node being neither a port nor a fork, and none of
    them raises (decidable: computed along the loop of `resolveCells`) -/
def resolveOKB (lib : Lib) : List (String × Bool) → NNet → Bool
  | [], _ => true
  | key :: rest, cur =>
    let i := cur.lookup key
    if i < cur.net.nodes.size then
      match lib.find (cur.net.node i).kind with
      | some impl =>
        impl.wf && implOKB impl && keepsAllB cur i impl && !(cur.net.io.contains i) && !((cur.net.node i).isFork) &&
          (match substitute cur i impl with
           | some nxt => resolveOKB lib rest nxt
           | none => false)
      | none => resolveOKB lib rest cur
    else resolveOKB lib rest cur

/-! ### vocabulary of the general statement `substitute_sem_general` (ignored input pins, no designated cell) -/
/-- the implementation ignores input port `inn` (the port has no reader): `substitute` removes the host line at its
    instance pin (`ll.reader = None; ll.remove()`) -/
def ignoredPort (m : NNet) (inn : Nat) : Bool := (m.net.node inn).outs.length == 0

/-- side conditions on the implementation for `substitute_sem_general`: `implOKB` without the clause "there is a designated
    cell" — the ports are distinct, no port is a flip-flop/latch, a port that is driven and read inside is a fork -/
def implGenOKB (m : NNet) : Bool :=
  match implShape m with
  | none => false
  | some _ =>
    decide m.net.io.Nodup &&
    m.net.io.all fun p => !(isSeqKind (m.net.node p).kind) &&
      (!(decide ((m.net.node p).ins.length > 0) && decide ((m.net.node p).outs.length > 0)) || (m.net.node p).isFork)

/-- no connected instance pin that the implementation ignores is driven by the instance itself (the real code would then
    call `Line.remove()` on a line it still holds in `node_out_lines` and re-connect the removed object) -/
def noSelfIgnB (h : NNet) (c : Nat) (m : NNet) : Bool :=
  match implShape m with
  | none => true
  | some sh =>
    (sh.inPorts.zip (padTo (h.net.node c).ins sh.inPorts.length)).all fun p =>
      match p.2 with
      | some ll => !(ignoredPort m p.1) || (h.net.line ll).driver != c
      | none => true

/-- some connected instance pin is ignored by the implementation -/
def hasIgnoredB (h : NNet) (c : Nat) (m : NNet) : Bool :=
  match implShape m with
  | none => false
  | some sh =>
    (sh.inPorts.zip (padTo (h.net.node c).ins sh.inPorts.length)).any fun p => p.2.isSome && ignoredPort m p.1

/-- every substitution that `resolve_tlib_cells` performs along the key list satisfies the hypotheses of `substitute_sem_general`: the
    implementation is well-formed and satisfies `implGenOKB` (with or without designated cell), no ignored connected pin is
    driven by the cell itself, the substituted node is neither a port nor a fork, and none of them raises (decidable: computed
    along the loop of `resolveCells`); substitutions may remove lines, the instance and dangling logic -/
def resolveGenOKB (lib : Lib) : List (String × Bool) → NNet → Bool
  | [], _ => true
  | key :: rest, cur =>
    let i := cur.lookup key
    if i < cur.net.nodes.size then
      match lib.find (cur.net.node i).kind with
      | some impl =>
        impl.wf && implGenOKB impl && noSelfIgnB cur i impl && !(cur.net.io.contains i) && !((cur.net.node i).isFork) &&
          (match substitute cur i impl with
           | some nxt => resolveGenOKB lib rest nxt
           | none => false)
      | none => resolveGenOKB lib rest cur
    else resolveGenOKB lib rest cur


/-! ### decidable hypotheses of the PROGRESS theorems `substitute_isSome` (audit finding 6): under them `substitute` returns a circuit -/
/-- the output list of every fork is gap-free (`Line.remove()` deletes the entry of a fork instead of clearing it; on a fork with a
    `None` entry `Line.remove()` raises: `None.driver_pin`) -/
def forksDenseB (net : Net) : Bool :=
  (List.range net.nodes.size).all fun j => !(net.node j).isFork || (net.node j).outs.all (·.isSome)

/-- dictionary key of a (kind, name) pair -/
def keyOfKN (kn : String × String) : String × Bool := (kn.2, kn.1 == "__fork__")

/-- the keys of the nodes `substitute` adds -/
def addedKeys (m : NNet) (hn : String) (des : Option Nat) : List (String × Bool) := (addedKN m hn des).map keyOfKN

/-- **no name clash**: the nodes `substitute` adds (`<instance>~<internal name>`, forks for ports) have pairwise different keys and
    none of them is the key of a node of the host (after the instance took the designated cell's kind, or was removed);
    otherwise `Node(...)` raises -/
def addFreshB (h : NNet) (c : Nat) (m : NNet) : Bool :=
  match implShape m with
  | none => false
  | some sh =>
    let ks := addedKeys m (h.names.getD c "") sh.des
    decide ks.Nodup && ks.all fun k => !((phase1 h c m sh.des).1.keys.contains k)

/-- which nodes of the implementation are in `node_map` (static) -/
def mappedB (m : NNet) (des : Option Nat) (j : Nat) : Bool :=
  decide (j < m.net.nodes.size) && (des == some j || (addedOne m "" des j).isSome)

/-- **no `KeyError`** (static, about the implementation alone): the node that an input port's only line leads to, the fork of a
    multi-reader input port, the fork of an output port that is read inside and the driver of every other output line are in
    `node_map` -/
def targetsOKB (m : NNet) : Bool :=
  match implShape m with
  | none => false
  | some sh =>
    (sh.inPorts.all fun inn =>
      (m.net.node inn).outs.length == 0 ||
      (if (m.net.node inn).outs.length == 1 then
        match (m.net.node inn).outs.head? with
        | some (some l) => mappedB m sh.des (m.net.line l).reader
        | _ => false
       else mappedB m sh.des inn)) &&
    (sh.outLines.all fun l =>
      if (m.net.node (m.net.line l).reader).outs.length > 0 then mappedB m sh.des (m.net.line l).reader
      else mappedB m sh.des (m.net.line l).driver)

/-- the two `assert`s of `substitute`: the instance has no more pins than the implementation has ports -/
def arityOKB (h : NNet) (c : Nat) (m : NNet) : Bool :=
  match implShape m with
  | none => false
  | some sh => decide ((h.net.node c).ins.length ≤ sh.inPorts.length) && decide ((h.net.node c).outs.length ≤ sh.outLines.length)

/-- what is asked of an implementation circuit alone (checked for every implementation of the five built-in libraries by
    `C10.library_impls_ok`): well-formed, `implGenOKB`, `targetsOKB`, gap-free forks, the added nodes have different keys -/
def implSomeOKB (m : NNet) : Bool :=
  m.wf && implGenOKB m && targetsOKB m && forksDenseB m.net &&
  (match implShape m with | some sh => decide (addedKeys m "" sh.des).Nodup | none => false)

/-- all hypotheses of `substitute_isSome` -/
def substSomeHypB (h : NNet) (c : Nat) (m : NNet) : Bool :=
  h.wfNoTrail && forksDenseB h.net && m.wf && decide (c < h.net.nodes.size) && !(h.net.io.contains c) && !((h.net.node c).isFork) &&
  implGenOKB m && targetsOKB m && noSelfIgnB h c m && addFreshB h c m && arityOKB h c m

end KV.Transform
