
namespace KV.Wave

/-! probe: faithful model of wave_sim._wave_eval and the parity invariant -/
inductive T where
  | tmin | fin (t : Int) | tmax | tovl
deriving DecidableEq, Repr

namespace T
def rank : T → Int × Int
  | tmin => (0, 0) | fin t => (1, t) | tmax => (2, 0) | tovl => (3, 0)
def lt (a b : T) : Bool :=
  let (x, y) := a.rank; let (u, v) := b.rank
  x < u || (x == u && y < v)
def add (a : T) (d : Int) : T := match a with | fin t => fin (t + d) | s => s
def min (a b : T) : T := if lt b a then b else a
def max (a b : T) : T := if lt a b then b else a
/-- `current - previous > thresh` with sentinel arithmetic of float32 for finite thresh ≥ 0 -/
def widerThan (cur prev : T) (th : Int) : Bool :=
  match cur, prev with
  | fin a, fin b => a - b > th
  | fin _, tmin => true
  | tmin, tmin => (0 : Int) > th
  | _, _ => false
end T

abbrev Delays := Nat → Bool → Bool → Int   -- input slot 0..3, in-pol (cursor parity), out-pol

structure Wf where
  ents : List T     -- entries strictly before the terminator
  term : T          -- tmax or tovl

structure St where
  r : Fin 4 → List T      -- remaining entries per input
  k : Fin 4 → Nat         -- cursor
  inp : Fin 4 → Bool
  z : List T              -- stack, head = newest
  prev : T
  zval : Bool
  ovf : Nat

def headT (l : List T) (term : T) : T := match l with | [] => term | x :: _ => x

def pend (D : Delays) (terms : Fin 4 → T) (s : St) (i : Fin 4) : T :=
  (headT (s.r i) (terms i)).add (D i ((s.k i) % 2 == 1) s.zval)

def cur (D : Delays) (terms : Fin 4 → T) (s : St) : T :=
  T.min (T.min (pend D terms s 0) (pend D terms s 1)) (T.min (pend D terms s 2) (pend D terms s 3))

def pick (D : Delays) (terms : Fin 4 → T) (s : St) : Fin 4 :=
  let c := cur D terms s
  if pend D terms s 0 = c then 0 else if pend D terms s 1 = c then 1 else if pend D terms s 2 = c then 2 else 3

def idx (v : Fin 4 → Bool) : Nat := (if v 0 then 1 else 0) + (if v 1 then 2 else 0) + (if v 2 then 4 else 0) + (if v 3 then 8 else 0)
def lutBit (lut : Nat) (v : Fin 4 → Bool) : Bool := (lut >>> idx v) % 2 == 1

def upd {α} (f : Fin 4 → α) (i : Fin 4) (v : α) : Fin 4 → α := fun j => if j = i then v else f j

def step (lut : Nat) (D : Delays) (terms : Fin 4 → T) (zcap : Nat) (s : St) : St :=
  let c := cur D terms s
  let i := pick D terms s
  let k' := s.k i + 1
  let r' := (s.r i).tail
  let inputs' := upd s.inp i (!s.inp i)
  let thresh := D i (k' % 2 == 1) s.zval
  let nextT := (headT r' (terms i)).add (D i (!(k' % 2 == 1)) (!s.zval))
  let s1 := { s with r := upd s.r i r', k := upd s.k i k', inp := inputs' }
  if (s.z.length % 2 == 1) != lutBit lut inputs' then
    if s.z.length == 0 || T.lt nextT c || T.widerThan c s.prev thresh then
      if s.z.length < zcap - 1 then
        { s1 with z := c :: s.z, prev := c, zval := !s.zval }
      else
        { s1 with z := s.z.tail, prev := headT s.z .tmin, ovf := s.ovf + 1, zval := !s.zval }
    else
      { s1 with z := s.z.tail, prev := headT s.z.tail .tmin, zval := !s.zval }
  else s1

def remaining (s : St) : Nat := (s.r 0).length + (s.r 1).length + (s.r 2).length + (s.r 3).length

def run (lut : Nat) (D : Delays) (terms : Fin 4 → T) (zcap : Nat) : Nat → St → St
  | 0, s => s
  | fuel+1, s => if T.lt (cur D terms s) .tmax then run lut D terms zcap fuel (step lut D terms zcap s) else s


def init (lut : Nat) (ws : Fin 4 → List T) : St :=
  let z1 := lut % 2 == 1
  { r := ws, k := fun _ => 0, inp := fun _ => false, z := if z1 then [T.tmin] else [], prev := .tmin, zval := z1, ovf := 0 }

def totalLen (ws : Fin 4 → List T) : Nat := (ws 0).length + (ws 1).length + (ws 2).length + (ws 3).length

def startsHigh : List T → Nat
  | T.tmin :: _ => 1
  | _ => 0

/-- returns (entries oldest first, terminator, nrise, nfall) -/
def waveEval (lut : Nat) (D : Delays) (ws : Fin 4 → List T) (terms : Fin 4 → T) (zcap : Nat) : List T × T × Nat × Nat :=
  let s := run lut D terms zcap (totalLen ws) (init lut ws)
  let term := if s.ovf > 0 then T.tovl else
    T.max (T.max (pend D terms s 0) (pend D terms s 1)) (T.max (pend D terms s 2) (pend D terms s 3))
  let ents := s.z.reverse
  let zc := ents.length
  (ents, term, (zc + 1) / 2 - startsHigh ents, zc / 2)

end KV.Wave
