import KyupyVerif.Model.Net
/-! Executable model of the structure-preserving transformations of `kyupy.circuit.Circuit` on the level of
the canonical netlist dump (`Net` of Model/Net.lean + the node names as a parallel array):

* `copyNet`      — `Circuit.copy`               (circuit.py:450-466): nodes in order, lines with explicit pins, nodes
                                                  looked up **by name** in `forks` / `cells`, io list by name
* `pickleNet`    — `__setstate__(__getstate__)` (circuit.py:468-489): the same rebuild **by index**
* `elimOne` / `elimForksIn` / `elimForks` — `eliminate_1to1_forks` (circuit.py:347-371) with the swap-with-last
  deletion of `IndexList.__delitem__` (circuit.py:29-36) for nodes and lines.
* `elimForksStableIn` — the same followed by `_restore_node_order` (the repaired code; the harness probes which of
  the two behaviours the code under test shows, like the start mode of C14).

On the dump level a Python object reference is the index it prints as; `IndexList.__delitem__` rewriting
`replacement.index` therefore shows as a global renaming of that index in every place that refers to the object. -/
namespace KV.Transform
open KV

structure NNet where
  net : Net
  names : Array String
deriving Repr, Inhabited

/-- `GrowingList.__setitem__` (circuit.py:20-23) -/
def growSet (l : List (Option Nat)) (i : Nat) (v : Option Nat) : List (Option Nat) :=
  if i < l.length then l.set i v else l ++ List.replicate (i - l.length) none ++ [v]

/-- the dictionary key of node `i`: its name and its class (`forks` or `cells`) -/
def NNet.key (nn : NNet) (i : Nat) : String × Bool := (nn.names.getD i "", (nn.net.node i).isFork)
def NNet.keys (nn : NNet) : List (String × Bool) := (List.range nn.net.nodes.size).map nn.key
/-- `c.forks[name]` / `c.cells[name]`: position of the node registered under that key
    (`nodes.size` when absent — the real code raises `KeyError`) -/
def NNet.lookup (nn : NNet) (k : String × Bool) : Nat := nn.keys.idxOf k

/-- `Line(c, (d, dp), (r, rp))` (circuit.py:138-171): append the line, then `d.outs[dp] = line`, `r.ins[rp] = line` -/
def addLine (st : Array NodeD × Array LineD) (d dp r rp : Nat) : Array NodeD × Array LineD :=
  let l := st.2.size
  let ns := st.1.modify d fun n => { n with outs := growSet n.outs dp (some l) }
  let ns := ns.modify r fun n => { n with ins := growSet n.ins rp (some l) }
  (ns, st.2.push ⟨d, dp, r, rp⟩)

/-- `Node(c, name, kind)` for every node: same kinds (and names), empty pin lists -/
def blank (nodes : Array NodeD) : Array NodeD := nodes.map fun n => { n with ins := [], outs := [] }

/-- common shape of `copy` and `__setstate__`: `ix` says how a node of the source is found in the new circuit -/
def rebuild (nn : NNet) (ix : Nat → Nat) : NNet :=
  let st := nn.net.lines.toList.foldl
    (fun st ln => addLine st (ix ln.driver) ln.dpin (ix ln.reader) ln.rpin) (blank nn.net.nodes, #[])
  { net := { nodes := st.1, lines := st.2, io := nn.net.io.map ix }, names := nn.names }

def copyNet (nn : NNet) : NNet := rebuild nn fun i => nn.lookup (nn.key i)
def pickleNet (nn : NNet) : NNet := rebuild nn id

/-! ### well-formedness of a dump (decidable) -/
def noTrail (l : List (Option Nat)) : Bool := l.getLast? != some none

/-- every line is referenced from the pin entries it records -/
def NNet.pinsBack (nn : NNet) : Bool :=
  (List.range nn.net.lines.size).all fun l =>
    let ln := nn.net.line l
    decide (ln.driver < nn.net.nodes.size) && decide (ln.reader < nn.net.nodes.size) &&
    (nn.net.node ln.driver).outPin ln.dpin == some l && (nn.net.node ln.reader).inPin ln.rpin == some l

/-- every pin entry is a line of the circuit that records exactly this node and pin -/
def NNet.pinsFwd (nn : NNet) : Bool :=
  (List.range nn.net.nodes.size).all fun i =>
    let n := nn.net.node i
    ((List.range n.ins.length).all fun p => match n.inPin p with
      | some l => decide (l < nn.net.lines.size) && (nn.net.line l).reader == i && (nn.net.line l).rpin == p
      | none => true) &&
    ((List.range n.outs.length).all fun p => match n.outPin p with
      | some l => decide (l < nn.net.lines.size) && (nn.net.line l).driver == i && (nn.net.line l).dpin == p
      | none => true)

def NNet.wf (nn : NNet) : Bool :=
  nn.names.size == nn.net.nodes.size && decide nn.keys.Nodup && nn.net.io.all (fun i => decide (i < nn.net.nodes.size)) &&
  nn.pinsBack && nn.pinsFwd &&
  (List.range nn.net.nodes.size).all fun i => noTrail (nn.net.node i).ins && noTrail (nn.net.node i).outs

/-! ### `eliminate_1to1_forks` -/
/-- `del c.lines[b]`: the last line moves into the hole and every reference to it shows the new index -/
def delLine (net : Net) (b : Nat) : Net :=
  let last := net.lines.size - 1
  let mv : Option Nat → Option Nat := fun o => if o == some last then some b else o
  { net with
    lines := (net.lines.setIfInBounds b (net.line last)).pop
    nodes := net.nodes.map fun n => { n with ins := n.ins.map mv, outs := n.outs.map mv } }

/-- `del c.nodes[i]` (`Node.remove`): the last node moves into the hole -/
def delNode (nn : NNet) (i : Nat) : NNet :=
  let last := nn.net.nodes.size - 1
  let mv : Nat → Nat := fun j => if j == last then i else j
  { net := { nodes := (nn.net.nodes.setIfInBounds i (nn.net.node last)).pop
             lines := nn.net.lines.map fun ln => { ln with driver := mv ln.driver, reader := mv ln.reader }
             io := nn.net.io.map mv }
    names := (nn.names.setIfInBounds i (nn.names.getD last "")).pop }

/-- one iteration of the loop body for the fork at index `i`; `none` = the real code raises
    (`n.ins[0]` on an empty list, or `None.reader`). `skip` = the repaired code (patch 06), which passes over a fork
    without driver (`if len(n.ins) == 0 or n.ins[0] is None: continue`) instead of raising -/
def elimOne (skip : Bool) (nn : NNet) (i : Nat) : Option NNet :=
  let n := nn.net.node i
  if nn.net.io.contains i then some nn                 -- `if n in ios: continue`
  else if n.outs.length != 1 then some nn              -- `if len(n.outs) != 1: continue`
  else match n.ins.head?, n.outs.head? with
    | some (some a), some (some b) =>
      if a == b then none else
      let R := (nn.net.line b).reader
      let P := (nn.net.line b).rpin
      -- out_line.remove(): driver pin cleared (+ squeeze: the fork's outs become empty), reader pin cleared, line deleted
      let nodes := nn.net.nodes.modify i fun n => { n with outs := [] }
      let nodes := nodes.modify R fun n => { n with ins := growSet n.ins P none }
      let net := delLine { nn.net with nodes := nodes } b
      let a' := if a == nn.net.lines.size - 1 then b else a
      -- in_line.reader = out_reader; in_line.reader_pin = out_reader_pin; in_line.reader.ins[in_line.reader_pin] = in_line
      let lines := net.lines.modify a' fun ln => { ln with reader := R, rpin := P }
      let nodes := net.nodes.modify R fun n => { n with ins := growSet n.ins P (some a') }
      -- n.remove()
      some (delNode { nn with net := { net with nodes := nodes, lines := lines } } i)
    | some (some _), _ => none
    | _, _ => if skip then some nn else none

/-- the loop over `list(self.forks.values())`: `order` = the fork names in dictionary order; each fork object is
    found again by its name (indices move while the loop runs) -/
def elimForksIn (skip : Bool) (order : List String) (nn : NNet) : Option NNet :=
  order.foldlM (fun s name => let i := s.lookup (name, true)
                              if i < s.net.nodes.size then elimOne skip s i else some s) nn

/-- fork names in index order (= dictionary order of a freshly built / copied / unpickled circuit) -/
def NNet.forkNames (nn : NNet) : List String :=
  (List.range nn.net.nodes.size).filter (fun i => (nn.net.node i).isFork) |>.map fun i => nn.names.getD i ""

/-- the current tree -/
def elimForks (nn : NNet) : Option NNet := elimForksIn false nn.forkNames nn

/-! ### repaired code (`Circuit._restore_node_order`, patch 03): after the loop the surviving nodes are put back into
their original relative order (nodes added since then follow) and re-numbered -/
/-- `K` = keys of the nodes before the operation, in index order -/
def restoreOrder (K : List (String × Bool)) (r : NNet) : NNet :=
  let surv := K.filterMap fun k => let j := r.lookup k; if j < r.net.nodes.size then some j else none
  let rest := (List.range r.net.nodes.size).filter fun j => !(K.contains (r.key j))
  let perm := surv ++ rest                       -- new position ↦ old index
  let inv : Nat → Nat := fun j => perm.idxOf j   -- old index ↦ new position
  { net := { nodes := (perm.map r.net.node).toArray
             lines := r.net.lines.map fun ln => { ln with driver := inv ln.driver, reader := inv ln.reader }
             io := r.net.io.map inv }
    names := (perm.map fun j => r.names.getD j "").toArray }

def elimForksStableIn (skip : Bool) (order : List String) (nn : NNet) : Option NNet :=
  (elimForksIn skip order nn).map fun r => if r.net.nodes.size != nn.net.nodes.size then restoreOrder nn.keys r else r

/-- the repaired tree (patches 03 + 06) -/
def elimForksStable (nn : NNet) : Option NNet := elimForksStableIn true nn.forkNames nn

/-! ### `eliminate_1to1_forks` with the renaming of lines and nodes it performs
`IndexList.__delitem__` renumbers: the last line / node object gets the index of the deleted one.  `Ren` records, for a
result, which index every surviving object had before: `line l'` = index before of the line that now has index `l'`
(meaningful for `l'` below the new number of lines), `node j'` likewise. -/
structure Ren where
  line : Nat → Nat
  node : Nat → Nat

def Ren.id : Ren := ⟨fun l => l, fun j => j⟩
/-- `first` is performed before `second` -/
def Ren.comp (first second : Ren) : Ren := ⟨fun l => first.line (second.line l), fun j => first.node (second.node j)⟩
/-- deleting line `b` and node `i` of `nn` with swap-with-last -/
def stepRen (nn : NNet) (i b : Nat) : Ren :=
  ⟨fun l => if l = b then nn.net.lines.size - 1 else l, fun j => if j = i then nn.net.nodes.size - 1 else j⟩

/-- `elimOne` together with the index maps of the step (same case analysis) -/
def elimOneM (skip : Bool) (nn : NNet) (i : Nat) : Option (NNet × Ren) :=
  let n := nn.net.node i
  if nn.net.io.contains i then some (nn, Ren.id)
  else if n.outs.length != 1 then some (nn, Ren.id)
  else match n.ins.head?, n.outs.head? with
    | some (some a), some (some b) => if a == b then none else (elimOne skip nn i).map fun r => (r, stepRen nn i b)
    | some (some _), _ => none
    | _, _ => if skip then some (nn, Ren.id) else none

def elimForksInM (skip : Bool) (order : List String) (nn : NNet) : Option (NNet × Ren) :=
  order.foldlM (fun (s : NNet × Ren) name =>
    let i := s.1.lookup (name, true)
    if i < s.1.net.nodes.size then (elimOneM skip s.1 i).map fun p => (p.1, s.2.comp p.2) else some s) (nn, Ren.id)

/-- a labelling of the lines of the result: every surviving line keeps its value -/
def relabel {α} (r : Ren) (nn' : NNet) (v : Array α) (z : α) : Array α :=
  (Array.range nn'.net.lines.size).map fun l => v.getD (r.line l) z
/-- the assignment (indexed by `s_nodes` position) seen from the result: position `p'` of the result holds the node
    that stood at position `idxOf …` before -/
def sigma (r : Ren) (nn nn' : NNet) (p' : Nat) : Nat := nn.net.sNodes.idxOf (r.node (nn'.net.sNodes.getD p' 0))
def reassign {α} (r : Ren) (nn nn' : NNet) (asg : Nat → α) : Nat → α := fun p' => asg (sigma r nn nn' p')

/-- every fork has at most one input pin (forks are 1:n; `Line` never connects a second input to a fork) -/
def NNet.forkIns1 (nn : NNet) : Bool :=
  (List.range nn.net.nodes.size).all fun i => !(nn.net.node i).isFork || decide ((nn.net.node i).ins.length ≤ 1)

/-- what a node reads at pin `k` under a labelling (`none` = unconnected) -/
def pinRead {α} (net : Net) (v : Array α) (z : α) (n k : Nat) : Option α := ((net.node n).inPin k).map fun l => v.getD l z
/-- the captured values in `s_nodes` order (what `evalCapturesG` returns for the evaluator's labelling) -/
def capturesOf {α} (net : Net) (v : Array α) (z : α) : List (Option α) := net.sNodes.map fun n => pinRead net v z n 0

/-! ### observables -/
def NNet.ioNames (nn : NNet) : List String := nn.net.io.map fun i => nn.names.getD i ""
/-- `[n.name for n in c.s_nodes]` -/
def NNet.sNames (nn : NNet) : List String := nn.net.sNodes.map fun i => nn.names.getD i ""
/-- (kind, name) of every node in index order -/
def NNet.kindNames (nn : NNet) : List (String × String) :=
  (List.range nn.net.nodes.size).map fun i => ((nn.net.node i).kind, nn.names.getD i "")
def NNet.dffNames (nn : NNet) : List String :=
  (nn.kindNames.filter fun kn => hasSub "dff" kn.1.toLower).map (·.2)
def NNet.latchNames (nn : NNet) : List String :=
  (nn.kindNames.filter fun kn => hasSub "latch" kn.1.toLower).map (·.2)

end KV.Transform
