import KyupyVerif.Model.VerilogLib
/-! # The pin table of a library instance IS the pin list of its table row (audit-2 finding 8, B-C11-2 / B-C11-3)

`VModelLib` (Model/VerilogLib.lean) reads the pins of a library instance by pin INDEX under the pin table `tl`
(`TechLib.pin_index` / `pin_is_output`), and applies the data-book function `datasheet fam (row ty).inNames (row ty).outNames`,
which is written over the pin NAMES of the table row `row ty` in the row's order.  The two meet only when `tl` numbers the pins
of `ty` as the row lists them:

* `tlFitsRowB tl cr i` — (table part) the `k`-th input name of the row `cr` is input pin `k` of cell type `i.ty` in `tl`, the
  `k`-th output name is output pin `k`; (instance part) every pin the instance `i` connects is one of these names.  (A function
  `tl` cannot be asked for "no other names"; what matters is that no connection of the instance goes through another name.  Pairwise
  different names follow: two positions with one name would get two different indices from one table entry.)
* `tlFitsB isLib row tl stmts` — `tlFitsRowB` for every library instance of the module.
* `VModelLibN` — the datasheet denotation with the library pins read BY NAME from the connection list of the instance (`pinSigN`),
  without `tl`: input `k` of the data-book function is the signal / constant connected to the pin NAMED `(row ty).inNames[k]`
  (`false` when that pin is not connected), the function of the output NAMED `(row ty).outNames[k]` defines the signal connected to it.
  `Proofs/VerilogLibFit.lean: vModelLib_iff_byName` — inside `tlFitsB` the two denotations are the same predicate.
* `vArityLibB isLib tl stmts` — the arity domain (known finding D33) for the instances that stay simulation primitives: every
  instance that is neither a library cell nor a state element has its connected input pins at pin indices 0..3 (`instVal` reads
  these four only, as the real simulator does).  Library instances are exempt: their meaning is the data-book function over ALL pins of
  the row (`AOI222` has six), realised by an implementation circuit of primitives that the certificate `InstCert` covers. -/
namespace KV.Netlist
open KV KV.Transform KV.TL KV.DS

/-- the pin table entry of the instance's cell type lists the pin names of the row in the row's order (inputs and outputs), and
every connection of the instance names a pin of the row -/
def tlFitsRowB (tl : TL) (cr : Cell) (i : VInst) : Bool :=
  ((List.range cr.inNames.length).all fun k => tl i.ty (String.ofList (cr.inNames.getD k [])) == some (k, false)) &&
  ((List.range cr.outNames.length).all fun k => tl i.ty (String.ofList (cr.outNames.getD k [])) == some (k, true)) &&
  (i.pins.all fun ps => (cr.inNames ++ cr.outNames).contains ps.1.toList)

/-- every library instance of the module fits its row -/
def tlFitsB (isLib : String → Bool) (row : String → Cell) (tl : TL) (stmts : List Stmt) : Bool :=
  (vInsts stmts).all fun i => !(isLib i.ty) || tlFitsRowB tl (row i.ty) i

/-- arity domain of the instances that are no library cells (see the header) -/
def vArityLibB (isLib : String → Bool) (tl : TL) (stmts : List Stmt) : Bool :=
  (vInsts stmts).all fun i => isLib i.ty || isSeqKind i.ty || (inConn tl i).all fun c => c.2.1 < 4

/-- the single-bit signal (or constant) connected to the pin NAMED `p` of an instance (first such connection) -/
def pinSigN (i : VInst) (p : String) : Option String :=
  i.pins.findSome? fun ps => if ps.1 == p then (match ps.2 with | .one s => some s | .many _ => none) else none

/-- the values `σ` gives the signals / constants on the input pins of the row, BY NAME (`false` when unconnected) -/
def libInValsN (cr : Cell) (σ : String → Bool) (i : VInst) : List Bool :=
  cr.inNames.map fun p => match pinSigN i (String.ofList p) with
    | some s => sigVal false prim2 σ s
    | none => false

/-- `σ` is THE datasheet model of the module under the assignment `a`, library pins read BY NAME: for every library instance and
every connection `.P(s)` of it whose pin name `P` is the `k`-th output name of the row, the signal `s` drives carries the `k`-th
data-book function of the values on the input pins named by the row -/
def VModelLibN (isLib : String → Bool) (row : String → Cell) (tl : TL) (ports : List String) (stmts : List Stmt) (a : Nat → Bool)
    (σ : String → Bool) : Prop :=
  VModelOff (fun i => isLib i.ty = true) tl ports stmts false (!·) prim2 a σ ∧
  ∀ i ∈ vInsts stmts, isLib i.ty = true → ∃ fs, cellFuns row i.ty = some fs ∧
    ∀ ps ∈ i.pins, ∀ k : Nat, (row i.ty).outNames[k]? = some ps.1.toList → ∀ s, ps.2 = .one s → ∀ f : List Bool → Bool, fs[k]? = some f →
      σ (outSig (sigDecls stmts) s).1 = f (libInValsN (row i.ty) σ i)

end KV.Netlist
