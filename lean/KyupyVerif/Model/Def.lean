/-! # Model of the routing-geometry logic of `kyupy.def_file`

Transcription of `DefWire.wire_points`, `DefWire.vias`, `DefNet.wires`, `DefNet.vias`
(def_file.py lines 14-58) over the data the transformer builds:

* a point is a tuple of `int`/`None` (`None` for `*`), optionally with a third value (`( x y ext )`);
* an entry of `DefWire.points` is a point, or `(viaName, None)` (special net, plain via),
  `(viaName, (nx, ny, dx, dy))` (special net, `DO nx BY ny STEP dx dy`) or `(viaName, orient)` (regular net);
* `defaultdict(list)` is an association list in first-insertion order (`Dict`).

Two readings of the wire listing are modelled side by side:
`wirePointsRaw` / `netWiresAsIs` is what the code computes today (a `*` stays `None`; `int(None)` raises
for regular nets; a net without `+ ROUTED` has no attribute `routed`), `wirePoints` / `netWires` is what property
C20 demands (a `*` inherits the previous point's value; regular nets have no stated width).
Guard for every definition that uses `loc0`: the first point of a wire is explicit (`Wire.startOK`) — DEF requires it,
and without it the real code puts `None` into via tuples / raises `TypeError` on arrays. -/
namespace KV.Def

/-- a point as `DefTransformer.point` returns it: `none` = `*`; `ext` = optional third value, carried unchanged -/
structure RPt where
  x : Option Int
  y : Option Int
  ext : Option Int := none
deriving Repr, DecidableEq, Inhabited

/-- one entry of `DefWire.points[1:]` -/
inductive Item where
  | pt (p : RPt)
  /-- `(name, None)` for a special-net via without `DO`; `(name, 'N' | 'FS' …)` for a regular-net via -/
  | via (name : String) (orient : Option String)
  /-- `(name, (nx, ny, dx, dy))` -/
  | arr (name : String) (nx ny : Nat) (dx dy : Int)
deriving Repr, DecidableEq, Inhabited

abbrev Loc := Int × Int

/-- `(loc[0] if p[0] is None else p[0], loc[1] if p[1] is None else p[1])` -/
def RPt.onto (p : RPt) (loc : Loc) : Loc := (p.x.getD loc.1, p.y.getD loc.2)

/-- `[p for p in points if not isinstance(p[0], str)]` -/
def ptsOf : List Item → List RPt
  | [] => []
  | .pt p :: r => p :: ptsOf r
  | .via _ _ :: r => ptsOf r
  | .arr _ _ _ _ _ :: r => ptsOf r

/-- resolved location of each point of a sequence, starting from `loc` -/
def resolveFrom (loc : Loc) : List RPt → List Loc
  | [] => []
  | p :: ps => p.onto loc :: resolveFrom (p.onto loc) ps

/-- a `DefWire`: `points = start :: rest` (the grammar guarantees a leading point and at least one more entry) -/
structure Wire where
  layer : String
  /-- `int(width)` of a special-net wire; `none` for a regular-net wire (`DefWire.width` stays `None`) -/
  width : Option Nat
  start : RPt
  rest : List Item
deriving Repr, DecidableEq, Inhabited

def Wire.startOK (w : Wire) : Bool := w.start.x.isSome && w.start.y.isSome
def Wire.loc0 (w : Wire) : Loc := w.start.onto (0, 0)

/-- `DefWire.wire_points` exactly as coded: first point plus later points, `[]` when there is no later point -/
def Wire.wirePointsRaw (w : Wire) : List RPt :=
  if (ptsOf w.rest).isEmpty then [] else w.start :: ptsOf w.rest

/-- a resolved point; `ext` carried over -/
structure Pt3 where
  x : Int
  y : Int
  ext : Option Int
deriving Repr, DecidableEq, Inhabited

def attachExt : List Loc → List RPt → List Pt3
  | l :: ls, p :: ps => ⟨l.1, l.2, p.ext⟩ :: attachExt ls ps
  | _, _ => []

/-- the wire's point list with every `*` replaced by the previous point's value on that axis (property C20) -/
def Wire.wirePoints (w : Wire) : List Pt3 :=
  attachExt (resolveFrom (0, 0) w.wirePointsRaw) w.wirePointsRaw

/-! ## `defaultdict(list)` -/
abbrev Dict (α : Type) := List (String × List α)

namespace Dict
variable {α : Type}
/-- value stored under `k` (`[]` when absent) -/
def get : Dict α → String → List α
  | [], _ => []
  | (k', l) :: r, k => if k' = k then l else get r k
/-- `d[k].append(v)` -/
def push : Dict α → String → α → Dict α
  | [], k, v => [(k, [v])]
  | (k', l) :: r, k, v => if k' = k then (k', l ++ [v]) :: r else (k', l) :: push r k v
/-- `d[k].extend(vs)` (creates the key even when `vs` is empty, like Python) -/
def extend : Dict α → String → List α → Dict α
  | [], k, vs => [(k, vs)]
  | (k', l) :: r, k, vs => if k' = k then (k', l ++ vs) :: r else (k', l) :: extend r k vs
def keys (d : Dict α) : List String := d.map (·.1)
end Dict

/-! ## `DefWire.vias` -/
abbrev ViaLoc := Int × Int × String

/-- `[(loc[0] + x*x_sp, loc[1] + y*y_sp, 'N') for x in range(x_cnt) for y in range(y_cnt)]` -/
def arrayAt (loc : Loc) (nx ny : Nat) (dx dy : Int) : List ViaLoc :=
  (List.range nx).flatMap fun (i : Nat) => (List.range ny).map fun (j : Nat) =>
    (loc.1 + (i : Int) * dx, loc.2 + (j : Int) * dy, "N")

/-- `param or 'N'` -/
def orientOf : Option String → String
  | some s => if s = "" then "N" else s
  | none => "N"

/-- one iteration of the loop in `DefWire.vias`; state = (`loc`, `vv`) -/
def viasStep (st : Loc × Dict ViaLoc) : Item → Loc × Dict ViaLoc
  | .pt p => (p.onto st.1, st.2)
  | .via n o => (st.1, st.2.push n (st.1.1, st.1.2, orientOf o))
  | .arr n nx ny dx dy => (st.1, (arrayAt st.1 nx ny dx dy).foldl (fun d v => d.push n v) st.2)

/-- `DefWire.vias` -/
def Wire.viasD (w : Wire) : Dict ViaLoc := (w.rest.foldl viasStep (w.loc0, [])).2

/-- what one entry contributes at location `loc` -/
def emit (loc : Loc) : Item → List (String × ViaLoc)
  | .pt _ => []
  | .via n o => [(n, (loc.1, loc.2, orientOf o))]
  | .arr n nx ny dx dy => (arrayAt loc nx ny dx dy).map fun v => (n, v)

/-- location after walking over the entries `l` from `loc` -/
def endLoc (loc : Loc) : List Item → Loc
  | [] => loc
  | .pt p :: r => endLoc (p.onto loc) r
  | _ :: r => endLoc loc r

/-- all vias of an entry list in the order they are produced (specification view of `DefWire.vias`) -/
def viasFlat (loc : Loc) : List Item → List (String × ViaLoc)
  | [] => []
  | .pt p :: r => viasFlat (p.onto loc) r
  | it :: r => emit loc it ++ viasFlat loc r

def Wire.viasFlat (w : Wire) : List (String × ViaLoc) := KV.Def.viasFlat w.loc0 w.rest

def selectKey {α : Type} (t : String) (l : List (String × α)) : List α := (l.filter (·.1 = t)).map (·.2)

/-! ## `DefNet.wires`, `DefNet.vias` -/

/-- `DefNet.wires` as a loop over `self.routed`, generic in how a wire's point list is read (`pts`) -/
def netWiresD {β : Type} (pts : Wire → List β) (ws : List Wire) : Dict (Option Nat × List β) :=
  ws.foldl (fun d w => if (pts w).isEmpty then d else d.push w.layer (w.width, pts w)) []

/-- result of a property access on the real object: a value, or the kind of exception raised -/
inductive Res (α : Type) where
  | ok (a : α)
  | error (e : String)
deriving Repr, DecidableEq

/-- what C20 demands: resolved points; width as stated (none for regular nets) -/
def netWires (ws : List Wire) : Dict (Option Nat × List Pt3) := netWiresD Wire.wirePoints ws

/-- the code as it is: `error` = the property raises (`'attr'`: no `routed` attribute; `'type'`: `int(None)`) -/
def netWiresAsIs (routed : Option (List Wire)) : Res (Dict (Option Nat × List RPt)) :=
  match routed with
  | none => .error "attr"
  | some ws =>
    if ws.any (fun w => !w.wirePointsRaw.isEmpty && w.width.isNone) then .error "type"
    else .ok (netWiresD Wire.wirePointsRaw ws)

/-- intermediate reading (accepted by the correspondence run so that a partial repair is not reported as a broken model):
unresolved points as today, but a missing width listed as `none` instead of raising -/
def netWiresRaw (ws : List Wire) : Dict (Option Nat × List RPt) := netWiresD Wire.wirePointsRaw ws

/-- `DefNet.vias`: `[vv[vtype].extend(locs) for dw in self.routed for vtype, locs in dw.vias.items()]` -/
def netViasD (ws : List Wire) : Dict ViaLoc :=
  ws.foldl (fun d w => w.viasD.foldl (fun d kv => d.extend kv.1 kv.2) d) []

def netViasAsIs (routed : Option (List Wire)) : Res (Dict ViaLoc) :=
  match routed with
  | none => .error "attr"
  | some ws => .ok (netViasD ws)

end KV.Def
