/-! # Model of the routing-geometry logic of `kyupy.def_file`

Transcription of `DefWire.wire_points`, `DefWire.vias`, `DefNet.wires`, `DefNet.vias`
(def_file.py lines 14-58) over the data the transformer builds:

* a point is a tuple of `int`/`None` (`None` for `*`), optionally with a third value (`( x y ext )`);
* an entry of `DefWire.points` is a point, or `(viaName, None)` (special net, plain via),
  `(viaName, (nx, ny, dx, dy))` (special net, `DO nx BY ny STEP dx dy`) or `(viaName, orient)` (regular net);
* `defaultdict(list)` is an association list in first-insertion order (`Dict`).

Two readings of the wire listing are modelled side by side:
`wirePointsRaw` / `netWiresAsIs` is what the code computes today (a `*` stays `None`; `int(None)` raises
for regular nets; a net without `+ ROUTED` has no attribute `routed`), `wirePoints` / `netWires` is what property
C20 demands (a `*` inherits the previous point's value; regular nets have no stated width).
Guard for every definition that uses `loc0`: the first point of a wire is explicit (`Wire.startOK`) — DEF requires it,
and without it the real code puts `None` into via tuples / raises `TypeError` on arrays: the functions tied to the code are the
PARTIAL ones of the last section (`Wire.wirePoints?`, `Wire.vias?`, `netVias?`, `netWiresR`, `netViasR`), which also carry the raw
width token of a `DefWire` (`DWire`). -/
namespace KV.Def

/-- a point as `DefTransformer.point` returns it: `none` = `*`; `ext` = optional third value, carried unchanged -/
structure RPt where
  x : Option Int
  y : Option Int
  ext : Option Int := none
deriving Repr, DecidableEq, Inhabited

/-- one entry of `DefWire.points[1:]` -/
inductive Item where
  | pt (p : RPt)
  /-- `(name, None)` for a special-net via without `DO`; `(name, 'N' | 'FS' …)` for a regular-net via -/
  | via (name : String) (orient : Option String)
  /-- `(name, (nx, ny, dx, dy))` -/
  | arr (name : String) (nx ny : Nat) (dx dy : Int)
deriving Repr, DecidableEq, Inhabited

abbrev Loc := Int × Int

/-- `(loc[0] if p[0] is None else p[0], loc[1] if p[1] is None else p[1])` -/
def RPt.onto (p : RPt) (loc : Loc) : Loc := (p.x.getD loc.1, p.y.getD loc.2)

/-- `[p for p in points if not isinstance(p[0], str)]` -/
def ptsOf : List Item → List RPt
  | [] => []
  | .pt p :: r => p :: ptsOf r
  | .via _ _ :: r => ptsOf r
  | .arr _ _ _ _ _ :: r => ptsOf r

/-- resolved location of each point of a sequence, starting from `loc` -/
def resolveFrom (loc : Loc) : List RPt → List Loc
  | [] => []
  | p :: ps => p.onto loc :: resolveFrom (p.onto loc) ps

/-- a `DefWire`: `points = start :: rest` (the grammar guarantees a leading point and at least one more entry) -/
structure Wire where
  layer : String
  /-- `int(width)` of a special-net wire; `none` for a regular-net wire (`DefWire.width` stays `None`) -/
  width : Option Nat
  start : RPt
  rest : List Item
deriving Repr, DecidableEq, Inhabited

def Wire.startOK (w : Wire) : Bool := w.start.x.isSome && w.start.y.isSome
def Wire.loc0 (w : Wire) : Loc := w.start.onto (0, 0)

/-- `DefWire.wire_points` exactly as coded: first point plus later points, `[]` when there is no later point -/
def Wire.wirePointsRaw (w : Wire) : List RPt :=
  if (ptsOf w.rest).isEmpty then [] else w.start :: ptsOf w.rest

/-- a resolved point; `ext` carried over -/
structure Pt3 where
  x : Int
  y : Int
  ext : Option Int
deriving Repr, DecidableEq, Inhabited

def attachExt : List Loc → List RPt → List Pt3
  | l :: ls, p :: ps => ⟨l.1, l.2, p.ext⟩ :: attachExt ls ps
  | _, _ => []

/-- the wire's point list with every `*` replaced by the previous point's value on that axis (property C20) -/
def Wire.wirePoints (w : Wire) : List Pt3 :=
  attachExt (resolveFrom (0, 0) w.wirePointsRaw) w.wirePointsRaw

/-! ## `defaultdict(list)` -/
abbrev Dict (α : Type) := List (String × List α)

namespace Dict
variable {α : Type}
/-- value stored under `k` (`[]` when absent) -/
def get : Dict α → String → List α
  | [], _ => []
  | (k', l) :: r, k => if k' = k then l else get r k
/-- `d[k].append(v)` -/
def push : Dict α → String → α → Dict α
  | [], k, v => [(k, [v])]
  | (k', l) :: r, k, v => if k' = k then (k', l ++ [v]) :: r else (k', l) :: push r k v
/-- `d[k].extend(vs)` (creates the key even when `vs` is empty, like Python) -/
def extend : Dict α → String → List α → Dict α
  | [], k, vs => [(k, vs)]
  | (k', l) :: r, k, vs => if k' = k then (k', l ++ vs) :: r else (k', l) :: extend r k vs
def keys (d : Dict α) : List String := d.map (·.1)
end Dict

/-! ## `DefWire.vias` -/
abbrev ViaLoc := Int × Int × String

/-- `[(loc[0] + x*x_sp, loc[1] + y*y_sp, 'N') for x in range(x_cnt) for y in range(y_cnt)]` -/
def arrayAt (loc : Loc) (nx ny : Nat) (dx dy : Int) : List ViaLoc :=
  (List.range nx).flatMap fun (i : Nat) => (List.range ny).map fun (j : Nat) =>
    (loc.1 + (i : Int) * dx, loc.2 + (j : Int) * dy, "N")

/-- `param or 'N'` -/
def orientOf : Option String → String
  | some s => if s = "" then "N" else s
  | none => "N"

/-- one iteration of the loop in `DefWire.vias`; state = (`loc`, `vv`) -/
def viasStep (st : Loc × Dict ViaLoc) : Item → Loc × Dict ViaLoc
  | .pt p => (p.onto st.1, st.2)
  | .via n o => (st.1, st.2.push n (st.1.1, st.1.2, orientOf o))
  | .arr n nx ny dx dy => (st.1, (arrayAt st.1 nx ny dx dy).foldl (fun d v => d.push n v) st.2)

/-- `DefWire.vias` -/
def Wire.viasD (w : Wire) : Dict ViaLoc := (w.rest.foldl viasStep (w.loc0, [])).2

/-- what one entry contributes at location `loc` -/
def emit (loc : Loc) : Item → List (String × ViaLoc)
  | .pt _ => []
  | .via n o => [(n, (loc.1, loc.2, orientOf o))]
  | .arr n nx ny dx dy => (arrayAt loc nx ny dx dy).map fun v => (n, v)

/-- location after walking over the entries `l` from `loc` -/
def endLoc (loc : Loc) : List Item → Loc
  | [] => loc
  | .pt p :: r => endLoc (p.onto loc) r
  | _ :: r => endLoc loc r

/-- all vias of an entry list in the order they are produced (specification view of `DefWire.vias`) -/
def viasFlat (loc : Loc) : List Item → List (String × ViaLoc)
  | [] => []
  | .pt p :: r => viasFlat (p.onto loc) r
  | it :: r => emit loc it ++ viasFlat loc r

def Wire.viasFlat (w : Wire) : List (String × ViaLoc) := KV.Def.viasFlat w.loc0 w.rest

def selectKey {α : Type} (t : String) (l : List (String × α)) : List α := (l.filter (·.1 = t)).map (·.2)

/-! ## `DefNet.wires`, `DefNet.vias` -/

/-- `DefNet.wires` as a loop over `self.routed`, generic in how a wire's point list is read (`pts`) -/
def netWiresD {β : Type} (pts : Wire → List β) (ws : List Wire) : Dict (Option Nat × List β) :=
  ws.foldl (fun d w => if (pts w).isEmpty then d else d.push w.layer (w.width, pts w)) []

/-- result of a property access on the real object: a value, or the kind of exception raised -/
inductive Res (α : Type) where
  | ok (a : α)
  | error (e : String)
deriving Repr, DecidableEq

/-- what C20 demands: resolved points; width as stated (none for regular nets) -/
def netWires (ws : List Wire) : Dict (Option Nat × List Pt3) := netWiresD Wire.wirePoints ws

/-- the code as it is: `error` = the property raises (`'attr'`: no `routed` attribute; `'type'`: `int(None)`) -/
def netWiresAsIs (routed : Option (List Wire)) : Res (Dict (Option Nat × List RPt)) :=
  match routed with
  | none => .error "attr"
  | some ws =>
    if ws.any (fun w => !w.wirePointsRaw.isEmpty && w.width.isNone) then .error "type"
    else .ok (netWiresD Wire.wirePointsRaw ws)

/-- intermediate reading (accepted by the correspondence run so that a partial repair is not reported as a broken model):
unresolved points as today, but a missing width listed as `none` instead of raising -/
def netWiresRaw (ws : List Wire) : Dict (Option Nat × List RPt) := netWiresD Wire.wirePointsRaw ws

/-- `DefNet.vias`: `[vv[vtype].extend(locs) for dw in self.routed for vtype, locs in dw.vias.items()]` -/
def netViasD (ws : List Wire) : Dict ViaLoc :=
  ws.foldl (fun d w => w.viasD.foldl (fun d kv => d.extend kv.1 kv.2) d) []

def netViasAsIs (routed : Option (List Wire)) : Res (Dict ViaLoc) :=
  match routed with
  | none => .error "attr"
  | some ws => .ok (netViasD ws)

/-! ## the records as the transformer leaves them, and the real properties as PARTIAL functions (audit 2, finding 5)

`DefWire.width` is the raw token (`args[1].value` of `spwire`, a lark `NUMBER`: digits or a decimal / exponent form) — the
transformer does not convert it. `int(dw.width)` is evaluated by `DefNet.wires` only, and only for the wires it lists
(`… for dw in self.routed if len(dw.wire_points) > 0`); `DefNet.vias` / `DefWire.vias` / `DefWire.wire_points` never read it.
The grammar also accepts `*` in the FIRST point of a wire (DEF itself does not): the code then puts `None` into the listing
(`wire_points`, plain vias) or raises `TypeError` (`None + x*x_sp` of a via array that is actually iterated). The functions
`Wire.wirePoints?`, `Wire.vias?`, `netVias?`, `netWiresR`, `netViasR` are defined exactly where the real property returns a
listing of integers, and say what happens elsewhere; where they are defined they agree with the total functions above
(`Proofs/DefPartial.lean`), so every theorem about `wirePoints` / `viasD` / `netWires` / `netViasD` speaks about the code there. -/

/-- `int(tok)` of a lark `NUMBER` token: a value on plain digits; `none` = Python raises `ValueError` (`1.5`, `1e3`, `.5`, `7.`) -/
def intTok? (s : String) : Option Nat :=
  if !s.toList.isEmpty && s.toList.all (fun c => '0' ≤ c && c ≤ '9') then
    some (s.toList.foldl (fun acc c => 10 * acc + (c.toNat - '0'.toNat)) 0)
  else none

/-- a `DefWire` record as built by `DefTransformer.spwire` / `.wire` -/
structure DWire where
  layer : String
  /-- `DefWire.width`: `none` for a regular-net wire (stays `None`), the raw NUMBER token for a special-net wire -/
  width : Option String
  start : RPt
  rest : List Item
deriving Repr, DecidableEq, Inhabited

/-- `None if dw.width is None else int(dw.width)`: outer `none` = `int()` raises `ValueError` -/
def DWire.widthVal (w : DWire) : Option (Option Nat) :=
  match w.width with
  | none => some none
  | some t => (intTok? t).map some

/-- what `wire_points` / `vias` read of the record (they never touch the width) -/
def DWire.geom (w : DWire) : Wire := ⟨w.layer, none, w.start, w.rest⟩
/-- the record with `int(width)` evaluated, where that does not raise -/
def DWire.conv (w : DWire) : Option Wire := w.widthVal.map fun wd => ⟨w.layer, wd, w.start, w.rest⟩
/-- `len(dw.wire_points) > 0`: the wire has a second point -/
def DWire.listed (w : DWire) : Bool := !w.geom.wirePointsRaw.isEmpty

/-- `DefWire.wire_points` as a list of integer points: `none` = the listing contains `None` (its first entry is `points[0]`
itself, so this happens exactly for a listed wire whose first point carries `*`) -/
def Wire.wirePoints? (w : Wire) : Option (List Pt3) :=
  if w.wirePointsRaw.isEmpty then some [] else if w.startOK then some w.wirePoints else none

/-- location with `None` coordinates as `DefWire.vias` carries it (`loc = self.points[0]`) -/
abbrev OLoc := Option Int × Option Int
/-- `(loc[0] if p[0] is None else p[0], loc[1] if p[1] is None else p[1])` -/
def RPt.ontoO (p : RPt) (loc : OLoc) : OLoc :=
  (match p.x with | some v => some v | none => loc.1, match p.y with | some v => some v | none => loc.2)

/-- one iteration of the loop of `DefWire.vias` with `None` coordinates possible: `none` = the code appends a tuple with a
`None` coordinate (plain via) or raises `TypeError` (`None + x*x_sp`; not when `range(x_cnt)` × `range(y_cnt)` is empty) -/
def viasStepO (st : OLoc × Dict ViaLoc) : Item → Option (OLoc × Dict ViaLoc)
  | .pt p => some (p.ontoO st.1, st.2)
  | .via n o =>
    match st.1 with
    | (some x, some y) => some (st.1, st.2.push n (x, y, orientOf o))
    | _ => none
  | .arr n nx ny dx dy =>
    match st.1 with
    | (some x, some y) => some (st.1, (arrayAt (x, y) nx ny dx dy).foldl (fun d v => d.push n v) st.2)
    | _ => if nx = 0 ∨ ny = 0 then some st else none

def viasGoO (st : OLoc × Dict ViaLoc) : List Item → Option (Dict ViaLoc)
  | [] => some st.2
  | it :: r =>
    match viasStepO st it with
    | some st' => viasGoO st' r
    | none => none

/-- `DefWire.vias` as a dictionary of integer positions; `none` = `None` in a tuple / `TypeError` (see `viasStepO`) -/
def Wire.vias? (w : Wire) : Option (Dict ViaLoc) := viasGoO ((w.start.x, w.start.y), []) w.rest

def netViasGo (d : Dict ViaLoc) : List Wire → Option (Dict ViaLoc)
  | [] => some d
  | w :: r =>
    match w.vias? with
    | some wd => netViasGo (wd.foldl (fun d kv => d.extend kv.1 kv.2) d) r
    | none => none

/-- `DefNet.vias`; `none` = some wire's `vias` is not a listing of integers -/
def netVias? (ws : List Wire) : Option (Dict ViaLoc) := netViasGo [] ws
/-- … on the raw records: the width token is not read -/
def netViasR (ws : List DWire) : Option (Dict ViaLoc) := netVias? (ws.map DWire.geom)

/-- the comprehension of `DefNet.wires` over the raw records: `[ww[dw.layer].append((None if dw.width is None else
int(dw.width), dw.wire_points)) for dw in self.routed if len(dw.wire_points) > 0]` -/
def netWiresGo (d : Dict (Option Nat × List Pt3)) : List DWire → Res (Dict (Option Nat × List Pt3))
  | [] => .ok d
  | w :: r =>
    if w.listed then
      match w.widthVal with
      | none => .error "value"
      | some wd => netWiresGo (d.push w.layer (wd, w.geom.wirePoints)) r
    else netWiresGo d r

/-- `DefNet.wires` on the raw records. `.error "value"`: the property raises `ValueError` (a LISTED wire has a width token
that `int()` rejects); `.error "start"`: it returns, but a listed wire starts with `*`, so the listing contains `None`;
`.ok d`: the listing (all integers) -/
def netWiresR (ws : List DWire) : Res (Dict (Option Nat × List Pt3)) :=
  match netWiresGo [] ws with
  | .error e => .error e
  | .ok d => if ws.all (fun w => !w.listed || w.geom.startOK) then .ok d else .error "start"

end KV.Def
