import KyupyVerif.Model.Prim
/-! Netlist data as exported from a `kyupy.circuit.Circuit` (nodes with pin lists, lines, io list),
the derived `s_nodes` order, and the **specification-level** gate-by-gate evaluator. -/
namespace KV

structure NodeD where
  kind : String
  ins : List (Option Nat)
  outs : List (Option Nat)
deriving Repr, Inhabited

structure LineD where
  driver : Nat
  dpin : Nat
  reader : Nat
  rpin : Nat
deriving Repr, Inhabited, DecidableEq

structure Net where
  nodes : Array NodeD
  lines : Array LineD
  io : List Nat
deriving Repr, Inhabited

/-- `pat` occurs in `s` (Python `pat in s`) -/
def isInfixChars : List Char → List Char → Bool
  | pat, [] => pat.isEmpty
  | pat, c :: cs => pat.isPrefixOf (c :: cs) || isInfixChars pat cs
def hasSub (pat s : String) : Bool := isInfixChars pat.toList s.toList

def NodeD.lkind (n : NodeD) : String := n.kind.toLower
def NodeD.isDff (n : NodeD) : Bool := hasSub "dff" n.lkind
def NodeD.isLatch (n : NodeD) : Bool := hasSub "latch" n.lkind
def NodeD.isSeq (n : NodeD) : Bool := n.isDff || n.isLatch
def NodeD.isFork (n : NodeD) : Bool := n.kind == "__fork__"
def NodeD.inPin (n : NodeD) (i : Nat) : Option Nat := (n.ins.getD i none)
def NodeD.outPin (n : NodeD) (i : Nat) : Option Nat := (n.outs.getD i none)
def NodeD.nIns (n : NodeD) : Nat := (n.ins.filter Option.isSome).length

def Net.node (net : Net) (i : Nat) : NodeD := net.nodes.getD i default

/-- **arity domain** (audit finding 1 / known finding D33): every node that is neither a fork nor a state element has at most FOUR
input pin slots.  `lineEq` / `evalLineG` below — and the real `SimOps` (sim.py: the arity variant is chosen by pins 2 and 3, operands
are pins 0..3) — read pins 0..3 only: a gate with more input pins means, for both, the 4-input primitive of its first four pins.
Inside this domain the gate equations below are the equations the netlist describes; outside they are what kyupy computes, not what
a reader of the netlist expects (`C11.wide_gate_not_simulated`). -/
def Net.arityOKB (net : Net) : Bool := net.nodes.all fun n => n.isFork || n.isSeq || n.ins.length ≤ 4
def Net.line (net : Net) (i : Nat) : LineD := net.lines.getD i default

/-- `Circuit.s_nodes`: ports, then flip-flops, then latches (node order) -/
def Net.sNodes (net : Net) : List Nat :=
  net.io ++ (List.range net.nodes.size).filter (fun i => (net.node i).isDff)
         ++ (List.range net.nodes.size).filter (fun i => (net.node i).isLatch)

def sPosIn (l : List Nat) (n : Nat) : Option Nat :=
  let i := l.idxOf n
  if i < l.length then some i else none

def Net.sPos (net : Net) (n : Nat) : Option Nat := sPosIn net.sNodes n

/-- `sPos` for all nodes at once (computed once per netlist) -/
def Net.sPosTable (net : Net) : Array (Option Nat) :=
  let sn := net.sNodes
  (List.range net.nodes.size).map (sPosIn sn) |>.toArray

/-! ### specification: family of a node kind, chosen by the longest matching prefix -/

/-- prefix families with the primitive for 4 / 3 / at most 2 connected pins (hand-written spec) -/
def specFamilies : List (String × String × String × String) := [
  ("nand", "NAND4", "NAND3", "NAND2"), ("nor", "NOR4", "NOR3", "NOR2"),
  ("and", "AND4", "AND3", "AND2"), ("or", "OR4", "OR3", "OR2"), ("isolor", "OR2", "OR2", "OR2"),
  ("xor", "XOR4", "XOR3", "XOR2"), ("xnor", "XNOR4", "XNOR3", "XNOR2"),
  ("not", "INV1", "INV1", "INV1"), ("inv", "INV1", "INV1", "INV1"), ("ibuf", "INV1", "INV1", "INV1"),
  ("__const1__", "INV1", "INV1", "INV1"), ("tieh", "INV1", "INV1", "INV1"),
  ("buf", "BUF1", "BUF1", "BUF1"), ("nbuf", "BUF1", "BUF1", "BUF1"), ("delln", "BUF1", "BUF1", "BUF1"),
  ("__const0__", "BUF1", "BUF1", "BUF1"), ("tiel", "BUF1", "BUF1", "BUF1"),
  ("ao211", "AO211", "AO211", "AO211"), ("oa211", "OA211", "OA211", "OA211"),
  ("aoi211", "AOI211", "AOI211", "AOI211"), ("oai211", "OAI211", "OAI211", "OAI211"),
  ("ao22", "AO22", "AO22", "AO22"), ("aoi22", "AOI22", "AOI22", "AOI22"),
  ("ao21", "AO21", "AO21", "AO21"), ("aoi21", "AOI21", "AOI21", "AOI21"),
  ("oa22", "OA22", "OA22", "OA22"), ("oai22", "OAI22", "OAI22", "OAI22"),
  ("oa21", "OA21", "OA21", "OA21"), ("oai21", "OAI21", "OAI21", "OAI21"),
  ("mux21", "MUX21", "MUX21", "MUX21")]

/-- longest family prefix of the lower-cased kind; `none` for unknown kinds -/
def specFamily (lkind : String) : Option (String × String × String × String) :=
  (specFamilies.filter (fun f => startsWithL lkind f.1)).foldl
    (fun best f => match best with
      | none => some f
      | some b => if b.1.length < f.1.length then some f else some b) none

def specPrimName (lkind : String) (conn2 conn3 : Bool) : Option String :=
  (specFamily lkind).map fun f => if conn3 then f.2.1 else if conn2 then f.2.2.1 else f.2.2.2

/-- Generic gate-by-gate evaluator over a value domain `α`:
    `a` assignment at `s_nodes` positions, `z` the value an unconnected pin reads (constant 0),
    `neg` the inversion applied to the second output of a flip-flop, `prim` the meaning of a
    primitive name. `fuel` bounds the combinational depth. -/
def evalLineG {α} (net : Net) (z : α) (neg : α → α) (prim : String → α → α → α → α → α) (a : Nat → α) :
    Nat → Nat → α
  | 0, _ => z
  | fuel + 1, l =>
    let ln := net.line l
    let d := net.node ln.driver
    let pinVal := fun (i : Nat) => match d.inPin i with
      | some l' => evalLineG net z neg prim a fuel l'
      | none => z
    match net.sPos ln.driver with
    | some p =>
      if d.isSeq then (if d.isDff && ln.dpin == 1 then neg (a p) else a p)
      else match d.inPin 0 with
        | some l' => if d.isFork then evalLineG net z neg prim a fuel l' else a p   -- a driven port fork passes its driver's value
        | none => a p
    | none =>
      if d.isFork then pinVal 0
      else match specPrimName d.lkind (d.inPin 2).isSome (d.inPin 3).isSome with
        | some name => prim name (pinVal 0) (pinVal 1) (pinVal 2) (pinVal 3)
        | none => z

/-- what the netlist says line `l` carries, given values `v` of the other lines (one gate, no recursion) -/
def lineEq {α} (net : Net) (sp : Nat → Option Nat) (z : α) (neg : α → α) (prim : String → α → α → α → α → α)
    (a : Nat → α) (v : Nat → α) (l : Nat) : α :=
  let ln := net.line l
  let d := net.node ln.driver
  let pinVal := fun (i : Nat) => match d.inPin i with
    | some l' => v l'
    | none => z
  match sp ln.driver with
  | some p =>
    if d.isSeq then (if d.isDff && ln.dpin == 1 then neg (a p) else a p)
    else match d.inPin 0 with
      | some l' => if d.isFork then v l' else a p
      | none => a p
  | none =>
    if d.isFork then pinVal 0
    else match specPrimName d.lkind (d.inPin 2).isSome (d.inPin 3).isSome with
      | some name => prim name (pinVal 0) (pinVal 1) (pinVal 2) (pinVal 3)
      | none => z

/-- a labelling of the lines is **consistent** with the netlist and the assignment when every line
    carries what its driver computes from the labelling — the gate-by-gate meaning of the netlist -/
def consistentB {α} [BEq α] (net : Net) (z : α) (neg : α → α) (prim : String → α → α → α → α → α) (a : Nat → α)
    (v : Array α) : Bool :=
  let spT := net.sPosTable
  (List.range net.lines.size).all fun l =>
    v.getD l z == lineEq net (fun n => spT.getD n none) z neg prim a (fun i => v.getD i z) l

/-- memoised evaluation: `depth` passes over all lines; each pass computes the lines whose driver's
    operands are already known. Lines in combinational loops stay unknown. -/
def evalPass {α} (net : Net) (spT : Array (Option Nat)) (z : α) (neg : α → α) (prim : String → α → α → α → α → α) (a : Nat → α)
    (vals : Array (Option α)) : Array (Option α) := Id.run do
  let mut v := vals
  for l in List.range net.lines.size do
    if (v.getD l none).isNone then
      let d := net.node (net.line l).driver
      let isSource := match spT.getD (net.line l).driver none with
        | some _ => d.isSeq || !(d.isFork && (d.inPin 0).isSome)
        | none => false
      let ready := isSource || d.ins.all fun p => match p with
        | some l' => (v.getD l' none).isSome
        | none => true
      if ready then
        v := v.setIfInBounds l (some (lineEq net (fun n => spT.getD n none) z neg prim a (fun i => (v.getD i none).getD z) l))
  return v

def evalAll {α} (net : Net) (z : α) (neg : α → α) (prim : String → α → α → α → α → α) (a : Nat → α) : Array α :=
  let spT := net.sPosTable
  let rec go : Nat → Array (Option α) → Array (Option α)
    | 0, v => v
    | k + 1, v =>
      let v' := evalPass net spT z neg prim a v
      if (v'.toList.map Option.isSome) == (v.toList.map Option.isSome) then v' else go k v'
  (go (net.lines.size + 1) (Array.replicate net.lines.size none)).map (·.getD z)

def evalCaptureG {α} (net : Net) (z : α) (neg : α → α) (prim : String → α → α → α → α → α) (a : Nat → α)
    (j : Nat) : Option α :=
  match net.sNodes[j]? with
  | none => none
  | some n => match (net.node n).inPin 0 with
    | some l => some ((evalAll net z neg prim a).getD l z)
    | none => none

/-- all captures at once (one evaluation) -/
def evalCapturesG {α} (net : Net) (z : α) (neg : α → α) (prim : String → α → α → α → α → α) (a : Nat → α) :
    List (Option α) :=
  let v := evalAll net z neg prim a
  net.sNodes.map fun n => (net.node n).inPin 0 |>.map fun l => v.getD l z

/-- 2-valued specification: uses `formula`, not the LUT constants -/
def prim2 (name : String) (a b c d : Bool) : Bool := (formula name a b c d).getD false
def evalLine (net : Net) (a : Nat → Bool) : Nat → Nat → Bool := evalLineG net false (!·) prim2 a
def evalCaptures (net : Net) (a : Nat → Bool) : List (Option Bool) := evalCapturesG net false (!·) prim2 a

/-- **independent next-state specification** (property C01: "applying the circuit's next-state function"), from a labelling `v` of
the lines: a port keeps its value; a state element at position `p` takes what its data pin 0 carries under `v`; a state element
with OPEN data pin captures the constant `z` (= 0: the documented rule "an unconnected pin reads constant 0"; the code since the D9
repair copies the constant-0 slot).  Tied to the simulator by `C01.nextState_is_spec`. -/
def nextStateFrom (net : Net) (z : Bool) (v : Array Bool) (a : List Bool) : List Bool :=
  a.mapIdx fun p x => if net.io.length ≤ p then
    (match (net.node (net.sNodes.getD p 0)).inPin 0 with | some l => v.getD l z | none => z) else x

/-- next-state function, executable (driver `eval2`): `nextStateFrom` of the labelling the evaluator `evalAll` computes
(`C01.nextState_eq_from`); the open data pin captures constant 0 (audit: the earlier version kept the old value — the code never did) -/
def nextState (net : Net) (a : Nat → Bool) : Nat → Bool :=
  let caps := (evalCaptures net a).toArray
  fun j => if net.io.length ≤ j then ((caps.getD j none).getD false) else a j

def iterState (net : Net) : Nat → (Nat → Bool) → (Nat → Bool)
  | 0, a => a
  | k + 1, a =>
    -- materialise the state as an array so that iteration stays linear
    let a' := nextState net a
    let arr := (List.range net.sNodes.length).map a' |>.toArray
    iterState net k (fun j => arr.getD j false)

/-- the acceptance flag of the driver's `eval2` (audit-2 finding 7): the labelling the evaluator `evalAll` returns is accepted by the
specification's check `consistentB` at EVERY iterate `0 … k` of `iterState` (hypothesis of `C01.cycle_iter_iterState`) -/
def iterAccepted (net : Net) : Nat → (Nat → Bool) → Bool
  | 0, a => consistentB net false (!·) prim2 a (evalAll net false (!·) prim2 a)
  | k + 1, a =>
    consistentB net false (!·) prim2 a (evalAll net false (!·) prim2 a) &&
    (let a' := nextState net a
     let arr := (List.range net.sNodes.length).map a' |>.toArray
     iterAccepted net k (fun j => arr.getD j false))

end KV
