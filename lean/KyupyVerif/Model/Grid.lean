/-! Model (M) of the kernel launch used by the GPU code path of `wave_sim.py` under the pure-Python fallback:
`cdiv` (kyupy/__init__.py:19), `WaveSimCuda._grid_dim` (wave_sim.py:378) and the launcher of `MockCuda.jit`
(kyupy/__init__.py:247-260): four nested loops over grid_x, grid_y, block_x, block_y that set
`cuda.x = grid_x * block_dim[0] + block_x`, `cuda.y = grid_y * block_dim[1] + block_y` and call the kernel, whose first
statements are the guards `if x >= n: return`, `if y >= m: return`. -/
namespace KV.Grid

/-- `cdiv x y = -(x // -y)` for positive `y` -/
def cdiv (x y : Nat) : Nat := (x + y - 1) / y

/-- the thread coordinates `(x, y)` in the order in which the mock launcher calls the kernel -/
def launch (gx gy bx by_ : Nat) : List (Nat × Nat) :=
  (List.range gx).flatMap fun g_x => (List.range gy).flatMap fun g_y =>
    (List.range bx).flatMap fun b_x => (List.range by_).map fun b_y => (g_x * bx + b_x, g_y * by_ + b_y)

/-- the threads that pass the guards of a kernel working on `n × m` items -/
def active (n m : Nat) (l : List (Nat × Nat)) : List (Nat × Nat) := l.filter fun p => decide (p.1 < n) && decide (p.2 < m)

/-- threads of a launch for `n × m` items with blocks of `bx × by_` threads (`_grid_dim`) -/
def kernelThreads (n m bx by_ : Nat) : List (Nat × Nat) := active n m (launch (cdiv n bx) (cdiv m by_) bx by_)

/-- the double loop of the CPU code path: `for y in range(m): for x in range(n)` (op-major) -/
def cpuLoop (n m : Nat) : List (Nat × Nat) :=
  (List.range m).flatMap fun y => (List.range n).map fun x => (x, y)

end KV.Grid
