import KyupyVerif.Model.CircNet
/-! # What an ISCAS bench description DENOTES (property C11, `parsed_sem`)

Statement-level semantics of a `List BStmt`, written without any reference to the circuit the parser builds:

* **signals** are names; an environment `σ : String → α` gives every signal a value of the domain `α` (Booleans, four- or eight-valued
  logic, anything — the op algebra is the parameter `prim : primitive name → α⁴ → α` and the constant `z` an unconnected operand
  reads, exactly the parameters of `KV.lineEq` / `KV.consistentB`);
* **ports** (`benchPorts`): the names of the INPUT(..)/OUTPUT(..) statements in text order — kyupy makes no difference between the
  two keywords: a port that some gate statement defines is observed, any other port is assigned;
* **state elements**: gate statements whose kind contains `dff` / `latch` (lower-cased; what `Circuit.s_nodes` collects);
* **positions of the assignment** (`benchSNames`, `benchSPos`): ports in text order, then the flip-flop statements in text order, then
  the latch statements — the `s_nodes` order of the parsed circuit (theorem `C11.bench_snodes`);
* `BenchModel stmts z prim a σ` — `σ` is a MODEL of the description under the assignment `a : position → α`:
  for every gate statement `g = KIND(d₀, …)`: `σ g = a (position of g)` when KIND is a state element, otherwise
  `σ g = prim P (σ d₀) (σ d₁) (σ d₂) (σ d₃)` where missing operands read `z` and `P` is the primitive of the longest prefix family of
  the lower-cased KIND in the arity variant chosen by the number of operands (`≥ 4`, `3`, `≤ 2`: `KV.specPrimName`, the hand-written
  specification table of Model/Net.lean; an unknown kind gives `z`); every name no gate statement defines carries its assigned value
  when it is a port and `z` otherwise.
  Relational: nothing is said about cycles; a description with a combinational cycle may have none or several models.
* `benchOKB` — the description builds (no exception in `bench.parse`, inside the domain of the circuit model): no two gate
  statements define the same name, no kind is the literal `__fork__` (`C11.bench_ok_is_no_error`: exactly when the parser model
  does not set `err`).  `benchClosedB` — additionally every operand is a port or defined by a gate statement and no kind
  lower-cases to `__fork__`: then the scheduler's domain hypothesis `forksOKB` holds for every order, and — kinds known to the
  prefix table, order over all nodes — every line is scheduled (`C11.bench_sched_hyps`, `C11.bench_end_to_end_closed`).
* `benchEval` — an evaluator by passes (for the driver), checked by `benchModelB` on every answer: `benchModelB … = true` implies
  `BenchModel` for the environment of the table (theorem `benchModelB_sound`). -/
namespace KV.Netlist

/-- one gate statement `name = kind(drv…)` -/
structure BGate where
  name : String
  kind : String
  drv : List String
deriving DecidableEq, Repr, Inhabited

def gateOf : BStmt → Option BGate
  | .gate n k d => some ⟨n, k, d⟩
  | .intf _ => none

def portsOf : BStmt → List String
  | .intf ns => ns
  | .gate _ _ _ => []

def benchGates (stmts : List BStmt) : List BGate := stmts.filterMap gateOf
def benchPorts (stmts : List BStmt) : List String := stmts.flatMap portsOf

def isDffKind (k : String) : Bool := hasSub "dff" k.toLower
def isLatchKind (k : String) : Bool := hasSub "latch" k.toLower
def isSeqKind (k : String) : Bool := isDffKind k || isLatchKind k

/-- the interface nodes in `s_nodes` order: port forks, flip-flop cells, latch cells -/
def benchSNames (stmts : List BStmt) : List Ep :=
  (benchPorts stmts).map Ep.fork ++ (((benchGates stmts).filter fun g => isDffKind g.kind).map fun g => Ep.cell g.name 0) ++
    (((benchGates stmts).filter fun g => isLatchKind g.kind).map fun g => Ep.cell g.name 0)

/-- position of a port fork / state cell in the assignment -/
def benchSPos (stmts : List BStmt) (e : Ep) : Nat := (benchSNames stmts).idxOf e

/-- the signal every line carries, in line order: per gate statement its own name (line cell → fork), then its operands -/
def sigsOf : BStmt → List String
  | .gate n _ d => n :: d
  | .intf _ => []
def benchSigs (stmts : List BStmt) : List String := stmts.flatMap sigsOf

/-- the value a combinational gate statement computes from the environment -/
def gateVal {α} (z : α) (prim : String → α → α → α → α → α) (kind : String) (drv : List String) (σ : String → α) : α :=
  match specPrimName kind.toLower (decide (2 < drv.length)) (decide (3 < drv.length)) with
  | some name => prim name (match drv[0]? with | some d => σ d | none => z) (match drv[1]? with | some d => σ d | none => z)
      (match drv[2]? with | some d => σ d | none => z) (match drv[3]? with | some d => σ d | none => z)
  | none => z

/-! ### the n-ary reading (audit finding 1 / known finding D33)

`gateVal` reads operands 0..3 only — as the real simulator does.  What a READER of `z = AND(a, b, c, d, e)` expects is the
operator of the family folded over ALL operands.  `gateFunN` is this reading for the two-valued domain, written without the
primitive table: and/nand: all operands, or/nor: any operand, xor/xnor: parity — a gate has at least two operand slots, a missing
one reads `z` (the documented rule for unconnected pins: `z = AND(a)` is `AND2(a, z)`); the fixed-arity kinds (buf, not, ao21, …,
mux21, constants) keep their formula over operands 0..3.  `benchArityB`: every combinational gate statement has at most four operands;
inside it the two readings agree (`Proofs/WideGate.lean: gateFunN_eq`, `benchModelN_iff`), outside they differ
(`C11.wide_gate_not_simulated`). -/

/-- operand list of a variadic gate: all operands, filled up to two slots with `z` -/
def padTwo (z : Bool) (xs : List Bool) : List Bool := xs ++ List.replicate (2 - xs.length) z

/-- n-ary two-valued meaning of a gate kind (lower-cased) over ALL operand values -/
def gateFunN (z : Bool) (lkind : String) (xs : List Bool) : Bool :=
  match specFamily lkind with
  | none => z
  | some f =>
    if f.1 == "and" then (padTwo z xs).all id
    else if f.1 == "nand" then !(padTwo z xs).all id
    else if f.1 == "or" then (padTwo z xs).any id
    else if f.1 == "nor" then !(padTwo z xs).any id
    else if f.1 == "xor" then (padTwo z xs).foldl Bool.xor false
    else if f.1 == "xnor" then !(padTwo z xs).foldl Bool.xor false
    else prim2 f.2.2.2 (xs.getD 0 z) (xs.getD 1 z) (xs.getD 2 z) (xs.getD 3 z)

/-- the arity domain of a description: every combinational gate statement has at most four operands -/
def benchArityB (stmts : List BStmt) : Bool :=
  (benchGates stmts).all fun g => isSeqKind g.kind || g.drv.length ≤ 4

def isGateName (stmts : List BStmt) (s : String) : Bool := (benchGates stmts).any fun g => g.name == s

/-- what a name without gate statement carries -/
def freeVal {α} (stmts : List BStmt) (z : α) (a : Nat → α) (s : String) : α :=
  if (benchPorts stmts).contains s then a (benchSPos stmts (.fork s)) else z

/-- what a gate statement says about its name -/
def stmtVal {α} (stmts : List BStmt) (z : α) (prim : String → α → α → α → α → α) (a : Nat → α) (g : BGate) (σ : String → α) : α :=
  if isSeqKind g.kind then a (benchSPos stmts (.cell g.name 0)) else gateVal z prim g.kind g.drv σ

/-- `σ` is a model of the description under the assignment `a` -/
def BenchModel {α} (stmts : List BStmt) (z : α) (prim : String → α → α → α → α → α) (a : Nat → α) (σ : String → α) : Prop :=
  (∀ g ∈ benchGates stmts, σ g.name = stmtVal stmts z prim a g σ) ∧
  (∀ s, isGateName stmts s = false → σ s = freeVal stmts z a s)

/-- the n-ary reading of a gate statement and of a description (two-valued) -/
def stmtValN (stmts : List BStmt) (z : Bool) (a : Nat → Bool) (g : BGate) (σ : String → Bool) : Bool :=
  if isSeqKind g.kind then a (benchSPos stmts (.cell g.name 0)) else gateFunN z g.kind.toLower (g.drv.map σ)

/-- `σ` is a model of the description in the n-ary reading: every gate statement computes its family's operator over ALL operands -/
def BenchModelN (stmts : List BStmt) (z : Bool) (a : Nat → Bool) (σ : String → Bool) : Prop :=
  (∀ g ∈ benchGates stmts, σ g.name = stmtValN stmts z a g σ) ∧
  (∀ s, isGateName stmts s = false → σ s = freeVal stmts z a s)

/-- the description builds: gate names pairwise different, no kind is `__fork__` -/
def nodupS : List String → Bool
  | [] => true
  | x :: r => !r.contains x && nodupS r

def benchOKB (stmts : List BStmt) : Bool :=
  nodupS ((benchGates stmts).map (·.name)) && (benchGates stmts).all fun g => g.kind != forkKind

/-- … and closed: every operand is a port or a gate output, no kind lower-cases to `__fork__`, every gate kind is a state
element or belongs to a specified family -/
def benchClosedB (stmts : List BStmt) : Bool :=
  benchOKB stmts &&
  (benchGates stmts).all fun g => g.kind.toLower != forkKind &&
    g.drv.all fun d => isGateName stmts d || (benchPorts stmts).contains d

/-! ## executable evaluation (driver) -/

def lookupA {α} (tab : List (String × α)) (s : String) : Option α := (tab.find? (·.1 == s)).map (·.2)

/-- the environment of a table: listed names from the table, any other name as a free name -/
def envOf {α} (stmts : List BStmt) (z : α) (a : Nat → α) (tab : List (String × α)) (s : String) : α :=
  match lookupA tab s with
  | some v => v
  | none => freeVal stmts z a s

/-- one pass: every gate whose operands are all known (free names are known) gets its value -/
def evalPassB {α} (stmts : List BStmt) (z : α) (prim : String → α → α → α → α → α) (a : Nat → α) (tab : List (String × α)) :
    List (String × α) :=
  (benchGates stmts).foldl (fun t g =>
    if (lookupA t g.name).isSome then t
    else if isSeqKind g.kind || g.drv.all (fun d => (lookupA t d).isSome || !isGateName stmts d) then
      t ++ [(g.name, stmtVal stmts z prim a g (envOf stmts z a t))]
    else t) tab

def evalFix {α} (stmts : List BStmt) (z : α) (prim : String → α → α → α → α → α) (a : Nat → α) :
    Nat → List (String × α) → List (String × α)
  | 0, t => t
  | k + 1, t =>
    let t' := evalPassB stmts z prim a t
    if t'.length == t.length then t else evalFix stmts z prim a k t'

/-- the table of gate values (gates in combinational loops stay out of the table) -/
def benchEval {α} (stmts : List BStmt) (z : α) (prim : String → α → α → α → α → α) (a : Nat → α) : List (String × α) :=
  evalFix stmts z prim a ((benchGates stmts).length + 1) []

/-- acceptance check for a table: every gate statement is listed and satisfied; only gate names are listed -/
def benchModelB {α} [BEq α] (stmts : List BStmt) (z : α) (prim : String → α → α → α → α → α) (a : Nat → α)
    (tab : List (String × α)) : Bool :=
  ((benchGates stmts).all fun g => envOf stmts z a tab g.name == stmtVal stmts z prim a g (envOf stmts z a tab)) &&
  tab.all fun p => isGateName stmts p.1

/-- what the description observes: per `s_nodes` position the value captured there — a port defined by a gate statement shows
that signal, a state element its first operand; `none` where nothing is captured (assigned ports, state elements without operand) -/
def benchCaptures {α} (stmts : List BStmt) (σ : String → α) : List (Option α) :=
  (benchSNames stmts).map fun e => match e with
    | .fork s => if isGateName stmts s then some (σ s) else none
    | .cell g _ => match (benchGates stmts).find? (·.name == g) with
      | some gt => gt.drv.head?.map σ
      | none => none

end KV.Netlist
