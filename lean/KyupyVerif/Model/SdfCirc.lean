import KyupyVerif.Model.Sdf
import KyupyVerif.Model.Transform
/-! # The pin look-ups of `DelayFile.iopaths` / `DelayFile.interconnects` over the circuit dump (property C14, audit finding 7)

`Model/Sdf.lean` takes the two look-ups as tables (`PinTable`, `IcTable`).  Here they are the functions the real code
computes, over the named circuit dump `KV.Transform.NNet` (nodes with kind / pin lists / names, lines with driver and reader,
the same dump `harness/circ.py: dump_net, dump_names` exports and the C09/C10 models use) and the library's pin table
`tlib.pin_index(kind, pin)` (`PinIdx`; `none` = the `assert` of `pin_index` fails):

* `pinLook`  — `cell = circuit.cells.get(name)`; `cell.ins[tlib.pin_index(cell.kind, pin)]`
* `icLook`   — `c1, c2 = circuit.cells[cn1], circuit.cells[cn2]`; pin indices (0 for a name without `/pin`); the two `warn`
               exits; `f1 = c1.outs[p1].reader`, `f2 = c2.ins[p2].driver`; the asserts; branch fork (`f1 != f2`) or sole
               reader (`len(f2.outs) == 1`) or `warn`.

Three outcomes (`Look`): the code raises, the code warns and skips the entry, or the line index.  `Node.__eq__` compares
(name, kind), unique within a circuit, so `f1 != f2` is index inequality on a well-formed dump. -/
namespace KV.Sdf
open KV KV.Transform

/-- `tlib.pin_index(kind, pin)`; `none`: unknown cell kind or pin (`AssertionError`) -/
abbrev PinIdx := String → String → Option Nat

inductive Look
  | raise
  | skip
  | line (l : Nat)
deriving DecidableEq, Repr, Inhabited

def Look.toOpt : Look → Option Nat
  | .line l => some l
  | _ => none

/-- `circuit.cells.get(name)`: index of the non-fork node of that name -/
def cellOf (C : NNet) (name : String) : Option Nat :=
  let i := C.lookup (name, false)
  if i < C.net.nodes.size then some i else none

/-- `cell.ins[tlib.pin_index(cell.kind, pin)]` for `cell = circuit.cells.get(name)`:
unknown cell → warn; unknown pin → `AssertionError`; index beyond `len(cell.ins)` → `IndexError`; `None` → warn -/
def pinLook (C : NNet) (tl : PinIdx) (name pin : String) : Look :=
  match cellOf C name with
  | none => .skip
  | some i =>
    match tl (C.net.node i).kind pin with
    | none => .raise
    | some idx =>
      if idx < (C.net.node i).ins.length then
        match (C.net.node i).inPin idx with
        | some l => .line l
        | none => .skip
      else .raise

/-- the pin index of one end of an INTERCONNECT: `tlib.pin_index(c.kind, pn) if pn is not None else 0` -/
def endPin (tl : PinIdx) (kind : String) : Option String → Option Nat
  | some p => tl kind p
  | none => some 0

/-- `f2.ins[0]` as a line index (`IndexError` on an empty list; a `None` entry is outside the domain: also `raise`) -/
def forkIn (n : NodeD) : Option Nat :=
  match n.ins with
  | some l :: _ => some l
  | _ => none

def icLook (C : NNet) (tl : PinIdx) (c1 : String) (p1 : Option String) (c2 : String) (p2 : Option String) : Look :=
  match cellOf C c1, cellOf C c2 with
  | some i1, some i2 =>
    match endPin tl (C.net.node i1).kind p1, endPin tl (C.net.node i2).kind p2 with
    | some q1, some q2 =>
      match (C.net.node i1).outPin q1 with
      | none => .skip                                  -- `len(c1.outs) <= p1 or c1.outs[p1] is None`
      | some lo =>
        match (C.net.node i2).inPin q2 with
        | none => .skip                                -- `len(c2.ins) <= p2 or c2.ins[p2] is None`
        | some li =>
          let f1 := (C.net.line lo).reader
          let f2 := (C.net.line li).driver
          if !((C.net.node f1).isFork && (C.net.node f2).isFork) then .raise else
          if f1 != f2 then
            match forkIn (C.net.node f2) with
            | some l =>
              if (C.net.node f2).outs.length == 1 && (C.net.node f1).outPin (C.net.line l).dpin == some l then .line l
              else .raise
            | none => .raise
          else if (C.net.node f2).outs.length == 1 then
            match forkIn (C.net.node f2) with
            | some l => .line l
            | none => .raise
          else .skip
    | _, _ => .raise
  | _, _ => .raise

/-! ### the exits of the INTERCONNECT look-up, by kind (audit finding 7, completeness)

`icLookX` is `icLook` with the two kinds of warning kept apart (`warnPin`: one of the two `No line to annotate pin …`;
`warnNoBranch`: `No branchfork to annotate interconnect delay …`), written as the three stages of the code: resolve both ends
(`circuit.cells[..]`, `tlib.pin_index`), read the two pins (`icPins`), decide between the forks (`icFork`).
`icLookX_toLook` (Proofs/SdfCirc.lean): forgetting the kind of warning gives `icLook` — for every dump. -/
inductive IcExit
  | raise
  | warnPin
  | warnNoBranch
  | line (l : Nat)
deriving DecidableEq, Repr, Inhabited

def IcExit.toLook : IcExit → Look
  | .raise => .raise
  | .warnPin => .skip
  | .warnNoBranch => .skip
  | .line l => .line l

/-- from `f1, f2 = c1.outs[p1].reader, c2.ins[p2].driver` to the end of the loop body; `lo`, `li` = the two lines -/
def icFork (C : NNet) (lo li : Nat) : IcExit :=
  let f1 := (C.net.line lo).reader
  let f2 := (C.net.line li).driver
  if !((C.net.node f1).isFork && (C.net.node f2).isFork) then .raise else
  if f1 != f2 then
    match forkIn (C.net.node f2) with
    | some l =>
      if (C.net.node f2).outs.length == 1 && (C.net.node f1).outPin (C.net.line l).dpin == some l then .line l
      else .raise
    | none => .raise
  else if (C.net.node f2).outs.length == 1 then
    match forkIn (C.net.node f2) with
    | some l => .line l
    | none => .raise
  else .warnNoBranch

/-- the two `warn` exits on open pins, then `icFork` -/
def icPins (C : NNet) (i1 q1 i2 q2 : Nat) : IcExit :=
  match (C.net.node i1).outPin q1 with
  | none => .warnPin
  | some lo =>
    match (C.net.node i2).inPin q2 with
    | none => .warnPin
    | some li => icFork C lo li

def icLookX (C : NNet) (tl : PinIdx) (c1 : String) (p1 : Option String) (c2 : String) (p2 : Option String) : IcExit :=
  match cellOf C c1, cellOf C c2 with
  | some i1, some i2 =>
    match endPin tl (C.net.node i1).kind p1, endPin tl (C.net.node i2).kind p2 with
    | some q1, some q2 => icPins C i1 q1 i2 q2
    | _, _ => .raise
  | _, _ => .raise

def icLookXE (C : NNet) (tl : PinIdx) (e : Entry) : IcExit :=
  let n1 := splitSlash e.a
  let n2 := splitSlash e.b
  icLookX C tl (stripBackslash n1.1) n1.2 (stripBackslash n2.1) n2.2

/-- **structural hypothesis on the dump** (decidable; evaluated on every circuit the harness parses, tag `c14-hyp:icStruct:*`):
the structure `verilog.parse` builds around cells — every fork has exactly one input pin and it is connected; every line that
leaves a pin of a cell (gate, port, state element) enters a fork and every line that enters a pin of a cell leaves a fork. -/
def icStructOKB (C : NNet) : Bool :=
  (List.range C.net.nodes.size).all fun i =>
    let n := C.net.node i
    if n.isFork then n.ins.length == 1 && (n.ins.getD 0 none).isSome
    else n.outs.all (fun o => match o with | some l => (C.net.node (C.net.line l).reader).isFork | none => true)
      && n.ins.all (fun o => match o with | some l => (C.net.node (C.net.line l).driver).isFork | none => true)

/-- the tables of `Model/Sdf.lean` as the real code computes them -/
def pinLineOf (C : NNet) (tl : PinIdx) : PinTable := fun n p => (pinLook C tl n p).toOpt
def icLineOf (C : NNet) (tl : PinIdx) : IcTable := fun c1 p1 c2 p2 => (icLook C tl c1 p1 c2 p2).toOpt

/-- the look-up an IOPATH entry of block `name` performs / an INTERCONNECT entry performs (names as the loops prepare them) -/
def ioLook (C : NNet) (tl : PinIdx) (name : String) (e : Entry) : Look := pinLook C tl (stripBackslash name) (pinOf e.a)
def icLookE (C : NNet) (tl : PinIdx) (e : Entry) : Look :=
  let n1 := splitSlash e.a
  let n2 := splitSlash e.b
  icLook C tl (stripBackslash n1.1) n1.2 (stripBackslash n2.1) n2.2

/-- `iopaths(circuit, tlib)`: `none` when a look-up raises -/
def iopathsC (C : NNet) (tl : PinIdx) (df : DelayFile) : Option Arr :=
  if (namedEntries df).all fun p => ioLook C tl p.1 p.2 != .raise then some (iopaths (pinLineOf C tl) df) else none

/-- `interconnects(circuit, tlib)`: `none` when there is no top-level block (`for .. in None`: `TypeError`), when a
kept entry has a name with two `/` (tuple unpacking), or when a look-up of a kept entry raises -/
def interconnectsC (C : NNet) (tl : PinIdx) (df : DelayFile) : Option Arr :=
  match icEntries df with
  | none => none
  | some es =>
    let live := es.filter fun e => !(icSkip (norm e.r) (norm e.f))
    if live.all fun e => slashOK e.a && slashOK e.b && icLookE C tl e != .raise then interconnects (icLineOf C tl) df
    else none

end KV.Sdf
