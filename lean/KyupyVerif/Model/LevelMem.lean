import KyupyVerif.Model.MapCert
/-! Boolean footprint conditions on the rows of one level under a memory map (`c_locs` / `c_caps`), MODULO the scratch
slots: every gate with an unconnected output writes the scratch slot `tmp_idx` (sim.py:198), so two such rows of one level
write the same region — which no row ever reads. The conditions below are what makes every thread order of a level leave the
same memory OUTSIDE the scratch regions (C07 `level_threads_any_order`); they follow from the map certificate
(`Proofs/LevelMem.lean: levelsIndepB_of_check`) and are also evaluated on the real tables by the driver command `opsindep`. -/
namespace KV.WaveIO

/-- the regions `[loc i, loc i + cap i)` and `[loc j, loc j + cap j)` do not meet -/
def disjointB (loc : Nat → Int) (cap : Nat → Nat) (i j : Nat) : Bool :=
  decide (loc i + (cap i : Int) ≤ loc j) || decide (loc j + (cap j : Int) ≤ loc i)

/-- index of a scratch slot -/
def isScr (t1 t2 i : Nat) : Bool := i == t1 || i == t2

/-- no operand region of the row meets a scratch region (no row reads scratch memory) -/
def rowScrFreeB (loc : Nat → Int) (cap : Nat → Nat) (t1 t2 : Nat) (o : OpRow) : Bool :=
  o.ins.all fun i => disjointB loc cap i t1 && disjointB loc cap i t2

/-- row `a` does not disturb row `b`, modulo scratch: `a` writes a scratch slot, or its output region is disjoint from every
    operand region of `b` and (unless `b` writes a scratch slot) from the output region of `b` -/
def rowAwayB (loc : Nat → Int) (cap : Nat → Nat) (t1 t2 : Nat) (a b : OpRow) : Bool :=
  isScr t1 t2 a.out ||
    (b.ins.all (fun i => disjointB loc cap a.out i) && (isScr t1 t2 b.out || disjointB loc cap a.out b.out))

/-- two rows of one level are footprint-independent modulo the scratch slots -/
def pairIndepJB (loc : Nat → Int) (cap : Nat → Nat) (t1 t2 : Nat) (a b : OpRow) : Bool :=
  rowAwayB loc cap t1 t2 a b && rowAwayB loc cap t1 t2 b a

end KV.WaveIO

namespace KV.MapIn
open KV.WaveIO

/-- **the whole table**: no row reads scratch memory, and any two different rows of the same level are footprint-independent
    modulo the scratch slots (`level_starts`, `c_locs`, `c_caps`, `tmp_idx`, `tmp2_idx` of the record) -/
def levelsIndepB (p : MapIn) : Bool :=
  p.opsIdx.all fun (a, k1) =>
    rowScrFreeB p.loc p.cap p.ix.tmp p.ix.tmp2 a &&
    p.opsIdx.all fun (b, k2) =>
      k1 == k2 || p.levelOf k1 != p.levelOf k2 || pairIndepJB p.loc p.cap p.ix.tmp p.ix.tmp2 a b

/-- the rows `opStart … opStop - 1` lie in one level of `level_starts` -/
def oneLevelB (p : MapIn) (opStart opStop : Nat) : Bool :=
  (List.range (opStop - opStart)).all fun y => p.levelOf (opStart + y) == p.levelOf opStart

/-- number of levels that hold at least two scratch writers (statistics for the harness) -/
def scratchClashLevels (p : MapIn) : Nat :=
  ((List.range (p.nLevels + 1)).filter fun L =>
    decide (2 ≤ (p.opsIdx.filter fun (a, k) => p.levelOf k == L && p.isJunk a.out).length)).length

end KV.MapIn
