/-! # A small model of lark's contextual lexer (shared by the SDF / DEF / STIL text models)

`Lark(GRAMMAR, parser="lalr")` uses the *contextual* lexer: every LALR state has its own scanner that knows only the
terminals the state can act on plus the `%ignore`d ones.  A scanner tries its terminals **in a fixed order** (priority,
then maximal width, then length of the pattern, then name — the order is read off the real `Lark` object and written
down in the text models as explicit lists) and takes the **first terminal whose regular expression matches** at the
current position (`re.match` of one big alternation: ordered choice, not longest match); ignored terminals are dropped
and scanning continues.  At the end of the text the parser receives `$END`.

This file has the scanner engine over `List Char`: terminals are values of some type `τ`, a `Lex τ` says how one
terminal matches (`run`) and which terminals are ignored.  The regular expressions themselves are hand-compiled into
the matchers below (`lit`, `plus`, …) in the text models; each matcher documents the expression it stands for.
Only core Lean. -/
namespace KV.TextLex

/-- a terminal matcher: `some (token text, rest)` when the terminal's regular expression matches a prefix -/
abbrev Matcher := List Char → Option (List Char × List Char)

/-- `stripPrefix k cs = some r` iff `cs = k ++ r` -/
def stripPrefix : List Char → List Char → Option (List Char)
  | [], cs => some cs
  | _ :: _, [] => none
  | k :: ks, c :: cs => if k = c then stripPrefix ks cs else none

/-- a string literal terminal -/
def lit (k : List Char) : Matcher := fun cs => (stripPrefix k cs).map fun r => (k, r)

/-- longest prefix whose characters satisfy `p`, and the rest (`List.span`, spelled out for the proofs) -/
def spanP (p : Char → Bool) : List Char → List Char × List Char
  | [] => ([], [])
  | c :: cs => if p c then (c :: (spanP p cs).1, (spanP p cs).2) else ([], c :: cs)

/-- `[class]+` -/
def plus (p : Char → Bool) : Matcher := fun cs =>
  match spanP p cs with
  | ([], _) => none
  | (t, r) => some (t, r)

/-- a single character -/
def chr (k : Char) : Matcher
  | c :: cs => if c = k then some ([k], cs) else none
  | [] => none

/-- `open [^close]+ close` (an alternative of lark terminals such as `"\"" /[^"]+/ "\""`): the token keeps both
delimiters.  The greedy `[^close]+` stops at the first `close`; if there is none, or nothing in between, no
backtracking position matches either. -/
def delimited (o c : Char) : Matcher
  | x :: cs =>
    if x = o then
      match spanP (· ≠ c) cs with
      | ([], _) => none
      | (t, y :: r) => if y = c then some (o :: (t ++ [c]), r) else none
      | (_, []) => none
    else none
  | [] => none

structure Lex (τ : Type) where
  run : τ → Matcher
  ign : τ → Bool

/-- the first terminal of the state's list that matches -/
def first (L : Lex τ) : List τ → List Char → Option (τ × List Char × List Char)
  | [], _ => none
  | t :: ts, cs =>
    match L.run t cs with
    | some (tok, r) => some (t, tok, r)
    | none => first L ts cs

inductive Tok (τ : Type)
  | eof
  | tok (t : τ) (text : List Char)
deriving Repr, DecidableEq

/-- next non-ignored token in a state with terminal list `ts`; `none` = `UnexpectedCharacters`.
(An ignored match that consumes nothing cannot happen with the matchers used; it would end in `none`.) -/
def nextF (L : Lex τ) (ts : List τ) : Nat → List Char → Option (Tok τ × List Char)
  | _, [] => some (.eof, [])
  | 0, _ :: _ => none
  | n + 1, c :: cs =>
    match first L ts (c :: cs) with
    | none => none
    | some (t, tok, r) =>
      if L.ign t then (if r.length < (c :: cs).length then nextF L ts n r else none)
      else some (.tok t tok, r)

def next (L : Lex τ) (ts : List τ) (cs : List Char) : Option (Tok τ × List Char) := nextF L ts cs.length cs

end KV.TextLex
