import KyupyVerif.Model.Transform
/-! Executable model of `Circuit.substitute` (circuit.py, with `Line.remove` and `remove_dangling_nodes(…, only=…)`) on the
level of the canonical netlist dump: inputs = dump of the host circuit, index of the cell, dump of the implementation
circuit (with its port list); output = dump of the host afterwards, `none` where the real code raises.

A Python object reference is the index it prints as.  `IndexList.__delitem__` moves the last object into the hole, so
every deletion renames the references that are still pending in local variables of the real code (`node_in_lines`,
`node_out_lines`, `dangling`, `own_nodes`, the recursion stack of `remove_dangling_nodes`): the renamings are explicit
here.  A reference to a removed node is `none` (`n.circuit is None`). -/
namespace KV.Transform
open KV

def isSeqKind (k : String) : Bool := hasSub "dff" k.toLower || hasSub "latch" k.toLower

/-! ### `Line.remove()` (circuit.py:173-188) -/
/-- `for i, l in enumerate(self.driver.outs): l.driver_pin = i` -/
def renumberDpins (lines : Array LineD) : List (Option Nat) → Nat → Array LineD
  | [], _ => lines
  | none :: rest, k => renumberDpins lines rest (k + 1)          -- not reached: a `None` entry raises
  | some l :: rest, k => renumberDpins (lines.modify l fun ln => { ln with dpin := k }) rest (k + 1)

/-- `self.driver.outs[self.driver_pin] = None`, and for a fork: `del outs[pin]` + renumbering (`None.driver_pin` raises) -/
def detachDriver (net : Net) (l : Nat) : Option Net :=
  let ln := net.line l
  let d := net.node ln.driver
  let outs1 := growSet d.outs ln.dpin none
  if d.isFork then
    let outs2 := outs1.eraseIdx ln.dpin
    if outs2.any (·.isNone) then none else
    some { net with nodes := net.nodes.modify ln.driver fun n => { n with outs := outs2 }
                    lines := renumberDpins net.lines outs2 0 }
  else some { net with nodes := net.nodes.modify ln.driver fun n => { n with outs := outs1 } }

/-- `clearReader = false` models `ll.reader = None; ll.remove()` and the removal of a line whose reader object is
    already out of the circuit -/
def removeLine (clearReader : Bool) (net : Net) (l : Nat) : Option Net :=
  (detachDriver net l).map fun net1 =>
    let ln := net1.line l
    let net2 := if clearReader then
        { net1 with nodes := net1.nodes.modify ln.reader fun n => { n with ins := growSet n.ins ln.rpin none } }
      else net1
    delLine net2 l

/-- renaming of a pending line reference by `del c.lines[l]` in a circuit with `size` lines -/
def mvLine (size l : Nat) (o : Option Nat) : Option Nat := if o == some (size - 1) then some l else o

/-- `for l in lines: l.remove()`; `ren` = renaming accumulated by the deletions so far -/
def removeLines (ren : Option Nat → Option Nat) : List Nat → Net → Option Net
  | [], net => some net
  | l0 :: rest, net =>
    match ren (some l0) with
    | none => none
    | some l =>
      match removeLine true net l with
      | none => none
      | some net' => removeLines (fun o => mvLine net.lines.size l (ren o)) rest net'

/-! ### `remove_dangling_nodes(root, only)` (circuit.py:336-349) as a depth-first loop with an explicit stack -/
/-- renaming of a pending node reference by `del c.nodes[root]` in a circuit with `size` nodes -/
def mvNode (size root : Nat) (o : Option Nat) : Option Nat :=
  if o == some root then none else if o == some (size - 1) then some root else o

def removeDangling : Nat → NNet → List Nat → List (Option Nat) → Option NNet
  | 0, _, _, _ => none
  | _ + 1, nn, _, [] => some nn
  | fuel + 1, nn, own, none :: rest => removeDangling fuel nn own rest            -- removed meanwhile: nothing happens
  | fuel + 1, nn, own, some root :: rest =>
    let n := nn.net.node root
    if n.outs.any (·.isSome) then removeDangling fuel nn own rest
    else if nn.net.io.contains root then removeDangling fuel nn own rest
    else if isSeqKind n.kind then removeDangling fuel nn own rest
    else if !(own.contains root) then removeDangling fuel nn own rest
    else
      let lines := n.ins.filterMap id
      let drivers := lines.map fun l => some (nn.net.line l).driver
      -- `root.remove()` and `for l in lines: l.remove()` act on different index spaces: lines first here
      match removeLines id lines nn.net with
      | none => none
      | some net' =>
        let rn := mvNode nn.net.nodes.size root
        removeDangling fuel (delNode { nn with net := net' } root) (own.filterMap fun x => rn (some x))
          (drivers.map rn ++ rest.map rn)

/-! ### `substitute(node, impl)` (circuit.py:373-446) -/
/-- `while n.kind == '__fork__' and n not in ios: n = n.ins[0].driver` -/
def walkDesignated (m : NNet) : Nat → Nat → Option Nat
  | 0, _ => none                                                 -- a cycle of forks: the real code does not terminate
  | fuel + 1, n =>
    if (m.net.node n).isFork && !(m.net.io.contains n) then
      match (m.net.node n).ins.head? with
      | some (some l) => walkDesignated m fuel (m.net.line l).driver
      | _ => none                                                -- IndexError / AttributeError
    else some n

structure Shape where
  inPorts : List Nat
  outPorts : List Nat
  outLines : List Nat
  des : Option Nat
deriving Repr

/-- the first statements: ports of the implementation, its output lines, the designated cell.  When the walk from the
    first output ends at a PORT of the implementation (feed-through cell `input A -> fork -> output X`) the implementation
    has no designated cell (repair of D32: a port cannot stand for the instance, its line into the implementation is
    replaced by the instance's own line) -/
def implShape (m : NNet) : Option Shape :=
  let inPorts := m.net.io.filter fun p => (m.net.node p).ins.length == 0
  let outPorts := m.net.io.filter fun p => (m.net.node p).ins.length != 0
  let outL := outPorts.map fun p => (m.net.node p).inPin 0
  if outL.any (·.isNone) then none else                          -- `None.driver` / `None.reader` raises
  let outLines := outL.filterMap id
  let d0 : Option (Option Nat) := match outLines.head? with
    | none => some none
    | some l0 => (walkDesignated m (m.net.nodes.size + 1) (m.net.line l0).driver).map fun n =>
        if m.net.io.contains n then none else some n             -- `None if n in ios else n` (repair of D32)
  match d0 with
  | none => none
  | some d0 =>
    let seq := (List.range m.net.nodes.size).find? fun j => isSeqKind (m.net.node j).kind
    some { inPorts := inPorts, outPorts := outPorts, outLines := outLines, des := if seq.isSome then seq else d0 }

/-- `Node(self, name, kind)` with its assertion -/
def addNode (h : NNet) (name kind : String) : Option NNet :=
  if h.keys.contains (name, kind == "__fork__") then none
  else some { net := { h.net with nodes := h.net.nodes.push ⟨kind, [], []⟩ }, names := h.names.push name }

/-- the loop `for n in impl.nodes` — `st` = host and `node_map` (implementation index ↦ host index) -/
def addImplNode (m : NNet) (hostName : String) (des : Option Nat) (st : NNet × Array (Option Nat)) (j : Nat) :
    Option (NNet × Array (Option Nat)) :=
  let n := m.net.node j
  let name := hostName ++ "~" ++ m.names.getD j ""
  let add (kind : String) := (addNode st.1 name kind).map fun h' => (h', st.2.setIfInBounds j (some st.1.net.nodes.size))
  if !(m.net.io.contains j) then
    if des != some j then add n.kind else some st
  else if n.outs.length > 0 && n.ins.length > 0 then add "__fork__"
  else if n.ins.length == 0 && n.outs.length > 1 then add "__fork__"
  else some st

/-- kind and name of the node the loop adds for implementation node `j` -/
def addedOne (m : NNet) (hostName : String) (des : Option Nat) (j : Nat) : Option (String × String) :=
  let n := m.net.node j
  let name := hostName ++ "~" ++ m.names.getD j ""
  if !(m.net.io.contains j) then (if des != some j then some (n.kind, name) else none)
  else if n.outs.length > 0 && n.ins.length > 0 then some ("__fork__", name)
  else if n.ins.length == 0 && n.outs.length > 1 then some ("__fork__", name)
  else none
/-- (kind, name) of the nodes `substitute` adds to the host, in index order -/
def addedKN (m : NNet) (hostName : String) (des : Option Nat) : List (String × String) :=
  (List.range m.net.nodes.size).filterMap (addedOne m hostName des)

/-- `for l in impl.lines: if l.reader in node_map and l.driver in node_map: Line(...)` -/
def addImplLine (map : Array (Option Nat)) (st : Array NodeD × Array LineD) (ln : LineD) : Array NodeD × Array LineD :=
  match map.getD ln.driver none, map.getD ln.reader none with
  | some d, some r => addLine st d ln.dpin r ln.rpin
  | _, _ => st

/-- `ll.reader = r; ll.reader_pin = rp; r.ins[rp] = ll` -/
def setReader (net : Net) (ll r rp : Nat) : Net :=
  { net with lines := net.lines.modify ll fun ln => { ln with reader := r, rpin := rp }
             nodes := net.nodes.modify r fun n => { n with ins := growSet n.ins rp (some ll) } }
/-- `ll.driver = d; ll.driver_pin = dp; d.outs[dp] = ll` -/
def setDriver (net : Net) (ll d dp : Nat) : Net :=
  { net with lines := net.lines.modify ll fun ln => { ln with driver := d, dpin := dp }
             nodes := net.nodes.modify d fun n => { n with outs := growSet n.outs dp (some ll) } }

/-- where the host line at the instance pin of implementation input port `inn` is connected: to the reader (node, pin)
    of the port's only line, or to pin 0 of the fork made for a port with several readers; `none` = `KeyError` -/
def inTarget (m : NNet) (map : Array (Option Nat)) (inn : Nat) : Option (Nat × Nat) :=
  let outs := (m.net.node inn).outs
  if outs.length == 1 then
    match outs.head? with
    | some (some l) => (map.getD (m.net.line l).reader none).map fun r => (r, (m.net.line l).rpin)
    | _ => none
  else (map.getD inn none).map fun r => (r, 0)

/-- where the host line at the instance pin of the implementation output with line `l` is driven from: the next free
    output of the fork made for an output port that is read internally, or the (node, pin) driving `l` -/
def outTarget (m : NNet) (map : Array (Option Nat)) (l : Nat) : Option (Nat × Nat) :=
  let rd := (m.net.line l).reader
  if (m.net.node rd).outs.length > 0 then (map.getD rd none).map fun d => (d, (m.net.node rd).outs.length)
  else (map.getD (m.net.line l).driver none).map fun d => (d, (m.net.line l).dpin)

/-- the loop `for inn, ll in zip(impl_in_nodes, node_in_lines)`; the state carries the renaming of the pending line
    references caused by removed lines -/
def connectIns (m : NNet) (map : Array (Option Nat)) :
    List (Nat × Option Nat) → Net × (Option Nat → Option Nat) → Option (Net × (Option Nat → Option Nat))
  | [], st => some st
  | (inn, o) :: rest, (net, ren) =>
    match ren o with
    | none => connectIns m map rest (net, ren)                   -- `if ll is None: continue`
    | some ll =>
      if (m.net.node inn).outs.length == 0 then                  -- ignored input: `ll.reader = None; ll.remove()`
        match removeLine false net ll with
        | none => none
        | some net' => connectIns m map rest (net', fun o => mvLine net.lines.size ll (ren o))
      else
        match inTarget m map inn with
        | none => none                                           -- KeyError
        | some (r, rp) => connectIns m map rest (setReader net ll r rp, ren)

/-- the loop `for l, ll in zip(impl_out_lines, node_out_lines)`; returns the circuit and `dangling` -/
def connectOuts (m : NNet) (map : Array (Option Nat)) :
    List (Nat × Option Nat) → Net × List (Option Nat) → Option (Net × List (Option Nat))
  | [], st => some st
  | (l, none) :: rest, (net, dang) =>
    connectOuts m map rest (net, match map.getD (m.net.line l).driver none with | some x => dang ++ [some x] | none => dang)
  | (l, some ll) :: rest, (net, dang) =>
    match outTarget m map l with
    | none => none                                               -- KeyError
    | some (d, dp) => connectOuts m map rest (setDriver net ll d dp, dang)

def padTo (l : List (Option Nat)) (n : Nat) : List (Option Nat) := l ++ List.replicate (n - l.length) none

/-- `designated_cell is not None`: the host cell takes kind (and role) of the designated cell, pins cleared;
    otherwise `node.remove()`.  Second component: the initial `node_map` -/
def phase1 (h : NNet) (c : Nat) (m : NNet) (des : Option Nat) : NNet × Array (Option Nat) :=
  let map0 : Array (Option Nat) := Array.replicate m.net.nodes.size none
  match des with
  | some dn => ({ h with net := { h.net with nodes := h.net.nodes.modify c fun _ => ⟨(m.net.node dn).kind, [], []⟩ } },
                map0.setIfInBounds dn (some c))
  | none => (delNode h c, map0)

/-- all internal lines of the implementation added to the host -/
def phase3 (m : NNet) (map : Array (Option Nat)) (h2 : NNet) : Net :=
  let st := m.net.lines.toList.foldl (addImplLine map) (h2.net.nodes, h2.net.lines)
  { h2.net with nodes := st.1, lines := st.2 }

/-- everything before the removal of dangling logic: the circuit, `node_map`, `dangling` -/
def substituteCore (h : NNet) (c : Nat) (m : NNet) : Option (NNet × Array (Option Nat) × List (Option Nat)) :=
  match implShape m with
  | none => none
  | some sh =>
    let node := h.net.node c
    if node.ins.length > sh.inPorts.length || node.outs.length > sh.outLines.length then none else   -- the two asserts
    match (List.range m.net.nodes.size).foldlM (addImplNode m (h.names.getD c "") sh.des) (phase1 h c m sh.des) with
    | none => none
    | some (h2, map) =>
      match connectIns m map (sh.inPorts.zip (padTo node.ins sh.inPorts.length)) (phase3 m map h2, id) with
      | none => none
      | some (net4, ren) =>
        match connectOuts m map (sh.outLines.zip ((padTo node.outs sh.outLines.length).map ren)) (net4, []) with
        | none => none
        | some (net5, dang) => some ({ h2 with net := net5 }, map, dang)

/-- regular use of `substitute` (the case of the docstring: "usually, it only adds additional nodes and lines"): the
    implementation has a designated cell, every connected input pin of the instance belongs to an input port of the
    implementation that has a reader, and every output of the implementation is connected at the instance -/
def regularB (h : NNet) (c : Nat) (m : NNet) : Bool :=
  match implShape m with
  | none => false
  | some sh =>
    sh.des.isSome &&
    ((sh.inPorts.zip (padTo (h.net.node c).ins sh.inPorts.length)).all fun p =>
      !p.2.isSome || !((m.net.node p.1).outs.length == 0)) &&
    (h.net.node c).outs.length == sh.outLines.length && (h.net.node c).outs.all (·.isSome)

/-- one iteration of the loop that makes the outputs of the copied forks dense again (an unconnected output pin of the
    instance may leave a `None` gap): `if n.kind == '__fork__' and any(l is None for l in n.outs): n.outs = [l for l in
    n.outs if l is not None]; for i, l in enumerate(n.outs): l.driver_pin = i` -/
def densifyNode (net : Net) (v : Nat) : Net :=
  if (net.node v).isFork && (net.node v).outs.any (·.isNone) then
    let outs2 : List (Option Nat) := ((net.node v).outs.filterMap id).map some
    { net with nodes := net.nodes.modify v fun n => { n with outs := outs2 }
               lines := renumberDpins net.lines outs2 0 }
  else net

/-- `for n in node_map.values(): ...` (each iteration touches one node and the lines it drives, so the order of the values
    does not matter for the result) -/
def densify (net : Net) (map : Array (Option Nat)) : Net := (map.toList.filterMap id).foldl densifyNode net

/-- some copied fork has a gap after the connecting loops -/
def needsDensify (net : Net) (map : Array (Option Nat)) : Bool :=
  (map.toList.filterMap id).any fun v => (net.node v).isFork && (net.node v).outs.any (·.isNone)

/-- no copied fork has a gap after the connecting loops (then the loop above changes nothing): true whenever the forks of
    the implementation are gap-free and every output pin of the instance is connected -/
def denseB (h : NNet) (c : Nat) (m : NNet) : Bool :=
  match substituteCore h c m with
  | some (h5, map, _) => !(needsDensify h5.net map)
  | none => true

def substitute (h : NNet) (c : Nat) (m : NNet) : Option NNet :=
  match substituteCore h c m with
  | none => none
  | some (h5, map, dang) =>
    removeDangling (dang.length + h5.net.lines.size + 1) { h5 with net := densify h5.net map } (map.toList.filterMap id) dang

/-! ### `resolve_tlib_cells(tlib)` (circuit.py:448-455) -/
/-- `tlib.cells`: kind ↦ implementation circuit -/
abbrev Lib := List (String × NNet)
def Lib.find (lib : Lib) (kind : String) : Option NNet := (lib.find? fun e => e.1 == kind).map (·.2)

/-- one iteration of `for n in list(self.nodes)`: the node object of the snapshot is found again by its (name, class)
    (indices move when a substitution removes nodes; a substitution never removes a node of the snapshot other than the
    substituted cell itself) -/
def resolveStep (lib : Lib) (cur : NNet) (key : String × Bool) : Option NNet :=
  let i := cur.lookup key
  if i < cur.net.nodes.size then
    match lib.find (cur.net.node i).kind with                    -- `if n.kind in tlib.cells`
    | some impl => substitute cur i impl
    | none => some cur
  else some cur

def resolveCells (lib : Lib) (h : NNet) : Option NNet := h.keys.foldlM (resolveStep lib) h

end KV.Transform
