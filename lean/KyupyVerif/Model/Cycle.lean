import KyupyVerif.Model.SimOps
import KyupyVerif.Model.Sig
import KyupyVerif.Model.MapCert
/-! Hand model (M) of `LogicSim`'s state handling around `c_prop` (logic_sim.py: `s_to_c`, `c_to_s`, `s_ppo_to_ppi`,
`cycle`) and of the index tables `pi/po/ppio/pippi/poppo_s_locs` that `SimOps.__init__` derives (sim.py, last block).

SIGNAL level: the combinational memory `c` is seen as an environment `Nat → α` over the index space of `c_locs`
(lines, zero / scratch slots, (P)PI slots `ppi_offset + p`, (P)PO slots `ppo_offset + p`); the (P)PO slot of position `p` IS
the captured signal (the line on data pin 0, its stem under `strip_forks`; the constant-0 slot for a flip-flop / latch
without data connection — the D9 repair), because `c_locs[ppo_offset + p]` is a copy of that signal's location.
The generic value domain `α` is one lane of `s[·, p, :mdim]` (m = 2: `Bool`, m = 4: `V2`, m = 8: `V3`); lanes are
independent (C01 `sim2_lanes`, C06 lanes). `merge` is what `s_ppo_to_ppi` makes of (old `s[0]`, captured `s[1]`):
the captured value for m ∈ {2, 4}, the constructed transition for m = 8.

Tied to the code by exact correspondence (harness/c01.py `cycle_tie`): tables vs the real `*_s_locs`, and `s[0]`, `s[1]` of
the real `LogicSim.cycle(k)` vs `cycleKA` (the array form below, proved equal to `cycleK` in Proofs/Cycle.lean). -/
namespace KV.Cycle
open KV KV.Sig

/-- `s[0]` (assigned values) and `s[1]` (captured values), one entry per `s_nodes` position -/
structure S (α : Type) where
  s0 : List α
  s1 : List α

/-- index tables: parallel arrays as pairs (`s_nodes` position, index into the `c_locs` space) -/
structure Tabs where
  ppi : Nat                     -- ppi_offset
  ppo : Nat                     -- ppo_offset
  pippi : List (Nat × Nat)      -- pippi_s_locs zipped with the signal of pippi_c_locs: (p, ppi_offset + p), slots with memory only
  poppo : List (Nat × Nat)      -- poppo_s_locs zipped with the signal of poppo_c_locs: (p, captured signal)
  ppio : List Nat               -- ppio_s_locs
deriving Repr, DecidableEq

/-- node at `s_nodes` position `p` -/
def sNodeAt (net : Net) (p : Nat) : NodeD := net.node (net.sNodes.getD p 0)

/-- the signal whose memory `c_locs[ppo_offset + p]` copies (sim.py: "copy memory location to PO/PPO area"):
    data pin 0 (through the stem table), the constant-0 slot when the pin is open -/
def capSigW (net : Net) (st : Array (Option Nat)) (p : Nat) : Nat :=
  match (sNodeAt net p).inPin 0 with
  | some l => viaStem st l
  | none => net.idx.zero
def capSig (net : Net) (strip : Bool) (p : Nat) : Nat := capSigW net (stemsOf net strip) p

/-- `pi_s_locs`: port positions whose (P)PI slot exists (`len(n.outs) > 0`) -/
def piS (net : Net) : List Nat := (List.range net.io.length).filter fun p => (sNodeAt net p).outs.length > 0
/-- `po_s_locs`: port positions whose (P)PO slot exists (data pin 0 connected) -/
def poS (net : Net) : List Nat := (List.range net.io.length).filter fun p => ((sNodeAt net p).inPin 0).isSome
/-- `ppio_s_locs = arange(len(io_nodes), s_len)`: every flip-flop and latch -/
def ppioS (net : Net) : List Nat := List.range' net.io.length (net.sNodes.length - net.io.length)
/-- the state elements `s_to_c` assigns: those whose (P)PI slot has memory (`c_locs[ppi_offset + p] >= 0`, i.e. `len(n.outs) > 0`);
    a flip-flop / latch without output pin list has none and is skipped (sim.py, fix 7a998c8: before, `s_to_c` stored through -1) -/
def ppiUsedS (net : Net) : List Nat := (ppioS net).filter fun p => (sNodeAt net p).outs.length > 0

def tabsOf (net : Net) (strip : Bool) : Tabs :=
  let ix := net.idx
  let st := stemsOf net strip
  let ppio := ppioS net
  { ppi := ix.ppi, ppo := ix.ppo,
    pippi := (piS net ++ ppiUsedS net).map fun p => (p, ix.ppi + p),
    poppo := (poS net ++ ppio).map fun p => (p, capSigW net st p),
    ppio := ppio }

/-- the op rows at signal level: operands resolved to the signal whose memory they read (`strip_forks`: a fan-out branch
    reads its stem; without stripping every index is its own signal) -/
def sigOps (tbl : List PrefixRow) (net : Net) (order : List Nat) (strip : Bool) : List Op :=
  let st := stemsOf net strip
  (genOps tbl net order strip).map fun r => ⟨r.lut, r.out, [viaStem st r.i0, viaStem st r.i1, viaStem st r.i2, viaStem st r.i3]⟩

/-! ### the four steps (logic_sim.py) at signal level -/

/-- `s_to_c`: `c[pippi_c_locs] = s[0, pippi_s_locs]` -/
def sToC {α} (T : Tabs) (d : α) (s0 : List α) (env : Nat → α) : Nat → α :=
  T.pippi.foldl (fun e px => upd e px.2 (s0.getD px.1 d)) env

/-- `c_to_s`: `s[1, poppo_s_locs] = c[poppo_c_locs]` -/
def cToS {α} (T : Tabs) (env : Nat → α) (s1 : List α) : List α :=
  T.poppo.foldl (fun s px => s.set px.1 (env px.2)) s1

/-- `s_ppo_to_ppi`: `s[0, ppio_s_locs] = merge(s[0, ppio_s_locs], s[1, ppio_s_locs])` (right-hand side read before writing) -/
def ppoToPpi {α} (T : Tabs) (merge : α → α → α) (d : α) (s0 s1 : List α) : List α :=
  T.ppio.foldl (fun s p => s.set p (merge (s0.getD p d) (s1.getD p d))) s0

/-- simulator state: memory (as signals) and the `s` array -/
structure St (α : Type) where
  env : Nat → α
  s : S α

/-- one pass of the loop body of `LogicSim.cycle`: `s_to_c(); c_prop(); c_to_s(); s_ppo_to_ppi()` -/
def cycle1 {α} (sem : Op → List α → α) (ops : List Op) (T : Tabs) (merge : α → α → α) (d : α) (st : St α) : St α :=
  let e1 := sToC T d st.s.s0 st.env
  let e2 := execG sem ops e1
  let s1 := cToS T e2 st.s.s1
  ⟨e2, ⟨ppoToPpi T merge d st.s.s0 s1, s1⟩⟩

/-- `LogicSim.cycle(k)` -/
def cycleK {α} (sem : Op → List α → α) (ops : List Op) (T : Tabs) (merge : α → α → α) (d : α) : Nat → St α → St α
  | 0, st => st
  | k + 1, st => cycleK sem ops T merge d k (cycle1 sem ops T merge d st)

/-- what `s_ppo_to_ppi` stores for m = 2 and m = 4: the captured value -/
def mergeCopy {α} (_old new : α) : α := new

/-- k-fold iteration, first application innermost (as the loop runs) -/
def iter {β} (f : β → β) : Nat → β → β
  | 0, a => a
  | k + 1, a => iter f k (f a)

/-! ### the same on arrays (what the compiled driver runs; equal to the above by `Proofs/Cycle.lean: cycleKA_eq`) -/

structure StA (α : Type) where
  env : Array α
  s : S α

def sToCA {α} (T : Tabs) (d : α) (s0 : List α) (env : Array α) : Array α :=
  T.pippi.foldl (fun e px => e.setIfInBounds px.2 (s0.getD px.1 d)) env

def cToSA {α} (T : Tabs) (d : α) (env : Array α) (s1 : List α) : List α :=
  T.poppo.foldl (fun s px => s.set px.1 (env.getD px.2 d)) s1

def cycle1A {α} (sem : Op → List α → α) (ops : List Op) (T : Tabs) (merge : α → α → α) (d : α) (st : StA α) : StA α :=
  let e1 := sToCA T d st.s.s0 st.env
  let e2 := execArrG d sem ops e1
  let s1 := cToSA T d e2 st.s.s1
  ⟨e2, ⟨ppoToPpi T merge d st.s.s0 s1, s1⟩⟩

def cycleKA {α} (sem : Op → List α → α) (ops : List Op) (T : Tabs) (merge : α → α → α) (d : α) : Nat → StA α → StA α
  | 0, st => st
  | k + 1, st => cycleKA sem ops T merge d k (cycle1A sem ops T merge d st)

/-! ### specification side: the next-state function -/

/-- position `p` is captured by `c_to_s`: every state element; a port iff its data pin 0 is connected -/
def isPoppo (net : Net) (p : Nat) : Bool :=
  if p < net.io.length then ((sNodeAt net p).inPin 0).isSome else decide (p < net.sNodes.length)

/-- `s[1]` after a capture: captured positions hold the labelling's value at the captured signal, others keep theirs -/
def captureRow {α} (net : Net) (strip : Bool) (sol : Nat → α) (s1 : List α) : List α :=
  s1.mapIdx fun p v => if isPoppo net p then sol (capSig net strip p) else v

/-- next assignment: ports keep their value, a state element at position `p` gets `merge old (sol (captured signal))` -/
def nextRow {α} (net : Net) (strip : Bool) (merge : α → α → α) (sol : Nat → α) (a : List α) : List α :=
  a.mapIdx fun p v => if net.io.length ≤ p then merge v (sol (capSig net strip p)) else v

/-! ### decidable side conditions of the memory-level statement (C01 `cycle_on_memory`), evaluated on the real tables -/

/-- the (P)PO slot of a flip-flop / latch with open data pin is the row of the constant slot (the D9 repair, read off the table) -/
def zeroCapB (p : MapIn) : Bool :=
  (ppioS p.net).all fun q => ((sNodeAt p.net q).inPin 0).isSome || p.loc (p.ix.ppo + q) == p.loc p.ix.zero

/-- side condition of C01 `cycle_strip_irrelevant`: every captured line's driver is scheduled (`topological_order()` lists
    every node) -/
def capDriversB (net : Net) (order : List Nat) : Bool :=
  (List.range net.sNodes.length).all fun p => match (sNodeAt net p).inPin 0 with
    | some l => order.contains (net.line l).driver
    | none => true

end KV.Cycle
