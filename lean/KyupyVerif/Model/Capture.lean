import KyupyVerif.Model.WaveCirc
/-! Model of `wave_capture_cpu` / `wave_capture_gpu` for `sd = 0` (wave_sim.py:284-326, 445-501):
scan the waveform up to its terminator. -/
namespace KV.Wave

structure Cap where
  init : Bool     -- s[3]
  eat : T         -- s[4] earliest arrival (tmax if none)
  lst : T         -- s[5] latest stabilisation (tmin if none)
  final : Bool    -- s[6]
  val : Bool      -- s[7]/s[8] value captured at `time`
  ovl : Bool      -- s[10]
deriving DecidableEq, Repr

structure CapSt where
  eat : T
  lst : T
  final : Bool
  val : Bool

/-- one iteration of the scan loop for an entry before the terminator -/
def capStep (time : T) (s : CapSt) (t : T) : CapSt :=
  let final' := !s.final
  let val' := if T.lt t time then !s.val else s.val
  if t = T.tmin then { s with final := final', val := val' }
  else { eat := T.min s.eat t, lst := T.max s.lst t, final := final', val := val' }

def captureWv (w : Wv) (time : T) : Cap :=
  let s := w.ents.foldl (capStep time) { eat := T.tmax, lst := T.tmin, final := false, val := false }
  { init := w.ents.head? == some T.tmin, eat := s.eat, lst := s.lst, final := s.final, val := s.val,
    ovl := w.term == T.tovl }

end KV.Wave
