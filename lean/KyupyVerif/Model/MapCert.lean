import KyupyVerif.Model.SimOps
/-! Certificate checker (K) for a signal-memory map: given the op program with its level partition, the
location/capacity tables and the circuit (for the alias specification), decide that no two simultaneously
live signals overlap, pinned signals stay intact, aliases are exact and everything is inside the
reported size. Policy independent: any valid map passes, whichever allocator produced it. -/
namespace KV

structure MapIn where
  net : Net
  strip : Bool
  ops : List OpRow
  starts : List Nat          -- level_starts
  locs : Array Int
  caps : Array Nat
  cLen : Nat
  capsMin : Nat

namespace MapIn

def nLevels (p : MapIn) : Nat := p.starts.length
/-- level (1-based) of op number `k` -/
def levelOf (p : MapIn) (k : Nat) : Nat := (p.starts.filter (· ≤ k)).length

def ix (p : MapIn) : Idx := p.net.idx
def stems (p : MapIn) : Array (Option Nat) := stemsOf p.net p.strip
/-- the signal whose memory an index denotes: the stem for a stripped fan-out branch -/
def src (p : MapIn) (i : Nat) : Nat := viaStem p.stems i

def loc (p : MapIn) (i : Nat) : Int := p.locs.getD i (-1)
def cap (p : MapIn) (i : Nat) : Nat := p.caps.getD i 0

def isJunk (p : MapIn) (i : Nat) : Bool := i == p.ix.tmp || i == p.ix.tmp2

/-- ppi slots that exist (node has outputs) -/
def ppiSlots (p : MapIn) : List Nat :=
  (p.net.sNodes.zipIdx.filter fun (n, _) => (p.net.node n).outs.length > 0).map fun (_, i) => p.ix.ppi + i
/-- lines captured by a ppo slot (through stems) -/
def ppoSrcs (p : MapIn) : List (Nat × Nat) :=   -- (ppo index, captured signal)
  p.net.sNodes.zipIdx.filterMap fun (n, i) => ((p.net.node n).inPin 0).map fun l => (p.ix.ppo + i, p.src l)

def opsIdx (p : MapIn) : List (OpRow × Nat) := p.ops.zipIdx

/-- tracked signals: written by an op (not scratch), or an input slot, or the zero slot -/
def tracked (p : MapIn) : List Nat :=
  ((p.ops.map (·.out)).filter (fun o => !p.isJunk o)) ++ p.ppiSlots ++ [p.ix.zero]

def dfn (p : MapIn) (x : Nat) : Nat :=
  match p.opsIdx.find? (fun (o, _) => o.out == x) with
  | some (_, k) => p.levelOf k
  | none => 0

def INF : Nat := 1000000000

def pinned (p : MapIn) (x : Nat) : Bool :=
  x == p.ix.zero || p.ppiSlots.contains x || (p.ppoSrcs.map (·.2)).contains x

def last (p : MapIn) (x : Nat) : Nat :=
  if p.pinned x then INF else
  (p.opsIdx.filter (fun (o, _) => (o.ins.map p.src).contains x)).foldl (fun m (_, k) => Nat.max m (p.levelOf k)) (p.dfn x)

def overlap (p : MapIn) (x y : Nat) : Bool :=
  let a := p.loc x; let b := p.loc y
  a < b + (p.cap y : Int) && b < a + (p.cap x : Int)

def inBounds (p : MapIn) (x : Nat) : Bool :=
  0 ≤ p.loc x && p.loc x + (p.cap x : Int) ≤ (p.cLen : Int) && p.capsMin ≤ p.cap x

/-- every check, with the name of the first failing one (for diagnostics) -/
def check (p : MapIn) : Option String :=
  let tr := p.tracked
  let outsNJ := (p.ops.map (·.out)).filter (fun o => !p.isJunk o)
  if !(tr.all p.inBounds && [p.ix.tmp, p.ix.tmp2].all p.inBounds) then some "bounds"
  else if !(outsNJ.eraseDups.length == outsNJ.length) then some "signal written twice"
  else if !(p.opsIdx.all fun (o, k) => o.ins.all fun i =>
      let s := p.src i
      (tr.contains s) && p.dfn s < p.levelOf k && !(p.isJunk s)) then some "operand not produced in an earlier level"
  else if !(p.opsIdx.all fun (o, _) => o.ins.all fun i =>
      p.loc i == p.loc (p.src i) && p.cap i == p.cap (p.src i)) then some "alias of a stripped branch is not exact"
  else if !(p.ppoSrcs.all fun (j, s) => p.loc j == p.loc s && p.cap j == p.cap s && tr.contains s) then some "output slot alias is not exact"
  else if !(tr.all fun x => tr.all fun y => x == y || !(p.overlap x y) || p.last x < p.dfn y || p.last y < p.dfn x) then some "live signals overlap"
  else if !(tr.all fun x => !(p.overlap x p.ix.tmp) && !(p.overlap x p.ix.tmp2)) || p.overlap p.ix.tmp p.ix.tmp2 then some "scratch slot overlaps a signal"
  else none

def ok (p : MapIn) : Bool := p.check.isNone

end MapIn
end KV
