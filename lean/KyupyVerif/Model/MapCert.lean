import KyupyVerif.Model.SimOps
import KyupyVerif.Model.Sig
/-! Certificate checker (K) for a signal-memory map: given the op program with its level partition, the
location/capacity tables and the circuit (for the alias specification), decide that no two simultaneously
live signals overlap, pinned signals stay intact, aliases are exact and everything is inside the
reported size. Policy independent: any valid map passes, whichever allocator produced it. -/
namespace KV

structure MapIn where
  net : Net
  strip : Bool
  ops : List OpRow
  starts : List Nat          -- level_starts
  locs : Array Int
  caps : Array Nat
  cLen : Nat
  capsMin : Nat

namespace MapIn

def nLevels (p : MapIn) : Nat := p.starts.length
/-- level (1-based) of op number `k` -/
def levelOf (p : MapIn) (k : Nat) : Nat := (p.starts.filter (· ≤ k)).length

def ix (p : MapIn) : Idx := p.net.idx
def stems (p : MapIn) : Array (Option Nat) := stemsOf p.net p.strip
/-- the signal whose memory an index denotes: the stem for a stripped fan-out branch -/
def src (p : MapIn) (i : Nat) : Nat := viaStem p.stems i

def loc (p : MapIn) (i : Nat) : Int := p.locs.getD i (-1)
def cap (p : MapIn) (i : Nat) : Nat := p.caps.getD i 0

def isJunk (p : MapIn) (i : Nat) : Bool := i == p.ix.tmp || i == p.ix.tmp2

/-- ppi slots that exist (node has outputs) -/
def ppiSlots (p : MapIn) : List Nat :=
  (p.net.sNodes.zipIdx.filter fun (n, _) => (p.net.node n).outs.length > 0).map fun (_, i) => p.ix.ppi + i
/-- lines captured by a ppo slot (through stems) -/
def ppoSrcsW (p : MapIn) (src : Nat → Nat) : List (Nat × Nat) :=   -- (ppo index, captured signal)
  p.net.sNodes.zipIdx.filterMap fun (n, i) => ((p.net.node n).inPin 0).map fun l => (p.ix.ppo + i, src l)
def ppoSrcs (p : MapIn) : List (Nat × Nat) := p.ppoSrcsW p.src

def opsIdx (p : MapIn) : List (OpRow × Nat) := p.ops.zipIdx

/-- tracked signals: written by an op (not scratch), or an input slot, or the zero slot -/
def tracked (p : MapIn) : List Nat :=
  ((p.ops.map (·.out)).filter (fun o => !p.isJunk o)) ++ p.ppiSlots ++ [p.ix.zero]

/-- level in which `x` is written (first writer), 0 for a signal no op writes -/
def dfn (p : MapIn) (x : Nat) : Nat :=
  match p.ops.findIdx? (fun o => o.out == x) with
  | some k => p.levelOf k
  | none => 0

def pinnedW (p : MapIn) (ppi ppoS : List Nat) (x : Nat) : Bool :=
  x == p.ix.zero || ppi.contains x || ppoS.contains x
def pinned (p : MapIn) (x : Nat) : Bool := p.pinnedW p.ppiSlots (p.ppoSrcs.map (·.2)) x

def lastW (p : MapIn) (src dfn : Nat → Nat) (pin : Nat → Bool) (x : Nat) : Nat :=
  if pin x then p.nLevels + 1 else
  (p.opsIdx.filter (fun ok => (ok.1.ins.map src).contains x)).foldl (fun m ok => Nat.max m (p.levelOf ok.2)) (dfn x)
def last (p : MapIn) (x : Nat) : Nat := p.lastW p.src p.dfn p.pinned x

def overlap (p : MapIn) (x y : Nat) : Bool :=
  let a := p.loc x; let b := p.loc y
  a < b + (p.cap y : Int) && b < a + (p.cap x : Int)

def inBounds (p : MapIn) (x : Nat) : Bool :=
  0 ≤ p.loc x && p.loc x + (p.cap x : Int) ≤ (p.cLen : Int) && p.capsMin ≤ p.cap x

/-- every check, with the name of the first failing one (for diagnostics); the derived tables are parameters so that
the driver can pass memoised copies (`checkFast`) -/
def checkW (p : MapIn) (src dfn last : Nat → Nat) (tr : List Nat) (ppo : List (Nat × Nat)) : Option String :=
  if !(tr.all p.inBounds && [p.ix.tmp, p.ix.tmp2].all p.inBounds) then some "bounds"
  else if !(tr.all fun x => !(p.isJunk x)) then some "scratch slot used as a signal"
  else if !(p.opsIdx.all fun (o, k) => p.isJunk o.out || p.ops.findIdx? (fun o' => o'.out == o.out) == some k) then some "signal written twice"
  else if !(p.opsIdx.all fun (o, k) => o.ins.all fun i =>
      let s := src i
      (tr.contains s) && dfn s < p.levelOf k && !(p.isJunk s)) then some "operand not produced in an earlier level"
  else if !(p.opsIdx.all fun (o, _) => o.ins.all fun i =>
      p.loc i == p.loc (src i) && p.cap i == p.cap (src i)) then some "alias of a stripped branch is not exact"
  else if !(ppo.all fun (j, s) => p.loc j == p.loc s && p.cap j == p.cap s && tr.contains s) then some "output slot alias is not exact"
  else if !(tr.all fun x => tr.all fun y => x == y || !(p.overlap x y) || last x < dfn y || last y < dfn x) then some "live signals overlap"
  else if !(tr.all fun x => !(p.overlap x p.ix.tmp) && !(p.overlap x p.ix.tmp2)) || p.overlap p.ix.tmp p.ix.tmp2 then some "scratch slot overlaps a signal"
  else none

def check (p : MapIn) : Option String := p.checkW p.src p.dfn p.last p.tracked p.ppoSrcs

/-- table of `f` on `0 … n-1` (plain data, so that compiled code computes it once) and its lookup, `f` itself beyond -/
def tbl (n : Nat) (f : Nat → Nat) : Array Nat := (List.range n).toArray.map f
def look (a : Array Nat) (n : Nat) (f : Nat → Nat) (x : Nat) : Nat := if x < n then a.getD x 0 else f x

theorem memo_eq (n : Nat) (f : Nat → Nat) : look (tbl n f) n f = f := by
  funext x
  simp only [look, tbl]
  split
  · rename_i h
    simp [Array.getD, h]
  · rfl

/-- the same checker with every derived table computed once (what the driver evaluates) -/
def checkFast (p : MapIn) : Option String :=
  let n := p.locs.size
  let srcA := tbl n p.src
  let srcF := look srcA n p.src
  let dfnA := tbl n p.dfn
  let dfnF := look dfnA n p.dfn
  let ppo := p.ppoSrcsW srcF
  let ppi := p.ppiSlots
  let ppoS := ppo.map (·.2)
  let pinA := tbl n fun x => if p.pinnedW ppi ppoS x then 1 else 0
  let pinF := look pinA n fun x => if p.pinnedW ppi ppoS x then 1 else 0
  let lastA := tbl n (p.lastW srcF dfnF fun x => pinF x == 1)
  let lastF := look lastA n (p.lastW srcF dfnF fun x => pinF x == 1)
  p.checkW srcF dfnF lastF p.tracked ppo

theorem checkFast_eq (p : MapIn) : p.checkFast = p.check := by
  simp only [checkFast, memo_eq, check, ppoSrcs]
  congr
  funext x
  unfold pinned ppoSrcs
  cases p.pinnedW p.ppiSlots (List.map (fun x => x.snd) (p.ppoSrcsW p.src)) x <;> simp

def ok (p : MapIn) : Bool := p.check.isNone

/-- certificate for an execution order `sched` (op numbers): every op number is valid, every op occurs, none twice,
and no op of a later level precedes an op of an earlier level -/
def schedOKB (p : MapIn) (sched : List Nat) : Bool :=
  sched.all (· < p.ops.length) && (List.range p.ops.length).all (sched.contains ·) && Sig.nodupB sched &&
  sched.zipIdx.all fun a => sched.zipIdx.all fun b => !(decide (a.2 ≤ b.2)) || decide (p.levelOf a.1 ≤ p.levelOf b.1)

end MapIn
end KV
