/-! Model of `Circuit._locs(prefix, nodes)` (`io_locs`, `s_locs`) of `kyupy/circuit.py`:

```python
d_top = dict()
for i, n in enumerate(nodes):
    if m := re.match(fr'({prefix}.*?)((?:[\d_\[\]])*$)', n.name):
        path = [m[1]] + [int(v) for v in re.split(r'[_\[\]]+', m[2]) if len(v) > 0]
        d = d_top
        for j in path[:-1]:
            d[j] = d.get(j, dict())
            d = d[j]
        d[path[-1]] = i
def sorted_values(d): return [sorted_values(v) for k, v in sorted(d.items())] if isinstance(d, dict) else d
l = sorted_values(d_top)
while isinstance(l, list) and len(l) == 1: l = l[0]
return None if isinstance(l, list) and len(l) == 0 else l
```

Domain of the model: the prefix is a literal (contains no regular-expression operator), names are ASCII without
line break (`\d` is modelled by `Char.isDigit`, `.` matches every character). Only core Lean. -/
namespace KV.Locs

/-! ### the regular expression -/
/-- `[\d_\[\]]` -/
def isIdxChar (c : Char) : Bool := c.isDigit || c == '_' || c == '[' || c == ']'

/-- `(.*?)((?:[\d_\[\]])*$)` on the text behind the prefix: the lazy group grows one character at a time until
the remainder consists of index characters only; returns (extension, remainder) -/
def lazyExt : List Char → List Char × List Char
  | [] => ([], [])
  | c :: cs => if (c :: cs).all isIdxChar then ([], c :: cs) else ((c :: (lazyExt cs).1), (lazyExt cs).2)

def dropPrefix? : List Char → List Char → Option (List Char)
  | [], s => some s
  | _ :: _, [] => none
  | p :: ps, c :: cs => if p = c then dropPrefix? ps cs else none

/-- `re.match(...)`: `(m[1], m[2])`, `none` when the name does not start with the prefix -/
def reMatch (pre name : List Char) : Option (List Char × List Char) :=
  (dropPrefix? pre name).map fun rest => (pre ++ (lazyExt rest).1, (lazyExt rest).2)

/-- `[v for v in re.split(r'[_\[\]]+', m2) if len(v) > 0]` on a text of index characters: the maximal digit runs.
`cur` is the run being collected. -/
def digitRuns : List Char → List Char → List (List Char)
  | cur, [] => if cur.isEmpty then [] else [cur]
  | cur, c :: cs =>
    if c.isDigit then digitRuns (cur ++ [c]) cs
    else if cur.isEmpty then digitRuns [] cs else cur :: digitRuns [] cs

/-- `int(v)` for a string of ASCII digits -/
def decVal (ds : List Char) : Nat := ds.foldl (fun a c => 10 * a + (c.toNat - '0'.toNat)) 0

/-- dictionary keys: a stem (first path element, a string) is the list of its code points, an index `i` is `[i]`.
Keys of one dictionary are always of the same kind. -/
abbrev Key := List Nat
def stemKey (s : List Char) : Key := s.map Char.toNat
def idxKey (i : Nat) : Key := [i]

/-- `path` of a matching name -/
def pathOf (pre name : List Char) : Option (List Key) :=
  (reMatch pre name).map fun m => stemKey m.1 :: (digitRuns [] m.2).map (fun ds => idxKey (decVal ds))

/-! ### nested dictionaries (insertion-ordered) -/
/-- a dictionary = list of entries `key ↦ value`; the value is the integer `i` when `v = some i`
(then `sub` is unused) and the nested dictionary `sub` when `v = none` -/
inductive D where
  | nil
  | ent (k : Key) (v : Option Nat) (sub : D) (rest : D)
deriving Repr, DecidableEq, Inhabited

/-- `d[k] = i` -/
def D.setLeaf : D → Key → Nat → D
  | .nil, k, i => .ent k (some i) .nil .nil
  | .ent k' v s r, k, i => if k' = k then .ent k (some i) .nil r else .ent k' v s (r.setLeaf k i)

/-- `d[k] = d.get(k, dict()); d = d[k]; <f on d>`; `none` = the code raises (the value stored under `k` is an
integer, and the next statement subscripts it) -/
def D.descend (f : D → Option D) : D → Key → Option D
  | .nil, k => (f .nil).map fun s => .ent k none s .nil
  | .ent k' v s r, k =>
    if k' = k then
      match v with
      | some _ => none
      | none => (f s).map fun s' => .ent k' none s' r
    else (D.descend f r k).map fun r' => .ent k' v s r'

/-- the loop `for j in path[:-1]: …` followed by `d[path[-1]] = i` -/
def insertPath : List Key → Nat → D → Option D
  | [], _, _ => none
  | [k], i, d => some (d.setLeaf k i)
  | k :: k2 :: ks, i, d => d.descend (insertPath (k2 :: ks) i) k

/-- the `for i, n in enumerate(nodes)` loop from position `i` on; `none` = raises -/
def insertAll (pre : List Char) : List (List Char) → Nat → D → Option D
  | [], _, d => some d
  | nm :: rest, i, d =>
    match pathOf pre nm with
    | none => insertAll pre rest (i + 1) d
    | some p =>
      match insertPath p i d with
      | none => none
      | some d' => insertAll pre rest (i + 1) d'

/-! ### the repaired insertion (a name that is also the stem of longer names is kept, under the key `-1`)

```python
for j in path[:-1]:
    if not isinstance(d.get(j), dict):
        d[j] = {-1: d[j]} if j in d else dict()
    d = d[j]
if isinstance(d.get(path[-1]), dict): d[path[-1]][-1] = i
else: d[path[-1]] = i
```
The key `-1` (smaller than every index) is modelled by the empty key `[]` (smaller than every key in `lexLe`). -/
def sentinel : Key := []

def D.setLeafF : D → Key → Nat → D
  | .nil, k, i => .ent k (some i) .nil .nil
  | .ent k' v s r, k, i =>
    if k' = k then
      match v with
      | some _ => .ent k (some i) .nil r
      | none => .ent k' none (s.setLeaf sentinel i) r
    else .ent k' v s (r.setLeafF k i)

def D.descendF (f : D → Option D) : D → Key → Option D
  | .nil, k => (f .nil).map fun s => .ent k none s .nil
  | .ent k' v s r, k =>
    if k' = k then
      match v with
      | some j => (f (.ent sentinel (some j) .nil .nil)).map fun s' => .ent k' none s' r
      | none => (f s).map fun s' => .ent k' none s' r
    else (D.descendF f r k).map fun r' => .ent k' v s r'

def insertPathF : List Key → Nat → D → Option D
  | [], _, _ => none
  | [k], i, d => some (d.setLeafF k i)
  | k :: k2 :: ks, i, d => d.descendF (insertPathF (k2 :: ks) i) k

def insertAllF (pre : List Char) : List (List Char) → Nat → D → Option D
  | [], _, d => some d
  | nm :: rest, i, d =>
    match pathOf pre nm with
    | none => insertAllF pre rest (i + 1) d
    | some p =>
      match insertPathF p i d with
      | none => none
      | some d' => insertAllF pre rest (i + 1) d'

/-! ### sorting -/
/-- Python order of the keys of one dictionary (strings by code point, integers by value) -/
def lexLe : Key → Key → Bool
  | [], _ => true
  | _ :: _, [] => false
  | a :: as, b :: bs => a < b || (a == b && lexLe as bs)

/-- insertion of one entry into a sorted dictionary -/
def insEnt (k : Key) (v : Option Nat) (s : D) : D → D
  | .nil => .ent k v s .nil
  | .ent k' v' s' r => if lexLe k k' then .ent k v s (.ent k' v' s' r) else .ent k' v' s' (insEnt k v s r)

/-- `sorted_values` with the keys kept: every level sorted by key -/
def sortRec : D → D
  | .nil => .nil
  | .ent k v s r => insEnt k v (sortRec s) (sortRec r)

/-! ### result -/
inductive Res where
  | raises            -- TypeError / AttributeError
  | none              -- `None`
  | int (i : Nat)
  | list (d : D)      -- nested list = the sorted dictionary with the keys forgotten
deriving Repr, DecidableEq, Inhabited

/-- `while isinstance(l, list) and len(l) == 1: l = l[0]`, then `None` for the empty list -/
def unwrap : D → Res
  | .nil => .none
  | .ent _ (some i) _ .nil => .int i
  | .ent _ none s .nil => unwrap s
  | d => .list d

def locsL (pre : List Char) (names : List (List Char)) : Res :=
  match insertAll pre names 0 .nil with
  | Option.none => .raises
  | some d => unwrap (sortRec d)

/-- the repaired code -/
def locsLF (pre : List Char) (names : List (List Char)) : Res :=
  match insertAllF pre names 0 .nil with
  | Option.none => .raises
  | some d => unwrap (sortRec d)

/-- `Circuit._locs(prefix, nodes)` on the list of node names -/
def locs (pre : String) (names : List String) : Res := locsL pre.toList (names.map String.toList)
def locsF (pre : String) (names : List String) : Res := locsLF pre.toList (names.map String.toList)

/-! ### observation functions (used by statements and by the driver) -/
def D.keys : D → List Key
  | .nil => []
  | .ent k _ _ r => k :: r.keys

/-- all `(path, position)` pairs of a dictionary, in dictionary order -/
def D.entries : D → List (List Key × Nat)
  | .nil => []
  | .ent k (some i) _ r => ([k], i) :: r.entries
  | .ent k none s r => s.entries.map (fun e => (k :: e.1, e.2)) ++ r.entries

/-- the positions in the order of the nested list -/
def D.flat (d : D) : List Nat := d.entries.map Prod.snd

/-- nested list as text: `[[0,1],[2]]` -/
def D.showItems : D → List String
  | .nil => []
  | .ent _ (some i) _ r => toString i :: r.showItems
  | .ent _ none s r => ("[" ++ ",".intercalate s.showItems ++ "]") :: r.showItems

def Res.show : Res → String
  | .raises => "raise"
  | .none => "None"
  | .int i => toString i
  | .list d => "[" ++ ",".intercalate d.showItems ++ "]"

end KV.Locs

