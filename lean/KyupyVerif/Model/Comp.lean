import KyupyVerif.Model.Val
import KyupyVerif.Model.Prim
/-! The documented composition of each primitive from the multi-valued operators
(specification; written by hand from the formulas of sim.py:28-40).  BUF1 is the identity:
the simulators copy the operand (so UNASSIGNED passes through a buffer). -/
namespace KV

abbrev Op8 := V3 → V3 → V3 → V3 → V3
abbrev Op4 := V2 → V2 → V2 → V2 → V2

def comp8 (name : String) : Option Op8 :=
  match name with
  | "BUF1" => some fun a _ _ _ => a
  | "INV1" => some fun a _ _ _ => specNot a
  | "AND2" => some fun a b _ _ => specAnd [a,b]
  | "AND3" => some fun a b c _ => specAnd [a,b,c]
  | "AND4" => some fun a b c d => specAnd [a,b,c,d]
  | "NAND2" => some fun a b _ _ => specNot (specAnd [a,b])
  | "NAND3" => some fun a b c _ => specNot (specAnd [a,b,c])
  | "NAND4" => some fun a b c d => specNot (specAnd [a,b,c,d])
  | "OR2" => some fun a b _ _ => specOr [a,b]
  | "OR3" => some fun a b c _ => specOr [a,b,c]
  | "OR4" => some fun a b c d => specOr [a,b,c,d]
  | "NOR2" => some fun a b _ _ => specNot (specOr [a,b])
  | "NOR3" => some fun a b c _ => specNot (specOr [a,b,c])
  | "NOR4" => some fun a b c d => specNot (specOr [a,b,c,d])
  | "XOR2" => some fun a b _ _ => specXor [a,b]
  | "XOR3" => some fun a b c _ => specXor [a,b,c]
  | "XOR4" => some fun a b c d => specXor [a,b,c,d]
  | "XNOR2" => some fun a b _ _ => specNot (specXor [a,b])
  | "XNOR3" => some fun a b c _ => specNot (specXor [a,b,c])
  | "XNOR4" => some fun a b c d => specNot (specXor [a,b,c,d])
  | "AO21" => some fun a b c _ => specOr [specAnd [a,b], c]
  | "AOI21" => some fun a b c _ => specNot (specOr [specAnd [a,b], c])
  | "AO22" => some fun a b c d => specOr [specAnd [a,b], specAnd [c,d]]
  | "AOI22" => some fun a b c d => specNot (specOr [specAnd [a,b], specAnd [c,d]])
  | "OA21" => some fun a b c _ => specAnd [specOr [a,b], c]
  | "OAI21" => some fun a b c _ => specNot (specAnd [specOr [a,b], c])
  | "OA22" => some fun a b c d => specAnd [specOr [a,b], specOr [c,d]]
  | "OAI22" => some fun a b c d => specNot (specAnd [specOr [a,b], specOr [c,d]])
  | "AO211" => some fun a b c d => specOr [specAnd [a,b], c, d]
  | "AOI211" => some fun a b c d => specNot (specOr [specAnd [a,b], c, d])
  | "OA211" => some fun a b c d => specAnd [specOr [a,b], c, d]
  | "OAI211" => some fun a b c d => specNot (specAnd [specOr [a,b], c, d])
  | "MUX21" => some fun a b c _ => specOr [specAnd [a, specNot c], specAnd [b, c]]
  | _ => none

/-- 4-valued: same compositions over the 4-valued operators -/
def comp4 (name : String) : Option Op4 :=
  match name with
  | "BUF1" => some fun a _ _ _ => a
  | "INV1" => some fun a _ _ _ => spec4Not a
  | "AND2" => some fun a b _ _ => spec4And [a,b]
  | "AND3" => some fun a b c _ => spec4And [a,b,c]
  | "AND4" => some fun a b c d => spec4And [a,b,c,d]
  | "NAND2" => some fun a b _ _ => spec4Not (spec4And [a,b])
  | "NAND3" => some fun a b c _ => spec4Not (spec4And [a,b,c])
  | "NAND4" => some fun a b c d => spec4Not (spec4And [a,b,c,d])
  | "OR2" => some fun a b _ _ => spec4Or [a,b]
  | "OR3" => some fun a b c _ => spec4Or [a,b,c]
  | "OR4" => some fun a b c d => spec4Or [a,b,c,d]
  | "NOR2" => some fun a b _ _ => spec4Not (spec4Or [a,b])
  | "NOR3" => some fun a b c _ => spec4Not (spec4Or [a,b,c])
  | "NOR4" => some fun a b c d => spec4Not (spec4Or [a,b,c,d])
  | "XOR2" => some fun a b _ _ => spec4Xor [a,b]
  | "XOR3" => some fun a b c _ => spec4Xor [a,b,c]
  | "XOR4" => some fun a b c d => spec4Xor [a,b,c,d]
  | "XNOR2" => some fun a b _ _ => spec4Not (spec4Xor [a,b])
  | "XNOR3" => some fun a b c _ => spec4Not (spec4Xor [a,b,c])
  | "XNOR4" => some fun a b c d => spec4Not (spec4Xor [a,b,c,d])
  | "AO21" => some fun a b c _ => spec4Or [spec4And [a,b], c]
  | "AOI21" => some fun a b c _ => spec4Not (spec4Or [spec4And [a,b], c])
  | "AO22" => some fun a b c d => spec4Or [spec4And [a,b], spec4And [c,d]]
  | "AOI22" => some fun a b c d => spec4Not (spec4Or [spec4And [a,b], spec4And [c,d]])
  | "OA21" => some fun a b c _ => spec4And [spec4Or [a,b], c]
  | "OAI21" => some fun a b c _ => spec4Not (spec4And [spec4Or [a,b], c])
  | "OA22" => some fun a b c d => spec4And [spec4Or [a,b], spec4Or [c,d]]
  | "OAI22" => some fun a b c d => spec4Not (spec4And [spec4Or [a,b], spec4Or [c,d]])
  | "AO211" => some fun a b c d => spec4Or [spec4And [a,b], c, d]
  | "AOI211" => some fun a b c d => spec4Not (spec4Or [spec4And [a,b], c, d])
  | "OA211" => some fun a b c d => spec4And [spec4Or [a,b], c, d]
  | "OAI211" => some fun a b c d => spec4Not (spec4And [spec4Or [a,b], c, d])
  | "MUX21" => some fun a b c _ => spec4Or [spec4And [a, spec4Not c], spec4And [b, c]]
  | _ => none

def prim8 (name : String) (a b c d : V3) : V3 := match comp8 name with | some f => f a b c d | none => default
def prim4 (name : String) (a b c d : V2) : V2 := match comp4 name with | some f => f a b c d | none => default

end KV
