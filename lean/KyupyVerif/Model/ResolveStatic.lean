import KyupyVerif.Model.ResolveHyp
/-! C10, audit 2 finding 6 (open part): the STATIC hypothesis of the whole-run progress theorem `C10.resolve_isSome_static`.  Unlike
`resolveInstB` (Model/ResolveHyp.lean) it never runs `substitute`: every clause is evaluated on the ORIGINAL circuit. -/
namespace KV.Transform
open KV

/-- the keys of the nodes that the substitution of the library instance at node `d` of `h` adds (`[]` when `d` is no library
    instance): `<instance name>~<internal name>`, class fork / cell -/
def instAdded (lib : Lib) (h : NNet) (d : Nat) : List (String × Bool) :=
  match lib.find (h.net.node d).kind with
  | none => []
  | some impl =>
    match implShape impl with
    | none => []
    | some sh => addedKeys impl (h.names.getD d "") sh.des

/-- the per-instance clauses on the ORIGINAL circuit: the library instance at node `d` is neither port nor fork, none of its ignored
    input pins is driven by the instance itself, it has no more pins than its implementation has ports -/
def instStaticB (lib : Lib) (h : NNet) (d : Nat) : Bool :=
  match lib.find (h.net.node d).kind with
  | none => true
  | some impl => !(h.net.io.contains d) && !((h.net.node d).isFork) && noSelfIgnB h d impl && arityOKB h d impl

/-- **static hypothesis of a whole `resolve_tlib_cells` run** (original circuit only): every library instance satisfies `instStaticB`,
    and the keys of the original nodes followed by the keys of ALL nodes that ALL substitutions will add are pairwise different
    (the names `<instance>~<internal>` are fresh w.r.t. the original circuit, different inside one instance, and different between two
    instances) -/
def resolveStaticB (lib : Lib) (h : NNet) : Bool :=
  ((List.range h.net.nodes.size).all fun d => instStaticB lib h d) &&
  decide (h.keys ++ (List.range h.net.nodes.size).flatMap (instAdded lib h)).Nodup

end KV.Transform
