import KyupyVerif.Model.TextLex
import KyupyVerif.Model.Sdf
/-! # Text level of `kyupy.sdf`: the lark grammar of `sdf.py` as a scanner + recursive-descent reader (property C14)

`parseTree : List Char → Option SdfFile` reads the language that `Lark(GRAMMAR, parser="lalr")` of `sdf.py` accepts and
returns what lark's parse tree contains after its token filtering: the `NAME` tokens of `(DESIGN "..")` entries and,
per `(CELL ..)`, the `ID` tokens of the `(INSTANCE ..)` statements and one entry list per `(DELAY (ABSOLUTE ..))`
section, every entry with its keyword, its two name tokens (verbatim token text, quotes / parentheses included) and
its value lists (`none` for `()`, else the three number fields as text, terminator `:` / `)` removed).

How the grammar is read (terminal order per LALR state taken from the real `Lark` object, see `s…` lists below):
* keywords are plain prefixes, there is no word boundary (`(INSTANCEu1)` is `(INSTANCE` `u1` `)`);
* `ID`, `ID_OR_EDGE` are tried BEFORE the ignored terminals in their states, and their character classes contain
  newline, tab and `/`, so only blanks separate them from the keyword (a line break becomes part of the name);
* `_NOB` (`[^()]+`) is tried after the comment/newline terminal but before the blank terminal;
* `(TIMINGCHECK ..)` is a balanced-parentheses skip with `_NOB` allowed after `(` and after a closing `)`;
* header entries other than DESIGN and the CELLTYPE entry are matched and dropped.

`SdfFile.ok` is the part of `SdfTransformer` that can raise: `float()` of a number field, and `IOPath(*args)` /
`Interconnect(*args)` with other than one or two value lists.  `parseSdf` = `parseTree` + `ok` = "`sdf.parse(text)`
returns".  `toRaw` hands the tree to the post-parse model `KV.Sdf` (numbers as thousandths when they are exactly
representable).  `printSdf` is a canonical printer; `Proofs/SdfText.lean` proves `parseSdf (printSdf f) = some f`.
Only core Lean + `Model/Sdf`, `Model/TextLex`. -/
namespace KV.SdfText
open KV.TextLex

/-! ## terminals -/
inductive Kw
  | delayfile | sdfversion | design | date | vendor | program | version | divider | voltage | process
  | temperature | timescale | cell | celltype | instance | timingcheck | delay | absolute | interconnect | iopath
deriving DecidableEq, Repr

def Kw.chars : Kw → List Char
  | .delayfile => ['(', 'D', 'E', 'L', 'A', 'Y', 'F', 'I', 'L', 'E']
  | .sdfversion => ['(', 'S', 'D', 'F', 'V', 'E', 'R', 'S', 'I', 'O', 'N']
  | .design => ['(', 'D', 'E', 'S', 'I', 'G', 'N']
  | .date => ['(', 'D', 'A', 'T', 'E']
  | .vendor => ['(', 'V', 'E', 'N', 'D', 'O', 'R']
  | .program => ['(', 'P', 'R', 'O', 'G', 'R', 'A', 'M']
  | .version => ['(', 'V', 'E', 'R', 'S', 'I', 'O', 'N']
  | .divider => ['(', 'D', 'I', 'V', 'I', 'D', 'E', 'R']
  | .voltage => ['(', 'V', 'O', 'L', 'T', 'A', 'G', 'E']
  | .process => ['(', 'P', 'R', 'O', 'C', 'E', 'S', 'S']
  | .temperature => ['(', 'T', 'E', 'M', 'P', 'E', 'R', 'A', 'T', 'U', 'R', 'E']
  | .timescale => ['(', 'T', 'I', 'M', 'E', 'S', 'C', 'A', 'L', 'E']
  | .cell => ['(', 'C', 'E', 'L', 'L']
  | .celltype => ['(', 'C', 'E', 'L', 'L', 'T', 'Y', 'P', 'E']
  | .instance => ['(', 'I', 'N', 'S', 'T', 'A', 'N', 'C', 'E']
  | .timingcheck => ['(', 'T', 'I', 'M', 'I', 'N', 'G', 'C', 'H', 'E', 'C', 'K']
  | .delay => ['(', 'D', 'E', 'L', 'A', 'Y']
  | .absolute => ['(', 'A', 'B', 'S', 'O', 'L', 'U', 'T', 'E']
  | .interconnect => ['(', 'I', 'N', 'T', 'E', 'R', 'C', 'O', 'N', 'N', 'E', 'C', 'T']
  | .iopath => ['(', 'I', 'O', 'P', 'A', 'T', 'H']

inductive Tm
  | ign0      -- `%ignore ( /\r?\n/ | COMMENT )+`, COMMENT = `"//" /[^\n]*/`
  | ign1      -- `%ignore /[\t\f ]+/`
  | nob       -- `_NOB: /[^()]+/`
  | id        -- `ID: ( /[^"() ]+/ | "\"" /[^"]+/ "\"" )`
  | idOrEdge  -- `ID_OR_EDGE: ( /[^() ]+/ | "(" /[^)]+/ ")" )`
  | name      -- `NAME: /[^"]+/`
  | dq | lpar | rpar
  | numC      -- `/[-.0-9]*:/`   (token text returned without the `:`)
  | numR      -- `/[-.0-9]*\)/`  (token text returned without the `)`)
  | kw (k : Kw)
deriving DecidableEq, Repr

/-- rest after the longest run of `//..` comments and `\r?\n` line ends; the flag says "inside a comment" -/
def skip0 : Bool → List Char → List Char
  | true, [] => []
  | true, c :: r => if c = '\n' then skip0 false r else skip0 true r
  | false, [] => []
  | false, c :: r =>
    if c = '\n' then skip0 false r
    else if c = '/' then
      match r with
      | d :: r' => if d = '/' then skip0 true r' else c :: r
      | [] => c :: r
    else if c = '\r' then
      match r with
      | d :: r' => if d = '\n' then skip0 false r' else c :: r
      | [] => c :: r
    else c :: r

def ign0M : Matcher := fun cs =>
  let r := skip0 false cs
  if r.length < cs.length then some ([], r) else none

def isBlank (c : Char) : Bool := c = '\t' || c = '\x0c' || c = ' '
def isNob (c : Char) : Bool := c ≠ '(' && c ≠ ')'
def isIdCh (c : Char) : Bool := c ≠ '"' && c ≠ '(' && c ≠ ')' && c ≠ ' '
def isIoeCh (c : Char) : Bool := c ≠ '(' && c ≠ ')' && c ≠ ' '
def isNameCh (c : Char) : Bool := c ≠ '"'
def isNumCh (c : Char) : Bool := c = '-' || c = '.' || ('0' ≤ c && c ≤ '9')

/-- `[-.0-9]*` followed by the terminator -/
def numM (term : Char) : Matcher := fun cs =>
  match spanP isNumCh cs with
  | (t, c :: r) => if c = term then some (t, r) else none
  | (_, []) => none

def orElse (a b : Matcher) : Matcher := fun cs => match a cs with | some x => some x | none => b cs

def idM : Matcher := orElse (delimited '"' '"') (plus isIdCh)
def ioeM : Matcher := orElse (delimited '(' ')') (plus isIoeCh)
def blankM : Matcher := plus isBlank

def Tm.run : Tm → Matcher
  | .ign0 => ign0M
  | .ign1 => blankM
  | .nob => plus isNob
  | .id => idM
  | .idOrEdge => ioeM
  | .name => plus isNameCh
  | .dq => chr '"'
  | .lpar => chr '('
  | .rpar => chr ')'
  | .numC => numM ':'
  | .numR => numM ')'
  | .kw k => lit k.chars

def Tm.ign : Tm → Bool
  | .ign0 | .ign1 => true
  | _ => false

def L : Lex Tm := ⟨Tm.run, Tm.ign⟩

/-! ## scanner states (terminal order of `ContextualLexer.lexers[state].terminals` of the real parser) -/
def sTop : List Tm := [.ign0, .ign1, .kw .delayfile]
def sHdr : List Tm := [.ign0, .ign1, .kw .temperature, .kw .sdfversion, .kw .timescale, .kw .program, .kw .version,
  .kw .divider, .kw .voltage, .kw .process, .kw .design, .kw .vendor, .kw .cell, .kw .date, .rpar]
def sNob : List Tm := [.ign0, .nob, .ign1]
def sNobOpt : List Tm := [.ign0, .nob, .ign1, .rpar]
def sRpar : List Tm := [.ign0, .ign1, .rpar]
def sDq : List Tm := [.ign0, .ign1, .dq]
def sName : List Tm := [.ign0, .ign1, .name]
def sCell : List Tm := [.ign0, .ign1, .kw .timingcheck, .kw .celltype, .kw .instance, .kw .delay, .rpar]
def sInst : List Tm := [.id, .ign0, .ign1, .rpar]
def sId : List Tm := [.id, .ign0, .ign1]
def sIoe : List Tm := [.idOrEdge, .ign0, .ign1]
def sAbs : List Tm := [.ign0, .ign1, .kw .absolute]
def sEnt : List Tm := [.ign0, .ign1, .kw .interconnect, .kw .iopath, .rpar]
def sTr : List Tm := [.ign0, .ign1, .lpar, .rpar]
def sT1 : List Tm := [.ign0, .numC, .ign1, .rpar]
def sT2 : List Tm := [.ign0, .numC, .ign1]
def sT3 : List Tm := [.ign0, .numR, .ign1]
def sIgA : List Tm := [.ign0, .nob, .ign1, .lpar, .rpar]
def sIgB : List Tm := [.ign0, .ign1, .lpar, .rpar]
def sEnd : List Tm := [.ign0, .ign1]

/-! ## parse tree -/
/-- `none` = `()`; else the three number fields as text -/
abbrev TTriple := Option (List Char × List Char × List Char)

structure TEntry where
  io : Bool                 -- true = IOPATH, false = INTERCONNECT
  a : List Char
  b : List Char
  vals : List TTriple
deriving DecidableEq, Repr, Inhabited

structure TCell where
  insts : List (List Char)
  delays : List (List TEntry)
deriving DecidableEq, Repr, Inhabited

structure SdfFile where
  designs : List (List Char)
  cells : List TCell
deriving DecidableEq, Repr, Inhabited

/-! ## reader -/
/-- the next token must be terminal `t` -/
def expect (ts : List Tm) (t : Tm) (cs : List Char) : Option (List Char × List Char) :=
  match next L ts cs with
  | some (.tok t' x, r) => if t' = t then some (x, r) else none
  | _ => none

/-- after the `(` of a value list -/
def pTriple (cs : List Char) : Option (TTriple × List Char) :=
  match next L sT1 cs with
  | some (.tok .rpar _, r) => some (none, r)
  | some (.tok .numC a, r) =>
    match expect sT2 .numC r with
    | some (b, r) =>
      match expect sT3 .numR r with
      | some (c, r) => some (some (a, b, c), r)
      | none => none
    | none => none
  | _ => none

/-- `triple* ")"` -/
def pTriples : Nat → List Char → Option (List TTriple × List Char)
  | 0, _ => none
  | n + 1, cs =>
    match next L sTr cs with
    | some (.tok .rpar _, r) => some ([], r)
    | some (.tok .lpar _, r) =>
      match pTriple r with
      | some (t, r) =>
        match pTriples n r with
        | some (ts, r) => some (t :: ts, r)
        | none => none
      | none => none
    | _ => none

/-- after `(IOPATH` / `(INTERCONNECT` -/
def pEntry (n : Nat) (io : Bool) (cs : List Char) : Option (TEntry × List Char) :=
  let (st, tm) := if io then (sIoe, Tm.idOrEdge) else (sId, Tm.id)
  match expect st tm cs with
  | some (a, r) =>
    match expect st tm r with
    | some (b, r) =>
      match pTriples n r with
      | some (vs, r) => some (⟨io, a, b, vs⟩, r)
      | none => none
    | none => none
  | none => none

/-- `(interconnect | iopath)* ")"` -/
def pEntries (N : Nat) : Nat → List Char → Option (List TEntry × List Char)
  | 0, _ => none
  | n + 1, cs =>
    match next L sEnt cs with
    | some (.tok .rpar _, r) => some ([], r)
    | some (.tok (.kw k) _, r) =>
      match pEntry N (k == .iopath) r with
      | some (e, r) =>
        match pEntries N n r with
        | some (es, r) => some (e :: es, r)
        | none => none
      | none => none
    | _ => none

/-- after `(DELAY` -/
def pDelay (N : Nat) (cs : List Char) : Option (List TEntry × List Char) :=
  match expect sAbs (.kw .absolute) cs with
  | some (_, r) =>
    match pEntries N N r with
    | some (es, r) =>
      match expect sRpar .rpar r with
      | some (_, r) => some (es, r)
      | none => none
    | none => none
  | none => none

/-- after `(TIMINGCHECK`: `_ignore* ")"` with `_ignore: "(" _NOB? _ignore* ")" _NOB?`; `d` = open parentheses,
`nobOk` = the state's scanner knows `_NOB` (after `(` and after a closing `)`) -/
def pSkip : Nat → Nat → Bool → List Char → Option (List Char)
  | 0, _, _, _ => none
  | n + 1, d, nobOk, cs =>
    match next L (if nobOk then sIgA else sIgB) cs with
    | some (.tok .lpar _, r) => pSkip n (d + 1) true r
    | some (.tok .nob _, r) => pSkip n d false r
    | some (.tok .rpar _, r) => match d with
      | 0 => some r
      | d + 1 => pSkip n d true r
    | _ => none

inductive CItem
  | inst (n : Option (List Char))
  | delay (es : List TEntry)
  | other
deriving DecidableEq, Repr

/-- `_NOB ")"` -/
def pNobR (cs : List Char) : Option (List Char) :=
  match expect sNob .nob cs with
  | some (_, r) => (expect sRpar .rpar r).map (·.2)
  | none => none

/-- after `(CELL`: the items up to the closing `)` -/
def pCellItems (N : Nat) : Nat → List Char → Option (List CItem × List Char)
  | 0, _ => none
  | n + 1, cs =>
    let cont (it : CItem) (r : List Char) : Option (List CItem × List Char) :=
      match pCellItems N n r with
      | some (its, r) => some (it :: its, r)
      | none => none
    match next L sCell cs with
    | some (.tok .rpar _, r) => some ([], r)
    | some (.tok (.kw .celltype) _, r) =>
      match pNobR r with
      | some r => cont .other r
      | none => none
    | some (.tok (.kw .instance) _, r) =>
      match next L sInst r with
      | some (.tok .rpar _, r) => cont (.inst none) r
      | some (.tok .id x, r) =>
        match expect sRpar .rpar r with
        | some (_, r) => cont (.inst (some x)) r
        | none => none
      | _ => none
    | some (.tok (.kw .timingcheck) _, r) =>
      match pSkip N 0 false r with
      | some r => cont .other r
      | none => none
    | some (.tok (.kw .delay) _, r) =>
      match pDelay N r with
      | some (es, r) => cont (.delay es) r
      | none => none
    | _ => none

def CItem.instName : CItem → Option (List Char)
  | .inst (some n) => some n
  | _ => none
def CItem.delayEs : CItem → Option (List TEntry)
  | .delay es => some es
  | _ => none

def cellOf (its : List CItem) : TCell :=
  { insts := its.filterMap CItem.instName, delays := its.filterMap CItem.delayEs }

inductive HItem
  | design (n : List Char)
  | cell (c : TCell)
  | other
deriving DecidableEq, Repr

/-- after `(DELAYFILE`: header entries and cells up to the closing `)` -/
def pHdr (N : Nat) : Nat → List Char → Option (List HItem × List Char)
  | 0, _ => none
  | n + 1, cs =>
    let cont (it : HItem) (r : List Char) : Option (List HItem × List Char) :=
      match pHdr N n r with
      | some (its, r) => some (it :: its, r)
      | none => none
    match next L sHdr cs with
    | some (.tok .rpar _, r) => some ([], r)
    | some (.tok (.kw .design) _, r) =>
      match expect sDq .dq r with
      | some (_, r) =>
        match expect sName .name r with
        | some (x, r) =>
          match expect sDq .dq r with
          | some (_, r) =>
            match expect sRpar .rpar r with
            | some (_, r) => cont (.design x) r
            | none => none
          | none => none
        | none => none
      | none => none
    | some (.tok (.kw .process) _, r) =>
      match next L sNobOpt r with
      | some (.tok .rpar _, r) => cont .other r
      | some (.tok .nob _, r) =>
        match expect sRpar .rpar r with
        | some (_, r) => cont .other r
        | none => none
      | _ => none
    | some (.tok (.kw .cell) _, r) =>
      match pCellItems N N r with
      | some (its, r) => cont (.cell (cellOf its)) r
      | none => none
    | some (.tok (.kw _) _, r) =>
      match pNobR r with
      | some r => cont .other r
      | none => none
    | _ => none

def HItem.designName : HItem → Option (List Char)
  | .design n => some n
  | _ => none
def HItem.cellOf : HItem → Option TCell
  | .cell c => some c
  | _ => none

def fileOf (its : List HItem) : SdfFile :=
  { designs := its.filterMap HItem.designName, cells := its.filterMap HItem.cellOf }

/-- the lark parse (no transformer) -/
def parseTree (cs : List Char) : Option SdfFile :=
  let N := cs.length + 1
  match expect sTop (.kw .delayfile) cs with
  | some (_, r) =>
    match pHdr N N r with
    | some (its, r) =>
      match next L sEnd r with
      | some (.eof, _) => some (fileOf its)
      | _ => none
    | none => none
  | none => none

/-! ## what the transformer can raise on -/
def isDigit (c : Char) : Bool := '0' ≤ c && c ≤ '9'

/-- unsigned part: `digits+ .? digits* | . digits+` -/
def ufloatOK (u : List Char) : Bool :=
  match (spanP isDigit u).2 with
  | [] => !(spanP isDigit u).1.isEmpty
  | c :: fp => c = '.' && fp.all isDigit && !((spanP isDigit u).1.isEmpty && fp.isEmpty)

/-- `float(s)` succeeds, for `s` over `[-.0-9]`: `-? (digits+ .? digits* | . digits+)` -/
def floatOK (s : List Char) : Bool :=
  match s with
  | [] => false
  | c :: r => if c = '-' then ufloatOK r else ufloatOK (c :: r)

/-- `float(a.value[:-1]) if len(a.value) > 1 else 0.0` does not raise -/
def fieldOK (s : List Char) : Bool := s.isEmpty || floatOK s

def TTriple.ok : TTriple → Bool
  | none => true
  | some (a, b, c) => fieldOK a && fieldOK b && fieldOK c

/-- `sanitize` + `IOPath(*args)` / `Interconnect(*args)`: one or two value lists -/
def TEntry.ok (e : TEntry) : Bool := e.vals.all TTriple.ok && (e.vals.length == 1 || e.vals.length == 2)

def SdfFile.ok (f : SdfFile) : Bool := f.cells.all fun c => c.delays.all fun es => es.all TEntry.ok

/-- `sdf.parse(text)` returns (list-of-characters form) -/
def parseSdfL (cs : List Char) : Option SdfFile :=
  match parseTree cs with
  | some f => if f.ok then some f else none
  | none => none

def parseSdf (s : String) : Option SdfFile := parseSdfL s.toList

/-! ## hand-over to the post-parse model -/
def digitsVal (ds : List Char) : Nat := ds.foldl (fun acc c => 10 * acc + (c.toNat - '0'.toNat)) 0

/-- thousandths of a number field when its fraction has at most three digits that matter (later ones all `0`) -/
def milli (s : List Char) : Option Int :=
  if !floatOK s then none else
  let neg := s.head? == some '-'
  let u := if neg then s.drop 1 else s
  let ip := (spanP isDigit u).1
  let fp := (spanP isDigit u).2.drop 1
  if (fp.drop 3).all (· == '0') then
    let f3 := fp.take 3 ++ List.replicate (3 - (fp.take 3).length) '0'
    let v : Int := ((digitsVal ip * 1000 + digitsVal f3 : Nat) : Int)
    some (if neg then -v else v)
  else none

def fieldVal (s : List Char) : Option (Option Int) := if s.isEmpty then some none else (milli s).map some

def optAll : List (Option α) → Option (List α)
  | [] => some []
  | x :: xs => match x, optAll xs with
    | some a, some as => some (a :: as)
    | _, _ => none

def TTriple.toRaw : TTriple → Option KV.Sdf.RawTriple
  | none => some []
  | some (a, b, c) => optAll [fieldVal a, fieldVal b, fieldVal c]

def TEntry.toRaw (e : TEntry) : Option KV.Sdf.RawEntry :=
  (optAll (e.vals.map TTriple.toRaw)).map fun vs => ⟨String.ofList e.a, String.ofList e.b, vs⟩

def TCell.toRaw (c : TCell) : Option KV.Sdf.RawCell :=
  (optAll (c.delays.map fun es => optAll (es.map TEntry.toRaw))).map fun ds => ⟨c.insts.map String.ofList, ds⟩

/-- the block list `KV.Sdf.parse` consumes; `none` when some number has more than three fraction digits -/
def SdfFile.toRaw (f : SdfFile) : Option (List KV.Sdf.RawCell) := optAll (f.cells.map TCell.toRaw)

/-! ## from the block list of the post-parse model to a tree (numbers as thousandths, printed `i.fff`) -/
def digitCh (d : Nat) : Char := Char.ofNat (48 + d)

def natDigitsAux : Nat → Nat → List Char → List Char
  | 0, _, acc => acc
  | f + 1, n, acc => if n < 10 then digitCh n :: acc else natDigitsAux f (n / 10) (digitCh (n % 10) :: acc)

/-- decimal digits of `n` -/
def natDigits (n : Nat) : List Char := natDigitsAux (n + 1) n []

/-- `v` thousandths as `[-]i.fff` -/
def showMilli (v : Int) : List Char :=
  let a := v.natAbs
  (if v < 0 then ['-'] else []) ++ (natDigits (a / 1000) ++ ['.', digitCh (a / 100 % 10), digitCh (a / 10 % 10), digitCh (a % 10)])

def fieldTxt : Option Int → List Char
  | none => []
  | some v => showMilli v

def ofRawTriple : KV.Sdf.RawTriple → TTriple
  | [a, b, c] => some (fieldTxt a, fieldTxt b, fieldTxt c)
  | _ => none

def ofRawEntry (io : Bool) (e : KV.Sdf.RawEntry) : TEntry := ⟨io, e.a.toList, e.b.toList, e.vals.map ofRawTriple⟩

/-- entries of a block with an INSTANCE name are printed as IOPATH, those of a block without as INTERCONNECT (the
post-parse model does not distinguish them: which loop reads an entry is decided by the block name alone) -/
def ofRawCell (c : KV.Sdf.RawCell) : TCell :=
  ⟨c.insts.map String.toList, c.delays.map fun es => es.map (ofRawEntry (!c.insts.isEmpty))⟩

def ofRaw (B : List KV.Sdf.RawCell) : SdfFile := ⟨[], B.map ofRawCell⟩

/-- value lists are `()` or three fields -/
def rawShapeOK (B : List KV.Sdf.RawCell) : Bool :=
  B.all fun c => c.delays.all fun es => es.all fun e => e.vals.all fun t => t.length == 0 || t.length == 3

/-! ## which trees the canonical printer can show (hypothesis of the round-trip theorem) -/
/-- a plain (unquoted) name token: non-empty, all characters in the terminal's class, and not starting with a
tab / form feed (the blank terminal in front of it would swallow those) -/
def validPlain (p : Char → Bool) (n : List Char) : Bool :=
  match n with
  | [] => false
  | c :: _ => !isBlank c && n.all p

/-- `open [^close]+ close` -/
def validDelim (o c : Char) (n : List Char) : Bool :=
  match n with
  | [] => false
  | x :: r => x == o && r.getLast? == some c && !r.dropLast.isEmpty && r.dropLast.all (· ≠ c)

/-- an `ID` token -/
def validId (n : List Char) : Bool := validPlain isIdCh n || validDelim '"' '"' n
/-- an `ID_OR_EDGE` token -/
def validIoe (n : List Char) : Bool := validPlain isIoeCh n || validDelim '(' ')' n
/-- a `NAME` token (scanned after the ignored terminals) -/
def validDesign (n : List Char) : Bool :=
  match n with
  | [] => false
  | c :: _ => !isBlank c && c ≠ '\n' && c ≠ '\r' && c ≠ '/' && n.all isNameCh
/-- a number field: empty, or digits / `-` / `.` that `float()` accepts -/
def validField (s : List Char) : Bool := s.all isNumCh && fieldOK s

def TTriple.valid : TTriple → Bool
  | none => true
  | some (a, b, c) => validField a && validField b && validField c

def TEntry.valid (e : TEntry) : Bool :=
  (if e.io then validIoe e.a && validIoe e.b else validId e.a && validId e.b)
  && e.vals.all TTriple.valid && (e.vals.length == 1 || e.vals.length == 2)

def TCell.valid (c : TCell) : Bool := c.insts.all validId && c.delays.all fun es => es.all TEntry.valid

def SdfFile.valid (f : SdfFile) : Bool := f.designs.all validDesign && f.cells.all TCell.valid

/-! ## canonical printer -/
def pTripleTxt : TTriple → List Char
  | none => ['(', ')']
  | some (a, b, c) => '(' :: (a ++ ':' :: (b ++ ':' :: (c ++ [')'])))

/-- every value list preceded by a blank -/
def pTriplesTxt (vs : List TTriple) : List Char := vs.flatMap fun t => ' ' :: pTripleTxt t

def pEntryTxt (e : TEntry) : List Char :=
  (if e.io then Kw.iopath.chars else Kw.interconnect.chars) ++ ' ' :: (e.a ++ ' ' :: (e.b ++ (pTriplesTxt e.vals ++ [')'])))

def pEntriesTxt (es : List TEntry) : List Char := es.flatMap fun e => ' ' :: pEntryTxt e

def pDelayTxt (es : List TEntry) : List Char :=
  Kw.delay.chars ++ ' ' :: (Kw.absolute.chars ++ (pEntriesTxt es ++ [')', ')']))

def pInstTxt (n : List Char) : List Char := Kw.instance.chars ++ ' ' :: (n ++ [')'])

def pCellTxt (c : TCell) : List Char :=
  Kw.cell.chars ++ (c.insts.flatMap (fun n => ' ' :: pInstTxt n) ++ (c.delays.flatMap (fun es => ' ' :: pDelayTxt es) ++ [')']))

def pDesignTxt (n : List Char) : List Char := Kw.design.chars ++ ' ' :: '"' :: (n ++ ['"', ')'])

def printSdfL (f : SdfFile) : List Char :=
  Kw.delayfile.chars ++ (f.designs.flatMap (fun n => ' ' :: pDesignTxt n) ++ (f.cells.flatMap (fun c => ' ' :: pCellTxt c) ++ [')', '\n']))

def printSdf (f : SdfFile) : String := String.ofList (printSdfL f)

end KV.SdfText
