import KyupyVerif.Model.Techlib
/-! # What a standard-cell name denotes (specification of C19)

Hand-written from the naming conventions of the vendor data books (GSC 0.18 µm generic library, NanGate
45 nm Open Cell Library, Synopsys SAED 90 nm / 32 nm educational libraries) — **not** from kyupy's library text:

* a cell name is `<family><drive strength>[_<V_t>]` with drive strength `X<n>` or `_X<n>` and V_t ∈ RVT/LVT/HVT;
* `AND<n>`, `OR<n>`, `NAND<n>`, `NOR<n>`, `XOR<n>`, `XNOR<n>`: the n-input gate;
* `BUF`, `CLKBUF`, `NBUFF`, `AOBUF`, `DELLN<k>`: non-inverting buffer; `INV`, `AOINV`, `IBUFF`: inverter;
* `AO`/`OA`/`AOI`/`OAI` + digits `d1 d2 …`: first-level groups of d1, d2, … inputs (AND groups feeding an OR for
  AO, OR groups feeding an AND for OA), `I` = inverted output.  When the input pins carry several letters
  (`A1 A2 | B1 B2 | C`, `A0 A1 | B0`), one group per letter; when they carry a single letter (`A1 … A5`,
  `IN1 … IN5`) the groups are consecutive runs of the pins in numerical order;
* `MUX2`, `MX2`, `MUX21` / `MUX4`, `MX4`, `MUX41`: select pins are those called `S…` (`S`, `S0` = bit 0, `S1` = bit 1),
  the selected data input is the (binary select value)-th data pin in name order;
* `HA`, `ADDH`, `HADD` half adder and `FA`, `ADDF`, `FADD` full adder: pin `S`/`SO` = sum (parity of the inputs),
  pin `CO`/`C1` = carry (at least two inputs are 1).

Functions are stated over pin NAMES: `datasheet fam ins outs` takes the input pin names in table order and gives,
for each output pin name in `outs`, the function of the input values (same order as `ins`). -/
namespace KV.DS
open KV.TL

/-! ## cell name → family -/

def dropSuffix (s suf : Str) : Option Str :=
  if suf.isSuffixOf s then some (s.take (s.length - suf.length)) else none

/-- remove a threshold-voltage suffix -/
def stripVt (s : Str) : Str :=
  match dropSuffix s c!"_RVT", dropSuffix s c!"_LVT", dropSuffix s c!"_HVT" with
  | some r, _, _ => r
  | _, some r, _ => r
  | _, _, some r => r
  | _, _, _ => s

/-- remove a drive strength `X<digits>` / `_X<digits>` at the end -/
def stripDrive (s : Str) : Str :=
  let r := s.reverse
  match r.takeWhile Char.isDigit, r.dropWhile Char.isDigit with
  | _ :: _, 'X' :: '_' :: c :: rest => (c :: rest).reverse
  | _ :: _, 'X' :: c :: rest => if c = '_' then s else (c :: rest).reverse
  | _, _ => s

/-- family name of a cell, e.g. `AOI221X1_RVT ↦ AOI221`, `NAND2_X4 ↦ NAND2`, `DELLN1X2 ↦ DELLN1`, `TIEH_RVT ↦ TIEH` -/
def baseName (cell : Str) : Str := stripDrive (stripVt cell)

def natOf (ds : List Nat) : Nat := ds.foldl (fun a d => 10 * a + d) 0
def digitVal (c : Char) : Nat := c.toNat - 48

/-- leading non-digit part and the digits that follow it (`none` if something else follows) -/
def splitName (s : Str) : Option (Str × List Nat) :=
  let l := s.takeWhile (!·.isDigit)
  let d := s.dropWhile (!·.isDigit)
  if d.all Char.isDigit then some (l, d.map digitVal) else none

inductive Gate | and | or | nand | nor | xor | xnor
  deriving DecidableEq, Repr

inductive Fam
  | gate (g : Gate) (arity : Nat)
  | buf
  | inv
  /-- `orOfAnds`: AO/AOI (else OA/OAI); `inverted`: AOI/OAI; group sizes = the digits of the name -/
  | aoi (orOfAnds inverted : Bool) (groups : List Nat)
  | mux (nData : Nat)
  | halfAdder
  | fullAdder
  deriving DecidableEq, Repr

def Fam.isAdder : Fam → Bool
  | .halfAdder | .fullAdder => true
  | _ => false

/-- the families the property lists; `none` = outside them -/
def classify (base : Str) : Option Fam :=
  match splitName base with
  | none => none
  | some (l, ds) =>
    let n := natOf ds
    let gate (g : Gate) : Option Fam := if !ds.isEmpty && n ≥ 2 then some (.gate g n) else none
    let groups (o i : Bool) : Option Fam :=
      if ds.length ≥ 2 && ds.all (· ≥ 1) then some (.aoi o i ds) else none
    if l == c!"AND" then gate .and
    else if l == c!"OR" then gate .or
    else if l == c!"NAND" then gate .nand
    else if l == c!"NOR" then gate .nor
    else if l == c!"XOR" then gate .xor
    else if l == c!"XNOR" then gate .xnor
    else if [c!"BUF", c!"CLKBUF", c!"NBUFF", c!"AOBUF"].contains l && ds.isEmpty then some .buf
    else if l == c!"DELLN" && ds.length == 1 then some .buf
    else if [c!"INV", c!"AOINV", c!"IBUFF"].contains l && ds.isEmpty then some .inv
    else if l == c!"AO" then groups true false
    else if l == c!"AOI" then groups true true
    else if l == c!"OA" then groups false false
    else if l == c!"OAI" then groups false true
    else if [c!"MUX", c!"MX"].contains l && (ds == [2] || ds == [2, 1]) then some (.mux 2)
    else if [c!"MUX", c!"MX"].contains l && (ds == [4] || ds == [4, 1]) then some (.mux 4)
    else if [c!"HA", c!"ADDH", c!"HADD"].contains l && ds.isEmpty then some .halfAdder
    else if [c!"FA", c!"ADDF", c!"FADD"].contains l && ds.isEmpty then some .fullAdder
    else none

/-- The cell families of the five libraries that are OUTSIDE the listed ones (checked for pin consistency only),
    by the reason they are outside.  `C19.partition` proves that every cell name is either classified above
    or appears here — so nothing falls between the two. -/
def outside : List (String × List Str) := [
  ("sequential", [c!"DFF", c!"DFFR", c!"DFFS", c!"DFFRS", c!"DFFSR", c!"DFFAR", c!"AODFFAR", c!"DFFAS", c!"DFFASR",
                  c!"DFFSSR", c!"SDFF", c!"SDFFR", c!"SDFFS", c!"SDFFRS", c!"SDFFSR", c!"SDFFAR", c!"SDFFAS",
                  c!"SDFFASR", c!"SDFFASRS", c!"SDFFSSR", c!"LATCH", c!"DLH", c!"DLL", c!"TLAT", c!"TLATSR"]),
  ("tri-state", [c!"TBUF", c!"TINV"]),
  ("isolation", [c!"ISOLAND", c!"ISOLANDAO", c!"ISOLOR", c!"ISOLORAO"]),
  ("clock gating", [c!"CLKGATE", c!"CLKGATETST"]),
  ("decoder", [c!"DEC24"]),
  ("tie", [c!"TIEH", c!"TIEL", c!"LOGIC0", c!"LOGIC1"]),
  ("power switch", [c!"HEAD", c!"HEAD2", c!"FOOT", c!"FOOT2"]),
  ("filler / physical only", [c!"FILLCELL", c!"ANTENNA", c!"CLOAD1", c!"DCAP", c!"DHFILLH2", c!"DHFILLHL2",
                  c!"DHFILLHLH2", c!"DHFILLLHL2", c!"DHFILLHLHLS11", c!"SHFILL1", c!"SHFILL2", c!"SHFILL3",
                  c!"SHFILL64", c!"SHFILL128"])]

def outsideBases : List Str := outside.flatMap (·.2)

/-! ## pin names -/

def pinLetters (p : Str) : Str := p.takeWhile (!·.isDigit)
def pinNumber (p : Str) : Nat := natOf ((p.dropWhile (!·.isDigit)).map digitVal)

def strLt : Str → Str → Bool
  | [], [] => false
  | [], _ :: _ => true
  | _ :: _, [] => false
  | a :: as, b :: bs => a.toNat < b.toNat || (a == b && strLt as bs)

/-- pin order of the data books: by letters, then by number (`A < B`, `A1 < A2 < A10`, `IN1 < IN2`) -/
def pinLe (a b : Str) : Bool :=
  strLt (pinLetters a) (pinLetters b) || (pinLetters a == pinLetters b && pinNumber a ≤ pinNumber b)

def insertBy {α} (le : α → α → Bool) (x : α) : List α → List α
  | [] => [x]
  | y :: ys => if le x y then x :: y :: ys else y :: insertBy le x ys
def sortBy {α} (le : α → α → Bool) (l : List α) : List α := l.foldr (insertBy le) []

def enum {α} : Nat → List α → List (α × Nat)
  | _, [] => []
  | k, a :: as => (a, k) :: enum (k + 1) as

/-- input pins (name, position in the table) in data-book order -/
def ordered (ins : List Str) : List (Str × Nat) := sortBy (fun a b => pinLe a.1 b.1) (enum 0 ins)

def dedup {α} [BEq α] : List α → List α
  | [] => []
  | a :: as => a :: (dedup as).filter (· != a)

def chunks {α} : List Nat → List α → List (List α)
  | [], _ => []
  | d :: ds, l => l.take d :: chunks ds (l.drop d)

/-- the first-level groups (as positions into the input list) of an AO/OA-type cell -/
def groupsOf (sizes : List Nat) (ins : List Str) : Option (List (List Nat)) :=
  let ord := ordered ins
  let keys := dedup (ord.map fun p => pinLetters p.1)
  if keys.length > 1 then
    let gs := keys.map fun k => (ord.filter fun p => pinLetters p.1 == k).map (·.2)
    if (gs.map List.length).isPerm sizes then some gs else none
  else
    if sizes.sum == ins.length then some (chunks sizes (ord.map (·.2))) else none

/-! ## the functions -/

def gateFn : Gate → List Bool → Bool
  | .and, v => v.all id
  | .or, v => v.any id
  | .nand, v => !v.all id
  | .nor, v => !v.any id
  | .xor, v => v.foldl xor false
  | .xnor, v => !v.foldl xor false

def aoiFn (orOfAnds inverted : Bool) (groups : List (List Nat)) (v : List Bool) : Bool :=
  let g := groups.map fun grp => grp.map fun i => v.getD i false
  let r := if orOfAnds then g.any (·.all id) else g.all (·.any id)
  if inverted then !r else r

def log2Exact : Nat → Option Nat
  | 2 => some 1
  | 4 => some 2
  | _ => none

def muxFn (data sel : List Nat) (v : List Bool) : Bool :=
  let s := (enum 0 sel).foldl (fun a p => a + (if v.getD p.1 false then 2 ^ p.2 else 0)) 0
  v.getD (data.getD s 0) false

def sumFn (v : List Bool) : Bool := v.foldl xor false
def carryFn (v : List Bool) : Bool := (v.filter id).length ≥ 2

def isSumPin (p : Str) : Bool := p == c!"S" || p == c!"SO"
def isCarryPin (p : Str) : Bool := p == c!"CO" || p == c!"C1"

def adderOuts (outs : List Str) : Option (List (List Bool → Bool)) :=
  match outs with
  | [a, b] =>
    if isSumPin a && isCarryPin b then some [sumFn, carryFn]
    else if isCarryPin a && isSumPin b then some [carryFn, sumFn]
    else none
  | _ => none

/-- `datasheet fam ins outs`: one function per output pin of `outs` (in that order) over the values of the input
    pins `ins` (in that order); `none` when the pins do not fit the family. -/
def datasheet (fam : Fam) (ins outs : List Str) : Option (List (List Bool → Bool)) :=
  match fam with
  | .gate g n => if ins.length == n && outs.length == 1 then some [gateFn g] else none
  | .buf => if ins.length == 1 && outs.length == 1 then some [fun v => v.getD 0 false] else none
  | .inv => if ins.length == 1 && outs.length == 1 then some [fun v => !v.getD 0 false] else none
  | .aoi o i sizes =>
    if outs.length == 1 then (groupsOf sizes ins).map fun gs => [aoiFn o i gs] else none
  | .mux n =>
    let ord := ordered ins
    let sel := ord.filter fun p => p.1.head? == some 'S'
    let data := ord.filter fun p => p.1.head? != some 'S'
    if outs.length == 1 && data.length == n && log2Exact n == some sel.length
        && sel.map (fun p => pinNumber p.1) == List.range sel.length
    then some [muxFn (data.map (·.2)) (sel.map (·.2))] else none
  | .halfAdder => if ins.length == 2 then adderOuts outs else none
  | .fullAdder => if ins.length == 3 then adderOuts outs else none

end KV.DS
