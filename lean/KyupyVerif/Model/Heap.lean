
namespace KV.Heap

/-! probe: address-ordered list model of sim.Heap -/
structure Chunk where
  size : Nat
  free : Bool
deriving DecidableEq, Repr

structure Heap where
  cs : List Chunk          -- address order; start of k-th = sum of sizes before
  maxSz : Nat
deriving Repr

def total (l : List Chunk) : Nat := (l.map (·.size)).sum

/-- first fit over free chunks, in address order. returns (loc, new list) -/
def allocIn (size : Nat) : Nat → List Chunk → Option (Nat × List Chunk)
  | _, [] => none
  | start, c :: rest =>
    if c.free && c.size == size then some (start, { c with free := false } :: rest)
    else if c.free && c.size > size then some (start, ⟨size, false⟩ :: ⟨c.size - size, true⟩ :: rest)
    else match allocIn size (start + c.size) rest with
      | none => none
      | some (loc, rest') => some (loc, c :: rest')

def Heap.alloc (h : Heap) (size : Nat) : Nat × Heap :=
  match allocIn size 0 h.cs with
  | some (loc, cs') => (loc, { h with cs := cs' })
  | none => let loc := total h.cs
            (loc, { cs := h.cs ++ [⟨size, false⟩], maxSz := max h.maxSz (loc + size) })

/-- drop trailing free chunk (at most one is ever there) -/
def trimLast (l : List Chunk) : List Chunk :=
  match l.getLast? with
  | some c => if c.free then l.dropLast else l
  | none => l

/-- free the used chunk starting at `loc`; `none` if there is no such chunk (outside the domain of the real `Heap.free`, which
    does not check and corrupts its tables there; `SimOps` never does it: `KV.simops_frees_live`) -/
def freeIn (loc : Nat) : Nat → List Chunk → Option (List Chunk)
  | _, [] => none
  | start, c :: rest =>
    if start == loc then
      if c.free then none else
      match rest with
      | [] => some []                                   -- last chunk: remove
      | n :: rest' => if n.free then some (⟨c.size + n.size, true⟩ :: rest')   -- merge next
                      else some (⟨c.size, true⟩ :: n :: rest')
    else if start < loc then
      match freeIn loc (start + c.size) rest with
      | none => none
      | some [] => some (if c.free then [] else [c])    -- freed chunk was last: also trim a free predecessor
      | some (d :: rest') =>
          -- merge predecessor if it is free and the freed chunk is its immediate successor
          if c.free && d.free && (start + c.size == loc) then some (⟨c.size + d.size, true⟩ :: rest')
          else some (c :: d :: rest')
    else none

def Heap.free (h : Heap) (loc : Nat) : Option Heap :=
  (freeIn loc 0 h.cs).map fun cs' => { h with cs := cs' }

/-- invariant: sizes positive, no two adjacent free chunks, last chunk not free -/
def NoAdj : List Chunk → Prop
  | [] => True
  | [c] => c.free = false
  | c :: d :: rest => ¬ (c.free = true ∧ d.free = true) ∧ NoAdj (d :: rest)

def Pos (l : List Chunk) : Prop := ∀ c ∈ l, 0 < c.size


end KV.Heap
