import KyupyVerif.Model.Netlist
import KyupyVerif.Model.Net
/-! # From the circuit the parser model builds (`KV.Netlist.Circ`) to the canonical netlist dump (`KV.Net`) — property C11

`Circ` (Model/Netlist.lean) is the circuit under construction in terms of NAMES: nodes `(kind, name)` in creation order, lines
between end points `fork name` / `cell name pin`.  `Net` (Model/Net.lean) is the canonical dump every simulation theorem speaks
about — what `harness/circ.py: dump_net` prints for a real `Circuit`: per node its kind and the two pin lists (`ins`, `outs`:
line index or `None` per pin, Python's `GrowingList`), per line `(driver index, driver pin, reader index, reader pin)`, and
`io_nodes` as node indices.

`Circ.toNet` is that dump computed from the model circuit:
* node index = position in creation order; an end point is resolved through `circuit.forks[name]` / `circuit.cells[name]`
  (`nodeIdx`; `nodes.length` when there is no such node);
* the lines are `flatLines` (a line through a branch fork is two lines); a cell pin is the pin written in the end point, a fork's
  input pin is 0, a fork's output pin is the number of earlier lines the fork drives (`free_index()` of a list without holes) —
  the same numbers the driver command `netlist` prints (`Drv/Netlist.lean: showLines`) and the C11 correspondence compares with
  the real line list;
* `ins`/`outs` of node `n` (`pinTable`): as long as the largest pin in use + 1, entry `k` = the LAST line attached to pin `k`
  (`self.reader.ins[self.reader_pin] = self` overwrites), `None` for pins never attached.

`benchNet stmts` / `verilogNet …` are the dumps of `bench stmts` / `module …` with their `io_nodes`.  The driver command `netof`
(Drv/CircNet.lean) prints them in `dump_net`'s format; the harness compares the string with `dump_net` of the real parsed circuit. -/
namespace KV.Netlist

/-- `circuit.forks[name].index` / `circuit.cells[name].index`; `nodes.length` when missing -/
def Circ.nodeIdx (C : Circ) : Ep → Nat
  | .fork n => C.nodes.findIdx fun x => x.kind == forkKind && x.name == n
  | .cell n _ => C.nodes.findIdx fun x => x.kind != forkKind && x.name == n

/-- the reader pin of an end point: a cell pin as written, a fork's only input pin -/
def Ep.rpin : Ep → Nat
  | .fork _ => 0
  | .cell _ p => p

/-- the driver pin of an end point given the lines made before: a cell pin as written, a fork's first free output pin -/
def dpinOf (done : List (Ep × Ep)) : Ep → Nat
  | .fork n => done.countP fun x => x.1 == Ep.fork n
  | .cell _ p => p

/-- the line records `(driver, driver_pin, reader, reader_pin)` in creation order -/
def Circ.lineDs (C : Circ) : List LineD :=
  (flatLines C).zipIdx.map fun p =>
    ⟨C.nodeIdx p.1.1, dpinOf ((flatLines C).take p.2) p.1.1, C.nodeIdx p.1.2, p.1.2.rpin⟩

/-- the `GrowingList` of line indices on the pins of node `n` (`node`/`pin` select the reader or the driver side) -/
def pinTable (ls : List LineD) (node pin : LineD → Nat) (n : Nat) : List (Option Nat) :=
  (List.range (((ls.filter fun l => node l == n).map fun l => pin l + 1).foldl max 0)).map fun k =>
    ((ls.zipIdx.filter fun p => node p.1 == n && pin p.1 == k).getLast?).map (·.2)

def Circ.toNet (C : Circ) (io : List Nat) : Net :=
  { nodes := (C.nodes.zipIdx.map fun p =>
      (⟨p.1.kind, pinTable C.lineDs (·.reader) (·.rpin) p.2, pinTable C.lineDs (·.driver) (·.dpin) p.2⟩ : NodeD)).toArray,
    lines := C.lineDs.toArray,
    io := io }

/-- bench: `io_nodes` are the forks named in the INPUT/OUTPUT statements -/
def Circ.ioBench (C : Circ) : List Nat := C.ioB.map fun n => C.nodeIdx (.fork n)

/-- Verilog: `io_nodes` are the `input`/`output` cells; an unassigned position (`None` in the real list) gets `nodes.length` -/
def Circ.ioVerilog (C : Circ) : List Nat := (ioNames C).map fun o => match o with
  | some n => C.nodeIdx (.cell n 0)
  | none => C.nodes.length

/-- the canonical dump of the circuit `bench.parse` builds from the statement list -/
def benchNet (stmts : List BStmt) : Net := (bench stmts).toNet (bench stmts).ioBench

/-- the canonical dump of the circuit `verilog.parse` builds (before `resolve_tlib_cells`) -/
def verilogNet (cfg : Cfg) (tl : TL) (ports : List String) (stmts : List Stmt) : Net :=
  (module cfg tl ports stmts).toNet (module cfg tl ports stmts).ioVerilog

end KV.Netlist
