import KyupyVerif.Model.Net
import KyupyVerif.Model.Heap
/-! Hand model (M) of `sim.SimOps.__init__` (sim.py:159-333): translation of a circuit into the op
list, stems for fork stripping, levelisation, reference counts and the signal-memory map.
Tied to the code by exact correspondence on `ops[:, :6]`, `level_starts`, `c_locs`, `c_caps`, `c_len`. -/
namespace KV

structure OpRow where
  lut : Nat
  out : Nat
  i0 : Nat
  i1 : Nat
  i2 : Nat
  i3 : Nat
deriving Repr, DecidableEq, Inhabited

def OpRow.ins (o : OpRow) : List Nat := [o.i0, o.i1, o.i2, o.i3]

structure Idx where
  zero : Nat
  tmp : Nat
  tmp2 : Nat
  ppi : Nat
  ppo : Nat
  len : Nat

def Net.idx (net : Net) : Idx :=
  let z := net.lines.size
  let s := net.sNodes.length
  { zero := z, tmp := z + 1, tmp2 := z + 2, ppi := z + 3, ppo := z + 3 + s, len := z + 3 + 2 * s }

def BUF1 : Nat := 0xAAAA
def INV1 : Nat := 0x5555

/-- ops emitted for one node (sim.py:181-219) -/
def nodeOpsS (tbl : List PrefixRow) (net : Net) (sn : List Nat) (ix : Idx) (strip : Bool) (n : Nat) : List OpRow :=
  let nd := net.node n
  -- a port fork that is driven from inside the circuit is scheduled like any other fork
  let drivenFork := nd.isFork && (nd.inPin 0).isSome
  match (if drivenFork then none else sPosIn sn n) with
  | some p =>
    let inp := ix.ppi + p
    let z := ix.zero
    -- first output BUF; a flip-flop's second output is inverted and further outputs are ignored; every other
    -- output of a non-flip-flop is a BUF
    let pins := if nd.isDff then nd.outs.take 2 else nd.outs
    pins.zipIdx.filterMap fun (o, k) => o.map fun l =>
      OpRow.mk (if nd.isDff && k == 1 then INV1 else BUF1) l inp z z z
  | none =>
    let z := ix.zero
    let o0 := (nd.outPin 0).getD ix.tmp
    let i0 := (nd.inPin 0).getD z
    let i1 := (nd.inPin 1).getD z
    let i2 := (nd.inPin 2).getD z
    let i3 := (nd.inPin 3).getD z
    if nd.lkind == "__fork__" then
      if strip then [] else nd.outs.zipIdx.filterMap fun (o, _) => o.map fun l => OpRow.mk BUF1 l i0 i1 i2 i3
    else
      match selectPrim tbl nd.lkind (i2 != z) (i3 != z) with
      | some sp => [OpRow.mk sp o0 i0 i1 i2 i3]
      | none => []

def nodeOps (tbl : List PrefixRow) (net : Net) (strip : Bool) (n : Nat) : List OpRow :=
  nodeOpsS tbl net net.sNodes net.idx strip n

def genOps (tbl : List PrefixRow) (net : Net) (order : List Nat) (strip : Bool) : List OpRow :=
  let sn := net.sNodes
  let ix := net.idx
  order.flatMap (nodeOpsS tbl net sn ix strip)

/-! ### stems (sim.py:223-233) -/
/-- walk back through fork drivers; fuel = number of nodes -/
def stemWalk (net : Net) : Nat → Nat → Nat
  | 0, l => l
  | fuel + 1, l =>
    let d := net.node (net.line l).driver
    if d.isFork then
      match d.inPin 0 with
      | some l' => stemWalk net fuel l'
      | none => l       -- Python would raise here (IndexError / AttributeError)
    else l

/-- `stems[l]` as an option (none = -1) for every index of the c_locs space -/
def stemsOf (net : Net) (strip : Bool) : Array (Option Nat) := Id.run do
  let mut st : Array (Option Nat) := Array.replicate net.idx.len none
  if strip then
    for n in List.range net.nodes.size do
      let nd := net.node n
      if nd.isFork then
        match nd.inPin 0 with
        | some l0 =>
          let stem := stemWalk net net.nodes.size l0
          for o in nd.outs do
            match o with
            | some ol => st := st.setIfInBounds ol (some stem)
            | none => pure ()
        | none => pure ()
  return st

def viaStem (st : Array (Option Nat)) (x : Nat) : Nat := (st.getD x none).getD x

/-! ### levelisation and reference counts (sim.py:235-255) -/
structure LevSt where
  levels : Array Nat
  refc : Array Int
  cur : Nat
  starts : List Nat      -- reversed

def levStep (st : Array (Option Nat)) (s : LevSt) (io : Nat × OpRow) : LevSt :=
  let (i, op) := io
  let a := viaStem st op.i0; let b := viaStem st op.i1; let c := viaStem st op.i2; let d := viaStem st op.i3
  let bump := s.levels.getD a 0 ≥ s.cur || s.levels.getD b 0 ≥ s.cur || s.levels.getD c 0 ≥ s.cur || s.levels.getD d 0 ≥ s.cur
  let cur' := if bump then s.cur + 1 else s.cur
  let starts' := if bump then i :: s.starts else s.starts
  let lv := s.levels.setIfInBounds op.out cur'
  let inc := fun (r : Array Int) (x : Nat) => r.setIfInBounds x (r.getD x 0 + 1)
  { levels := lv, refc := inc (inc (inc (inc s.refc a) b) c) d, cur := cur', starts := starts' }

def levelise (n : Nat) (st : Array (Option Nat)) (ops : List OpRow) : LevSt :=
  (ops.zipIdx.map fun (o, i) => (i, o)).foldl (levStep st)
    { levels := Array.replicate n 0, refc := Array.replicate n 0, cur := 1, starts := [0] }

/-! ### memory map (sim.py:257-314) -/
structure MapSt where
  heap : Heap.Heap
  locs : Array Int
  caps : Array Nat
  refc : Array Int

def allocAt (s : MapSt) (idx cap : Nat) : MapSt :=
  let (loc, h') := s.heap.alloc cap
  { s with heap := h', locs := s.locs.setIfInBounds idx (Int.ofNat loc), caps := s.caps.setIfInBounds idx cap }

def incRef (s : MapSt) (x : Nat) : MapSt := { s with refc := s.refc.setIfInBounds x (s.refc.getD x 0 + 1) }

/-- insert into a duplicate-free list -/
def setAdd (l : List Int) (x : Int) : List Int := if l.contains x then l else l ++ [x]

def freeAll (h : Heap.Heap) (locs : List Int) : Heap.Heap :=
  locs.foldl (fun h l => match h.free l.toNat with | some h' => h' | none => h) h

/-- returns the final map state; `capsIn` = requested per-signal capacities -/
def memMap (net : Net) (ops : List OpRow) (st : Array (Option Nat)) (lev : LevSt)
    (capsIn : Nat → Nat) (capsMin : Nat) (reuse : Bool) : MapSt := Id.run do
  let ix := net.idx
  let mut s : MapSt := { heap := { cs := [], maxSz := 0 }, locs := Array.replicate ix.len (-1),
                         caps := Array.replicate ix.len 0, refc := lev.refc }
  for x in [ix.zero, ix.tmp, ix.tmp2] do
    s := allocAt s x capsMin
  for x in [ix.zero, ix.tmp, ix.tmp2] do
    s := incRef s x
  let sn := net.sNodes
  for (n, i) in sn.zipIdx do
    let nd := net.node n
    if nd.outs.length > 0 then
      s := allocAt s (ix.ppi + i) capsMin
      s := incRef s (ix.ppi + i)
    if nd.ins.length > 0 then
      match nd.inPin 0 with
      | some l => s := incRef s (viaStem st l)
      | none => pure ()    -- Python raises here (unconnected data pin, finding D9)
  let starts := lev.starts.reverse
  let stops := starts.drop 1 ++ [ops.length]
  let opsA := ops.toArray
  for (a, b) in starts.zip stops do
    let mut freeSet : List Int := []
    for k in List.range (b - a) do
      let op := opsA.getD (a + k) default
      let xs := [viaStem st op.i0, viaStem st op.i1, viaStem st op.i2, viaStem st op.i3]
      for x in xs do
        s := { s with refc := s.refc.setIfInBounds x (s.refc.getD x 0 - 1) }
      for x in xs do
        if s.refc.getD x 0 ≤ 0 then freeSet := setAdd freeSet (s.locs.getD x (-1))
      if op.out != ix.tmp then     -- unconnected output: the pinned scratch location is kept
        let cap := max capsMin (capsIn op.out)
        s := allocAt s op.out cap
    if reuse then
      s := { s with heap := freeAll s.heap freeSet }
  -- stems → fan-out lines
  for (stem, l) in st.toList.zipIdx do
    match stem with
    | some t => s := { s with locs := s.locs.setIfInBounds l (s.locs.getD t (-1)), caps := s.caps.setIfInBounds l (s.caps.getD t 0) }
    | none => pure ()
  for (n, i) in sn.zipIdx do
    let nd := net.node n
    match nd.inPin 0 with
    | some l => s := { s with locs := s.locs.setIfInBounds (ix.ppo + i) (s.locs.getD l (-1)),
                              caps := s.caps.setIfInBounds (ix.ppo + i) (s.caps.getD l 0) }
    | none =>
      -- a flip-flop or latch without data connection captures the constant-0 slot
      if net.io.length ≤ i then
        s := { s with locs := s.locs.setIfInBounds (ix.ppo + i) (s.locs.getD ix.zero (-1)),
                      caps := s.caps.setIfInBounds (ix.ppo + i) (s.caps.getD ix.zero 0) }
  return s

end KV
