import KyupyVerif.Proofs.Transform
import KyupyVerif.Proofs.TransformElim
import KyupyVerif.Proofs.TransformStable
import KyupyVerif.Proofs.TransformSem6
import KyupyVerif.Proofs.Substitute4
import KyupyVerif.Proofs.SubstituteRes
/-! # C10 — copy, pickle, fork elimination and cell substitution preserve function

Objects of the theorems: the hand-written models `KV.Transform` of `Circuit.copy`, `__getstate__/__setstate__`,
`eliminate_1to1_forks` (Model/Transform.lean) and `Circuit.substitute` with `Line.remove` and
`remove_dangling_nodes(…, only=…)` (Model/Substitute.lean) on the level of the canonical netlist dump (`Net` = nodes with
kind and pin lists, lines, io list — the object every other check of this framework starts from — plus the node names).
All theorems quantify over ALL dumps satisfying the decidable predicate `NNet.wf` (every line is referenced from the two
pin entries it records, every pin entry is such a line, no trailing `None` in a pin list, names unique per class, ports
are nodes), the fork-elimination theorems over ALL fork visiting orders and both guard behaviours (`skip`: a fork without
driver raises, or is passed over — patch 06, the current tree).

* **Theorem** (kernel-checked, this file):
  - `copy_dump_eq`, `pickle_dump_eq` — the rebuilt circuit has the SAME dump, hence (`copy_pickle_same_function`) the
    same `s_nodes` names and order, the same gate-by-gate function (`evalLine`, `evalCaptures`) and the same anything
    else that is computed from the dump (`SimOps` program, levels, memory map).
  - `elim_ports` — `eliminate_1to1_forks` keeps the port list with names and order;
    `elim_state_perm` — it keeps the flip-flops and the latches (kind and name) **up to order**; the full statement
    "names AND ORDER of the state elements are kept" is FALSE for the current tree: `elim_state_order_false`
    (swap-with-last deletion moves the last node into the hole; a flip-flop moved in front of another one swaps
    their `s_nodes` positions) — the harness confirms this on the real code (class `elim-state-order`).
    `elim_stable_snames`, `elim_stable_classes` — for the REPAIRED code (`elimForksStableIn` = the same loop followed by
    `_restore_node_order`, patch 03; the harness probes which behaviour the code under test shows) the full statement
    holds: `[n.name for n in c.s_nodes]` is unchanged, names and order, and so is every class of non-fork nodes.
  - `elim_sem` — the FULL semantic statement for `eliminate_1to1_forks` (`elimForksIn`, the current tree's loop): the model
    returns with the result the index maps `Ren` (`elimForksInM`; `elim_maps_same_circuit`: same circuit as `elimForksIn`);
    every consistent labelling of the lines (the gate-by-gate meaning of a netlist, Model/Net.lean / C01) under every
    assignment, restricted and renamed along the maps, is a consistent labelling of the result under the assignment
    permuted like `s_nodes`; every surviving node reads the same value at every pin; the node map is injective, keeps
    kind, name, port list and `s_node` status and reaches every non-fork node.  `elim_sem_captures` — the same by `s_nodes`
    position (captured value, name, kind at position `p'` = those at position `sigma … p'` before).  `elim_one_sem` — the
    one-step (splice) lemma.  Extra hypothesis `NNet.forkIns1` (a fork has at most one input pin; without it a fork
    reading its own output on a second pin would be spliced onto a removed node).  No uniqueness of the labelling is
    needed; `evalCaptures_eq_capturesOf` connects `capturesOf` with the evaluator of the copy/pickle theorem.
    `elim_sem_partial` — the earlier local fact (the out-line of a non-port fork carries the value of its in-line).
  - `substitute_ports` — `substitute` keeps the port list, names and order (all cases, incl. removal of dangling logic);
    `substitute_state_perm` — the state elements of the result up to order, in all cases: those of the host with the
    cell re-classified by the designated cell's kind (or dropped when there is none) plus the added implementation nodes;
    `substitute_regular` — regular use (`regularB`: designated cell, no connected-but-ignored input, all outputs
    connected): the node table is the host's with the cell's kind replaced, followed by the added nodes — exactly;
    `substitute_snames` — the documented case in which names AND order of `s_nodes` are kept (regular use, designated
    cell of the same flip-flop/latch class as the cell, no further state element in the implementation);
    `substitute_wiring` — the pin-by-pin wiring lemma (host line at instance pin `k` is connected to what port `k` of the
    implementation was connected to, through `node_map`) and the frame (all other host nodes and line ends untouched);
    `substitute_sem_partial` — every host line not driven by the cell keeps its equation literally.  These two carry the
    hypothesis `denseB` (no copied fork had a `None` gap to be squeezed out by the loop added with the repair of D30, which
    renumbers driver pins; true whenever the forks of the implementation are gap-free).  The full semantic
    statement `substitute_sem` is written out as a comment above `substitute_sem_partial`; NOT proved: that the copied
    implementation computes the cell's function at the instance's output lines.
  - `resolve_ports` — `resolve_tlib_cells` (model `resolveCells`) keeps the port list, names and order, for every library.
* **Correspondence** (harness/c10.py, differential, not proof): model dumps after copy / pickle round trip /
  `eliminate_1to1_forks` = dumps of the real objects on random circuits (both port styles, permuted node order,
  dictionary order of the forks different from the index order, forks without driver); the index maps of `elimForksInM` =
  the identity of the real `Node` / `Line` objects before/after; `NNet.wf` and `NNet.forkIns1` are evaluated on every real
  dump (certificate that the hypotheses of the theorems hold there).  `substitute` (driver command `subst`) = the real
  `substitute()` on random hosts × random implementation circuits incl. cells of the built-in libraries (multi-output,
  outputs read internally, inputs with 0/1/many readers, no output, empty, state elements; unconnected and surplus
  instance pins), comparing canonical dumps with names; where the real code raises the model answers `none`; the
  model's `regularB` = the harness's own reading of "regular use".  `resolve_tlib_cells` (driver command `resolve`) = the
  real method on random circuits instantiating cells of the five built-in libraries and of synthetic libraries.
* **Oracle only** (harness/c10.py): the semantic statements for `substitute` (`substitute_sem`) and `resolve_tlib_cells`
  (Boolean function at ports and state elements unchanged) are not proved; they are decided on the real code by
  simulation before/after (random compositions, every library cell × pin subsets, synthetic libraries). -/
namespace KV.C10
open KV KV.Transform
variable {skip : Bool}

/-- `Circuit.copy()`: the dump of the copy equals the dump of the original -/
theorem copy_dump_eq (nn : NNet) (h : nn.wf = true) : copyNet nn = nn :=
  have w := WF.of_wf h
  rebuild_eq nn w _ (fun i hi => lookup_key nn w i hi)

/-- `pickle.loads(pickle.dumps(c))`: the dump of the unpickled circuit equals the dump of the original -/
theorem pickle_dump_eq (nn : NNet) (h : nn.wf = true) : pickleNet nn = nn :=
  rebuild_eq nn (WF.of_wf h) id (fun _ _ => rfl)

/-- consequences spelled out: same port/state names in the same order, same Boolean function on every line and at
    every capture point, for every assignment, for both transformations and any composition of them -/
theorem copy_pickle_same_function (nn : NNet) (h : nn.wf = true) (t : NNet → NNet)
    (ht : t = copyNet ∨ t = pickleNet ∨ t = copyNet ∘ pickleNet ∨ t = pickleNet ∘ copyNet) :
    (t nn).sNames = nn.sNames ∧ (t nn).net.sNodes = nn.net.sNodes ∧
    (∀ a fuel l, evalLine (t nn).net a fuel l = evalLine nn.net a fuel l) ∧
    (∀ a, evalCaptures (t nn).net a = evalCaptures nn.net a) ∧ (t nn).wf = true := by
  have e : t nn = nn := by
    rcases ht with e | e | e | e <;> subst e
    · exact copy_dump_eq nn h
    · exact pickle_dump_eq nn h
    · simp [Function.comp, pickle_dump_eq nn h, copy_dump_eq nn h]
    · simp [Function.comp, pickle_dump_eq nn h, copy_dump_eq nn h]
  rw [e]; exact ⟨rfl, rfl, fun _ _ _ => rfl, fun _ => rfl, h⟩

/-- `eliminate_1to1_forks()` (forks visited in any order): port names and their order are kept -/
theorem elim_ports (nn nn' : NNet) (order : List String) (h : nn.wf = true) (he : elimForksIn skip order nn = some nn') :
    nn'.ioNames = nn.ioNames ∧ nn'.net.io.length = nn.net.io.length := by
  have w := WF.of_wf h
  have r := (elimForksIn_obs order nn nn' ⟨w.names, w.io⟩ he).2.1
  exact ⟨r, by simpa [NNet.ioNames] using congrArg List.length r⟩

/-- … and the flip-flops and the latches are kept with kind and name, up to order -/
theorem elim_state_perm (nn nn' : NNet) (order : List String) (h : nn.wf = true) (he : elimForksIn skip order nn = some nn') :
    nn'.dffNames.Perm nn.dffNames ∧ nn'.latchNames.Perm nn.latchNames ∧
    ∀ p : String × String → Bool, (∀ name, p ("__fork__", name) = false) →
      (nn'.kindNames.filter p).Perm (nn.kindNames.filter p) := by
  have w := WF.of_wf h
  have r := (elimForksIn_obs order nn nn' ⟨w.names, w.io⟩ he).2.2
  have hd : hasSub "dff" "__fork__".toLower = false := by decide +kernel
  have hl : hasSub "latch" "__fork__".toLower = false := by decide +kernel
  exact ⟨(r _ (fun _ => hd)).map _, (r _ (fun _ => hl)).map _, r⟩

/-- the circuit of the counterexample: `a -> fork a -> DFF A -> (Q) o, (QN) -> DFF B -> o2`, `B` created last -/
def exOrder : NNet where
  net :=
    { nodes := #[⟨"input", [], [some 0]⟩, ⟨"__fork__", [some 0], [some 1]⟩, ⟨"DFF", [some 1], [some 2, some 3]⟩,
                 ⟨"output", [some 2], []⟩, ⟨"output", [some 4], []⟩, ⟨"DFF", [some 3], [some 4]⟩]
      lines := #[⟨0, 0, 1, 0⟩, ⟨1, 0, 2, 0⟩, ⟨2, 0, 3, 0⟩, ⟨2, 1, 5, 0⟩, ⟨5, 0, 4, 0⟩]
      io := [0, 3, 4] }
  names := #["a", "a", "A", "o", "o2", "B"]

/- FULL STATEMENT (false for the modelled and for the real code):
   `nn.wf → elimForksIn skip order nn = some nn' → nn'.sNames = nn.sNames`. -/
/-- fork elimination does NOT keep the order of the state elements: `s_nodes` of the example is
    `a o o2 A B` before and `a o o2 B A` after (the deleted fork's slot is filled with the last node, `B`) -/
theorem elim_state_order_false :
    exOrder.wf = true ∧ exOrder.sNames = ["a", "o", "o2", "A", "B"] ∧
    (elimForks exOrder).map NNet.sNames = some ["a", "o", "o2", "B", "A"] := by decide +kernel

/-- the repaired `eliminate_1to1_forks` (loop + `_restore_node_order`): ports and state elements keep names AND order -/
theorem elim_stable_snames (nn nn' : NNet) (order : List String) (h : nn.wf = true)
    (he : elimForksStableIn skip order nn = some nn') : nn'.sNames = nn.sNames ∧ nn'.ioNames = nn.ioNames :=
  ⟨elimStable_sNames order nn nn' (WF.of_wf h) he, (elimStable_obs order nn nn' (WF.of_wf h) he).1⟩

/-- … and so does every class of nodes other than forks (kind and name, in index order) -/
theorem elim_stable_classes (nn nn' : NNet) (order : List String) (h : nn.wf = true)
    (he : elimForksStableIn skip order nn = some nn') (p : String × String → Bool) (hp : ∀ name, p ("__fork__", name) = false) :
    nn'.kindNames.filter p = nn.kindNames.filter p :=
  (elimStable_obs order nn nn' (WF.of_wf h) he).2 p hp

/-- on the counterexample of `elim_state_order_false` the repaired loop keeps `a o o2 A B` and still removes the fork -/
example : (elimForksStable exOrder).map (fun n => (n.sNames, n.net.nodes.size, n.wf)) =
    some (["a", "o", "o2", "A", "B"], 5, true) := by decide +kernel

/-- `elimForksInM` is `elimForksIn` annotated with the index maps (`Ren`): it computes the same circuit -/
theorem elim_maps_same_circuit (nn : NNet) (order : List String) :
    (elimForksInM skip order nn).map (·.1) = elimForksIn skip order nn :=
  elimForksInM_fst order (nn, Ren.id)

/-- **`eliminate_1to1_forks` preserves the function** (full semantic statement).  For every well-formed dump whose forks
    have one input, every visiting order, the result `nn'` and the index maps `r` the model returns (`r.line l'` /
    `r.node j'` = the index the line / node object at `l'` / `j'` had before; swap-with-last deletion renumbers):
    every consistent labelling `v` of the lines of `nn` (each line carries what its driver computes, Model/Net.lean) under
    any assignment `asg`, restricted and renamed along `r`, is a consistent labelling of `nn'` under the assignment
    permuted like the `s_nodes`; every surviving node reads the same value at every input pin (in particular what is
    captured at ports and state elements); `r.node` is an injection of the nodes of `nn'` into those of `nn` that keeps
    kind, name, the port list (in order) and the `s_node` status and reaches every node that is not a fork. -/
theorem elim_sem {α : Type _} [BEq α] [LawfulBEq α] (nn nn' : NNet) (r : Ren) (order : List String)
    (h : nn.wf = true) (hf : nn.forkIns1 = true) (he : elimForksInM skip order nn = some (nn', r))
    (z : α) (neg : α → α) (prim : String → α → α → α → α → α) (asg : Nat → α) (v : Array α)
    (hc : consistentB nn.net z neg prim asg v = true) :
    elimForksIn skip order nn = some nn' ∧
    consistentB nn'.net z neg prim (reassign r nn nn' asg) (relabel r nn' v z) = true ∧
    (∀ j' k, j' < nn'.net.nodes.size → pinRead nn'.net (relabel r nn' v z) z j' k = pinRead nn.net v z (r.node j') k) ∧
    nn'.net.io.map r.node = nn.net.io ∧
    (∀ j', j' < nn'.net.nodes.size → r.node j' < nn.net.nodes.size ∧
      (nn'.net.node j').kind = (nn.net.node (r.node j')).kind ∧ nn'.names.getD j' "" = nn.names.getD (r.node j') "" ∧
      (j' ∈ nn'.net.sNodes ↔ r.node j' ∈ nn.net.sNodes)) ∧
    (∀ j1 j2, j1 < nn'.net.nodes.size → j2 < nn'.net.nodes.size → r.node j1 = r.node j2 → j1 = j2) ∧
    (∀ j, j < nn.net.nodes.size → (nn.net.node j).isFork = false → ∃ j', j' < nn'.net.nodes.size ∧ r.node j' = j) := by
  have si := SI.of_wf (WF.of_wf h) hf
  obtain ⟨s, sem⟩ := elimForksInM_sim z neg prim order nn nn' r si he
  have hb := sim_consistentB si s z neg prim sem asg v hc
  have h1 : elimForksIn skip order nn = some nn' := by
    rw [← elim_maps_same_circuit, he]; rfl
  exact ⟨h1, hb.1, hb.2, s.io, fun j' hj => ⟨s.nodeLt j' hj, s.kind j' hj, s.name j' hj, s.mem j' hj⟩, s.inj, s.surj⟩

/-- the same in `s_nodes` positions: position `p'` of the result shows the capture, the name and the kind of position
    `sigma r nn nn' p'` of the original (`capturesOf` = what `evalCapturesG` returns for the labelling) -/
theorem elim_sem_captures {α : Type _} [BEq α] [LawfulBEq α] (nn nn' : NNet) (r : Ren) (order : List String)
    (h : nn.wf = true) (hf : nn.forkIns1 = true) (he : elimForksInM skip order nn = some (nn', r))
    (z : α) (neg : α → α) (prim : String → α → α → α → α → α) (asg : Nat → α) (v : Array α)
    (hc : consistentB nn.net z neg prim asg v = true) (p' : Nat) (hp' : p' < nn'.net.sNodes.length) :
    sigma r nn nn' p' < nn.net.sNodes.length ∧
    (capturesOf nn'.net (relabel r nn' v z) z)[p']? = (capturesOf nn.net v z)[sigma r nn nn' p']? ∧
    nn'.sNames[p']? = nn.sNames[sigma r nn nn' p']? ∧
    (nn'.net.node (nn'.net.sNodes.getD p' 0)).kind = (nn.net.node (nn.net.sNodes.getD (sigma r nn nn' p') 0)).kind := by
  have si := SI.of_wf (WF.of_wf h) hf
  obtain ⟨s, sem⟩ := elimForksInM_sim z neg prim order nn nn' r si he
  exact sim_captures s v _ z (sim_consistentB si s z neg prim sem asg v hc).2 p' hp'

/-- one loop iteration (the splice): the fork's in-line takes the place of the out-line at the reader pin, the fork and
    the out-line are deleted with swap-with-last; `r = stepRen nn i b` -/
theorem elim_one_sem {α : Type _} [BEq α] [LawfulBEq α] (nn nn' : NNet) (r : Ren) (i : Nat)
    (h : nn.wf = true) (hf : nn.forkIns1 = true) (hi : i < nn.net.nodes.size) (hfk : (nn.net.node i).isFork = true)
    (he : elimOneM skip nn i = some (nn', r))
    (z : α) (neg : α → α) (prim : String → α → α → α → α → α) (asg : Nat → α) (v : Array α)
    (hc : consistentB nn.net z neg prim asg v = true) :
    elimOne skip nn i = some nn' ∧
    consistentB nn'.net z neg prim (reassign r nn nn' asg) (relabel r nn' v z) = true ∧
    (∀ j' k, j' < nn'.net.nodes.size → pinRead nn'.net (relabel r nn' v z) z j' k = pinRead nn.net v z (r.node j') k) := by
  have si := SI.of_wf (WF.of_wf h) hf
  obtain ⟨s, sem⟩ := elimOneM_sim z neg prim nn nn' r i si hi hfk he
  have hb := sim_consistentB si s z neg prim sem asg v hc
  have h1 : elimOne skip nn i = some nn' := by rw [← elimOneM_fst, he]; rfl
  exact ⟨h1, hb.1, hb.2⟩

/-- what `evalCapturesG` returns is `capturesOf` of the evaluator's labelling -/
theorem evalCaptures_eq_capturesOf {α : Type _} (net : Net) (z : α) (neg : α → α) (prim : String → α → α → α → α → α)
    (a : Nat → α) : evalCapturesG net z neg prim a = capturesOf net (evalAll net z neg prim a) z := rfl

/-- local semantic fact: the line `b` that `elimOne` deletes carries, in every consistent labelling, the value of the
    line `a` that is connected to `b`'s reader pin instead -/
theorem elim_sem_partial {α} [BEq α] [LawfulBEq α] (nn : NNet) (h : nn.wf = true)
    (z : α) (neg : α → α) (prim : String → α → α → α → α → α) (asg : Nat → α) (v : Array α)
    (hc : consistentB nn.net z neg prim asg v = true)
    (i a b : Nat) (hi : i < nn.net.nodes.size) (hf : (nn.net.node i).isFork = true) (hio : nn.net.io.contains i = false)
    (hin : (nn.net.node i).ins.head? = some (some a)) (hout : (nn.net.node i).outs.head? = some (some b)) :
    v.getD b z = v.getD a z :=
  fork_passes nn (WF.of_wf h) z neg prim asg v hc i a b hi hf hio hin hout

/-! ## `Circuit.substitute` (model: Model/Substitute.lean, tied to circuit.py by exact dump correspondence) -/

/-- `substitute(node, impl)` keeps the port list: names and order (the cell itself must not be a port) -/
theorem substitute_ports (h m h' : NNet) (c : Nat) (hw : h.wf = true) (hc : c < h.net.nodes.size)
    (hio : h.net.io.contains c = false) (he : substitute h c m = some h') :
    h'.ioNames = h.ioNames ∧ h'.net.io.length = h.net.io.length := by
  have w := WF.of_wf hw
  obtain ⟨_, _, _, _, _, _, r, _⟩ := substitute_obs h c m h' ⟨w.names, w.io⟩ hc hio he
  exact ⟨r, by simpa [NNet.ioNames] using congrArg List.length r⟩

/-- state elements of the result, up to order, in every case (also when an empty implementation or an unconnected output
    makes `substitute` remove nodes): they are the state elements of the host — the cell `c` counted with the kind of the
    designated cell (the first flip-flop/latch of the implementation if there is one) under its own name, or dropped when
    there is no designated cell — plus the further nodes of the implementation, named `<instance>~<internal name>`
    (`addedKN`); `p` = any selection of (kind, name) pairs that only accepts flip-flop/latch kinds -/
theorem substitute_state_perm (h m h' : NNet) (c : Nat) (sh : Shape) (hw : h.wf = true) (hc : c < h.net.nodes.size)
    (hio : h.net.io.contains c = false) (hs : implShape m = some sh) (he : substitute h c m = some h')
    (p : String × String → Bool) (hp : ∀ k n, p (k, n) = true → isSeqKind k = true) :
    (h'.kindNames.filter p).Perm (((match sh.des with
        | some dn => h.kindNames.set c ((m.net.node dn).kind, h.names.getD c "")
        | none => h.kindNames.eraseIdx c) ++ addedKN m (h.names.getD c "") sh.des).filter p) := by
  have w := WF.of_wf hw
  have li : LI h := ⟨w.names, w.io⟩
  obtain ⟨sh', h5, map, dang, hs', _, _, _, _, _, hk, _, hperm⟩ := substitute_obs h c m h' li hc hio he
  have : sh' = sh := Option.some.inj (hs'.symm.trans hs)
  subst this
  refine (hperm p hp).trans ?_
  rw [hk]
  cases hd : sh'.des with
  | some dn => rw [(phase1_some_obs h c m dn li hc).1]
  | none => exact ((phase1_none_obs h c m li hc hio).1.append_right _).filter p

/-- regular use (`regularB`: a designated cell exists, no connected input pin is ignored by the implementation, every
    output of the implementation is connected): nothing is removed; the nodes of the host keep index, kind and name,
    except that the cell takes the kind of the designated cell, and the other nodes of the implementation follow -/
theorem substitute_regular (h m h' : NNet) (c : Nat) (hw : h.wf = true) (hc : c < h.net.nodes.size)
    (hio : h.net.io.contains c = false) (hr : regularB h c m = true) (he : substitute h c m = some h') :
    ∃ sh dn, implShape m = some sh ∧ sh.des = some dn ∧ h'.net.io = h.net.io ∧
      h'.kindNames = h.kindNames.set c ((m.net.node dn).kind, h.names.getD c "") ++ addedKN m (h.names.getD c "") (some dn) := by
  have w := WF.of_wf hw
  have li : LI h := ⟨w.names, w.io⟩
  obtain ⟨sh, dn, map, h5, hs, hd, hcore, eh', _⟩ := substitute_regular_eq' h c m h' hr he
  have p1 := phase1_some_obs h c m dn li hc
  rw [← hd] at p1
  have o := substituteCore_obs h c m sh hs h5 map [] hcore p1.2.2.1 p1.2.2.2
  obtain ⟨h2, net4, ren, net5, _, _, hfold, hci, hco, e⟩ := substituteCore_inv h c m sh hs h5 map [] hcore
  -- the loop that makes the copied forks dense only re-wires pins
  have pd := pinsOnly_densify h5.net map
  have od := obs_of_pinsOnly h5 { h5 with net := densify h5.net map } pd rfl
  have hio' : h'.net.io = h.net.io := by
    have f := foldlM_addImplNode_obs m _ sh.des _ _ _ hfold p1.2.2.1 p1.2.2.2
    have p3 := pinsOnly_phase3 m map h2
    have p4 := pinsOnly_connectIns m map _ _ _ hci
    have p5 := pinsOnly_connectOuts m map _ _ _ hco
    subst eh'
    show (densify h5.net map).io = h.net.io
    rw [pd.2]
    subst e
    rw [(p3.trans (p4.trans p5)).2, f.2.2.2.1, hd]; rfl
  exact ⟨sh, dn, hs, hd, hio', by subst eh'; rw [od.1, o.1, p1.1, hd]⟩

/-- the documented case in which `substitute` keeps `[n.name for n in c.s_nodes]`, names AND order: regular use, the
    designated cell is of the same class as the cell it replaces (flip-flop / latch / neither, as `s_nodes` reads the
    kind) and the implementation holds no other flip-flop or latch -/
theorem substitute_snames (h m h' : NNet) (c : Nat) (hw : h.wf = true) (hc : c < h.net.nodes.size)
    (hio : h.net.io.contains c = false) (hr : regularB h c m = true) (he : substitute h c m = some h')
    (hclass : ∀ sh dn, implShape m = some sh → sh.des = some dn →
      hasSub "dff" (m.net.node dn).kind.toLower = hasSub "dff" (h.net.node c).kind.toLower ∧
      hasSub "latch" (m.net.node dn).kind.toLower = hasSub "latch" (h.net.node c).kind.toLower ∧
      ∀ j, j < m.net.nodes.size → j ≠ dn → isSeqKind (m.net.node j).kind = false) :
    h'.sNames = h.sNames ∧ h'.ioNames = h.ioNames := by
  obtain ⟨sh, dn, hs, hd, hio', hk⟩ := substitute_regular h m h' c hw hc hio hr he
  obtain ⟨c1, c2, c3⟩ := hclass sh dn hs hd
  have hports := (substitute_ports h m h' c hw hc hio he).1
  have hadd := addedKN_noSeq m (h.names.getD c "") dn c3
  refine ⟨?_, hports⟩
  rw [sNames_eq, sNames_eq, hports]
  have e1 : h'.dffNames = h.dffNames := by
    simp only [NNet.dffNames, hk]
    exact regular_names h c hc _ _ (fun k => hasSub "dff" k.toLower) c1
      (fun kn hkn => by have := hadd kn hkn; simp only [isSeqKind, Bool.or_eq_false_iff] at this; exact this.1)
  have e2 : h'.latchNames = h.latchNames := by
    simp only [NNet.latchNames, hk]
    exact regular_names h c hc _ _ (fun k => hasSub "latch" k.toLower) c2
      (fun kn hkn => by have := hadd kn hkn; simp only [isSeqKind, Bool.or_eq_false_iff] at this; exact this.2)
  rw [e1, e2]

/-- **pin-by-pin wiring** (regular use).  `map` = `node_map` of the real code (implementation node ↦ host node; every
    entry is the cell itself or a node added behind the host's nodes).  The host line at input pin `k` of the instance is
    connected to what input port `k` of the implementation was connected to (`inTarget`: the reader pin of the port's only
    line, or pin 0 of the fork created for a port with several readers); the host line at output pin `k` is driven from
    what drove output `k` of the implementation (`outTarget`: the driver pin of the port's line, or the next output of
    the fork created for an output that is also read internally).  Frame: all other nodes of the host keep their record,
    all other lines keep driver side / reader side.
    `denseB` (a Boolean function of host, cell and implementation): no copied fork has a `None` gap after the connecting loops — since the
    repair of D30 `substitute` makes such forks dense again and renumbers the driver pins of their lines, so the pin
    positions below are the implementation's only when nothing had to be squeezed (true whenever the forks of the
    implementation are gap-free, as in every library cell). -/
theorem substitute_wiring (h m h' : NNet) (c : Nat) (hw : h.wf = true) (hc : c < h.net.nodes.size)
    (hr : regularB h c m = true) (hdense : denseB h c m = true) (he : substitute h c m = some h') :
    ∃ sh map, implShape m = some sh ∧
      (∀ k x, map.getD k none = some x → x = c ∨ h.net.nodes.size ≤ x) ∧
      (∀ k ll, (h.net.node c).ins.getD k none = some ll → ∃ inn r rp, sh.inPorts[k]? = some inn ∧
        inTarget m map inn = some (r, rp) ∧ (h'.net.line ll).reader = r ∧ (h'.net.line ll).rpin = rp) ∧
      (∀ k ll, (h.net.node c).outs.getD k none = some ll → ∃ il d dp, sh.outLines[k]? = some il ∧
        outTarget m map il = some (d, dp) ∧ (h'.net.line ll).driver = d ∧ (h'.net.line ll).dpin = dp) ∧
      (∀ d, d < h.net.nodes.size → d ≠ c → h'.net.node d = h.net.node d) ∧
      (∀ l, l < h.net.lines.size → (h.net.line l).driver ≠ c →
        (h'.net.line l).driver = (h.net.line l).driver ∧ (h'.net.line l).dpin = (h.net.line l).dpin) ∧
      (∀ l, l < h.net.lines.size → (h.net.line l).reader ≠ c →
        (h'.net.line l).reader = (h.net.line l).reader ∧ (h'.net.line l).rpin = (h.net.line l).rpin) := by
  have w := WF.of_wf hw
  obtain ⟨sh, dn, map, hs, hd, hcore, hni⟩ := substitute_regular_eq h c m h' hr hdense he
  obtain ⟨fr, hm, win, wout⟩ := substituteCore_wire h c m sh hs w hc dn hd hni h' map [] hcore
  refine ⟨sh, map, hs, hm, win, wout, fr.node, ?_, ?_⟩
  · intro l hl hne
    apply fr.drv l hl
    intro hmem
    obtain ⟨k, hk⟩ := (mem_filterMap_id _ l).mp hmem
    exact hne (w.fwdOut c hc k l hk).2.1
  · intro l hl hne
    apply fr.rdr l hl
    intro hmem
    obtain ⟨k, hk⟩ := (mem_filterMap_id _ l).mp hmem
    exact hne (w.fwdIn c hc k l hk).2.1

/- FULL STATEMENT (`substitute_sem`, not proved; decided by the oracle of harness/c10.py by simulation before/after):
   let `F : (inputs : List α) → (outputs : List α)` be the function the implementation `m` computes at its output ports
   from its input ports (its unique consistent labelling, C01) — more generally, with state elements, `F` also takes the
   assignment of the implementation's flip-flops/latches and also returns their captured values.  For every host `h`,
   cell `c`, `substitute h c m = some h'` and every labelling `v` of the lines of `h` that is consistent at every line not
   driven by `c` and carries `F (values at the in-lines of c)` at the out-lines of `c` (the cell interpreted as the
   implementation's function; unconnected input pins read `z`), there is a labelling `v'` of `h'` — `v` on the host's
   surviving lines renamed by the deletions, the implementation's internal values on the copied lines — that is
   consistent for `h'` (`consistentB`), with `capturesOf h' v'` = `capturesOf h v` at the ports and state elements of
   `h` (position-wise along `s_nodes`, which `substitute_snames` shows to be unchanged in the documented case), the
   designated state element capturing what `F` returns for it.
   PROVED below: the part of this statement that concerns the host outside the cell. -/
/-- every line of the host that is not driven by the substituted cell keeps its equation literally: for every labelling
    and every assignment, `lineEq` of the result at that line equals `lineEq` of the host (same driver, same pin, same
    driver record, hence same gate function of the same in-lines) -/
theorem substitute_sem_partial {α : Type _} (h m h' : NNet) (c : Nat) (hw : h.wf = true) (hc : c < h.net.nodes.size)
    (hr : regularB h c m = true) (hdense : denseB h c m = true) (he : substitute h c m = some h')
    (sp : Nat → Option Nat) (z : α) (neg : α → α) (prim : String → α → α → α → α → α) (a : Nat → α) (v : Nat → α)
    (l : Nat) (hl : l < h.net.lines.size) (hd : (h.net.line l).driver ≠ c) :
    lineEq h'.net sp z neg prim a v l = lineEq h.net sp z neg prim a v l := by
  obtain ⟨_, _, _, _, _, _, hnode, hdrv, _⟩ := substitute_wiring h m h' c hw hc hr hdense he
  have hb := (WF.of_wf hw).back l hl
  exact lineEq_frame h.net h'.net sp z neg prim a v l (hdrv l hl hd).1 (hdrv l hl hd).2 (hnode _ hb.1 hd)

/-- `resolve_tlib_cells(tlib)` (model `resolveCells`: `substitute` for every node of the snapshot whose kind is in the
    library): the port list keeps names and order, for every library, provided no port node is itself a library cell -/
theorem resolve_ports (lib : Lib) (h h' : NNet) (hw : h.wf = true)
    (hp : (h.net.io.all fun i => (lib.find (h.net.node i).kind).isNone) = true) (he : resolveCells lib h = some h') :
    h'.ioNames = h.ioNames ∧ h'.net.io.length = h.net.io.length := by
  have w := WF.of_wf hw
  have hk : ∀ k ∈ ioKinds h, lib.find k = none := by
    intro k hk
    obtain ⟨i, hi, e⟩ := List.mem_map.mp hk
    have := List.all_eq_true.mp hp i hi
    rw [← e]
    simpa [kindAt, Net.node] using this
  have r := (resolve_fold lib h.keys h h' he ⟨w.names, w.io⟩ hk).1
  exact ⟨r, by simpa [NNet.ioNames] using congrArg List.length r⟩

/-! ## non-vacuity -/
/-- a well-formed dump with an unconnected pin, a two-output flip-flop, fan-out and both node classes sharing a name -/
def exWf : NNet where
  net :=
    { nodes := #[⟨"input", [], [some 0]⟩, ⟨"__fork__", [some 0], [some 1, some 2]⟩,
                 ⟨"AND3", [some 1, none, some 5], [some 3]⟩, ⟨"DFF", [some 2], [some 4, some 5]⟩,
                 ⟨"__fork__", [some 3], [some 6]⟩, ⟨"output", [some 6], []⟩, ⟨"output", [some 4], []⟩]
      lines := #[⟨0, 0, 1, 0⟩, ⟨1, 0, 2, 0⟩, ⟨1, 1, 3, 0⟩, ⟨2, 0, 4, 0⟩, ⟨3, 0, 6, 0⟩, ⟨3, 1, 2, 2⟩, ⟨4, 0, 5, 0⟩]
      io := [0, 5, 6] }
  names := #["a", "a", "g", "ff", "g", "z", "q"]

example : exWf.wf = true := by decide +kernel
example : copyNet exWf = exWf := copy_dump_eq exWf (by decide +kernel)
/-- the hypotheses of `elim_ports` / `elim_state_perm` are satisfiable and the loop really removes something -/
example : exWf.wf = true ∧ (elimForks exWf).map (fun n => (n.net.nodes.size, n.net.lines.size, n.ioNames)) =
    some (6, 6, ["a", "z", "q"]) := by decide +kernel
/-- `wf` rejects a dump whose pin entry does not point back (so it is not trivially true) -/
example : ({ exWf with net := { exWf.net with lines := exWf.net.lines.set! 1 ⟨1, 0, 3, 0⟩ } } : NNet).wf = false := by
  decide +kernel
/-- a trailing `None` in a pin list is the one thing `copy` does not reproduce (hence part of `wf`) -/
example : let nn : NNet := { net := { nodes := #[⟨"AND2", [none], []⟩], lines := #[], io := [] }, names := #["g"] }
    nn.wf = false ∧ (copyNet nn).net.nodes.toList.map (·.ins) = [[]] := by decide +kernel
/-- hypotheses of `elim_sem_partial`: a consistent labelling of `exWf` exists (the evaluator's), fork 4 is a 1:1 fork -/
example : consistentB exWf.net false (!·) prim2 (fun j => j == 0) (evalAll exWf.net false (!·) prim2 (fun j => j == 0)) = true ∧
    (exWf.net.node 4).isFork = true ∧ exWf.net.io.contains 4 = false ∧
    (exWf.net.node 4).ins.head? = some (some 3) ∧ (exWf.net.node 4).outs.head? = some (some 6) := by decide +kernel
/-- hypotheses of `elim_sem` / `elim_sem_captures` / `elim_one_sem`: `exWf` is well-formed with one-input forks, the loop
    removes fork 4 (the last node, `q`, moves into its slot and the last line into the slot of line 6: non-trivial maps),
    and the evaluator's labelling is consistent; the conclusion evaluated on it -/
example : exWf.wf = true ∧ exWf.forkIns1 = true ∧
    (elimForksInM false exWf.forkNames exWf).map (fun p => ((List.range p.1.net.nodes.size).map p.2.node,
      (List.range p.1.net.lines.size).map p.2.line)) = some ([0, 1, 2, 3, 6, 5], [0, 1, 2, 3, 4, 5]) ∧
    (elimOneM false exWf 4).map (fun p => (p.1.net.nodes.size, p.1.net.lines.size)) = some (6, 6) ∧
    (exWf.net.node 4).isFork = true ∧
    consistentB exWf.net false (!·) prim2 (fun j => j == 0) (evalAll exWf.net false (!·) prim2 (fun j => j == 0)) = true ∧
    ((elimForksInM false exWf.forkNames exWf).map fun p =>
      consistentB p.1.net false (!·) prim2 (reassign p.2 exWf p.1 (fun j => j == 0))
        (relabel p.2 p.1 (evalAll exWf.net false (!·) prim2 (fun j => j == 0)) false)) = some true := by decide +kernel

/-- on `exOrder` the line map is not the identity either: line 1 is deleted, the last line (4) takes its index; node 1 is
    deleted, the last node (5, flip-flop `B`) takes its index — `sigma` exchanges the positions of `A` and `B` -/
example : exOrder.wf = true ∧ exOrder.forkIns1 = true ∧
    (elimForksInM false exOrder.forkNames exOrder).map (fun p => ((List.range p.1.net.nodes.size).map p.2.node,
      (List.range p.1.net.lines.size).map p.2.line, (List.range p.1.net.sNodes.length).map (sigma p.2 exOrder p.1))) =
      some ([0, 5, 2, 3, 4], [0, 4, 2, 3], [0, 1, 2, 4, 3]) ∧
    consistentB exOrder.net false (!·) prim2 (fun j => j == 0 || j == 4)
      (evalAll exOrder.net false (!·) prim2 (fun j => j == 0 || j == 4)) = true := by decide +kernel

/-! ### `substitute` -/
/-- an implementation (as `TechLib` builds it: bench text, 1:1 forks eliminated) with two outputs, an input with two
    readers (`A`), an input with one reader (`B`) and an output that is also read internally (`X`):
    `input(A,B) output(X,Y) T=NAND2(A,B) X=INV1(T) Y=OR2(A,X)` -/
def exImpl : NNet :=
  { net := { nodes := #[⟨"__fork__", [], [some 1, some 6]⟩, ⟨"__fork__", [], [some 2]⟩, ⟨"__fork__", [some 3], [some 4]⟩,
                        ⟨"__fork__", [some 5], []⟩, ⟨"NAND2", [some 1, some 2], [some 0]⟩, ⟨"OR2", [some 6, some 4], [some 5]⟩,
                        ⟨"INV1", [some 0], [some 3]⟩],
             lines := #[⟨4, 0, 6, 0⟩, ⟨0, 0, 4, 0⟩, ⟨1, 0, 4, 1⟩, ⟨6, 0, 2, 0⟩, ⟨2, 0, 5, 1⟩, ⟨5, 0, 3, 0⟩, ⟨0, 1, 5, 0⟩],
             io := [0, 1, 2, 3] },
    names := #["A", "B", "X", "Y", "T", "Y", "X"] }
/-- a host with the instance `u` (node 2) between two inputs, an output and a flip-flop -/
def exHost : NNet :=
  { net := { nodes := #[⟨"input", [], [some 0]⟩, ⟨"input", [], [some 2]⟩, ⟨"AOCELL", [some 1, some 2], [some 3, some 4]⟩,
                        ⟨"output", [some 3], []⟩, ⟨"DFF", [some 4, some 6], [some 5]⟩, ⟨"output", [some 5], []⟩,
                        ⟨"__fork__", [some 0], [some 1, some 6]⟩],
             lines := #[⟨0, 0, 6, 0⟩, ⟨6, 0, 2, 0⟩, ⟨1, 0, 2, 1⟩, ⟨2, 0, 3, 0⟩, ⟨2, 1, 4, 0⟩, ⟨4, 0, 5, 0⟩, ⟨6, 1, 4, 1⟩],
             io := [0, 1, 3, 5] },
    names := #["a", "b", "u", "z", "ff", "q", "a"] }

/-- hypotheses of `substitute_ports` / `_state_perm` / `_regular` / `_snames` / `_wiring` / `_sem_partial` are satisfiable:
    the designated cell is `X=INV1` (node 6 of the implementation); the result is the dump the real code produces
    (harness/c10.py compares such dumps on random inputs) -/
example : exHost.wf = true ∧ exHost.net.io.contains 2 = false ∧ regularB exHost 2 exImpl = true ∧ denseB exHost 2 exImpl = true ∧
    (implShape exImpl).map (fun sh => (sh.inPorts, sh.outLines, sh.des)) = some ([0, 1], [3, 5], some 6) ∧
    -- the class condition of `substitute_snames`
    hasSub "dff" (exImpl.net.node 6).kind.toLower = hasSub "dff" (exHost.net.node 2).kind.toLower ∧
    hasSub "latch" (exImpl.net.node 6).kind.toLower = hasSub "latch" (exHost.net.node 2).kind.toLower ∧
    ((List.range exImpl.net.nodes.size).all fun j => j == 6 || !isSeqKind (exImpl.net.node j).kind) = true := by decide +kernel
example : (substitute exHost 2 exImpl).map (fun r => (r.kindNames.drop 7, r.sNames)) =
    some ([("__fork__", "u~A"), ("__fork__", "u~X"), ("NAND2", "u~T"), ("OR2", "u~Y")], ["a", "b", "z", "q", "ff"]) := by
  decide +kernel
example : (substitute exHost 2 exImpl).map (fun r => (r.net.lines.toList.drop 7, (r.net.node 2).kind, (r.net.node 2).ins, (r.net.node 2).outs)) =
    some ([⟨9, 0, 2, 0⟩, ⟨7, 0, 9, 0⟩, ⟨2, 0, 8, 0⟩, ⟨8, 0, 10, 1⟩, ⟨7, 1, 10, 0⟩], "INV1", [some 7], [some 9]) := by
  decide +kernel
example : (substitute exHost 2 exImpl).map (fun r => (r.net.line 1, r.net.line 2, r.net.line 3, r.net.line 4)) =
    some (⟨6, 0, 7, 0⟩, ⟨1, 0, 9, 1⟩, ⟨8, 1, 3, 0⟩, ⟨10, 0, 4, 0⟩) := by decide +kernel

/-- the removing cases are modelled too (they are covered by `substitute_ports` and `substitute_state_perm`): with output
    pin 1 of the instance unconnected the `OR2` of `exImpl` dangles and is removed; with an implementation that ignores
    its input and has no node of its own the cell and its in-line are removed, and the last node takes the cell's index -/
def exHostU : NNet :=
  { net := { nodes := #[⟨"input", [], [some 0]⟩, ⟨"input", [], [some 2]⟩, ⟨"AOCELL", [some 1, some 2], [some 3]⟩,
                        ⟨"output", [some 3], []⟩, ⟨"DFF", [none, some 5], [some 4]⟩, ⟨"output", [some 4], []⟩,
                        ⟨"__fork__", [some 0], [some 1, some 5]⟩],
             lines := #[⟨0, 0, 6, 0⟩, ⟨6, 0, 2, 0⟩, ⟨1, 0, 2, 1⟩, ⟨2, 0, 3, 0⟩, ⟨4, 0, 5, 0⟩, ⟨6, 1, 4, 1⟩],
             io := [0, 1, 3, 5] },
    names := #["a", "b", "u", "z", "ff", "q", "a"] }
def exFill : NNet :=
  { net := { nodes := #[⟨"input", [], [some 0]⟩, ⟨"FILL", [some 0], []⟩, ⟨"DFF", [], []⟩], lines := #[⟨0, 0, 1, 0⟩], io := [0] },
    names := #["a", "u", "ff"] }
example : exHostU.wf = true ∧ exHostU.net.io.contains 2 = false ∧ regularB exHostU 2 exImpl = false ∧
    (substitute exHostU 2 exImpl).map (fun r => (r.net.nodes.size, r.kindNames.drop 7, r.sNames)) =
      some (10, [("__fork__", "u~A"), ("__fork__", "u~X"), ("NAND2", "u~T")], ["a", "b", "z", "q", "ff"]) := by decide +kernel
example : exFill.wf = true ∧
    (substitute exFill 1 { net := { nodes := #[⟨"__fork__", [], []⟩], lines := #[], io := [0] }, names := #["A"] }).map
      (fun r => (r.kindNames, r.net.lines.size)) = some ([("input", "a"), ("DFF", "ff")], 0) := by decide +kernel

/-- hypotheses of `resolve_ports`: the host of the example with the library `AOCELL ↦ exImpl` -/
example : exHost.wf = true ∧ (exHost.net.io.all fun i => (Lib.find [("AOCELL", exImpl)] (exHost.net.node i).kind).isNone) = true ∧
    (resolveCells [("AOCELL", exImpl)] exHost).map (fun r => (r.net.nodes.size, r.ioNames)) = some (11, ["a", "b", "z", "q"]) := by
  decide +kernel

end KV.C10
