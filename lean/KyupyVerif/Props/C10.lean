import KyupyVerif.Proofs.Transform
import KyupyVerif.Proofs.TransformElim
import KyupyVerif.Proofs.TransformStable
/-! # C10 — copy, pickle, fork elimination and cell substitution preserve function

Object of the theorems: the hand-written model `KV.Transform` (Model/Transform.lean) of `Circuit.copy`,
`__getstate__/__setstate__` and `eliminate_1to1_forks` (circuit.py) on the level of the canonical netlist dump
(`Net` = nodes with kind and pin lists, lines, io list — the object every other check of this framework starts
from — plus the node names).  All theorems quantify over ALL dumps satisfying the decidable predicate `NNet.wf`
(every line is referenced from the two pin entries it records, every pin entry is such a line, no trailing `None`
in a pin list, names unique per class, ports are nodes), over ALL fork visiting orders and both guard behaviours
(`skip`: a fork without driver raises — current tree — or is passed over — patch 06).

* **Theorem** (kernel-checked, this file):
  `copy_dump_eq`, `pickle_dump_eq` — the rebuilt circuit has the SAME dump, hence (`copy_pickle_same_function`) the
  same `s_nodes` names and order, the same gate-by-gate function (`evalLine`, `evalCaptures`) and the same anything
  else that is computed from the dump (`SimOps` program, levels, memory map).
  `elim_ports` — `eliminate_1to1_forks` keeps the port list with names and order;
  `elim_state_perm` — it keeps the flip-flops and the latches (kind and name) **up to order**; the full statement
  "names AND ORDER of the state elements are kept" is FALSE for the current tree: `elim_state_order_false`
  (swap-with-last deletion moves the last node into the hole; a flip-flop moved in front of another one swaps
  their `s_nodes` positions) — the harness confirms this on the real code (class `elim-state-order`).
  `elim_stable_snames`, `elim_stable_classes` — for the REPAIRED code (`elimForksStableIn` = the same loop followed by
  `_restore_node_order`, patch 03; the harness probes which behaviour the code under test shows) the full statement
  holds: `[n.name for n in c.s_nodes]` is unchanged, names and order, and so is every class of non-fork nodes.
  `elim_sem_partial` — the local fact behind the splice: in every consistent labelling of the lines (the
  gate-by-gate meaning of a netlist, C01) the out-line of a non-port fork carries the value of its in-line, which
  `elimOne` puts in its place.
* **Correspondence** (harness/c10.py, differential, not proof): model dumps after copy / pickle round trip /
  `eliminate_1to1_forks` = dumps of the real objects on random circuits (both port styles, permuted node order,
  dictionary order of the forks different from the index order, forks without driver); `NNet.wf` is evaluated on
  every real dump (certificate that the hypothesis of the theorems holds there).
* **Oracle only** (harness/c10.py): `substitute`, `resolve_tlib_cells`, `remove_dangling_nodes` are not modelled;
  the full semantic statement for fork elimination (the restricted labelling is consistent for the result, with
  lines and nodes renamed) is not proved.  Both are decided on the real code by simulation before/after
  (random compositions, every library cell × pin subsets, synthetic libraries). -/
namespace KV.C10
open KV KV.Transform
variable {skip : Bool}

/-- `Circuit.copy()`: the dump of the copy equals the dump of the original -/
theorem copy_dump_eq (nn : NNet) (h : nn.wf = true) : copyNet nn = nn :=
  have w := WF.of_wf h
  rebuild_eq nn w _ (fun i hi => lookup_key nn w i hi)

/-- `pickle.loads(pickle.dumps(c))`: the dump of the unpickled circuit equals the dump of the original -/
theorem pickle_dump_eq (nn : NNet) (h : nn.wf = true) : pickleNet nn = nn :=
  rebuild_eq nn (WF.of_wf h) id (fun _ _ => rfl)

/-- consequences spelled out: same port/state names in the same order, same Boolean function on every line and at
    every capture point, for every assignment, for both transformations and any composition of them -/
theorem copy_pickle_same_function (nn : NNet) (h : nn.wf = true) (t : NNet → NNet)
    (ht : t = copyNet ∨ t = pickleNet ∨ t = copyNet ∘ pickleNet ∨ t = pickleNet ∘ copyNet) :
    (t nn).sNames = nn.sNames ∧ (t nn).net.sNodes = nn.net.sNodes ∧
    (∀ a fuel l, evalLine (t nn).net a fuel l = evalLine nn.net a fuel l) ∧
    (∀ a, evalCaptures (t nn).net a = evalCaptures nn.net a) ∧ (t nn).wf = true := by
  have e : t nn = nn := by
    rcases ht with e | e | e | e <;> subst e
    · exact copy_dump_eq nn h
    · exact pickle_dump_eq nn h
    · simp [Function.comp, pickle_dump_eq nn h, copy_dump_eq nn h]
    · simp [Function.comp, pickle_dump_eq nn h, copy_dump_eq nn h]
  rw [e]; exact ⟨rfl, rfl, fun _ _ _ => rfl, fun _ => rfl, h⟩

/-- `eliminate_1to1_forks()` (forks visited in any order): port names and their order are kept -/
theorem elim_ports (nn nn' : NNet) (order : List String) (h : nn.wf = true) (he : elimForksIn skip order nn = some nn') :
    nn'.ioNames = nn.ioNames ∧ nn'.net.io.length = nn.net.io.length := by
  have w := WF.of_wf h
  have r := (elimForksIn_obs order nn nn' ⟨w.names, w.io⟩ he).2.1
  exact ⟨r, by simpa [NNet.ioNames] using congrArg List.length r⟩

/-- … and the flip-flops and the latches are kept with kind and name, up to order -/
theorem elim_state_perm (nn nn' : NNet) (order : List String) (h : nn.wf = true) (he : elimForksIn skip order nn = some nn') :
    nn'.dffNames.Perm nn.dffNames ∧ nn'.latchNames.Perm nn.latchNames ∧
    ∀ p : String × String → Bool, (∀ name, p ("__fork__", name) = false) →
      (nn'.kindNames.filter p).Perm (nn.kindNames.filter p) := by
  have w := WF.of_wf h
  have r := (elimForksIn_obs order nn nn' ⟨w.names, w.io⟩ he).2.2
  have hd : hasSub "dff" "__fork__".toLower = false := by decide +kernel
  have hl : hasSub "latch" "__fork__".toLower = false := by decide +kernel
  exact ⟨(r _ (fun _ => hd)).map _, (r _ (fun _ => hl)).map _, r⟩

/-- the circuit of the counterexample: `a -> fork a -> DFF A -> (Q) o, (QN) -> DFF B -> o2`, `B` created last -/
def exOrder : NNet where
  net :=
    { nodes := #[⟨"input", [], [some 0]⟩, ⟨"__fork__", [some 0], [some 1]⟩, ⟨"DFF", [some 1], [some 2, some 3]⟩,
                 ⟨"output", [some 2], []⟩, ⟨"output", [some 4], []⟩, ⟨"DFF", [some 3], [some 4]⟩]
      lines := #[⟨0, 0, 1, 0⟩, ⟨1, 0, 2, 0⟩, ⟨2, 0, 3, 0⟩, ⟨2, 1, 5, 0⟩, ⟨5, 0, 4, 0⟩]
      io := [0, 3, 4] }
  names := #["a", "a", "A", "o", "o2", "B"]

/- FULL STATEMENT (false for the modelled and for the real code):
   `nn.wf → elimForksIn skip order nn = some nn' → nn'.sNames = nn.sNames`. -/
/-- fork elimination does NOT keep the order of the state elements: `s_nodes` of the example is
    `a o o2 A B` before and `a o o2 B A` after (the deleted fork's slot is filled with the last node, `B`) -/
theorem elim_state_order_false :
    exOrder.wf = true ∧ exOrder.sNames = ["a", "o", "o2", "A", "B"] ∧
    (elimForks exOrder).map NNet.sNames = some ["a", "o", "o2", "B", "A"] := by decide +kernel

/-- the repaired `eliminate_1to1_forks` (loop + `_restore_node_order`): ports and state elements keep names AND order -/
theorem elim_stable_snames (nn nn' : NNet) (order : List String) (h : nn.wf = true)
    (he : elimForksStableIn skip order nn = some nn') : nn'.sNames = nn.sNames ∧ nn'.ioNames = nn.ioNames :=
  ⟨elimStable_sNames order nn nn' (WF.of_wf h) he, (elimStable_obs order nn nn' (WF.of_wf h) he).1⟩

/-- … and so does every class of nodes other than forks (kind and name, in index order) -/
theorem elim_stable_classes (nn nn' : NNet) (order : List String) (h : nn.wf = true)
    (he : elimForksStableIn skip order nn = some nn') (p : String × String → Bool) (hp : ∀ name, p ("__fork__", name) = false) :
    nn'.kindNames.filter p = nn.kindNames.filter p :=
  (elimStable_obs order nn nn' (WF.of_wf h) he).2 p hp

/-- on the counterexample of `elim_state_order_false` the repaired loop keeps `a o o2 A B` and still removes the fork -/
example : (elimForksStable exOrder).map (fun n => (n.sNames, n.net.nodes.size, n.wf)) =
    some (["a", "o", "o2", "A", "B"], 5, true) := by decide +kernel

/- FULL STATEMENT (`elim_sem`, not proved; decided by the oracle): for `elimOne skip nn i = some nn'` and every labelling
   `v` consistent for `nn`, the labelling `v'` of the remaining lines (`v' l' = v (if l' = b then last else l')`)
   is consistent for `nn'` under the assignment permuted like `s_nodes`. -/
/-- local semantic fact: the line `b` that `elimOne` deletes carries, in every consistent labelling, the value of the
    line `a` that is connected to `b`'s reader pin instead -/
theorem elim_sem_partial {α} [BEq α] [LawfulBEq α] (nn : NNet) (h : nn.wf = true)
    (z : α) (neg : α → α) (prim : String → α → α → α → α → α) (asg : Nat → α) (v : Array α)
    (hc : consistentB nn.net z neg prim asg v = true)
    (i a b : Nat) (hi : i < nn.net.nodes.size) (hf : (nn.net.node i).isFork = true) (hio : nn.net.io.contains i = false)
    (hin : (nn.net.node i).ins.head? = some (some a)) (hout : (nn.net.node i).outs.head? = some (some b)) :
    v.getD b z = v.getD a z :=
  fork_passes nn (WF.of_wf h) z neg prim asg v hc i a b hi hf hio hin hout

/-! ## non-vacuity -/
/-- a well-formed dump with an unconnected pin, a two-output flip-flop, fan-out and both node classes sharing a name -/
def exWf : NNet where
  net :=
    { nodes := #[⟨"input", [], [some 0]⟩, ⟨"__fork__", [some 0], [some 1, some 2]⟩,
                 ⟨"AND3", [some 1, none, some 5], [some 3]⟩, ⟨"DFF", [some 2], [some 4, some 5]⟩,
                 ⟨"__fork__", [some 3], [some 6]⟩, ⟨"output", [some 6], []⟩, ⟨"output", [some 4], []⟩]
      lines := #[⟨0, 0, 1, 0⟩, ⟨1, 0, 2, 0⟩, ⟨1, 1, 3, 0⟩, ⟨2, 0, 4, 0⟩, ⟨3, 0, 6, 0⟩, ⟨3, 1, 2, 2⟩, ⟨4, 0, 5, 0⟩]
      io := [0, 5, 6] }
  names := #["a", "a", "g", "ff", "g", "z", "q"]

example : exWf.wf = true := by decide +kernel
example : copyNet exWf = exWf := copy_dump_eq exWf (by decide +kernel)
/-- the hypotheses of `elim_ports` / `elim_state_perm` are satisfiable and the loop really removes something -/
example : exWf.wf = true ∧ (elimForks exWf).map (fun n => (n.net.nodes.size, n.net.lines.size, n.ioNames)) =
    some (6, 6, ["a", "z", "q"]) := by decide +kernel
/-- `wf` rejects a dump whose pin entry does not point back (so it is not trivially true) -/
example : ({ exWf with net := { exWf.net with lines := exWf.net.lines.set! 1 ⟨1, 0, 3, 0⟩ } } : NNet).wf = false := by
  decide +kernel
/-- a trailing `None` in a pin list is the one thing `copy` does not reproduce (hence part of `wf`) -/
example : let nn : NNet := { net := { nodes := #[⟨"AND2", [none], []⟩], lines := #[], io := [] }, names := #["g"] }
    nn.wf = false ∧ (copyNet nn).net.nodes.toList.map (·.ins) = [[]] := by decide +kernel
/-- hypotheses of `elim_sem_partial`: a consistent labelling of `exWf` exists (the evaluator's), fork 4 is a 1:1 fork -/
example : consistentB exWf.net false (!·) prim2 (fun j => j == 0) (evalAll exWf.net false (!·) prim2 (fun j => j == 0)) = true ∧
    (exWf.net.node 4).isFork = true ∧ exWf.net.io.contains 4 = false ∧
    (exWf.net.node 4).ins.head? = some (some 3) ∧ (exWf.net.node 4).outs.head? = some (some 6) := by decide +kernel

end KV.C10
