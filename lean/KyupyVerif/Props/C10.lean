import KyupyVerif.Proofs.Transform
import KyupyVerif.Proofs.TransformElim
import KyupyVerif.Proofs.TransformStable
import KyupyVerif.Proofs.TransformSem6
import KyupyVerif.Proofs.TransformSem7
import KyupyVerif.Proofs.CopyTrim
import KyupyVerif.Proofs.Substitute4
import KyupyVerif.Proofs.SubstituteRes
import KyupyVerif.Proofs.SubstSem9
import KyupyVerif.Proofs.SubstResolve
import KyupyVerif.Proofs.SubstSem10
import KyupyVerif.Proofs.SubstGen17
import KyupyVerif.Proofs.SubstGen23
/-! # C10 — copy, pickle, fork elimination and cell substitution preserve function

Objects of the theorems: the hand-written models `KV.Transform` of `Circuit.copy`, `__getstate__/__setstate__`,
`eliminate_1to1_forks` (Model/Transform.lean) and `Circuit.substitute` with `Line.remove` and
`remove_dangling_nodes(…, only=…)` (Model/Substitute.lean) on the level of the canonical netlist dump (`Net` = nodes with
kind and pin lists, lines, io list — the object every other check of this framework starts from — plus the node names).
All theorems quantify over ALL dumps satisfying the decidable predicate `NNet.wf` (every line is referenced from the two
pin entries it records, every pin entry is such a line, no trailing `None` in a pin list, names unique per class, ports
are nodes), the fork-elimination theorems over ALL fork visiting orders and both guard behaviours (`skip`: a fork without
driver raises, or is passed over — patch 06, the current tree).

* **Theorem** (kernel-checked, this file):
  - `copy_dump_eq`, `pickle_dump_eq` — the rebuilt circuit has the SAME dump, hence (`copy_pickle_same_function`) the
    same `s_nodes` names and order, the same gate-by-gate function (`evalLine`, `evalCaptures`) and the same anything
    else that is computed from the dump (`SimOps` program, levels, memory map).
  - **`copy_trims`, `trim_wf_id`, `copy_wfNoTrail_same_function`** (Proofs/CopyTrim.lean; audit finding 5 b2) — `copy()` / pickle round
    trip of a dump that is well-formed only up to trailing `None`s (`wfNoTrail`: the shape `substitute_sem_general` /
    `resolve_sem_general` return; `copyNet` does change such a dump): the rebuilt circuit is the dump with the trailing `None`s of
    every pin list trimmed (`trimNet`); it is `wf`, has the same names, kinds, lines, ports, `s_nodes` (names and order), every node
    reads / drives the same lines at every pin and exactly the same labellings are consistent.  So resolve → copy / pickle →
    eliminate chains in theorems: `resolve_sem_general` (result `wfNoTrail`) → `copy_wfNoTrail_same_function` (result `wf`, same
    function) → `elim_sem` / `elim_sem_converse` / `elim_wf`.  (`elim_*` themselves are stated for `wf` inputs; by the above every
    `wfNoTrail` dump is one `copy()` away from a `wf` dump with the same function.)
  - `elim_ports` — `eliminate_1to1_forks` keeps the port list with names and order;
    `elim_state_perm` — it keeps the flip-flops and the latches (kind and name) **up to order**; the full statement
    "names AND ORDER of the state elements are kept" is FALSE for the current tree: `elim_state_order_false`
    (swap-with-last deletion moves the last node into the hole; a flip-flop moved in front of another one swaps
    their `s_nodes` positions) — the harness confirms this on the real code (class `elim-state-order`).
    `elim_stable_snames`, `elim_stable_classes` — for the REPAIRED code (`elimForksStableIn` = the same loop followed by
    `_restore_node_order`, patch 03; the harness probes which behaviour the code under test shows) the full statement
    holds: `[n.name for n in c.s_nodes]` is unchanged, names and order, and so is every class of non-fork nodes.
  - `elim_sem` — the FORWARD semantic statement for `eliminate_1to1_forks` (`elimForksIn`, the current tree's loop; the converse is
    `elim_sem_converse` below — audit finding 5: the earlier header called the forward direction "the full statement"): the model
    returns with the result the index maps `Ren` (`elimForksInM`; `elim_maps_same_circuit`: same circuit as `elimForksIn`);
    every consistent labelling of the lines (the gate-by-gate meaning of a netlist, Model/Net.lean / C01) under every
    assignment, restricted and renamed along the maps, is a consistent labelling of the result under the assignment
    permuted like `s_nodes`; every surviving node reads the same value at every pin; the node map is injective, keeps
    kind, name, port list and `s_node` status and reaches every non-fork node.  `elim_sem_captures` — the same by `s_nodes`
    position (captured value, name, kind at position `p'` = those at position `sigma … p'` before).  `elim_one_sem` — the
    one-step (splice) lemma.  Extra hypothesis `NNet.forkIns1` (a fork has at most one input pin; without it a fork
    reading its own output on a second pin would be spliced onto a removed node).  `evalCaptures_eq_capturesOf` connects `capturesOf` with the evaluator of the copy/pickle theorem.
    **`elim_sem_converse`** (Proofs/TransformSem7.lean) — the CONVERSE and UNIQUENESS: every consistent labelling of the result (under
    the permuted assignment) is `relabel` of a consistent labelling of the original (a removed fork is 1:1, the removed line carries
    the value of the fork's in-line), and two consistent labellings of the original with the same `relabel` agree on every line:
    `v ↦ relabel r nn' v z` is a bijection between the consistent labellings of `nn` and of `nn'` — no acyclicity needed.  Under
    acyclicity (C01: the consistent labelling exists and is unique, it is the evaluator's) this gives `evalCaptures` of the result =
    `evalCaptures` of the original permuted by `sigma` (from `elim_sem_captures`); not restated here.
    **`elim_wf`** — the result is `wf` with `forkIns1`, so `copy_dump_eq` / `pickle_dump_eq` (`elim_then_copy`), `elim_*` again,
    `substitute_*` and C01 apply to it: the theorems chain.  (A preserved topological order is not exported.)
    `elim_sem_partial` — the earlier local fact (the out-line of a non-port fork carries the value of its in-line).
  - `substitute_ports` — `substitute` keeps the port list, names and order (all cases, incl. removal of dangling logic);
    `substitute_state_perm` — the state elements of the result up to order, in all cases: those of the host with the
    cell re-classified by the designated cell's kind (or dropped when there is none) plus the added implementation nodes;
    `substitute_regular` — regular use (`regularB`: designated cell, no connected-but-ignored input, all outputs
    connected): the node table is the host's with the cell's kind replaced, followed by the added nodes — exactly;
    `substitute_snames` — the documented case in which names AND order of `s_nodes` are kept (regular use, designated
    cell of the same flip-flop/latch class as the cell, no further state element in the implementation);
    `substitute_wiring` — the pin-by-pin wiring lemma (host line at instance pin `k` is connected to what port `k` of the
    implementation was connected to, through `node_map`) and the frame (all other host nodes and line ends untouched);
    `substitute_sem_partial` — every host line not driven by the cell keeps its equation literally (all regular uses, no
    side condition on the implementation).  `substitute_wiring` and `substitute_sem_partial` carry the hypothesis `denseB` (no
    copied fork had a `None` gap to be squeezed out by the loop added with the repair of D30, which renumbers driver pins;
    true whenever the forks of the implementation are gap-free).
  - **`substitute_sem`** — the FULL semantic statement for `substitute` (vocabulary: Model/SubstSem.lean, Proofs/SubstSem1.lean),
    for every well-formed host and implementation, every use in which nothing is removed (`keepsAllB`: designated cell
    exists, no connected-but-ignored input pin, every unconnected output is driven by a node that stays; this contains
    regular use, `regular_keepsAll`, and allows unconnected input pins), cell neither port nor fork, under the decidable
    side conditions `implOKB` on the implementation (there is a designated cell, ports distinct, no port a
    flip-flop/latch, a port that is driven and read inside is a fork; the earlier clause "designated cell not a port" is
    gone with the repair of D32, see below).  The theorems are about `substitute` WITH the loop added by the repair of D30
    (`densify`: the outputs of copied forks made gap-free, driver pins renumbered) and need NO `denseB`: the loop keeps
    the circuit well-formed, changes only output lists of copied forks and the driver pins of their lines, and a fork's
    equation does not look at the driver pin (Proofs/Densify.lean) — `exGapImpl` is a use with a gap.
    Relational form, no acyclicity / evaluation order:
    with `ImplMatches h c m sh anm vm v` = "`(anm, vm)` is a consistent labelling of the implementation whose ports carry
    the values of the instance's lines in the host labelling `v`" (the line of an input port whose instance pin is
    unconnected is ABSENT in the implementation, `cutIns m (deadLine …)` — kyupy's own reading of a missing pin, finding
    D23 — and an unconnected multi-reader port carries `z`), (1) every labelling of the result that is consistent outside a
    set `S` of host nodes is, on the host lines, consistent for the host outside `S ∪ {cell}` and comes with an
    `ImplMatches` labelling of the implementation that agrees with it on the copied lines and nodes; (2) every such pair
    glues to a labelling of the result consistent outside `S`; every copied node reads pin by pin what its original reads
    (so the new state elements capture what the implementation's capture); the result is well-formed (`substitute_wf`),
    `node_map` is injective, keeps kinds, host nodes / ports / line indices are untouched, the new lines are the copied
    lines in order.  `consOff_consistent` ties `ConsOff … ∅` to `consistentB` of C01.
    `substitute_designated_port_not_wf` / `substitute_feedthrough_repaired` — finding D32 and its repair: under the EARLIER rule
    (`substituteOld`, Model/SubstSem.lean: the node at which the walk from the first output ends is the designated cell
    even when it is a port) a Verilog-style feed-through implementation made `substitute` return a circuit that is not
    well-formed (a copied line loses its reader pin to the instance's input line; `copy()` of it changes the function);
    with the repaired rule (a port is no designated cell: `implShape`, the model of the current code) the same input gives the
    well-formed feed-through, and under `implOKB` the designated cell is never a port (`implShape_des_notPort`), so that
    clause is no longer a hypothesis.
    **`remove_dangling_sem`** — `remove_dangling_nodes` (model `removeDangling`, every circuit that is well-formed up to trailing
    `None`s, any start nodes / `only` set): the result is well-formed up to trailing `None`s and embeds into the circuit
    before (index maps `r`: kinds, names, ports, state elements, the lines read at every pin and the driver of every
    surviving line are kept); consistent labellings restrict to consistent labellings, and extend back given values for the
    removed lines that satisfy their equations.  **`substitute_sem_removing`** — `substitute` with an unconnected output whose
    driver dangles (`noIgnoredB`: designated cell, no connected-but-ignored input pin; any outputs): the result is the
    circuit `substituteCore` builds, for which `SubstSemStmt` (the conclusion of `substitute_sem`) holds, with dangling logic
    removed as in `remove_dangling_sem` (the loop `densify` in between is absorbed: it is an identity embedding).  The
    result need not satisfy `NNet.wf`: `Line.remove()` leaves a trailing `None` in
    the pin list of a cell (example `exImplFZ`; then `copy_dump_eq` does not apply to it).
    Not covered by THESE theorems (but by `substitute_sem_general` below): an input pin that the implementation ignores
    (`Line.remove` renumbers lines inside the loop), an implementation without designated cell (`node.remove()`: no output
    and no state element, or — since the repair of D32 — a feed-through).
  - **`substitute_sem_general`** (statement `SubstGenStmt`; Proofs/SubstGen1-17, Proofs/WFr.lean) — the semantic statement along
    **index maps** for EVERY use of `substitute` under the decidable side conditions `implGenOKB` (= `implOKB` without the clause
    "a designated cell exists": ports distinct, no port a flip-flop/latch, driven ports read inside are forks) and `noSelfIgnB`
    (no connected ignored pin is driven by the cell itself), host well-formed only up to trailing `None`s (`wfNoTrail`), cell
    neither port nor fork: (a) connected input pins that the implementation IGNORES (`ll.reader = None; ll.remove()` in the
    middle of the connecting loop: swap-with-last renumbering of the lines, squeeze of a driving fork), (b) implementations
    WITHOUT designated cell (`node.remove()`: the last node takes the index of the instance; filler / antenna cells, feed-through),
    unconnected pins and dangling logic as before.  `R.node j'` / `R.line l'` = canonical index (host index; `map[j]` for the copy of
    implementation node `j`; `h.lines.size + t` for the `t`-th copied line) of node / line of the result: injective, ports in
    order, every host node other than the cell survives with kind, name and renamed input lines, every flip-flop/latch of the
    implementation survives, only host lines that end at the cell can disappear, the result is well-formed up to trailing
    `None`s; (1) every labelling of the result consistent outside `S` is the restriction of a labelling of the whole host
    consistent outside `S ∪ {cell}` plus an `ImplMatches` labelling of the implementation — with prescribed values for the
    removed lines that are driven by holes; (2) the converse.  Method: the real run is put in lockstep (`Lk`) with a virtual run
    on the host in which the ignored pins count as unconnected and the instance is kept (certificate of the earlier theorems,
    generalised to hosts with lines that are stale on the reader side, `WFr`); the real result embeds into the virtual one.
  - **`resolve_sem`** — `resolve_tlib_cells` (model `resolveCells`) when every substitution along the loop removes nothing
    (`resolveOKB`, decidable by running the model): the result is well-formed, keeps ports, other nodes and node keys, and
    its consistent labellings are exactly the labellings of the original circuit that are consistent outside the library
    cells and give every library cell the relational meaning (`ImplMatches`) of its implementation — by induction over the
    loop with `substitute_sem` for hole sets.
  - **`resolve_sem_general`** (Proofs/SubstGen18-23) — `resolve_tlib_cells` through substitutions that REMOVE lines, instances and
    dangling logic (`resolveGenOKB`: every substitution along the loop satisfies the hypotheses of `substitute_sem_general`;
    decidable, evaluated by running the model; contains `resolveOKB`): index maps `ρ` from the result to the original circuit
    (which node / line of the result IS which original node / line), result well-formed up to trailing `None`s, every original
    node that is no library cell survives with kind, name and renamed input lines; (1) every consistent labelling of the result
    is the restriction of a labelling of the WHOLE original circuit (removed lines included) that is consistent outside the
    library cells and gives every library cell the relational meaning of its implementation with its ORIGINAL pins (a line
    that an earlier substitution removed at an output pin of a cell substituted later takes the value of that cell's
    implementation output: prescribed values of `SubstGenStmt`); (2) the converse.  By induction over the loop (`ResRelG`).
  - `resolve_ports` — `resolve_tlib_cells` (model `resolveCells`) keeps the port list, names and order, for every library.
  - **Which part of "names and order of state elements are kept" is theorem:** ports — names AND order, for every transformation
    (`copy_pickle_same_function`, `copy_wfNoTrail_same_function`, `elim_ports`, `substitute_ports`, `resolve_ports`); flip-flops and
    latches — names and order for copy / pickle; for `eliminate_1to1_forks` and `substitute` only UP TO ORDER (`elim_state_perm`,
    `substitute_state_perm`; order is kept in the documented case `substitute_snames` and by the repaired loop, `elim_stable_snames`;
    `elim_state_order_false` is the kernel-checked counterexample = finding D29); for `resolve_tlib_cells` the state elements of the
    result are those of the original that are no library cells plus the flip-flops/latches of the implementations
    (`resolve_sem_general`: every such node survives with its name), but `s_nodes` of the UNRESOLVED circuit does not list a
    library flip-flop whose kind name contains neither `dff` nor `latch` (finding D22) and node removal permutes `s_nodes` (D29): the
    order after resolve is NOT a theorem and not true of the code; the harness reports both as KNOWN-FINDING.
  - **Success of `substitute` / `resolve_tlib_cells`** (audit finding 6) is proved in Props/C10Library.lean: `substitute_isSome` (the
    model returns a circuit under decidable static hypotheses — no hypothesis `… = some h'`), `remove_dangling_isSome` (the fuel
    suffices), `library_impls_ok` (kernel sweep: all 263 implementation circuits of the five built-in libraries satisfy the
    implementation-side hypotheses), `library_cell_resolves`, `resolve_step_isSome` (one call / one iteration each; `resolveGenOKB_unfold`,
    formerly `resolve_isSome_of_genOK`, only unfolds the definition of `resolveGenOKB` and is no success theorem).
* **Correspondence** (harness/c10.py, differential, not proof): model dumps after copy / pickle round trip /
  `eliminate_1to1_forks` = dumps of the real objects on random circuits (both port styles, permuted node order,
  dictionary order of the forks different from the index order, forks without driver); the index maps of `elimForksInM` =
  the identity of the real `Node` / `Line` objects before/after; `NNet.wf` and `NNet.forkIns1` are evaluated on every real
  dump (certificate that the hypotheses of the theorems hold there).  `substitute` (driver command `subst`) = the real
  `substitute()` on random hosts × random implementation circuits incl. cells of the built-in libraries (multi-output,
  outputs read internally, inputs with 0/1/many readers, no output, empty, state elements; unconnected and surplus
  instance pins), comparing canonical dumps with names; where the real code raises the model answers `none`; the
  model's `regularB` = the harness's own reading of "regular use".  `resolve_tlib_cells` (driver command `resolve`) = the
  real method on random circuits instantiating cells of the five built-in libraries and of synthetic libraries.
* **Oracle only** (harness/c10.py): for the uses of `substitute` / `resolve_tlib_cells` outside the hypotheses of
  `substitute_sem_general` / `resolve_sem_general` (an implementation violating `implGenOKB`: a port that is a flip-flop, a driven
  port read inside that is no fork, duplicate ports; a cell that is a port or a fork; an ignored pin driven by the cell itself)
  the semantic statement (Boolean function at ports and state elements unchanged) is decided on the real code by simulation
  before/after (random compositions, every library cell × pin subsets, synthetic libraries); the same simulation also runs on the
  covered uses.  The harness evaluates `keepsAllB` / `implOKB` / `noIgnoredB` / `resolveOKB` / `denseB` and `implGenOKB` / `noSelfIgnB` /
  `resolveGenOKB` on every real case of the correspondence streams (driver commands `substok` / `resolveok`), counts how many
  fall under the theorems (tags `sem-hyp:*`: `covered`, `covered-removing`, `covered-gap` = a copied fork had a gap,
  `covered-general-ignored-pin` / `covered-general-no-designated-cell` / `covered-general` = only under the general theorems;
  coverage keys `corr_subst_in_hypotheses_of_substitute_sem_general`, `corr_resolve_in_hypotheses_of_resolve_sem_general`) and
  checks `wf` / `wfNoTrail` of the REAL result there.
  D30 / D32 are repaired in the code under test; their witnesses (`FORK_GAP_WITNESS` in harness/c09.py,
  corpus/C10-designated-port.json) run first in every run and are violations if the behaviour returns. -/
namespace KV.C10
open KV KV.Transform
variable {skip : Bool}

/-- `Circuit.copy()`: the dump of the copy equals the dump of the original -/
theorem copy_dump_eq (nn : NNet) (h : nn.wf = true) : copyNet nn = nn :=
  have w := WF.of_wf h
  rebuild_eq nn w _ (fun i hi => lookup_key nn w i hi)

/-- `pickle.loads(pickle.dumps(c))`: the dump of the unpickled circuit equals the dump of the original -/
theorem pickle_dump_eq (nn : NNet) (h : nn.wf = true) : pickleNet nn = nn :=
  rebuild_eq nn (WF.of_wf h) id (fun _ _ => rfl)

/-- consequences spelled out: same port/state names in the same order, same Boolean function on every line and at
    every capture point, for every assignment, for both transformations and any composition of them -/
theorem copy_pickle_same_function (nn : NNet) (h : nn.wf = true) (t : NNet → NNet)
    (ht : t = copyNet ∨ t = pickleNet ∨ t = copyNet ∘ pickleNet ∨ t = pickleNet ∘ copyNet) :
    (t nn).sNames = nn.sNames ∧ (t nn).net.sNodes = nn.net.sNodes ∧
    (∀ a fuel l, evalLine (t nn).net a fuel l = evalLine nn.net a fuel l) ∧
    (∀ a, evalCaptures (t nn).net a = evalCaptures nn.net a) ∧ (t nn).wf = true := by
  have e : t nn = nn := by
    rcases ht with e | e | e | e <;> subst e
    · exact copy_dump_eq nn h
    · exact pickle_dump_eq nn h
    · simp [Function.comp, pickle_dump_eq nn h, copy_dump_eq nn h]
    · simp [Function.comp, pickle_dump_eq nn h, copy_dump_eq nn h]
  rw [e]; exact ⟨rfl, rfl, fun _ _ _ => rfl, fun _ => rfl, h⟩

/-- **copy / pickle of a dump that is well-formed only up to trailing `None`s** (`wfNoTrail`: what `substitute` /
    `resolve_tlib_cells` return, `substitute_sem_general` / `resolve_sem_general`): the rebuilt circuit is the dump with the
    trailing `None`s of every pin list trimmed (`trimNet`, Proofs/CopyTrim.lean) — audit finding 5 (b2) -/
theorem copy_trims (nn : NNet) (h : nn.wfNoTrail = true) : copyNet nn = trimNet nn ∧ pickleNet nn = trimNet nn :=
  have w := WFm.of_wfNoTrail h
  ⟨rebuild_trim nn w _ (fun i hi => lookup_key_m nn w i hi), rebuild_trim nn w id (fun _ _ => rfl)⟩

/-- for a well-formed dump trimming changes nothing: `copy_trims` contains `copy_dump_eq` / `pickle_dump_eq` -/
theorem trim_wf_id (nn : NNet) (h : nn.wf = true) : trimNet nn = nn := by
  rw [← (copy_trims nn (wf_wfNoTrail h)).1]; exact copy_dump_eq nn h

/-- … hence the copy of a `wfNoTrail` dump is WELL-FORMED (`wf`: `elim_*`, `substitute_*`, C01 apply to it), has the same
    node names, kinds, lines, ports, `s_nodes` (names and order), every node reads and drives the same lines at every pin,
    and exactly the same labellings are consistent — the same function.  With `substitute_sem_general` /
    `resolve_sem_general` (result `wfNoTrail`): resolve → copy / pickle → eliminate chains in theorems. -/
theorem copy_wfNoTrail_same_function (nn : NNet) (h : nn.wfNoTrail = true) (t : NNet → NNet)
    (ht : t = copyNet ∨ t = pickleNet) :
    (t nn).wf = true ∧ (t nn).names = nn.names ∧ (t nn).net.lines = nn.net.lines ∧ (t nn).net.io = nn.net.io ∧
    (t nn).net.nodes.size = nn.net.nodes.size ∧ (t nn).net.sNodes = nn.net.sNodes ∧ (t nn).sNames = nn.sNames ∧
    (∀ i, ((t nn).net.node i).kind = (nn.net.node i).kind ∧
      (∀ k, ((t nn).net.node i).inPin k = (nn.net.node i).inPin k) ∧ (∀ k, ((t nn).net.node i).outPin k = (nn.net.node i).outPin k)) ∧
    (∀ {α : Type} [BEq α] (z : α) (neg : α → α) (prim : String → α → α → α → α → α) (asg : Nat → α) (v : Array α),
      consistentB (t nn).net z neg prim asg v = consistentB nn.net z neg prim asg v) := by
  have e : t nn = trimNet nn := by
    rcases ht with e | e <;> subst e
    · exact (copy_trims nn h).1
    · exact (copy_trims nn h).2
  rw [e]
  refine ⟨wf_of_WF (trimNet_WF nn (WFm.of_wfNoTrail h)), rfl, rfl, rfl, by simp [trimNet], trimNet_sNodes nn, ?_,
    fun i => ⟨trimNet_kind nn i, trimNet_inPin nn i, trimNet_outPin nn i⟩,
    fun z neg prim asg v => trimNet_consistentB nn z neg prim asg v⟩
  simp only [NNet.sNames, trimNet_sNodes]; rfl

/-- `eliminate_1to1_forks()` (forks visited in any order): port names and their order are kept -/
theorem elim_ports (nn nn' : NNet) (order : List String) (h : nn.wf = true) (he : elimForksIn skip order nn = some nn') :
    nn'.ioNames = nn.ioNames ∧ nn'.net.io.length = nn.net.io.length := by
  have w := WF.of_wf h
  have r := (elimForksIn_obs order nn nn' ⟨w.names, w.io⟩ he).2.1
  exact ⟨r, by simpa [NNet.ioNames] using congrArg List.length r⟩

/-- … and the flip-flops and the latches are kept with kind and name, up to order -/
theorem elim_state_perm (nn nn' : NNet) (order : List String) (h : nn.wf = true) (he : elimForksIn skip order nn = some nn') :
    nn'.dffNames.Perm nn.dffNames ∧ nn'.latchNames.Perm nn.latchNames ∧
    ∀ p : String × String → Bool, (∀ name, p ("__fork__", name) = false) →
      (nn'.kindNames.filter p).Perm (nn.kindNames.filter p) := by
  have w := WF.of_wf h
  have r := (elimForksIn_obs order nn nn' ⟨w.names, w.io⟩ he).2.2
  have hd : hasSub "dff" "__fork__".toLower = false := by decide +kernel
  have hl : hasSub "latch" "__fork__".toLower = false := by decide +kernel
  exact ⟨(r _ (fun _ => hd)).map _, (r _ (fun _ => hl)).map _, r⟩

/-- the circuit of the counterexample: `a -> fork a -> DFF A -> (Q) o, (QN) -> DFF B -> o2`, `B` created last -/
def exOrder : NNet where
  net :=
    { nodes := #[⟨"input", [], [some 0]⟩, ⟨"__fork__", [some 0], [some 1]⟩, ⟨"DFF", [some 1], [some 2, some 3]⟩,
                 ⟨"output", [some 2], []⟩, ⟨"output", [some 4], []⟩, ⟨"DFF", [some 3], [some 4]⟩]
      lines := #[⟨0, 0, 1, 0⟩, ⟨1, 0, 2, 0⟩, ⟨2, 0, 3, 0⟩, ⟨2, 1, 5, 0⟩, ⟨5, 0, 4, 0⟩]
      io := [0, 3, 4] }
  names := #["a", "a", "A", "o", "o2", "B"]

/- FULL STATEMENT (false for the modelled and for the real code):
   `nn.wf → elimForksIn skip order nn = some nn' → nn'.sNames = nn.sNames`. -/
/-- fork elimination does NOT keep the order of the state elements: `s_nodes` of the example is
    `a o o2 A B` before and `a o o2 B A` after (the deleted fork's slot is filled with the last node, `B`) -/
theorem elim_state_order_false :
    exOrder.wf = true ∧ exOrder.sNames = ["a", "o", "o2", "A", "B"] ∧
    (elimForks exOrder).map NNet.sNames = some ["a", "o", "o2", "B", "A"] := by decide +kernel

/-- the repaired `eliminate_1to1_forks` (loop + `_restore_node_order`): ports and state elements keep names AND order -/
theorem elim_stable_snames (nn nn' : NNet) (order : List String) (h : nn.wf = true)
    (he : elimForksStableIn skip order nn = some nn') : nn'.sNames = nn.sNames ∧ nn'.ioNames = nn.ioNames :=
  ⟨elimStable_sNames order nn nn' (WF.of_wf h) he, (elimStable_obs order nn nn' (WF.of_wf h) he).1⟩

/-- … and so does every class of nodes other than forks (kind and name, in index order) -/
theorem elim_stable_classes (nn nn' : NNet) (order : List String) (h : nn.wf = true)
    (he : elimForksStableIn skip order nn = some nn') (p : String × String → Bool) (hp : ∀ name, p ("__fork__", name) = false) :
    nn'.kindNames.filter p = nn.kindNames.filter p :=
  (elimStable_obs order nn nn' (WF.of_wf h) he).2 p hp

/-- on the counterexample of `elim_state_order_false` the repaired loop keeps `a o o2 A B` and still removes the fork -/
example : (elimForksStable exOrder).map (fun n => (n.sNames, n.net.nodes.size, n.wf)) =
    some (["a", "o", "o2", "A", "B"], 5, true) := by decide +kernel

/-- `elimForksInM` is `elimForksIn` annotated with the index maps (`Ren`): it computes the same circuit -/
theorem elim_maps_same_circuit (nn : NNet) (order : List String) :
    (elimForksInM skip order nn).map (·.1) = elimForksIn skip order nn :=
  elimForksInM_fst order (nn, Ren.id)

/-- **`eliminate_1to1_forks` preserves the function** (full semantic statement).  For every well-formed dump whose forks
    have one input, every visiting order, the result `nn'` and the index maps `r` the model returns (`r.line l'` /
    `r.node j'` = the index the line / node object at `l'` / `j'` had before; swap-with-last deletion renumbers):
    every consistent labelling `v` of the lines of `nn` (each line carries what its driver computes, Model/Net.lean) under
    any assignment `asg`, restricted and renamed along `r`, is a consistent labelling of `nn'` under the assignment
    permuted like the `s_nodes`; every surviving node reads the same value at every input pin (in particular what is
    captured at ports and state elements); `r.node` is an injection of the nodes of `nn'` into those of `nn` that keeps
    kind, name, the port list (in order) and the `s_node` status and reaches every node that is not a fork. -/
theorem elim_sem {α : Type _} [BEq α] [LawfulBEq α] (nn nn' : NNet) (r : Ren) (order : List String)
    (h : nn.wf = true) (hf : nn.forkIns1 = true) (he : elimForksInM skip order nn = some (nn', r))
    (z : α) (neg : α → α) (prim : String → α → α → α → α → α) (asg : Nat → α) (v : Array α)
    (hc : consistentB nn.net z neg prim asg v = true) :
    elimForksIn skip order nn = some nn' ∧
    consistentB nn'.net z neg prim (reassign r nn nn' asg) (relabel r nn' v z) = true ∧
    (∀ j' k, j' < nn'.net.nodes.size → pinRead nn'.net (relabel r nn' v z) z j' k = pinRead nn.net v z (r.node j') k) ∧
    nn'.net.io.map r.node = nn.net.io ∧
    (∀ j', j' < nn'.net.nodes.size → r.node j' < nn.net.nodes.size ∧
      (nn'.net.node j').kind = (nn.net.node (r.node j')).kind ∧ nn'.names.getD j' "" = nn.names.getD (r.node j') "" ∧
      (j' ∈ nn'.net.sNodes ↔ r.node j' ∈ nn.net.sNodes)) ∧
    (∀ j1 j2, j1 < nn'.net.nodes.size → j2 < nn'.net.nodes.size → r.node j1 = r.node j2 → j1 = j2) ∧
    (∀ j, j < nn.net.nodes.size → (nn.net.node j).isFork = false → ∃ j', j' < nn'.net.nodes.size ∧ r.node j' = j) := by
  have si := SI.of_wf (WF.of_wf h) hf
  obtain ⟨s, sem⟩ := elimForksInM_sim z neg prim order nn nn' r si he
  have hb := sim_consistentB si s z neg prim sem asg v hc
  have h1 : elimForksIn skip order nn = some nn' := by
    rw [← elim_maps_same_circuit, he]; rfl
  exact ⟨h1, hb.1, hb.2, s.io, fun j' hj => ⟨s.nodeLt j' hj, s.kind j' hj, s.name j' hj, s.mem j' hj⟩, s.inj, s.surj⟩

/-- the same in `s_nodes` positions: position `p'` of the result shows the capture, the name and the kind of position
    `sigma r nn nn' p'` of the original (`capturesOf` = what `evalCapturesG` returns for the labelling) -/
theorem elim_sem_captures {α : Type _} [BEq α] [LawfulBEq α] (nn nn' : NNet) (r : Ren) (order : List String)
    (h : nn.wf = true) (hf : nn.forkIns1 = true) (he : elimForksInM skip order nn = some (nn', r))
    (z : α) (neg : α → α) (prim : String → α → α → α → α → α) (asg : Nat → α) (v : Array α)
    (hc : consistentB nn.net z neg prim asg v = true) (p' : Nat) (hp' : p' < nn'.net.sNodes.length) :
    sigma r nn nn' p' < nn.net.sNodes.length ∧
    (capturesOf nn'.net (relabel r nn' v z) z)[p']? = (capturesOf nn.net v z)[sigma r nn nn' p']? ∧
    nn'.sNames[p']? = nn.sNames[sigma r nn nn' p']? ∧
    (nn'.net.node (nn'.net.sNodes.getD p' 0)).kind = (nn.net.node (nn.net.sNodes.getD (sigma r nn nn' p') 0)).kind := by
  have si := SI.of_wf (WF.of_wf h) hf
  obtain ⟨s, sem⟩ := elimForksInM_sim z neg prim order nn nn' r si he
  exact sim_captures s v _ z (sim_consistentB si s z neg prim sem asg v hc).2 p' hp'

/-- **converse of `elim_sem` and uniqueness** (audit finding 5): the labellings of `nn` and of `nn'` correspond ONE-TO-ONE.
    (existence) every consistent labelling `v'` of the result under the permuted assignment is `relabel` of a consistent
    labelling `v` of the original circuit (a removed fork is 1:1, so the value of the removed out-line is that of the
    fork's in-line); (uniqueness) two consistent labellings of the original with the same `relabel` agree on every line of
    the original — together with `elim_sem`: `v ↦ relabel r nn' v z` is a bijection between the consistent labellings (as
    functions on the lines of `nn`) of `nn` under `asg` and those of `nn'` under `reassign r nn nn' asg`. -/
theorem elim_sem_converse {α : Type _} [BEq α] [LawfulBEq α] (nn nn' : NNet) (r : Ren) (order : List String)
    (h : nn.wf = true) (hf : nn.forkIns1 = true) (he : elimForksInM skip order nn = some (nn', r))
    (z : α) (neg : α → α) (prim : String → α → α → α → α → α) (asg : Nat → α) :
    (∀ v' : Array α, consistentB nn'.net z neg prim (reassign r nn nn' asg) v' = true →
      ∃ v : Array α, v.size = nn.net.lines.size ∧ consistentB nn.net z neg prim asg v = true ∧
        (∀ l', l' < nn'.net.lines.size → v.getD (r.line l') z = v'.getD l' z) ∧
        (v'.size = nn'.net.lines.size → relabel r nn' v z = v')) ∧
    (∀ v1 v2 : Array α, consistentB nn.net z neg prim asg v1 = true → consistentB nn.net z neg prim asg v2 = true →
      relabel r nn' v1 z = relabel r nn' v2 z → ∀ l, l < nn.net.lines.size → v1.getD l z = v2.getD l z) := by
  have si := SI.of_wf (WF.of_wf h) hf
  obtain ⟨s, _, sq, su⟩ := elimForksInM_simQ z neg prim order nn nn' r si he
  exact ⟨fun v' hc' => sim_consistentB_conv si s z neg prim sq asg v' hc',
    fun v1 v2 c1 c2 e => sim_consistentB_unique si s z neg prim su asg v1 v2 c1 c2 e⟩

/-- **the result of `eliminate_1to1_forks` is well-formed** and its forks have one input: the hypotheses of `copy_dump_eq`,
    `pickle_dump_eq`, `elim_*` (again), `substitute_*` and of C01 hold for the result, so the theorems chain -/
theorem elim_wf (nn nn' : NNet) (r : Ren) (order : List String) (h : nn.wf = true) (hf : nn.forkIns1 = true)
    (he : elimForksInM skip order nn = some (nn', r)) : nn'.wf = true ∧ nn'.forkIns1 = true :=
  elimForksInM_wf order nn nn' r (WF.of_wf h) hf he

/-- chaining: `copy()` / pickle round trip of the result of `eliminate_1to1_forks` is the same dump -/
theorem elim_then_copy (nn nn' : NNet) (r : Ren) (order : List String) (h : nn.wf = true) (hf : nn.forkIns1 = true)
    (he : elimForksInM skip order nn = some (nn', r)) : copyNet nn' = nn' ∧ pickleNet nn' = nn' :=
  ⟨copy_dump_eq nn' (elim_wf nn nn' r order h hf he).1, pickle_dump_eq nn' (elim_wf nn nn' r order h hf he).1⟩

/-- one loop iteration (the splice): the fork's in-line takes the place of the out-line at the reader pin, the fork and
    the out-line are deleted with swap-with-last; `r = stepRen nn i b` -/
theorem elim_one_sem {α : Type _} [BEq α] [LawfulBEq α] (nn nn' : NNet) (r : Ren) (i : Nat)
    (h : nn.wf = true) (hf : nn.forkIns1 = true) (hi : i < nn.net.nodes.size) (hfk : (nn.net.node i).isFork = true)
    (he : elimOneM skip nn i = some (nn', r))
    (z : α) (neg : α → α) (prim : String → α → α → α → α → α) (asg : Nat → α) (v : Array α)
    (hc : consistentB nn.net z neg prim asg v = true) :
    elimOne skip nn i = some nn' ∧
    consistentB nn'.net z neg prim (reassign r nn nn' asg) (relabel r nn' v z) = true ∧
    (∀ j' k, j' < nn'.net.nodes.size → pinRead nn'.net (relabel r nn' v z) z j' k = pinRead nn.net v z (r.node j') k) := by
  have si := SI.of_wf (WF.of_wf h) hf
  obtain ⟨s, sem⟩ := elimOneM_sim z neg prim nn nn' r i si hi hfk he
  have hb := sim_consistentB si s z neg prim sem asg v hc
  have h1 : elimOne skip nn i = some nn' := by rw [← elimOneM_fst, he]; rfl
  exact ⟨h1, hb.1, hb.2⟩

/-- what `evalCapturesG` returns is `capturesOf` of the evaluator's labelling -/
theorem evalCaptures_eq_capturesOf {α : Type _} (net : Net) (z : α) (neg : α → α) (prim : String → α → α → α → α → α)
    (a : Nat → α) : evalCapturesG net z neg prim a = capturesOf net (evalAll net z neg prim a) z := rfl

/-- local semantic fact: the line `b` that `elimOne` deletes carries, in every consistent labelling, the value of the
    line `a` that is connected to `b`'s reader pin instead -/
theorem elim_sem_partial {α} [BEq α] [LawfulBEq α] (nn : NNet) (h : nn.wf = true)
    (z : α) (neg : α → α) (prim : String → α → α → α → α → α) (asg : Nat → α) (v : Array α)
    (hc : consistentB nn.net z neg prim asg v = true)
    (i a b : Nat) (hi : i < nn.net.nodes.size) (hf : (nn.net.node i).isFork = true) (hio : nn.net.io.contains i = false)
    (hin : (nn.net.node i).ins.head? = some (some a)) (hout : (nn.net.node i).outs.head? = some (some b)) :
    v.getD b z = v.getD a z :=
  fork_passes nn (WF.of_wf h) z neg prim asg v hc i a b hi hf hio hin hout

/-! ## `Circuit.substitute` (model: Model/Substitute.lean, tied to circuit.py by exact dump correspondence) -/

/-- `substitute(node, impl)` keeps the port list: names and order (the cell itself must not be a port) -/
theorem substitute_ports (h m h' : NNet) (c : Nat) (hw : h.wf = true) (hc : c < h.net.nodes.size)
    (hio : h.net.io.contains c = false) (he : substitute h c m = some h') :
    h'.ioNames = h.ioNames ∧ h'.net.io.length = h.net.io.length := by
  have w := WF.of_wf hw
  obtain ⟨_, _, _, _, _, _, r, _⟩ := substitute_obs h c m h' ⟨w.names, w.io⟩ hc hio he
  exact ⟨r, by simpa [NNet.ioNames] using congrArg List.length r⟩

/-- state elements of the result, up to order, in every case (also when an empty implementation or an unconnected output
    makes `substitute` remove nodes): they are the state elements of the host — the cell `c` counted with the kind of the
    designated cell (the first flip-flop/latch of the implementation if there is one) under its own name, or dropped when
    there is no designated cell — plus the further nodes of the implementation, named `<instance>~<internal name>`
    (`addedKN`); `p` = any selection of (kind, name) pairs that only accepts flip-flop/latch kinds -/
theorem substitute_state_perm (h m h' : NNet) (c : Nat) (sh : Shape) (hw : h.wf = true) (hc : c < h.net.nodes.size)
    (hio : h.net.io.contains c = false) (hs : implShape m = some sh) (he : substitute h c m = some h')
    (p : String × String → Bool) (hp : ∀ k n, p (k, n) = true → isSeqKind k = true) :
    (h'.kindNames.filter p).Perm (((match sh.des with
        | some dn => h.kindNames.set c ((m.net.node dn).kind, h.names.getD c "")
        | none => h.kindNames.eraseIdx c) ++ addedKN m (h.names.getD c "") sh.des).filter p) := by
  have w := WF.of_wf hw
  have li : LI h := ⟨w.names, w.io⟩
  obtain ⟨sh', h5, map, dang, hs', _, _, _, _, _, hk, _, hperm⟩ := substitute_obs h c m h' li hc hio he
  have : sh' = sh := Option.some.inj (hs'.symm.trans hs)
  subst this
  refine (hperm p hp).trans ?_
  rw [hk]
  cases hd : sh'.des with
  | some dn => rw [(phase1_some_obs h c m dn li hc).1]
  | none => exact ((phase1_none_obs h c m li hc hio).1.append_right _).filter p

/-- regular use (`regularB`: a designated cell exists, no connected input pin is ignored by the implementation, every
    output of the implementation is connected): nothing is removed; the nodes of the host keep index, kind and name,
    except that the cell takes the kind of the designated cell, and the other nodes of the implementation follow -/
theorem substitute_regular (h m h' : NNet) (c : Nat) (hw : h.wf = true) (hc : c < h.net.nodes.size)
    (hio : h.net.io.contains c = false) (hr : regularB h c m = true) (he : substitute h c m = some h') :
    ∃ sh dn, implShape m = some sh ∧ sh.des = some dn ∧ h'.net.io = h.net.io ∧
      h'.kindNames = h.kindNames.set c ((m.net.node dn).kind, h.names.getD c "") ++ addedKN m (h.names.getD c "") (some dn) := by
  have w := WF.of_wf hw
  have li : LI h := ⟨w.names, w.io⟩
  obtain ⟨sh, dn, map, h5, hs, hd, hcore, eh', _⟩ := substitute_regular_eq' h c m h' hr he
  have p1 := phase1_some_obs h c m dn li hc
  rw [← hd] at p1
  have o := substituteCore_obs h c m sh hs h5 map [] hcore p1.2.2.1 p1.2.2.2
  obtain ⟨h2, net4, ren, net5, _, _, hfold, hci, hco, e⟩ := substituteCore_inv h c m sh hs h5 map [] hcore
  -- the loop that makes the copied forks dense only re-wires pins
  have pd := pinsOnly_densify h5.net map
  have od := obs_of_pinsOnly h5 { h5 with net := densify h5.net map } pd rfl
  have hio' : h'.net.io = h.net.io := by
    have f := foldlM_addImplNode_obs m _ sh.des _ _ _ hfold p1.2.2.1 p1.2.2.2
    have p3 := pinsOnly_phase3 m map h2
    have p4 := pinsOnly_connectIns m map _ _ _ hci
    have p5 := pinsOnly_connectOuts m map _ _ _ hco
    subst eh'
    show (densify h5.net map).io = h.net.io
    rw [pd.2]
    subst e
    rw [(p3.trans (p4.trans p5)).2, f.2.2.2.1, hd]; rfl
  exact ⟨sh, dn, hs, hd, hio', by subst eh'; rw [od.1, o.1, p1.1, hd]⟩

/-- the documented case in which `substitute` keeps `[n.name for n in c.s_nodes]`, names AND order: regular use, the
    designated cell is of the same class as the cell it replaces (flip-flop / latch / neither, as `s_nodes` reads the
    kind) and the implementation holds no other flip-flop or latch -/
theorem substitute_snames (h m h' : NNet) (c : Nat) (hw : h.wf = true) (hc : c < h.net.nodes.size)
    (hio : h.net.io.contains c = false) (hr : regularB h c m = true) (he : substitute h c m = some h')
    (hclass : ∀ sh dn, implShape m = some sh → sh.des = some dn →
      hasSub "dff" (m.net.node dn).kind.toLower = hasSub "dff" (h.net.node c).kind.toLower ∧
      hasSub "latch" (m.net.node dn).kind.toLower = hasSub "latch" (h.net.node c).kind.toLower ∧
      ∀ j, j < m.net.nodes.size → j ≠ dn → isSeqKind (m.net.node j).kind = false) :
    h'.sNames = h.sNames ∧ h'.ioNames = h.ioNames := by
  obtain ⟨sh, dn, hs, hd, hio', hk⟩ := substitute_regular h m h' c hw hc hio hr he
  obtain ⟨c1, c2, c3⟩ := hclass sh dn hs hd
  have hports := (substitute_ports h m h' c hw hc hio he).1
  have hadd := addedKN_noSeq m (h.names.getD c "") dn c3
  refine ⟨?_, hports⟩
  rw [sNames_eq, sNames_eq, hports]
  have e1 : h'.dffNames = h.dffNames := by
    simp only [NNet.dffNames, hk]
    exact regular_names h c hc _ _ (fun k => hasSub "dff" k.toLower) c1
      (fun kn hkn => by have := hadd kn hkn; simp only [isSeqKind, Bool.or_eq_false_iff] at this; exact this.1)
  have e2 : h'.latchNames = h.latchNames := by
    simp only [NNet.latchNames, hk]
    exact regular_names h c hc _ _ (fun k => hasSub "latch" k.toLower) c2
      (fun kn hkn => by have := hadd kn hkn; simp only [isSeqKind, Bool.or_eq_false_iff] at this; exact this.2)
  rw [e1, e2]

/-- **pin-by-pin wiring** (regular use).  `map` = `node_map` of the real code (implementation node ↦ host node; every
    entry is the cell itself or a node added behind the host's nodes).  The host line at input pin `k` of the instance is
    connected to what input port `k` of the implementation was connected to (`inTarget`: the reader pin of the port's only
    line, or pin 0 of the fork created for a port with several readers); the host line at output pin `k` is driven from
    what drove output `k` of the implementation (`outTarget`: the driver pin of the port's line, or the next output of
    the fork created for an output that is also read internally).  Frame: all other nodes of the host keep their record,
    all other lines keep driver side / reader side.
    `denseB` (a Boolean function of host, cell and implementation): no copied fork has a `None` gap after the connecting loops — since the
    repair of D30 `substitute` makes such forks dense again and renumbers the driver pins of their lines, so the pin
    positions below are the implementation's only when nothing had to be squeezed (true whenever the forks of the
    implementation are gap-free, as in every library cell). -/
theorem substitute_wiring (h m h' : NNet) (c : Nat) (hw : h.wf = true) (hc : c < h.net.nodes.size)
    (hr : regularB h c m = true) (hdense : denseB h c m = true) (he : substitute h c m = some h') :
    ∃ sh map, implShape m = some sh ∧
      (∀ k x, map.getD k none = some x → x = c ∨ h.net.nodes.size ≤ x) ∧
      (∀ k ll, (h.net.node c).ins.getD k none = some ll → ∃ inn r rp, sh.inPorts[k]? = some inn ∧
        inTarget m map inn = some (r, rp) ∧ (h'.net.line ll).reader = r ∧ (h'.net.line ll).rpin = rp) ∧
      (∀ k ll, (h.net.node c).outs.getD k none = some ll → ∃ il d dp, sh.outLines[k]? = some il ∧
        outTarget m map il = some (d, dp) ∧ (h'.net.line ll).driver = d ∧ (h'.net.line ll).dpin = dp) ∧
      (∀ d, d < h.net.nodes.size → d ≠ c → h'.net.node d = h.net.node d) ∧
      (∀ l, l < h.net.lines.size → (h.net.line l).driver ≠ c →
        (h'.net.line l).driver = (h.net.line l).driver ∧ (h'.net.line l).dpin = (h.net.line l).dpin) ∧
      (∀ l, l < h.net.lines.size → (h.net.line l).reader ≠ c →
        (h'.net.line l).reader = (h.net.line l).reader ∧ (h'.net.line l).rpin = (h.net.line l).rpin) := by
  have w := WF.of_wf hw
  obtain ⟨sh, dn, map, hs, hd, hcore, hni⟩ := substitute_regular_eq h c m h' hr hdense he
  obtain ⟨fr, hm, win, wout⟩ := substituteCore_wire h c m sh hs w.toWFr hc dn hd hni h' map [] hcore
  refine ⟨sh, map, hs, hm, win, wout, fr.node, ?_, ?_⟩
  · intro l hl hne
    apply fr.drv l hl
    intro hmem
    obtain ⟨k, hk⟩ := (mem_filterMap_id _ l).mp hmem
    exact hne (w.fwdOut c hc k l hk).2.1
  · intro l hl hne
    apply fr.rdr l hl
    intro hmem
    obtain ⟨k, hk⟩ := (mem_filterMap_id _ l).mp hmem
    exact hne (w.fwdIn c hc k l hk).2.1

/-- regular use (`regularB`) is a use of `substitute` in which nothing is removed (`keepsAllB`, Model/SubstSem.lean: designated
    cell, no connected-but-ignored input pin, every unconnected output driven by a node that stays) -/
theorem regular_keepsAll (h m h' : NNet) (c : Nat) (hr : regularB h c m = true) (he : substitute h c m = some h') :
    keepsAllB h c m = true := regularB_keepsAll h c m h' hr he

/-- `substitute`, when nothing is removed, returns a well-formed circuit (side conditions as for `substitute_sem`; no
    `denseB`: the loop added with the repair of D30 keeps the circuit well-formed, Proofs/Densify.lean) -/
theorem substitute_wf (h m h' : NNet) (c : Nat) (hw : h.wf = true) (mw : m.wf = true) (hc : c < h.net.nodes.size)
    (hio : h.net.io.contains c = false) (hcf : (h.net.node c).isFork = false)
    (hr : keepsAllB h c m = true) (hok : implOKB m = true) (he : substitute h c m = some h') : h'.wf = true := by
  obtain ⟨sh, dn, map, ct⟩ := substitute_cert h m h' c (WF.of_wf hw) (WF.of_wf mw) hc hio hcf hr hok he
  exact wf_of_WF ct.wf'

/-- **the semantic statement about `substitute`** (conclusion of `substitute_sem`; `h'` = the circuit after the implementation
    has been copied in and connected and the outputs of the copied forks made dense, before dangling logic is removed —
    which is the result of `substitute` when nothing is removed; the statement holds for the circuit before AND after the
    densifying loop, `substitute_sem_removing` uses it for the former).  `substitute` preserves the function (full semantic statement; all uses in which nothing is removed, `keepsAllB`:
    regular use — `regular_keepsAll` —, unconnected input pins, unconnected outputs whose driver stays).
    Vocabulary (Model/SubstSem.lean, Proofs/SubstSem1.lean): `ConsOff nn S an v` — the labelling `v` of the lines of `nn`
    under the node-indexed assignment `an` satisfies the equation (`lineEq`, Model/Net.lean) of every line whose driver
    is not in the set `S` of "holes" (`S = ∅`: `v` is consistent, `consOff_consistent`); `ImplMatches h c m sh anm vm v` —
    **the relational meaning of the cell**: `(anm, vm)` is a consistent labelling of the implementation `m` (the line
    of an input port whose instance pin is unconnected being absent: `cutIns m (deadLine h c m sh)`), every port of `m` is
    assigned the value of the host line at its instance pin (`portVal`: `z` for an unconnected pin and for output ports),
    and output line `k` of `m` carries the value of the host line at output pin `k` of the instance.
    For every well-formed host `h` and implementation `m`, cell `c` (no port, no fork), when nothing is removed
    (`keepsAllB`) and under the side conditions `implOKB m` (a designated cell exists, ports distinct, no port a flip-flop/latch, driven
    ports that are read inside are forks), with `h' = substitute h c m`:
    * `h'` is well-formed; `node_map` (`map`) is injective, sends the designated cell to `c` and everything else behind the
      host's nodes, keeps the kinds (ports become forks); ports and all other nodes of the host are untouched; the lines
      of `h'` are the host's lines followed by the copied lines (`copiedLines`);
    * **(1)** every labelling `v'` of `h'` that is consistent outside `S` (any set of host nodes other than `c`) is, on the
      host's lines, consistent for `h` outside `S ∪ {c}`, and there is a labelling `(anm, vm)` of the implementation with
      `ImplMatches … anm vm v'` that agrees with `v'` on the copied lines and with `an'` on the copied nodes — the cell
      behaves as its implementation; every copied node reads, pin by pin, what its original reads;
    * **(2)** conversely every labelling `v` of `h` that is consistent outside `S ∪ {c}` together with any `(anm, vm)` with
      `ImplMatches … anm vm v` glues to a labelling of `h'` that is consistent outside `S`, equals `v` on the host's lines
      and `vm` on the copied lines.
    No acyclicity, no uniqueness of labellings and no evaluation order is needed; multi-output cells, outputs read
    inside the implementation, inputs with one or many readers, state elements inside the implementation and
    unconnected input pins are covered uniformly. -/
def SubstSemStmt {α : Type _} (h m h' : NNet) (c : Nat) (z : α) (neg : α → α) (prim : String → α → α → α → α → α) : Prop :=
    ∃ (sh : Shape) (dn : Nat) (map : Array (Option Nat)),
      implShape m = some sh ∧ sh.des = some dn ∧ h'.wf = true ∧
      -- `node_map`
      map.getD dn none = some c ∧
      (∀ j x, map.getD j none = some x → j < m.net.nodes.size ∧ (x = c ∨ h.net.nodes.size ≤ x) ∧ x < h'.net.nodes.size ∧
        (h'.net.node x).kind = if j ∈ m.net.io then "__fork__" else (m.net.node j).kind) ∧
      (∀ j1 j2 x, map.getD j1 none = some x → map.getD j2 none = some x → j1 = j2) ∧
      -- frame
      h'.net.io = h.net.io ∧ (∀ d, d < h.net.nodes.size → d ≠ c → h'.net.node d = h.net.node d) ∧
      h'.net.lines.size = h.net.lines.size + (copiedLines m map).length ∧
      -- (1) result ⇒ host with the cell meaning its implementation
      (∀ (S : Nat → Prop), (∀ s, S s → s < h.net.nodes.size ∧ s ≠ c) → ∀ an' v' : Nat → α,
        ConsOff h' S z neg prim an' v' →
        ConsOff h (fun d => S d ∨ d = c) z neg prim an' v' ∧
        ∃ anm vm, ImplMatches h c m sh z neg prim anm vm v' ∧
          (∀ j x, j ∉ m.net.io → map.getD j none = some x → anm j = an' x) ∧
          (∀ t (ht : t < (copiedLines m map).length), vm (copiedLines m map)[t] = v' (h.net.lines.size + t)) ∧
          (∀ j x k, map.getD j none = some x → ¬ (j ∈ m.net.io ∧ (m.net.node j).ins.length = 0) →
            ((h'.net.node x).inPin k).map v' = (((cutIns m (deadLine h c m sh)).net.node j).inPin k).map vm)) ∧
      -- (2) host with the cell meaning its implementation ⇒ result (gluing)
      (∀ (S : Nat → Prop) (an v anm vm : Nat → α), ConsOff h (fun d => S d ∨ d = c) z neg prim an v →
        ImplMatches h c m sh z neg prim anm vm v →
        ∃ an' v', ConsOff h' S z neg prim an' v' ∧ (∀ l, l < h.net.lines.size → v' l = v l) ∧
          (∀ d, d < h.net.nodes.size → d ≠ c → an' d = an d) ∧
          (∀ j x, j ∉ m.net.io → map.getD j none = some x → an' x = anm j) ∧
          (∀ t (ht : t < (copiedLines m map).length), v' (h.net.lines.size + t) = vm (copiedLines m map)[t]) ∧
          (∀ j x k, map.getD j none = some x → ¬ (j ∈ m.net.io ∧ (m.net.node j).ins.length = 0) →
            ((h'.net.node x).inPin k).map v' = (((cutIns m (deadLine h c m sh)).net.node j).inPin k).map vm))

/-- `substitute`, when nothing is removed (`keepsAllB`), satisfies the semantic statement `SubstSemStmt` (see there) -/
theorem substitute_sem {α : Type _} (h m h' : NNet) (c : Nat) (hw : h.wf = true) (mw : m.wf = true) (hc : c < h.net.nodes.size)
    (hio : h.net.io.contains c = false) (hcf : (h.net.node c).isFork = false)
    (hr : keepsAllB h c m = true) (hok : implOKB m = true) (he : substitute h c m = some h')
    (z : α) (neg : α → α) (prim : String → α → α → α → α → α) : SubstSemStmt h m h' c z neg prim := by
  obtain ⟨sh, dn, map, ct⟩ := substitute_cert h m h' c (WF.of_wf hw) (WF.of_wf mw) hc hio hcf hr hok he
  exact ⟨sh, dn, map, ct.shape, ct.des, wf_of_WF ct.wf', ct.mapDn,
    fun j x hm => ⟨ct.mapM j x hm, ct.mapGe j x hm, ct.mapLt j x hm, ct.kind' j x hm⟩, ct.mapInj, ct.io', ct.frameNode, ct.lsize,
    fun S hS an' v' hc' => ct.forward z neg prim S hS an' v' hc',
    fun S an v anm vm hH hM => ct.backward z neg prim S an v anm vm hH hM⟩

/-- **`remove_dangling_nodes` preserves the function** (model `removeDangling`: any start nodes, any `only` set of valid node
    references, any fuel that suffices), for every circuit that is well-formed up to trailing `None`s (`wfNoTrail`):
    the result is again well-formed up to trailing `None`s (`Line.remove()` leaves a trailing `None` in the pin list of a
    cell, so `NNet.wf` itself can fail), and there are index maps `r` (new index ↦ old index) under which every surviving
    node keeps kind, name and — pin by pin — the lines it reads, every surviving line keeps its driver, the ports are
    the same list, every flip-flop/latch survives; hence (restrict) every labelling of the circuit before that is consistent
    outside `S`, restricted to the surviving lines and renamed, is consistent for the result, and (extend) a labelling of
    the circuit before whose restriction is consistent for the result and which satisfies the equations of the removed
    lines is consistent; (extension exists) every labelling of the result that is consistent outside `S` IS the restriction of
    a labelling of the circuit before that is consistent outside `S` — a node has no connected output when it is removed,
    so the lines removed with it carry what their (still complete) drivers compute; removed logic cannot contain a cycle,
    no acyclicity assumption is needed. -/
theorem remove_dangling_sem {α : Type _} (fuel : Nat) (nn nn' : NNet) (own : List Nat) (stack : List (Option Nat))
    (hw : nn.wfNoTrail = true) (ho : own.all (fun x => decide (x < nn.net.nodes.size)) = true)
    (he : removeDangling fuel nn own stack = some nn') (z : α) (neg : α → α) (prim : String → α → α → α → α → α) :
    nn'.wfNoTrail = true ∧ ∃ r : Ren,
      (∀ j', j' < nn'.net.nodes.size → r.node j' < nn.net.nodes.size ∧ (nn'.net.node j').kind = (nn.net.node (r.node j')).kind ∧
        nn'.names.getD j' "" = nn.names.getD (r.node j') "" ∧
        ∀ k, ((nn'.net.node j').inPin k).map r.line = (nn.net.node (r.node j')).inPin k) ∧
      (∀ j1 j2, j1 < nn'.net.nodes.size → j2 < nn'.net.nodes.size → r.node j1 = r.node j2 → j1 = j2) ∧
      nn'.net.io.map r.node = nn.net.io ∧
      (∀ j, j < nn.net.nodes.size → isSeqKind (nn.net.node j).kind = true → ∃ j', j' < nn'.net.nodes.size ∧ r.node j' = j) ∧
      (∀ l', l' < nn'.net.lines.size → r.line l' < nn.net.lines.size ∧
        (nn.net.line (r.line l')).driver = r.node (nn'.net.line l').driver) ∧
      (∀ (S : Nat → Prop) (an v : Nat → α), ConsOff nn S z neg prim an v →
        ConsOff nn' (fun j' => S (r.node j')) z neg prim (fun j => an (r.node j)) (fun l => v (r.line l))) ∧
      (∀ (S : Nat → Prop) (an v : Nat → α),
        ConsOff nn' (fun j' => S (r.node j')) z neg prim (fun j => an (r.node j)) (fun l => v (r.line l)) →
        (∀ l, l < nn.net.lines.size → (¬ ∃ l', l' < nn'.net.lines.size ∧ r.line l' = l) → ¬ S (nn.net.line l).driver →
          v l = lineEq nn.net (spN nn.net) z neg prim an v l) →
        ConsOff nn S z neg prim an v) ∧
      (∀ (S : Nat → Prop) (an' v' : Nat → α), ConsOff nn' (fun j' => S (r.node j')) z neg prim an' v' →
        ∃ an v, ConsOff nn S z neg prim an v ∧ (∀ l', l' < nn'.net.lines.size → v (r.line l') = v' l') ∧
          (∀ j', j' < nn'.net.nodes.size → an (r.node j') = an' j')) := by
  have ho' : ∀ x ∈ own, x < nn.net.nodes.size := fun x hx => by simpa using List.all_eq_true.mp ho x hx
  obtain ⟨w', r, e, sq, ex⟩ := removeDangling_ext z neg prim fuel nn own stack nn' (WFm.of_wfNoTrail hw) ho' he
  exact ⟨wfNoTrail_of_WFm w', r, fun j' hj => ⟨e.nodeLt j' hj, e.kind j' hj, e.name j' hj, e.pins j' hj (fun x => x)⟩, e.nodeInj, e.io,
    sq, fun l' hl => ⟨e.lineLt l' hl, (e.drv l' hl).2.1⟩, fun S an v hc => e.restrict S z neg prim an v hc,
    fun S an v hc hrem => e.extend S z neg prim an v hc hrem, ex⟩

/-- **`substitute` with removal of dangling logic** (an unconnected output of the instance whose driver dangles): designated
    cell exists and no connected input pin is ignored (`noIgnoredB`; no condition on the outputs), `implOKB`.  The result
    `h'` of `substitute` is the circuit `h5` that `substituteCore` builds — for which the full semantic statement
    `SubstSemStmt` holds — with the copied forks made dense (`densify`: an identity embedding) and dangling logic removed:
    `h'` embeds into `h5` as in `remove_dangling_sem` (when nothing is removed `h'` is `h5` densified, and `h5` itself
    under `denseB`; well-formed up
    to trailing `None`s, index maps `r`, same ports, all state elements, every surviving node reads the same lines,
    restrict / extend / extension exists).  Composition (the last two clauses): (1) every consistent labelling of `h'` is the
    restriction of a labelling of `h5` under which the host is consistent outside the cell and the cell has the relational
    meaning of its whole implementation; (2) every labelling of the host that is consistent outside the cell, together with
    an `ImplMatches` labelling of the implementation, yields a consistent labelling of `h'` (glue, then restrict). -/
theorem substitute_sem_removing {α : Type _} (h m h' : NNet) (c : Nat) (hw : h.wf = true) (mw : m.wf = true)
    (hc : c < h.net.nodes.size) (hio : h.net.io.contains c = false) (hcf : (h.net.node c).isFork = false)
    (hr : noIgnoredB h c m = true) (hok : implOKB m = true) (he : substitute h c m = some h')
    (z : α) (neg : α → α) (prim : String → α → α → α → α → α) :
    ∃ (h5 : NNet) (map : Array (Option Nat)) (dang : List (Option Nat)) (r : Ren),
      substituteCore h c m = some (h5, map, dang) ∧ SubstSemStmt h m h5 c z neg prim ∧ h'.wfNoTrail = true ∧
      (keepsAllB h c m = true → h' = { h5 with net := densify h5.net map }) ∧ (keepsAllB h c m = true → denseB h c m = true → h' = h5) ∧
      (∀ j', j' < h'.net.nodes.size → r.node j' < h5.net.nodes.size ∧ (h'.net.node j').kind = (h5.net.node (r.node j')).kind ∧
        h'.names.getD j' "" = h5.names.getD (r.node j') "" ∧
        ∀ k, ((h'.net.node j').inPin k).map r.line = (h5.net.node (r.node j')).inPin k) ∧
      (∀ j1 j2, j1 < h'.net.nodes.size → j2 < h'.net.nodes.size → r.node j1 = r.node j2 → j1 = j2) ∧
      h'.net.io.map r.node = h5.net.io ∧
      (∀ j, j < h5.net.nodes.size → isSeqKind (h5.net.node j).kind = true → ∃ j', j' < h'.net.nodes.size ∧ r.node j' = j) ∧
      (∀ l', l' < h'.net.lines.size → r.line l' < h5.net.lines.size ∧
        (h5.net.line (r.line l')).driver = r.node (h'.net.line l').driver) ∧
      (∀ (S : Nat → Prop) (an v : Nat → α), ConsOff h5 S z neg prim an v →
        ConsOff h' (fun j' => S (r.node j')) z neg prim (fun j => an (r.node j)) (fun l => v (r.line l))) ∧
      (∀ (S : Nat → Prop) (an v : Nat → α),
        ConsOff h' (fun j' => S (r.node j')) z neg prim (fun j => an (r.node j)) (fun l => v (r.line l)) →
        (∀ l, l < h5.net.lines.size → (¬ ∃ l', l' < h'.net.lines.size ∧ r.line l' = l) → ¬ S (h5.net.line l).driver →
          v l = lineEq h5.net (spN h5.net) z neg prim an v l) →
        ConsOff h5 S z neg prim an v) ∧
      -- composed with `SubstSemStmt`, for every set `S` of host nodes other than the cell as holes: (1) a labelling of `h'` that is
      -- consistent outside (the nodes that were) `S` extends to the circuit before the removal, where the host is consistent
      -- outside `S ∪ {c}` and the cell has the relational meaning of its (whole) implementation
      (∀ (S : Nat → Prop), (∀ s, S s → s < h.net.nodes.size ∧ s ≠ c) → ∀ an' v' : Nat → α,
        ConsOff h' (fun j' => S (r.node j')) z neg prim an' v' →
        ∃ an5 v5 : Nat → α, (∀ l', l' < h'.net.lines.size → v5 (r.line l') = v' l') ∧ (∀ j', j' < h'.net.nodes.size → an5 (r.node j') = an' j') ∧
          ConsOff h (fun d => S d ∨ d = c) z neg prim an5 v5 ∧
          ∃ sh anm vm, implShape m = some sh ∧ ImplMatches h c m sh z neg prim anm vm v5) ∧
      -- (2) a labelling of the host consistent outside `S ∪ {c}` + a matching labelling of the implementation give a labelling
      -- of `h'` consistent outside `S`
      (∀ (S : Nat → Prop) (sh : Shape) (an v anm vm : Nat → α), implShape m = some sh →
        ConsOff h (fun d => S d ∨ d = c) z neg prim an v → ImplMatches h c m sh z neg prim anm vm v →
        ∃ an5 v5 : Nat → α, ConsOff h' (fun j' => S (r.node j')) z neg prim (fun j => an5 (r.node j)) (fun l => v5 (r.line l)) ∧
          (∀ l, l < h.net.lines.size → v5 l = v l) ∧ (∀ d, d < h.net.nodes.size → d ≠ c → an5 d = an d)) := by
  obtain ⟨h5, map, dang, sh, dn, r, hcore, ct, w5, hdl, w', e, sq, ex⟩ :=
    substitute_removing z neg prim h m h' c (WF.of_wf hw) (WF.of_wf mw) hc hio hcf hr hok he
  have hkeep : keepsAllB h c m = true → h' = { h5 with net := densify h5.net map } := by
    intro hk
    obtain ⟨_, _, h5', map', dang', _, _, hcore', e', _⟩ := substitute_keepsAll_eq h c m h' hk he (fun h5' map' dang' hc' => by
      rw [hcore] at hc'
      rw [← (Prod.mk.inj (Option.some.inj hc')).1]; exact w5)
    rw [hcore] at hcore'
    obtain ⟨e1, e2⟩ := Prod.mk.inj (Option.some.inj hcore')
    obtain ⟨e2, _⟩ := Prod.mk.inj e2
    subst e1 e2
    exact e'
  refine ⟨h5, map, dang, r, hcore, ?_, wfNoTrail_of_WFm w', hkeep, ?_,
    fun j' hj => ⟨e.nodeLt j' hj, e.kind j' hj, e.name j' hj, e.pins j' hj (fun x => x)⟩, e.nodeInj, e.io,
    sq, fun l' hl => ⟨e.lineLt l' hl, (e.drv l' hl).2.1⟩, fun S an v hc => e.restrict S z neg prim an v hc,
    fun S an v hc hrem => e.extend S z neg prim an v hc hrem, ?_, ?_⟩
  rotate_left 2
  · intro S hS an' v' hc'
    obtain ⟨an5, v5, c5, e1, e2⟩ := ex S an' v' hc'
    obtain ⟨f1, anm, vm, hM, _⟩ := ct.forward z neg prim S hS an5 v5 c5
    exact ⟨an5, v5, e1, e2, f1, sh, anm, vm, ct.shape, hM⟩
  · intro S sh' an v anm vm hs' hH hM
    have : sh' = sh := Option.some.inj (hs'.symm.trans ct.shape)
    subst this
    obtain ⟨an5, v5, c5, b1, b2, _⟩ := ct.backward z neg prim S an v anm vm hH hM
    exact ⟨an5, v5, e.restrict S z neg prim an5 v5 c5, b1, b2⟩
  · exact ⟨sh, dn, map, ct.shape, ct.des hdl, wf_of_WF w5, ct.mapDn hdl,
      fun j x hm => ⟨ct.mapM j x hm, ct.mapGe j x hm, ct.mapLt j x hm, ct.kind' j x hm⟩, ct.mapInj, ct.io', ct.frameNode, ct.lsize,
      fun S hS an' v' hc' => ct.forward z neg prim S hS an' v' hc',
      fun S an v anm vm hH hM => ct.backward z neg prim S an v anm vm hH hM⟩
  · intro hk hdn
    rw [hkeep hk]
    exact densNN_of_denseB h c m h5 map dang hcore hdn

/-- `ConsOff` without holes is consistency, and consistency in the node-indexed form is `consistentB` (Model/Net.lean,
    the gate-by-gate meaning used by C01): the labelling as an array, the assignment by `s_nodes` position -/
theorem consOff_consistent {α : Type _} [BEq α] [LawfulBEq α] (nn : NNet) (hw : nn.wf = true) (z : α) (neg : α → α)
    (prim : String → α → α → α → α → α) (asg : Nat → α) (v : Array α) :
    consistentB nn.net z neg prim asg v = true ↔
      ConsOff nn (fun _ => False) z neg prim (fun n => asg (nn.net.sNodes.idxOf n)) (fun l => v.getD l z) := by
  rw [consOff_false]; exact consistentB_iff_wf (WF.of_wf hw) z neg prim asg v

/-- every line of the host that is not driven by the substituted cell keeps its equation literally: for every labelling
    and every assignment, `lineEq` of the result at that line equals `lineEq` of the host (same driver, same pin, same
    driver record, hence same gate function of the same in-lines) -/
theorem substitute_sem_partial {α : Type _} (h m h' : NNet) (c : Nat) (hw : h.wf = true) (hc : c < h.net.nodes.size)
    (hr : regularB h c m = true) (hdense : denseB h c m = true) (he : substitute h c m = some h')
    (sp : Nat → Option Nat) (z : α) (neg : α → α) (prim : String → α → α → α → α → α) (a : Nat → α) (v : Nat → α)
    (l : Nat) (hl : l < h.net.lines.size) (hd : (h.net.line l).driver ≠ c) :
    lineEq h'.net sp z neg prim a v l = lineEq h.net sp z neg prim a v l := by
  obtain ⟨_, _, _, _, _, _, hnode, hdrv, _⟩ := substitute_wiring h m h' c hw hc hr hdense he
  have hb := (WF.of_wf hw).back l hl
  exact lineEq_frame h.net h'.net sp z neg prim a v l (hdrv l hl hd).1 (hdrv l hl hd).2 (hnode _ hb.1 hd)

/-- `resolve_tlib_cells(tlib)` (model `resolveCells`: `substitute` for every node of the snapshot whose kind is in the
    library): the port list keeps names and order, for every library, provided no port node is itself a library cell -/
theorem resolve_ports (lib : Lib) (h h' : NNet) (hw : h.wf = true)
    (hp : (h.net.io.all fun i => (lib.find (h.net.node i).kind).isNone) = true) (he : resolveCells lib h = some h') :
    h'.ioNames = h.ioNames ∧ h'.net.io.length = h.net.io.length := by
  have w := WF.of_wf hw
  have hk : ∀ k ∈ ioKinds h, lib.find k = none := by
    intro k hk
    obtain ⟨i, hi, e⟩ := List.mem_map.mp hk
    have := List.all_eq_true.mp hp i hi
    rw [← e]
    simpa [kindAt, Net.node] using this
  have r := (resolve_fold lib h.keys h h' he ⟨w.names, w.io⟩ hk).1
  exact ⟨r, by simpa [NNet.ioNames] using congrArg List.length r⟩

/-- **`resolve_tlib_cells` preserves the function** (model `resolveCells`; every substitution along the loop removes nothing:
    `resolveOKB`, decidable, evaluated by running the model).  With `cell x` = "`x` is a node of the original circuit whose
    kind is in the library": the result is well-formed, keeps ports, all other nodes and all node keys of the original;
    **(1)** every consistent labelling `v'` of the result is, on the original lines, consistent for the original circuit
    outside the library cells, and every library cell `c` has the relational meaning of its implementation under `v'`
    (`ImplMatches`, see `substitute_sem`); **(2)** conversely every labelling of the original circuit that is consistent
    outside the library cells and gives every library cell the relational meaning of its implementation extends to a
    consistent labelling of the result (same values on the original lines, same assignment on the other nodes). -/
theorem resolve_sem {α : Type _} (lib : Lib) (h h' : NNet) (hw : h.wf = true) (hok : resolveOKB lib h.keys h = true)
    (he : resolveCells lib h = some h') (z : α) (neg : α → α) (prim : String → α → α → α → α → α) :
    h'.wf = true ∧ h'.net.io = h.net.io ∧ h.net.nodes.size ≤ h'.net.nodes.size ∧ h.net.lines.size ≤ h'.net.lines.size ∧
    (∀ d, d < h.net.nodes.size → (lib.find (h.net.node d).kind).isSome = false → h'.net.node d = h.net.node d) ∧
    (∀ d, d < h.net.nodes.size → h'.key d = h.key d) ∧
    (∀ an' v' : Nat → α, ConsOff h' (fun _ => False) z neg prim an' v' →
      ConsOff h (fun x => x < h.net.nodes.size ∧ (lib.find (h.net.node x).kind).isSome = true) z neg prim an' v' ∧
      ∀ c, c < h.net.nodes.size → (lib.find (h.net.node c).kind).isSome = true →
        ∃ impl sh anm vm, lib.find (h.net.node c).kind = some impl ∧ implShape impl = some sh ∧
          ImplMatches h c impl sh z neg prim anm vm v') ∧
    (∀ an v : Nat → α,
      ConsOff h (fun x => x < h.net.nodes.size ∧ (lib.find (h.net.node x).kind).isSome = true) z neg prim an v →
      (∀ c, c < h.net.nodes.size → (lib.find (h.net.node c).kind).isSome = true →
        ∃ impl sh anm vm, lib.find (h.net.node c).kind = some impl ∧ implShape impl = some sh ∧
          ImplMatches h c impl sh z neg prim anm vm v) →
      ∃ an' v', ConsOff h' (fun _ => False) z neg prim an' v' ∧ (∀ l, l < h.net.lines.size → v' l = v l) ∧
        (∀ d, d < h.net.nodes.size → (lib.find (h.net.node d).kind).isSome = false → an' d = an d)) := by
  have r := resolve_sem_main lib h h' (WF.of_wf hw) z neg prim hok he
  refine ⟨wf_of_WF r.wf, r.io, r.nsize, r.lsize, fun d hd hn => r.node d hd (fun hc => by rw [hn] at hc; exact absurd hc.2 (by simp)),
    r.key, ?_, ?_⟩
  · intro an' v' hc
    obtain ⟨g1, g2⟩ := r.fw (fun _ => False) (fun _ hs => absurd hs id) an' v' hc
    exact ⟨consOff_congr (fun x => by simp) g1, fun c hc1 hc2 => g2 c ⟨hc1, hc2⟩⟩
  · intro an v hc hcells
    obtain ⟨an', v', c1, e1, e2⟩ := r.bw (fun _ => False) (fun _ hs => absurd hs id) an v
      (consOff_congr (fun x => by simp) hc) (fun c hc' => hcells c hc'.1 hc'.2)
    exact ⟨an', v', c1, e1, fun d hd hn => e2 d hd (fun hc' => by rw [hn] at hc'; exact absurd hc'.2 (by simp))⟩

/-! ## non-vacuity -/
/-- a well-formed dump with an unconnected pin, a two-output flip-flop, fan-out and both node classes sharing a name -/
def exWf : NNet where
  net :=
    { nodes := #[⟨"input", [], [some 0]⟩, ⟨"__fork__", [some 0], [some 1, some 2]⟩,
                 ⟨"AND3", [some 1, none, some 5], [some 3]⟩, ⟨"DFF", [some 2], [some 4, some 5]⟩,
                 ⟨"__fork__", [some 3], [some 6]⟩, ⟨"output", [some 6], []⟩, ⟨"output", [some 4], []⟩]
      lines := #[⟨0, 0, 1, 0⟩, ⟨1, 0, 2, 0⟩, ⟨1, 1, 3, 0⟩, ⟨2, 0, 4, 0⟩, ⟨3, 0, 6, 0⟩, ⟨3, 1, 2, 2⟩, ⟨4, 0, 5, 0⟩]
      io := [0, 5, 6] }
  names := #["a", "a", "g", "ff", "g", "z", "q"]

example : exWf.wf = true := by decide +kernel
example : copyNet exWf = exWf := copy_dump_eq exWf (by decide +kernel)
/-- the hypotheses of `elim_ports` / `elim_state_perm` are satisfiable and the loop really removes something -/
example : exWf.wf = true ∧ (elimForks exWf).map (fun n => (n.net.nodes.size, n.net.lines.size, n.ioNames)) =
    some (6, 6, ["a", "z", "q"]) := by decide +kernel
/-- `wf` rejects a dump whose pin entry does not point back (so it is not trivially true) -/
example : ({ exWf with net := { exWf.net with lines := exWf.net.lines.set! 1 ⟨1, 0, 3, 0⟩ } } : NNet).wf = false := by
  decide +kernel
/-- a trailing `None` in a pin list is the one thing `copy` does not reproduce (hence part of `wf`) -/
example : let nn : NNet := { net := { nodes := #[⟨"AND2", [none], []⟩], lines := #[], io := [] }, names := #["g"] }
    nn.wf = false ∧ (copyNet nn).net.nodes.toList.map (·.ins) = [[]] := by decide +kernel
/-- hypothesis of `copy_trims` / `copy_wfNoTrail_same_function`: the result of `substitute exHostFF 2 exImplFZ` (below) is `wfNoTrail`
    but not `wf` (the `DFF` has `outs = [line 2, None]`); its copy has `outs = [line 2]` and is `wf` -/
example : let nn : NNet := { net := { nodes := #[⟨"input", [], [some 0]⟩, ⟨"DFF", [some 0, none], [some 1, none]⟩, ⟨"output", [some 1], []⟩],
                                      lines := #[⟨0, 0, 1, 0⟩, ⟨1, 0, 2, 0⟩], io := [0, 2] }, names := #["d", "u", "q"] }
    nn.wfNoTrail = true ∧ nn.wf = false ∧ (copyNet nn).wf = true ∧
    (copyNet nn).net.nodes.toList.map (fun n => (n.ins, n.outs)) = [([], [some 0]), ([some 0], [some 1]), ([some 1], [])] := by
  decide +kernel
/-- hypotheses of `elim_sem_partial`: a consistent labelling of `exWf` exists (the evaluator's), fork 4 is a 1:1 fork -/
example : consistentB exWf.net false (!·) prim2 (fun j => j == 0) (evalAll exWf.net false (!·) prim2 (fun j => j == 0)) = true ∧
    (exWf.net.node 4).isFork = true ∧ exWf.net.io.contains 4 = false ∧
    (exWf.net.node 4).ins.head? = some (some 3) ∧ (exWf.net.node 4).outs.head? = some (some 6) := by decide +kernel
/-- hypotheses of `elim_sem` / `elim_sem_captures` / `elim_one_sem`: `exWf` is well-formed with one-input forks, the loop
    removes fork 4 (the last node, `q`, moves into its slot and the last line into the slot of line 6: non-trivial maps),
    and the evaluator's labelling is consistent; the conclusion evaluated on it -/
example : exWf.wf = true ∧ exWf.forkIns1 = true ∧
    (elimForksInM false exWf.forkNames exWf).map (fun p => ((List.range p.1.net.nodes.size).map p.2.node,
      (List.range p.1.net.lines.size).map p.2.line)) = some ([0, 1, 2, 3, 6, 5], [0, 1, 2, 3, 4, 5]) ∧
    (elimOneM false exWf 4).map (fun p => (p.1.net.nodes.size, p.1.net.lines.size)) = some (6, 6) ∧
    (exWf.net.node 4).isFork = true ∧
    consistentB exWf.net false (!·) prim2 (fun j => j == 0) (evalAll exWf.net false (!·) prim2 (fun j => j == 0)) = true ∧
    ((elimForksInM false exWf.forkNames exWf).map fun p =>
      consistentB p.1.net false (!·) prim2 (reassign p.2 exWf p.1 (fun j => j == 0))
        (relabel p.2 p.1 (evalAll exWf.net false (!·) prim2 (fun j => j == 0)) false)) = some true := by decide +kernel

/-- on `exOrder` the line map is not the identity either: line 1 is deleted, the last line (4) takes its index; node 1 is
    deleted, the last node (5, flip-flop `B`) takes its index — `sigma` exchanges the positions of `A` and `B` -/
example : exOrder.wf = true ∧ exOrder.forkIns1 = true ∧
    (elimForksInM false exOrder.forkNames exOrder).map (fun p => ((List.range p.1.net.nodes.size).map p.2.node,
      (List.range p.1.net.lines.size).map p.2.line, (List.range p.1.net.sNodes.length).map (sigma p.2 exOrder p.1))) =
      some ([0, 5, 2, 3, 4], [0, 4, 2, 3], [0, 1, 2, 4, 3]) ∧
    consistentB exOrder.net false (!·) prim2 (fun j => j == 0 || j == 4)
      (evalAll exOrder.net false (!·) prim2 (fun j => j == 0 || j == 4)) = true := by decide +kernel

/-! ### `substitute` -/
/-- an implementation (as `TechLib` builds it: bench text, 1:1 forks eliminated) with two outputs, an input with two
    readers (`A`), an input with one reader (`B`) and an output that is also read internally (`X`):
    `input(A,B) output(X,Y) T=NAND2(A,B) X=INV1(T) Y=OR2(A,X)` -/
def exImpl : NNet :=
  { net := { nodes := #[⟨"__fork__", [], [some 1, some 6]⟩, ⟨"__fork__", [], [some 2]⟩, ⟨"__fork__", [some 3], [some 4]⟩,
                        ⟨"__fork__", [some 5], []⟩, ⟨"NAND2", [some 1, some 2], [some 0]⟩, ⟨"OR2", [some 6, some 4], [some 5]⟩,
                        ⟨"INV1", [some 0], [some 3]⟩],
             lines := #[⟨4, 0, 6, 0⟩, ⟨0, 0, 4, 0⟩, ⟨1, 0, 4, 1⟩, ⟨6, 0, 2, 0⟩, ⟨2, 0, 5, 1⟩, ⟨5, 0, 3, 0⟩, ⟨0, 1, 5, 0⟩],
             io := [0, 1, 2, 3] },
    names := #["A", "B", "X", "Y", "T", "Y", "X"] }
/-- a host with the instance `u` (node 2) between two inputs, an output and a flip-flop -/
def exHost : NNet :=
  { net := { nodes := #[⟨"input", [], [some 0]⟩, ⟨"input", [], [some 2]⟩, ⟨"AOCELL", [some 1, some 2], [some 3, some 4]⟩,
                        ⟨"output", [some 3], []⟩, ⟨"DFF", [some 4, some 6], [some 5]⟩, ⟨"output", [some 5], []⟩,
                        ⟨"__fork__", [some 0], [some 1, some 6]⟩],
             lines := #[⟨0, 0, 6, 0⟩, ⟨6, 0, 2, 0⟩, ⟨1, 0, 2, 1⟩, ⟨2, 0, 3, 0⟩, ⟨2, 1, 4, 0⟩, ⟨4, 0, 5, 0⟩, ⟨6, 1, 4, 1⟩],
             io := [0, 1, 3, 5] },
    names := #["a", "b", "u", "z", "ff", "q", "a"] }

/-- hypotheses of `substitute_ports` / `_state_perm` / `_regular` / `_snames` / `_wiring` / `_sem_partial` are satisfiable:
    the designated cell is `X=INV1` (node 6 of the implementation); the result is the dump the real code produces
    (harness/c10.py compares such dumps on random inputs) -/
example : exHost.wf = true ∧ exHost.net.io.contains 2 = false ∧ regularB exHost 2 exImpl = true ∧ denseB exHost 2 exImpl = true ∧
    (implShape exImpl).map (fun sh => (sh.inPorts, sh.outLines, sh.des)) = some ([0, 1], [3, 5], some 6) ∧
    -- the class condition of `substitute_snames`
    hasSub "dff" (exImpl.net.node 6).kind.toLower = hasSub "dff" (exHost.net.node 2).kind.toLower ∧
    hasSub "latch" (exImpl.net.node 6).kind.toLower = hasSub "latch" (exHost.net.node 2).kind.toLower ∧
    ((List.range exImpl.net.nodes.size).all fun j => j == 6 || !isSeqKind (exImpl.net.node j).kind) = true := by decide +kernel
example : (substitute exHost 2 exImpl).map (fun r => (r.kindNames.drop 7, r.sNames)) =
    some ([("__fork__", "u~A"), ("__fork__", "u~X"), ("NAND2", "u~T"), ("OR2", "u~Y")], ["a", "b", "z", "q", "ff"]) := by
  decide +kernel
example : (substitute exHost 2 exImpl).map (fun r => (r.net.lines.toList.drop 7, (r.net.node 2).kind, (r.net.node 2).ins, (r.net.node 2).outs)) =
    some ([⟨9, 0, 2, 0⟩, ⟨7, 0, 9, 0⟩, ⟨2, 0, 8, 0⟩, ⟨8, 0, 10, 1⟩, ⟨7, 1, 10, 0⟩], "INV1", [some 7], [some 9]) := by
  decide +kernel
example : (substitute exHost 2 exImpl).map (fun r => (r.net.line 1, r.net.line 2, r.net.line 3, r.net.line 4)) =
    some (⟨6, 0, 7, 0⟩, ⟨1, 0, 9, 1⟩, ⟨8, 1, 3, 0⟩, ⟨10, 0, 4, 0⟩) := by decide +kernel

/-- hypotheses of `substitute_wf` / `substitute_sem` are satisfiable (`exHost`, cell 2, `exImpl`: two outputs, an output read
    inside, inputs with one and with two readers); the result is well-formed, has 5 copied lines, and a consistent
    labelling of it exists (the evaluator's), so direction (1) of `substitute_sem` is not vacuous -/
example : exHost.wf = true ∧ exImpl.wf = true ∧ exHost.net.io.contains 2 = false ∧ (exHost.net.node 2).isFork = false ∧
    regularB exHost 2 exImpl = true ∧ keepsAllB exHost 2 exImpl = true ∧ implOKB exImpl = true ∧
    (substitute exHost 2 exImpl).map (fun r => (r.wf, r.net.lines.size,
      consistentB r.net false (!·) prim2 (fun j => j == 0 || j == 4) (evalAll r.net false (!·) prim2 (fun j => j == 0 || j == 4)))) =
      some (true, 12, true) := by decide +kernel

/-- regular use with an unconnected input pin: the instance `u` has pin `A` only; line 2 of `exImpl` (from port `B` to the
    `NAND2`) is absent (`deadLine`), the copied `NAND2` has one pin — `substitute_sem` relates the result to
    `cutIns exImpl …`, the implementation without that line ("kyupy's own reading of a missing pin") -/
def exHostI : NNet :=
  { net := { nodes := #[⟨"input", [], [some 0]⟩, ⟨"AOCELL", [some 0], [some 1, some 2]⟩, ⟨"output", [some 1], []⟩,
                        ⟨"output", [some 2], []⟩],
             lines := #[⟨0, 0, 1, 0⟩, ⟨1, 0, 2, 0⟩, ⟨1, 1, 3, 0⟩], io := [0, 2, 3] },
    names := #["a", "u", "z", "y"] }
example : exHostI.wf = true ∧ regularB exHostI 1 exImpl = true ∧ keepsAllB exHostI 1 exImpl = true ∧
    (exHostI.net.node 1).isFork = false ∧
    (implShape exImpl).map (fun sh => (List.range exImpl.net.lines.size).filter (deadLine exHostI 1 exImpl sh)) = some [2] ∧
    (substitute exHostI 1 exImpl).map (fun r => (r.wf, (r.net.node 6).kind, (r.net.node 6).ins)) =
      some (true, "NAND2", [some 4]) := by decide +kernel

/-- finding D32 and its repair.  BEFORE the repair (`substituteOld`, Model/SubstSem.lean: `substitute` with the earlier rule
    `designated_cell = n`) a Verilog-style feed-through `input A -> fork a -> output X` as implementation made the port cell
    `A` the designated cell: the host cell took kind `input`, its copied line to the fork `u~a` (line 2) lost the fork's
    pin 0 to the instance's input line (line 0) — regular use, but the result was not a well-formed circuit, and `copy()` / a
    pickle round trip of it connected the fork to the stale line so that the output read 0 instead of the input
    (`substitute_designated_port_not_wf`, corpus/C10-designated-port.json, harness class `substitute-designated-port`).
    SINCE the repair (`substitute`: a port is no designated cell, the instance is removed) the result is the well-formed
    feed-through `i -> u~a -> o` (`substitute_feedthrough_repaired`); `implOKB` no longer needs the clause "the designated
    cell is not a port" (`implShape_des_notPort`). -/
def exFeed : NNet :=
  { net := { nodes := #[⟨"input", [], [some 0]⟩, ⟨"__fork__", [some 0], [some 1]⟩, ⟨"output", [some 1], []⟩],
             lines := #[⟨0, 0, 1, 0⟩, ⟨1, 0, 2, 0⟩], io := [0, 2] },
    names := #["A", "a", "X"] }
def exFeedHost : NNet :=
  { net := { nodes := #[⟨"input", [], [some 0]⟩, ⟨"CELL", [some 0], [some 1]⟩, ⟨"output", [some 1], []⟩],
             lines := #[⟨0, 0, 1, 0⟩, ⟨1, 0, 2, 0⟩], io := [0, 2] },
    names := #["i", "u", "o"] }
theorem substitute_designated_port_not_wf :
    exFeed.wf = true ∧ exFeedHost.wf = true ∧ (implShapeOld exFeed).map (·.des) = some (some 0) ∧
    (substituteOld exFeedHost 1 exFeed).map (fun r => (r.wf, (r.net.node 1).kind, r.net.line 2, (r.net.node 3).ins)) =
      some (false, "input", ⟨1, 0, 3, 0⟩, [some 0]) := by decide +kernel

/-- the repaired behaviour on the same input: no designated cell, the instance `u` is removed (the last node `o` takes its
    index, the fork `u~a` is appended), the result `i -> u~a -> o` is well-formed and `copy()` of it has the same lines
    (`copy_dump_eq` applies) -/
theorem substitute_feedthrough_repaired :
    (implShape exFeed).map (·.des) = some none ∧
    (substitute exFeedHost 1 exFeed).map (fun r => (r.wf, r.kindNames, r.net.io)) =
      some (true, [("input", "i"), ("output", "o"), ("__fork__", "u~a")], [0, 1]) ∧
    (substitute exFeedHost 1 exFeed).map (fun r => (r.net.lines.toList, (copyNet r).net.lines.toList)) =
      some ([⟨0, 0, 2, 0⟩, ⟨2, 0, 1, 0⟩], [⟨0, 0, 2, 0⟩, ⟨2, 0, 1, 0⟩]) := by
  decide +kernel

/-- a use of `substitute` in which a copied fork gets a GAP (the shape of D30; `C09.exGap` at object level): fork `F` of the
    implementation drives the output port `O1` at pin 0 and the `INV1` at pin 1, the instance has `O1` open.  Nothing is removed
    (`keepsAllB`: `F` keeps a connected output), `denseB` is false, `substituteCore` leaves `u~F.outs = [None, line 2]` and
    `substitute` makes it `[line 2]` with `driver_pin` 0 — `substitute_wf` / `substitute_sem` apply (they need no `denseB`) -/
def exGapImpl : NNet :=
  { net := { nodes := #[⟨"input", [], [some 0]⟩, ⟨"__fork__", [some 0], [some 1, some 2]⟩, ⟨"INV1", [some 2], [some 3]⟩,
                        ⟨"output", [some 1], []⟩, ⟨"output", [some 3], []⟩],
             lines := #[⟨0, 0, 1, 0⟩, ⟨1, 0, 3, 0⟩, ⟨1, 1, 2, 0⟩, ⟨2, 0, 4, 0⟩], io := [0, 4, 3] },
    names := #["A", "F", "X", "O1", "O2"] }
example : exGapImpl.wf = true ∧ exFeedHost.wf = true ∧ exFeedHost.net.io.contains 1 = false ∧ (exFeedHost.net.node 1).isFork = false ∧
    keepsAllB exFeedHost 1 exGapImpl = true ∧ implOKB exGapImpl = true ∧ regularB exFeedHost 1 exGapImpl = false ∧
    denseB exFeedHost 1 exGapImpl = false ∧
    (substituteCore exFeedHost 1 exGapImpl).map (fun r => (r.1.net.node 3).outs) = some [none, some 2] ∧
    (substitute exFeedHost 1 exGapImpl).map (fun r => (r.wf, (r.net.node 3).kind, (r.net.node 3).outs, r.net.line 2)) =
      some (true, "__fork__", [some 2], ⟨3, 0, 1, 0⟩) := by decide +kernel

/-- the removing cases are modelled too (they are covered by `substitute_ports` and `substitute_state_perm`): with output
    pin 1 of the instance unconnected the `OR2` of `exImpl` dangles and is removed; with an implementation that ignores
    its input and has no node of its own the cell and its in-line are removed, and the last node takes the cell's index -/
def exHostU : NNet :=
  { net := { nodes := #[⟨"input", [], [some 0]⟩, ⟨"input", [], [some 2]⟩, ⟨"AOCELL", [some 1, some 2], [some 3]⟩,
                        ⟨"output", [some 3], []⟩, ⟨"DFF", [none, some 5], [some 4]⟩, ⟨"output", [some 4], []⟩,
                        ⟨"__fork__", [some 0], [some 1, some 5]⟩],
             lines := #[⟨0, 0, 6, 0⟩, ⟨6, 0, 2, 0⟩, ⟨1, 0, 2, 1⟩, ⟨2, 0, 3, 0⟩, ⟨4, 0, 5, 0⟩, ⟨6, 1, 4, 1⟩],
             io := [0, 1, 3, 5] },
    names := #["a", "b", "u", "z", "ff", "q", "a"] }
def exFill : NNet :=
  { net := { nodes := #[⟨"input", [], [some 0]⟩, ⟨"FILL", [some 0], []⟩, ⟨"DFF", [], []⟩], lines := #[⟨0, 0, 1, 0⟩], io := [0] },
    names := #["a", "u", "ff"] }
example : exHostU.wf = true ∧ exHostU.net.io.contains 2 = false ∧ regularB exHostU 2 exImpl = false ∧
    (substitute exHostU 2 exImpl).map (fun r => (r.net.nodes.size, r.kindNames.drop 7, r.sNames)) =
      some (10, [("__fork__", "u~A"), ("__fork__", "u~X"), ("NAND2", "u~T")], ["a", "b", "z", "q", "ff"]) := by decide +kernel
example : exFill.wf = true ∧
    (substitute exFill 1 { net := { nodes := #[⟨"__fork__", [], []⟩], lines := #[], io := [0] }, names := #["A"] }).map
      (fun r => (r.kindNames, r.net.lines.size)) = some ([("input", "a"), ("DFF", "ff")], 0) := by decide +kernel

/-- an unconnected output whose driver stays (`keepsAllB` but not `regularB`): a flip-flop cell `input(D,C) output(Q,QN)` whose
    outputs are the two pins of one `DFF` primitive, instantiated with `QN` open — nothing is removed, the host cell becomes
    the `DFF`, `substitute_wf` / `substitute_sem` apply.  (With `exHostU`, where the `OR2` of `exImpl` dangles and is
    removed, `keepsAllB` is false: not covered.) -/
def exImplFF : NNet :=
  { net := { nodes := #[⟨"__fork__", [], [some 0]⟩, ⟨"__fork__", [], [some 1]⟩, ⟨"__fork__", [some 2], []⟩,
                        ⟨"__fork__", [some 3], []⟩, ⟨"DFF", [some 0, some 1], [some 2, some 3]⟩],
             lines := #[⟨0, 0, 4, 0⟩, ⟨1, 0, 4, 1⟩, ⟨4, 0, 2, 0⟩, ⟨4, 1, 3, 0⟩], io := [0, 1, 2, 3] },
    names := #["D", "C", "Q", "QN", "Q"] }
def exHostFF : NNet :=
  { net := { nodes := #[⟨"input", [], [some 0]⟩, ⟨"input", [], [some 1]⟩, ⟨"DFFX1", [some 0, some 1], [some 2]⟩,
                        ⟨"output", [some 2], []⟩],
             lines := #[⟨0, 0, 2, 0⟩, ⟨1, 0, 2, 1⟩, ⟨2, 0, 3, 0⟩], io := [0, 1, 3] },
    names := #["d", "clk", "u", "q"] }
example : exImplFF.wf = true ∧ exHostFF.wf = true ∧ regularB exHostFF 2 exImplFF = false ∧ keepsAllB exHostFF 2 exImplFF = true ∧
    implOKB exImplFF = true ∧ exHostFF.net.io.contains 2 = false ∧ (exHostFF.net.node 2).isFork = false ∧
    keepsAllB exHostU 2 exImpl = false ∧
    (substitute exHostFF 2 exImplFF).map (fun r => (r.wf, (r.net.node 2).kind, (r.net.node 2).outs, r.sNames)) =
      some (true, "DFF", [some 2], ["d", "clk", "q", "u"]) := by decide +kernel

/-- hypotheses of `substitute_sem_removing` / `remove_dangling_sem` are satisfiable and something is removed: with `exHostU` the
    `OR2` of `exImpl` dangles (11 nodes before, 10 after the removal); with the cell `input(D,C) output(Q,Z)`, `Q` = pin 0 of a
    `DFF`, `Z = INV1(pin 1 of the DFF)`, instantiated with `Z` open, the `INV1` is removed and leaves a trailing `None` in the
    `outs` of the `DFF` (`[some 2, none]`): the result is well-formed only up to trailing `None`s (`wfNoTrail`), as the
    theorems state -/
def exImplFZ : NNet :=
  { net := { nodes := #[⟨"__fork__", [], [some 0]⟩, ⟨"__fork__", [], [some 1]⟩, ⟨"__fork__", [some 2], []⟩,
                        ⟨"__fork__", [some 4], []⟩, ⟨"DFF", [some 0, some 1], [some 2, some 3]⟩, ⟨"INV1", [some 3], [some 4]⟩],
             lines := #[⟨0, 0, 4, 0⟩, ⟨1, 0, 4, 1⟩, ⟨4, 0, 2, 0⟩, ⟨4, 1, 5, 0⟩, ⟨5, 0, 3, 0⟩], io := [0, 1, 2, 3] },
    names := #["D", "C", "Q", "Z", "Q", "Z"] }
example : noIgnoredB exHostU 2 exImpl = true ∧ keepsAllB exHostU 2 exImpl = false ∧
    (substituteCore exHostU 2 exImpl).map (fun r => (r.1.wf, r.1.net.nodes.size, r.2.2)) = some (true, 11, [some 10]) ∧
    (substitute exHostU 2 exImpl).map (fun r => (r.wf, r.wfNoTrail, r.net.nodes.size)) = some (true, true, 10) ∧
    exImplFZ.wf = true ∧ implOKB exImplFZ = true ∧ noIgnoredB exHostFF 2 exImplFZ = true ∧
    (substitute exHostFF 2 exImplFZ).map (fun r => (r.wf, r.wfNoTrail, (r.net.node 2).kind, (r.net.node 2).outs, r.net.nodes.size)) =
      some (false, true, "DFF", [some 2, none], 4) := by decide +kernel

/-- hypotheses of `resolve_sem`: every substitution of the example removes nothing (`resolveOKB`); the result is consistent under the
    evaluator's labelling (direction (1) is not vacuous) -/
example : exHost.wf = true ∧ resolveOKB [("AOCELL", exImpl)] exHost.keys exHost = true ∧
    (resolveCells [("AOCELL", exImpl)] exHost).map (fun r => (r.wf,
      consistentB r.net false (!·) prim2 (fun j => j == 1 || j == 4) (evalAll r.net false (!·) prim2 (fun j => j == 1 || j == 4)))) =
      some (true, true) := by decide +kernel

/-- hypotheses of `resolve_ports`: the host of the example with the library `AOCELL ↦ exImpl` -/
example : exHost.wf = true ∧ (exHost.net.io.all fun i => (Lib.find [("AOCELL", exImpl)] (exHost.net.node i).kind).isNone) = true ∧
    (resolveCells [("AOCELL", exImpl)] exHost).map (fun r => (r.net.nodes.size, r.ioNames)) = some (11, ["a", "b", "z", "q"]) := by
  decide +kernel

/-! ## the general semantic statement about `substitute` (ignored input pins, implementations without designated cell) -/

/-- **the general semantic statement about `substitute`** (conclusion of `substitute_sem_general`).  `substitute` may remove things: the host
    line at an instance pin that the implementation ignores (`Line.remove()`, the last line takes its index), the instance
    itself when the implementation has no designated cell (`Node.remove()`, the last node takes its index), dangling logic
    behind an unconnected output.  Host line / node indices are therefore not stable, and the statement is along **index maps**
    `R` (as `elim_sem` / `remove_dangling_sem`): `R.node j'` / `R.line l'` = the *canonical index* of node `j'` / line `l'` of the
    result `h'`, where a host node or line has its index in `h`, the copy of implementation node `j` has index `map[j]`
    (`node_map`: `c` for the designated cell, indices behind the host's nodes for the others) and the copy of the `t`-th copied
    implementation line (`copiedLines m map`) has index `h.lines.size + t`; `glueV h m map v vm` = the labelling of the
    canonical indices made of a host labelling `v` and an implementation labelling `vm`.
    * `h'` is well-formed up to trailing `None`s; `R` is injective on nodes and on lines; ports are kept in order;
    * every host node other than the cell survives, with kind, name and (pin by pin, renamed) the same input lines; every
      flip-flop / latch of the implementation survives; only host lines that END AT THE CELL can disappear (the lines at
      ignored pins, lines into removed dangling logic); a surviving host line not driven by the cell keeps its driver (and
      its driver pin, unless the driver is a fork, whose outputs `Line.remove()` squeezes);
    * **(1)** every labelling `(an', v')` of `h'` that is consistent outside `S` (any set of host nodes other than the cell,
      read through `R`) comes from a labelling `(an, v)` of the WHOLE host that is consistent outside `S ∪ {c}` and a labelling
      `(anm, vm)` of the implementation with `ImplMatches h c m sh anm vm v` (the cell means its implementation), `v'` being
      the restriction of `glueV … v vm` along `R`; the values of the removed host lines that are driven by a hole in `S`
      can be prescribed (`pre`) — no equation constrains them (used by `resolve_sem_general`, where a removed line may be
      driven by a cell that is substituted later);
    * **(2)** conversely every such pair glues and restricts to a labelling of `h'` consistent outside `S`. -/
def SubstGenStmt {α : Type _} (h m h' : NNet) (c : Nat) (z : α) (neg : α → α) (prim : String → α → α → α → α → α) : Prop :=
    ∃ (sh : Shape) (map : Array (Option Nat)) (R : Ren),
      implShape m = some sh ∧ h'.wfNoTrail = true ∧
      -- `node_map`
      (∀ j x, map.getD j none = some x → j < m.net.nodes.size ∧ (x = c ∨ h.net.nodes.size ≤ x)) ∧
      (∀ j1 j2 x, map.getD j1 none = some x → map.getD j2 none = some x → j1 = j2) ∧
      -- the index maps
      (∀ j1 j2, j1 < h'.net.nodes.size → j2 < h'.net.nodes.size → R.node j1 = R.node j2 → j1 = j2) ∧
      (∀ l1 l2, l1 < h'.net.lines.size → l2 < h'.net.lines.size → R.line l1 = R.line l2 → l1 = l2) ∧
      (∀ l', l' < h'.net.lines.size → R.line l' < h.net.lines.size + (copiedLines m map).length) ∧
      h'.net.io.map R.node = h.net.io ∧
      (∀ j', j' < h'.net.nodes.size → R.node j' < h.net.nodes.size → R.node j' ≠ c →
        (h'.net.node j').kind = (h.net.node (R.node j')).kind ∧ h'.names.getD j' "" = h.names.getD (R.node j') "" ∧
        ∀ k, ((h'.net.node j').inPin k).map R.line = (h.net.node (R.node j')).inPin k) ∧
      (∀ j x j', map.getD j none = some x → j' < h'.net.nodes.size → R.node j' = x →
        (h'.net.node j').kind = if j ∈ m.net.io then "__fork__" else (m.net.node j).kind) ∧
      -- what survives
      (∀ d, d < h.net.nodes.size → d ≠ c → ∃ j', j' < h'.net.nodes.size ∧ R.node j' = d) ∧
      (∀ j x, map.getD j none = some x → isSeqKind (if j ∈ m.net.io then "__fork__" else (m.net.node j).kind) = true →
        ∃ j', j' < h'.net.nodes.size ∧ R.node j' = x) ∧
      (∀ l, l < h.net.lines.size → (h.net.line l).reader ≠ c → ∃ l', l' < h'.net.lines.size ∧ R.line l' = l) ∧
      (∀ l', l' < h'.net.lines.size → R.line l' < h.net.lines.size → (h.net.line (R.line l')).driver ≠ c →
        R.node (h'.net.line l').driver = (h.net.line (R.line l')).driver ∧
        ((h'.net.line l').dpin = (h.net.line (R.line l')).dpin ∨ (h.net.node (h.net.line (R.line l')).driver).isFork = true)) ∧
      -- (1) result ⇒ host with the cell meaning its implementation
      (∀ (S : Nat → Prop), (∀ s, S s → s < h.net.nodes.size ∧ s ≠ c) → ∀ (pre an' v' : Nat → α),
        ConsOff h' (fun j' => S (R.node j')) z neg prim an' v' →
        ∃ an v anm vm, ConsOff h (fun d => S d ∨ d = c) z neg prim an v ∧ ImplMatches h c m sh z neg prim anm vm v ∧
          (∀ l', l' < h'.net.lines.size → v' l' = glueV h m map v vm (R.line l')) ∧
          (∀ j', j' < h'.net.nodes.size → R.node j' < h.net.nodes.size → R.node j' ≠ c → an' j' = an (R.node j')) ∧
          (∀ j x j', j ∉ m.net.io → map.getD j none = some x → j' < h'.net.nodes.size → R.node j' = x → an' j' = anm j) ∧
          (∀ l, l < h.net.lines.size → (¬ ∃ l', l' < h'.net.lines.size ∧ R.line l' = l) → S (h.net.line l).driver → v l = pre l)) ∧
      -- (2) host with the cell meaning its implementation ⇒ result
      (∀ (S : Nat → Prop) (an v anm vm : Nat → α), ConsOff h (fun d => S d ∨ d = c) z neg prim an v →
        ImplMatches h c m sh z neg prim anm vm v →
        ∃ an' v', ConsOff h' (fun j' => S (R.node j')) z neg prim an' v' ∧
          (∀ l', l' < h'.net.lines.size → v' l' = glueV h m map v vm (R.line l')) ∧
          (∀ j', j' < h'.net.nodes.size → R.node j' < h.net.nodes.size → R.node j' ≠ c → an' j' = an (R.node j')) ∧
          (∀ j x j', j ∉ m.net.io → map.getD j none = some x → j' < h'.net.nodes.size → R.node j' = x → an' j' = anm j))

/-- **`substitute` preserves the function — general case**: every host that is well-formed up to trailing `None`s (as left by an earlier
    substitution), every well-formed implementation satisfying `implGenOKB` (ports distinct, no port a flip-flop/latch,
    driven ports that are read inside are forks — WITH or WITHOUT designated cell), cell neither port nor fork, connected
    input pins may be IGNORED by the implementation (`noSelfIgnB`: such a pin is not driven by the cell itself), input and
    output pins may be unconnected, dangling logic is removed: `SubstGenStmt` holds.  Contains the uses of `substitute_sem` /
    `substitute_sem_removing` and the two cases those leave to the oracle: (a) an ignored connected input pin (`Line.remove()`
    renumbers the lines in the middle of the connecting loop), (b) no designated cell (`node.remove()` renumbers the nodes). -/
theorem substitute_sem_general {α : Type _} (h m h' : NNet) (c : Nat) (hw : h.wfNoTrail = true) (mw : m.wf = true)
    (hc : c < h.net.nodes.size) (hio : h.net.io.contains c = false) (hcf : (h.net.node c).isFork = false)
    (hok : implGenOKB m = true) (hns : noSelfIgnB h c m = true) (he : substitute h c m = some h')
    (z : α) (neg : α → α) (prim : String → α → α → α → α → α) : SubstGenStmt h m h' c z neg prim := by
  obtain ⟨sh, map, R, hs, g⟩ := substitute_general z neg prim h m h' c (WFm.of_wfNoTrail hw) (WF.of_wf mw) hc (by simpa using hio) hcf
    hok hns he
  exact ⟨sh, map, R, hs, wfNoTrail_of_WFm g.wf', g.mapM, g.mapInj, g.nodeInj, g.lineInj, g.lineLt, g.io, g.hostNode, g.copyNode,
    g.hostSurj, g.seqSurj, g.lineSurj, g.hostDrv, g.fw, g.bw⟩

/-! ### non-vacuity of `substitute_sem_general` -/
/-- (a) a cell that ignores an input pin: `TBUF`-style `input(A,EN) output(Z) Z=BUF1(A)` as `TechLib` builds it (port `EN`, node 1,
    has no reader) -/
def exTbuf : NNet :=
  { net := { nodes := #[⟨"__fork__", [], [some 0]⟩, ⟨"__fork__", [], []⟩, ⟨"__fork__", [some 1], []⟩, ⟨"BUF1", [some 0], [some 1]⟩],
             lines := #[⟨0, 0, 3, 0⟩, ⟨3, 0, 2, 0⟩], io := [0, 1, 2] },
    names := #["A", "EN", "Z", "Z"] }
/-- host: `u = TBUF(a, en)`, `z = u`; the fork `en` also feeds an inverter `n` -/
def exTbufHost : NNet :=
  { net := { nodes := #[⟨"input", [], [some 0]⟩, ⟨"input", [], [some 4]⟩, ⟨"TBUF", [some 0, some 1], [some 2]⟩, ⟨"output", [some 2], []⟩,
                        ⟨"__fork__", [some 4], [some 1, some 3]⟩, ⟨"INV1", [some 3], [some 5]⟩, ⟨"output", [some 5], []⟩],
             lines := #[⟨0, 0, 2, 0⟩, ⟨4, 0, 2, 1⟩, ⟨2, 0, 3, 0⟩, ⟨4, 1, 5, 0⟩, ⟨1, 0, 4, 0⟩, ⟨5, 0, 6, 0⟩], io := [0, 1, 3, 6] },
    names := #["a", "en", "u", "z", "en", "n", "y"] }
/-- hypotheses of `substitute_sem_general` on the `TBUF` example: the enable pin is connected and ignored (`hasIgnoredB`; so
    `noIgnoredB` fails and `substitute_sem` / `substitute_sem_removing` do not apply); `Line.remove()` deletes line 1, the last
    line (5) takes its index, the fork `en` is squeezed (line 3 moves from output pin 1 to pin 0) -/
example : exTbufHost.wfNoTrail = true ∧ exTbuf.wf = true ∧ exTbufHost.net.io.contains 2 = false ∧
    (exTbufHost.net.node 2).isFork = false ∧ implGenOKB exTbuf = true ∧ noSelfIgnB exTbufHost 2 exTbuf = true ∧
    hasIgnoredB exTbufHost 2 exTbuf = true ∧ noIgnoredB exTbufHost 2 exTbuf = false ∧
    (substitute exTbufHost 2 exTbuf).map (fun r => (r.wf, r.net.lines.toList, (r.net.node 2).kind, (r.net.node 4).outs)) =
      some (true, [⟨0, 0, 2, 0⟩, ⟨5, 0, 6, 0⟩, ⟨2, 0, 3, 0⟩, ⟨4, 0, 5, 0⟩, ⟨1, 0, 4, 0⟩], "BUF1", [some 3]) := by decide +kernel

/-- (b) a cell without output (antenna / filler): `input(A)`; no designated cell, the instance is removed (`node.remove()`: the last
    node takes its index) together with the line at its ignored pin -/
def exAnt : NNet := { net := { nodes := #[⟨"__fork__", [], []⟩], lines := #[], io := [0] }, names := #["A"] }
def exAntHost : NNet :=
  { net := { nodes := #[⟨"input", [], [some 0]⟩, ⟨"__fork__", [some 0], [some 1, some 2]⟩, ⟨"ANTENNA", [some 1], []⟩, ⟨"output", [some 2], []⟩],
             lines := #[⟨0, 0, 1, 0⟩, ⟨1, 0, 2, 0⟩, ⟨1, 1, 3, 0⟩], io := [0, 3] },
    names := #["a", "a", "u", "z"] }
example : exAntHost.wfNoTrail = true ∧ exAnt.wf = true ∧ exAntHost.net.io.contains 2 = false ∧ (exAntHost.net.node 2).isFork = false ∧
    implGenOKB exAnt = true ∧ noSelfIgnB exAntHost 2 exAnt = true ∧ (implShape exAnt).map (·.des) = some none ∧ implOKB exAnt = false ∧
    (substitute exAntHost 2 exAnt).map (fun r => (r.wf, r.kindNames, r.net.lines.toList, r.net.io)) =
      some (true, [("input", "a"), ("__fork__", "a"), ("output", "z")], [⟨0, 0, 1, 0⟩, ⟨1, 0, 2, 0⟩], [0, 2]) := by decide +kernel

/-- (b) the feed-through `input A -> fork a -> output X` (since the repair of D32 without designated cell): hypotheses of
    `substitute_sem_general` hold for `exFeedHost`, cell 1 -/
example : exFeedHost.wfNoTrail = true ∧ exFeed.wf = true ∧ exFeedHost.net.io.contains 1 = false ∧ (exFeedHost.net.node 1).isFork = false ∧
    implGenOKB exFeed = true ∧ noSelfIgnB exFeedHost 1 exFeed = true ∧ (implShape exFeed).map (·.des) = some none ∧
    (substitute exFeedHost 1 exFeed).map (fun r => (r.wf, r.kindNames)) =
      some (true, [("input", "i"), ("output", "o"), ("__fork__", "u~a")]) := by decide +kernel

/-- a host that is well-formed only up to trailing `None`s (the result of `exHostFF` with `exImplFZ`: the `DFF` has `outs = [line, None]`)
    satisfies the host hypothesis of `substitute_sem_general` — `substitute_sem` needs `wf` -/
example : ((substitute exHostFF 2 exImplFZ).map fun r => (r.wf, r.wfNoTrail)) = some (false, true) := by decide +kernel

/-! ## `resolve_tlib_cells` through substitutions that remove lines, instances and dangling logic -/

/-- **`resolve_tlib_cells` preserves the function — general case** (model `resolveCells`; every substitution along the loop satisfies the
    hypotheses of `substitute_sem_general`: `resolveGenOKB`, decidable, evaluated by running the model — implementations with
    or without designated cell, ignored input pins, unconnected outputs with dangling logic; the circuit between two
    substitutions is well-formed only up to trailing `None`s).  With `cell x` = "`x` is a node of the original circuit `h` whose
    kind is in the library" and index maps `ρ` from the result `h'` to `h` (`ρ.node j < h.nodes.size`: node `j` of `h'` IS the
    original node `ρ.node j`; `ρ.line l < h.lines.size`: line `l` of `h'` IS the original line `ρ.line l`; injective there):
    the result is well-formed up to trailing `None`s and keeps the ports in order; every original node that is no library cell
    survives with kind, name and (pin by pin, renamed) its input lines;
    **(1)** every consistent labelling `(an', v')` of the result is the restriction (along `ρ`) of a labelling `(an, v)` of the WHOLE
    original circuit — the removed lines included — that is consistent outside the library cells and gives every library
    cell `c` the relational meaning of its implementation (`ImplMatches`, with the ORIGINAL pins of `c`, also those whose
    lines a substitution removed); **(2)** conversely every such labelling of the original circuit restricts/extends to a
    consistent labelling of the result. -/
theorem resolve_sem_general {α : Type _} (lib : Lib) (h h' : NNet) (hw : h.wfNoTrail = true) (hok : resolveGenOKB lib h.keys h = true)
    (he : resolveCells lib h = some h') (z : α) (neg : α → α) (prim : String → α → α → α → α → α) :
    h'.wfNoTrail = true ∧ ∃ ρ : Ren,
      h'.net.io.map ρ.node = h.net.io ∧
      (∀ j1 j2, j1 < h'.net.nodes.size → j2 < h'.net.nodes.size → ρ.node j1 < h.net.nodes.size → ρ.node j1 = ρ.node j2 → j1 = j2) ∧
      (∀ l1 l2, l1 < h'.net.lines.size → l2 < h'.net.lines.size → ρ.line l1 < h.net.lines.size → ρ.line l1 = ρ.line l2 → l1 = l2) ∧
      (∀ d, d < h.net.nodes.size → (lib.find (h.net.node d).kind).isSome = false →
        ∃ j, j < h'.net.nodes.size ∧ ρ.node j = d ∧ (h'.net.node j).kind = (h.net.node d).kind ∧
          h'.names.getD j "" = h.names.getD d "" ∧ ∀ k, ((h'.net.node j).inPin k).map ρ.line = (h.net.node d).inPin k) ∧
      (∀ an' v' : Nat → α, ConsOff h' (fun _ => False) z neg prim an' v' →
        ∃ an v, ConsOff h (fun x => x < h.net.nodes.size ∧ (lib.find (h.net.node x).kind).isSome = true) z neg prim an v ∧
          (∀ c, c < h.net.nodes.size → (lib.find (h.net.node c).kind).isSome = true →
            ∃ impl sh anm vm, lib.find (h.net.node c).kind = some impl ∧ implShape impl = some sh ∧
              ImplMatches h c impl sh z neg prim anm vm v) ∧
          (∀ l', l' < h'.net.lines.size → ρ.line l' < h.net.lines.size → v (ρ.line l') = v' l') ∧
          (∀ j, j < h'.net.nodes.size → ρ.node j < h.net.nodes.size → an (ρ.node j) = an' j)) ∧
      (∀ an v : Nat → α,
        ConsOff h (fun x => x < h.net.nodes.size ∧ (lib.find (h.net.node x).kind).isSome = true) z neg prim an v →
        (∀ c, c < h.net.nodes.size → (lib.find (h.net.node c).kind).isSome = true →
          ∃ impl sh anm vm, lib.find (h.net.node c).kind = some impl ∧ implShape impl = some sh ∧
            ImplMatches h c impl sh z neg prim anm vm v) →
        ∃ an' v', ConsOff h' (fun _ => False) z neg prim an' v' ∧
          (∀ l', l' < h'.net.lines.size → ρ.line l' < h.net.lines.size → v' l' = v (ρ.line l')) ∧
          (∀ j, j < h'.net.nodes.size → ρ.node j < h.net.nodes.size → an' j = an (ρ.node j))) := by
  obtain ⟨ρ, r⟩ := resolve_general_main lib h h' (WFm.of_wfNoTrail hw) z neg prim hok he
  refine ⟨wfNoTrail_of_WFm r.wf, ρ, r.io, r.nodeInj, r.lineInj, ?_, ?_, ?_⟩
  · intro d hd hn
    obtain ⟨j, hj, ej⟩ := r.pos d hd (fun hc => by rw [hn] at hc; exact absurd hc.2 (by simp))
    obtain ⟨n1, n2, n3⟩ := r.node j hj (ej ▸ hd)
    rw [ej] at n1 n2 n3
    exact ⟨j, hj, ej, n1, n2, n3⟩
  · intro an' v' hc
    obtain ⟨an, v, g1, g2, g3, g4, _⟩ := r.fw (fun _ => False) (fun _ hs => absurd hs id) (fun _ => z) an' v' hc
    exact ⟨an, v, consOff_congr (fun x => by simp) g1, fun c hc1 hc2 => g2 c ⟨hc1, hc2⟩, g3, g4⟩
  · intro an v hc hcells
    obtain ⟨an', v', c1, e1, e2⟩ := r.bw (fun _ => False) (fun _ hs => absurd hs id) an v
      (consOff_congr (fun x => by simp) hc) (fun c hc' => hcells c hc'.1 hc'.2)
    exact ⟨an', v', c1, e1, e2⟩

/-- hypotheses of `resolve_sem_general` are satisfiable where `resolve_sem` does not apply (`resolveOKB` false): a library with the
    `TBUF`-style cell (ignored enable pin), the antenna cell (no output: the instance is removed) and `exImpl`; the enable fork
    feeds the `TBUF`, the antenna and an inverter.  The result is consistent under the evaluator's labelling (direction (1) is
    not vacuous) -/
def exResHost : NNet :=
  { net := { nodes := #[⟨"input", [], [some 0]⟩, ⟨"input", [], [some 1]⟩, ⟨"__fork__", [some 1], [some 2, some 3, some 4]⟩,
                        ⟨"TBUF", [some 0, some 2], [some 5]⟩, ⟨"ANTENNA", [some 3], []⟩, ⟨"INV1", [some 4], [some 6]⟩,
                        ⟨"AOCELL", [some 5, some 6], [some 7, some 8]⟩, ⟨"output", [some 7], []⟩, ⟨"output", [some 8], []⟩],
             lines := #[⟨0, 0, 3, 0⟩, ⟨1, 0, 2, 0⟩, ⟨2, 0, 3, 1⟩, ⟨2, 1, 4, 0⟩, ⟨2, 2, 5, 0⟩, ⟨3, 0, 6, 0⟩, ⟨5, 0, 6, 1⟩, ⟨6, 0, 7, 0⟩,
                        ⟨6, 1, 8, 0⟩],
             io := [0, 1, 7, 8] },
    names := #["a", "en", "en", "u", "ant", "n", "g", "x", "y"] }
example : exResHost.wfNoTrail = true ∧
    resolveGenOKB [("TBUF", exTbuf), ("ANTENNA", exAnt), ("AOCELL", exImpl)] exResHost.keys exResHost = true ∧
    resolveOKB [("TBUF", exTbuf), ("ANTENNA", exAnt), ("AOCELL", exImpl)] exResHost.keys exResHost = false ∧
    (resolveCells [("TBUF", exTbuf), ("ANTENNA", exAnt), ("AOCELL", exImpl)] exResHost).map (fun r => (r.wf, r.net.nodes.size,
      r.net.lines.size,
      consistentB r.net false (!·) prim2 (fun j => j == 0) (evalAll r.net false (!·) prim2 (fun j => j == 0)))) =
      some (true, 12, 12, true) ∧
    (resolveCells [("TBUF", exTbuf), ("ANTENNA", exAnt), ("AOCELL", exImpl)] exResHost).map (fun r => r.kindNames.take 8) =
      some [("input", "a"), ("input", "en"), ("__fork__", "en"), ("BUF1", "u"), ("output", "y"), ("INV1", "n"),
        ("INV1", "g"), ("output", "x")] := by decide +kernel

end KV.C10

/-! ## composition with C19: `resolve_datasheet_sem` (Props/C10Datasheet.lean)

`resolve_sem` above gives every library cell the RELATIONAL meaning of its implementation (`ImplMatches`).  For combinational
cells of the families C19 covers, instantiated with all input pins connected, Props/C10Datasheet.lean turns this into the
FUNCTIONAL statement: the consistent 2-valued labellings of `resolveCells lib h` are exactly the labellings of `h` in which every
connected output pin `k` of every library-cell instance carries `DS.datasheet family pins [k]` of the values on the instance's
input pins (`KV.C10.resolve_datasheet_sem`; glue `KV.Transform.implMatches_iff_datasheet`, Proofs/ImplDatasheet.lean,
Proofs/ImplDatasheet2.lean: for an acyclic implementation `ImplMatches` ⇔ "outputs = the function of its `SimOps` program", from
`C01.all_circuits_solution`, and C19's table theorems identify that function with the datasheet).  It lives in its own module
because it depends on the generated library tables (`Gen.techChunks`); harness/c10.py builds and audits both modules. -/
