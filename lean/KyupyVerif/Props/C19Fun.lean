import KyupyVerif.Proofs.TechFun
import KyupyVerif.Proofs.TechAdd
/-! # C19 (continued) — the datasheet function of EVERY listed family, adders included

See Props/C19.lean for what is generated, specified and proved.  `Tech.adders` is the kernel evaluation of the
function checker on the half and full adders (`HA`, `ADDH`, `HADD`, `FA`, `ADDF`, `FADD`): sum (parity) on the pin
called `S`/`SO`, carry (majority) on the pin called `CO`/`C1`. -/
namespace KV.C19
open KV KV.TL KV.DS KV.Sig

/-- half and full adders: sum and carry on the pins so named -/
theorem family_function_adders {c : Cell} (hc : c ∈ Tech.cells) {name : Str} (hn : name ∈ c.names)
    {fam : Fam} (hf : classify (baseName name) = some fam) (ha : fam.isAdder = true) :
    c.nSeq = 0 ∧ ∃ fs, datasheet fam c.inNames c.outNames = some fs ∧ fs.length = c.outLines.length ∧
      ∀ k (hk : k < c.outLines.length) (hf : k < fs.length) (vals : List Bool), vals.length = c.inNames.length →
        exec lutSem c.prog (c.env vals) (c.outLines[k]).2 = fs[k] vals :=
  funOK_sound (all_chunks Tech.adders hc) hn hf ha

/-- **family_function**: for every library, every cell name whose family the property lists (AND/OR/NAND/NOR/XOR/XNOR
    of its arity, buffers and inverters, AO/OA/AOI/OAI groupings, multiplexers, half/full adders) and ALL input rows:
    the cell is purely combinational, its pins fit the family, and the real `SimOps` program of its implementation,
    executed with the LUT semantics, yields the datasheet function on the line captured for every output pin. -/
theorem family_function {c : Cell} (hc : c ∈ Tech.cells) {name : Str} (hn : name ∈ c.names)
    {fam : Fam} (hf : classify (baseName name) = some fam) :
    c.nSeq = 0 ∧ ∃ fs, datasheet fam c.inNames c.outNames = some fs ∧ fs.length = c.outLines.length ∧
      ∀ k (hk : k < c.outLines.length) (hf : k < fs.length) (vals : List Bool), vals.length = c.inNames.length →
        exec lutSem c.prog (c.env vals) (c.outLines[k]).2 = fs[k] vals := by
  cases ha : fam.isAdder with
  | true => exact family_function_adders hc hn hf ha
  | false => exact funOK_sound (all_chunks Tech.gates_all hc) hn hf (by simp [ha])

/-- a full adder is among the cells the theorem speaks about (SAED90 `FADDX1`: pins A, B, CI → S, CO) -/
example : ∃ c ∈ Tech.cells, c!"FADDX1" ∈ c.names ∧ classify (baseName c!"FADDX1") = some .fullAdder ∧
    c.inNames = [c!"A", c!"B", c!"CI"] ∧ c.outNames = [c!"S", c!"CO"] := by decide +kernel

end KV.C19
