import KyupyVerif.Proofs.SemL
import KyupyVerif.Proofs.SpecHom
import KyupyVerif.Proofs.SpecHazard
import KyupyVerif.Proofs.WaveHazard
import KyupyVerif.Proofs.Capture
import KyupyVerif.Proofs.WaveMemCirc
import KyupyVerif.Proofs.WaveMemDemo
import KyupyVerif.Proofs.GenOpsKnown
/-! # C05 — 8-valued logic simulation conservatively predicts timing simulation

`semL8` = what the real 8-valued `LogicSim.c_prop` chain computes for an op row (generated),
`waveSem` = the transcription of `_wave_eval` (tied by correspondence, see C03).
Relation `Abs v w`: the 8-valued value `v` abstracts the waveform `w`.

**Memory level** (last section, see the header of Props/C03.lean for the memory model): `sim8_predicts_mem` — for any map
the certificate accepts, after ANY propagation on the real memory layout the 8-valued value `LogicSim` computes for the
captured signal abstracts the waveform found in the region of the output slot, and a hazard-free constant means the captured
`s[4]`, `s[5]` are the "no transition" sentinels; `sim8_predicts_all_circuits` — for the tables of the `SimOps` model of
every circuit (real prefix table: all op codes are known, `genOps_known`; certificate = `C08.simops_map_accepted`), with the
8-valued value taken from ANY solution of the netlist's 8-valued gate equations at the captured line. -/
namespace KV.C05
open KV KV.Sig KV.Wave

/-- `v` abstracts `w`: initial/final components agree and "no activity" means no finite transition -/
def Abs (v : V3) (w : Wv) : Prop :=
  v.isWave = true ∧ w.ok ∧ w.init = v.p1 ∧ w.final = v.p0 ∧ (v.p2 = false → Inactive w.ents)

theorem abs_default : Abs (default : V3) Wv.empty :=
  ⟨rfl, Wv.empty_ok, rfl, rfl, fun _ => Or.inl rfl⟩

theorem isConst_of_wave_inactive {v : V3} (hw : v.isWave = true) (h2 : v.p2 = false) : v.isConst = true := by
  rcases v with ⟨a, b, c⟩
  simp only at h2; subst h2
  cases a <;> cases b <;> simp_all [V3.isWave, V3.unk, V3.isConst, V3.isZero, V3.isOne]

theorem agrees_of_abs {v : V3} {w : Wv} (h : Abs v w) {b : Bool}
    (hb : Inactive w.ents → b = (w.ents.length % 2 == 1)) : agreesInactive v b = true := by
  unfold agreesInactive
  cases hp : v.p2 with
  | true => simp
  | false =>
    have hbb := hb (h.2.2.2.2 hp)
    have hf := h.2.2.2.1
    unfold Wv.final at hf
    simp [hbb, hf]

/-- gate level: the 8-valued result of the real dispatch abstracts the waveform the evaluator produces,
    for every known op, all delays ≥ 0, every capacity ≥ 4 -/
theorem gate_abstracts (cfg : WCfg) (op : Op) (hk : KnownCode op.code) (hd : ∀ l p q, 0 ≤ cfg.delay l p q)
    (hc : 4 ≤ cfg.cap op.out) (xs : List V3) (ws : List Wv) (hxy : All2 Abs xs ws) :
    Abs (semL8 op.code xs) (waveSem cfg op ws) := by
  obtain ⟨name, hm⟩ := hk
  have hn := name_in_primNames hm
  obtain ⟨f, g, hf, hg, hhom⟩ := comp8_hom hn
  obtain ⟨f', g', hf', hg', hhaz⟩ := comp8_hazard hn
  have ef : f = f' := by rw [hf] at hf'; exact Option.some.inj hf'
  have eg : g = g' := by rw [hg] at hg'; exact Option.some.inj hg'
  subst ef; subst eg
  have hform := specL2_formula hm
  have e : ∀ a b c d, g a b c d = lutBit4 op.code a b c d := by
    intro a b c d
    have := hform a b c d; unfold formula at this; rw [hg] at this; simpa using this
  have h0 : Abs (arg xs 0 default) (slot ws 0) := hxy.getD 0 _ _ abs_default
  have h1 : Abs (arg xs 1 default) (slot ws 1) := hxy.getD 1 _ _ abs_default
  have h2' : Abs (arg xs 2 default) (slot ws 2) := hxy.getD 2 _ _ abs_default
  have h3 : Abs (arg xs 3 default) (slot ws 3) := hxy.getD 3 _ _ abs_default
  have hx : ∀ w ∈ ws, w.ok := hxy.forall_right (fun _ _ h => h.2.1)
  have hsem : semL8 op.code xs = f (arg xs 0 default) (arg xs 1 default) (arg xs 2 default) (arg xs 3 default) := by
    rw [semL8_eq_spec ⟨name, hm⟩]; unfold specL8; rw [nameOf_of_mem hm]; simp only [Option.bind_some, hf]
  have hres := hhom _ _ _ _ h0.1 h1.1 h2'.1 h3.1
  obtain ⟨hi, hfin⟩ := waveSem_init_final cfg op ws hd hc hx
  have hok := waveSem_ok cfg op ws hd hc hx
  rw [hsem]
  refine ⟨hres.1, hok, ?_, ?_, ?_⟩
  · rw [hi, ← hres.2.2, e, h0.2.2.1, h1.2.2.1, h2'.2.2.1, h3.2.2.1]
  · rw [hfin, ← hres.2.1, e, h0.2.2.2.1, h1.2.2.2.1, h2'.2.2.2.1, h3.2.2.2.1]
  · intro h2
    have hconst := isConst_of_wave_inactive hres.1 h2
    have hs := slot_ok hx
    let E := envOf cfg op ws hd hc hs
    have hwf : ∀ i, WfRem ((fun i => (slot ws i).ents) i) := fun i => (hs i).1
    have hH : HazardFree E.lut (fun i => (slot ws i).ents)
        (f (arg xs 0 default) (arg xs 1 default) (arg xs 2 default) (arg xs 3 default)).p0 := by
      intro b hb
      rw [lutBit_eq]
      show lutBit4 op.code (b 0) (b 1) (b 2) (b 3) = _
      rw [← e]
      exact hhaz _ _ _ _ h0.1 h1.1 h2'.1 h3.1 hconst (b 0) (b 1) (b 2) (b 3)
        (agrees_of_abs h0 (fun hi => hb 0 hi)) (agrees_of_abs h1 (fun hi => hb 1 hi))
        (agrees_of_abs h2' (fun hi => hb 2 hi)) (agrees_of_abs h3 (fun hi => hb 3 hi))
    have hz := gate_hazard_free E _ hwf _ hH
    have hents : (waveSem cfg op ws).ents = (run E.lut E.D E.terms E.zcap (totalLen fun i => (slot ws i).ents)
        (init E.lut fun i => (slot ws i).ents)).z.reverse := rfl
    rw [hents]
    rcases hz with hz | hz <;> rw [hz]
    · exact Or.inl rfl
    · exact Or.inr rfl

/-- **every program over known op codes, every delay annotation ≥ 0, capacities ≥ 4**: if the stimulus
    values abstract the stimulus waveforms, then on every signal the 8-valued simulation abstracts the
    waveform of the timing simulation: same initial and final value, and no activity bit ⇒ no transition. -/
theorem sim8_predicts (cfg : WCfg) (ops : List Op) (hk : KnownProg ops) (hg : cfg.Good ops)
    (e8 : Nat → V3) (ew : Nat → Wv) (h : ∀ l, Abs (e8 l) (ew l)) (l : Nat) :
    Abs (exec semL8 ops e8 l) (simWave cfg ops ew l) :=
  execG_rel_on Abs (fun op => semL8 op.code) (waveSem cfg) ops
    (fun op hop xs ws hxy => gate_abstracts cfg op (hk op hop) hg.delay_nonneg (hg.cap_ge op hop) xs ws hxy) e8 ew h l

/-- stimuli over {0, 1, R, F} with any transition time abstract the waveforms `s_to_c` builds for them -/
theorem stim_abs (i f : Bool) (t : Int) : Abs ⟨f, i, i != f⟩ (stimWave i t f) := by
  cases i <;> cases f <;>
    simp [Abs, stimWave, V3.isWave, V3.unk, Wv.ok, WfRem, Wv.init, Wv.final, Inactive, T.isFin, T.isTerm]

/-- at a captured port: where 8-valued simulation reports a hazard-free constant, the timing simulator's
    earliest-arrival / latest-stabilisation entries are the "no transition" sentinels -/
theorem const_means_quiet {v : V3} {w : Wv} (h : Abs v w) (hc : v.p2 = false) (time : T) :
    (captureWv w time).eat = T.tmax ∧ (captureWv w time).lst = T.tmin ∧
    (captureWv w time).init = v.p1 ∧ (captureWv w time).final = v.p0 := by
  rw [capture_spec]
  refine ⟨?_, ?_, h.2.2.1, h.2.2.2.1⟩
  · rcases h.2.2.2.2 hc with he | he <;> simp [specEat, he]
  · rcases h.2.2.2.2 hc with he | he <;> simp [specLst, he]

/-- non-vacuity: AND2 of a constant 1 and a rising input is a rise; of a constant 0 and a rise is a quiet 0 -/
example : semL8 34952 [⟨true, true, false⟩, ⟨true, false, true⟩, default, default] = ⟨true, false, true⟩ := by decide +kernel
example : semL8 34952 [⟨false, false, false⟩, ⟨true, false, true⟩, default, default] = ⟨false, false, false⟩ := by decide +kernel

/-! ## memory level -/
open KV.MapSound

/-- **8-valued prediction on memory.** Accepted map, `c_caps_min ≥ 4`, delays ≥ 0, rows over known op codes; `e8` abstracts
    the stimulus stored in the initial memory. After ANY propagation (any implementation honouring `WaveStep`, any
    level-respecting order) the value `v` that 8-valued logic simulation of the rows (operands resolved through the stems,
    as `LogicSim` runs them) computes for the captured signal abstracts the waveform `w` in the region of output slot `j`:
    same initial and final value, no activity bit ⇒ no transition; and where `v` is a hazard-free constant the captured
    earliest arrival / latest stabilisation are the sentinels and `s[3]`, `s[6]` are its components. -/
theorem sim8_predicts_mem (p : MapIn) (hc : p.check = none) (h4 : 4 ≤ p.capsMin) (delay : Nat → Bool → Bool → Int)
    (hd : ∀ l a b, 0 ≤ delay l a b) (hk : ∀ o ∈ p.ops, KnownCode o.lut) (m0 m' : Int → T) (env0 : Nat → Wv)
    (e8 : Nat → V3) (hst : Stimulus p m0 env0) (hpr : Propagated p delay m0 m') (habs : ∀ l, Abs (e8 l) (env0 l))
    (j s : Nat) (hjs : (j, s) ∈ p.ppoSrcs) (time : T) :
    let v := exec semL8 (p.ops.map (sigOp p)) e8 s
    let w := rdWave (p.loc j) (p.cap j) m'
    Abs v w ∧
    (v.p2 = false → (captureWv w time).eat = T.tmax ∧ (captureWv w time).lst = T.tmin ∧
      (captureWv w time).init = v.p1 ∧ (captureWv w time).final = v.p0) := by
  intro v w
  have hkp : KnownProg (waveProg p) := by
    intro op hop
    obtain ⟨o, ho, rfl⟩ := List.mem_map.1 hop
    exact hk o ho
  have key : Abs v w := by
    show Abs (exec semL8 _ e8 s) (rdWave _ _ m')
    rw [propagated_eq_sim p hc delay m0 m' env0 hst hpr j s hjs, ← exec_waveProg semL8 first4_semL8]
    exact sim8_predicts (wcfg p delay) (waveProg p) hkp (wcfg_good p hc h4 delay hd) e8 env0 habs s
  exact ⟨key, fun h2 => const_means_quiet key h2 time⟩

/-- **all circuits.** The map record of the `SimOps` model with the real prefix table for ANY well-formed netlist,
    topological order, `strip_forks` / `c_reuse` setting, capacity vector, `c_caps_min ≥ 4`; `v8` ANY solution of the netlist's
    8-valued gate equations (rows of the un-stripped program, the real 8-valued dispatch `semL8`) for a stimulus `e8` that
    abstracts the input waveforms in memory. For every interface node `n` at position `i` whose data pin reads line `l`:
    `v8 l` abstracts the waveform in the region of output slot `i` after any propagation. -/
theorem sim8_predicts_all_circuits (net : Net) (order : List Nat) (strip : Bool)
    (capsIn : Nat → Nat) (capsMin : Nat) (reuse : Bool) (p : MapIn)
    (hp : p = simopsMap Gen.kindPrefixes net order strip capsIn capsMin reuse)
    (hwf : net.wfB = true) (ho : orderOKB net order = true) (hf : strip = true → forksOKB net order = true)
    (hr : readsDrivenB Gen.kindPrefixes net order = true) (h4 : 4 ≤ capsMin)
    (delay : Nat → Bool → Bool → Int) (hd : ∀ l a b, 0 ≤ delay l a b) (m0 m' : Int → T) (env0 : Nat → Wv)
    (e8 v8 : Nat → V3) (hst : Stimulus p m0 env0) (hpr : Propagated p delay m0 m') (habs : ∀ l, Abs (e8 l) (env0 l))
    (hv8 : SolvesJ (Jt net) (fun op => semL8 op.code) ((genOps Gen.kindPrefixes net order false).map OpRow.toOp) e8 v8)
    (n i l : Nat) (hn : (n, i) ∈ net.sNodes.zipIdx) (hl : (net.node n).inPin 0 = some l) (time : T) :
    let w := rdWave (p.loc (net.idx.ppo + i)) (p.cap (net.idx.ppo + i)) m'
    Abs (v8 l) w ∧
    ((v8 l).p2 = false → (captureWv w time).eat = T.tmax ∧ (captureWv w time).lst = T.tmin ∧
      (captureWv w time).init = (v8 l).p1 ∧ (captureWv w time).final = (v8 l).p0) := by
  intro w
  have hc : p.check = none := by
    rw [hp]; exact simopsMap_accepted Gen.kindPrefixes net order strip capsIn capsMin reuse hwf ho hf hr (by omega)
  have hnet : p.net = net := by rw [hp]; rfl
  have hjs : (net.idx.ppo + i, p.src l) ∈ p.ppoSrcs := by
    have := mem_ppoSrcs p (n := n) (i := i) (l := l) (by rw [hnet]; exact hn) (by rw [hnet]; exact hl)
    have hix : p.ix = net.idx := by show p.net.idx = _; rw [hnet]
    rw [hix] at this; exact this
  have hk : ∀ o ∈ p.ops, KnownCode o.lut := by rw [hp]; exact genOps_known net order strip
  have key := sim8_predicts_mem p hc (by rw [hp]; exact h4) delay hd hk m0 m' env0 e8 hst hpr habs _ _ hjs time
  have hval : exec semL8 (p.ops.map (sigOp p)) e8 (p.src l) = v8 l := by
    rw [hp]
    exact captured_logic Gen.kindPrefixes net order strip capsIn capsMin reuse hwf ho hf hr semL8 default semL8_buf1 e8 v8
      hv8 n i l hn hl
  simp only [hval] at key
  exact key

/-- non-vacuity on `Wave.memDemo` (strip + reuse; `a` rises at 5, `b` constant 1): the 8-valued stimulus `a = R`, `b = 1`
    abstracts the stored input waveforms, the 8-valued result for the captured line is a fall, and it abstracts what the real
    layout holds in the output slot's region after the propagation -/
example (junk : Int → Nat → Wv → (Int → T) → Int → T) :
    Abs ⟨false, true, true⟩ (rdWave 20 4 (memRun memDemo (waveRW junk) (waveRow (wcfg memDemo memDemoDelay) memDemo)
      (schedOps memDemo [1, 0, 2, 3]) memDemoM0)) := by
  let e8 : Nat → V3 := fun l => if l = 9 then ⟨true, false, true⟩ else if l = 10 then ⟨true, true, false⟩ else default
  have habs : ∀ l, Abs (e8 l) (inputEnv memDemo memDemoM0 l) := by
    intro l
    by_cases e9 : l = 9
    · subst e9; rw [memDemo_env.1]; exact stim_abs false true 5
    · by_cases e10 : l = 10
      · subst e10; rw [memDemo_env.2.1]
        have := stim_abs true true 0
        exact this
      · have : inputEnv memDemo memDemoM0 l = Wv.empty := by
          by_cases e6 : l = 6
          · subst e6; exact memDemo_env.2.2
          · unfold inputEnv
            rw [memDemo_tables.2.2.1, if_neg]
            simp only [List.mem_cons, List.not_mem_nil, or_false]
            rintro ((h | h) | h)
            · exact e9 h
            · exact e10 h
            · exact e6 h
        rw [this]
        have : e8 l = default := by simp [e8, e9, e10]
        rw [this]; exact abs_default
  have key := (sim8_predicts_mem memDemo memDemo_check (by decide) memDemoDelay memDemoDelay_nonneg
    (genOps_known memDemoNet memDemoOrder true) memDemoM0 _ (inputEnv memDemo memDemoM0) e8 (stimulus_inputEnv _ _)
    (memDemo_propagated junk) habs 14 5 (by decide +kernel) T.tmax).1
  have hloc : memDemo.loc 14 = 20 ∧ memDemo.cap 14 = 4 := by decide +kernel
  have hv : exec semL8 (memDemo.ops.map (sigOp memDemo)) e8 5 = ⟨false, true, true⟩ := by decide +kernel
  rw [hloc.1, hloc.2, hv] at key
  exact key

end KV.C05
