import KyupyVerif.Proofs.SemL
import KyupyVerif.Proofs.SpecHom
import KyupyVerif.Proofs.SpecHazard
import KyupyVerif.Proofs.WaveHazard
import KyupyVerif.Proofs.Capture
import KyupyVerif.Proofs.AllCircWave
import KyupyVerif.Proofs.AllCircDemo
import KyupyVerif.Proofs.WaveMemCirc
import KyupyVerif.Proofs.WaveMemDemo
import KyupyVerif.Proofs.GenOpsKnown
/-! # C05 — 8-valued logic simulation conservatively predicts timing simulation

`semL8` = what the real 8-valued `LogicSim.c_prop` chain computes for an op row (generated),
`waveSem` = the transcription of `_wave_eval` (tied by correspondence, see C03).
Relation `Abs v w`: the 8-valued value `v` abstracts the waveform `w`.

**Theorem, per program:** `gate_abstracts`, `sim8_predicts` (every op program over known op codes, `cfg.Good`).
**Theorem, per NETLIST** (part "ALL circuits"): for every well-formed netlist (`Net.wfB`), every topological order
(`orderOKB`), the op program of the `SimOps` model with the generated prefix table, delays ≥ 0, capacities ≥ 4 on the lines
and the scratch slot: `sim8_predicts_all_circuits` / `sim8_predicts_stimulus_all_circuits` (stimulus over {0, 1, R, F} with
any times) — `Abs` between the LogicSim result and the WaveSim waveform on every signal; `predicts_solutions_all_circuits`
— the same between ANY solution of the 8-valued gate equations in the documented algebra and ANY solution of the waveform
gate equations (no execution order); `sim8_predicts_all_circuits_stripped` — WaveSim with `strip_forks` (eight-index rows),
on every signal that is not a stripped branch, no hypothesis on fork delays. `KnownProg` and `cfg.Good` are discharged
(`genOps_known`, `good_all_circuits`). **Correspondence (not theorem):** that the real `SimOps.__init__` produces the rows of
the model (C01/C08) and that `wave_eval_cpu` is `waveSem` (C03); the domain hypotheses `wfB`, `orderOKB`, `forksOKB` are
evaluated by the driver on every real circuit and order.
**Memory level** (last section, see the header of Props/C03.lean for the memory model): `sim8_predicts_mem` — for any map
the certificate accepts, after ANY propagation on the real memory layout the 8-valued value `LogicSim` computes for the
captured signal abstracts the waveform found in the region of the output slot, and a hazard-free constant means the captured
`s[4]`, `s[5]` are the "no transition" sentinels; `sim8_predicts_mem_all_circuits` — for the tables of the `SimOps` model of
every circuit (real prefix table: all op codes are known, `genOps_known`; certificate = `C08.simops_map_accepted`), with the
8-valued value taken from ANY solution of the netlist's 8-valued gate equations at the captured line. -/
namespace KV.C05
open KV KV.Sig KV.Wave

/-- `v` abstracts `w`: initial/final components agree and "no activity" means no finite transition -/
def Abs (v : V3) (w : Wv) : Prop :=
  v.isWave = true ∧ w.ok ∧ w.init = v.p1 ∧ w.final = v.p0 ∧ (v.p2 = false → Inactive w.ents)

theorem abs_default : Abs (default : V3) Wv.empty :=
  ⟨rfl, Wv.empty_ok, rfl, rfl, fun _ => Or.inl rfl⟩

theorem isConst_of_wave_inactive {v : V3} (hw : v.isWave = true) (h2 : v.p2 = false) : v.isConst = true := by
  rcases v with ⟨a, b, c⟩
  simp only at h2; subst h2
  cases a <;> cases b <;> simp_all [V3.isWave, V3.unk, V3.isConst, V3.isZero, V3.isOne]

theorem agrees_of_abs {v : V3} {w : Wv} (h : Abs v w) {b : Bool}
    (hb : Inactive w.ents → b = (w.ents.length % 2 == 1)) : agreesInactive v b = true := by
  unfold agreesInactive
  cases hp : v.p2 with
  | true => simp
  | false =>
    have hbb := hb (h.2.2.2.2 hp)
    have hf := h.2.2.2.1
    unfold Wv.final at hf
    simp [hbb, hf]

/-- gate level: the 8-valued result of the real dispatch abstracts the waveform the evaluator produces,
    for every known op, all delays ≥ 0, every capacity ≥ 4 -/
theorem gate_abstracts (cfg : WCfg) (op : Op) (hk : KnownCode op.code) (hd : ∀ l p q, 0 ≤ cfg.delay l p q)
    (hc : 4 ≤ cfg.cap op.out) (xs : List V3) (ws : List Wv) (hxy : All2 Abs xs ws) :
    Abs (semL8 op.code xs) (waveSem cfg op ws) := by
  obtain ⟨name, hm⟩ := hk
  have hn := name_in_primNames hm
  obtain ⟨f, g, hf, hg, hhom⟩ := comp8_hom hn
  obtain ⟨f', g', hf', hg', hhaz⟩ := comp8_hazard hn
  have ef : f = f' := by rw [hf] at hf'; exact Option.some.inj hf'
  have eg : g = g' := by rw [hg] at hg'; exact Option.some.inj hg'
  subst ef; subst eg
  have hform := specL2_formula hm
  have e : ∀ a b c d, g a b c d = lutBit4 op.code a b c d := by
    intro a b c d
    have := hform a b c d; unfold formula at this; rw [hg] at this; simpa using this
  have h0 : Abs (arg xs 0 default) (slot ws 0) := hxy.getD 0 _ _ abs_default
  have h1 : Abs (arg xs 1 default) (slot ws 1) := hxy.getD 1 _ _ abs_default
  have h2' : Abs (arg xs 2 default) (slot ws 2) := hxy.getD 2 _ _ abs_default
  have h3 : Abs (arg xs 3 default) (slot ws 3) := hxy.getD 3 _ _ abs_default
  have hx : ∀ w ∈ ws, w.ok := hxy.forall_right (fun _ _ h => h.2.1)
  have hsem : semL8 op.code xs = f (arg xs 0 default) (arg xs 1 default) (arg xs 2 default) (arg xs 3 default) := by
    rw [semL8_eq_spec ⟨name, hm⟩]; unfold specL8; rw [nameOf_of_mem hm]; simp only [Option.bind_some, hf]
  have hres := hhom _ _ _ _ h0.1 h1.1 h2'.1 h3.1
  obtain ⟨hi, hfin⟩ := waveSem_init_final cfg op ws hd hc hx
  have hok := waveSem_ok cfg op ws hd hc hx
  rw [hsem]
  refine ⟨hres.1, hok, ?_, ?_, ?_⟩
  · rw [hi, ← hres.2.2, e, h0.2.2.1, h1.2.2.1, h2'.2.2.1, h3.2.2.1]
  · rw [hfin, ← hres.2.1, e, h0.2.2.2.1, h1.2.2.2.1, h2'.2.2.2.1, h3.2.2.2.1]
  · intro h2
    have hconst := isConst_of_wave_inactive hres.1 h2
    have hs := slot_ok hx
    let E := envOf cfg op ws hd hc hs
    have hwf : ∀ i, WfRem ((fun i => (slot ws i).ents) i) := fun i => (hs i).1
    have hH : HazardFree E.lut (fun i => (slot ws i).ents)
        (f (arg xs 0 default) (arg xs 1 default) (arg xs 2 default) (arg xs 3 default)).p0 := by
      intro b hb
      rw [lutBit_eq]
      show lutBit4 op.code (b 0) (b 1) (b 2) (b 3) = _
      rw [← e]
      exact hhaz _ _ _ _ h0.1 h1.1 h2'.1 h3.1 hconst (b 0) (b 1) (b 2) (b 3)
        (agrees_of_abs h0 (fun hi => hb 0 hi)) (agrees_of_abs h1 (fun hi => hb 1 hi))
        (agrees_of_abs h2' (fun hi => hb 2 hi)) (agrees_of_abs h3 (fun hi => hb 3 hi))
    have hz := gate_hazard_free E _ hwf _ hH
    have hents : (waveSem cfg op ws).ents = (run E.lut E.D E.terms E.zcap (totalLen fun i => (slot ws i).ents)
        (init E.lut fun i => (slot ws i).ents)).z.reverse := rfl
    rw [hents]
    rcases hz with hz | hz <;> rw [hz]
    · exact Or.inl rfl
    · exact Or.inr rfl

/-- **every program over known op codes, every delay annotation ≥ 0, capacities ≥ 4**: if the stimulus
    values abstract the stimulus waveforms, then on every signal the 8-valued simulation abstracts the
    waveform of the timing simulation: same initial and final value, and no activity bit ⇒ no transition. -/
theorem sim8_predicts (cfg : WCfg) (ops : List Op) (hk : KnownProg ops) (hg : cfg.Good ops)
    (e8 : Nat → V3) (ew : Nat → Wv) (h : ∀ l, Abs (e8 l) (ew l)) (l : Nat) :
    Abs (exec semL8 ops e8 l) (simWave cfg ops ew l) :=
  execG_rel_on Abs (fun op => semL8 op.code) (waveSem cfg) ops
    (fun op hop xs ws hxy => gate_abstracts cfg op (hk op hop) hg.delay_nonneg (hg.cap_ge op hop) xs ws hxy) e8 ew h l

/-- stimuli over {0, 1, R, F} with any transition time abstract the waveforms `s_to_c` builds for them -/
theorem stim_abs (i f : Bool) (t : Int) : Abs ⟨f, i, i != f⟩ (stimWave i t f) := by
  cases i <;> cases f <;>
    simp [Abs, stimWave, V3.isWave, V3.unk, Wv.ok, WfRem, Wv.init, Wv.final, Inactive, T.isFin, T.isTerm]

/-- at a captured port: where 8-valued simulation reports a hazard-free constant, the timing simulator's
    earliest-arrival / latest-stabilisation entries are the "no transition" sentinels -/
theorem const_means_quiet {v : V3} {w : Wv} (h : Abs v w) (hc : v.p2 = false) (time : T) :
    (captureWv w time).eat = T.tmax ∧ (captureWv w time).lst = T.tmin ∧
    (captureWv w time).init = v.p1 ∧ (captureWv w time).final = v.p0 := by
  rw [capture_spec]
  refine ⟨?_, ?_, h.2.2.1, h.2.2.2.1⟩
  · rcases h.2.2.2.2 hc with he | he <;> simp [specEat, he]
  · rcases h.2.2.2.2 hc with he | he <;> simp [specLst, he]

/-! ## ALL circuits

The statements start from a NETLIST: every well-formed `net` (`Net.wfB`), every topological `order` (`orderOKB`), the op
program of the `SimOps` model with the generated prefix table; every delay annotation with delays ≥ 0 and every capacity
table with at least 4 entries on every line and on the scratch slot. `KnownProg` and `cfg.Good` are no longer hypotheses
(`genOps_known`, `good_all_circuits`). -/

/-- delays ≥ 0 and capacities ≥ 4 on the lines and the scratch slot give `cfg.Good` for the program of ANY netlist -/
theorem good_all_circuits (cfg : WCfg) (net : Net) (order : List Nat) (strip : Bool) (hwf : net.wfB = true)
    (ho : orderOKB net order = true) (hd : ∀ l p q, 0 ≤ cfg.delay l p q)
    (hc : ∀ l, l < net.lines.size → 4 ≤ cfg.cap l) (ht : 4 ≤ cfg.cap net.idx.tmp) :
    cfg.Good ((genOps Gen.kindPrefixes net order strip).map OpRow.toOp) :=
  good_of_caps Gen.kindPrefixes cfg net order strip hwf ho hd hc ht

/-- **every netlist, every topological order, every delay annotation ≥ 0, capacities ≥ 4**: if the 8-valued stimulus
    abstracts the stimulus waveforms, then on EVERY signal the result of the 8-valued logic simulation abstracts the
    waveform the timing simulation produces: same initial and final value, and no activity bit ⇒ no transition. -/
theorem sim8_predicts_all_circuits (net : Net) (order : List Nat) (hwf : net.wfB = true) (ho : orderOKB net order = true)
    (cfg : WCfg) (hd : ∀ l p q, 0 ≤ cfg.delay l p q) (hc : ∀ l, l < net.lines.size → 4 ≤ cfg.cap l)
    (ht : 4 ≤ cfg.cap net.idx.tmp) (e8 : Nat → V3) (ew : Nat → Wv) (h : ∀ l, Abs (e8 l) (ew l)) (l : Nat) :
    Abs (exec semL8 ((genOps Gen.kindPrefixes net order false).map OpRow.toOp) e8 l)
      (simWave cfg ((genOps Gen.kindPrefixes net order false).map OpRow.toOp) ew l) :=
  sim8_predicts cfg _ (genOps_known net order false) (good_all_circuits cfg net order false hwf ho hd hc ht) e8 ew h l

/-- … in terms of the gate equations, without an execution order: ANY solution `val8` of the netlist's 8-valued gate
    equations in the documented algebra (`specL8`; = the LogicSim result, `C02.sim8_all_circuits`) abstracts ANY solution
    `valw` of its waveform gate equations (`waveSem cfg`: `_wave_eval` with the delays of the operand lines and the capacity
    of the output line; = the WaveSim result, `C01.all_circuits_solution`) on every line -/
theorem predicts_solutions_all_circuits (net : Net) (order : List Nat) (hwf : net.wfB = true)
    (ho : orderOKB net order = true) (cfg : WCfg) (hd : ∀ l p q, 0 ≤ cfg.delay l p q)
    (hc : ∀ l, l < net.lines.size → 4 ≤ cfg.cap l) (ht : 4 ≤ cfg.cap net.idx.tmp)
    (e8 val8 : Nat → V3) (ew valw : Nat → Wv) (h : ∀ l, Abs (e8 l) (ew l))
    (h8 : SolvesJ (Jt net) (fun op => specL8 op.code) ((genOps Gen.kindPrefixes net order false).map OpRow.toOp) e8 val8)
    (hw : SolvesJ (Jt net) (waveSem cfg) ((genOps Gen.kindPrefixes net order false).map OpRow.toOp) ew valw)
    (x : Nat) (hx : Jt net x = false) : Abs (val8 x) (valw x) := by
  have hwo := genOps_WOJ Gen.kindPrefixes net order false hwf ho
  rw [(logic_all_circuits semL8 specL8 (fun _ hk xs => semL8_eq_spec hk xs) net order false hwf ho e8).2 val8 h8 x hx,
    solution_uniqueJ (Jt net) (waveSem cfg) _ hwo ew valw hw x hx]
  exact sim8_predicts_all_circuits net order hwf ho cfg hd hc ht e8 ew h x

/-- the stimulus of the property: every input carries 0, 1, a rise or a fall (`ini`, `fin`) at any time `t` -/
def stim8 (ini fin : Nat → Bool) : Nat → V3 := fun l => ⟨fin l, ini l, ini l != fin l⟩
def stimW (ini fin : Nat → Bool) (t : Nat → Int) : Nat → Wv := fun l => stimWave (ini l) (t l) (fin l)

/-- **the property as stated**: stimulus over {0, 1, R, F} with any transition times, every netlist, delays ≥ 0,
    capacities ≥ 4 -/
theorem sim8_predicts_stimulus_all_circuits (net : Net) (order : List Nat) (hwf : net.wfB = true)
    (ho : orderOKB net order = true) (cfg : WCfg) (hd : ∀ l p q, 0 ≤ cfg.delay l p q)
    (hc : ∀ l, l < net.lines.size → 4 ≤ cfg.cap l) (ht : 4 ≤ cfg.cap net.idx.tmp)
    (ini fin : Nat → Bool) (t : Nat → Int) (l : Nat) :
    Abs (exec semL8 ((genOps Gen.kindPrefixes net order false).map OpRow.toOp) (stim8 ini fin) l)
      (simWave cfg ((genOps Gen.kindPrefixes net order false).map OpRow.toOp) (stimW ini fin t) l) :=
  sim8_predicts_all_circuits net order hwf ho cfg hd hc ht _ _ (fun x => stim_abs (ini x) (fin x) (t x)) l

/-- **with `strip_forks` in the timing simulator** (domain hypothesis `forksOKB`, C06): the waveform model of the stripped
    WaveSim (eight-index rows: stems as value sources, branches as delay lines) is abstracted, on every signal that is not a
    stripped branch, by THE solution of the 8-valued gate equations of the un-stripped netlist. No hypothesis on fork
    delays or monotone stems is needed here (unlike `C06.strip_equiv_all_circuits`): the abstraction holds for every program. -/
theorem sim8_predicts_all_circuits_stripped (net : Net) (order : List Nat) (hwf : net.wfB = true)
    (ho : orderOKB net order = true) (hf : forksOKB net order = true) (cfg : WCfg) (hd : ∀ l p q, 0 ≤ cfg.delay l p q)
    (hc : ∀ l, l < net.lines.size → 4 ≤ cfg.cap l) (ht : 4 ≤ cfg.cap net.idx.tmp)
    (e8 val8 : Nat → V3) (ew : Nat → Wv) (h : ∀ l, Abs (e8 l) (ew l))
    (h8 : SolvesJ (Jt net) (fun op => specL8 op.code) ((genOps Gen.kindPrefixes net order false).map OpRow.toOp) e8 val8)
    (x : Nat) (hj : Jt net x = false) (hx : (stemsOf net true).getD x none = none) :
    Abs (val8 x) (simWave cfg ((genOps Gen.kindPrefixes net order true).map (fun r => redirect (stemList net) r.toOp)) ew x) := by
  rw [(logic_all_circuits semL8 specL8 (fun _ hk xs => semL8_eq_spec hk xs) net order false hwf ho e8).2 val8 h8 x hj,
    ← (strip_sig_logic Gen.kindPrefixes net order hwf ho hf semL8 default semL8_buf1 e8).1 x hx,
    ← exec8_redirect Gen.kindPrefixes net order e8]
  exact sim8_predicts cfg _ (genOps_known_map net order true (fun r => redirect (stemList net) r.toOp) (fun _ => rfl))
    (good_map cfg _ OpRow.toOp (fun r => redirect (stemList net) r.toOp) (fun _ => rfl)
      (good_all_circuits cfg net order true hwf ho hd hc ht)) e8 ew h x

/-! ### non-vacuity (netlists of `Proofs/AllCircDemo.lean` = `C01.demoNet`, `C06.forkNet`) -/

/-- delays 2 everywhere, capacity 8 -/
def demoCfg : WCfg := ⟨fun _ _ _ => 2, fun _ => 8⟩
theorem demoCfg_ok : (∀ l p q, 0 ≤ demoCfg.delay l p q) ∧ ∀ l, 4 ≤ demoCfg.cap l :=
  ⟨fun _ _ _ => by show (0 : Int) ≤ 2; decide, fun _ => by show 4 ≤ 8; decide⟩

/-- `demoNet` (AND2 + INV1): `a` (slot 9) rises at 5, `b` (slot 10) is 1 — the inverter output (line 5) falls, at 5 + 2·4 -/
def demoIni : Nat → Bool := fun l => l == 10
def demoFin : Nat → Bool := fun l => l == 9 || l == 10
example : exec semL8 ((genOps Gen.kindPrefixes Demo.demoNet Demo.demoOrder false).map OpRow.toOp) (stim8 demoIni demoFin) 5
      = ⟨false, true, true⟩ ∧
    simWave demoCfg ((genOps Gen.kindPrefixes Demo.demoNet Demo.demoOrder false).map OpRow.toOp)
      (stimW demoIni demoFin (fun _ => 5)) 5 = ⟨[T.tmin, T.fin 13], T.tmax⟩ := by decide +kernel
example (l : Nat) := sim8_predicts_stimulus_all_circuits Demo.demoNet Demo.demoOrder Demo.demo_hyps.1 Demo.demo_hyps.2.1
  demoCfg demoCfg_ok.1 (fun k _ => demoCfg_ok.2 k) (demoCfg_ok.2 _) demoIni demoFin (fun _ => 5) l

/-- … with `a` = 0 instead: the 8-valued result on the AND output (line 4) is a quiet 0 and the waveform has no transition -/
example : exec semL8 ((genOps Gen.kindPrefixes Demo.demoNet Demo.demoOrder false).map OpRow.toOp)
      (stim8 (fun _ => false) (fun l => l == 10)) 4 = V3.zero ∧
    simWave demoCfg ((genOps Gen.kindPrefixes Demo.demoNet Demo.demoOrder false).map OpRow.toOp)
      (stimW (fun _ => false) (fun l => l == 10) (fun _ => 5)) 4 = ⟨[], T.tmax⟩ := by decide +kernel

/-- `predicts_solutions_all_circuits`: its hypotheses hold for the simulation results themselves -/
example (x : Nat) (hx : Jt Demo.demoNet x = false) :=
  predicts_solutions_all_circuits Demo.demoNet Demo.demoOrder Demo.demo_hyps.1 Demo.demo_hyps.2.1
    demoCfg demoCfg_ok.1 (fun l _ => demoCfg_ok.2 l) (demoCfg_ok.2 _) (stim8 demoIni demoFin) _ (stimW demoIni demoFin (fun _ => 5)) _
    (fun l => stim_abs _ _ _)
    (logic_all_circuits semL8 specL8 (fun _ hk xs => semL8_eq_spec hk xs) Demo.demoNet Demo.demoOrder false
      Demo.demo_hyps.1 Demo.demo_hyps.2.1 _).1
    (execG_solution (Jt Demo.demoNet) (waveSem demoCfg) _
      (genOps_WOJ Gen.kindPrefixes Demo.demoNet Demo.demoOrder false Demo.demo_hyps.1 Demo.demo_hyps.2.1) _) x hx

/-- the stripped statement applies to `forkNet` (OR output, line 7, is not a branch): `a` (slot 12) rises at 5, `b` (slot 13)
    falls at 40 (the fork rows carry delay 2 here, so the stripped waveform — rise at 9 — differs from the un-stripped one —
    rise at 13 —; both are abstracted by the same 8-valued RISE) -/
example := sim8_predicts_all_circuits_stripped Demo.forkNet Demo.forkOrder Demo.fork_hyps.1 Demo.fork_hyps.2.1
  Demo.fork_hyps.2.2.1 demoCfg demoCfg_ok.1 (fun l _ => demoCfg_ok.2 l) (demoCfg_ok.2 _)
  (stim8 (fun l => l == 13) (fun l => l == 12)) _ (stimW (fun l => l == 13) (fun l => l == 12) (fun l => if l = 12 then 5 else 40))
  (fun l => stim_abs _ _ _)
  (logic_all_circuits semL8 specL8 (fun _ hk xs => semL8_eq_spec hk xs) Demo.forkNet Demo.forkOrder false
    Demo.fork_hyps.1 Demo.fork_hyps.2.1 _).1 7 (by decide +kernel) (by decide +kernel)
example : simWave demoCfg ((genOps Gen.kindPrefixes Demo.forkNet Demo.forkOrder true).map
      (fun r => redirect (stemList Demo.forkNet) r.toOp))
      (stimW (fun l => l == 13) (fun l => l == 12) (fun l => if l = 12 then 5 else 40)) 7 = ⟨[T.fin 9], T.tmax⟩ ∧
    simWave demoCfg ((genOps Gen.kindPrefixes Demo.forkNet Demo.forkOrder false).map OpRow.toOp)
      (stimW (fun l => l == 13) (fun l => l == 12) (fun l => if l = 12 then 5 else 40)) 7 = ⟨[T.fin 13], T.tmax⟩ ∧
    exec semL8 ((genOps Gen.kindPrefixes Demo.forkNet Demo.forkOrder false).map OpRow.toOp)
      (stim8 (fun l => l == 13) (fun l => l == 12)) 7 = ⟨true, false, true⟩ := by decide +kernel

/-- non-vacuity: AND2 of a constant 1 and a rising input is a rise; of a constant 0 and a rise is a quiet 0 -/
example : semL8 34952 [⟨true, true, false⟩, ⟨true, false, true⟩, default, default] = ⟨true, false, true⟩ := by decide +kernel
example : semL8 34952 [⟨false, false, false⟩, ⟨true, false, true⟩, default, default] = ⟨false, false, false⟩ := by decide +kernel

/-! ## memory level -/
open KV.MapSound

/-- **8-valued prediction on memory.** Accepted map, `c_caps_min ≥ 4`, delays ≥ 0, rows over known op codes; `e8` abstracts
    the stimulus stored in the initial memory. After ANY propagation (any implementation honouring `WaveStep`, any
    level-respecting order) the value `v` that 8-valued logic simulation of the rows (operands resolved through the stems,
    as `LogicSim` runs them) computes for the captured signal abstracts the waveform `w` in the region of output slot `j`:
    same initial and final value, no activity bit ⇒ no transition; and where `v` is a hazard-free constant the captured
    earliest arrival / latest stabilisation are the sentinels and `s[3]`, `s[6]` are its components. -/
theorem sim8_predicts_mem (p : MapIn) (hc : p.check = none) (h4 : 4 ≤ p.capsMin) (delay : Nat → Bool → Bool → Int)
    (hd : ∀ l a b, 0 ≤ delay l a b) (hk : ∀ o ∈ p.ops, KnownCode o.lut) (m0 m' : Int → T) (env0 : Nat → Wv)
    (e8 : Nat → V3) (hst : Stimulus p m0 env0) (hpr : Propagated p delay m0 m') (habs : ∀ l, Abs (e8 l) (env0 l))
    (j s : Nat) (hjs : (j, s) ∈ p.ppoSrcs) (time : T) :
    let v := exec semL8 (p.ops.map (sigOp p)) e8 s
    let w := rdWave (p.loc j) (p.cap j) m'
    Abs v w ∧
    (v.p2 = false → (captureWv w time).eat = T.tmax ∧ (captureWv w time).lst = T.tmin ∧
      (captureWv w time).init = v.p1 ∧ (captureWv w time).final = v.p0) := by
  intro v w
  have hkp : KnownProg (waveProg p) := by
    intro op hop
    obtain ⟨o, ho, rfl⟩ := List.mem_map.1 hop
    exact hk o ho
  have key : Abs v w := by
    show Abs (exec semL8 _ e8 s) (rdWave _ _ m')
    rw [propagated_eq_sim p hc delay m0 m' env0 hst hpr j s hjs, ← exec_waveProg semL8 first4_semL8]
    exact sim8_predicts (wcfg p delay) (waveProg p) hkp (wcfg_good p hc h4 delay hd) e8 env0 habs s
  exact ⟨key, fun h2 => const_means_quiet key h2 time⟩

/-- **all circuits.** The map record of the `SimOps` model with the real prefix table for ANY well-formed netlist,
    topological order, `strip_forks` / `c_reuse` setting, capacity vector, `c_caps_min ≥ 4`; `v8` ANY solution of the netlist's
    8-valued gate equations (rows of the un-stripped program, the real 8-valued dispatch `semL8`) for a stimulus `e8` that
    abstracts the input waveforms in memory. For every interface node `n` at position `i` whose data pin reads line `l`:
    `v8 l` abstracts the waveform in the region of output slot `i` after any propagation. -/
theorem sim8_predicts_mem_all_circuits (net : Net) (order : List Nat) (strip : Bool)
    (capsIn : Nat → Nat) (capsMin : Nat) (reuse : Bool) (p : MapIn)
    (hp : p = simopsMap Gen.kindPrefixes net order strip capsIn capsMin reuse)
    (hwf : net.wfB = true) (ho : orderOKB net order = true) (hf : strip = true → forksOKB net order = true)
    (hr : readsDrivenB Gen.kindPrefixes net order = true) (h4 : 4 ≤ capsMin)
    (delay : Nat → Bool → Bool → Int) (hd : ∀ l a b, 0 ≤ delay l a b) (m0 m' : Int → T) (env0 : Nat → Wv)
    (e8 v8 : Nat → V3) (hst : Stimulus p m0 env0) (hpr : Propagated p delay m0 m') (habs : ∀ l, Abs (e8 l) (env0 l))
    (hv8 : SolvesJ (Jt net) (fun op => semL8 op.code) ((genOps Gen.kindPrefixes net order false).map OpRow.toOp) e8 v8)
    (n i l : Nat) (hn : (n, i) ∈ net.sNodes.zipIdx) (hl : (net.node n).inPin 0 = some l) (time : T) :
    let w := rdWave (p.loc (net.idx.ppo + i)) (p.cap (net.idx.ppo + i)) m'
    Abs (v8 l) w ∧
    ((v8 l).p2 = false → (captureWv w time).eat = T.tmax ∧ (captureWv w time).lst = T.tmin ∧
      (captureWv w time).init = (v8 l).p1 ∧ (captureWv w time).final = (v8 l).p0) := by
  intro w
  have hc : p.check = none := by
    rw [hp]; exact simopsMap_accepted Gen.kindPrefixes net order strip capsIn capsMin reuse hwf ho hf hr (by omega)
  have hnet : p.net = net := by rw [hp]; rfl
  have hjs : (net.idx.ppo + i, p.src l) ∈ p.ppoSrcs := by
    have := mem_ppoSrcs p (n := n) (i := i) (l := l) (by rw [hnet]; exact hn) (by rw [hnet]; exact hl)
    have hix : p.ix = net.idx := by show p.net.idx = _; rw [hnet]
    rw [hix] at this; exact this
  have hk : ∀ o ∈ p.ops, KnownCode o.lut := by rw [hp]; exact genOps_known_rows net order strip
  have key := sim8_predicts_mem p hc (by rw [hp]; exact h4) delay hd hk m0 m' env0 e8 hst hpr habs _ _ hjs time
  have hval : exec semL8 (p.ops.map (sigOp p)) e8 (p.src l) = v8 l := by
    rw [hp]
    exact captured_logic Gen.kindPrefixes net order strip capsIn capsMin reuse hwf ho hf hr semL8 default semL8_buf1 e8 v8
      hv8 n i l hn hl
  simp only [hval] at key
  exact key

/-- non-vacuity on `Wave.memDemo` (strip + reuse; `a` rises at 5, `b` constant 1): the 8-valued stimulus `a = R`, `b = 1`
    abstracts the stored input waveforms, the 8-valued result for the captured line is a fall, and it abstracts what the real
    layout holds in the output slot's region after the propagation -/
example (junk : Int → Nat → Wv → (Int → T) → Int → T) :
    Abs ⟨false, true, true⟩ (rdWave 20 4 (memRun memDemo (waveRW junk) (waveRow (wcfg memDemo memDemoDelay) memDemo)
      (schedOps memDemo [1, 0, 2, 3]) memDemoM0)) := by
  let e8 : Nat → V3 := fun l => if l = 9 then ⟨true, false, true⟩ else if l = 10 then ⟨true, true, false⟩ else default
  have habs : ∀ l, Abs (e8 l) (inputEnv memDemo memDemoM0 l) := by
    intro l
    by_cases e9 : l = 9
    · subst e9; rw [memDemo_env.1]; exact stim_abs false true 5
    · by_cases e10 : l = 10
      · subst e10; rw [memDemo_env.2.1]
        have := stim_abs true true 0
        exact this
      · have : inputEnv memDemo memDemoM0 l = Wv.empty := by
          by_cases e6 : l = 6
          · subst e6; exact memDemo_env.2.2
          · unfold inputEnv
            rw [memDemo_tables.2.2.1, if_neg]
            simp only [List.mem_cons, List.not_mem_nil, or_false]
            rintro ((h | h) | h)
            · exact e9 h
            · exact e10 h
            · exact e6 h
        rw [this]
        have : e8 l = default := by simp [e8, e9, e10]
        rw [this]; exact abs_default
  have key := (sim8_predicts_mem memDemo memDemo_check (by decide) memDemoDelay memDemoDelay_nonneg
    (genOps_known_rows memDemoNet memDemoOrder true) memDemoM0 _ (inputEnv memDemo memDemoM0) e8 (stimulus_inputEnv _ _)
    (memDemo_propagated junk) habs 14 5 (by decide +kernel) T.tmax).1
  have hloc : memDemo.loc 14 = 20 ∧ memDemo.cap 14 = 4 := by decide +kernel
  have hv : exec semL8 (memDemo.ops.map (sigOp memDemo)) e8 5 = ⟨false, true, true⟩ := by decide +kernel
  rw [hloc.1, hloc.2, hv] at key
  exact key

end KV.C05
