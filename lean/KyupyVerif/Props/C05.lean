import KyupyVerif.Proofs.SemL
import KyupyVerif.Proofs.SpecHom
import KyupyVerif.Proofs.SpecHazard
import KyupyVerif.Proofs.WaveHazard
import KyupyVerif.Proofs.Capture
/-! # C05 — 8-valued logic simulation conservatively predicts timing simulation

`semL8` = what the real 8-valued `LogicSim.c_prop` chain computes for an op row (generated),
`waveSem` = the transcription of `_wave_eval` (tied by correspondence, see C03).
Relation `Abs v w`: the 8-valued value `v` abstracts the waveform `w`. -/
namespace KV.C05
open KV KV.Sig KV.Wave

/-- `v` abstracts `w`: initial/final components agree and "no activity" means no finite transition -/
def Abs (v : V3) (w : Wv) : Prop :=
  v.isWave = true ∧ w.ok ∧ w.init = v.p1 ∧ w.final = v.p0 ∧ (v.p2 = false → Inactive w.ents)

theorem abs_default : Abs (default : V3) Wv.empty :=
  ⟨rfl, Wv.empty_ok, rfl, rfl, fun _ => Or.inl rfl⟩

theorem isConst_of_wave_inactive {v : V3} (hw : v.isWave = true) (h2 : v.p2 = false) : v.isConst = true := by
  rcases v with ⟨a, b, c⟩
  simp only at h2; subst h2
  cases a <;> cases b <;> simp_all [V3.isWave, V3.unk, V3.isConst, V3.isZero, V3.isOne]

theorem agrees_of_abs {v : V3} {w : Wv} (h : Abs v w) {b : Bool}
    (hb : Inactive w.ents → b = (w.ents.length % 2 == 1)) : agreesInactive v b = true := by
  unfold agreesInactive
  cases hp : v.p2 with
  | true => simp
  | false =>
    have hbb := hb (h.2.2.2.2 hp)
    have hf := h.2.2.2.1
    unfold Wv.final at hf
    simp [hbb, hf]

/-- gate level: the 8-valued result of the real dispatch abstracts the waveform the evaluator produces,
    for every known op, all delays ≥ 0, every capacity ≥ 4 -/
theorem gate_abstracts (cfg : WCfg) (op : Op) (hk : KnownCode op.code) (hd : ∀ l p q, 0 ≤ cfg.delay l p q)
    (hc : 4 ≤ cfg.cap op.out) (xs : List V3) (ws : List Wv) (hxy : All2 Abs xs ws) :
    Abs (semL8 op.code xs) (waveSem cfg op ws) := by
  obtain ⟨name, hm⟩ := hk
  have hn := name_in_primNames hm
  obtain ⟨f, g, hf, hg, hhom⟩ := comp8_hom hn
  obtain ⟨f', g', hf', hg', hhaz⟩ := comp8_hazard hn
  have ef : f = f' := by rw [hf] at hf'; exact Option.some.inj hf'
  have eg : g = g' := by rw [hg] at hg'; exact Option.some.inj hg'
  subst ef; subst eg
  have hform := specL2_formula hm
  have e : ∀ a b c d, g a b c d = lutBit4 op.code a b c d := by
    intro a b c d
    have := hform a b c d; unfold formula at this; rw [hg] at this; simpa using this
  have h0 : Abs (arg xs 0 default) (slot ws 0) := hxy.getD 0 _ _ abs_default
  have h1 : Abs (arg xs 1 default) (slot ws 1) := hxy.getD 1 _ _ abs_default
  have h2' : Abs (arg xs 2 default) (slot ws 2) := hxy.getD 2 _ _ abs_default
  have h3 : Abs (arg xs 3 default) (slot ws 3) := hxy.getD 3 _ _ abs_default
  have hx : ∀ w ∈ ws, w.ok := hxy.forall_right (fun _ _ h => h.2.1)
  have hsem : semL8 op.code xs = f (arg xs 0 default) (arg xs 1 default) (arg xs 2 default) (arg xs 3 default) := by
    rw [semL8_eq_spec ⟨name, hm⟩]; unfold specL8; rw [nameOf_of_mem hm]; simp only [Option.bind_some, hf]
  have hres := hhom _ _ _ _ h0.1 h1.1 h2'.1 h3.1
  obtain ⟨hi, hfin⟩ := waveSem_init_final cfg op ws hd hc hx
  have hok := waveSem_ok cfg op ws hd hc hx
  rw [hsem]
  refine ⟨hres.1, hok, ?_, ?_, ?_⟩
  · rw [hi, ← hres.2.2, e, h0.2.2.1, h1.2.2.1, h2'.2.2.1, h3.2.2.1]
  · rw [hfin, ← hres.2.1, e, h0.2.2.2.1, h1.2.2.2.1, h2'.2.2.2.1, h3.2.2.2.1]
  · intro h2
    have hconst := isConst_of_wave_inactive hres.1 h2
    have hs := slot_ok hx
    let E := envOf cfg op ws hd hc hs
    have hwf : ∀ i, WfRem ((fun i => (slot ws i).ents) i) := fun i => (hs i).1
    have hH : HazardFree E.lut (fun i => (slot ws i).ents)
        (f (arg xs 0 default) (arg xs 1 default) (arg xs 2 default) (arg xs 3 default)).p0 := by
      intro b hb
      rw [lutBit_eq]
      show lutBit4 op.code (b 0) (b 1) (b 2) (b 3) = _
      rw [← e]
      exact hhaz _ _ _ _ h0.1 h1.1 h2'.1 h3.1 hconst (b 0) (b 1) (b 2) (b 3)
        (agrees_of_abs h0 (fun hi => hb 0 hi)) (agrees_of_abs h1 (fun hi => hb 1 hi))
        (agrees_of_abs h2' (fun hi => hb 2 hi)) (agrees_of_abs h3 (fun hi => hb 3 hi))
    have hz := gate_hazard_free E _ hwf _ hH
    have hents : (waveSem cfg op ws).ents = (run E.lut E.D E.terms E.zcap (totalLen fun i => (slot ws i).ents)
        (init E.lut fun i => (slot ws i).ents)).z.reverse := rfl
    rw [hents]
    rcases hz with hz | hz <;> rw [hz]
    · exact Or.inl rfl
    · exact Or.inr rfl

/-- **every program over known op codes, every delay annotation ≥ 0, capacities ≥ 4**: if the stimulus
    values abstract the stimulus waveforms, then on every signal the 8-valued simulation abstracts the
    waveform of the timing simulation: same initial and final value, and no activity bit ⇒ no transition. -/
theorem sim8_predicts (cfg : WCfg) (ops : List Op) (hk : KnownProg ops) (hg : cfg.Good ops)
    (e8 : Nat → V3) (ew : Nat → Wv) (h : ∀ l, Abs (e8 l) (ew l)) (l : Nat) :
    Abs (exec semL8 ops e8 l) (simWave cfg ops ew l) :=
  execG_rel_on Abs (fun op => semL8 op.code) (waveSem cfg) ops
    (fun op hop xs ws hxy => gate_abstracts cfg op (hk op hop) hg.delay_nonneg (hg.cap_ge op hop) xs ws hxy) e8 ew h l

/-- stimuli over {0, 1, R, F} with any transition time abstract the waveforms `s_to_c` builds for them -/
theorem stim_abs (i f : Bool) (t : Int) : Abs ⟨f, i, i != f⟩ (stimWave i t f) := by
  cases i <;> cases f <;>
    simp [Abs, stimWave, V3.isWave, V3.unk, Wv.ok, WfRem, Wv.init, Wv.final, Inactive, T.isFin, T.isTerm]

/-- at a captured port: where 8-valued simulation reports a hazard-free constant, the timing simulator's
    earliest-arrival / latest-stabilisation entries are the "no transition" sentinels -/
theorem const_means_quiet {v : V3} {w : Wv} (h : Abs v w) (hc : v.p2 = false) (time : T) :
    (captureWv w time).eat = T.tmax ∧ (captureWv w time).lst = T.tmin ∧
    (captureWv w time).init = v.p1 ∧ (captureWv w time).final = v.p0 := by
  rw [capture_spec]
  refine ⟨?_, ?_, h.2.2.1, h.2.2.2.1⟩
  · rcases h.2.2.2.2 hc with he | he <;> simp [specEat, he]
  · rcases h.2.2.2.2 hc with he | he <;> simp [specLst, he]

/-- non-vacuity: AND2 of a constant 1 and a rising input is a rise; of a constant 0 and a rise is a quiet 0 -/
example : semL8 34952 [⟨true, true, false⟩, ⟨true, false, true⟩, default, default] = ⟨true, false, true⟩ := by decide +kernel
example : semL8 34952 [⟨false, false, false⟩, ⟨true, false, true⟩, default, default] = ⟨false, false, false⟩ := by decide +kernel

end KV.C05
